/-
  C18 — the BFS of `split_block` (Model/Segmentation.lean: `bfsExpand`, `bfsLoop`, `bfs`, `assign`, `splitWith`).

  * `bfs` never runs out of fuel and never raises `KeyError` (`bfs_ok`, `bfs_never_out_of_fuel`);
  * the returned labelling is a BFS layering: the seed has label 0 and is the only such cell, every cell with
    label `d + 1` has a neighbour with label `d`, and labels grow by at most one along an edge into the block
    (`bfs_seed`, `bfs_zero`, `bfs_parent`, `bfs_lipschitz`);
  * hence both halves of the Voronoi split are non-empty, orthogonally connected, and together a permutation
    of the block (`splitWith_spec`).
-/
import CspuzModel.Proofs.C18Conn
namespace Cspuz.Seg.Proofs
open Cspuz.Seg Cspuz.Seg.Spec

/-! ### `dget` and the measure -/

theorem dget_cons (n : Cell) (v : Nat) (ans : Dist) (c : Cell) :
    dget ((n, v) :: ans) c = if n = c then some v else dget ans c := rfl

/-- Number of cells of the block that have no label yet. -/
def unv (blk : Block) (ans : Dist) : Nat := blk.countP (fun c => (dget ans c).isNone)

theorem unv_le_length (blk : Block) (ans : Dist) : unv blk ans ≤ blk.length := List.countP_le_length

theorem unv_cons_le (blk : Block) (n : Cell) (v : Nat) (ans : Dist) :
    unv blk ((n, v) :: ans) ≤ unv blk ans := by
  unfold unv
  apply List.countP_mono_left
  intro c _ hc
  rw [dget_cons] at hc
  split at hc
  · simp at hc
  · exact hc

theorem unv_cons_lt {blk : Block} {n : Cell} (v : Nat) {ans : Dist} (hn : n ∈ blk) (h : dget ans n = none) :
    unv blk ((n, v) :: ans) + 1 ≤ unv blk ans := by
  induction blk with
  | nil => cases hn
  | cons b bs ih =>
    have hle := unv_cons_le bs n v ans
    unfold unv at *
    rw [List.countP_cons, List.countP_cons]
    by_cases hb : n = b
    · subst hb
      simp only [dget_cons, if_true, h, Option.isNone_some, Option.isNone_none]
      simp
      exact hle
    · have hn' : n ∈ bs := by
        rcases List.mem_cons.1 hn with h' | h'
        · exact absurd h' hb
        · exact h'
      have := ih hn'
      have hbb : dget ((n, v) :: ans) b = dget ans b := by rw [dget_cons, if_neg hb]
      rw [hbb]
      omega

/-! ### `bfsExpand` -/

/-- E1: labels are never changed. -/
theorem bfsExpand_mono (blk : Block) (d : Nat) : ∀ (ns q : List Cell) (ans : Dist) (c : Cell) (x : Nat),
    dget ans c = some x → dget (bfsExpand blk d ns q ans).2 c = some x := by
  intro ns
  induction ns with
  | nil => intro q ans c x h; exact h
  | cons n ns ih =>
    intro q ans c x h
    simp only [bfsExpand]
    split
    · rename_i hn
      apply ih
      rw [dget_cons]
      split
      · rename_i hnc
        subst hnc
        rw [hn.2] at h
        cases h
      · exact h
    · exact ih _ _ _ _ h

/-- E4: the queue is extended at the end, by cells that get label `d + 1`. -/
theorem bfsExpand_queue (blk : Block) (d : Nat) : ∀ (ns q : List Cell) (ans : Dist),
    ∃ ext, (bfsExpand blk d ns q ans).1 = q ++ ext ∧
      ∀ c ∈ ext, dget (bfsExpand blk d ns q ans).2 c = some (d + 1) := by
  intro ns
  induction ns with
  | nil => intro q ans; exact ⟨[], by simp [bfsExpand], by simp⟩
  | cons n ns ih =>
    intro q ans
    simp only [bfsExpand]
    split
    · obtain ⟨ext, h1, h2⟩ := ih (q ++ [n]) ((n, d + 1) :: ans)
      refine ⟨n :: ext, by rw [h1]; simp, ?_⟩
      intro c hc
      rcases List.mem_cons.1 hc with hc | hc
      · subst hc
        apply bfsExpand_mono
        simp [dget_cons]
      · exact h2 c hc
    · exact ih q ans

/-- E2: a label of the result is an old label or a fresh `d + 1` on a neighbour inside the block, which
is then in the queue. -/
theorem bfsExpand_new (blk : Block) (d : Nat) : ∀ (ns q : List Cell) (ans : Dist) (c : Cell) (x : Nat),
    dget (bfsExpand blk d ns q ans).2 c = some x →
    dget ans c = some x ∨
      (x = d + 1 ∧ c ∈ ns ∧ c ∈ blk ∧ dget ans c = none ∧ c ∈ (bfsExpand blk d ns q ans).1) := by
  intro ns
  induction ns with
  | nil => intro q ans c x h; exact Or.inl h
  | cons n ns ih =>
    intro q ans c x h
    simp only [bfsExpand] at h ⊢
    split at h
    · rename_i hn
      rw [if_pos hn]
      rcases ih _ _ _ _ h with h' | ⟨h1, h2, h3, h4, h5⟩
      · rw [dget_cons] at h'
        split at h'
        · rename_i hnc
          subst hnc
          right
          refine ⟨by cases h'; rfl, by simp, hn.1, hn.2, ?_⟩
          obtain ⟨ext, he, _⟩ := bfsExpand_queue blk d ns (q ++ [n]) ((n, d + 1) :: ans)
          rw [he]
          simp
        · exact Or.inl h'
      · rw [dget_cons] at h4
        split at h4
        · cases h4
        · exact Or.inr ⟨h1, List.mem_cons_of_mem _ h2, h3, h4, h5⟩
    · rename_i hn
      rw [if_neg hn]
      rcases ih _ _ _ _ h with h' | ⟨h1, h2, h3, h4, h5⟩
      · exact Or.inl h'
      · exact Or.inr ⟨h1, List.mem_cons_of_mem _ h2, h3, h4, h5⟩

/-- E3: every neighbour inside the block has a label afterwards (an old one, or `d + 1`). -/
theorem bfsExpand_nbr (blk : Block) (d : Nat) : ∀ (ns q : List Cell) (ans : Dist) (n : Cell),
    n ∈ ns → n ∈ blk →
    ∃ x, dget (bfsExpand blk d ns q ans).2 n = some x ∧ (dget ans n = some x ∨ x = d + 1) := by
  intro ns
  induction ns with
  | nil => intro q ans n h; cases h
  | cons m ns ih =>
    intro q ans n hn hb
    simp only [bfsExpand]
    split
    · rename_i hm
      by_cases hmn : m = n
      · subst hmn
        exact ⟨d + 1, bfsExpand_mono _ _ _ _ _ _ _ (by simp [dget_cons]), Or.inr rfl⟩
      · have hn' : n ∈ ns := by
          rcases List.mem_cons.1 hn with h' | h'
          · exact absurd h'.symm hmn
          · exact h'
        obtain ⟨x, h1, h2⟩ := ih (q ++ [m]) ((m, d + 1) :: ans) n hn' hb
        rw [dget_cons, if_neg hmn] at h2
        exact ⟨x, h1, h2⟩
    · rename_i hm
      rcases List.mem_cons.1 hn with h' | h'
      · subst h'
        cases hx : dget ans n with
        | none => exact absurd ⟨hb, hx⟩ hm
        | some x => exact ⟨x, bfsExpand_mono _ _ _ _ _ _ _ hx, Or.inl rfl⟩
      · exact ih q ans n h' hb

/-- E5: every push is paid for by a cell of the block that was unlabelled. -/
theorem bfsExpand_measure (blk : Block) (d : Nat) : ∀ (ns q : List Cell) (ans : Dist),
    (bfsExpand blk d ns q ans).1.length + unv blk (bfsExpand blk d ns q ans).2 ≤ q.length + unv blk ans := by
  intro ns
  induction ns with
  | nil => intro q ans; exact Nat.le_refl _
  | cons n ns ih =>
    intro q ans
    simp only [bfsExpand]
    split
    · rename_i hn
      have h1 := ih (q ++ [n]) ((n, d + 1) :: ans)
      have h2 := unv_cons_lt (d + 1) hn.1 hn.2
      simp only [List.length_append, List.length_cons, List.length_nil] at h1
      omega
    · exact ih q ans

/-! ### The loop invariant -/

/-- Invariant of `while len(q) > 0` in `bfs`. -/
structure BfsInv (blk : Block) (seed : Cell) (q : List Cell) (ans : Dist) : Prop where
  /-- queued cells are labelled (no `KeyError`) -/
  qlab : ∀ c ∈ q, ∃ x, dget ans c = some x
  /-- labels are non-decreasing along the queue -/
  sorted : q.Pairwise (fun a b => ∀ x y, dget ans a = some x → dget ans b = some y → x ≤ y)
  /-- no label exceeds a queued label by more than one -/
  bound : ∀ c0 ∈ q, ∀ x0, dget ans c0 = some x0 → ∀ c x, dget ans c = some x → x ≤ x0 + 1
  /-- a labelled cell is still queued, or all its neighbours in the block are labelled -/
  closed : ∀ u du, dget ans u = some du →
    u ∈ q ∨ ∀ v, Adj4 u v → v ∈ blk → ∃ dv, dget ans v = some dv ∧ dv ≤ du + 1
  parent : ∀ c x, dget ans c = some (x + 1) → ∃ p, Adj4 p c ∧ (p ∈ blk ∨ p = seed) ∧ dget ans p = some x
  zero : ∀ c, dget ans c = some 0 → c = seed
  seed0 : dget ans seed = some 0
  keys : ∀ c x, dget ans c = some x → c ∈ blk ∨ c = seed

theorem bfsInv_init (blk : Block) (seed : Cell) : BfsInv blk seed [seed] [(seed, 0)] := by
  have key : ∀ c x, dget [(seed, 0)] c = some x → c = seed ∧ x = 0 := by
    intro c x h
    rw [dget_cons] at h
    split at h
    · rename_i hc
      cases h
      exact ⟨hc.symm, rfl⟩
    · cases h
  have hs : dget [(seed, 0)] seed = some 0 := by simp [dget_cons]
  refine ⟨?_, ?_, ?_, ?_, ?_, ?_, hs, ?_⟩
  · intro c hc
    rw [List.mem_singleton.1 hc]
    exact ⟨0, hs⟩
  · exact List.pairwise_singleton _ _
  · intro c0 _ x0 _ c x h
    have := (key c x h).2
    omega
  · intro u du h
    exact Or.inl (by rw [(key u du h).1]; simp)
  · intro c x h
    have := (key c _ h).2
    omega
  · intro c h
    exact (key c 0 h).1
  · intro c x h
    exact Or.inr (key c x h).1

theorem bfsInv_step {blk : Block} {seed c0 : Cell} {q : List Cell} {ans : Dist} {d0 : Nat}
    (I : BfsInv blk seed (c0 :: q) ans) (h0 : dget ans c0 = some d0) :
    BfsInv blk seed (bfsExpand blk d0 (nbrs4 c0) q ans).1 (bfsExpand blk d0 (nbrs4 c0) q ans).2 := by
  obtain ⟨ext, hq, hext⟩ := bfsExpand_queue blk d0 (nbrs4 c0) q ans
  have mono := bfsExpand_mono blk d0 (nbrs4 c0) q ans
  have new := bfsExpand_new blk d0 (nbrs4 c0) q ans
  have nbr := bfsExpand_nbr blk d0 (nbrs4 c0) q ans
  generalize bfsExpand blk d0 (nbrs4 c0) q ans = r at *
  obtain ⟨q', ans'⟩ := r
  simp only at hq hext mono new nbr ⊢
  subst hq
  have hsort := List.pairwise_cons.1 I.sorted
  have hge : ∀ b ∈ q, ∀ y, dget ans b = some y → d0 ≤ y := fun b hb y hy => hsort.1 b hb d0 y h0 hy
  have hbd : ∀ c x, dget ans c = some x → x ≤ d0 + 1 := I.bound c0 (by simp) d0 h0
  have hbd' : ∀ c x, dget ans' c = some x → x ≤ d0 + 1 := by
    intro c x hx
    rcases new c x hx with h | h
    · exact hbd c x h
    · omega
  -- labels of old queue members are unchanged
  have hqold : ∀ c ∈ q, ∀ x, dget ans' c = some x → dget ans c = some x := by
    intro c hc x hx
    obtain ⟨y, hy⟩ := I.qlab c (List.mem_cons_of_mem _ hc)
    have := mono c y hy
    rw [this] at hx
    cases hx
    exact hy
  refine ⟨?_, ?_, ?_, ?_, ?_, ?_, mono _ _ I.seed0, ?_⟩
  · intro c hc
    rcases List.mem_append.1 hc with hc | hc
    · obtain ⟨y, hy⟩ := I.qlab c (List.mem_cons_of_mem _ hc)
      exact ⟨y, mono c y hy⟩
    · exact ⟨_, hext c hc⟩
  · rw [List.pairwise_append]
    refine ⟨?_, ?_, ?_⟩
    · refine hsort.2.imp_of_mem ?_
      intro a b ha hb hab x y hx hy
      exact hab x y (hqold a ha x hx) (hqold b hb y hy)
    · apply List.pairwise_of_forall_mem_list
      intro a ha b hb x y hx hy
      rw [hext a ha] at hx
      rw [hext b hb] at hy
      cases hx; cases hy
      exact Nat.le_refl _
    · intro a ha b hb x y hx hy
      rw [hext b hb] at hy
      cases hy
      exact hbd' a x hx
  · intro c1 hc1 x1 hx1 c x hx
    have h1 := hbd' c x hx
    rcases List.mem_append.1 hc1 with hc1 | hc1
    · have := hge c1 hc1 x1 (hqold c1 hc1 x1 hx1)
      omega
    · rw [hext c1 hc1] at hx1
      cases hx1
      omega
  · intro u du hu
    rcases new u du hu with h | h
    · rcases I.closed u du h with hm | hcl
      · rcases List.mem_cons.1 hm with hm | hm
        · subst hm
          right
          intro v hadj hv
          rw [h0] at h
          cases h
          obtain ⟨x, hx1, _⟩ := nbr v (mem_nbrs4_of_adj4 hadj) hv
          exact ⟨x, hx1, hbd' v x hx1⟩
        · exact Or.inl (List.mem_append_left _ hm)
      · right
        intro v hadj hv
        obtain ⟨dv, h1, h2⟩ := hcl v hadj hv
        exact ⟨dv, mono v dv h1, h2⟩
    · exact Or.inl h.2.2.2.2
  · intro c x hx
    rcases new c (x + 1) hx with h | h
    · obtain ⟨p, h1, h2, h3⟩ := I.parent c x h
      exact ⟨p, h1, h2, mono p x h3⟩
    · refine ⟨c0, adj4_of_mem_nbrs4 h.2.1, I.keys c0 d0 h0, ?_⟩
      have : x = d0 := by omega
      rw [this]
      exact mono c0 d0 h0
  · intro c hc
    rcases new c 0 hc with h | h
    · exact I.zero c h
    · omega
  · intro c x hx
    rcases new c x hx with h | h
    · exact I.keys c x h
    · exact Or.inl h.2.2.1

theorem bfsLoop_inv (blk : Block) (seed : Cell) : ∀ (fuel : Nat) (q : List Cell) (ans : Dist),
    BfsInv blk seed q ans → q.length + unv blk ans ≤ fuel →
    ∃ ans', bfsLoop blk fuel q ans = .ok ans' ∧ BfsInv blk seed [] ans' := by
  intro fuel
  induction fuel with
  | zero =>
    intro q ans I hf
    cases q with
    | nil => exact ⟨ans, by simp [bfsLoop], I⟩
    | cons c q => simp at hf
  | succ fuel ih =>
    intro q ans I hf
    cases q with
    | nil => exact ⟨ans, by simp [bfsLoop], I⟩
    | cons c q =>
      obtain ⟨d, hd⟩ := I.qlab c (by simp)
      simp only [bfsLoop, hd]
      apply ih _ _ (bfsInv_step I hd)
      have := bfsExpand_measure blk d (nbrs4 c) q ans
      simp only [List.length_cons] at hf
      omega

theorem bfs_inv (blk : Block) (seed : Cell) : ∃ ans, bfs blk seed = .ok ans ∧ BfsInv blk seed [] ans := by
  unfold bfs
  apply bfsLoop_inv blk seed _ _ _ (bfsInv_init blk seed)
  have := unv_le_length blk [(seed, 0)]
  simp only [List.length_cons, List.length_nil]
  omega

/-! ### Interface: `bfs` -/

theorem bfs_ok (blk : Block) (seed : Cell) : ∃ ans, bfs blk seed = .ok ans := by
  obtain ⟨ans, h, _⟩ := bfs_inv blk seed
  exact ⟨ans, h⟩

/-- The fuel `len(block) + 1` supplied by `bfs` is sufficient. -/
theorem bfs_never_out_of_fuel (blk : Block) (seed : Cell) : bfs blk seed ≠ .error .runtimeError := by
  obtain ⟨ans, h⟩ := bfs_ok blk seed
  rw [h]
  intro h'
  cases h'

theorem bfs_inv_of_ok {blk : Block} {seed : Cell} {ans : Dist} (h : bfs blk seed = .ok ans) :
    BfsInv blk seed [] ans := by
  obtain ⟨ans', h', I⟩ := bfs_inv blk seed
  rw [h] at h'
  cases h'
  exact I

theorem bfs_seed {blk : Block} {seed : Cell} {ans : Dist} (h : bfs blk seed = .ok ans) : dget ans seed = some 0 :=
  (bfs_inv_of_ok h).seed0

theorem bfs_zero {blk : Block} {seed : Cell} {ans : Dist} (h : bfs blk seed = .ok ans) {c : Cell}
    (hc : dget ans c = some 0) : c = seed :=
  (bfs_inv_of_ok h).zero c hc

theorem bfs_parent {blk : Block} {seed : Cell} {ans : Dist} (h : bfs blk seed = .ok ans) {c : Cell} {d : Nat}
    (hc : dget ans c = some (d + 1)) : ∃ p, Adj4 p c ∧ (p ∈ blk ∨ p = seed) ∧ dget ans p = some d :=
  (bfs_inv_of_ok h).parent c d hc

theorem bfs_lipschitz {blk : Block} {seed : Cell} {ans : Dist} (h : bfs blk seed = .ok ans) {u v : Cell} {du : Nat}
    (hu : dget ans u = some du) (hadj : Adj4 u v) (hv : v ∈ blk) : ∃ dv, dget ans v = some dv ∧ dv ≤ du + 1 := by
  rcases (bfs_inv_of_ok h).closed u du hu with hm | hcl
  · cases hm
  · exact hcl v hadj hv

/-! ### `assign` -/

theorem assign_spec (da db : Dist) : ∀ (l : List Cell) (A B : Block), assign da db l = .ok (A, B) →
    (A ++ B).Perm l ∧ (∀ c ∈ l, ∃ x y, dget da c = some x ∧ dget db c = some y) ∧
    (∀ c, c ∈ A ↔ c ∈ l ∧ ∃ x y, dget da c = some x ∧ dget db c = some y ∧ x ≤ y) ∧
    (∀ c, c ∈ B ↔ c ∈ l ∧ ∃ x y, dget da c = some x ∧ dget db c = some y ∧ y < x) := by
  intro l
  induction l with
  | nil =>
    intro A B h
    simp only [assign] at h
    cases h
    simp
  | cons c cs ih =>
    intro A B h
    simp only [assign] at h
    cases hx : dget da c with
    | none => rw [hx] at h; cases h
    | some x =>
      cases hy : dget db c with
      | none => rw [hx, hy] at h; cases h
      | some y =>
        cases hr : assign da db cs with
        | error e => rw [hx, hy, hr] at h; cases h
        | ok r =>
          obtain ⟨A', B'⟩ := r
          obtain ⟨p1, p2, p3, p4⟩ := ih A' B' hr
          rw [hx, hy, hr] at h
          simp only at h
          by_cases hxy : x ≤ y
          · rw [if_pos hxy] at h
            cases h
            refine ⟨?_, ?_, ?_, ?_⟩
            · exact List.Perm.cons c p1
            · intro c' hc'
              rcases List.mem_cons.1 hc' with hc' | hc'
              · subst hc'; exact ⟨x, y, hx, hy⟩
              · exact p2 c' hc'
            · intro c'
              rw [List.mem_cons, List.mem_cons, p3 c']
              constructor
              · rintro (h | h)
                · subst h; exact ⟨Or.inl rfl, x, y, hx, hy, hxy⟩
                · exact ⟨Or.inr h.1, h.2⟩
              · rintro ⟨h | h, h2⟩
                · exact Or.inl h
                · exact Or.inr ⟨h, h2⟩
            · intro c'
              rw [List.mem_cons, p4 c']
              constructor
              · rintro ⟨h, h2⟩
                exact ⟨Or.inr h, h2⟩
              · rintro ⟨h | h, h2⟩
                · subst h
                  obtain ⟨x', y', hx', hy', hlt⟩ := h2
                  rw [hx] at hx'; rw [hy] at hy'
                  cases hx'; cases hy'
                  omega
                · exact ⟨h, h2⟩
          · rw [if_neg hxy] at h
            cases h
            refine ⟨?_, ?_, ?_, ?_⟩
            · exact (List.perm_middle).trans (List.Perm.cons c p1)
            · intro c' hc'
              rcases List.mem_cons.1 hc' with hc' | hc'
              · subst hc'; exact ⟨x, y, hx, hy⟩
              · exact p2 c' hc'
            · intro c'
              rw [List.mem_cons, p3 c']
              constructor
              · rintro ⟨h, h2⟩
                exact ⟨Or.inr h, h2⟩
              · rintro ⟨h | h, h2⟩
                · subst h
                  obtain ⟨x', y', hx', hy', hle⟩ := h2
                  rw [hx] at hx'; rw [hy] at hy'
                  cases hx'; cases hy'
                  omega
                · exact ⟨h, h2⟩
            · intro c'
              rw [List.mem_cons, List.mem_cons, p4 c']
              constructor
              · rintro (h | h)
                · subst h; exact ⟨Or.inl rfl, x, y, hx, hy, by omega⟩
                · exact ⟨Or.inr h.1, h.2⟩
              · rintro ⟨h | h, h2⟩
                · exact Or.inl h
                · exact Or.inr ⟨h, h2⟩

/-! ### `splitWith` -/

/-- What `splitWith` computes, when it succeeds. -/
theorem splitWith_ok_iff {blk A B : Block} {a b : Nat} (h : splitWith blk a b = .ok (A, B)) :
    ∃ sa sb da db, blk[a]? = some sa ∧ blk[b]? = some sb ∧ bfs blk sa = .ok da ∧ bfs blk sb = .ok db ∧
      assign da db blk = .ok (A, B) := by
  unfold splitWith at h
  split at h
  · rename_i sa sb ha hb
    split at h
    · cases h
    · rename_i da hda
      split at h
      · cases h
      · rename_i db hdb
        exact ⟨sa, sb, da, db, ha, hb, hda, hdb, h⟩
  · cases h

/-- Connectivity of the half closer (or equally close) to the first seed. -/
theorem split_reach_A {blk A : Block} {sa sb : Cell} {da db : Dist} (hsa : sa ∈ blk)
    (hda : bfs blk sa = .ok da) (hdb : bfs blk sb = .ok db)
    (hlab : ∀ c ∈ blk, ∃ x y, dget da c = some x ∧ dget db c = some y)
    (hA : ∀ c, c ∈ A ↔ c ∈ blk ∧ ∃ x y, dget da c = some x ∧ dget db c = some y ∧ x ≤ y) :
    ∀ (n : Nat) (c : Cell), c ∈ A → dget da c = some n → Reach (fun c => c ∈ A) sa c := by
  intro n
  induction n with
  | zero =>
    intro c hc h
    rw [bfs_zero hda h] at hc ⊢
    exact .refl hc
  | succ d ih =>
    intro c hc h
    obtain ⟨p, hadj, hp, hpd⟩ := bfs_parent hda h
    have hpb : p ∈ blk := by
      rcases hp with hp | hp
      · exact hp
      · rw [hp]; exact hsa
    obtain ⟨hcb, x, y, hx, hy, hxy⟩ := (hA c).1 hc
    obtain ⟨xp, yp, hxp, hyp⟩ := hlab p hpb
    obtain ⟨dv, hdv, hle⟩ := bfs_lipschitz hdb hyp hadj hcb
    rw [h] at hx; cases hx
    rw [hy] at hdv; cases hdv
    rw [hpd] at hxp; cases hxp
    have hpA : p ∈ A := (hA p).2 ⟨hpb, d, yp, hpd, hyp, by omega⟩
    exact .step (ih p hpA hpd) hc hadj

/-- Connectivity of the half strictly closer to the second seed. -/
theorem split_reach_B {blk B : Block} {sa sb : Cell} {da db : Dist} (hsb : sb ∈ blk)
    (hda : bfs blk sa = .ok da) (hdb : bfs blk sb = .ok db)
    (hlab : ∀ c ∈ blk, ∃ x y, dget da c = some x ∧ dget db c = some y)
    (hB : ∀ c, c ∈ B ↔ c ∈ blk ∧ ∃ x y, dget da c = some x ∧ dget db c = some y ∧ y < x) :
    ∀ (n : Nat) (c : Cell), c ∈ B → dget db c = some n → Reach (fun c => c ∈ B) sb c := by
  intro n
  induction n with
  | zero =>
    intro c hc h
    rw [bfs_zero hdb h] at hc ⊢
    exact .refl hc
  | succ d ih =>
    intro c hc h
    obtain ⟨p, hadj, hp, hpd⟩ := bfs_parent hdb h
    have hpb : p ∈ blk := by
      rcases hp with hp | hp
      · exact hp
      · rw [hp]; exact hsb
    obtain ⟨hcb, x, y, hx, hy, hxy⟩ := (hB c).1 hc
    obtain ⟨xp, yp, hxp, hyp⟩ := hlab p hpb
    obtain ⟨dv, hdv, hle⟩ := bfs_lipschitz hda hxp hadj hcb
    rw [h] at hy; cases hy
    rw [hx] at hdv; cases hdv
    rw [hpd] at hyp; cases hyp
    have hpB : p ∈ B := (hB p).2 ⟨hpb, xp, d, hxp, hpd, by omega⟩
    exact .step (ih p hpB hpd) hc hadj

theorem splitWith_spec {blk A B : Block} {a b : Nat} (h : splitWith blk a b = .ok (A, B)) (hnd : blk.Nodup)
    (hab : a ≠ b) : (A ++ B).Perm blk ∧ A ≠ [] ∧ B ≠ [] ∧ OrthConnected A ∧ OrthConnected B := by
  obtain ⟨sa, sb, da, db, ha, hb, hda, hdb, hasg⟩ := splitWith_ok_iff h
  obtain ⟨hperm, hlab, hA, hB⟩ := assign_spec da db blk A B hasg
  have hsa : sa ∈ blk := List.mem_of_getElem? ha
  have hsb : sb ∈ blk := List.mem_of_getElem? hb
  have hne : sa ≠ sb := by
    intro he
    have hlt : a < blk.length := by
      rcases Nat.lt_or_ge a blk.length with h' | h'
      · exact h'
      · rw [List.getElem?_eq_none h'] at ha; cases ha
    exact hab ((List.getElem?_inj hlt hnd).1 (by rw [ha, hb, he]))
  have hsaA : sa ∈ A := by
    obtain ⟨x, y, hx, hy⟩ := hlab sa hsa
    have := bfs_seed hda
    rw [this] at hx; cases hx
    exact (hA sa).2 ⟨hsa, 0, y, this, hy, Nat.zero_le _⟩
  have hsbB : sb ∈ B := by
    obtain ⟨x, y, hx, hy⟩ := hlab sb hsb
    have := bfs_seed hdb
    rw [this] at hy; cases hy
    have hx0 : x ≠ 0 := by
      intro hx0
      rw [hx0] at hx
      exact hne (bfs_zero hda hx).symm
    exact (hB sb).2 ⟨hsb, x, 0, hx, this, by omega⟩
  refine ⟨hperm, List.ne_nil_of_mem hsaA, List.ne_nil_of_mem hsbB, ?_, ?_⟩
  · apply connectedOn_of_hub sa
    intro c hc
    obtain ⟨_, x, y, hx, _, _⟩ := (hA c).1 hc
    exact split_reach_A hsa hda hdb hlab hA x c hc hx
  · apply connectedOn_of_hub sb
    intro c hc
    obtain ⟨_, x, y, _, hy, _⟩ := (hB c).1 hc
    exact split_reach_B hsb hda hdb hlab hB y c hc hy

end Cspuz.Seg.Proofs
