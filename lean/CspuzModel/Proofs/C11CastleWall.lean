/-
  C11 for `solve_castle_wall`: closed form of the posted program (frame, cycle constraint, arrow constraints, the
  crossing-parity recurrence of `is_inside`, the inside / outside marks).
-/
import CspuzModel.Proofs.C11LoopExt
import CspuzModel.Proofs.C11Geradeweg
import CspuzModel.Proofs.C11ArrOps
import CspuzModel.Spec.PuzzleRules.CastleWall
namespace Cspuz.Proofs.C11CastleWall
open Cspuz Cspuz.Spec Cspuz.Spec.FrameGeom Cspuz.Spec.Loop Cspuz.Proofs Cspuz.Proofs.C11Loop Cspuz.Proofs.C11LoopExt
open Cspuz.Puzzles Cspuz.Puzzles.Loop Cspuz.Puzzles.CastleWall Cspuz.Spec.CastleWall
open Cspuz.Proofs.C11Slitherlink (mem_cellsOf)
open Cspuz.Proofs.C11Geradeweg (axisSel_to axisSel_from passed_get')
open Cspuz.Proofs.C14 (segExpr)

/-! ### frame + cycle constraint + `m` hidden auxiliary Booleans + extra constraints -/

theorem encodes_hidden (H W m : Nat) (extra : List Expr) (G : (Seg → Bool) → Prop)
    (hG : ∀ on on', (∀ s, s.Valid H W → on s = on' s) → (G on ↔ G on'))
    (hsound : ∀ σ : Asg, IsLoop H W (onOf H W σ) →
      (∀ p, PtValid H W p → σ.b (Frame.numVars H W + ptIndex W p) = onLoop H W (onOf H W σ) p) →
      (∀ c ∈ extra, eval σ c = some (.b true)) → G (onOf H W σ))
    (hcomplete : ∀ σ : Asg, IsLoop H W (onOf H W σ) →
      (∀ p, PtValid H W p → σ.b (Frame.numVars H W + ptIndex W p) = onLoop H W (onOf H W σ) p) →
      G (onOf H W σ) → ∃ σ', AgreeBelow (B H W) σ σ' ∧ ∀ c ∈ extra, eval σ' c = some (.b true)) :
    EncodesRules
      { decls := List.replicate (Frame.numVars H W) .bool ++ (cyc H W).decls ++ List.replicate m .bool,
        cs := (cyc H W).cs ++ extra,
        keys := List.range (Frame.numVars H W) }
      (fun a => ∃ on, a = segAnswer H W on ∧ IsLoop H W on ∧ G on) := by
  intro a
  constructor
  · rintro ⟨σ, hσ, hk⟩
    obtain ⟨hfrag, hex⟩ := (sat_split_ext _ _ _ _ σ).mp hσ
    refine ⟨onOf H W σ, ?_, loop_of_sat H W σ hfrag,
      hsound σ (loop_of_sat H W σ hfrag) (passed_of_sat H W σ hfrag) hex⟩
    have hk' : (segAnswer H W (onOf H W σ)).map some = a.map some := by
      rw [← keyVals_frame H W ((cyc H W).decls ++ List.replicate m .bool) σ, ← List.append_assoc]; exact hk
    exact ((List.map_inj_right (fun _ _ e => Option.some.inj e)).mp hk').symm
  · rintro ⟨on, rfl, hl, hg⟩
    let σ0 : Asg := ⟨fun k => match (allSegs H W)[k]? with | some s => on s | none => false, fun _ => 0⟩
    have h0 : ∀ s, s.Valid H W → onOf H W σ0 s = on s := by
      intro s hs
      show (match (allSegs H W)[s.var 0 H W]? with | some s => on s | none => false) = on s
      rw [allSegs_var_getElem? H W s hs]
    obtain ⟨σ1, hag, hfrag1⟩ := realizable_of_loop H W σ0 ((isLoop_congr H W _ _ h0).mpr hl)
    have h1 : ∀ s, s.Valid H W → onOf H W σ1 s = on s := by
      intro s hs
      rw [← h0 s hs]
      exact ((hag (s.var 0 H W) (by have := C14.var_range 0 H W s hs; omega)).1).symm
    obtain ⟨σ', hag', hex⟩ := hcomplete σ1 (loop_of_sat H W σ1 hfrag1) (passed_of_sat H W σ1 hfrag1)
      ((hG _ _ h1).mpr hg)
    have hfrag : SatFrag (Frame.numVars H W) (cyc H W) σ' := by
      refine ⟨?_, ?_⟩
      · intro k lo hi hk
        have hk' : k < (cyc H W).decls.length := by
          rcases Nat.lt_or_ge k (cyc H W).decls.length with h | h
          · exact h
          · rw [List.getElem?_eq_none h] at hk; cases hk
        rw [cyc_decls_length] at hk'
        have := hfrag1.1 k lo hi hk
        rwa [(hag' (Frame.numVars H W + k) (by simp only [B]; omega)).2] at this
      · intro c hc
        rw [← eval_congr_of_varsBelow hag' c (cyc_varsBelow H W c hc)]
        exact hfrag1.2 c hc
    have h2 : ∀ s, s.Valid H W → onOf H W σ' s = on s := by
      intro s hs
      rw [← h1 s hs]
      have hr := C14.var_range 0 H W s hs
      exact ((hag' (s.var 0 H W) (by simp only [B]; omega)).1).symm
    refine ⟨σ', (sat_split_ext _ _ _ _ σ').mpr ⟨hfrag, hex⟩, ?_⟩
    show List.map (valOf _ σ') _ = _
    rw [List.append_assoc, keyVals_frame H W _ σ', segAnswer_congr H W _ _ h2]

/-! ### closed form of the posted program -/

section Prog
variable (pb : Problem)

local notation "HH" => pb.height - 1
local notation "WW" => pb.width - 1

/-- `is_passed[y, x]`. -/
def passedVar (y x : Nat) : Expr := .bvar (Frame.numVars HH WW + ptIndex WW (y, x))

/-- id of `is_inside[fy, fx]`. -/
def insId (fy fx : Nat) : Nat := B HH WW + (fy * WW + fx)

/-- the steps an arrow at `(y, x)` looks at, in slice order. -/
def relSegs (d : Puzzles.CastleWall.Dir) (y x : Nat) : List Seg :=
  match d with
  | .up => (List.range y).map fun r => Seg.v r x
  | .down => (List.range (HH - y)).map fun j => Seg.v (y + j) x
  | .left => (List.range x).map fun c => Seg.h y c
  | .right => (List.range (WW - x)).map fun j => Seg.h y (x + j)

def relE (d : Puzzles.CastleWall.Dir) (y x : Nat) : List Expr := (relSegs pb d y x).map (segExpr 0 HH WW)

/-- What the arrow loop posts for one cell. -/
def arrowE (p : Nat × Nat) : List Expr :=
  match arrowAt pb p.1 p.2 with
  | .none => []
  | .other => [.node .not [passedVar pb p.1 p.2]]
  | .dir d (some n) => [.node .not [passedVar pb p.1 p.2], .node .eq [countTrueE (relE pb d p.1 p.2), .litI n]]
  | .dir _ none => []

/-- What the recurrence loop posts for one face. -/
def parityE (p : Nat × Nat) : List Expr :=
  if p.1 = 0 then [.node .iff [.bvar (insId pb p.1 p.2), segExpr 0 HH WW (Seg.h 0 p.2)]]
  else [.node .iff [.bvar (insId pb p.1 p.2),
    .node .xor [.bvar (insId pb (p.1 - 1) p.2), segExpr 0 HH WW (Seg.h p.1 p.2)]]]

/-- What the inside / outside loop posts for one cell. -/
def insideE (p : Nat × Nat) : List Expr :=
  if pb.height = 1 ∨ pb.width = 1 then
    match markAt pb p.1 p.2 with
    | some true => [.litB false]
    | _ => []
  else
    match markAt pb p.1 p.2 with
    | some true => [.bvar (insId pb (p.1 - 1) (p.2 - 1))]
    | some false => [.node .not [.bvar (insId pb (p.1 - 1) (p.2 - 1))]]
    | none => []

def extra : List Expr :=
  ((cellsOf pb.height pb.width).map (arrowE pb)).flatten ++ ((cellsOf HH WW).map (parityE pb)).flatten ++
    ((cellsOf pb.height pb.width).map (insideE pb)).flatten

theorem tableGet_eq {α : Type} (t : List (List α)) (dflt : α) (h w : Nat) (hlen : t.length = h)
    (hrows : ∀ row ∈ t, row.length = w) {y x : Nat} (hy : y < h) (hx : x < w) :
    tableGet' t (y : Int) (x : Int) = .ok ((t.getD y []).getD x dflt) := by
  unfold tableGet'
  have hy' : y < t.length := by rw [hlen]; exact hy
  have hrow : t[y]? = some t[y] := List.getElem?_eq_getElem hy'
  have hl : t[y].length = w := hrows _ (List.getElem_mem hy')
  have hx' : x < t[y].length := by rw [hl]; exact hx
  rw [C14.pyIndex_nat _ _ _ hrow, ok_bind, C14.pyIndex_nat _ _ _ (List.getElem?_eq_getElem hx')]
  simp [List.getD, hrow, List.getElem?_eq_getElem hx']

theorem arrow_get (hw : WellFormed pb) {y x : Nat} (hy : y < pb.height) (hx : x < pb.width) :
    tableGet' pb.arrow (y : Int) (x : Int) = .ok (arrowAt pb y x) :=
  tableGet_eq pb.arrow .none pb.height pb.width hw.2.2.1 hw.2.2.2.1 hy hx

theorem mark_get (hw : WellFormed pb) {y x : Nat} (hy : y < pb.height) (hx : x < pb.width) :
    tableGet' pb.inside (y : Int) (x : Int) = .ok (markAt pb y x) :=
  tableGet_eq pb.inside none pb.height pb.width hw.2.2.2.2.1 hw.2.2.2.2.2.1 hy hx

theorem relE_boolLike (d : Puzzles.CastleWall.Dir) (y x : Nat) : ∀ e ∈ relE pb d y x, e.isBoolLike = true := by
  intro e he
  simp only [relE, List.mem_map] at he
  obtain ⟨s, _, rfl⟩ := he
  rfl

/-- the `Setup` the prologue produces. -/
def theSetup : Setup :=
  { frame := Frame.fresh 0 HH WW,
    nvars := Frame.numVars HH WW + 3 * ((HH + 1) * (WW + 1)),
    decls := List.replicate (Frame.numVars HH WW) .bool ++ (cyc HH WW).decls,
    cs := (cyc HH WW).cs,
    isPassed := ⟨HH + 1, WW + 1, bvars (Frame.numVars HH WW) ((HH + 1) * (WW + 1))⟩ }

/-- the four slices of `grid_frame.vertical` / `grid_frame.horizontal`. -/
theorem related_eq {y x : Nat} (hy : y ≤ HH) (hx : x ≤ WW) (d : Puzzles.CastleWall.Dir) :
    (match d with
      | .up => getitemV (arrOf (theSetup pb).frame.vertical) (.pair (sl none (some (y : Int))) (.idx (x : Int)))
      | .down => getitemV (arrOf (theSetup pb).frame.vertical) (.pair (sl (some (y : Int)) none) (.idx (x : Int)))
      | .left => getitemV (arrOf (theSetup pb).frame.horizontal) (.pair (.idx (y : Int)) (sl none (some (x : Int))))
      | .right => getitemV (arrOf (theSetup pb).frame.horizontal) (.pair (.idx (y : Int)) (sl (some (x : Int)) none)))
      = .ok (.arr1 true (relE pb d y x)) := by
  have hv : arrOf (theSetup pb).frame.vertical
      = .arr2 true HH (WW + 1) ((List.range (HH * (WW + 1))).map fun i => Expr.bvar (0 + (HH + 1) * WW + i)) := rfl
  have hh : arrOf (theSetup pb).frame.horizontal
      = .arr2 true (HH + 1) WW ((List.range ((HH + 1) * WW)).map fun i => Expr.bvar (0 + i)) := rfl
  cases d <;> simp only [relE, relSegs, sl]
  · rw [hv, C11CL.getitemV_col true _ HH (WW + 1) _ x (List.range y) (by omega) (axisSel_to HH y hy)
      (by intro c hc; simp at hc; omega)]
    simp only [segExpr, Seg.var, Nat.add_assoc, List.map_map, Function.comp_def]
  · rw [hv, C11CL.getitemV_col true _ HH (WW + 1) _ x _ (by omega) (axisSel_from HH y hy)
      (by intro c hc; simp at hc; omega)]
    simp only [segExpr, Seg.var, Nat.add_assoc, List.map_map, Function.comp_def]
  · rw [hh, C11CL.getitemV_row true _ (HH + 1) WW y _ (List.range x) (by omega) (axisSel_to WW x hx)
      (by intro c hc; simp at hc; omega)]
    simp only [segExpr, Seg.var, Nat.add_assoc, List.map_map, Function.comp_def]
  · rw [hh, C11CL.getitemV_row true _ (HH + 1) WW y _ _ (by omega) (axisSel_from WW x hx)
      (by intro c hc; simp at hc; omega)]
    simp only [segExpr, Seg.var, Nat.add_assoc, List.map_map, Function.comp_def]

theorem arrowCs_eq (hw : WellFormed pb) {p : Nat × Nat} (hp : p ∈ cellsOf pb.height pb.width) :
    arrowCs pb (theSetup pb) p = .ok (arrowE pb p) := by
  obtain ⟨hy, hx⟩ := mem_cellsOf.mp hp
  have h1 := hw.1
  have h2 := hw.2.1
  unfold arrowCs arrowE
  simp only []
  rw [arrow_get pb hw hy hx, ok_bind]
  have hpass : (theSetup pb).isPassed.get (p.1 : Int) (p.2 : Int)
      = .ok (.bvar (Frame.numVars HH WW + ptIndex WW (p.1, p.2))) :=
    passed_get' HH WW p.1 p.2 (by omega) (by omega)
  have hinv : ∀ i : Nat, unop .invert (.scalar (.bvar i)) = .ok (.scalar (.node .not [.bvar i])) := fun _ => rfl
  have hens : ∀ i : Nat, ensureV (.scalar (.node .not [.bvar i])) = .ok [.node .not [.bvar i]] :=
    fun _ => C11CL.ensureV_scalar _ rfl
  cases hc : arrowAt pb p.1 p.2 with
  | none => rfl
  | other =>
    simp only []
    rw [hpass, ok_bind, hinv, ok_bind, hens]
    rfl
  | dir d num =>
    cases num with
    | none => exact absurd hc (hw.2.2.2.2.2.2.1 p.1 p.2 d)
    | some n =>
      simp only []
      rw [hpass, ok_bind, hinv, ok_bind, hens, ok_bind]
      have hrel := related_eq pb (y := p.1) (x := p.2) (by omega) (by omega) d
      have hct := C11CL.countTrueA_arr1 _ (relE_boolLike pb d p.1 p.2)
      cases d <;>
      · simp only [] at hrel ⊢
        rw [hrel, ok_bind, hct, ok_bind,
          C11ArrOps.binop_cmp_countTrueE .eq .eq (Or.inl ⟨rfl, rfl⟩), ok_bind,
          C11CL.ensureV_scalar _ rfl, ok_bind]
        rfl

/-- `is_inside`. -/
def insArr : PyV := .arr2 true HH WW (bvars (Frame.numVars HH WW + 3 * ((HH + 1) * (WW + 1))) (HH * WW))

theorem cellAt_ins {fy fx : Nat} (hy : fy < HH) (hx : fx < WW) :
    cellAt (insArr pb) (fy : Int) (fx : Int) = .ok (.scalar (.bvar (insId pb fy fx))) :=
  C11CL.getitemV_cell true (fun i => Expr.bvar (B HH WW + i)) HH WW fy fx hy hx

theorem parityCs_eq {p : Nat × Nat} (hp : p ∈ cellsOf HH WW) :
    parityCs (theSetup pb) (insArr pb) p = .ok (parityE pb p) := by
  obtain ⟨hy, hx⟩ := mem_cellsOf.mp hp
  unfold parityCs parityE
  simp only []
  rw [cellAt_ins pb hy hx, ok_bind]
  by_cases h0 : p.1 = 0
  · have hb : (p.1 == 0) = true := by simp [h0]
    rw [if_pos hb, if_pos h0]
    have hg : (theSetup pb).frame.getitem 0 ((p.2 : Int) * 2 + 1) = .ok (segExpr 0 HH WW (Seg.h 0 p.2)) :=
      C14.getitem_h 0 HH WW 0 p.2 (by omega) hx
    rw [hg, ok_bind]
    show (ensureV (.scalar (.node .iff [.bvar (insId pb p.1 p.2), segExpr 0 HH WW (Seg.h 0 p.2)])) >>= _) = _
    rw [C11CL.ensureV_scalar _ rfl]
    rfl
  · have hb : (p.1 == 0) = false := by simp [h0]
    rw [if_neg (by simp [hb]), if_neg h0]
    have e : ((p.1 : Int) - 1) = ((p.1 - 1 : Nat) : Int) := by omega
    rw [e, cellAt_ins pb (by omega) hx, ok_bind]
    have hg : (theSetup pb).frame.getitem ((p.1 : Int) * 2) ((p.2 : Int) * 2 + 1)
        = .ok (segExpr 0 HH WW (Seg.h p.1 p.2)) := C14.getitem_h 0 HH WW p.1 p.2 (by omega) hx
    rw [hg, ok_bind]
    show (ensureV (.scalar (.node .iff [.bvar (insId pb p.1 p.2),
      .node .xor [.bvar (insId pb (p.1 - 1) p.2), segExpr 0 HH WW (Seg.h p.1 p.2)]])) >>= _) = _
    rw [C11CL.ensureV_scalar _ rfl]
    rfl

theorem insideCs_eq (hw : WellFormed pb) {p : Nat × Nat} (hp : p ∈ cellsOf pb.height pb.width) :
    insideCs' true pb (insArr pb) p = .ok (insideE pb p) := by
  obtain ⟨hy, hx⟩ := mem_cellsOf.mp hp
  have h1 := hw.1
  have h2 := hw.2.1
  unfold insideCs' insideE
  by_cases hl : pb.height = 1 ∨ pb.width = 1
  · have hb : (true && (pb.height == 1 || pb.width == 1)) = true := by
      rcases hl with h | h <;> simp [h]
    rw [if_pos hb, if_pos hl]
    simp only []
    rw [mark_get pb hw hy hx, ok_bind]
    cases hm : markAt pb p.1 p.2 with
    | none => rfl
    | some b => cases b <;> rfl
  · have hb : ¬ ((true && (pb.height == 1 || pb.width == 1)) = true) := by
      simp only [Bool.true_and, Bool.or_eq_true, beq_iff_eq]
      exact hl
    rw [if_neg hb, if_neg hl]
    unfold insideCs
    simp only []
    rw [mark_get pb hw hy hx, ok_bind]
    have e1 : max 0 ((p.1 : Int) - 1) = ((p.1 - 1 : Nat) : Int) := by omega
    have e2 : max 0 ((p.2 : Int) - 1) = ((p.2 - 1 : Nat) : Int) := by omega
    have hc := cellAt_ins pb (fy := p.1 - 1) (fx := p.2 - 1) (by omega) (by omega)
    cases hm : markAt pb p.1 p.2 with
    | none => rfl
    | some b =>
      cases b
      · simp only []
        rw [e1, e2, hc, ok_bind]
        show (ensureV (.scalar (.node .not [.bvar (insId pb (p.1 - 1) (p.2 - 1))]))) = _
        rw [C11CL.ensureV_scalar _ rfl]
      · simp only []
        rw [e1, e2, hc, ok_bind, C11CL.ensureV_scalar _ rfl]

/-- Closed form of the posted program. -/
theorem program_eq (hw : WellFormed pb) :
    program pb = .ok
      { decls := List.replicate (Frame.numVars HH WW) .bool ++ (cyc HH WW).decls ++ List.replicate (HH * WW) .bool,
        cs := (cyc HH WW).cs ++ extra pb,
        keys := List.range (Frame.numVars HH WW) } := by
  unfold program programWith
  have hs : setup HH WW false = .ok (theSetup pb) := setup_eq _ _
  simp only [hs, frameKeys_eq, bind, Except.bind]
  have hi : PyV.arr2 true HH WW (bvars (theSetup pb).nvars (HH * WW)) = insArr pb := rfl
  simp only [hi]
  rw [mapM_eq_ok_map (g := arrowE pb) (fun p hp => arrowCs_eq pb hw hp)]
  simp only []
  rw [mapM_eq_ok_map (g := parityE pb) (fun p hp => parityCs_eq pb hp)]
  simp only []
  rw [mapM_eq_ok_map (g := insideE pb) (fun p hp => insideCs_eq pb hw hp)]
  simp only [extra, theSetup, List.append_assoc]

theorem total (hw : WellFormed pb) : ∃ P, program pb = .ok P := ⟨_, program_eq pb hw⟩

end Prog

end Cspuz.Proofs.C11CastleWall
