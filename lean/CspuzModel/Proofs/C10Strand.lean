/-
  C10, the strand / split-graph identification: under the degree rules, the active nodes of the split
  graph are connected iff all active segments lie on one strand.
-/
import CspuzModel.Proofs.C10Graph
import CspuzModel.Proofs.C10Cross
namespace Cspuz.Proofs.C10Strand
open Cspuz Cspuz.Spec Cspuz.Proofs.C10Graph Cspuz.Proofs.C10Cross

/-! ### facts about `pointDegree` -/

theorem deg_pos_of_touch {H W : Nat} {act : LSeg → Bool} {s : LSeg} {p : Nat × Nat}
    (hs : s.valid H W) (ha : act s = true) (hp : s.touches p) : 0 < pointDegree H W act p.1 p.2 := by
  cases s with
  | h y x =>
    simp only [LSeg.touches, LSeg.ends] at hp
    rcases hp with rfl | rfl
    · have : (if x < W ∧ act (.h y x) = true then 1 else 0) = 1 := if_pos ⟨hs.2, ha⟩
      simp only [pointDegree]; omega
    · have : (if 0 < x + 1 ∧ act (.h y (x + 1 - 1)) = true then 1 else 0) = 1 :=
        if_pos ⟨by omega, by simpa using ha⟩
      simp only [pointDegree]; omega
  | v y x =>
    simp only [LSeg.touches, LSeg.ends] at hp
    rcases hp with rfl | rfl
    · have : (if y < H ∧ act (.v y x) = true then 1 else 0) = 1 := if_pos ⟨hs.1, ha⟩
      simp only [pointDegree]; omega
    · have : (if 0 < y + 1 ∧ act (.v (y + 1 - 1) x) = true then 1 else 0) = 1 :=
        if_pos ⟨by omega, by simpa using ha⟩
      simp only [pointDegree]; omega

theorem ite_le_one (c : Prop) [Decidable c] : (if c then 1 else 0 : Nat) ≤ 1 := by
  split <;> omega

theorem of_ite_eq_one {c : Prop} [Decidable c] (h : (if c then 1 else 0 : Nat) = 1) : c := by
  by_contra hc
  rw [if_neg hc] at h
  omega

theorem deg_four {H W : Nat} {act : LSeg → Bool} {y x : Nat} (h : pointDegree H W act y x = 4) :
    (0 < y ∧ act (.v (y - 1) x) = true) ∧ (y < H ∧ act (.v y x) = true) ∧
    (0 < x ∧ act (.h y (x - 1)) = true) ∧ (x < W ∧ act (.h y x) = true) := by
  unfold pointDegree at h
  have a1 := ite_le_one (0 < y ∧ act (.v (y - 1) x) = true)
  have a2 := ite_le_one (y < H ∧ act (.v y x) = true)
  have a3 := ite_le_one (0 < x ∧ act (.h y (x - 1)) = true)
  have a4 := ite_le_one (x < W ∧ act (.h y x) = true)
  exact ⟨of_ite_eq_one (by omega), of_ite_eq_one (by omega), of_ite_eq_one (by omega),
    of_ite_eq_one (by omega)⟩

theorem deg_pos_exists {H W : Nat} {act : LSeg → Bool} {y x : Nat} (hy : y ≤ H) (hx : x ≤ W)
    (h : 0 < pointDegree H W act y x) :
    ∃ s : LSeg, s.valid H W ∧ act s = true ∧ s.touches (y, x) := by
  unfold pointDegree at h
  by_cases h1 : 0 < y ∧ act (.v (y - 1) x) = true
  · have := h1.1
    have e : y - 1 + 1 = y := by omega
    exact ⟨.v (y - 1) x, ⟨by omega, hx⟩, h1.2, Or.inr (by simp only [LSeg.ends, e])⟩
  by_cases h2 : y < H ∧ act (.v y x) = true
  · exact ⟨.v y x, ⟨h2.1, hx⟩, h2.2, Or.inl rfl⟩
  by_cases h3 : 0 < x ∧ act (.h y (x - 1)) = true
  · have := h3.1
    have e : x - 1 + 1 = x := by omega
    exact ⟨.h y (x - 1), ⟨hy, by omega⟩, h3.2, Or.inr (by simp only [LSeg.ends, e])⟩
  by_cases h4 : x < W ∧ act (.h y x) = true
  · exact ⟨.h y x, ⟨hy, h4.1⟩, h4.2, Or.inl rfl⟩
  rw [if_neg h1, if_neg h2, if_neg h3, if_neg h4] at h
  omega

/-! ### the node activity -/

/-- What the emitted program forces the activity of the split-graph nodes to be. -/
structure NodeActSpec (H W : Nat) (act : LSeg → Bool) (na : Nat → Bool) : Prop where
  plain : ∀ y x, y ≤ H → x ≤ W →
    na (ptNode W y x 0) = decide (0 < pointDegree H W act y x ∧ pointDegree H W act y x ≠ 4)
  hpass : ∀ y x, y ≤ H → x ≤ W → na (ptNode W y x 1) = decide (pointDegree H W act y x = 4)
  vpass : ∀ y x, y ≤ H → x ≤ W → na (ptNode W y x 2) = decide (pointDegree H W act y x = 4)
  seg : ∀ s : LSeg, s.valid H W → na (segNode H W s) = act s

section
variable {H W : Nat} {act : LSeg → Bool} {na : Nat → Bool} {sc : Bool}

local notation "G" => toSimple (crossGraph (H + 1) (W + 1))
local notation "A" => activeSet (crossGraph (H + 1) (W + 1)) na

/-- A vertex of the split graph is a segment node. -/
def isSeg (H W : Nat) (u : Fin (crossGraph (H + 1) (W + 1)).n) : Prop := npts H W ≤ u.1

theorem bip (u v : Fin (crossGraph (H + 1) (W + 1)).n) (h : (G).Adj u v) :
    (isSeg H W u ↔ ¬ isSeg H W v) := by
  rw [adj_iff] at h
  unfold isSeg
  rcases h with h | h
  · have := E_left h; have := E_right h; omega
  · have := E_left h; have := E_right h; omega

theorem fin_lt (u : Fin (crossGraph (H + 1) (W + 1)).n) :
    u.1 < npts H W + H * (W + 1) + (H + 1) * W := lt_of_lt_of_eq u.2 (cross_n H W)

/-- The vertex of a valid segment. -/
def nodeOf (H W : Nat) (s : LSeg) (hs : s.valid H W) : Fin (crossGraph (H + 1) (W + 1)).n :=
  ⟨segNode H W s, by rw [cross_n]; exact segNode_lt hs⟩

theorem adj_seg {s : LSeg} (hs : s.valid H W) {u w : Fin (crossGraph (H + 1) (W + 1)).n}
    (hu : u.1 = segNode H W s) (h : (G).Adj u w) :
    ∃ p : Nat × Nat, s.touches p ∧ ∃ k, okk s k ∧ w.1 = ptNode W p.1 p.2 k := by
  rw [adj_iff] at h
  rcases h with h | h
  · obtain ⟨s', hs', e, rest⟩ := h
    have : s = s' := segNode_inj hs hs' (by rw [← hu, e])
    subst this
    exact rest
  · have := E_right h
    have := npts_le_segNode H W s
    omega

theorem step_continues (hdr : DegreeRules H W act sc) (hna : NodeActSpec H W act na)
    {u c : Fin (crossGraph (H + 1) (W + 1)).n} {s r : LSeg} (hs : s.valid H W) (hr : r.valid H W)
    (hu : u.1 = segNode H W s) (hc : c.1 = segNode H W r) (h : Step (G) (A) (isSeg H W) u c) :
    s = r ∨ Continues H W act s r := by
  obtain ⟨-, -, huA, hcA, w, hwA, h1, h2⟩ := h
  obtain ⟨p, hp, k, hk, e1⟩ := adj_seg hs hu h1
  obtain ⟨p', hp', k', hk', e2⟩ := adj_seg hr hc h2.symm
  obtain ⟨py, px⟩ := p
  obtain ⟨py', px'⟩ := p'
  obtain ⟨v1, v2⟩ := touches_valid hs hp
  obtain ⟨v1', v2'⟩ := touches_valid hr hp'
  simp only at v1 v2 v1' v2' e1 e2
  obtain ⟨ey, ex, ek⟩ := ptNode_inj v2 v2' (okk_lt hk) (okk_lt hk') (e1.symm.trans e2)
  subst ey ex ek
  by_cases hsr : s = r
  · exact Or.inl hsr
  right
  have as : act s = true := by
    have : na u.1 = true := huA
    rw [hu, hna.seg s hs] at this; exact this
  have ar : act r = true := by
    have : na c.1 = true := hcA
    rw [hc, hna.seg r hr] at this; exact this
  have hw : na (ptNode W py px k) = true := by
    have : na w.1 = true := hwA
    rw [e1] at this; exact this
  refine ⟨hsr, hs, hr, as, ar, (py, px), hp, hp', ?_⟩
  have hd := hdr py px v1 v2
  simp only at hd
  by_cases hk0 : k = 0
  · subst hk0
    rw [hna.plain py px v1 v2] at hw
    simp only [decide_eq_true_eq] at hw
    left
    show pointDegree H W act py px ≤ 2
    omega
  · right
    have k1 : k = (if s.isH then 1 else 2) := by rcases hk with h | h; exact absurd h hk0; exact h
    have k2 : k = (if r.isH then 1 else 2) := by rcases hk' with h | h; exact absurd h hk0; exact h
    have hd4 : pointDegree H W act py px = 4 := by
      cases hsH : s.isH
      · rw [hsH] at k1
        simp only [Bool.false_eq_true, if_false] at k1
        subst k1
        rw [hna.vpass py px v1 v2] at hw
        simpa using hw
      · rw [hsH] at k1
        simp only [if_true] at k1
        subst k1
        rw [hna.hpass py px v1 v2] at hw
        simpa using hw
    refine ⟨hd4, ?_⟩
    cases hsH : s.isH <;> cases hrH : r.isH <;> simp only [hsH, hrH, if_true, Bool.false_eq_true, if_false] at k1 k2 <;> first | rfl | omega

theorem continues_step (hna : NodeActSpec H W act na) {s r : LSeg}
    (h : Continues H W act s r) (hs : s.valid H W) (hr : r.valid H W) :
    Step (G) (A) (isSeg H W) (nodeOf H W s hs) (nodeOf H W r hr) := by
  obtain ⟨-, -, -, as, ar, p, hp, hp', hd⟩ := h
  obtain ⟨py, px⟩ := p
  obtain ⟨v1, v2⟩ := touches_valid hs hp
  simp only at v1 v2
  have hsA : nodeOf H W s hs ∈ A := by
    show na (segNode H W s) = true
    rw [hna.seg s hs]; exact as
  have hrA : nodeOf H W r hr ∈ A := by
    show na (segNode H W r) = true
    rw [hna.seg r hr]; exact ar
  refine ⟨npts_le_segNode H W s, npts_le_segNode H W r, hsA, hrA, ?_⟩
  -- choose the point node
  have key : ∃ k, okk s k ∧ okk r k ∧ k < 3 ∧ na (ptNode W py px k) = true := by
    rcases hd with hd | ⟨hd, hh⟩
    · refine ⟨0, Or.inl rfl, Or.inl rfl, by omega, ?_⟩
      rw [hna.plain py px v1 v2]
      have := deg_pos_of_touch hs as hp
      simp only at this hd
      simp only [decide_eq_true_eq]
      omega
    · simp only at hd
      cases hsH : s.isH
      · refine ⟨2, Or.inr (by simp [hsH]), Or.inr (by rw [← hh, hsH]; simp), by omega, ?_⟩
        rw [hna.vpass py px v1 v2]; simpa using hd
      · refine ⟨1, Or.inr (by simp [hsH]), Or.inr (by rw [← hh, hsH]; simp), by omega, ?_⟩
        rw [hna.hpass py px v1 v2]; simpa using hd
  obtain ⟨k, hk1, hk2, hk3, hka⟩ := key
  have hlt : ptNode W py px k < (crossGraph (H + 1) (W + 1)).n := by
    rw [cross_n]
    have := ptNode_lt (H := H) v1 v2 hk3
    omega
  refine ⟨⟨ptNode W py px k, hlt⟩, hka, ?_, ?_⟩
  · rw [adj_iff]
    exact Or.inl ⟨s, hs, rfl, (py, px), hp, k, hk1, rfl⟩
  · rw [adj_iff]
    exact Or.inr ⟨r, hr, rfl, (py, px), hp', k, hk2, rfl⟩

theorem rtg_to_reach (hdr : DegreeRules H W act sc) (hna : NodeActSpec H W act na)
    {u v : Fin (crossGraph (H + 1) (W + 1)).n}
    (h : Relation.ReflTransGen (Step (G) (A) (isSeg H W)) u v) :
    ∀ s t : LSeg, s.valid H W → t.valid H W → u.1 = segNode H W s → v.1 = segNode H W t →
      (strandGraph H W act).Reachable s t := by
  induction h using Relation.ReflTransGen.head_induction_on with
  | refl =>
    intro s t hs ht hu hv
    have : s = t := segNode_inj hs ht (by rw [← hu, hv])
    subst this
    exact SimpleGraph.Reachable.refl _
  | @head u c huc _ ih =>
    intro s t hs ht hu hv
    have hcseg : npts H W ≤ c.1 := huc.2.1
    have hcn := fin_lt c
    rcases node_cases hcn with ⟨hlt, -⟩ | ⟨-, r, hr, hc⟩
    · omega
    · have h1 : (strandGraph H W act).Reachable s r := by
        rcases step_continues hdr hna hs hr hu hc huc with e | e
        · subst e; exact SimpleGraph.Reachable.refl _
        · exact SimpleGraph.Adj.reachable e
      exact h1.trans (ih r t hr ht hc hv)

theorem walk_to_rtg (hna : NodeActSpec H W act na) {s t : LSeg}
    (p : (strandGraph H W act).Walk s t) :
    ∀ (hs : s.valid H W) (ht : t.valid H W),
      Relation.ReflTransGen (Step (G) (A) (isSeg H W)) (nodeOf H W s hs) (nodeOf H W t ht) := by
  induction p with
  | nil => intro hs ht; exact Relation.ReflTransGen.refl
  | @cons s r t h p ih =>
    intro hs ht
    have hc : Continues H W act s r := h
    have hr : r.valid H W := hc.2.2.1
    exact Relation.ReflTransGen.head (continues_step hna hc hs hr) (ih hr ht)

/-- (C): the strand / split-graph identification. -/
theorem connected_iff_oneStrand (hdr : DegreeRules H W act sc) (hna : NodeActSpec H W act na) :
    ActiveConnected (crossGraph (H + 1) (W + 1)) na ↔ OneStrand H W act := by
  unfold ActiveConnected
  constructor
  · intro hc s t hs ht as at_
    have key := strand_of_preconnected (G) (A) (isSeg H W) bip hc
      (nodeOf H W s hs) (nodeOf H W t ht) (npts_le_segNode H W s) (npts_le_segNode H W t)
      (show na (segNode H W s) = true by rw [hna.seg s hs]; exact as)
      (show na (segNode H W t) = true by rw [hna.seg t ht]; exact at_)
    exact rtg_to_reach hdr hna key s t hs ht rfl rfl
  · intro hos
    apply preconnected_of_strand (G) (A) (isSeg H W) bip
    · -- every active point node touches an active segment node
      intro w hwA hwseg
      have hwn := fin_lt w
      have hwa : na w.1 = true := hwA
      rcases node_cases hwn with ⟨-, y, x, k, hy, hx, hk, e⟩ | ⟨hge, -⟩
      · have mk : ∀ s : LSeg, s.valid H W → act s = true → s.touches (y, x) → okk s k →
            ∃ s', s' ∈ A ∧ (G).Adj w s' := by
          intro s hs as hp hkk
          refine ⟨nodeOf H W s hs, ?_, ?_⟩
          · show na (segNode H W s) = true
            rw [hna.seg s hs]; exact as
          · rw [adj_iff]
            exact Or.inr ⟨s, hs, rfl, (y, x), hp, k, hkk, e⟩
        rw [e] at hwa
        have hk' : k = 0 ∨ k = 1 ∨ k = 2 := by omega
        rcases hk' with rfl | rfl | rfl
        · rw [hna.plain y x hy hx] at hwa
          simp only [decide_eq_true_eq] at hwa
          obtain ⟨s, hs, as, hp⟩ := deg_pos_exists hy hx hwa.1
          exact mk s hs as hp (Or.inl rfl)
        · rw [hna.hpass y x hy hx] at hwa
          simp only [decide_eq_true_eq] at hwa
          obtain ⟨-, -, -, h4⟩ := deg_four hwa
          exact mk (.h y x) ⟨hy, h4.1⟩ h4.2 (Or.inl rfl) (Or.inr rfl)
        · rw [hna.vpass y x hy hx] at hwa
          simp only [decide_eq_true_eq] at hwa
          obtain ⟨-, h2, -, -⟩ := deg_four hwa
          exact mk (.v y x) ⟨h2.1, hx⟩ h2.2 (Or.inl rfl) (Or.inr rfl)
      · exact absurd hge hwseg
    · intro u v hu hv huA hvA
      have hun := fin_lt u
      have hvn := fin_lt v
      have hu' : npts H W ≤ u.1 := hu
      have hv' : npts H W ≤ v.1 := hv
      rcases node_cases hun with ⟨hlt, -⟩ | ⟨-, s, hs, es⟩
      · omega
      rcases node_cases hvn with ⟨hlt, -⟩ | ⟨-, t, ht, et⟩
      · omega
      have as : act s = true := by
        have : na u.1 = true := huA
        rw [es, hna.seg s hs] at this; exact this
      have at_ : act t = true := by
        have : na v.1 = true := hvA
        rw [et, hna.seg t ht] at this; exact this
      obtain ⟨p⟩ := hos s t hs ht as at_
      have := walk_to_rtg hna p hs ht
      have eu : u = nodeOf H W s hs := Fin.ext es
      have ev : v = nodeOf H W t ht := Fin.ext et
      rw [eu, ev]; exact this

end

end Cspuz.Proofs.C10Strand
