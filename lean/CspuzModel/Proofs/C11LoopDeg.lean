/-
  A loop on the lattice passes every lattice point at most once: each point has 0 or 2 line ends
  (from `SingleCycle` through C06's degree form).  Shared by the C11 proofs of masyu and yajilin.
-/
import CspuzModel.Proofs.C11Loop
import CspuzModel.Proofs.C11Simpleloop
namespace Cspuz.Proofs.C11LoopDeg
open Cspuz Cspuz.Spec Cspuz.Spec.FrameGeom Cspuz.Spec.Loop Cspuz.Proofs Cspuz.Proofs.C11Loop
open Cspuz.Proofs.C14 (segEdge mem_allSegs allSegs_nodup ends_valid ptIndex_inj ptIndex_lt mem_pointSegs)

theorem lattice_wf (H W : Nat) : (latticeGraph H W).wf = true := by
  unfold Graph.wf latticeGraph
  rw [List.all_eq_true]
  intro ab hab
  simp only [List.mem_map] at hab
  obtain ⟨s, hs, rfl⟩ := hab
  have hv := ends_valid H W s ((mem_allSegs H W s).mp hs)
  simp only [Bool.and_eq_true]
  exact ⟨decide_eq_true (ptIndex_lt H W _ hv.1), decide_eq_true (ptIndex_lt H W _ hv.2.1)⟩

theorem lattice_loopFree (H W : Nat) : LoopFree (latticeGraph H W) := by
  intro e he
  simp only [latticeGraph, List.mem_map] at he
  obtain ⟨s, hs, rfl⟩ := he
  have hv := ends_valid H W s ((mem_allSegs H W s).mp hs)
  intro h
  exact hv.2.2 (ptIndex_inj H W _ _ hv.1 hv.2.1 h)

/-- Number of line ends at a lattice point, in the specification's words. -/
theorem activeDegree_lattice (H W : Nat) (on : Seg → Bool) (p : Pt) (hp : PtValid H W p) :
    activeDegree (latticeGraph H W) (segActive H W on) (ptIndex W p)
      = (pointSegs H W p.1 p.2).countP fun s => on s := by
  unfold activeDegree Graph.incident latticeGraph
  simp only [List.zipIdx_map, List.flatMap_map, List.filter_flatMap, List.length_flatMap]
  have hterm : ∀ se ∈ (allSegs H W).zipIdx,
      (List.filter (fun je : Nat × Nat => segActive H W on je.2)
        ((fun (x : (Nat × Nat) × Nat) =>
          (if x.1.1 = ptIndex W p then [(x.1.2, x.2)] else []) ++ (if x.1.2 = ptIndex W p then [(x.1.1, x.2)] else []))
          (Prod.map (fun s : Seg => (ptIndex W s.ends.1, ptIndex W s.ends.2)) id se))).length
      = if (decide (se.1.Touches p) && on se.1) then 1 else 0 := by
    rintro ⟨s, e⟩ hse
    have hget : (allSegs H W)[e]? = some s := by
      have := List.mem_zipIdx_iff_getElem?.mp hse
      simpa using this
    have hsv : s.Valid H W := (mem_allSegs H W s).mp (List.mem_of_getElem? hget)
    have hv := ends_valid H W s hsv
    have hact : segActive H W on e = on s := by unfold segActive; rw [hget]
    have h1 : (ptIndex W s.ends.1 = ptIndex W p) ↔ s.ends.1 = p :=
      ⟨fun h => ptIndex_inj H W _ _ hv.1 hp h, fun h => by rw [h]⟩
    have h2 : (ptIndex W s.ends.2 = ptIndex W p) ↔ s.ends.2 = p :=
      ⟨fun h => ptIndex_inj H W _ _ hv.2.1 hp h, fun h => by rw [h]⟩
    simp only [Prod.map, id, List.filter_append]
    by_cases a1 : s.ends.1 = p
    · have a2 : ¬ s.ends.2 = p := fun h => hv.2.2 (a1.trans h.symm)
      rw [if_pos (h1.mpr a1), if_neg (fun h => a2 (h2.mp h))]
      have ht : s.Touches p := Or.inl a1
      cases hon : on s <;> simp [List.filter, hact, hon, ht]
    · by_cases a2 : s.ends.2 = p
      · rw [if_neg (fun h => a1 (h1.mp h)), if_pos (h2.mpr a2)]
        have ht : s.Touches p := Or.inr a2
        cases hon : on s <;> simp [List.filter, hact, hon, ht]
      · rw [if_neg (fun h => a1 (h1.mp h)), if_neg (fun h => a2 (h2.mp h))]
        have ht : ¬ s.Touches p := fun h => h.elim a1 a2
        simp [ht]
  rw [List.map_congr_left hterm]
  have : (List.map (fun se : Seg × Nat => if (decide (se.1.Touches p) && on se.1) then 1 else 0) (allSegs H W).zipIdx)
      = ((allSegs H W).zipIdx.map Prod.fst).map (fun s => if (decide (s.Touches p) && on s) then 1 else 0) := by
    rw [List.map_map]; rfl
  rw [this, List.zipIdx_map_fst, C11Simpleloop.sum_ite_eq_countP]
  have hperm := C14.segsOfPoint_perm H W p.1 p.2 hp.1 hp.2
  rw [← hperm.countP_eq, segsOfPoint, List.countP_filter]
  apply List.countP_congr
  intro s _
  simp [Bool.and_comm]

/-- Every lattice point has 0 or 2 line ends of a loop. -/
theorem degree_of_loop (H W : Nat) (on : Seg → Bool) (hl : IsLoop H W on) (p : Pt) (hp : PtValid H W p) :
    ((pointSegs H W p.1 p.2).countP fun s => on s) = 0 ∨ ((pointSegs H W p.1 p.2).countP fun s => on s) = 2 := by
  have hrc := (Cspuz.C06.C06_regular_is_cycle (latticeGraph H W) (segActive H W on) (lattice_wf H W)
    (lattice_loopFree H W)).mpr hl
  rw [← activeDegree_lattice H W on p hp]
  rcases hrc with h0 | ⟨hdeg, _⟩
  · left
    unfold activeDegree
    rw [List.length_eq_zero_iff, List.filter_eq_nil_iff]
    intro je hje
    have hb := incident_bounds (lattice_wf H W) hje
    rw [h0 je.2 hb.2.1]
    simp
  · exact hdeg _ (ptIndex_lt H W p hp)

/-- The same in terms of the four arms. -/
theorem arms_of_loop (H W : Nat) (on : Seg → Bool) (hl : IsLoop H W on) (p : Pt) (hp : PtValid H W p) :
    let n := (arm H W on p .up).toNat + (arm H W on p .down).toNat + (arm H W on p .left).toNat + (arm H W on p .right).toNat
    n = 0 ∨ n = 2 := by
  have h := degree_of_loop H W on hl p hp
  have e : ((pointSegs H W p.1 p.2).countP fun s => on s)
      = (arm H W on p .up).toNat + (arm H W on p .down).toNat + (arm H W on p .left).toNat + (arm H W on p .right).toNat := by
    unfold pointSegs arm
    simp only [List.countP_append]
    by_cases h1 : p.1 > 0 <;> by_cases h2 : p.1 < H <;> by_cases h3 : p.2 > 0 <;> by_cases h4 : p.2 < W <;>
      simp [h1, h2, h3, h4, List.countP_cons, List.countP_nil, Bool.toNat] <;>
      (repeat' split) <;> simp_all
  simpa [e] using h

end Cspuz.Proofs.C11LoopDeg
