/-
  C06, sequence layer (pure graph theory): in a loop-free multigraph the degree forms of the
  specification agree with the sequence forms,
      `RegularConnected g act ↔ SingleCycle g act`,   `PathRegular g act ↔ SinglePath g act`.
  (⇐) reads the active entries of every vertex off the sequence.  (⇒) grows a path of active edges
  until it closes up (cycle) or reaches the second vertex of degree 1 (path); then every active entry
  at a vertex of the sequence belongs to the sequence, so by connectivity nothing else is active.
-/
import CspuzModel.Spec.GraphSpec2
import CspuzModel.Proofs.C04L2
import CspuzModel.Proofs.C06L2
import CspuzModel.Proofs.C06Line
import CspuzModel.Proofs.C06Prim
namespace Cspuz.Proofs.C06Seq
open Cspuz Cspuz.Spec
open Cspuz.Proofs.C04L2 (joins_lt joins_ne incident_nodup)
open Cspuz.Proofs.C06L2 (joins_edge_lt activeDegree_pos_iff)
open Cspuz.Proofs.C06Line (joins_det)
open Cspuz.Proofs.C06Prim (Conn)

/-! ### active entries and degree bounds -/

/-- `(j, e)` is an active entry of `incident_edges[v]`. -/
def AE (g : Graph) (act : Nat → Bool) (v j e : Nat) : Prop := Joins g e v j ∧ act e = true

section Entries
variable {g : Graph} {act : Nat → Bool} {v : Nat}

theorem mem_filter_iff {x : Nat × Nat} :
    x ∈ (g.incident v).filter (fun je => act je.2) ↔ AE g act v x.1 x.2 := by
  rw [List.mem_filter]
  exact and_congr (C04L2.mem_incident (j := x.1) (e := x.2)) Iff.rfl

theorem AE.symm {j e : Nat} (h : AE g act v j e) : AE g act j v e := ⟨h.1.symm, h.2⟩

theorem AE.pos {j e : Nat} (h : AE g act v j e) : 0 < activeDegree g act v :=
  activeDegree_pos_iff.2 ⟨j, e, h.1, h.2⟩

theorem deg_ge {L : List (Nat × Nat)} (hL : L.Nodup) (h : ∀ x ∈ L, AE g act v x.1 x.2) :
    L.length ≤ activeDegree g act v := by
  unfold activeDegree
  exact (List.subperm_of_subset hL (fun x hx => mem_filter_iff.2 (h x hx))).length_le

theorem deg_le (hlf : LoopFree g) {L : List (Nat × Nat)}
    (h : ∀ j e, AE g act v j e → (j, e) ∈ L) : activeDegree g act v ≤ L.length := by
  unfold activeDegree
  exact (List.subperm_of_subset ((incident_nodup hlf v).filter _)
    (fun x hx => h x.1 x.2 (mem_filter_iff.1 hx))).length_le

/-- a duplicate-free list of active entries that is as long as the degree contains them all. -/
theorem entries_subset {L : List (Nat × Nat)} (hL : L.Nodup)
    (h : ∀ x ∈ L, AE g act v x.1 x.2) (hlen : activeDegree g act v ≤ L.length) :
    ∀ j e, AE g act v j e → (j, e) ∈ L := by
  intro j e hje
  have hsp := List.subperm_of_subset hL (fun x hx => mem_filter_iff.2 (h x hx))
  have hperm := hsp.perm_of_length_le hlen
  exact hperm.mem_iff.2 (mem_filter_iff.2 hje)

theorem exists_other (hlf : LoopFree g) (h2 : 2 ≤ activeDegree g act v) (x : Nat × Nat) :
    ∃ j e, AE g act v j e ∧ (j, e) ≠ x := by
  by_contra hc
  have : activeDegree g act v ≤ [x].length := deg_le hlf (by
    intro j e hje
    by_contra hne
    exact hc ⟨j, e, hje, by simpa using hne⟩)
  simp at this
  omega

end Entries

/-! ### list access with a default -/

def nth (l : List Nat) (k : Nat) : Nat := l.getD k 0

theorem getElem?_nth {l : List Nat} {k : Nat} (h : k < l.length) : l[k]? = some (nth l k) := by
  simp [nth, List.getD_eq_getElem?_getD, List.getElem?_eq_getElem h]

theorem nth_of_getElem? {l : List Nat} {k x : Nat} (h : l[k]? = some x) : nth l k = x := by
  simp [nth, List.getD_eq_getElem?_getD, h]

theorem nth_mem {l : List Nat} {k : Nat} (h : k < l.length) : nth l k ∈ l :=
  List.mem_of_getElem? (getElem?_nth h)

theorem mem_iff_nth {l : List Nat} {x : Nat} : x ∈ l ↔ ∃ k, k < l.length ∧ nth l k = x := by
  constructor
  · intro h
    obtain ⟨k, hk, rfl⟩ := List.getElem_of_mem h
    exact ⟨k, hk, nth_of_getElem? (List.getElem?_eq_getElem hk)⟩
  · rintro ⟨k, hk, rfl⟩
    exact nth_mem hk

theorem nth_inj {l : List Nat} (hl : l.Nodup) {i j : Nat} (hi : i < l.length) (hj : j < l.length)
    (h : nth l i = nth l j) : i = j := by
  apply (List.getElem?_inj hi hl).1
  rw [getElem?_nth hi, getElem?_nth hj, h]

theorem nth_append_left {l : List Nat} {x k : Nat} (h : k < l.length) :
    nth (l ++ [x]) k = nth l k := by
  simp [nth, List.getD_eq_getElem?_getD, List.getElem?_append_left h]

theorem nth_append_right {l : List Nat} {x k : Nat} (h : k = l.length) :
    nth (l ++ [x]) k = x := by
  subst h
  simp [nth, List.getD_eq_getElem?_getD]

/-! ### chains -/

/-- `es[k]` joins `vs[k]` and `vs[k+1]`. -/
def PChain (g : Graph) (vs es : List Nat) : Prop :=
  ∀ k, k < es.length → Joins g (nth es k) (nth vs k) (nth vs (k + 1))

/-- cyclic successor / predecessor of an index below `L`. -/
def nx (L k : Nat) : Nat := if k + 1 = L then 0 else k + 1
def pv (L i : Nat) : Nat := if i = 0 then L - 1 else i - 1

/-- `es[k]` joins `vs[k]` and `vs[k+1 mod L]`. -/
def CChain (g : Graph) (vs es : List Nat) : Prop :=
  ∀ k, k < es.length → Joins g (nth es k) (nth vs k) (nth vs (nx es.length k))

theorem mod_eq_nx {L k : Nat} (hk : k < L) : (k + 1) % L = nx L k := by
  unfold nx
  split
  · rename_i h; rw [h, Nat.mod_self]
  · exact Nat.mod_eq_of_lt (by omega)

theorem nx_lt {L k : Nat} (hk : k < L) : nx L k < L := by unfold nx; split <;> omega
theorem pv_lt {L i : Nat} (hi : i < L) : pv L i < L := by unfold pv; split <;> omega
theorem nx_pv {L i : Nat} (hi : i < L) : nx L (pv L i) = i := by
  unfold nx pv
  by_cases h : i = 0
  · subst h; rw [if_pos rfl, if_pos (by omega)]
  · rw [if_neg h, if_neg (by omega)]; omega
theorem pv_nx {L k : Nat} : pv L (nx L k) = k := by
  unfold nx pv
  by_cases h : k + 1 = L
  · rw [if_pos h, if_pos rfl]; omega
  · rw [if_neg h, if_neg (by omega)]; omega
theorem pv_ne {L i : Nat} (hL : 2 ≤ L) : pv L i ≠ i := by unfold pv; split <;> omega

/-! ### the active entries of the vertices of a path -/
section PathEntries
variable {g : Graph} {act : Nat → Bool} {vs es : List Nat}

/-- entries of `vs[i]` along the path. -/
def pent (vs es : List Nat) (i : Nat) : List (Nat × Nat) :=
  (if i < es.length then [(nth vs (i + 1), nth es i)] else []) ++
  (if 0 < i then [(nth vs (i - 1), nth es (i - 1))] else [])

theorem pent_ae (hch : PChain g vs es) (hact : ∀ e ∈ es, act e = true) {i : Nat}
    (hi : i ≤ es.length) : ∀ x ∈ pent vs es i, AE g act (nth vs i) x.1 x.2 := by
  intro x hx
  unfold pent at hx
  rw [List.mem_append] at hx
  rcases hx with hx | hx
  · split at hx
    · rename_i h
      simp only [List.mem_singleton] at hx; subst hx
      exact ⟨hch i h, hact _ (nth_mem h)⟩
    · simp at hx
  · split at hx
    · rename_i h
      simp only [List.mem_singleton] at hx; subst hx
      have hk : i - 1 < es.length := by omega
      have := hch (i - 1) hk
      rw [show i - 1 + 1 = i by omega] at this
      exact ⟨this.symm, hact _ (nth_mem hk)⟩
    · simp at hx

theorem pent_nodup (hE : es.Nodup) {i : Nat} : (pent vs es i).Nodup := by
  unfold pent
  split <;> split <;> simp
  intro _ h
  have := nth_inj hE (by omega) (by omega) h
  omega

theorem pent_complete (hV : vs.Nodup) (hlen : vs.length = es.length + 1) (hch : PChain g vs es)
    (hall : ∀ e, e < g.edges.length → (act e = true ↔ e ∈ es)) {i : Nat} (hi : i ≤ es.length)
    {j e : Nat} (h : AE g act (nth vs i) j e) : (j, e) ∈ pent vs es i := by
  have he := (hall e (joins_edge_lt h.1)).1 h.2
  obtain ⟨k, hk, rfl⟩ := mem_iff_nth.1 he
  rcases joins_det (hch k hk) h.1 with ⟨h1, h2⟩ | ⟨h1, h2⟩
  · have : i = k := nth_inj hV (by omega) (by omega) h1
    subst this
    unfold pent; rw [if_pos hk]; simp [h2]
  · have : i = k + 1 := nth_inj hV (by omega) (by omega) h1
    subst this
    unfold pent; simp [h2]

theorem ae_mem_path (hlen : vs.length = es.length + 1) (hch : PChain g vs es)
    (hall : ∀ e, e < g.edges.length → (act e = true ↔ e ∈ es)) {v j e : Nat}
    (h : AE g act v j e) : v ∈ vs := by
  have he := (hall e (joins_edge_lt h.1)).1 h.2
  obtain ⟨k, hk, rfl⟩ := mem_iff_nth.1 he
  rcases joins_det (hch k hk) h.1 with ⟨h1, _⟩ | ⟨h1, _⟩
  · rw [h1]; exact nth_mem (by omega)
  · rw [h1]; exact nth_mem (by omega)

end PathEntries

/-! ### the active entries of the vertices of a cyclic sequence -/
section CycleEntries
variable {g : Graph} {act : Nat → Bool} {vs es : List Nat}

def cent (vs es : List Nat) (i : Nat) : List (Nat × Nat) :=
  [(nth vs (nx es.length i), nth es i), (nth vs (pv es.length i), nth es (pv es.length i))]

theorem cent_ae (hch : CChain g vs es) (hact : ∀ e ∈ es, act e = true) {i : Nat}
    (hi : i < es.length) : ∀ x ∈ cent vs es i, AE g act (nth vs i) x.1 x.2 := by
  intro x hx
  unfold cent at hx
  simp only [List.mem_cons, List.not_mem_nil, or_false] at hx
  rcases hx with rfl | rfl
  · exact ⟨hch i hi, hact _ (nth_mem hi)⟩
  · have hk := pv_lt hi
    have := hch _ hk
    rw [nx_pv hi] at this
    exact ⟨this.symm, hact _ (nth_mem hk)⟩

theorem cent_nodup (hE : es.Nodup) (hL : 2 ≤ es.length) {i : Nat} (hi : i < es.length) :
    (cent vs es i).Nodup := by
  unfold cent
  simp only [List.nodup_cons, List.mem_singleton, List.not_mem_nil, not_false_eq_true,
    List.nodup_nil, and_true, Prod.mk.injEq, not_and]
  intro _ h
  exact pv_ne hL (nth_inj hE hi (pv_lt hi) h).symm

theorem cent_complete (hV : vs.Nodup) (hlen : vs.length = es.length) (hch : CChain g vs es)
    (hall : ∀ e, e < g.edges.length → (act e = true ↔ e ∈ es)) {i : Nat} (hi : i < es.length)
    {j e : Nat} (h : AE g act (nth vs i) j e) : (j, e) ∈ cent vs es i := by
  have he := (hall e (joins_edge_lt h.1)).1 h.2
  obtain ⟨k, hk, rfl⟩ := mem_iff_nth.1 he
  rcases joins_det (hch k hk) h.1 with ⟨h1, h2⟩ | ⟨h1, h2⟩
  · have : i = k := nth_inj hV (by omega) (by omega) h1
    subst this
    unfold cent; simp [h2]
  · have : i = nx es.length k := nth_inj hV (by omega) (by have := nx_lt hk; omega) h1
    subst this
    unfold cent; simp [h2, pv_nx]

theorem ae_mem_cycle (hlen : vs.length = es.length) (hch : CChain g vs es)
    (hall : ∀ e, e < g.edges.length → (act e = true ↔ e ∈ es)) {v j e : Nat}
    (h : AE g act v j e) : v ∈ vs := by
  have he := (hall e (joins_edge_lt h.1)).1 h.2
  obtain ⟨k, hk, rfl⟩ := mem_iff_nth.1 he
  rcases joins_det (hch k hk) h.1 with ⟨h1, _⟩ | ⟨h1, _⟩
  · rw [h1]; exact nth_mem (by omega)
  · rw [h1]; exact nth_mem (by have := nx_lt hk; omega)

end CycleEntries

/-! ### a set of vertices closed under active entries carries all active edges -/
section Closed
variable {g : Graph} {act : Nat → Bool}

theorem walk_stays {S E : List Nat}
    (h1 : ∀ v ∈ S, ∀ j e, AE g act v j e → j ∈ S ∧ e ∈ E) {u w : Fin g.n}
    (p : (activeEdgeGraph g act).Walk u w) : u.1 ∈ S → w.1 ∈ S := by
  induction p with
  | nil => exact id
  | cons hadj q ih =>
    intro hu
    obtain ⟨_, k, hk, hjk⟩ := hadj
    exact ih (h1 _ hu _ k ⟨hjk, hk⟩).1

theorem closed (hwf : g.wf = true) {S E : List Nat}
    (h1 : ∀ v ∈ S, ∀ j e, AE g act v j e → j ∈ S ∧ e ∈ E)
    {v0 : Nat} (hv0 : v0 ∈ S) (hn : v0 < g.n) (hpos : 0 < activeDegree g act v0)
    (hconn : Conn g act) : ∀ e, e < g.edges.length → act e = true → e ∈ E := by
  intro e he hact
  have hj : Joins g e g.edges[e].1 g.edges[e].2 := Or.inl (by simp [List.getElem?_eq_getElem he])
  have ha := (joins_lt hwf hj).1
  have hae : AE g act g.edges[e].1 g.edges[e].2 e := ⟨hj, hact⟩
  obtain ⟨p⟩ := hconn ⟨v0, hn⟩ ⟨_, ha⟩ hpos hae.pos
  have := walk_stays h1 p hv0
  exact (h1 _ this _ _ hae).2

end Closed

/-! ### the sequence forms of the specification, with `nth` -/

theorem singlePath_iff {g : Graph} {act : Nat → Bool} :
    SinglePath g act ↔ (∀ e, e < g.edges.length → act e = false) ∨
      ∃ vs es : List Nat, vs.Nodup ∧ es.Nodup ∧ vs.length = es.length + 1 ∧ 1 ≤ es.length ∧
        PChain g vs es ∧ (∀ e, e < g.edges.length → (act e = true ↔ e ∈ es)) := by
  unfold SinglePath
  apply or_congr Iff.rfl
  constructor
  · rintro ⟨vs, es, h1, h2, h3, h4, h5, h6⟩
    refine ⟨vs, es, h1, h2, h3, h4, ?_, h6⟩
    intro k hk
    obtain ⟨e, a, b, he, ha, hb, hj⟩ := h5 k hk
    rw [nth_of_getElem? he, nth_of_getElem? ha, nth_of_getElem? hb]
    exact hj
  · rintro ⟨vs, es, h1, h2, h3, h4, h5, h6⟩
    refine ⟨vs, es, h1, h2, h3, h4, ?_, h6⟩
    intro k hk
    exact ⟨_, _, _, getElem?_nth hk, getElem?_nth (by omega), getElem?_nth (by omega), h5 k hk⟩

theorem singleCycle_iff {g : Graph} {act : Nat → Bool} :
    SingleCycle g act ↔ (∀ e, e < g.edges.length → act e = false) ∨
      ∃ vs es : List Nat, vs.Nodup ∧ es.Nodup ∧ vs.length = es.length ∧ 1 ≤ es.length ∧
        CChain g vs es ∧ (∀ e, e < g.edges.length → (act e = true ↔ e ∈ es)) := by
  unfold SingleCycle
  apply or_congr Iff.rfl
  constructor
  · rintro ⟨vs, es, h1, h2, h3, h4, h5, h6⟩
    refine ⟨vs, es, h1, h2, h3, h4, ?_, h6⟩
    intro k hk
    obtain ⟨e, a, b, he, ha, hb, hj⟩ := h5 k hk
    rw [h3, mod_eq_nx hk] at hb
    rw [nth_of_getElem? he, nth_of_getElem? ha, nth_of_getElem? hb]
    exact hj
  · rintro ⟨vs, es, h1, h2, h3, h4, h5, h6⟩
    refine ⟨vs, es, h1, h2, h3, h4, ?_, h6⟩
    intro k hk
    refine ⟨_, _, _, getElem?_nth hk, getElem?_nth (by omega), ?_, h5 k hk⟩
    rw [h3, mod_eq_nx hk]
    exact getElem?_nth (by have := nx_lt hk; omega)

/-! ### sequence ⇒ degree form -/
section Back
variable {g : Graph} {act : Nat → Bool} {vs es : List Nat}
open SimpleGraph

theorem pchain_reach (hwf : g.wf = true) (hlf : LoopFree g) (hch : PChain g vs es)
    (hact : ∀ e ∈ es, act e = true) : ∀ i, i ≤ es.length → ∀ (s u : Fin g.n),
      s.1 = nth vs 0 → u.1 = nth vs i → (activeEdgeGraph g act).Reachable s u := by
  intro i
  induction i with
  | zero =>
    intro _ s u hs hu
    have : s = u := Fin.ext (hs.trans hu.symm)
    rw [this]
  | succ i ih =>
    intro hi s u hs hu
    have hj := hch i (by omega)
    have hin := (joins_lt hwf hj).1
    refine (ih (by omega) s ⟨nth vs i, hin⟩ hs rfl).trans (Adj.reachable ⟨?_, nth es i,
      hact _ (nth_mem (by omega)), by rw [hu]; exact hj⟩)
    intro h
    have := congrArg Fin.val h
    rw [hu] at this
    exact joins_ne hlf hj this

theorem cchain_reach (hwf : g.wf = true) (hlf : LoopFree g) (hch : CChain g vs es)
    (hact : ∀ e ∈ es, act e = true) : ∀ i, i < es.length → ∀ (s u : Fin g.n),
      s.1 = nth vs 0 → u.1 = nth vs i → (activeEdgeGraph g act).Reachable s u := by
  intro i
  induction i with
  | zero =>
    intro _ s u hs hu
    have : s = u := Fin.ext (hs.trans hu.symm)
    rw [this]
  | succ i ih =>
    intro hi s u hs hu
    have hj := hch i (by omega)
    have hnx : nx es.length i = i + 1 := by unfold nx; rw [if_neg (by omega)]
    rw [hnx] at hj
    have hin := (joins_lt hwf hj).1
    refine (ih (by omega) s ⟨nth vs i, hin⟩ hs rfl).trans (Adj.reachable ⟨?_, nth es i,
      hact _ (nth_mem (by omega)), by rw [hu]; exact hj⟩)
    intro h
    have := congrArg Fin.val h
    rw [hu] at this
    exact joins_ne hlf hj this

theorem two_of_mem_iff {l : List Nat} (hl : l.Nodup) {a b : Nat} (hab : a ≠ b)
    (h : ∀ x, x ∈ l ↔ x = a ∨ x = b) : l.length = 2 := by
  have hp : l.Perm [a, b] := (List.perm_ext_iff_of_nodup hl (by simp [hab])).2 (by
    intro x; rw [h x]; simp)
  simpa using hp.length_eq

theorem cycle_regular_of_seq (hwf : g.wf = true) (hlf : LoopFree g) (hV : vs.Nodup)
    (hE : es.Nodup) (hlen : vs.length = es.length) (hpos : 1 ≤ es.length) (hch : CChain g vs es)
    (hall : ∀ e, e < g.edges.length → (act e = true ↔ e ∈ es)) : RegularConnected g act := by
  right
  have hL : 2 ≤ es.length := by
    by_contra h
    have h1 : es.length = 1 := by omega
    have := hch 0 (by omega)
    rw [h1] at this
    exact joins_ne hlf this rfl
  have hact : ∀ e ∈ es, act e = true := by
    intro e he
    obtain ⟨k, hk, rfl⟩ := mem_iff_nth.1 he
    exact (hall _ (joins_edge_lt (hch k hk))).2 he
  have hdeg : ∀ i, i < es.length → activeDegree g act (nth vs i) = 2 := fun i hi =>
    Nat.le_antisymm (deg_le hlf (L := cent vs es i) (fun j e h => cent_complete hV hlen hch hall hi h))
      (deg_ge (cent_nodup hE hL hi) (cent_ae hch hact hi))
  have hout : ∀ v, v ∉ vs → activeDegree g act v = 0 := by
    intro v hv
    have := deg_le hlf (L := []) (v := v) (act := act) (by
      intro j e h; exact absurd (ae_mem_cycle hlen hch hall h) hv)
    simpa using this
  refine ⟨fun v _ => ?_, ?_⟩
  · by_cases hv : v ∈ vs
    · obtain ⟨i, hi, rfl⟩ := mem_iff_nth.1 hv
      exact Or.inr (hdeg i (by omega))
    · exact Or.inl (hout v hv)
  · intro u v hu hv
    have hum : u.1 ∈ vs := by
      by_contra h; rw [hout _ h] at hu; cases hu
    have hvm : v.1 ∈ vs := by
      by_contra h; rw [hout _ h] at hv; cases hv
    obtain ⟨i, hi, hiu⟩ := mem_iff_nth.1 hum
    obtain ⟨i', hi', hiv⟩ := mem_iff_nth.1 hvm
    have h0 : nth vs 0 < g.n := (joins_lt hwf (hch 0 (by omega))).1
    have r1 := cchain_reach hwf hlf hch hact i (by omega) ⟨_, h0⟩ u rfl hiu.symm
    have r2 := cchain_reach hwf hlf hch hact i' (by omega) ⟨_, h0⟩ v rfl hiv.symm
    exact r1.symm.trans r2

theorem pent_length (vs es : List Nat) (i : Nat) : (pent vs es i).length =
    (if i < es.length then 1 else 0) + (if 0 < i then 1 else 0) := by
  unfold pent
  rw [List.length_append]
  split <;> split <;> rfl

theorem path_regular_of_seq (hwf : g.wf = true) (hlf : LoopFree g) (hV : vs.Nodup)
    (hE : es.Nodup) (hlen : vs.length = es.length + 1) (hpos : 1 ≤ es.length)
    (hch : PChain g vs es)
    (hall : ∀ e, e < g.edges.length → (act e = true ↔ e ∈ es)) : PathRegular g act := by
  right
  have hact : ∀ e ∈ es, act e = true := by
    intro e he
    obtain ⟨k, hk, rfl⟩ := mem_iff_nth.1 he
    exact (hall _ (joins_edge_lt (hch k hk))).2 he
  have hdeg : ∀ i, i ≤ es.length → activeDegree g act (nth vs i) = (pent vs es i).length :=
    fun i hi => Nat.le_antisymm
      (deg_le hlf (L := pent vs es i) (fun j e h => pent_complete hV hlen hch hall hi h))
      (deg_ge (pent_nodup hE) (pent_ae hch hact hi))
  have hout : ∀ v, v ∉ vs → activeDegree g act v = 0 := by
    intro v hv
    have := deg_le hlf (L := []) (v := v) (act := act) (by
      intro j e h; exact absurd (ae_mem_path hlen hch hall h) hv)
    simpa using this
  have h0 : nth vs 0 < g.n := (joins_lt hwf (hch 0 (by omega))).1
  have hl : nth vs es.length < g.n := by
    have := (joins_lt hwf (hch (es.length - 1) (by omega))).2
    rwa [show es.length - 1 + 1 = es.length by omega] at this
  refine ⟨fun v _ => ?_, ?_, ?_⟩
  · by_cases hv : v ∈ vs
    · obtain ⟨i, hi, rfl⟩ := mem_iff_nth.1 hv
      rw [hdeg i (by omega), pent_length]
      split <;> split <;> omega
    · rw [hout v hv]; omega
  · apply two_of_mem_iff (List.nodup_range.filter _)
      (a := nth vs 0) (b := nth vs es.length)
    · intro h
      have := nth_inj hV (by omega) (by omega) h
      omega
    · intro x
      simp only [List.mem_filter, List.mem_range, beq_iff_eq]
      constructor
      · rintro ⟨_, hx1⟩
        have hxm : x ∈ vs := by
          by_contra h; rw [hout _ h] at hx1; cases hx1
        obtain ⟨i, hi, rfl⟩ := mem_iff_nth.1 hxm
        rw [hdeg i (by omega), pent_length] at hx1
        by_cases hi0 : i = 0
        · left; rw [hi0]
        · by_cases hil : i = es.length
          · right; rw [hil]
          · rw [if_pos (by omega), if_pos (by omega)] at hx1
            omega
      · rintro (rfl | rfl)
        · refine ⟨h0, ?_⟩
          rw [hdeg 0 (by omega), pent_length, if_pos (by omega), if_neg (by omega)]
        · refine ⟨hl, ?_⟩
          rw [hdeg _ (Nat.le_refl _), pent_length, if_neg (by omega), if_pos (by omega)]
  · intro u v hu hv
    have hum : u.1 ∈ vs := by
      by_contra h; rw [hout _ h] at hu; cases hu
    have hvm : v.1 ∈ vs := by
      by_contra h; rw [hout _ h] at hv; cases hv
    obtain ⟨i, hi, hiu⟩ := mem_iff_nth.1 hum
    obtain ⟨i', hi', hiv⟩ := mem_iff_nth.1 hvm
    have r1 := pchain_reach hwf hlf hch hact i (by omega) ⟨_, h0⟩ u rfl hiu.symm
    have r2 := pchain_reach hwf hlf hch hact i' (by omega) ⟨_, h0⟩ v rfl hiv.symm
    exact r1.symm.trans r2

end Back

/-! ### degree form ⇒ sequence: growing a path of active edges -/

/-- a path of active edges with distinct vertices and at least one edge. -/
structure APath (g : Graph) (act : Nat → Bool) (vs es : List Nat) : Prop where
  nodupV : vs.Nodup
  nodupE : es.Nodup
  len : vs.length = es.length + 1
  pos : 1 ≤ es.length
  chain : PChain g vs es
  active : ∀ e ∈ es, act e = true

section Grow
variable {g : Graph} {act : Nat → Bool} {vs es : List Nat}

theorem APath.lt (hwf : g.wf = true) (P : APath g act vs es) : ∀ v ∈ vs, v < g.n := by
  intro v hv
  obtain ⟨i, hi, rfl⟩ := mem_iff_nth.1 hv
  have := P.len
  by_cases h : i < es.length
  · exact (joins_lt hwf (P.chain i h)).1
  · have h2 := (joins_lt hwf (P.chain (i - 1) (by have := P.pos; omega))).2
    rwa [show i - 1 + 1 = i by have := P.pos; omega] at h2

theorem APath.length_le (hwf : g.wf = true) (P : APath g act vs es) : vs.length ≤ g.n := by
  have := List.Nodup.length_le_of_subset P.nodupV (l₂ := List.range g.n)
    (fun x hx => List.mem_range.2 (P.lt hwf x hx))
  simpa using this

/-- the single-edge path. -/
theorem APath.single (hlf : LoopFree g) {a b e : Nat} (h : AE g act a b e) :
    APath g act [a, b] [e] where
  nodupV := by simp [joins_ne hlf h.1]
  nodupE := by simp
  len := rfl
  pos := Nat.le_refl _
  chain := by
    intro k hk
    have : k = 0 := by simpa using hk
    subst this
    exact h.1
  active := by intro x hx; simp at hx; subst hx; exact h.2

/-- extend the path by an active entry of its last vertex that leads outside. -/
theorem APath.extend (P : APath g act vs es) {w f : Nat}
    (hae : AE g act (nth vs es.length) w f) (hw : w ∉ vs) :
    APath g act (vs ++ [w]) (es ++ [f]) where
  nodupV := by
    rw [List.nodup_append]
    exact ⟨P.nodupV, by simp, by intro a ha b hb; simp at hb; subst hb; intro h; exact hw (h ▸ ha)⟩
  nodupE := by
    rw [List.nodup_append]
    refine ⟨P.nodupE, by simp, ?_⟩
    intro a ha b hb
    simp at hb; subst hb
    intro h; subst h
    obtain ⟨k, hk, rfl⟩ := mem_iff_nth.1 ha
    have := P.len
    rcases joins_det (P.chain k hk) hae.1.symm with ⟨h1, _⟩ | ⟨h1, _⟩
    · exact hw (h1 ▸ nth_mem (by omega))
    · exact hw (h1 ▸ nth_mem (by omega))
  len := by simp [P.len]
  pos := by simp
  chain := by
    intro k hk
    have hl := P.len
    simp only [List.length_append, List.length_singleton] at hk
    by_cases h : k < es.length
    · rw [nth_append_left h, nth_append_left (by omega), nth_append_left (by omega)]
      exact P.chain k h
    · have hk' : k = es.length := by omega
      rw [nth_append_right hk', nth_append_left (by omega), nth_append_right (by omega), hk']
      exact hae.1
  active := by
    intro x hx
    rw [List.mem_append] at hx
    rcases hx with hx | hx
    · exact P.active x hx
    · simp at hx; subst hx; exact hae.2

/-- an active entry of the last vertex (other than the one it was reached by) that leads back into
the path either closes a cycle at the first vertex or gives a vertex three active entries. -/
theorem APath.back (hlf : LoopFree g) (P : APath g act vs es) {w f : Nat}
    (hae : AE g act (nth vs es.length) w f)
    (hne : (w, f) ≠ (nth vs (es.length - 1), nth es (es.length - 1)))
    {i : Nat} (hi : i < vs.length) (hw : w = nth vs i) :
    (i = 0 ∧ 2 ≤ activeDegree g act (nth vs 0)) ∨ 3 ≤ activeDegree g act (nth vs i) := by
  have hl := P.len
  have hp := P.pos
  have hil : i ≠ es.length := by
    intro h
    rw [h] at hw
    exact joins_ne hlf hae.1 hw.symm
  have hback : AE g act (nth vs i) (nth vs es.length) f := by rw [← hw]; exact hae.symm
  by_cases hi0 : i = 0
  · left
    refine ⟨hi0, ?_⟩
    subst hi0
    have h1 := pent_ae P.chain P.active (i := 0) (by omega)
    have hL : ([(nth vs 1, nth es 0), (nth vs es.length, f)] : List (Nat × Nat)).Nodup := by
      simp only [List.nodup_cons, List.mem_singleton, List.not_mem_nil, not_false_eq_true,
        List.nodup_nil, and_true, Prod.mk.injEq, not_and]
      intro h hf
      have h1l : 1 = es.length := nth_inj P.nodupV (by omega) (by omega) h
      apply hne
      rw [hw, ← hf, ← h1l]
    have := deg_ge hL (v := nth vs 0) (act := act) (g := g) (by
      intro x hx
      simp only [List.mem_cons, List.not_mem_nil, or_false] at hx
      rcases hx with rfl | rfl
      · exact h1 _ (by unfold pent; rw [if_pos (by omega)]; simp)
      · exact hback)
    simpa using this
  · right
    have h1 := pent_ae P.chain P.active (i := i) (by omega)
    have hL : ([(nth vs (i + 1), nth es i), (nth vs (i - 1), nth es (i - 1)),
        (nth vs es.length, f)] : List (Nat × Nat)).Nodup := by
      simp only [List.nodup_cons, List.mem_cons, List.not_mem_nil,
        not_false_eq_true, List.nodup_nil, and_true, Prod.mk.injEq, not_or, not_and, or_false]
      refine ⟨⟨?_, ?_⟩, ?_⟩
      · intro _ h
        have := nth_inj P.nodupE (by omega) (by omega) h
        omega
      · intro h hf
        have h1l : i + 1 = es.length := nth_inj P.nodupV (by omega) (by omega) h
        apply hne
        rw [hw, ← hf, ← h1l]
        simp
      · intro h
        have := nth_inj P.nodupV (by omega) (by omega) h
        omega
    have := deg_ge hL (v := nth vs i) (act := act) (g := g) (by
      intro x hx
      simp only [List.mem_cons, List.not_mem_nil, or_false] at hx
      rcases hx with rfl | rfl | rfl
      · exact h1 _ (by unfold pent; rw [if_pos (by omega)]; simp)
      · exact h1 _ (by unfold pent; rw [if_pos (show 0 < i by omega)]; simp)
      · exact hback)
    simpa using this

/-- the last vertex of a path has its predecessor as an active entry. -/
theorem APath.last_entry (P : APath g act vs es) :
    AE g act (nth vs es.length) (nth vs (es.length - 1)) (nth es (es.length - 1)) := by
  have hp := P.pos
  have := pent_ae P.chain P.active (i := es.length) (Nat.le_refl _)
    (nth vs (es.length - 1), nth es (es.length - 1))
    (by unfold pent; rw [if_pos (show 0 < es.length by omega)]; simp)
  exact this

theorem mem_pent {i : Nat} {x : Nat × Nat} (h : x ∈ pent vs es i) :
    (i < es.length ∧ x = (nth vs (i + 1), nth es i)) ∨
      (0 < i ∧ x = (nth vs (i - 1), nth es (i - 1))) := by
  unfold pent at h
  rw [List.mem_append] at h
  rcases h with h | h
  · split at h
    · rename_i hi; left; exact ⟨hi, by simpa using h⟩
    · simp at h
  · split at h
    · rename_i hi; right; exact ⟨hi, by simpa using h⟩
    · simp at h

/-! #### the cycle -/

theorem cycle_step (hwf : g.wf = true) (hlf : LoopFree g)
    (hdeg : ∀ v, v < g.n → activeDegree g act v = 0 ∨ activeDegree g act v = 2)
    (P : APath g act vs es) :
    (∃ f, AE g act (nth vs es.length) (nth vs 0) f ∧
      (nth vs 0, f) ≠ (nth vs (es.length - 1), nth es (es.length - 1))) ∨
    (∃ w f, APath g act (vs ++ [w]) (es ++ [f])) := by
  have hl := P.len
  have hlast := P.last_entry
  have hn := P.lt hwf _ (nth_mem (show es.length < vs.length by omega))
  have h2 : 2 ≤ activeDegree g act (nth vs es.length) := by
    have := hlast.pos
    rcases hdeg _ hn with h | h <;> omega
  obtain ⟨w, f, hae, hne⟩ := exists_other hlf h2 (nth vs (es.length - 1), nth es (es.length - 1))
  by_cases hw : w ∈ vs
  · obtain ⟨i, hi, rfl⟩ := mem_iff_nth.1 hw
    rcases P.back hlf hae hne hi rfl with ⟨rfl, _⟩ | h3
    · exact Or.inl ⟨f, hae, hne⟩
    · exfalso
      rcases hdeg _ (P.lt hwf _ (nth_mem hi)) with h | h <;> omega
  · exact Or.inr ⟨w, f, P.extend hae hw⟩

theorem find_cycle (hwf : g.wf = true) (hlf : LoopFree g)
    (hdeg : ∀ v, v < g.n → activeDegree g act v = 0 ∨ activeDegree g act v = 2) :
    ∀ (fuel : Nat) (vs es : List Nat), APath g act vs es → g.n - vs.length ≤ fuel →
      ∃ vs' es' f, APath g act vs' es' ∧ AE g act (nth vs' es'.length) (nth vs' 0) f ∧
        (nth vs' 0, f) ≠ (nth vs' (es'.length - 1), nth es' (es'.length - 1)) := by
  intro fuel
  induction fuel with
  | zero =>
    intro vs es P hf
    rcases cycle_step hwf hlf hdeg P with ⟨f, h1, h2⟩ | ⟨w, f, P'⟩
    · exact ⟨vs, es, f, P, h1, h2⟩
    · have h1 := P'.length_le hwf
      simp only [List.length_append, List.length_singleton] at h1
      omega
  | succ fuel ih =>
    intro vs es P hf
    rcases cycle_step hwf hlf hdeg P with ⟨f, h1, h2⟩ | ⟨w, f, P'⟩
    · exact ⟨vs, es, f, P, h1, h2⟩
    · exact ih _ _ P' (by simp only [List.length_append, List.length_singleton]; omega)

theorem cycle_of_regular (hwf : g.wf = true) (hlf : LoopFree g) (h : RegularConnected g act) :
    SingleCycle g act := by
  rw [singleCycle_iff]
  by_cases hno : ∀ e, e < g.edges.length → act e = false
  · exact Or.inl hno
  right
  obtain ⟨hdeg, hconn⟩ := C06Prim.regular_iff.1 h
  have hex : ∃ e0, e0 < g.edges.length ∧ act e0 = true := by
    by_contra hc
    apply hno
    intro e he
    by_contra h1
    exact hc ⟨e, he, by simpa using h1⟩
  obtain ⟨e0, he0, hact0⟩ := hex
  have hj0 : Joins g e0 g.edges[e0].1 g.edges[e0].2 :=
    Or.inl (by simp [List.getElem?_eq_getElem he0])
  have P0 := APath.single hlf (act := act) ⟨hj0, hact0⟩
  obtain ⟨vs, es, f, P, hcl, hne⟩ := find_cycle hwf hlf hdeg _ _ _ P0 (Nat.le_refl _)
  have hl := P.len
  have hp := P.pos
  have hf : f ∉ es := by
    intro hmem
    obtain ⟨k, hk, rfl⟩ := mem_iff_nth.1 hmem
    rcases joins_det (P.chain k hk) hcl.1 with ⟨h1, _⟩ | ⟨h1, h2⟩
    · have := nth_inj P.nodupV (by omega) (by omega) h1
      omega
    · have e1 := nth_inj P.nodupV (by omega) (by omega) h1
      have e2 := nth_inj P.nodupV (by omega) (by omega) h2
      apply hne
      have : es.length - 1 = k := by omega
      rw [this, ← e2]
  have hlen' : (es ++ [f]).length = es.length + 1 := by simp
  have hE' : (es ++ [f]).Nodup := by
    rw [List.nodup_append]
    exact ⟨P.nodupE, by simp, by intro a ha b hb; simp at hb; subst hb; intro h; exact hf (h ▸ ha)⟩
  have hch' : CChain g vs (es ++ [f]) := by
    intro k hk
    rw [hlen'] at hk ⊢
    by_cases hkl : k < es.length
    · rw [nth_append_left hkl]
      have : nx (es.length + 1) k = k + 1 := by unfold nx; rw [if_neg (by omega)]
      rw [this]
      exact P.chain k hkl
    · have hk' : k = es.length := by omega
      rw [nth_append_right hk']
      have : nx (es.length + 1) k = 0 := by unfold nx; rw [if_pos (by omega)]
      rw [this, hk']
      exact hcl.1
  have hact' : ∀ e ∈ es ++ [f], act e = true := by
    intro x hx
    rw [List.mem_append] at hx
    rcases hx with hx | hx
    · exact P.active x hx
    · simp at hx; subst hx; exact hcl.2
  have hL : 2 ≤ (es ++ [f]).length := by rw [hlen']; omega
  have h1 : ∀ v ∈ vs, ∀ j e, AE g act v j e → j ∈ vs ∧ e ∈ es ++ [f] := by
    intro v hv j e hje
    obtain ⟨i, hi, rfl⟩ := mem_iff_nth.1 hv
    have hi' : i < (es ++ [f]).length := by rw [hlen']; omega
    have hd2 : activeDegree g act (nth vs i) ≤ (cent vs (es ++ [f]) i).length := by
      rcases hdeg _ (P.lt hwf _ (nth_mem hi)) with h | h <;> simp [cent] <;> omega
    have hm := entries_subset (cent_nodup hE' hL hi') (cent_ae hch' hact' hi') hd2 j e hje
    unfold cent at hm
    simp only [List.mem_cons, List.not_mem_nil, or_false, Prod.mk.injEq] at hm
    rcases hm with ⟨rfl, rfl⟩ | ⟨rfl, rfl⟩
    · exact ⟨nth_mem (by have := nx_lt hi'; omega), nth_mem hi'⟩
    · exact ⟨nth_mem (by have := pv_lt hi'; omega), nth_mem (pv_lt hi')⟩
  have h0m : nth vs 0 ∈ vs := nth_mem (by omega)
  have hcl' := closed hwf h1 h0m (P.lt hwf _ h0m) hcl.symm.pos hconn
  refine ⟨vs, es ++ [f], P.nodupV, hE', by rw [hlen']; exact hl, by rw [hlen']; omega, hch', ?_⟩
  intro e he
  exact ⟨hcl' e he, hact' e⟩

/-! #### the path -/

theorem path_step (hwf : g.wf = true) (hlf : LoopFree g)
    (hdeg : ∀ v, v < g.n → activeDegree g act v ≤ 2) (P : APath g act vs es)
    (hs : activeDegree g act (nth vs 0) = 1) :
    activeDegree g act (nth vs es.length) = 1 ∨ ∃ w f, APath g act (vs ++ [w]) (es ++ [f]) := by
  have hl := P.len
  have hlast := P.last_entry
  have hn := P.lt hwf _ (nth_mem (show es.length < vs.length by omega))
  have hpos := hlast.pos
  have hle := hdeg _ hn
  by_cases h1 : activeDegree g act (nth vs es.length) = 1
  · exact Or.inl h1
  right
  obtain ⟨w, f, hae, hne⟩ := exists_other hlf (show 2 ≤ activeDegree g act (nth vs es.length) by omega)
    (nth vs (es.length - 1), nth es (es.length - 1))
  by_cases hw : w ∈ vs
  · exfalso
    obtain ⟨i, hi, rfl⟩ := mem_iff_nth.1 hw
    rcases P.back hlf hae hne hi rfl with ⟨_, h2⟩ | h3
    · omega
    · have := hdeg _ (P.lt hwf _ (nth_mem hi)); omega
  · exact ⟨w, f, P.extend hae hw⟩

theorem find_path (hwf : g.wf = true) (hlf : LoopFree g)
    (hdeg : ∀ v, v < g.n → activeDegree g act v ≤ 2) :
    ∀ (fuel : Nat) (vs es : List Nat), APath g act vs es → activeDegree g act (nth vs 0) = 1 →
      g.n - vs.length ≤ fuel →
      ∃ vs' es', APath g act vs' es' ∧ activeDegree g act (nth vs' 0) = 1 ∧
        activeDegree g act (nth vs' es'.length) = 1 := by
  intro fuel
  induction fuel with
  | zero =>
    intro vs es P hs hf
    rcases path_step hwf hlf hdeg P hs with h1 | ⟨w, f, P'⟩
    · exact ⟨vs, es, P, hs, h1⟩
    · have h1 := P'.length_le hwf
      simp only [List.length_append, List.length_singleton] at h1
      omega
  | succ fuel ih =>
    intro vs es P hs hf
    rcases path_step hwf hlf hdeg P hs with h1 | ⟨w, f, P'⟩
    · exact ⟨vs, es, P, hs, h1⟩
    · have hl := P.len
      exact ih _ _ P' (by rw [nth_append_left (by omega)]; exact hs)
        (by simp only [List.length_append, List.length_singleton]; omega)

theorem path_of_regular (hwf : g.wf = true) (hlf : LoopFree g) (h : PathRegular g act) :
    SinglePath g act := by
  rw [singlePath_iff]
  rcases h with hno | ⟨hdeg, hct, hconn⟩
  · exact Or.inl hno
  right
  have hpos : 0 < ((List.range g.n).filter fun v => activeDegree g act v == 1).length := by omega
  obtain ⟨s, hs⟩ := List.exists_mem_of_length_pos hpos
  simp only [List.mem_filter, List.mem_range, beq_iff_eq] at hs
  obtain ⟨hsn, hs1⟩ := hs
  obtain ⟨w, e, hj, hact⟩ := activeDegree_pos_iff.1 (show 0 < activeDegree g act s by omega)
  have P0 := APath.single hlf (act := act) ⟨hj, hact⟩
  obtain ⟨vs, es, P, h0, hlast⟩ := find_path hwf hlf hdeg _ _ _ P0 (by simpa [nth] using hs1)
    (Nat.le_refl _)
  have hl := P.len
  have hp := P.pos
  have h1 : ∀ v ∈ vs, ∀ j e, AE g act v j e → j ∈ vs ∧ e ∈ es := by
    intro v hv j e hje
    obtain ⟨i, hi, rfl⟩ := mem_iff_nth.1 hv
    have hi' : i ≤ es.length := by omega
    have hd2 : activeDegree g act (nth vs i) ≤ (pent vs es i).length := by
      rw [pent_length]
      by_cases hi0 : i = 0
      · subst hi0; rw [h0, if_pos (by omega)]; omega
      · by_cases hil : i = es.length
        · subst hil; rw [hlast, if_neg (by omega), if_pos (by omega)]
        · have := hdeg _ (P.lt hwf _ (nth_mem hi))
          rw [if_pos (by omega), if_pos (by omega)]
          exact this
    have hm := entries_subset (pent_nodup P.nodupE) (pent_ae P.chain P.active hi') hd2 j e hje
    rcases mem_pent hm with ⟨hlt, hx⟩ | ⟨hlt, hx⟩
    · simp only [Prod.mk.injEq] at hx
      obtain ⟨rfl, rfl⟩ := hx
      exact ⟨nth_mem (by omega), nth_mem hlt⟩
    · simp only [Prod.mk.injEq] at hx
      obtain ⟨rfl, rfl⟩ := hx
      exact ⟨nth_mem (by omega), nth_mem (by omega)⟩
  have h0m : nth vs 0 ∈ vs := nth_mem (by omega)
  have hcl := closed hwf h1 h0m (P.lt hwf _ h0m) (by rw [h0]; exact Nat.one_pos) hconn
  refine ⟨vs, es, P.nodupV, P.nodupE, hl, hp, P.chain, ?_⟩
  intro e he
  exact ⟨hcl e he, P.active e⟩

end Grow

/-! ### main theorems of the layer -/

theorem regular_iff_cycle (g : Graph) (act : Nat → Bool) (hwf : g.wf = true) (hlf : LoopFree g) :
    RegularConnected g act ↔ SingleCycle g act := by
  constructor
  · exact cycle_of_regular hwf hlf
  · intro h
    rcases singleCycle_iff.1 h with h | ⟨vs, es, h1, h2, h3, h4, h5, h6⟩
    · exact Or.inl h
    · exact cycle_regular_of_seq hwf hlf h1 h2 h3 h4 h5 h6

theorem regular_iff_path (g : Graph) (act : Nat → Bool) (hwf : g.wf = true) (hlf : LoopFree g) :
    PathRegular g act ↔ SinglePath g act := by
  constructor
  · exact path_of_regular hwf hlf
  · intro h
    rcases singlePath_iff.1 h with h | ⟨vs, es, h1, h2, h3, h4, h5, h6⟩
    · exact Or.inl h
    · exact path_regular_of_seq hwf hlf h1 h2 h3 h4 h5 h6

end Cspuz.Proofs.C06Seq
