/-
  C11 / firefly — soundness of the arithmetic certificate, part 2: the oriented steps as a functional graph.
  An "edge" is a cell together with a direction; a GOOD edge is an existing step oriented away from its cell.
  `next` follows the line: from the edge `(p, d)` to the edge that leaves the cell `nb p d` (the unique out-step of an
  empty cell, the dot step of a firefly).  Facts: `next` preserves good edges, is injective where the head is an
  empty cell, every orbit reaches the (unique) ignored step, and the line of a firefly reaches a firefly.
-/
import CspuzModel.Proofs.C11FireflySoundLocal
import Mathlib.Logic.Function.Iterate
import Mathlib.Data.Finset.Card
import Mathlib.Data.Finset.Prod
import Mathlib.Tactic.Ring
namespace Cspuz.Proofs.C11FireflySoundOrbit
open Cspuz Cspuz.Spec Cspuz.Spec.FrameGeom Cspuz.Spec.Loop
open Cspuz.Spec.Firefly (firefly segOf opp armCount)
open Cspuz.Puzzles.Firefly (Problem)
open Cspuz.Proofs.C11FireflyCert Cspuz.Proofs.C11FireflySoundLocal

/-- A cell and a direction. -/
abbrev Edge := Pt × Dir
/-- The cell the edge leads to. -/
def hd (e : Edge) : Pt := nb e.1 e.2
/-- The segment of the edge. -/
def sg (e : Edge) : Seg := segOf e.1 e.2

theorem pigeon (H W : Nat) (g : ℕ → Edge) (hg : ∀ k, (g k).1.1 ≤ H ∧ (g k).1.2 ≤ W) :
    ∃ i j, i < j ∧ g i = g j := by
  classical
  let t : Finset Edge :=
    (Finset.range (H + 1) ×ˢ Finset.range (W + 1)) ×ˢ ({Dir.up, Dir.down, Dir.left, Dir.right} : Finset Dir)
  have hmaps : ∀ k ∈ Finset.range (t.card + 1), g k ∈ t := by
    intro k _
    simp only [t, Finset.mem_product, Finset.mem_range, Finset.mem_insert, Finset.mem_singleton]
    refine ⟨⟨by have := (hg k).1; omega, by have := (hg k).2; omega⟩, ?_⟩
    cases (g k).2 <;> simp
  obtain ⟨i, _, j, _, hne, heq⟩ := Finset.exists_ne_map_eq_of_card_lt_of_maps_to (by simp) hmaps
  rcases Nat.lt_or_gt_of_ne hne with h | h
  · exact ⟨i, j, h, heq⟩
  · exact ⟨j, i, h, heq.symm⟩

section
variable {pb : Problem} {H W : Nat} {unk : Int} {on : Seg → Bool}

/-- An existing step oriented away from its cell. -/
def Good (c : Cert pb H W unk on) (e : Edge) : Prop := e.1.1 ≤ H ∧ e.1.2 ≤ W ∧ Out c e.1 e.2 = true

/-- The edge by which the line goes on after `e`. -/
def next (c : Cert pb H W unk on) (e : Edge) : Edge :=
  match firefly pb (hd e) with
  | some (dg, _) => (hd e, dg)
  | none => (hd e, pick (Out c (hd e)))

/-- The edge by which the line arrives at the cell of `e` (for an empty cell). -/
def pred (c : Cert pb H W unk on) (e : Edge) : Edge := (nb e.1 (pick (In c e.1)), opp (pick (In c e.1)))

theorem next_fst (c : Cert pb H W unk on) (e : Edge) : (next c e).1 = hd e := by
  unfold next; split <;> rfl

theorem next_none (c : Cert pb H W unk on) (e : Edge) (h : firefly pb (hd e) = none) :
    next c e = (hd e, pick (Out c (hd e))) := by
  unfold next; rw [h]

theorem next_some (c : Cert pb H W unk on) (e : Edge) (dg : Dir) (n : Option Int)
    (h : firefly pb (hd e) = some (dg, n)) : next c e = (hd e, dg) := by
  unfold next; rw [h]

theorem good_has (c : Cert pb H W unk on) {e : Edge} (h : Good c e) : has H W e.1 e.2 = true := by
  have := h.2.2; unfold Out at this; rw [Bool.and_eq_true] at this; exact this.1

/-- The head of a good edge is a cell of the board, entered by this edge. -/
theorem in_head (c : Cert pb H W unk on) {e : Edge} (h : Good c e) :
    (hd e).1 ≤ H ∧ (hd e).2 ≤ W ∧ In c (hd e) (opp e.2) = true := by
  obtain ⟨f1, f2, f3, _, _, f6, _⟩ := step_facts H W c.ul c.dr e.1 e.2 h.1 h.2.1 (good_has c h)
  refine ⟨f1, f2, ?_⟩
  have := h.2.2
  unfold Out at this; rw [Bool.and_eq_true] at this
  unfold In; rw [Bool.and_eq_true]
  exact ⟨f3, by show inTo c.ul c.dr (nb e.1 e.2) (opp e.2) = true; rw [f6]; exact this.2⟩

theorem empty_in (c : Cert pb H W unk on) (q : Pt) (hy : q.1 ≤ H) (hx : q.2 ≤ W) (he : firefly pb q = none)
    (d : Dir) (hi : In c q d = true) : inCnt H W c.ul c.dr q = 1 ∧ outCnt H W c.ul c.dr q = 1 := by
  obtain ⟨h1, h2, _⟩ : EmptyOk H W unk c.ul c.dr c.nt q := c.empties q.1 hy q.2 hx he
  have : 1 ≤ inCnt H W c.ul c.dr q := by rw [inCnt_eq]; exact cnt_pos _ hi
  constructor <;> omega

theorem empty_out (c : Cert pb H W unk on) (q : Pt) (hy : q.1 ≤ H) (hx : q.2 ≤ W) (he : firefly pb q = none)
    (d : Dir) (ho : Out c q d = true) : inCnt H W c.ul c.dr q = 1 ∧ outCnt H W c.ul c.dr q = 1 := by
  obtain ⟨h1, h2, _⟩ : EmptyOk H W unk c.ul c.dr c.nt q := c.empties q.1 hy q.2 hx he
  have : 1 ≤ outCnt H W c.ul c.dr q := by rw [outCnt_eq]; exact cnt_pos _ ho
  constructor <;> omega

theorem out_pick (c : Cert pb H W unk on) (q : Pt) (h : outCnt H W c.ul c.dr q = 1) :
    Out c q (pick (Out c q)) = true :=
  pick_spec _ (cnt_exists _ (by rw [← outCnt_eq]; omega))

theorem in_pick (c : Cert pb H W unk on) (q : Pt) (h : inCnt H W c.ul c.dr q = 1) :
    In c q (pick (In c q)) = true :=
  pick_spec _ (cnt_exists _ (by rw [← inCnt_eq]; omega))

theorem out_unique (c : Cert pb H W unk on) (q : Pt) (h : outCnt H W c.ul c.dr q = 1) {d d' : Dir}
    (hd : Out c q d = true) (hd' : Out c q d' = true) : d = d' :=
  cnt_unique _ (by rw [← outCnt_eq]; omega) hd hd'

theorem in_unique (c : Cert pb H W unk on) (q : Pt) (h : inCnt H W c.ul c.dr q ≤ 1) {d d' : Dir}
    (hd : In c q d = true) (hd' : In c q d' = true) : d = d' :=
  cnt_unique _ (by rw [← inCnt_eq]; omega) hd hd'

/-- At a firefly only the dot step is oriented away. -/
theorem fly_out (c : Cert pb H W unk on) (p : Pt) (hy : p.1 ≤ H) (hx : p.2 ≤ W) (d0 : Dir) (n : Option Int)
    (hf : firefly pb p = some (d0, n)) (d : Dir) (ho : Out c p d = true) : d = d0 := by
  by_contra hne
  obtain ⟨_, _, _, h4⟩ := c.flies p.1 hy p.2 hx d0 n hf
  unfold Out at ho; rw [Bool.and_eq_true] at ho
  have := (h4 d hne ho.1).1
  rw [ho.2] at this
  exact Bool.noConfusion this

theorem fly_good (c : Cert pb H W unk on) (p : Pt) (hy : p.1 ≤ H) (hx : p.2 ≤ W) (d0 : Dir) (n : Option Int)
    (hf : firefly pb p = some (d0, n)) : Good c (p, d0) := by
  obtain ⟨h1, h2, _, _⟩ := c.flies p.1 hy p.2 hx d0 n hf
  refine ⟨hy, hx, ?_⟩
  unfold Out; rw [Bool.and_eq_true]; exact ⟨h1, h2⟩

theorem good_next (c : Cert pb H W unk on) {e : Edge} (h : Good c e) : Good c (next c e) := by
  obtain ⟨f1, f2, f3⟩ := in_head c h
  cases hf : firefly pb (hd e) with
  | some v =>
    obtain ⟨dg, n⟩ := v
    rw [next_some c e dg n hf]
    exact fly_good c _ f1 f2 dg n hf
  | none =>
    rw [next_none c e hf]
    exact ⟨f1, f2, out_pick c _ (empty_in c _ f1 f2 hf _ f3).2⟩

theorem good_iter (c : Cert pb H W unk on) {e : Edge} (h : Good c e) (n : Nat) : Good c ((next c)^[n] e) := by
  induction n with
  | zero => exact h
  | succ n ih => rw [Function.iterate_succ_apply']; exact good_next c ih

/-- `next` is injective where the head is an empty cell. -/
theorem next_inj (c : Cert pb H W unk on) {e1 e2 : Edge} (h1 : Good c e1) (h2 : Good c e2)
    (he : next c e1 = next c e2) (hf : firefly pb (hd e2) = none) : e1 = e2 := by
  have hq : hd e1 = hd e2 := by rw [← next_fst c e1, ← next_fst c e2, he]
  obtain ⟨f1, f2, f3⟩ := in_head c h1
  obtain ⟨g1, g2, g3⟩ := in_head c h2
  rw [hq] at f3
  have hle := (c.empties _ g1 _ g2 hf : EmptyOk H W unk c.ul c.dr c.nt (hd e2)).1
  have hdir := opp_inj (in_unique c _ hle f3 g3)
  obtain ⟨_, _, _, _, a5, _, _⟩ := step_facts H W c.ul c.dr e1.1 e1.2 h1.1 h1.2.1 (good_has c h1)
  obtain ⟨_, _, _, _, b5, _, _⟩ := step_facts H W c.ul c.dr e2.1 e2.2 h2.1 h2.2.1 (good_has c h2)
  have hp : e1.1 = e2.1 := by
    rw [← a5, ← b5]
    show nb (hd e1) (opp e1.2) = nb (hd e2) (opp e2.2)
    rw [hq, hdir]
  exact Prod.ext hp hdir

theorem pred_spec (c : Cert pb H W unk on) {e : Edge} (h : Good c e) (hf : firefly pb e.1 = none) :
    Good c (pred c e) ∧ next c (pred c e) = e ∧ hd (pred c e) = e.1 := by
  obtain ⟨hin, hout⟩ := empty_out c e.1 h.1 h.2.1 hf e.2 h.2.2
  have hi := in_pick c e.1 hin
  have hh : has H W e.1 (pick (In c e.1)) = true := by
    unfold In at hi; rw [Bool.and_eq_true] at hi; exact hi.1
  obtain ⟨f1, f2, f3, _, f5, _, f7⟩ := step_facts H W c.ul c.dr e.1 (pick (In c e.1)) h.1 h.2.1 hh
  have hhd : hd (pred c e) = e.1 := f5
  refine ⟨⟨f1, f2, ?_⟩, ?_, hhd⟩
  · show Out c (nb e.1 (pick (In c e.1))) (opp (pick (In c e.1))) = true
    unfold Out; rw [Bool.and_eq_true]
    unfold In at hi; rw [Bool.and_eq_true] at hi
    exact ⟨f3, by rw [f7]; exact hi.2⟩
  · rw [next_none c _ (by rw [hhd]; exact hf), hhd]
    exact Prod.ext rfl (out_unique c e.1 hout (out_pick c e.1 hout) h.2.2)

/-! ### rank: every cycle contains the ignored step -/

theorem rank_next (c : Cert pb H W unk on) {e : Edge} (h : Good c e) (hig : c.ig (sg e) = false) :
    c.rank (next c e).1 < c.rank e.1 := by
  rw [next_fst]
  exact rank_step c e.1 e.2 h.1 h.2.1 h.2.2 hig

theorem rank_iter (c : Cert pb H W unk on) {e : Edge} (h : Good c e) (n : Nat)
    (hig : ∀ i, i < n → c.ig (sg ((next c)^[i] e)) = false) :
    c.rank ((next c)^[n] e).1 + n ≤ c.rank e.1 := by
  induction n with
  | zero => simp
  | succ n ih =>
    have h1 := ih fun i hi => hig i (by omega)
    have h2 := rank_next c (good_iter c h n) (hig n (by omega))
    rw [Function.iterate_succ_apply']
    push_cast
    omega

theorem cycle_ig (c : Cert pb H W unk on) {e : Edge} (h : Good c e) (L : Nat) (hL : 0 < L)
    (hc : (next c)^[L] e = e) : ∃ i, i < L ∧ c.ig (sg ((next c)^[i] e)) = true := by
  by_contra hno
  have hig : ∀ i, i < L → c.ig (sg ((next c)^[i] e)) = false := fun i hi => by
    cases hv : c.ig (sg ((next c)^[i] e))
    · rfl
    · exact absurd ⟨i, hi, hv⟩ hno
  have := rank_iter c h L hig
  rw [hc] at this
  omega

theorem ig_unique (c : Cert pb H W unk on) {e e' : Edge} (h : Good c e) (h' : Good c e')
    (hi : c.ig (sg e) = true) (hi' : c.ig (sg e') = true) : e = e' := by
  obtain ⟨a, ha⟩ := List.length_eq_one_iff.mp c.oneIgnored
  have m1 : sg e ∈ (allSegs H W).filter c.ig :=
    List.mem_filter.mpr ⟨(C14.mem_allSegs H W _).mpr (seg_valid H W _ _ h.1 h.2.1 (good_has c h)), hi⟩
  have m2 : sg e' ∈ (allSegs H W).filter c.ig :=
    List.mem_filter.mpr ⟨(C14.mem_allSegs H W _).mpr (seg_valid H W _ _ h'.1 h'.2.1 (good_has c h')), hi'⟩
  rw [ha, List.mem_singleton] at m1 m2
  obtain ⟨hp, hd⟩ := out_seg_inj c e.1 e'.1 e.2 e'.2 h.1 h.2.1 h'.1 h'.2.1 h.2.2 h'.2.2 (m1.trans m2.symm)
  exact Prod.ext hp hd

/-- Every orbit reaches the ignored step. -/
theorem reach_ig (c : Cert pb H W unk on) {e : Edge} (h : Good c e) :
    ∃ m, c.ig (sg ((next c)^[m] e)) = true := by
  obtain ⟨i, j, hij, heq⟩ := pigeon H W (fun k => (next c)^[k] e) fun k =>
    ⟨(good_iter c h k).1, (good_iter c h k).2.1⟩
  have hc : (next c)^[j - i] ((next c)^[i] e) = (next c)^[i] e := by
    rw [← Function.iterate_add_apply, Nat.sub_add_cancel (by omega)]
    exact heq.symm
  obtain ⟨t, _, ht⟩ := cycle_ig c (good_iter c h i) (j - i) (by omega) hc
  exact ⟨t + i, by rw [Function.iterate_add_apply]; exact ht⟩

/-- Any two orbits meet. -/
theorem meet (c : Cert pb H W unk on) {a b : Edge} (ha : Good c a) (hb : Good c b) :
    ∃ m m', (next c)^[m] a = (next c)^[m'] b := by
  obtain ⟨m, hm⟩ := reach_ig c ha
  obtain ⟨m', hm'⟩ := reach_ig c hb
  exact ⟨m, m', ig_unique c (good_iter c ha m) (good_iter c hb m') hm hm'⟩

/-- Going backwards through empty cells is deterministic. -/
theorem inj_back (c : Cert pb H W unk on) (m : Nat) {a b : Edge} (ha : Good c a) (hb : Good c b)
    (he : (next c)^[m] a = (next c)^[m] b) (hf : ∀ i, i < m → firefly pb (hd ((next c)^[i] b)) = none) :
    a = b := by
  induction m with
  | zero => exact he
  | succ m ih =>
    rw [Function.iterate_succ_apply', Function.iterate_succ_apply'] at he
    exact ih (next_inj c (good_iter c ha m) (good_iter c hb m) he (hf m (by omega))) fun i hi => hf i (by omega)

/-- An edge that starts in a firefly is not a later edge of an orbit all of whose heads are empty cells. -/
theorem not_fly_of_iter (c : Cert pb H W unk on) (b : Edge) (x : Nat)
    (hf : ∀ i, firefly pb (hd ((next c)^[i] b)) = none) (hb : firefly pb b.1 = none) :
    firefly pb ((next c)^[x] b).1 = none := by
  cases x with
  | zero => exact hb
  | succ x => rw [Function.iterate_succ_apply', next_fst]; exact hf x

/-- The line of a firefly reaches a firefly. -/
theorem line_exists (c : Cert pb H W unk on) {a : Edge} (ha : Good c a) (hfly : firefly pb a.1 ≠ none) :
    ∃ n, (∀ i, i < n → firefly pb (hd ((next c)^[i] a)) = none) ∧ firefly pb (hd ((next c)^[n] a)) ≠ none := by
  classical
  by_cases hex : ∃ n, firefly pb (hd ((next c)^[n] a)) ≠ none
  · refine ⟨Nat.find hex, fun i hi => ?_, Nat.find_spec hex⟩
    have := Nat.find_min hex hi
    exact not_not.mp this
  · exfalso
    have hall : ∀ n, firefly pb (hd ((next c)^[n] a)) = none := fun n => by
      by_contra hn; exact hex ⟨n, hn⟩
    obtain ⟨i, j, hij, heq⟩ := pigeon H W (fun k => (next c)^[k] a) fun k =>
      ⟨(good_iter c ha k).1, (good_iter c ha k).2.1⟩
    have heq' : (next c)^[i] a = (next c)^[i] ((next c)^[j - i] a) := by
      rw [← Function.iterate_add_apply, Nat.add_sub_cancel' (by omega)]; exact heq
    have hab := inj_back c i ha (good_iter c ha (j - i)) heq' fun k _ => by
      rw [← Function.iterate_add_apply]; exact hall _
    obtain ⟨x, hx⟩ : ∃ x, j - i = x + 1 := ⟨j - i - 1, by omega⟩
    rw [hx, Function.iterate_succ_apply'] at hab
    apply hfly
    rw [hab, next_fst]
    exact hall x

/-- Two lines that meet before either of them has reached a firefly are the same line. -/
theorem uniq_owner_le (c : Cert pb H W unk on) {a b : Edge} (ha : Good c a) (hb : Good c b)
    (hfa : firefly pb a.1 ≠ none) (k k' : Nat) (hle : k ≤ k')
    (he : (next c)^[k] a = (next c)^[k'] b)
    (hk' : ∀ i, i < k' → firefly pb (hd ((next c)^[i] b)) = none) : a = b ∧ k = k' := by
  have he' : (next c)^[k] a = (next c)^[k] ((next c)^[k' - k] b) := by
    rw [← Function.iterate_add_apply, Nat.add_sub_cancel' hle]; exact he
  have hab := inj_back c k ha (good_iter c hb (k' - k)) he' fun i hi => by
    rw [← Function.iterate_add_apply]; exact hk' _ (by omega)
  by_cases hz : k' - k = 0
  · rw [hz] at hab
    exact ⟨hab, by omega⟩
  · exfalso
    obtain ⟨x, hx⟩ : ∃ x, k' - k = x + 1 := ⟨k' - k - 1, by omega⟩
    rw [hx, Function.iterate_succ_apply'] at hab
    apply hfa
    rw [hab, next_fst]
    exact hk' x (by omega)

theorem uniq_owner (c : Cert pb H W unk on) {a b : Edge} (ha : Good c a) (hb : Good c b)
    (hfa : firefly pb a.1 ≠ none) (hfb : firefly pb b.1 ≠ none) (k k' : Nat)
    (he : (next c)^[k] a = (next c)^[k'] b)
    (hk : ∀ i, i < k → firefly pb (hd ((next c)^[i] a)) = none)
    (hk' : ∀ i, i < k' → firefly pb (hd ((next c)^[i] b)) = none) : a = b := by
  rcases Nat.le_total k k' with h | h
  · exact (uniq_owner_le c ha hb hfa k k' h he hk').1
  · exact (uniq_owner_le c hb ha hfb k' k h he.symm hk).1.symm

/-! ### going backwards: every good edge lies on the line of a firefly -/

theorem next_pred_iter (c : Cert pb H W unk on) {e : Edge} (h : Good c e) (k : Nat)
    (hf : ∀ i, i < k → firefly pb ((pred c)^[i] e).1 = none) :
    Good c ((pred c)^[k] e) ∧ (next c)^[k] ((pred c)^[k] e) = e := by
  induction k with
  | zero => exact ⟨h, rfl⟩
  | succ k ih =>
    have ih := ih fun i hi => hf i (by omega)
    obtain ⟨g1, g2, _⟩ := pred_spec c ih.1 (hf k (by omega))
    rw [Function.iterate_succ_apply' (pred c)]
    refine ⟨g1, ?_⟩
    rw [Function.iterate_succ_apply, g2]
    exact ih.2

/-- … and the intermediate edges. -/
theorem next_pred_iter_le (c : Cert pb H W unk on) {e : Edge} (h : Good c e) (k : Nat)
    (hf : ∀ i, i < k → firefly pb ((pred c)^[i] e).1 = none) (i : Nat) (hi : i ≤ k) :
    (next c)^[i] ((pred c)^[k] e) = (pred c)^[k - i] e := by
  have h1 := (next_pred_iter c h (k - i) fun j hj => hf j (by omega)).1
  have h2 := (next_pred_iter c h1 i fun j hj => by
    rw [← Function.iterate_add_apply]; exact hf _ (by omega)).2
  rw [← Function.iterate_add_apply, Nat.add_sub_cancel' hi] at h2
  exact h2

/-- Every good edge lies on the line of a firefly (given that the board has a firefly at all). -/
theorem cover_src (c : Cert pb H W unk on) {a0 : Edge} (ha0 : Good c a0) (hfly0 : firefly pb a0.1 ≠ none)
    {e : Edge} (h : Good c e) :
    ∃ a k, Good c a ∧ firefly pb a.1 ≠ none ∧ (next c)^[k] a = e ∧
      ∀ i, i < k → firefly pb (hd ((next c)^[i] a)) = none := by
  classical
  by_cases hex : ∃ k, firefly pb ((pred c)^[k] e).1 ≠ none
  · have hmin : ∀ i, i < Nat.find hex → firefly pb ((pred c)^[i] e).1 = none := fun i hi =>
      not_not.mp (Nat.find_min hex hi)
    obtain ⟨g1, g2⟩ := next_pred_iter c h (Nat.find hex) hmin
    refine ⟨(pred c)^[Nat.find hex] e, Nat.find hex, g1, Nat.find_spec hex, g2, fun i hi => ?_⟩
    rw [← next_fst c, ← Function.iterate_succ_apply' (next c),
      next_pred_iter_le c h (Nat.find hex) hmin (i + 1) (by omega)]
    exact hmin _ (by omega)
  · exfalso
    have hall : ∀ k, firefly pb ((pred c)^[k] e).1 = none := fun k => by
      by_contra hk; exact hex ⟨k, hk⟩
    have hgood : ∀ k, Good c ((pred c)^[k] e) := fun k => (next_pred_iter c h k fun i _ => hall i).1
    obtain ⟨i, j, hij, heq⟩ := pigeon H W (fun k => (pred c)^[k] e) fun k => ⟨(hgood k).1, (hgood k).2.1⟩
    -- `e` is a fixed point of `pred^[L]`, `L = j - i`
    have hL : (pred c)^[j - i] e = e := by
      have h1 := next_pred_iter_le c h j (fun t _ => hall t) i (by omega)
      have h2 := (next_pred_iter c h i fun t _ => hall t).2
      have heq' : (pred c)^[i] e = (pred c)^[j] e := heq
      rw [← heq', h2] at h1
      exact h1.symm
    obtain ⟨L, hLe⟩ : ∃ L, j - i = L + 1 := ⟨j - i - 1, by omega⟩
    rw [hLe] at hL
    have hcyc : (next c)^[L + 1] e = e := by
      have := (next_pred_iter c h (L + 1) fun t _ => hall t).2
      rwa [hL] at this
    -- every edge of the orbit of `e` is one of the `pred^[k] e`
    have horb : ∀ t, ∃ k, (next c)^[t] e = (pred c)^[k] e := by
      intro t
      induction t with
      | zero => exact ⟨0, rfl⟩
      | succ t ih =>
        obtain ⟨k, hk⟩ := ih
        have : ∃ k', (next c)^[t] e = (pred c)^[k' + 1] e := by
          cases k with
          | zero => exact ⟨L, by rw [hk, hL]; rfl⟩
          | succ k' => exact ⟨k', hk⟩
        obtain ⟨k', hk'⟩ := this
        refine ⟨k', ?_⟩
        rw [Function.iterate_succ_apply', hk', Function.iterate_succ_apply' (pred c)]
        exact (pred_spec c (hgood k') (hall k')).2.1
    have hheads : ∀ t, firefly pb (hd ((next c)^[t] e)) = none := fun t => by
      obtain ⟨k, hk⟩ := horb (t + 1)
      rw [← next_fst c, ← Function.iterate_succ_apply' (next c), hk]
      exact hall k
    obtain ⟨m, m', hm⟩ := meet c ha0 h
    have hper : (next c)^[(L + 1) * m] e = e := by
      rw [Function.iterate_mul]; exact Function.iterate_fixed hcyc m
    have hm2 : (next c)^[m] a0 = (next c)^[m] ((next c)^[m' + L * m] e) := by
      rw [← Function.iterate_add_apply, hm]
      have : m + (m' + L * m) = m' + (L + 1) * m := by ring
      rw [this, Function.iterate_add_apply, hper]
    have hab := inj_back c m ha0 (good_iter c h _) hm2 fun t _ => by
      rw [← Function.iterate_add_apply]; exact hheads _
    apply hfly0
    rw [hab]
    exact not_fly_of_iter c e _ hheads (hall 0)

end

end Cspuz.Proofs.C11FireflySoundOrbit
