/-
  C16, rooms of a border set (part A): the list-level facts about the pzpr spec's relaxation routine
  `Pzpr.roomsOfBorders`: the cells are the images of the ids, reading the border bits of `bordersOf`, and one relaxation
  round as a function on cells (`stepVal`).
-/
import CspuzModel.Spec.Pzpr
import CspuzModel.Spec.C16Formats
import CspuzModel.Proofs.C15RoomsEnc
namespace Cspuz.Proofs.C16ComponentsA
open Cspuz Cspuz.Ser Cspuz.C16F

/-- the cell with row-major id `i` -/
def cellAt (w i : Nat) : Nat × Nat := (i / w, i % w)

/-- the row-major id of a cell -/
def cid (w : Nat) (c : Nat × Nat) : Nat := c.1 * w + c.2

theorem cellsOf_eq (h w : Nat) : Pzpr.cellsOf h w = cells h w := rfl

theorem cid_lt {h w : Nat} {c : Nat × Nat} (hc : c.1 < h ∧ c.2 < w) : cid w c < h * w := by
  unfold cid
  have h1 : (c.1 + 1) * w ≤ h * w := Nat.mul_le_mul_right w hc.1
  rw [Nat.succ_mul] at h1
  omega

theorem cellAt_cid {w : Nat} {c : Nat × Nat} (hx : c.2 < w) : cellAt w (cid w c) = c := by
  obtain ⟨y, x⟩ := c
  simp only [cellAt, cid] at hx ⊢
  have hw : 0 < w := by omega
  rw [Nat.mul_comm y w, Nat.mul_add_div hw, Nat.mul_add_mod, Nat.div_eq_of_lt hx, Nat.mod_eq_of_lt hx]
  rfl

theorem cid_cellAt (w i : Nat) : cid w (cellAt w i) = i := by
  simp only [cid, cellAt]
  exact Nat.div_add_mod' i w

theorem cellAt_board {h w i : Nat} (hi : i < h * w) : (cellAt w i).1 < h ∧ (cellAt w i).2 < w := by
  have hw : 0 < w := by
    rcases Nat.eq_zero_or_pos w with rfl | hw
    · simp at hi
    · exact hw
  refine ⟨?_, Nat.mod_lt _ hw⟩
  simp only [cellAt]
  rw [Nat.div_lt_iff_lt_mul hw]
  exact hi

theorem cid_inj {w : Nat} {a b : Nat × Nat} (ha : a.2 < w) (hb : b.2 < w) (e : cid w a = cid w b) : a = b := by
  rw [← cellAt_cid ha, ← cellAt_cid hb, e]

theorem cells_succ (h w : Nat) : cells (h + 1) w = cells h w ++ (List.range w).map fun x => (h, x) := by
  simp [cells, List.range_succ, List.flatMap_append]

theorem cells_eq_range (h w : Nat) : cells h w = (List.range (h * w)).map (cellAt w) := by
  induction h with
  | zero => simp [cells]
  | succ h ih =>
    rw [cells_succ, ih, Nat.succ_mul, List.range_add, List.map_append, List.map_map]
    congr 1
    apply List.map_congr_left
    intro x hx
    have hx' : x < w := List.mem_range.1 hx
    have := @cellAt_cid w (h, x) hx'
    simpa [cid] using this.symm

/-! ### the border bits of a partition -/

theorem getBit_vertical (h w : Nat) (rooms : List (List (Nat × Nat))) {y x : Nat} (hy : y < h) (hx : x + 1 < w) :
    Pzpr.getBit (bordersOf h w rooms).vertical y x = (roomOf rooms (y, x) != roomOf rooms (y, x + 1)) := by
  have hx' : x < w - 1 := by omega
  simp [Pzpr.getBit, bordersOf, List.getD_eq_getElem?_getD, hy, hx', roomIdx,
    roomOf]

theorem getBit_horizontal (h w : Nat) (rooms : List (List (Nat × Nat))) {y x : Nat} (hy : y + 1 < h) (hx : x < w) :
    Pzpr.getBit (bordersOf h w rooms).horizontal y x = (roomOf rooms (y, x) != roomOf rooms (y + 1, x)) := by
  have hy' : y < h - 1 := by omega
  simp [Pzpr.getBit, bordersOf, List.getD_eq_getElem?_getD, hy', hx, roomIdx,
    roomOf]

/-! ### one relaxation round -/

/-- the body of `Pzpr.relax` -/
def relaxAt (rows cols : Nat) (b : Pzpr.Borders) (lab : List Nat) : Nat × Nat → Nat := fun (y, x) =>
    let me := lab.getD (y * cols + x) 0
    let up := if y > 0 && !Pzpr.getBit b.horizontal (y - 1) x then lab.getD ((y - 1) * cols + x) me else me
    let dn := if y + 1 < rows && !Pzpr.getBit b.horizontal y x then lab.getD ((y + 1) * cols + x) me else me
    let lf := if x > 0 && !Pzpr.getBit b.vertical y (x - 1) then lab.getD (y * cols + x - 1) me else me
    let rg := if x + 1 < cols && !Pzpr.getBit b.vertical y x then lab.getD (y * cols + x + 1) me else me
    min me (min (min up dn) (min lf rg))

theorem relax_eq (rows cols : Nat) (b : Pzpr.Borders) (lab : List Nat) :
    Pzpr.relax rows cols b lab = (cells rows cols).map (relaxAt rows cols b lab) := rfl

theorem relax_length (h w : Nat) (b : Pzpr.Borders) (lab : List Nat) : (Pzpr.relax h w b lab).length = h * w := by
  rw [relax_eq, List.length_map, length_cells]

/-- the label of a cell -/
def labF (w : Nat) (lab : List Nat) (c : Nat × Nat) : Nat := lab.getD (cid w c) 0

theorem relax_labF (h w : Nat) (b : Pzpr.Borders) (lab : List Nat) {c : Nat × Nat} (hc : c.1 < h ∧ c.2 < w) :
    labF w (Pzpr.relax h w b lab) c = relaxAt h w b lab c := by
  unfold labF
  rw [relax_eq, cells_eq_range, List.map_map, List.getD_eq_getElem?_getD, List.getElem?_map,
    List.getElem?_range (cid_lt hc)]
  simp only [Option.map_some, Option.getD_some, Function.comp]
  rw [cellAt_cid hc.2]

/-- one relaxation round on labels seen as a function of the cell: the least label among the cell and its
neighbours of the same colour -/
def stepVal (h w : Nat) (col : Nat × Nat → Nat) (L : Nat × Nat → Nat) (c : Nat × Nat) : Nat :=
  let me := L c
  let up := if 0 < c.1 ∧ col (c.1 - 1, c.2) = col c then L (c.1 - 1, c.2) else me
  let dn := if c.1 + 1 < h ∧ col c = col (c.1 + 1, c.2) then L (c.1 + 1, c.2) else me
  let lf := if 0 < c.2 ∧ col (c.1, c.2 - 1) = col c then L (c.1, c.2 - 1) else me
  let rg := if c.2 + 1 < w ∧ col c = col (c.1, c.2 + 1) then L (c.1, c.2 + 1) else me
  min me (min (min up dn) (min lf rg))

theorem getD_any {lab : List Nat} {i : Nat} (hi : i < lab.length) (d : Nat) : lab.getD i d = lab.getD i 0 := by
  simp only [List.getD_eq_getElem?_getD, List.getElem?_eq_getElem hi, Option.getD_some]

theorem relaxAt_eq (h w : Nat) (rooms : List (List (Nat × Nat))) (lab : List Nat) (hl : lab.length = h * w)
    {c : Nat × Nat} (hc : c.1 < h ∧ c.2 < w) :
    relaxAt h w (bordersOf h w rooms) lab c = stepVal h w (roomOf rooms) (labF w lab) c := by
  obtain ⟨y, x⟩ := c
  simp only at hc
  obtain ⟨hy, hx⟩ := hc
  simp only [relaxAt, stepVal, labF, cid]
  have eup : (if (decide (y > 0) && !Pzpr.getBit (bordersOf h w rooms).horizontal (y - 1) x) = true
        then lab.getD ((y - 1) * w + x) (lab.getD (y * w + x) 0) else lab.getD (y * w + x) 0) =
      (if 0 < y ∧ roomOf rooms (y - 1, x) = roomOf rooms (y, x) then lab.getD ((y - 1) * w + x) 0
        else lab.getD (y * w + x) 0) := by
    rcases Nat.eq_zero_or_pos y with rfl | hy0
    · simp
    · obtain ⟨y', rfl⟩ : ∃ y', y = y' + 1 := ⟨y - 1, by omega⟩
      have hlt : (y' + 1 - 1) * w + x < lab.length := by
        rw [hl]; exact @cid_lt h w (y' + 1 - 1, x) ⟨by simp only; omega, hx⟩
      rw [getD_any hlt]
      simp only [Nat.add_sub_cancel]
      rw [getBit_horizontal h w rooms hy hx]
      simp
  have edn : (if (decide (y + 1 < h) && !Pzpr.getBit (bordersOf h w rooms).horizontal y x) = true
        then lab.getD ((y + 1) * w + x) (lab.getD (y * w + x) 0) else lab.getD (y * w + x) 0) =
      (if y + 1 < h ∧ roomOf rooms (y, x) = roomOf rooms (y + 1, x) then lab.getD ((y + 1) * w + x) 0
        else lab.getD (y * w + x) 0) := by
    by_cases hy1 : y + 1 < h
    · have hlt : (y + 1) * w + x < lab.length := by
        rw [hl]; exact @cid_lt h w (y + 1, x) ⟨hy1, hx⟩
      rw [getD_any hlt, getBit_horizontal h w rooms hy1 hx]
      simp [hy1]
    · simp [hy1]
  have elf : (if (decide (x > 0) && !Pzpr.getBit (bordersOf h w rooms).vertical y (x - 1)) = true
        then lab.getD (y * w + x - 1) (lab.getD (y * w + x) 0) else lab.getD (y * w + x) 0) =
      (if 0 < x ∧ roomOf rooms (y, x - 1) = roomOf rooms (y, x) then lab.getD (y * w + (x - 1)) 0
        else lab.getD (y * w + x) 0) := by
    rcases Nat.eq_zero_or_pos x with rfl | hx0
    · simp
    · obtain ⟨x', rfl⟩ : ∃ x', x = x' + 1 := ⟨x - 1, by omega⟩
      have hlt : y * w + (x' + 1) - 1 < lab.length := by
        rw [hl]; have := @cid_lt h w (y, x') ⟨hy, by simp only; omega⟩
        simp only [cid] at this; omega
      rw [getD_any hlt]
      simp only [Nat.add_sub_cancel]
      rw [getBit_vertical h w rooms hy hx]
      have e : y * w + (x' + 1) - 1 = y * w + x' := by omega
      rw [e]
      simp
  have erg : (if (decide (x + 1 < w) && !Pzpr.getBit (bordersOf h w rooms).vertical y x) = true
        then lab.getD (y * w + x + 1) (lab.getD (y * w + x) 0) else lab.getD (y * w + x) 0) =
      (if x + 1 < w ∧ roomOf rooms (y, x) = roomOf rooms (y, x + 1) then lab.getD (y * w + (x + 1)) 0
        else lab.getD (y * w + x) 0) := by
    by_cases hx1 : x + 1 < w
    · have hlt : y * w + x + 1 < lab.length := by
        rw [hl]; have := @cid_lt h w (y, x + 1) ⟨hy, hx1⟩
        simp only [cid] at this; omega
      rw [getD_any hlt, getBit_vertical h w rooms hy hx1]
      simp [hx1, Nat.add_assoc]
    · simp [hx1]
  rw [eup, edn, elf, erg]

theorem relax_step (h w : Nat) (rooms : List (List (Nat × Nat))) (lab : List Nat) (hl : lab.length = h * w)
    {c : Nat × Nat} (hc : c.1 < h ∧ c.2 < w) :
    labF w (Pzpr.relax h w (bordersOf h w rooms) lab) c = stepVal h w (roomOf rooms) (labF w lab) c := by
  rw [relax_labF h w _ lab hc, relaxAt_eq h w rooms lab hl hc]

theorem labF_range {h w : Nat} {c : Nat × Nat} (hc : c.1 < h ∧ c.2 < w) :
    labF w (List.range (h * w)) c = cid w c := by
  unfold labF
  rw [List.getD_eq_getElem?_getD, List.getElem?_range (cid_lt hc)]
  rfl

/-! ### `iter` -/

theorem iter_succ {α} (f : α → α) (n : Nat) (a : α) : Pzpr.iter f (n + 1) a = f (Pzpr.iter f n a) := by
  induction n generalizing a with
  | zero => rfl
  | succ n ih => exact ih (f a)

end Cspuz.Proofs.C16ComponentsA
