/-
  C11 — further closed forms of the Python-level array operations of Model/ArrayOps.lean (beyond Proofs/C11CL.lean):
  comparison of integer arrays with arrays / literals, `==` on Boolean arrays, `.then` on Boolean arrays, all on
  arrays given as `(List.range N).map f`.
-/
import CspuzModel.Proofs.C11CL
import CspuzModel.Proofs.C11Grid
namespace Cspuz.Proofs.C11ArrOps
open Cspuz Cspuz.Spec Cspuz.Puzzles Cspuz.Proofs Cspuz.Proofs.C12Elem Cspuz.Proofs.C11CL

theorem zipWith_range_map {α β γ : Type} (f : α → β → γ) (a : Nat → α) (b : Nat → β) (N : Nat) :
    List.zipWith f ((List.range N).map a) ((List.range N).map b) = (List.range N).map fun i => f (a i) (b i) := by
  rw [List.zipWith_map, List.zipWith_self]

/-- Two integer 2-D arrays compared element-wise. -/
theorem binop_cmp_int_arr2 (o : BinOp) (op : Op)
    (ho : (o = .eq ∧ op = .eq) ∨ (o = .ne ∧ op = .ne))
    (h w : Nat) (A B : List Expr) (hA : A.length = h * w) (hB : B.length = h * w) :
    binop o (.arr2 false h w A) (.arr2 false h w B) =
      .ok (.arr2 true h w (List.zipWith (fun a b => .node op [a, b]) A B)) := by
  have he : elementwise op (.d2 h w) [.arr2 false h w A, .arr2 false h w B] = _ :=
    elementwise_ok (by rcases ho with ⟨_, rfl⟩ | ⟨_, rfl⟩ <;> simp [ewTypeCheck, Op.isCmp, PyV.isIntLike]) (by
      intro x hx
      simp only [List.mem_cons, List.mem_nil_iff, or_false] at hx
      rcases hx with rfl | rfl
      · exact conf_arr2 _ _ _ _ hA
      · exact conf_arr2 _ _ _ _ hB)
  rw [ewData2_arr2 _ _ _ _ _ _ _ hA hB] at he
  rcases ho with ⟨rfl, rfl⟩ | ⟨rfl, rfl⟩ <;>
  simp [binop, tryMeth, callMethod, PyV.cls, Cls.defines, arrayMethod, Cls.arrKind?, binarySpec, unarySpec,
    PyV.shape?, PyV.data?, swapIf, BinOp.isCmp, BinOp.meth, he, mkArr, Op.isBoolOp, Cls.properSubclass]

theorem ewData_arr2_lit (op : Op) (k : Bool) (h w : Nat) (A : List Expr) (hA : A.length = h * w) (e : Expr) :
    ewData op (.d2 h w) [.arr2 k h w A, .scalar e] = A.map fun a => .node op [a, e] := by
  apply List.ext_getElem
  · simp [ewData, Shape.size, hA]
  · intro i h1 h2
    simp only [ewData, Shape.size, List.length_map, List.length_range] at h1
    have hiA : i < A.length := by omega
    simp [ewData, C12Elem.get, elem?, hiA]

/-- An integer 2-D array compared with an integer literal. -/
theorem binop_cmp_int_arr2_lit (o : BinOp) (op : Op)
    (ho : (o = .eq ∧ op = .eq) ∨ (o = .ne ∧ op = .ne))
    (h w : Nat) (A : List Expr) (hA : A.length = h * w) (c : Int) :
    binop o (.arr2 false h w A) (.scalar (.litI c)) =
      .ok (.arr2 true h w (A.map fun a => .node op [a, .litI c])) := by
  have he : elementwise op (.d2 h w) [.arr2 false h w A, .scalar (.litI c)] = _ :=
    elementwise_ok (by
      rcases ho with ⟨_, rfl⟩ | ⟨_, rfl⟩ <;> simp [ewTypeCheck, Op.isCmp, PyV.isIntLike, Expr.isIntLike]) (by
      intro x hx
      simp only [List.mem_cons, List.mem_nil_iff, or_false] at hx
      rcases hx with rfl | rfl
      · exact conf_arr2 _ _ _ _ hA
      · exact conf_scalar _ _)
  rw [ewData_arr2_lit _ _ _ _ _ hA] at he
  rcases ho with ⟨rfl, rfl⟩ | ⟨rfl, rfl⟩ <;>
  simp [binop, tryMeth, callMethod, PyV.cls, Cls.defines, arrayMethod, Cls.arrKind?, binarySpec, unarySpec,
    PyV.shape?, PyV.data?, swapIf, BinOp.isCmp, BinOp.meth, he, mkArr, Op.isBoolOp, Cls.properSubclass]

/-- `A == B` on two Boolean 2-D arrays. -/
theorem binop_eq_bool_arr2 (h w : Nat) (A B : List Expr) (hA : A.length = h * w) (hB : B.length = h * w) :
    binop .eq (.arr2 true h w A) (.arr2 true h w B) =
      .ok (.arr2 true h w (List.zipWith (fun a b => .node .iff [a, b]) A B)) := by
  have he : elementwise .iff (.d2 h w) [.arr2 true h w A, .arr2 true h w B] = _ :=
    elementwise_ok (by simp [ewTypeCheck, Op.isCmp, PyV.isBoolLike]) (by
      intro x hx
      simp only [List.mem_cons, List.mem_nil_iff, or_false] at hx
      rcases hx with rfl | rfl
      · exact conf_arr2 _ _ _ _ hA
      · exact conf_arr2 _ _ _ _ hB)
  rw [ewData2_arr2 _ _ _ _ _ _ _ hA hB] at he
  simp [binop, tryMeth, callMethod, PyV.cls, Cls.defines, arrayMethod, Cls.arrKind?, binarySpec, unarySpec,
    PyV.shape?, PyV.data?, swapIf, BinOp.isCmp, BinOp.meth, he, mkArr, Op.isBoolOp, Cls.properSubclass]

/-- `A.then(B)` on two Boolean 2-D arrays. -/
theorem callM_then_arr2 (h w : Nat) (A B : List Expr) (hA : A.length = h * w) (hB : B.length = h * w) :
    callM .then_ (.arr2 true h w A) [.arr2 true h w B] =
      .ok (.arr2 true h w (List.zipWith (fun a b => .node .imp [a, b]) A B)) := by
  have he : elementwise .imp (.d2 h w) [.arr2 true h w A, .arr2 true h w B] = _ :=
    elementwise_ok (by simp [ewTypeCheck, Op.isCmp, PyV.isBoolLike]) (by
      intro x hx
      simp only [List.mem_cons, List.mem_nil_iff, or_false] at hx
      rcases hx with rfl | rfl
      · exact conf_arr2 _ _ _ _ hA
      · exact conf_arr2 _ _ _ _ hB)
  rw [ewData2_arr2 _ _ _ _ _ _ _ hA hB] at he
  simp [callM, callMethod, PyV.cls, Cls.defines, arrayMethod, Cls.arrKind?, binarySpec, unarySpec,
    PyV.shape?, PyV.data?, he, mkArr, Op.isBoolOp, raiseNI]

/-- `count_true(xs) <cmp> n` with an integer literal. -/
theorem binop_cmp_countTrueE (o : BinOp) (op : Op)
    (ho : (o = .eq ∧ op = .eq) ∨ (o = .ge ∧ op = .ge) ∨ (o = .le ∧ op = .le) ∨ (o = .ne ∧ op = .ne))
    (l : List Expr) (n : Int) :
    binop o (.scalar (countTrueE l)) (.scalar (.litI n)) = .ok (.scalar (.node op [countTrueE l, .litI n])) := by
  obtain ⟨op', args, hct, hop⟩ := countTrueE_isNode l
  rw [hct]
  rcases ho with ⟨rfl, rfl⟩ | ⟨rfl, rfl⟩ | ⟨rfl, rfl⟩ | ⟨rfl, rfl⟩ <;>
    (cases op' <;> first | rfl | simp [Op.isIntOp] at hop)

/-- Row-major listing of a sub-rectangle with offsets. -/
theorem flatMap_offsets {α : Type} (f : Nat → Nat → α) (hy wx oy ox : Nat) :
    (((List.range hy).map fun j => j + oy).flatMap fun y => ((List.range wx).map fun j => j + ox).map fun x => f y x)
      = (List.range (hy * wx)).map fun i => f (i / wx + oy) (i % wx + ox) := by
  rw [← C11Grid.flatMap_range_eq (fun y x => f (y + oy) (x + ox)) hy wx]
  rw [List.flatMap_map]
  apply List.flatMap_congr
  intro y _
  rw [List.map_map]
  rfl

end Cspuz.Proofs.C11ArrOps
