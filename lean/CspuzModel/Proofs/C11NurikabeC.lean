/-
  C11 / Nurikabe, part C: the combinatorial core.  Labelings of the cells by region numbers (region 0 = the sea,
  region j + 1 = the island of clue number j) that satisfy what `division_connected` and the local constraints say
  exist exactly for the shadings that obey the rules.
-/
import CspuzModel.Proofs.C11NurikabeB
import Mathlib.Data.Set.Card
namespace Cspuz.Proofs.C11NurikabeC
open Cspuz Cspuz.Spec Cspuz.Puzzles Cspuz.Puzzles.Nurikabe Cspuz.Spec.Nurikabe Cspuz.Proofs
open Cspuz.Proofs.C11NurikabeA Cspuz.Proofs.C11NurikabeB

/-! ### the clue list -/

theorem mem_clueList {pb : Problem} {t : Nat × Nat × Int} :
    t ∈ clueList pb ↔ t.1 < pb.height ∧ t.2.1 < pb.width ∧ t.2.2 = val pb t.1 t.2.1 ∧ IsClue pb t.1 t.2.1 := by
  simp only [clueList, List.mem_flatMap, clueAt]
  constructor
  · rintro ⟨p, hp, ht⟩
    obtain ⟨hy, hx⟩ := mem_cellsOf.1 hp
    split at ht
    · next hc =>
      simp only [List.mem_singleton] at ht
      subst ht
      exact ⟨hy, hx, rfl, hc⟩
    · simp at ht
  · rintro ⟨hy, hx, hv, hc⟩
    refine ⟨(t.1, t.2.1), mem_cellsOf.2 ⟨hy, hx⟩, ?_⟩
    rw [if_pos (show val pb t.1 t.2.1 ≥ 1 ∨ val pb t.1 t.2.1 = -1 from hc)]
    simp only [List.mem_singleton]
    rw [← hv]

theorem cellsOf_nodup (h w : Nat) : (cellsOf h w).Nodup := by
  unfold cellsOf
  rw [List.nodup_flatMap]
  refine ⟨?_, ?_⟩
  · intro y _
    exact (List.nodup_range).map (fun a b hab => by simpa using hab)
  · apply List.Pairwise.imp _ (List.nodup_range (n := h))
    intro a b hab
    simp only [Function.onFun, List.disjoint_left, List.mem_map, List.mem_range, not_exists, not_and]
    rintro p ⟨x, _, rfl⟩ x' _ hx'
    simp only [Prod.mk.injEq] at hx'
    exact hab hx'.1.symm

/-- The clue positions, in list order. -/
def cluePos (pb : Problem) : List (Nat × Nat) := (clueList pb).map fun t => (t.1, t.2.1)

theorem cluePos_eq (pb : Problem) :
    cluePos pb = (cellsOf pb.height pb.width).filter fun p => decide (IsClue pb p.1 p.2) := by
  unfold cluePos clueList
  generalize cellsOf pb.height pb.width = l
  induction l with
  | nil => rfl
  | cons p l ih =>
    simp only [List.flatMap_cons, List.map_append, ih, List.filter_cons]
    by_cases hc : IsClue pb p.1 p.2
    · have : clueAt pb p = [(p.1, p.2, val pb p.1 p.2)] := by unfold clueAt; exact if_pos hc
      simp [this, hc]
    · have : clueAt pb p = [] := by unfold clueAt; exact if_neg hc
      simp [this, hc]

theorem cluePos_nodup (pb : Problem) : (cluePos pb).Nodup := by
  rw [cluePos_eq]; exact (cellsOf_nodup _ _).filter _

/-- Two entries of the clue list at the same cell are the same entry. -/
theorem clue_index_unique {pb : Problem} {i j : Nat} {s t : Nat × Nat × Int}
    (hi : (clueList pb)[i]? = some s) (hj : (clueList pb)[j]? = some t) (h1 : s.1 = t.1) (h2 : s.2.1 = t.2.1) :
    i = j := by
  have hi' : (cluePos pb)[i]? = some (s.1, s.2.1) := by simp [cluePos, hi]
  have hj' : (cluePos pb)[j]? = some (s.1, s.2.1) := by simp [cluePos, hj, h1, h2]
  have hil : i < (cluePos pb).length := by
    rcases Nat.lt_or_ge i (cluePos pb).length with h | h
    · exact h
    · rw [List.getElem?_eq_none h] at hi'; cases hi'
  have hjl : j < (cluePos pb).length := by
    rcases Nat.lt_or_ge j (cluePos pb).length with h | h
    · exact h
    · rw [List.getElem?_eq_none h] at hj'; cases hj'
  rw [List.getElem?_eq_getElem hil] at hi'
  rw [List.getElem?_eq_getElem hjl] at hj'
  have : (cluePos pb)[i] = (cluePos pb)[j] := by
    rw [Option.some.inj hi', Option.some.inj hj']
  exact (List.Nodup.getElem_inj_iff (cluePos_nodup pb)).1 this

/-- A clue cell has an index in the clue list. -/
theorem clue_has_index {pb : Problem} {y x : Nat} (hy : y < pb.height) (hx : x < pb.width) (hc : IsClue pb y x) :
    ∃ j : Nat, (clueList pb)[j]? = some (y, x, val pb y x) := by
  have : (y, x, val pb y x) ∈ clueList pb := mem_clueList.2 ⟨hy, hx, rfl, hc⟩
  obtain ⟨j, hj, he⟩ := List.getElem_of_mem this
  exact ⟨j, by rw [List.getElem?_eq_getElem hj, he]⟩

theorem clue_of_index {pb : Problem} {j : Nat} {t : Nat × Nat × Int} (h : (clueList pb)[j]? = some t) :
    t.1 < pb.height ∧ t.2.1 < pb.width ∧ t.2.2 = val pb t.1 t.2.1 ∧ IsClue pb t.1 t.2.1 ∧ j < K pb := by
  have hm := mem_clueList.1 (List.mem_of_getElem? h)
  refine ⟨hm.1, hm.2.1, hm.2.2.1, hm.2.2.2, ?_⟩
  rcases Nat.lt_or_ge j (clueList pb).length with h' | h'
  · exact h'
  · rw [List.getElem?_eq_none h'] at h; cases h


/-! ### generic facts on cell sets -/

theorem cellSet_congr {h w : Nat} {S S' : Nat → Nat → Prop}
    (hS : ∀ y x, y < h → x < w → (S y x ↔ S' y x)) : cellSet h w S = cellSet h w S' := by
  ext p
  simp only [cellSet, Set.mem_ofPred_eq]
  constructor
  · rintro ⟨h1, h2, h3⟩; exact ⟨h1, h2, (hS _ _ h1 h2).1 h3⟩
  · rintro ⟨h1, h2, h3⟩; exact ⟨h1, h2, (hS _ _ h1 h2).2 h3⟩

theorem cellsConnected_congr {h w : Nat} {S S' : Nat → Nat → Prop}
    (hS : ∀ y x, y < h → x < w → (S y x ↔ S' y x)) : CellsConnected h w S ↔ CellsConnected h w S' := by
  unfold CellsConnected
  rw [cellSet_congr hS]

/-- Within an induced subgraph, a walk that starts in a subset `T` closed under adjacency stays in `T`, and is a
walk of the subgraph induced by `T`. -/
theorem reach_in_sub {V : Type} (G : SimpleGraph V) (S T : Set V)
    (hclosed : ∀ a b, a ∈ T → b ∈ S → G.Adj a b → b ∈ T) :
    ∀ (p q : V) (hp : p ∈ S) (hq : q ∈ S) (hpT : p ∈ T),
      (G.induce S).Reachable ⟨p, hp⟩ ⟨q, hq⟩ → ∃ hqT : q ∈ T, (G.induce T).Reachable ⟨p, hpT⟩ ⟨q, hqT⟩ := by
  intro p q hp hq hpT hr
  obtain ⟨wk⟩ := hr
  suffices H : ∀ (a b : S) (wk : (G.induce S).Walk a b) (haT : a.1 ∈ T),
      ∃ hbT : b.1 ∈ T, (G.induce T).Reachable ⟨a.1, haT⟩ ⟨b.1, hbT⟩ from H ⟨p, hp⟩ ⟨q, hq⟩ wk hpT
  intro a b wk
  induction wk with
  | nil => intro haT; exact ⟨haT, SimpleGraph.Reachable.refl _⟩
  | @cons u v w' hadj _ ih =>
    intro haT
    have hG : G.Adj u.1 v.1 := hadj
    have hvT : v.1 ∈ T := hclosed u.1 v.1 haT v.2 hG
    obtain ⟨hbT, hr⟩ := ih hvT
    refine ⟨hbT, SimpleGraph.Reachable.trans ?_ hr⟩
    exact SimpleGraph.Adj.reachable (show (G.induce T).Adj ⟨u.1, haT⟩ ⟨v.1, hvT⟩ from hG)

/-- Reachability within a smaller induced subgraph gives reachability within a bigger one. -/
theorem reach_mono {V : Type} (G : SimpleGraph V) {S T : Set V} (hST : S ⊆ T) {p q : V} (hp : p ∈ S) (hq : q ∈ S)
    (h : (G.induce S).Reachable ⟨p, hp⟩ ⟨q, hq⟩) : (G.induce T).Reachable ⟨p, hST hp⟩ ⟨q, hST hq⟩ := by
  obtain ⟨wk⟩ := h
  suffices H : ∀ (a b : S) (wk : (G.induce S).Walk a b), (G.induce T).Reachable ⟨a.1, hST a.2⟩ ⟨b.1, hST b.2⟩ from
    H ⟨p, hp⟩ ⟨q, hq⟩ wk
  intro a b wk
  induction wk with
  | nil => exact SimpleGraph.Reachable.refl _
  | @cons u v w' hadj _ ih =>
    have hG : G.Adj u.1 v.1 := hadj
    exact SimpleGraph.Reachable.trans
      (SimpleGraph.Adj.reachable (show (G.induce T).Adj ⟨u.1, hST u.2⟩ ⟨v.1, hST v.2⟩ from hG)) ih

/-- Counting the cells of the board with a decidable property. -/
theorem ncard_cellSet (h w : Nat) (P : Nat → Nat → Prop) [∀ y x, Decidable (P y x)] :
    (cellSet h w P).ncard = (cellsOf h w).countP fun p => decide (P p.1 p.2) := by
  have hset : cellSet h w P = ↑(((cellsOf h w).filter fun p => decide (P p.1 p.2)).toFinset) := by
    ext p
    simp only [cellSet, Set.mem_ofPred_eq, List.coe_toFinset, List.mem_filter, decide_eq_true_eq, mem_cellsOf]
    tauto
  rw [hset, Set.ncard_coe_finset, List.toFinset_card_of_nodup ((cellsOf_nodup h w).filter _),
    List.countP_eq_length_filter]


/-- A function that agrees on adjacent vertices of an induced subgraph is constant along its walks. -/
theorem reach_invariant {V α : Type} (G : SimpleGraph V) (S : Set V) (f : V → α)
    (hadj : ∀ a b, a ∈ S → b ∈ S → G.Adj a b → f a = f b) {p q : V} (hp : p ∈ S) (hq : q ∈ S)
    (h : (G.induce S).Reachable ⟨p, hp⟩ ⟨q, hq⟩) : f p = f q := by
  obtain ⟨wk⟩ := h
  suffices H : ∀ (a b : S) (wk : (G.induce S).Walk a b), f a.1 = f b.1 from H ⟨p, hp⟩ ⟨q, hq⟩ wk
  intro a b wk
  induction wk with
  | nil => rfl
  | @cons u v w' hadj' _ ih => exact (hadj u.1 v.1 u.2 v.2 hadj').trans ih

/-! ### what `division_connected` says, in cell coordinates -/

/-- The labels lie in `0 … K`, every label class is connected and inhabited, and the cell of clue number `j`
carries the label `j + 1`. -/
def DivSem (pb : Problem) (L : Nat → Nat → Int) : Prop :=
  (∀ y x, y < pb.height → x < pb.width → 0 ≤ L y x ∧ L y x ≤ (K pb : Int)) ∧
  (∀ c : Nat, c ≤ K pb → CellsConnected pb.height pb.width (fun y x => L y x = (c : Int))) ∧
  (∀ c : Nat, c ≤ K pb → ∃ y x, y < pb.height ∧ x < pb.width ∧ L y x = (c : Int)) ∧
  (∀ (j : Nat) (t : Nat × Nat × Int), (clueList pb)[j]? = some t → L t.1 t.2.1 = (j : Int) + 1)

section Forward
variable {pb : Problem} {L : Nat → Nat → Int} {Wt : Nat → Nat → Bool}

theorem mem_whiteSet {p : Nat × Nat} : p ∈ whiteSet pb Wt ↔ p.1 < pb.height ∧ p.2 < pb.width ∧ Wt p.1 p.2 = true :=
  Iff.rfl

/-- Adjacent white cells carry the same label. -/
theorem adj_label (hL : LocSem pb L Wt) {a b : Nat × Nat} (ha : a ∈ whiteSet pb Wt) (hb : b ∈ whiteSet pb Wt)
    (hadj : cellGraph.Adj a b) : L a.1 a.2 = L b.1 b.2 := by
  obtain ⟨ay, ax⟩ := a
  obtain ⟨by', bx⟩ := b
  obtain ⟨ha1, ha2, ha3⟩ := ha
  obtain ⟨hb1, hb2, hb3⟩ := hb
  simp only at ha1 ha2 ha3 hb1 hb2 hb3
  rcases hadj with ⟨h1, h2 | h2⟩ | ⟨h1, h2 | h2⟩ <;> simp only at h1 h2
  · subst h1; subst h2
    exact hL.2.2.1 ay ax ha1 hb2 ha3 hb3
  · subst h1; subst h2
    exact (hL.2.2.1 ay bx ha1 ha2 hb3 ha3).symm
  · subst h1; subst h2
    exact hL.2.1 ay ax hb1 ha2 ha3 hb3
  · subst h1; subst h2
    exact (hL.2.1 by' ax ha1 ha2 hb3 ha3).symm

theorem label_of_sameIsland (hL : LocSem pb L Wt) {p q : Nat × Nat} (h : SameIsland pb Wt p q) :
    L p.1 p.2 = L q.1 q.2 := by
  obtain ⟨hp, hq, hr⟩ := h
  exact reach_invariant cellGraph (whiteSet pb Wt) (fun c => L c.1 c.2)
    (fun a b ha hb hadj => adj_label hL ha hb hadj) hp hq hr

theorem sameIsland_of_label (hD : DivSem pb L) (hL : LocSem pb L Wt) {p q : Nat × Nat}
    (hp : p ∈ whiteSet pb Wt) (hq : q ∈ whiteSet pb Wt) (h : L p.1 p.2 = L q.1 q.2) : SameIsland pb Wt p q := by
  refine ⟨hp, hq, ?_⟩
  obtain ⟨hp1, hp2, hp3⟩ := hp
  obtain ⟨hq1, hq2, hq3⟩ := hq
  have hne : L p.1 p.2 ≠ 0 := (hL.1 _ _ hp1 hp2).1 hp3
  obtain ⟨h0, hK⟩ := hD.1 _ _ hp1 hp2
  obtain ⟨c, hc⟩ : ∃ c : Nat, L p.1 p.2 = (c : Int) := ⟨(L p.1 p.2).toNat, by omega⟩
  have hcK : c ≤ K pb := by omega
  have hconn := hD.2.1 c hcK
  have hpS : p ∈ cellSet pb.height pb.width (fun y x => L y x = (c : Int)) := ⟨hp1, hp2, hc⟩
  have hqS : q ∈ cellSet pb.height pb.width (fun y x => L y x = (c : Int)) := ⟨hq1, hq2, show L q.1 q.2 = (c : Int) by rw [← h]; exact hc⟩
  have hr := hconn ⟨p, hpS⟩ ⟨q, hqS⟩
  have hsub : cellSet pb.height pb.width (fun y x => L y x = (c : Int)) ⊆ whiteSet pb Wt := by
    rintro ⟨y, x⟩ ⟨h1, h2, h3⟩
    simp only at h1 h2 h3
    refine ⟨h1, h2, (hL.1 y x h1 h2).2 ?_⟩
    rw [h3, ← hc]; exact hne
  exact reach_mono cellGraph hsub hpS hqS hr

end Forward

section Forward2
variable {pb : Problem} {L : Nat → Nat → Int} {Wt : Nat → Nat → Bool}

theorem clue_white (hD : DivSem pb L) (hL : LocSem pb L Wt) {j : Nat} {t : Nat × Nat × Int}
    (ht : (clueList pb)[j]? = some t) : (t.1, t.2.1) ∈ whiteSet pb Wt := by
  obtain ⟨h1, h2, _, _, _⟩ := clue_of_index ht
  refine ⟨h1, h2, (hL.1 _ _ h1 h2).2 ?_⟩
  rw [hD.2.2.2 j t ht]; omega

/-- The island of clue number `j` is the set of cells labelled `j + 1`. -/
theorem island_eq (hD : DivSem pb L) (hL : LocSem pb L Wt) {j : Nat} {t : Nat × Nat × Int}
    (ht : (clueList pb)[j]? = some t) :
    island pb Wt (t.1, t.2.1) = cellSet pb.height pb.width (fun y x => L y x = (j : Int) + 1) := by
  have hw := clue_white hD hL ht
  have hl := hD.2.2.2 j t ht
  ext q
  simp only [island, Set.mem_ofPred_eq]
  constructor
  · intro h
    have := label_of_sameIsland hL h
    obtain ⟨_, hq, _⟩ := h
    exact ⟨hq.1, hq.2.1, show L q.1 q.2 = (j : Int) + 1 by rw [← this]; exact hl⟩
  · rintro ⟨h1, h2, h3⟩
    have hq : q ∈ whiteSet pb Wt := ⟨h1, h2, (hL.1 _ _ h1 h2).2 (by rw [h3]; omega)⟩
    exact sameIsland_of_label hD hL hw hq (by simp only; rw [hl, h3])

theorem island_card (hD : DivSem pb L) (hL : LocSem pb L Wt) {j : Nat} {t : Nat × Nat × Int}
    (ht : (clueList pb)[j]? = some t) : (island pb Wt (t.1, t.2.1)).ncard = cnt pb L ((j : Int) + 1) := by
  rw [island_eq hD hL ht, ncard_cellSet]
  rfl

theorem rules_of_labels (hD : DivSem pb L) (hL : LocSem pb L Wt) : RulesOn pb Wt := by
  refine ⟨?_, ?_, ?_, ?_, ?_, ?_, ?_⟩
  · -- 1
    intro y hy x hx hc
    obtain ⟨j, hj⟩ := clue_has_index hy hx hc
    exact (clue_white hD hL hj).2.2
  · -- 2
    intro y hy x hx hwh
    have hp : (y, x) ∈ whiteSet pb Wt := ⟨hy, hx, hwh⟩
    have hne : L y x ≠ 0 := (hL.1 y x hy hx).1 hwh
    obtain ⟨h0, hK⟩ := hD.1 y x hy hx
    obtain ⟨j, hj⟩ : ∃ j : Nat, L y x = (j : Int) + 1 := ⟨(L y x).toNat - 1, by omega⟩
    have hjK : j < (clueList pb).length := by unfold K at hK; omega
    obtain ⟨t, ht⟩ : ∃ t, (clueList pb)[j]? = some t := ⟨_, List.getElem?_eq_getElem hjK⟩
    obtain ⟨t1, t2, _, t4, _⟩ := clue_of_index ht
    refine ⟨(t.1, t.2.1), ⟨t1, t2, t4, ?_⟩, ?_⟩
    · exact sameIsland_of_label hD hL hp (clue_white hD hL ht) (by
        show L y x = L t.1 t.2.1
        rw [hj, hD.2.2.2 j _ ht])
    · rintro ⟨cy, cx⟩ ⟨c1, c2, c3, c4⟩
      simp only at c1 c2 c3
      obtain ⟨j', hj'⟩ := clue_has_index c1 c2 c3
      have h1 : L y x = L cy cx := label_of_sameIsland hL c4
      rw [hj, hD.2.2.2 j' _ hj'] at h1
      have : j' = j := by omega
      subst this
      rw [ht] at hj'
      cases hj'
      rfl
  · -- 2': the size
    intro y hy x hx hv
    obtain ⟨j, hj⟩ := clue_has_index hy hx (Or.inl hv)
    have := island_card hD hL hj
    simp only at this
    rw [this]
    exact (hL.2.2.2.2 j _ hj).1 (show val pb y x > 0 by omega)
  · -- 2'': unknown size with a lower bound
    intro low hlow y hy x hx hv
    obtain ⟨j, hj⟩ := clue_has_index hy hx (Or.inr hv)
    have := island_card hD hL hj
    simp only at this
    rw [this]
    exact (hL.2.2.2.2 j _ hj).2 hv low hlow
  · -- 3: the sea is connected
    have := hD.2.1 0 (Nat.zero_le _)
    refine (cellsConnected_congr ?_).1 this
    intro y x hy hx
    have := hL.1 y x hy hx
    simp only [Int.natCast_zero]
    constructor
    · intro h0
      cases hb : Wt y x with
      | false => rfl
      | true => exact absurd h0 (this.1 hb)
    · intro hb
      by_contra hne
      have := this.2 hne
      rw [hb] at this; cases this
  · -- 3': and not empty
    obtain ⟨y, x, hy, hx, h0⟩ := hD.2.2.1 0 (Nat.zero_le _)
    refine ⟨y, hy, x, hx, ?_⟩
    cases hb : Wt y x with
    | false => rfl
    | true => exact absurd (by simpa using h0) ((hL.1 y x hy hx).1 hb)
  · -- 4
    exact hL.2.2.2.1

end Forward2

/-! ### from a shading that obeys the rules to labels -/

theorem sameIsland_refl {pb : Problem} {Wt : Nat → Nat → Bool} {p : Nat × Nat} (hp : p ∈ whiteSet pb Wt) :
    SameIsland pb Wt p p := ⟨hp, hp, SimpleGraph.Reachable.refl _⟩

theorem sameIsland_symm {pb : Problem} {Wt : Nat → Nat → Bool} {p q : Nat × Nat} (h : SameIsland pb Wt p q) :
    SameIsland pb Wt q p := by
  obtain ⟨hp, hq, hr⟩ := h
  exact ⟨hq, hp, hr.symm⟩

theorem sameIsland_trans {pb : Problem} {Wt : Nat → Nat → Bool} {p q r : Nat × Nat} (h1 : SameIsland pb Wt p q)
    (h2 : SameIsland pb Wt q r) : SameIsland pb Wt p r := by
  obtain ⟨hp, hq, hr1⟩ := h1
  obtain ⟨hq', hr, hr2⟩ := h2
  exact ⟨hp, hr, hr1.trans hr2⟩

theorem sameIsland_of_adj {pb : Problem} {Wt : Nat → Nat → Bool} {a b : Nat × Nat} (ha : a ∈ whiteSet pb Wt)
    (hb : b ∈ whiteSet pb Wt) (hadj : cellGraph.Adj a b) : SameIsland pb Wt a b :=
  ⟨ha, hb, SimpleGraph.Adj.reachable (show (cellGraph.induce (whiteSet pb Wt)).Adj ⟨a, ha⟩ ⟨b, hb⟩ from hadj)⟩

open Classical in
/-- The cell of the clue `t` lies on the island of `(y, x)`. -/
noncomputable def onIsland (pb : Problem) (Wt : Nat → Nat → Bool) (y x : Nat) (t : Nat × Nat × Int) : Bool :=
  decide (SameIsland pb Wt (y, x) (t.1, t.2.1))

theorem onIsland_iff {pb : Problem} {Wt : Nat → Nat → Bool} {y x : Nat} {t : Nat × Nat × Int} :
    onIsland pb Wt y x t = true ↔ SameIsland pb Wt (y, x) (t.1, t.2.1) := by
  unfold onIsland
  exact @decide_eq_true_iff _ (Classical.propDecidable _)

/-- Index (in the clue list) of the first clue whose cell lies on the island of `(y, x)`. -/
noncomputable def clueIdx (pb : Problem) (Wt : Nat → Nat → Bool) (y x : Nat) : Nat :=
  (clueList pb).findIdx (onIsland pb Wt y x)

/-- The labels of a shading: 0 on the sea, `j + 1` on the island of clue number `j`. -/
noncomputable def labelOf (pb : Problem) (Wt : Nat → Nat → Bool) (y x : Nat) : Int :=
  if Wt y x = true then (clueIdx pb Wt y x : Int) + 1 else 0

section Backward
variable {pb : Problem} {Wt : Nat → Nat → Bool}

/-- A white cell has a clue on its island: the index is in range and names such a clue. -/
theorem clueIdx_spec (hR : RulesOn pb Wt) {y x : Nat} (hy : y < pb.height) (hx : x < pb.width)
    (hw : Wt y x = true) :
    ∃ t, (clueList pb)[clueIdx pb Wt y x]? = some t ∧ SameIsland pb Wt (y, x) (t.1, t.2.1) := by
  obtain ⟨c, ⟨c1, c2, c3, c4⟩, _⟩ := hR.2.1 y hy x hx hw
  obtain ⟨j, hj⟩ := clue_has_index c1 c2 c3
  have hex : ∃ t ∈ clueList pb, onIsland pb Wt y x t = true :=
    ⟨_, List.mem_of_getElem? hj, onIsland_iff.2 c4⟩
  have hlt : clueIdx pb Wt y x < (clueList pb).length := List.findIdx_lt_length_of_exists hex
  refine ⟨(clueList pb)[clueIdx pb Wt y x], List.getElem?_eq_getElem hlt, ?_⟩
  exact onIsland_iff.1 (List.findIdx_getElem (w := hlt))

theorem clueIdx_congr {y x y' x' : Nat} (h : SameIsland pb Wt (y, x) (y', x')) :
    clueIdx pb Wt y x = clueIdx pb Wt y' x' := by
  unfold clueIdx
  congr 1
  funext t
  have : SameIsland pb Wt (y, x) (t.1, t.2.1) ↔ SameIsland pb Wt (y', x') (t.1, t.2.1) :=
    ⟨fun h' => sameIsland_trans (sameIsland_symm h) h', fun h' => sameIsland_trans h h'⟩
  rw [Bool.eq_iff_iff, onIsland_iff, onIsland_iff]
  exact this

theorem label_congr {p q : Nat × Nat} (h : SameIsland pb Wt p q) : labelOf pb Wt p.1 p.2 = labelOf pb Wt q.1 q.2 := by
  have hp := h.1
  have hq := h.2.1
  unfold labelOf
  rw [if_pos hp.2.2, if_pos hq.2.2, clueIdx_congr (y := p.1) (x := p.2) (y' := q.1) (x' := q.2) h]

theorem sameIsland_of_labelOf (hR : RulesOn pb Wt) {p q : Nat × Nat} (hp : p ∈ whiteSet pb Wt)
    (hq : q ∈ whiteSet pb Wt) (h : labelOf pb Wt p.1 p.2 = labelOf pb Wt q.1 q.2) : SameIsland pb Wt p q := by
  unfold labelOf at h
  rw [if_pos hp.2.2, if_pos hq.2.2] at h
  have hi : clueIdx pb Wt p.1 p.2 = clueIdx pb Wt q.1 q.2 := by omega
  obtain ⟨t, ht, hs⟩ := clueIdx_spec hR hp.1 hp.2.1 hp.2.2
  obtain ⟨t', ht', hs'⟩ := clueIdx_spec hR hq.1 hq.2.1 hq.2.2
  rw [hi, ht'] at ht
  cases ht
  exact sameIsland_trans hs (sameIsland_symm hs')

/-- The cell of clue number `j` carries the label `j + 1`. -/
theorem labelOf_clue (hR : RulesOn pb Wt) {j : Nat} {t : Nat × Nat × Int} (ht : (clueList pb)[j]? = some t) :
    labelOf pb Wt t.1 t.2.1 = (j : Int) + 1 := by
  obtain ⟨t1, t2, _, t4, _⟩ := clue_of_index ht
  have hw : Wt t.1 t.2.1 = true := hR.1 _ t1 _ t2 t4
  have hp : (t.1, t.2.1) ∈ whiteSet pb Wt := ⟨t1, t2, hw⟩
  obtain ⟨s, hs, hss⟩ := clueIdx_spec hR t1 t2 hw
  obtain ⟨s1, s2, _, s4, _⟩ := clue_of_index hs
  obtain ⟨c, _, huniq⟩ := hR.2.1 _ t1 _ t2 hw
  have e1 := huniq (t.1, t.2.1) ⟨t1, t2, t4, sameIsland_refl hp⟩
  have e2 := huniq (s.1, s.2.1) ⟨s1, s2, s4, hss⟩
  have e : (s.1, s.2.1) = (t.1, t.2.1) := e2.trans e1.symm
  have hidx := clue_index_unique hs ht (Prod.mk.inj e).1 (Prod.mk.inj e).2
  unfold labelOf
  rw [if_pos hw, hidx]

theorem labelOf_white (hR : RulesOn pb Wt) {y x : Nat} (hy : y < pb.height) (hx : x < pb.width) :
    (Wt y x = true ↔ labelOf pb Wt y x ≠ 0) ∧ 0 ≤ labelOf pb Wt y x ∧ labelOf pb Wt y x ≤ (K pb : Int) := by
  unfold labelOf
  cases hw : Wt y x with
  | false => simp
  | true =>
    obtain ⟨t, ht, _⟩ := clueIdx_spec hR hy hx hw
    have := (clue_of_index ht).2.2.2.2
    simp only [if_true]
    refine ⟨⟨fun _ => by omega, fun _ => trivial⟩, by omega, by omega⟩

theorem divSem_labelOf (hR : RulesOn pb Wt) : DivSem pb (labelOf pb Wt) := by
  refine ⟨fun y x hy hx => (labelOf_white hR hy hx).2, ?_, ?_, fun j t ht => labelOf_clue hR ht⟩
  · -- classes are connected
    intro c hc
    rcases Nat.eq_zero_or_pos c with h0 | hpos
    · subst h0
      refine (cellsConnected_congr ?_).2 hR.2.2.2.2.1
      intro y x hy hx
      have := (labelOf_white hR hy hx).1
      simp only [Int.natCast_zero]
      constructor
      · intro h0
        cases hb : Wt y x with
        | false => rfl
        | true => exact absurd h0 (this.1 hb)
      · intro hb
        by_contra hne
        have := this.2 hne
        rw [hb] at this; cases this
    · have hsub : ∀ q : Nat × Nat, q ∈ cellSet pb.height pb.width (fun y x => labelOf pb Wt y x = (c : Int)) →
          q ∈ whiteSet pb Wt := by
        rintro ⟨y, x⟩ ⟨h1, h2, h3⟩
        simp only at h1 h2 h3
        exact ⟨h1, h2, (labelOf_white hR h1 h2).1.2 (by rw [h3]; omega)⟩
      intro u v
      obtain ⟨p, hpT⟩ := u
      obtain ⟨q, hqT⟩ := v
      have hp := hsub p hpT
      have hq := hsub q hqT
      have hs : SameIsland pb Wt p q := sameIsland_of_labelOf hR hp hq (by
        have a := hpT.2.2; have b := hqT.2.2; simp only at a b; rw [a, b])
      obtain ⟨_, _, hr⟩ := hs
      obtain ⟨_, hr'⟩ := reach_in_sub cellGraph (whiteSet pb Wt)
        (cellSet pb.height pb.width (fun y x => labelOf pb Wt y x = (c : Int))) (by
          intro a b ha hb hadj
          have hab := label_congr (sameIsland_of_adj (hsub a ha) hb hadj)
          refine ⟨hb.1, hb.2.1, ?_⟩
          show labelOf pb Wt b.1 b.2 = (c : Int)
          rw [← hab]; exact ha.2.2) p q hp hq hpT hr
      exact hr'
  · -- every label is used
    intro c hc
    rcases Nat.eq_zero_or_pos c with h0 | hpos
    · subst h0
      obtain ⟨y, hy, x, hx, hb⟩ := hR.2.2.2.2.2.1
      refine ⟨y, x, hy, hx, ?_⟩
      unfold labelOf
      rw [hb]; simp
    · have hj : c - 1 < (clueList pb).length := by unfold K at hc; omega
      have ht := List.getElem?_eq_getElem hj
      obtain ⟨t1, t2, _⟩ := clue_of_index ht
      refine ⟨_, _, t1, t2, ?_⟩
      rw [labelOf_clue hR ht]
      omega

end Backward

section Backward2
variable {pb : Problem} {Wt : Nat → Nat → Bool}

theorem island_labelOf (hR : RulesOn pb Wt) {j : Nat} {t : Nat × Nat × Int} (ht : (clueList pb)[j]? = some t) :
    island pb Wt (t.1, t.2.1) = cellSet pb.height pb.width (fun y x => labelOf pb Wt y x = (j : Int) + 1) := by
  obtain ⟨t1, t2, _, t4, _⟩ := clue_of_index ht
  have hw : (t.1, t.2.1) ∈ whiteSet pb Wt := ⟨t1, t2, hR.1 _ t1 _ t2 t4⟩
  have hl := labelOf_clue hR ht
  ext q
  simp only [island, Set.mem_ofPred_eq]
  constructor
  · intro h
    have := label_congr h
    obtain ⟨_, hq, _⟩ := h
    exact ⟨hq.1, hq.2.1, show labelOf pb Wt q.1 q.2 = (j : Int) + 1 by rw [← this]; exact hl⟩
  · rintro ⟨h1, h2, h3⟩
    have hq : q ∈ whiteSet pb Wt := ⟨h1, h2, (labelOf_white hR h1 h2).1.2 (by rw [h3]; omega)⟩
    exact sameIsland_of_labelOf hR hw hq (by show labelOf pb Wt t.1 t.2.1 = labelOf pb Wt q.1 q.2; rw [hl, h3])

theorem locSem_labelOf (hR : RulesOn pb Wt) : LocSem pb (labelOf pb Wt) Wt := by
  refine ⟨fun y x hy hx => (labelOf_white hR hy hx).1, ?_, ?_, hR.2.2.2.2.2.2, ?_⟩
  · intro y x hy hx h1 h2
    exact label_congr (p := (y, x)) (q := (y + 1, x))
      (sameIsland_of_adj ⟨by omega, hx, h1⟩ ⟨hy, hx, h2⟩ (Or.inr ⟨rfl, Or.inl rfl⟩))
  · intro y x hy hx h1 h2
    exact label_congr (p := (y, x)) (q := (y, x + 1))
      (sameIsland_of_adj ⟨hy, by omega, h1⟩ ⟨hy, hx, h2⟩ (Or.inl ⟨rfl, Or.inl rfl⟩))
  · intro j t ht
    obtain ⟨t1, t2, t3, t4, _⟩ := clue_of_index ht
    have hcard : (island pb Wt (t.1, t.2.1)).ncard = cnt pb (labelOf pb Wt) ((j : Int) + 1) := by
      rw [island_labelOf hR ht, ncard_cellSet]; rfl
    constructor
    · intro hpos
      rw [← hcard, t3]
      exact hR.2.2.1 _ t1 _ t2 (by omega)
    · intro hm1 low hlow
      rw [← hcard]
      exact hR.2.2.2.1 low hlow _ t1 _ t2 (by omega)

/-- THE combinatorial equivalence: a shading obeys the rules iff it admits region labels that meet what
`division_connected` and the local constraints demand. -/
theorem labels_iff_rules : (∃ L, DivSem pb L ∧ LocSem pb L Wt) ↔ RulesOn pb Wt :=
  ⟨fun ⟨_, hD, hL⟩ => rules_of_labels hD hL, fun hR => ⟨_, divSem_labelOf hR, locSem_labelOf hR⟩⟩

end Backward2

end Cspuz.Proofs.C11NurikabeC
