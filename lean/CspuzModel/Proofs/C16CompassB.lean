/-
  C16 / compass, encoder half: `compass.to_puzz_link_url(h, w, pos)` on a sorted list of in-board clues returns the URL
  whose body is `bodyOf h w pos` (C16CompassA).
-/
import CspuzModel.Proofs.C16CompassA
namespace Cspuz.Proofs.C16CompassB
open Cspuz Cspuz.Ser Cspuz.Codecs Cspuz.C16F Cspuz.Proofs.C16CompassA

/-- the tuple `to_puzz_link_url` stores in a clue cell -/
def cellVal (c : CompassClue) : PyVal := .tuple [dotOr c.up, dotOr c.down, dotOr c.left, dotOr c.right]

/-- the flattened board from cell `cur` on -/
def flatFrom (w : Nat) : List CompassClue → Nat → Nat → List PyVal
  | [], cur, total => List.replicate (total - cur) PyVal.none
  | c :: cs, cur, total =>
    List.replicate (posN w c - cur) PyVal.none ++ (cellVal c :: flatFrom w cs (posN w c + 1) total)

/-! ### placing the clues -/

theorem replicate_set {α} (a v : α) : ∀ (n k : Nat), k < n →
    (List.replicate n a).set k v = List.replicate k a ++ v :: List.replicate (n - k - 1) a
  | 0, _, h => by omega
  | n + 1, 0, _ => by simp [List.replicate_succ]
  | n + 1, k + 1, h => by
    rw [List.replicate_succ, List.set_cons_succ, replicate_set a v n k (by omega), List.replicate_succ]
    have : n + 1 - (k + 1) - 1 = n - k - 1 := by omega
    rw [this]; rfl

theorem set2_flatten {α} (w : Nat) (x : Nat) (v : α) (hx : x < w) : ∀ (g : Grid2 α) (y : Nat),
    (∀ r ∈ g, r.length = w) → y < g.length →
    (set2 g y x v).flatten = g.flatten.set (y * w + x) v ∧ (set2 g y x v).length = g.length ∧
      ∀ r ∈ set2 g y x v, r.length = w
  | [], _, _, hy => by simp at hy
  | r :: g, 0, hr, _ => by
    have hrl : r.length = w := hr r (by simp)
    refine ⟨?_, by simp [set2], ?_⟩
    · simp only [set2, List.modify_zero_cons, List.flatten_cons, Nat.zero_mul, Nat.zero_add]
      rw [List.set_append_left _ _ (by omega)]
    · intro r' hr'
      simp only [set2, List.modify_zero_cons, List.mem_cons] at hr'
      rcases hr' with rfl | hr'
      · simp [hrl]
      · exact hr r' (by simp [hr'])
  | r :: g, y + 1, hr, hy => by
    have hrl : r.length = w := hr r (by simp)
    have ih := set2_flatten w x v hx g y (fun r' hr' => hr r' (by simp [hr'])) (by simpa using hy)
    unfold set2 at ih ⊢
    refine ⟨?_, by simp, ?_⟩
    · simp only [List.modify_succ_cons, List.flatten_cons]
      rw [ih.1, List.set_append_right _ _ (by rw [hrl, Nat.succ_mul]; omega)]
      have : (y + 1) * w + x - r.length = y * w + x := by rw [hrl, Nat.succ_mul]; omega
      rw [this]
    · intro r' hr'
      simp only [List.modify_succ_cons, List.mem_cons] at hr'
      rcases hr' with rfl | hr'
      · exact hrl
      · exact ih.2.2 r' hr'

theorem pyIdx_nonneg (n : Nat) (k : Int) (h0 : 0 ≤ k) (h1 : k < n) : pyIdx n k = .ok k.toNat := by
  unfold pyIdx
  have e : (if k < 0 then k + (n : Int) else k) = k := if_neg (by omega)
  simp only [e]
  rw [if_pos (by simp; omega)]

theorem pySet2_ok (h w : Nat) (g : Grid2 PyVal) (c : CompassClue) (v : PyVal) (hc : CompassClueOk h w c)
    (hl : g.length = h) (hr : ∀ r ∈ g, r.length = w) :
    pySet2 g c.y c.x v = .ok (set2 g c.y.toNat c.x.toNat v) := by
  obtain ⟨hy0, hy1, hx0, hx1, _⟩ := hc
  unfold pySet2
  rw [pyIdx_nonneg _ _ hy0 (by omega)]
  simp only [Outcome.bind_ok]
  have hlt : c.y.toNat < g.length := by omega
  rw [List.getElem?_eq_getElem hlt]
  simp only
  rw [hr _ (List.getElem_mem hlt), pyIdx_nonneg _ _ hx0 hx1]
  rfl

/-- the board after the placement loop, flattened -/
theorem place_flat (h w total : Nat) (ht : total = h * w) : ∀ (cs : List CompassClue) (g : Grid2 PyVal) (pre : List PyVal)
    (cur : Nat), (∀ c ∈ cs, CompassClueOk h w c) → CompassSorted w cs → (∀ c ∈ cs, cur ≤ posN w c) →
    g.length = h → (∀ r ∈ g, r.length = w) → pre.length = cur →
    g.flatten = pre ++ List.replicate (total - cur) PyVal.none →
    ∃ g', compassPlace cs g = .ok g' ∧ g'.flatten = pre ++ flatFrom w cs cur total
  | [], g, pre, cur, _, _, _, _, _, _, hflat => ⟨g, rfl, by simpa [flatFrom] using hflat⟩
  | c :: cs, g, pre, cur, hok, hs, hge, hl, hr, hpre, hflat => by
    have hc := hok c (by simp)
    obtain ⟨hp, _, _, hy, hx⟩ := posN_eq h w c hc
    have hplt : posN w c < total := ht ▸ posN_lt h w c hc
    have hcur : cur ≤ posN w c := hge c (by simp)
    obtain ⟨hok', hs', hge'⟩ := sorted_tail h w c cs hok hs
    obtain ⟨hf1, hl1, hr1⟩ := set2_flatten w c.x.toNat (cellVal c) hx g c.y.toNat hr (by omega)
    have hflat1 : (set2 g c.y.toNat c.x.toNat (cellVal c)).flatten
        = (pre ++ (List.replicate (posN w c - cur) PyVal.none ++ [cellVal c]))
          ++ List.replicate (total - (posN w c + 1)) PyVal.none := by
      rw [hf1, ← hp, hflat, List.set_append_right _ _ (by omega), hpre,
        replicate_set _ _ _ _ (by omega)]
      have : total - cur - (posN w c - cur) - 1 = total - (posN w c + 1) := by omega
      rw [this]
      simp
    obtain ⟨g', hg', hfl'⟩ := place_flat h w total ht cs _ _ (posN w c + 1) hok' hs' hge' (hl1.trans hl) hr1
      (by simp; omega) hflat1
    refine ⟨g', ?_, ?_⟩
    · simp only [compassPlace]
      rw [show PyVal.tuple [dotOr c.up, dotOr c.down, dotOr c.left, dotOr c.right] = cellVal c from rfl,
        pySet2_ok h w g c _ hc hl hr]
      exact hg'
    · rw [hfl']; simp [flatFrom]

theorem replicate_flatten_nil {α} (h : Nat) : (List.replicate h ([] : List α)).flatten = [] := by
  induction h with
  | zero => rfl
  | succ n ih => rw [List.replicate_succ, List.flatten_cons, ih]; rfl

theorem flatten_replicate_replicate {α} (a : α) (w : Nat) : ∀ h : Nat,
    (List.replicate h (List.replicate w a)).flatten = List.replicate (h * w) a
  | 0 => by simp
  | h + 1 => by
    rw [List.replicate_succ, List.flatten_cons, flatten_replicate_replicate a w h, Nat.succ_mul,
      Nat.add_comm, List.replicate_append_replicate]

theorem place_ok (h w : Nat) (pos : List CompassClue) (hok : ∀ c ∈ pos, CompassClueOk h w c)
    (hs : CompassSorted w pos) :
    ∃ g, compassPlace pos (List.replicate h (List.replicate w PyVal.none)) = .ok g ∧
      g.flatten = flatFrom w pos 0 (h * w) := by
  obtain ⟨g, hg, hf⟩ := place_flat h w (h * w) rfl pos (List.replicate h (List.replicate w PyVal.none)) [] 0 hok hs
    (fun _ _ => Nat.zero_le _) (by simp) (fun r hr => by rw [(List.mem_replicate.mp hr).2]; simp) rfl
    (by rw [flatten_replicate_replicate]; simp)
  exact ⟨g, hg, by simpa using hf⟩

/-! ### `encode_array` -/

theorem all_isListVal {g : Grid2 PyVal} : (g.map PyVal.list).all isListVal = true := by
  rw [List.all_eq_true]
  intro v hv
  obtain ⟨r, _, rfl⟩ := List.mem_map.mp hv
  rfl

theorem flattenLists_map : ∀ g : Grid2 PyVal, flattenLists (g.map PyVal.list) = .ok g.flatten
  | [] => rfl
  | r :: g => by
    simp only [List.map_cons, flattenLists, flattenLists_map g, Outcome.bind_ok, List.flatten_cons]

theorem encodeArray_grid (g : Grid2 PyVal) :
    encodeArray (g.map PyVal.list) 103 PyVal.none Option.none = encodeCells 16 PyVal.none g.flatten 0 [] := by
  unfold encodeArray
  rw [if_neg (by decide)]
  simp only [all_isListVal, if_true, Outcome.bind_ok, flattenLists_map]
  rfl

/-! ### tokens -/

theorem toBase16_two (n : Nat) (h1 : 16 ≤ n) (h2 : n < 256) :
    toBase 16 n = [digitChar (n / 16), digitChar (n % 16)] := by
  unfold toBase
  rw [digits_of_ge 16 n (by omega) h1, digits_of_lt 16 (n / 16) (by omega) (by omega)]
  rfl

theorem toBase16_three (n : Nat) (h1 : 256 ≤ n) (h2 : n < 4096) :
    toBase 16 n = [digitChar (n / 16 / 16), digitChar (n / 16 % 16), digitChar (n % 16)] := by
  unfold toBase
  rw [digits_of_ge 16 n (by omega) (by omega), digits_of_ge 16 (n / 16) (by omega) (by omega),
    digits_of_lt 16 (n / 16 / 16) (by omega) (by omega)]
  rfl

theorem encode_dotOr (v : Int) (hv : NumOk v) : encodeIntOrStr (dotOr v) = .ok (tok v) := by
  rcases tok_cases v hv with ⟨hv1, e⟩ | ⟨h0, h15, hd, e⟩ | ⟨h16, h255, _, _, _, e⟩ | ⟨h256, h4095, _, _, _, _, e⟩
  rotate_right
  · rw [e, dotOr, if_neg (by omega)]
    simp only [encodeIntOrStr, asInt?]
    rw [if_neg (by omega), if_neg (by omega), if_pos h4095, hexTail, if_neg (by omega),
      toBase16_three _ (by omega) (by omega)]
  · rw [e, dotOr, if_pos hv1]; rfl
  · rw [e, dotOr, if_neg (by omega)]
    simp only [encodeIntOrStr, asInt?]
    rw [if_pos h15, hexTail, if_neg (by omega), toBase_of_lt 16 _ (by omega) hd]
  · rw [e, dotOr, if_neg (by omega)]
    simp only [encodeIntOrStr, asInt?]
    rw [if_neg (by omega), if_pos h255, hexTail, if_neg (by omega), toBase16_two _ (by omega) (by omega)]

theorem encodeParts_clue (h w : Nat) (c : CompassClue) (hc : CompassClueOk h w c) :
    encodeParts [dotOr c.up, dotOr c.down, dotOr c.left, dotOr c.right] = .ok (clueStr c) := by
  obtain ⟨hu, hd, hl, hr⟩ := clueOk_nums h w c hc
  simp only [encodeParts, encode_dotOr _ hu, encode_dotOr _ hd, encode_dotOr _ hl, encode_dotOr _ hr,
    Outcome.bind_ok, clueStr, List.append_nil]

/-! ### runs of empty cells -/

theorem pyEq_none_none : pyEq PyVal.none PyVal.none = true := by simp [pyEq]

theorem pyEq_cellVal_none (c : CompassClue) : pyEq (cellVal c) PyVal.none = false := by simp [cellVal, pyEq]

/-- `n` more empty cells with a pending run of `r` -/
theorem encodeCells_run (rest : List PyVal) : ∀ (n r : Nat) (acc : Str), r ≤ 20 → 1 ≤ r + n →
    encodeCells 16 PyVal.none (List.replicate n PyVal.none ++ rest) r acc
      = encodeCells 16 PyVal.none rest ((r + n - 1) % 20 + 1) (acc ++ List.replicate ((r + n - 1) / 20) 122)
  | 0, r, acc, h1, h2 => by
    have e1 : (r + 0 - 1) % 20 + 1 = r := by omega
    have e2 : (r + 0 - 1) / 20 = 0 := by omega
    rw [e1, e2]; simp
  | n + 1, r, acc, h1, _ => by
    rw [List.replicate_succ, List.cons_append]
    simp only [encodeCells, pyEq_none_none, if_true]
    by_cases hr : r = 20
    · subst hr
      rw [if_pos (by omega), encodeCells_run rest n 1 _ (by omega) (by omega)]
      have e1 : (20 + (n + 1) - 1) % 20 = (1 + n - 1) % 20 := by omega
      have e2 : (20 + (n + 1) - 1) / 20 = (1 + n - 1) / 20 + 1 := by omega
      rw [e1, e2, List.replicate_succ, List.append_assoc]; rfl
    · rw [if_neg (by omega), encodeCells_run rest n (r + 1) _ (by omega) (by omega)]
      have e : r + 1 + n - 1 = r + (n + 1) - 1 := by omega
      rw [e]

theorem flushRun_gap (n : Nat) (hn : 1 ≤ n) :
    List.replicate ((n - 1) / 20) 122 ++ flushRun 16 ((n - 1) % 20 + 1) = gapStr n := by
  unfold gapStr flushRun
  rw [if_pos (show (n - 1) % 20 + 1 > 0 by omega), if_neg (show ¬ n = 0 by omega)]
  have : digitChar ((n - 1) % 20 + 1 - 1 + 16) = 103 + (n - 1) % 20 := by
    unfold digitChar; rw [if_neg (by omega)]; omega
  rw [this]

/-- a gap at the end of the board -/
theorem encodeCells_gap_end (n : Nat) (acc : Str) :
    encodeCells 16 PyVal.none (List.replicate n PyVal.none) 0 acc = .ok (acc ++ gapStr n) := by
  by_cases hn : n = 0
  · subst hn; simp [encodeCells, flushRun, gapStr]
  · have := encodeCells_run [] n 0 acc (by omega) (by omega)
    rw [List.append_nil] at this
    rw [this]
    simp only [encodeCells, Nat.zero_add, List.append_assoc]
    rw [flushRun_gap n (by omega)]

/-- a gap followed by a clue cell -/
theorem encodeCells_gap_clue (h w : Nat) (c : CompassClue) (hc : CompassClueOk h w c) (rest : List PyVal) (n : Nat)
    (acc : Str) :
    encodeCells 16 PyVal.none (List.replicate n PyVal.none ++ (cellVal c :: rest)) 0 acc
      = encodeCells 16 PyVal.none rest 0 (acc ++ (gapStr n ++ clueStr c)) := by
  have hcell : ∀ (run : Nat) (acc : Str), encodeCells 16 PyVal.none (cellVal c :: rest) run acc
      = encodeCells 16 PyVal.none rest 0 (acc ++ flushRun 16 run ++ clueStr c) := by
    intro run acc
    simp only [encodeCells, pyEq_cellVal_none, Bool.false_eq_true, if_false]
    simp only [cellVal, encodeParts_clue h w c hc, Outcome.bind_ok]
  by_cases hn : n = 0
  · subst hn
    rw [List.replicate_zero, List.nil_append, hcell]
    simp [flushRun, gapStr]
  · rw [encodeCells_run _ n 0 acc (by omega) (by omega), hcell]
    simp only [Nat.zero_add, List.append_assoc]
    rw [← List.append_assoc (List.replicate _ _), flushRun_gap n (by omega)]

/-- the main loop of `encode_array` on the flattened board -/
theorem encodeCells_flat (h w total : Nat) : ∀ (cs : List CompassClue) (cur : Nat) (acc : Str),
    (∀ c ∈ cs, CompassClueOk h w c) →
    encodeCells 16 PyVal.none (flatFrom w cs cur total) 0 acc = .ok (acc ++ bodyFrom w cs cur total)
  | [], cur, acc, _ => by simp only [flatFrom, bodyFrom, encodeCells_gap_end]
  | c :: cs, cur, acc, hok => by
    simp only [flatFrom, bodyFrom]
    rw [encodeCells_gap_clue h w c (hok c (by simp)),
      encodeCells_flat h w total cs _ _ (fun d hd => hok d (List.mem_cons_of_mem _ hd))]
    simp only [List.append_assoc]

/-! ### the URL -/

theorem compass_url (h w : Nat) (pos : List CompassClue) (hok : ∀ c ∈ pos, CompassClueOk h w c)
    (hs : CompassSorted w pos) :
    compassToPuzzLinkUrl h w pos
      = .ok (puzzLinkPrefix ++ strOfString "compass" ++ [47] ++ toBase 10 w ++ [47] ++ toBase 10 h ++ [47]
          ++ bodyOf h w pos) := by
  obtain ⟨g, hg, hf⟩ := place_ok h w pos hok hs
  unfold compassToPuzzLinkUrl
  rw [hg]
  simp only [Outcome.bind_ok]
  rw [encodeArray_grid, hf, encodeCells_flat h w (h * w) pos 0 [] hok]
  simp only [Outcome.bind_ok, List.nil_append]
  rfl

end Cspuz.Proofs.C16CompassB
