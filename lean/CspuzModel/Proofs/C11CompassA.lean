/-
  C11 / Compass, part A — the program posted by `solve_compass` in closed form (`program_eq`):
  declarations = the `h * w` division variables `0 … k-1` followed by the auxiliary variables of the
  rank / is_root / spanning_forest encoding of `division_connected`; constraints = those of that encoding
  (`C05L1.divProg`) followed, per compass, by `division[y, x] == i` and the (up to four) sector counts.
-/
import CspuzModel.Spec.PuzzleRules.Compass
import CspuzModel.Proofs.C05L1
import CspuzModel.Proofs.C04Prim
import CspuzModel.Proofs.C11CL
import CspuzModel.Proofs.C11Grid
namespace Cspuz.Proofs.C11CompassA
open Cspuz Cspuz.Spec Cspuz.Puzzles Cspuz.Puzzles.Compass Cspuz.Spec.Compass Cspuz.Proofs
open Cspuz.Proofs.C12Elem

/-! ### slices `:a`, `(a+1):`, `:` as filters of the index range -/

theorem axisSel_before (n : Nat) (a : Int) (h0 : 0 ≤ a) (h1 : a ≤ (n : Int)) :
    axisSel n (sl none (some a)) = .ok (false, (List.range n).filter fun i => decide ((i : Int) < a)) := by
  simp only [axisSel, sl, sliceSel, Option.getD_none]
  rw [if_neg (by decide), if_pos (by decide)]
  have e2 : clampPos n n (some a) = a := by simp only [clampPos]; split <;> split <;> omega
  simp only [ok_bind, clampPos]
  congr 2
  apply List.filter_congr
  intro i _
  apply decide_eq_decide.2
  omega

theorem axisSel_after (n : Nat) (a : Int) (h0 : 0 ≤ a) (h1 : a < (n : Int)) :
    axisSel n (sl (some (a + 1)) none) = .ok (false, (List.range n).filter fun i => decide (a < (i : Int))) := by
  simp only [axisSel, sl, sliceSel, Option.getD_none]
  rw [if_neg (by decide), if_pos (by decide)]
  have e1 : clampPos n 0 (some (a + 1)) = a + 1 := by simp only [clampPos]; split <;> split <;> omega
  simp only [ok_bind, clampPos]
  congr 2
  apply List.filter_congr
  intro i hi
  have := List.mem_range.1 hi
  apply decide_eq_decide.2
  omega

theorem axisSel_all (n : Nat) :
    axisSel n fullSlice = .ok (false, (List.range n).filter fun _ => true) := by
  rw [C11CL.axisSel_full, List.filter_true]

theorem mem_filter_range_lt {n : Nat} {p : Nat → Bool} {i : Nat} (h : i ∈ (List.range n).filter p) : i < n :=
  List.mem_range.1 (List.mem_filter.1 h).1

/-! ### `A == v` on an integer 2-D array and an integer literal -/

theorem ewData2_arr2_scalar (op : Op) (k : Bool) (h w : Nat) (A : List Expr) (e : Expr) (hA : A.length = h * w) :
    ewData op (.d2 h w) [.arr2 k h w A, .scalar e] = A.map fun a => .node op [a, e] := by
  apply List.ext_getElem
  · simp [ewData, Shape.size, hA]
  · intro i h1 h2
    simp only [ewData, Shape.size, List.length_map, List.length_range] at h1
    have hiA : i < A.length := by omega
    simp [ewData, C12Elem.get, elem?, hiA]

theorem binop_eq_arr2_lit (h w : Nat) (A : List Expr) (hA : A.length = h * w) (v : Int) :
    binop .eq (.arr2 false h w A) (.scalar (.litI v)) =
      .ok (.arr2 true h w (A.map fun a => .node .eq [a, .litI v])) := by
  have he : elementwise .eq (.d2 h w) [.arr2 false h w A, .scalar (.litI v)] = _ :=
    elementwise_ok (by simp [ewTypeCheck, Op.isCmp, PyV.isIntLike, Expr.isIntLike]) (by
      intro x hx
      simp only [List.mem_cons, List.mem_nil_iff, or_false] at hx
      rcases hx with rfl | rfl
      · exact C11CL.conf_arr2 _ _ _ _ hA
      · exact C11CL.conf_scalar _ _)
  rw [ewData2_arr2_scalar _ _ _ _ _ _ hA] at he
  simp [binop, tryMeth, callMethod, PyV.cls, Cls.defines, arrayMethod, Cls.arrKind?, binarySpec, unarySpec,
    PyV.shape?, PyV.data?, swapIf, BinOp.isCmp, BinOp.meth, he, mkArr, Op.isBoolOp, Cls.properSubclass]

theorem countTrueA_arr2 (h w : Nat) (l : List Expr) (hl : ∀ x ∈ l, x.isBoolLike = true) :
    countTrueA [.leaf (.arr2 true h w l)] = .ok (countTrueE l) := by
  simp only [countTrueA, ANest.flattenList, ANest.flatten, PyV.flat, List.append_nil]
  exact countTrue_ok_of_boolLike hl

/-! ### the constraints of one compass -/

/-- The division variables of the cells `ys × xs`, in the order of the 2-D slice. -/
def rectVars (w : Nat) (ys xs : List Nat) : List Expr :=
  ys.flatMap fun y => xs.map fun x => Expr.ivar (y * w + x)

theorem rectVars_length (w : Nat) (ys xs : List Nat) : (rectVars w ys xs).length = ys.length * xs.length := by
  unfold rectVars
  induction ys with
  | nil => simp
  | cons a ys ih => rw [List.flatMap_cons, List.length_append, ih, List.length_map, List.length_cons, Nat.succ_mul]; omega

/-- `count_true(division[ys, xs] == i) == v`. -/
def cntE (w : Nat) (ys xs : List Nat) (i v : Int) : Expr :=
  .node .eq [countTrueE ((rectVars w ys xs).map fun a => .node .eq [a, .litI i]), .litI v]

theorem ivars0 (n : Nat) : ivars 0 n = (List.range n).map Expr.ivar := by
  simp [ivars]

theorem countCs_eq (h w : Nat) (ky kx : AxisKey) (ys xs : List Nat)
    (hy : axisSel h ky = .ok (false, ys)) (hx : axisSel w kx = .ok (false, xs))
    (hys : ∀ y ∈ ys, y < h) (hxs : ∀ x ∈ xs, x < w) (i v : Int) :
    countCs (.arr2 false h w ((List.range (h * w)).map Expr.ivar)) (.pair ky kx) i v = .ok [cntE w ys xs i v] := by
  unfold countCs
  rw [C11CL.getitemV_slices false Expr.ivar h w ky kx ys xs hy hx hys hxs, ok_bind]
  rw [show (ys.flatMap fun y => xs.map fun x => Expr.ivar (y * w + x)) = rectVars w ys xs from rfl]
  rw [binop_eq_arr2_lit _ _ _ (rectVars_length w ys xs), ok_bind]
  rw [countTrueA_arr2 _ _ _ (by
    intro e he
    simp only [List.mem_map] at he
    obtain ⟨a, _, rfl⟩ := he
    rfl), ok_bind]
  obtain ⟨op, args, hop, hint⟩ := C11CL.countTrueE_isNode ((rectVars w ys xs).map fun a => Expr.node .eq [a, .litI i])
  rw [hop, C11CL.binop_eq_node_lit op args _ hint, ok_bind, C11CL.ensureV_scalar _ rfl]
  simp only [cntE, hop]

theorem ite_ok {p : Prop} [Decidable p] {m : Py (List Expr)} {l : List Expr} (h : m = .ok l) :
    (if p then m else .ok []) = .ok (if p then l else []) := by
  split <;> simp [h]

/-- Row / column selections of the four sectors of a compass at `(cy, cx)`. -/
def before (n : Nat) (a : Int) : List Nat := (List.range n).filter fun i => decide ((i : Int) < a)
def after (n : Nat) (a : Int) : List Nat := (List.range n).filter fun i => decide (a < (i : Int))
def allOf (n : Nat) : List Nat := (List.range n).filter fun _ => true

/-- The constraints posted for compass `c`, the `i`-th of the problem. -/
def clueEs (h w : Nat) (ci : Clue × Nat) : List Expr :=
  [.node .eq [.ivar (ci.1.y.toNat * w + ci.1.x.toNat), .litI (ci.2 : Int)]] ++
  (if ci.1.up ≥ 0 then [cntE w (before h ci.1.y) (allOf w) ci.2 ci.1.up] else []) ++
  (if ci.1.dw ≥ 0 then [cntE w (after h ci.1.y) (allOf w) ci.2 ci.1.dw] else []) ++
  (if ci.1.lf ≥ 0 then [cntE w (allOf h) (before w ci.1.x) ci.2 ci.1.lf] else []) ++
  (if ci.1.rg ≥ 0 then [cntE w (allOf h) (after w ci.1.x) ci.2 ci.1.rg] else [])

theorem clueCs_eq (h w : Nat) (ci : Clue × Nat)
    (hy0 : 0 ≤ ci.1.y) (hy1 : ci.1.y < (h : Int)) (hx0 : 0 ≤ ci.1.x) (hx1 : ci.1.x < (w : Int)) :
    clueCs (.arr2 false h w (ivars 0 (h * w))) ci = .ok (clueEs h w ci) := by
  obtain ⟨c, i⟩ := ci
  simp only at hy0 hy1 hx0 hx1
  unfold clueCs
  simp only
  rw [ivars0]
  have h1 : ∀ Y X : Nat, c.y = (Y : Int) → c.x = (X : Int) →
      getitemV (.arr2 false h w ((List.range (h * w)).map Expr.ivar)) (.pair (.idx c.y) (.idx c.x))
        = .ok (.scalar (.ivar (Y * w + X))) := by
    intro Y X hY hX
    rw [hY, hX, C11CL.getitemV_cell false Expr.ivar h w Y X (by omega) (by omega)]
  rw [h1 c.y.toNat c.x.toNat (Int.toNat_of_nonneg hy0).symm (Int.toNat_of_nonneg hx0).symm,
    ok_bind, C11CL.binop_eq_ivar_lit, ok_bind, C11CL.ensureV_scalar _ rfl, ok_bind]
  rw [countCs_eq h w _ _ _ _ (axisSel_before h c.y hy0 (by omega)) (axisSel_all w)
    (fun _ => mem_filter_range_lt) (fun _ => mem_filter_range_lt) _ _]
  rw [countCs_eq h w _ _ _ _ (axisSel_after h c.y hy0 hy1) (axisSel_all w)
    (fun _ => mem_filter_range_lt) (fun _ => mem_filter_range_lt) _ _]
  rw [countCs_eq h w _ _ _ _ (axisSel_all h) (axisSel_before w c.x hx0 (by omega))
    (fun _ => mem_filter_range_lt) (fun _ => mem_filter_range_lt) _ _]
  rw [countCs_eq h w _ _ _ _ (axisSel_all h) (axisSel_after w c.x hx0 hx1)
    (fun _ => mem_filter_range_lt) (fun _ => mem_filter_range_lt) _ _]
  simp only [clueEs, before, after, allOf]
  by_cases hu : c.up ≥ 0 <;> by_cases hd : c.dw ≥ 0 <;> by_cases hl : c.lf ≥ 0 <;> by_cases hr : c.rg ≥ 0 <;>
    simp only [hu, hd, hl, hr, if_true, if_false, ok_bind]

/-! ### roots -/

/-- The vertex of the grid graph on which compass `c` sits. -/
def cellOf (w : Nat) (c : Clue) : Nat := c.y.toNat * w + c.x.toNat

theorem cellOf_lt {h w : Nat} {c : Clue}
    (hy0 : 0 ≤ c.y) (hy1 : c.y < (h : Int)) (hx0 : 0 ≤ c.x) (hx1 : c.x < (w : Int)) : cellOf w c < h * w :=
  C11Grid.cell_lt (by omega) (by omega)

theorem rootOf_eq (h w : Nat) (c : Clue)
    (hy0 : 0 ≤ c.y) (hy1 : c.y < (h : Int)) (hx0 : 0 ≤ c.x) (hx1 : c.x < (w : Int)) :
    rootOf (h * w) w c = .ok (some (cellOf w c)) := by
  have hlt := cellOf_lt hy0 hy1 hx0 hx1
  have e : c.y * (w : Int) + c.x = ((cellOf w c : Nat) : Int) := by
    unfold cellOf
    push_cast
    rw [Int.toNat_of_nonneg hy0, Int.toNat_of_nonneg hx0]
  have hp : (if ((cellOf w c : Nat) : Int) < 0 then ((cellOf w c : Nat) : Int) + ((h * w : Nat) : Int)
      else ((cellOf w c : Nat) : Int)) = ((cellOf w c : Nat) : Int) := if_neg (by omega)
  unfold rootOf
  simp only [e, hp]
  rw [if_pos ⟨by omega, by exact_mod_cast hlt⟩, Int.toNat_natCast]

/-! ### the posted program -/

/-- The roots handed to `division_connected`. -/
def roots (pb : Problem) : List (Option Nat) := pb.problem.map fun c => some (cellOf pb.width c)

/-- The connectivity fragment. -/
def dc (pb : Problem) : Prog :=
  C05L1.divProg (Graph.grid pb.height pb.width) (ivars 0 (pb.height * pb.width)) pb.problem.length
    (some (roots pb)) false (pb.height * pb.width)

/-- The clue constraints. -/
def clues (pb : Problem) : List Expr := pb.problem.zipIdx.flatMap (clueEs pb.height pb.width)

/-- The division variables. -/
def d0 (pb : Problem) : List VarDecl :=
  List.replicate (pb.height * pb.width) (.int 0 ((pb.problem.length : Int) - 1))

theorem board_pos {pb : Problem} (hwf : WellFormed pb) : 0 < pb.height * pb.width := by
  obtain ⟨hk, hc⟩ := hwf
  have hmem : pb.problem[0] ∈ pb.problem := List.getElem_mem (by omega)
  obtain ⟨h1, h2, h3, h4⟩ := hc _ hmem
  exact Nat.mul_pos (by omega) (by omega)

theorem ivars_intLike (n : Nat) : ∀ i (h : i < (ivars 0 n).length), (ivars 0 n)[i].isIntLike = true := by
  intro i hi
  simp [ivars, Expr.isIntLike]

theorem roots_lt {pb : Problem} (hwf : WellFormed pb) :
    ∀ (c r : Nat), ((some (roots pb)).getD [])[c]? = some (some r) → r < pb.height * pb.width := by
  intro c r hcr
  simp only [Option.getD_some, roots, List.getElem?_map] at hcr
  cases hq : pb.problem[c]? with
  | none => rw [hq] at hcr; simp at hcr
  | some q =>
    rw [hq] at hcr
    simp only [Option.map_some, Option.some.injEq] at hcr
    subst hcr
    obtain ⟨h1, h2, h3, h4⟩ := hwf.2 q (List.mem_of_getElem? hq)
    exact cellOf_lt h1 h2 h3 h4

theorem dc_eq {pb : Problem} (hwf : WellFormed pb) :
    divisionConnected (Graph.grid pb.height pb.width) (ivars 0 (pb.height * pb.width)) pb.problem.length
      (some (roots pb)) false false (pb.height * pb.width) = .ok (dc pb) :=
  C05L1.div_eq_prog (board_pos hwf) (C04Prim.grid_wf _ _) (by simp [ivars, Graph.grid]) (ivars_intLike _)
    (by
      intro c r hcr
      have := roots_lt hwf c r hcr
      simpa [ivars] using this)

theorem program_eq {pb : Problem} (hwf : WellFormed pb) :
    program pb = .ok { decls := d0 pb ++ (dc pb).decls, cs := (dc pb).cs ++ clues pb,
                       keys := List.range (pb.height * pb.width) } := by
  unfold program programWith
  simp only
  have hdecl : intArrayDecls (pb.height * pb.width) 0 ((pb.problem.length : Int) - 1) = .ok (d0 pb) := by
    unfold intArrayDecls
    rw [if_neg (by have := hwf.1; omega)]
    rfl
  rw [hdecl, ok_bind]
  rw [mapM_eq_ok_map (g := fun c => some (cellOf pb.width c)) (by
    intro c hc
    obtain ⟨h1, h2, h3, h4⟩ := hwf.2 c hc
    exact rootOf_eq _ _ c h1 h2 h3 h4), ok_bind]
  rw [show pb.problem.map (fun c => some (cellOf pb.width c)) = roots pb from rfl, dc_eq hwf, ok_bind]
  rw [C11Grid.addKeys_ivars, ok_bind]
  rw [mapM_eq_ok_map (g := clueEs pb.height pb.width) (by
    intro ci hci
    have hmem : ci.1 ∈ pb.problem := by
      obtain ⟨c, i⟩ := ci
      exact (List.mem_zipIdx hci).2.2 ▸ List.getElem_mem _
    obtain ⟨h1, h2, h3, h4⟩ := hwf.2 _ hmem
    exact clueCs_eq _ _ ci h1 h2 h3 h4), ok_bind]
  simp only [clues, List.flatMap_def]

theorem total (pb : Problem) (hwf : WellFormed pb) : ∃ P, program pb = .ok P := ⟨_, program_eq hwf⟩

end Cspuz.Proofs.C11CompassA
