/-
  C10, local layer: closed form of the program emitted by `connectedCrossable` on a fresh frame, the
  meaning of its per-point constraints (degree rules + forced values of the auxiliary Booleans) and the
  activity list handed to `activeVerticesConnected`.
-/
import CspuzModel.Spec.C10Spec
import CspuzModel.Proofs.EvalLemmas
import CspuzModel.Proofs.C14
import CspuzModel.Proofs.C10Cross
namespace Cspuz.Proofs.C10L1
open Cspuz Cspuz.Spec Cspuz.Proofs Cspuz.Spec.FrameGeom

/-! ### list helpers -/

/-- The lattice points in the loop order of the generator. -/
def cells (H W : Nat) : List (Nat × Nat) :=
  (List.range (H + 1)).flatMap fun y => (List.range (W + 1)).map fun x => (y, x)

theorem mem_cells {H W : Nat} {yx : Nat × Nat} : yx ∈ cells H W ↔ yx.1 ≤ H ∧ yx.2 ≤ W := by
  obtain ⟨y, x⟩ := yx
  simp only [cells, List.mem_flatMap, List.mem_map, List.mem_range, Prod.mk.injEq]
  constructor
  · rintro ⟨a, ha, b, hb, rfl, rfl⟩; omega
  · rintro ⟨h1, h2⟩; exact ⟨y, by omega, x, by omega, rfl, rfl⟩

theorem cells_flatMap {α : Type} (H W : Nat) (F : Nat → List α) :
    (cells H W).flatMap (fun yx => F (yx.1 * (W + 1) + yx.2)) =
      (List.range ((H + 1) * (W + 1))).flatMap F := by
  rw [C14.range_mul]
  simp only [cells, List.flatMap_assoc, List.flatMap_map]

theorem cells_map {α : Type} (H W : Nat) (F : Nat → α) :
    (cells H W).map (fun yx => F (yx.1 * (W + 1) + yx.2)) =
      (List.range ((H + 1) * (W + 1))).map F := by
  rw [C14.range_mul]
  simp only [cells, List.map_flatMap, List.map_map, Function.comp_def]

theorem length_flatMap3 {α β : Type} (l : List β) (a b c : β → α) :
    (l.flatMap fun t => [a t, b t, c t]).length = l.length * 3 := by
  induction l with
  | nil => rfl
  | cons t l ih => simp only [List.flatMap_cons, List.length_append, ih, List.length_cons, List.length_nil]; omega

theorem getElem?_flatMap3 {α β : Type} (a b c : β → α) :
    ∀ (l : List β) (i k : Nat) (hi : i < l.length), k < 3 →
      (l.flatMap fun t => [a t, b t, c t])[i * 3 + k]? =
        some (if k = 0 then a l[i] else if k = 1 then b l[i] else c l[i])
  | [], i, k, hi, _ => by simp at hi
  | t :: l, 0, k, _, hk => by
    have hk' : k = 0 ∨ k = 1 ∨ k = 2 := by omega
    rcases hk' with rfl | rfl | rfl <;> simp
  | t :: l, i + 1, k, hi, hk => by
    have e : (i + 1) * 3 + k = (i * 3 + k) + 3 := by omega
    rw [List.flatMap_cons, e, List.getElem?_append_right (by simp)]
    simp only [List.length_cons, List.length_nil, Nat.add_sub_cancel]
    rw [getElem?_flatMap3 a b c l i k (by simpa using hi) hk]
    simp

/-! ### `truthAt` on blocks of fresh variables -/

theorem truthAt_bvars (σ : Asg) (b n i : Nat) :
    truthAt σ (bvars b n) i = (decide (i < n) && σ.b (b + i)) := by
  unfold truthAt
  by_cases h : i < n
  · rw [C14.bvars_getElem? b n i h]
    simp only [eval_bvar, h, decide_true, Bool.true_and]
    cases σ.b (b + i) <;> rfl
  · have : (bvars b n)[i]? = none := by
      rw [List.getElem?_eq_none]; simp [bvars]; omega
    rw [this]; simp [h]

theorem segActive_h (H W : Nat) (σ : Asg) {y x : Nat} (hy : y ≤ H) (hx : x < W) :
    segActive (Frame.fresh 0 H W) σ (.h y x) = σ.b (y * W + x) := by
  have := C14.mul_add_lt (h := H + 1) (w := W) (y := y) (x := x) (by omega) hx
  show truthAt σ (bvars 0 ((H + 1) * W)) (y * W + x) = _
  rw [truthAt_bvars, decide_eq_true this, Bool.true_and, Nat.zero_add]

theorem segActive_v (H W : Nat) (σ : Asg) {y x : Nat} (hy : y < H) (hx : x ≤ W) :
    segActive (Frame.fresh 0 H W) σ (.v y x) = σ.b ((H + 1) * W + (y * (W + 1) + x)) := by
  have := C14.mul_add_lt (h := H) (w := W + 1) (y := y) (x := x) hy (by omega)
  show truthAt σ (bvars (0 + (H + 1) * W) (H * (W + 1))) (y * (W + 1) + x) = _
  rw [truthAt_bvars, decide_eq_true this, Bool.true_and, Nat.zero_add]

/-- The active segments only depend on the frame's own variables. -/
theorem segActive_congr (H W : Nat) {σ σ' : Asg} (h : AgreeBelow (Frame.numVars H W) σ σ') :
    segActive (Frame.fresh 0 H W) σ = segActive (Frame.fresh 0 H W) σ' := by
  funext s
  cases s with
  | h y x =>
    show truthAt σ (bvars 0 ((H + 1) * W)) (y * W + x) = truthAt σ' (bvars 0 ((H + 1) * W)) (y * W + x)
    rw [truthAt_bvars, truthAt_bvars]
    by_cases hi : y * W + x < (H + 1) * W
    · rw [(h (0 + (y * W + x)) (by unfold Frame.numVars; omega)).1]
    · simp [hi]
  | v y x =>
    show truthAt σ (bvars (0 + (H + 1) * W) (H * (W + 1))) (y * (W + 1) + x) =
      truthAt σ' (bvars (0 + (H + 1) * W) (H * (W + 1))) (y * (W + 1) + x)
    rw [truthAt_bvars, truthAt_bvars]
    by_cases hi : y * (W + 1) + x < H * (W + 1)
    · rw [(h (0 + (H + 1) * W + (y * (W + 1) + x)) (by unfold Frame.numVars; omega)).1]
    · simp [hi]

/-! ### the degree expression -/

/-- The expression `count_true(frame.vertex_neighbors(y, x))`. -/
def dE (H W y x : Nat) : Expr := countTrueE ((pointSegs H W y x).map (C14.segExpr 0 H W))

theorem count_ite (c : Prop) [Decidable c] (b : Bool) :
    ((if c then [b] else []).count true) = if c ∧ b = true then 1 else 0 := by
  by_cases h : c
  · cases b <;> simp [h]
  · simp [h]

theorem ite_and_congr {c a b : Prop} [Decidable c] [Decidable a] [Decidable b] (h : c → (a ↔ b)) :
    (if c ∧ a then 1 else 0 : Nat) = (if c ∧ b then 1 else 0) := by
  by_cases hc : c
  · have := h hc
    by_cases ha : a
    · rw [if_pos ⟨hc, ha⟩, if_pos ⟨hc, this.1 ha⟩]
    · rw [if_neg (fun h => ha h.2), if_neg (fun h => ha (this.2 h.2))]
  · rw [if_neg (fun h => hc h.1), if_neg (fun h => hc h.1)]

theorem eval_dE (H W : Nat) (σ : Asg) {y x : Nat} (hy : y ≤ H) (hx : x ≤ W) :
    eval σ (dE H W y x) =
      some (.i ((pointDegree H W (segActive (Frame.fresh 0 H W) σ) y x : Nat) : Int)) := by
  unfold dE
  rw [eval_countTrueE ((pointSegs H W y x).map fun s => σ.b (s.var 0 H W))
    (by simp only [List.map_map]; apply List.map_congr_left; intro s _; simp [C14.segExpr])]
  congr 3
  unfold pointSegs pointDegree
  simp only [List.map_append, List.count_append, apply_ite (List.map _), List.map_cons, List.map_nil,
    count_ite, gt_iff_lt]
  congr 1
  · congr 1
    · congr 1
      · apply ite_and_congr
        intro h
        rw [segActive_v H W σ (by omega) hx]
        simp only [Seg.var, Nat.zero_add, Nat.add_assoc]
      · apply ite_and_congr
        intro h
        rw [segActive_v H W σ h hx]
        simp only [Seg.var, Nat.zero_add, Nat.add_assoc]
    · apply ite_and_congr
      intro h
      rw [segActive_h H W σ hy (by omega)]
      simp only [Seg.var, Nat.zero_add]
  · apply ite_and_congr
    intro h
    rw [segActive_h H W σ hy h]
    simp only [Seg.var, Nat.zero_add]

/-! ### the per-point constraints -/

section
variable (H W base : Nat) (sc : Bool)

/-- Variable ids of the five auxiliary Boolean arrays. -/
def vP (y x : Nat) : Nat := base + y * (W + 1) + x
def vC (y x : Nat) : Nat := base + (H + 1) * (W + 1) + y * (W + 1) + x
def vS (y x : Nat) : Nat := base + 2 * ((H + 1) * (W + 1)) + y * (W + 1) + x
def vDH (y x : Nat) : Nat := base + 3 * ((H + 1) * (W + 1)) + y * (W + 1) + x
def vDV (y x : Nat) : Nat := base + 4 * ((H + 1) * (W + 1)) + y * (W + 1) + x

/-- The block `per` of the generator at one lattice point; `D y x` is the degree expression
`count_true(frame.vertex_neighbors(y, x))` (`dE H W` on the fresh frame). -/
def perF (D : Nat → Nat → Expr) (yx : Nat × Nat) : List Expr :=
  (if (yx.1 == 0 || yx.1 == H || yx.2 == 0 || yx.2 == W) = true then
      [Expr.node .not [.bvar (vC H W base yx.1 yx.2)]] else []) ++
    [Expr.node .imp [.node .not [.bvar (vP W base yx.1 yx.2)], .node .eq [D yx.1 yx.2, .litI 0]],
     Expr.node .imp [.node .and [.bvar (vP W base yx.1 yx.2), .bvar (vC H W base yx.1 yx.2)],
        .node .eq [D yx.1 yx.2, .litI 4]]] ++
  if sc = true then
    [Expr.node .imp [.node .and [.bvar (vP W base yx.1 yx.2), .node .not [.bvar (vC H W base yx.1 yx.2)]],
        .node .eq [D yx.1 yx.2, .litI 2]]]
  else
    [Expr.node .imp [.node .and [.bvar (vP W base yx.1 yx.2), .node .not [.bvar (vC H W base yx.1 yx.2)]],
        .node .ge [D yx.1 yx.2, .litI 1]],
     Expr.node .imp [.node .and [.bvar (vP W base yx.1 yx.2), .node .not [.bvar (vC H W base yx.1 yx.2)]],
        .node .le [D yx.1 yx.2, .litI 2]]]

/-- All local constraints, in emission order. -/
def localCs (D : Nat → Nat → Expr) : List Expr :=
  (cells H W).map (fun yx => Expr.node .imp [.bvar (vC H W base yx.1 yx.2), .bvar (vP W base yx.1 yx.2)]) ++
    ((cells H W).map (perF H W base sc D)).flatten ++
    (cells H W).map (fun yx => Expr.node .iff [.bvar (vS H W base yx.1 yx.2),
      .node .and [.bvar (vP W base yx.1 yx.2), .node .not [.bvar (vC H W base yx.1 yx.2)]]]) ++
    (cells H W).map (fun yx => Expr.node .iff [.bvar (vDH H W base yx.1 yx.2), .bvar (vC H W base yx.1 yx.2)]) ++
    (cells H W).map (fun yx => Expr.node .iff [.bvar (vDV H W base yx.1 yx.2), .bvar (vC H W base yx.1 yx.2)])

/-- The activity list handed to `activeVerticesConnected`. -/
def gv : List Expr :=
  ((List.range ((H + 1) * (W + 1))).flatMap fun i =>
      [Expr.bvar (base + 2 * ((H + 1) * (W + 1)) + i), Expr.bvar (base + 3 * ((H + 1) * (W + 1)) + i),
        Expr.bvar (base + 4 * ((H + 1) * (W + 1)) + i)]) ++
    (Frame.fresh 0 H W).vertical.data ++ (Frame.fresh 0 H W).horizontal.data

theorem per_step {α : Type} {yx : Nat × Nat} (hm : yx ∈ cells H W) (K : Expr → Py α) :
    ((Frame.fresh 0 H W).vertexNeighbors ↑yx.1 ↑yx.2 >>= fun nb => countTrue nb >>= K) =
      K (dE H W yx.1 yx.2) := by
  obtain ⟨h1, h2⟩ := mem_cells.1 hm
  rw [C14.vertex_fresh, if_pos (by omega)]
  simp only [ok_bind, Int.toNat_natCast]
  rw [countTrue_ok_of_boolLike (by
    intro e he
    obtain ⟨s, -, rfl⟩ := List.mem_map.1 he
    rfl)]
  rfl

theorem v_step {yx : Nat × Nat}
    (hyx : yx ∈ (List.range H).flatMap fun y => (List.range (W + 1)).map fun x => (y, x)) :
    (Frame.fresh 0 H W).vertical.get ↑yx.1 ↑yx.2 = .ok (C14.segExpr 0 H W (.v yx.1 yx.2)) := by
  simp only [List.mem_flatMap, List.mem_map, List.mem_range] at hyx
  obtain ⟨a, ha, b, hb, rfl⟩ := hyx
  exact C14.fresh_v 0 H W a b ha (by omega)

theorem h_step {yx : Nat × Nat}
    (hyx : yx ∈ (List.range (H + 1)).flatMap fun y => (List.range W).map fun x => (y, x)) :
    (Frame.fresh 0 H W).horizontal.get ↑yx.1 ↑yx.2 = .ok (C14.segExpr 0 H W (.h yx.1 yx.2)) := by
  simp only [List.mem_flatMap, List.mem_map, List.mem_range] at hyx
  obtain ⟨a, ha, b, hb, rfl⟩ := hyx
  exact C14.fresh_h 0 H W a b (by omega) hb

theorem vlist_eq :
    ((List.range H).flatMap fun y => (List.range (W + 1)).map fun x => (y, x)).map
        (fun yx : Nat × Nat => C14.segExpr 0 H W (.v yx.1 yx.2)) = (Frame.fresh 0 H W).vertical.data := by
  rw [C14.fresh_vertical]
  simp only [vSegs, List.map_flatMap, List.map_map, Function.comp_def]

theorem hlist_eq :
    ((List.range (H + 1)).flatMap fun y => (List.range W).map fun x => (y, x)).map
        (fun yx : Nat × Nat => C14.segExpr 0 H W (.h yx.1 yx.2)) = (Frame.fresh 0 H W).horizontal.data := by
  rw [C14.fresh_horizontal]
  simp only [hSegs, List.map_flatMap, List.map_map, Function.comp_def]

theorem gvPts_eq : (List.flatMap (fun yx : Nat × Nat =>
        [Expr.bvar (base + 2 * ((H + 1) * (W + 1)) + yx.1 * (W + 1) + yx.2),
          Expr.bvar (base + 3 * ((H + 1) * (W + 1)) + yx.1 * (W + 1) + yx.2),
          Expr.bvar (base + 4 * ((H + 1) * (W + 1)) + yx.1 * (W + 1) + yx.2)]) (cells H W)) =
      (List.range ((H + 1) * (W + 1))).flatMap fun i =>
        [Expr.bvar (base + 2 * ((H + 1) * (W + 1)) + i), Expr.bvar (base + 3 * ((H + 1) * (W + 1)) + i),
          Expr.bvar (base + 4 * ((H + 1) * (W + 1)) + i)] := by
  rw [← cells_flatMap]
  simp only [Nat.add_assoc]

theorem ps_eq : (cells H W).map (fun yx => Expr.bvar (base + yx.1 * (W + 1) + yx.2)) =
    (List.range ((H + 1) * (W + 1))).map (fun i => Expr.bvar (base + i)) := by
  rw [← cells_map]
  simp only [Nat.add_assoc]

theorem cr_eq : (cells H W).map (fun yx => Expr.bvar (base + (H + 1) * (W + 1) + yx.1 * (W + 1) + yx.2)) =
    (List.range ((H + 1) * (W + 1))).map (fun i => Expr.bvar (base + (H + 1) * (W + 1) + i)) := by
  rw [← cells_map]
  simp only [Nat.add_assoc]

/-- Closed form of the generator on a fresh frame. -/
theorem cc_ok {prim : Bool} {p : Prog} {ps cr : List Expr}
    (h : connectedCrossable (Frame.fresh 0 H W) sc prim base = .ok (p, ps, cr)) :
    ∃ avc, activeVerticesConnected (crossGraph (H + 1) (W + 1)) (gv H W base)
        (base + 5 * ((H + 1) * (W + 1))) false prim = .ok avc ∧
      p = { decls := List.replicate (5 * ((H + 1) * (W + 1))) .bool ++ avc.decls,
            cs := localCs H W base sc (dE H W) ++ avc.cs } ∧
      ps = (List.range ((H + 1) * (W + 1))).map (fun i => Expr.bvar (base + i)) ∧
      cr = (List.range ((H + 1) * (W + 1))).map (fun i => Expr.bvar (base + (H + 1) * (W + 1) + i)) := by
  have eH : (Frame.fresh 0 H W).height = H := rfl
  have eW : (Frame.fresh 0 H W).width = W := rfl
  simp only [connectedCrossable, eH, eW, Nat.add_sub_cancel] at h
  obtain ⟨per, hper, h1⟩ := bind_eq_ok.1 h
  obtain ⟨gvV, hV, h2⟩ := bind_eq_ok.1 h1
  obtain ⟨gvH, hH, h3⟩ := bind_eq_ok.1 h2
  obtain ⟨avc, havc, h4⟩ := bind_eq_ok.1 h3
  clear h h1 h2 h3
  -- the three `mapM`s
  have hper' : per = (cells H W).map (perF H W base sc (dE H W)) := by
    rw [mapM_eq_ok_map (g := perF H W base sc (dE H W))] at hper
    · exact (Except.ok.inj hper).symm
    · intro yx hyx
      exact per_step H W hyx _
  have hV' : gvV = (Frame.fresh 0 H W).vertical.data := by
    rw [mapM_eq_ok_map (g := fun yx => C14.segExpr 0 H W (.v yx.1 yx.2))] at hV
    · rw [← Except.ok.inj hV, vlist_eq]
    · intro yx hyx
      exact v_step H W hyx
  have hH' : gvH = (Frame.fresh 0 H W).horizontal.data := by
    rw [mapM_eq_ok_map (g := fun yx => C14.segExpr 0 H W (.h yx.1 yx.2))] at hH
    · rw [← Except.ok.inj hH, hlist_eq]
    · intro yx hyx
      exact h_step H W hyx
  subst hper' hV' hH'
  refine ⟨avc, ?_, ?_, ?_, ?_⟩
  · rw [← havc]
    unfold gv
    rw [← gvPts_eq]
    rfl
  · have := Except.ok.inj h4
    simp only [Prod.mk.injEq] at this
    rw [← this.1]
    rfl
  · have := Except.ok.inj h4
    simp only [Prod.mk.injEq] at this
    rw [← this.2.1]
    exact ps_eq H W base
  · have := Except.ok.inj h4
    simp only [Prod.mk.injEq] at this
    rw [← this.2.2]
    exact cr_eq H W base

/-- Conversely: the generator succeeds as soon as the connectivity generator does. -/
theorem cc_of_avc {prim : Bool} {avc : Prog}
    (havc : activeVerticesConnected (crossGraph (H + 1) (W + 1)) (gv H W base)
        (base + 5 * ((H + 1) * (W + 1))) false prim = .ok avc) :
    ∃ r, connectedCrossable (Frame.fresh 0 H W) sc prim base = .ok r := by
  have eH : (Frame.fresh 0 H W).height = H := rfl
  have eW : (Frame.fresh 0 H W).width = W := rfl
  simp only [connectedCrossable, eH, eW, Nat.add_sub_cancel]
  refine ⟨_, bind_eq_ok.2 ⟨_, mapM_eq_ok_map (g := perF H W base sc (dE H W)) (fun yx hyx => per_step H W hyx _),
    bind_eq_ok.2 ⟨_, mapM_eq_ok_map (g := fun yx => C14.segExpr 0 H W (.v yx.1 yx.2))
        (fun yx hyx => v_step H W hyx),
      bind_eq_ok.2 ⟨_, mapM_eq_ok_map (g := fun yx => C14.segExpr 0 H W (.h yx.1 yx.2))
          (fun yx hyx => h_step H W hyx),
        bind_eq_ok.2 ⟨avc, ?_, rfl⟩⟩⟩⟩⟩
  rw [← havc, vlist_eq, hlist_eq]
  unfold gv
  rw [← gvPts_eq]
  rfl

/-! ### meaning of the local constraints -/

/-- All constraints about one lattice point. -/
def ptAll (D : Nat → Nat → Expr) (yx : Nat × Nat) : List Expr :=
  Expr.node .imp [.bvar (vC H W base yx.1 yx.2), .bvar (vP W base yx.1 yx.2)] :: perF H W base sc D yx ++
   [Expr.node .iff [.bvar (vS H W base yx.1 yx.2),
      .node .and [.bvar (vP W base yx.1 yx.2), .node .not [.bvar (vC H W base yx.1 yx.2)]]],
    Expr.node .iff [.bvar (vDH H W base yx.1 yx.2), .bvar (vC H W base yx.1 yx.2)],
    Expr.node .iff [.bvar (vDV H W base yx.1 yx.2), .bvar (vC H W base yx.1 yx.2)]]

theorem mem_localCs (D : Nat → Nat → Expr) {c : Expr} :
    c ∈ localCs H W base sc D ↔ ∃ yx, yx ∈ cells H W ∧ c ∈ ptAll H W base sc D yx := by
  simp only [localCs, ptAll, List.mem_append, List.mem_map, List.mem_flatten, List.mem_cons,
    List.not_mem_nil, or_false]
  constructor
  · rintro ((((⟨yx, h, rfl⟩ | ⟨l, ⟨yx, h, rfl⟩, hc⟩) | ⟨yx, h, rfl⟩) | ⟨yx, h, rfl⟩) | ⟨yx, h, rfl⟩)
    · exact ⟨yx, h, Or.inl (Or.inl rfl)⟩
    · exact ⟨yx, h, Or.inl (Or.inr hc)⟩
    · exact ⟨yx, h, Or.inr (Or.inl rfl)⟩
    · exact ⟨yx, h, Or.inr (Or.inr (Or.inl rfl))⟩
    · exact ⟨yx, h, Or.inr (Or.inr (Or.inr rfl))⟩
  · rintro ⟨yx, h, (rfl | hc) | rfl | rfl | rfl⟩
    · exact Or.inl (Or.inl (Or.inl (Or.inl ⟨yx, h, rfl⟩)))
    · exact Or.inl (Or.inl (Or.inl (Or.inr ⟨_, ⟨yx, h, rfl⟩, hc⟩)))
    · exact Or.inl (Or.inl (Or.inr ⟨yx, h, rfl⟩))
    · exact Or.inl (Or.inr ⟨yx, h, rfl⟩)
    · exact Or.inr ⟨yx, h, rfl⟩

end

/-- The Boolean content of the constraints at one point (`bd`: the point is on the outer border). -/
def PtOK (sc bd P C S DH DV : Bool) (d : Nat) : Prop :=
  (C = true → P = true) ∧ (bd = true → C = false) ∧ (P = false → d = 0) ∧ (P = true → C = true → d = 4) ∧
  (P = true → C = false → if sc = true then d = 2 else (1 ≤ d ∧ d ≤ 2)) ∧ S = (P && !C) ∧ DH = C ∧ DV = C

theorem ptok_iff (sc bd P C S DH DV : Bool) (d : Nat) :
    PtOK sc bd P C S DH DV d ↔
      ((d = 0 ∨ (sc = false ∧ d = 1) ∨ d = 2 ∨ d = 4) ∧ (d = 4 → bd = false)) ∧
      (P = decide (0 < d) ∧ C = decide (d = 4) ∧ S = decide (0 < d ∧ d ≠ 4) ∧ DH = decide (d = 4) ∧
        DV = decide (d = 4)) := by
  unfold PtOK
  constructor
  · rintro ⟨h1, h2, h3, h4, h5, hS, hDH, hDV⟩
    rw [hS, hDH, hDV]
    cases P <;> cases C <;> cases sc <;> cases bd <;> simp at h1 h2 h3 h4 h5 ⊢ <;> omega
  · rintro ⟨⟨h1, h2⟩, hP, hC, hS, hDH, hDV⟩
    rw [hP, hC, hS, hDH, hDV]
    cases sc <;> cases bd <;> simp at h1 h2 ⊢ <;> omega

theorem pt_eval (H W base : Nat) (sc : Bool) (D : Nat → Nat → Expr) (σ' : Asg) (y x d : Nat)
    (hd : eval σ' (D y x) = some (.i (d : Int))) :
    (∀ c ∈ ptAll H W base sc D (y, x), eval σ' c = some (.b true)) ↔
      PtOK sc (y == 0 || y == H || x == 0 || x == W) (σ'.b (vP W base y x)) (σ'.b (vC H W base y x))
        (σ'.b (vS H W base y x)) (σ'.b (vDH H W base y x)) (σ'.b (vDV H W base y x)) d := by
  unfold ptAll perF PtOK
  generalize (y == 0 || y == H || x == 0 || x == W) = bd
  have e4 : ((d : Int) = 4) ↔ d = 4 := by omega
  have e2 : ((d : Int) = 2) ↔ d = 2 := by omega
  cases sc <;> cases bd <;>
  simp [eval_node, eval_bvar, evalOp, allBools, allInts, cmpOp, hd, e4, e2] <;>
  generalize σ'.b (vP W base y x) = P <;>
  generalize σ'.b (vC H W base y x) = C <;>
  generalize σ'.b (vS H W base y x) = S <;>
  generalize σ'.b (vDH H W base y x) = DH <;>
  generalize σ'.b (vDV H W base y x) = DV <;>
  cases P <;> cases C <;> simp [and_assoc]

/-- The values the local constraints force on the five auxiliary arrays. -/
def Forced (H W base : Nat) (act : LSeg → Bool) (σ' : Asg) : Prop :=
  ∀ y x, y ≤ H → x ≤ W →
    σ'.b (vP W base y x) = decide (0 < pointDegree H W act y x) ∧
    σ'.b (vC H W base y x) = decide (pointDegree H W act y x = 4) ∧
    σ'.b (vS H W base y x) = decide (0 < pointDegree H W act y x ∧ pointDegree H W act y x ≠ 4) ∧
    σ'.b (vDH H W base y x) = decide (pointDegree H W act y x = 4) ∧
    σ'.b (vDV H W base y x) = decide (pointDegree H W act y x = 4)

theorem border_false {H W y x : Nat} (hy : y ≤ H) (hx : x ≤ W) :
    (y == 0 || y == H || x == 0 || x == W) = false ↔ (0 < y ∧ y < H ∧ 0 < x ∧ x < W) := by
  simp only [Bool.or_eq_false_iff, beq_eq_false_iff_ne, ne_eq]
  omega

/-- (A), for any degree expressions `D` that evaluate to the point degrees of `act`: the local
constraints hold iff the degree rules hold and the auxiliary arrays carry the forced values. -/
theorem local_iff_gen (H W base : Nat) (sc : Bool) (D : Nat → Nat → Expr) (act : LSeg → Bool) (σ' : Asg)
    (hD : ∀ y x, y ≤ H → x ≤ W → eval σ' (D y x) = some (.i ((pointDegree H W act y x : Nat) : Int))) :
    (∀ c ∈ localCs H W base sc D, eval σ' c = some (.b true)) ↔
      DegreeRules H W act sc ∧ Forced H W base act σ' := by
  have key : (∀ c ∈ localCs H W base sc D, eval σ' c = some (.b true)) ↔
      ∀ y x, y ≤ H → x ≤ W →
        PtOK sc (y == 0 || y == H || x == 0 || x == W) (σ'.b (vP W base y x)) (σ'.b (vC H W base y x))
          (σ'.b (vS H W base y x)) (σ'.b (vDH H W base y x)) (σ'.b (vDV H W base y x))
          (pointDegree H W act y x) := by
    constructor
    · intro h y x hy hx
      rw [← pt_eval H W base sc D σ' y x _ (hD y x hy hx)]
      intro c hc
      exact h c ((mem_localCs H W base sc D).2 ⟨(y, x), mem_cells.2 ⟨hy, hx⟩, hc⟩)
    · intro h c hc
      obtain ⟨⟨y, x⟩, hm, hc⟩ := (mem_localCs H W base sc D).1 hc
      obtain ⟨hy, hx⟩ := mem_cells.1 hm
      exact (pt_eval H W base sc D σ' y x _ (hD y x hy hx)).2 (h y x hy hx) c hc
  rw [key]
  constructor
  · intro h
    refine ⟨fun y x hy hx => ?_, fun y x hy hx => ?_⟩
    · have := ((ptok_iff _ _ _ _ _ _ _ _).1 (h y x hy hx)).1
      exact ⟨this.1, fun h4 => (border_false hy hx).1 (this.2 h4)⟩
    · exact ((ptok_iff _ _ _ _ _ _ _ _).1 (h y x hy hx)).2
  · rintro ⟨h1, h2⟩ y x hy hx
    have := h1 y x hy hx
    exact (ptok_iff _ _ _ _ _ _ _ _).2 ⟨⟨this.1, fun h4 => (border_false hy hx).2 (this.2 h4)⟩, h2 y x hy hx⟩

/-- (A) on the fresh frame. -/
theorem local_iff (H W base : Nat) (sc : Bool) (σ' : Asg) :
    (∀ c ∈ localCs H W base sc (dE H W), eval σ' c = some (.b true)) ↔
      DegreeRules H W (segActive (Frame.fresh 0 H W) σ') sc ∧
      Forced H W base (segActive (Frame.fresh 0 H W) σ') σ' :=
  local_iff_gen H W base sc (dE H W) _ σ' (fun _ _ hy hx => eval_dE H W σ' hy hx)

end Cspuz.Proofs.C10L1
