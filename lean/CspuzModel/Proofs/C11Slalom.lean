/-
  C11 for `solve_slalom`: the posted program encodes the published rules.
-/
import CspuzModel.Proofs.C11SlalomB
import CspuzModel.Proofs.C11SlalomW
import CspuzModel.Proofs.C11LoopExt
namespace Cspuz.Proofs.C11Slalom
open Cspuz Cspuz.Spec Cspuz.Spec.FrameGeom Cspuz.Spec.Loop Cspuz.Proofs Cspuz.Proofs.C11Loop
open Cspuz.Puzzles Cspuz.Puzzles.Loop Cspuz.Puzzles.Slalom Cspuz.Spec.Slalom Cspuz.Proofs.C11SlalomP
open Cspuz.Proofs.C11SlalomS Cspuz.Proofs.C11SlalomG Cspuz.Proofs.C11SlalomT Cspuz.Proofs.C11SlalomD
open Cspuz.Proofs.C11SlalomA Cspuz.Proofs.C11SlalomB
open Cspuz.Proofs.C14 (var_range)

/-! ### the cycle fragment with its auxiliary variables after both frames -/

theorem cycProg_varsBelow (H W base : Nat) (hb : Frame.numVars H W ≤ base) :
    ∀ c ∈ (C06L1.cycProg (lg H W) (les H W) base).cs, c.varsBelow (base + 3 * ((H + 1) * (W + 1))) = true := by
  intro c hc
  have hn : (lg H W).n = (H + 1) * (W + 1) := rfl
  have hie : ∀ j, ((les H W).getD j .litNone).varsBelow (base + 3 * ((H + 1) * (W + 1))) = true := by
    intro j
    by_cases hj : j < (les H W).length
    · rw [C06L1.getD_eq hj]
      exact C11Frag.varsBelow_mono (by omega) _ ((les_boolArgs H W) _ (List.getElem_mem hj)).2
    · simp [List.getD, List.getElem?_eq_none (by omega : (les H W).length ≤ j), Expr.varsBelow]
  simp only [C06L1.cycProg, List.mem_append, List.mem_flatten, List.mem_map, List.mem_range,
    List.mem_singleton] at hc
  rcases hc with ⟨l, ⟨i, hi, rfl⟩, hc⟩ | rfl
  · simp only [C06L1.cycCs, List.mem_cons, List.not_mem_nil, or_false] at hc
    rw [hn] at hi
    have hdeg : ∀ x ∈ C06L1.degArgs (lg H W) (les H W) i, x.varsBelow (base + 3 * ((H + 1) * (W + 1))) = true := by
      intro x hx
      simp only [C06L1.degArgs, List.mem_map] at hx
      obtain ⟨je, _, rfl⟩ := hx
      exact hie je.2
    rcases hc with rfl | rfl
    · simp only [Expr.varsBelow, Expr.varsBelow.varsBelowList, C06L1.degE, C11LoopExt.vb_countTrueE _ _ hdeg, Bool.and_true,
        Bool.true_and, decide_eq_true_eq]
      omega
    · have hit : ∀ x ∈ C06L1.itemsE (lg H W) (les H W) base i,
          x.varsBelow (base + 3 * ((H + 1) * (W + 1))) = true := by
        intro x hx
        simp only [C06L1.itemsE, List.mem_map] at hx
        obtain ⟨je, hje, rfl⟩ := hx
        have hb := incident_bounds (lg_wf H W) hje
        rw [hn] at hb
        have h' : ((les H W)[je.2]?.getD Expr.litNone).varsBelow (base + 3 * ((H + 1) * (W + 1))) = true := hie je.2
        simp only [Expr.varsBelow, Expr.varsBelow.varsBelowList, Bool.and_true, Bool.and_eq_true, decide_eq_true_eq, hn]
        exact ⟨h', by omega, by omega⟩
      simp only [Expr.varsBelow, Expr.varsBelow.varsBelowList, C11LoopExt.vb_countTrueE _ _ hit, Bool.and_true,
        Bool.true_and, Bool.and_eq_true, decide_eq_true_eq, hn]
      omega
  · have : ∀ x ∈ (List.range (lg H W).n).map (fun i => Expr.bvar (base + 2 * (lg H W).n + i)),
        x.varsBelow (base + 3 * ((H + 1) * (W + 1))) = true := by
      intro x hx
      simp only [List.mem_map, List.mem_range] at hx
      obtain ⟨i, hi, rfl⟩ := hx
      rw [hn] at hi ⊢
      simp only [Expr.varsBelow, decide_eq_true_eq]
      omega
    simp only [Expr.varsBelow, Expr.varsBelow.varsBelowList, C11LoopExt.vb_countTrueE _ _ this, Bool.and_true]

section
variable (pb : Problem)

local notation "HH" => pb.height - 1
local notation "WW" => pb.width - 1
local notation "NV" => Frame.numVars (pb.height - 1) (pb.width - 1)

theorem cyc2_facts (σ : Asg) :
    (Realizable (2 * NV) (cyc2 pb) σ ↔ IsLoop HH WW (onOf HH WW σ)) := by
  have h := Cspuz.C06.C06_cycle_aux (lg HH WW) (les HH WW) (2 * NV) _ _ σ (lg_wf HH WW) (lg_loopFree HH WW)
    (les_len HH WW) (les_boolArgs2 pb) (singleCycle_eq2 pb)
  exact h.2.1.trans (isLoop_iff HH WW σ)

theorem loop_of_sat2 (σ : Asg) (hs : SatFrag (2 * NV) (cyc2 pb) σ) : IsLoop HH WW (onOf HH WW σ) :=
  (cyc2_facts pb σ).mp ⟨σ, AgreeBelow.refl _ σ, hs⟩

theorem cyc2_varsBelow : ∀ c ∈ (cyc2 pb).cs, c.varsBelow (b1 pb) = true :=
  cycProg_varsBelow HH WW (2 * NV) (by omega)

theorem b1_eq : b1 pb = 2 * NV + (cyc2 pb).decls.length := by
  rw [cyc2_decls_length]; rfl

/-- A model of the whole program = a model of the cycle fragment whose `gate_ord` values are in range and which
satisfies the remaining constraints. -/
theorem sat_iff (σ : Asg) :
    Sat (decls pb) ((cyc2 pb).cs ++ extra pb) σ ↔
      (SatFrag (2 * NV) (cyc2 pb) σ ∧
       (∀ k, k < pb.height * pb.width → 0 ≤ σ.i (b1 pb + k) ∧ σ.i (b1 pb + k) ≤ (pb.gates.length : Int)) ∧
       ∀ c ∈ extra pb, eval σ c = some (.b true)) := by
  have hb := b1_eq pb
  have hlen1 : (List.replicate (2 * NV) VarDecl.bool).length = 2 * NV := List.length_replicate
  have hlen2 : (List.replicate (2 * NV) VarDecl.bool ++ (cyc2 pb).decls).length = b1 pb := by
    rw [List.length_append, hlen1, hb]
  unfold Sat SatFrag Asg.respects decls
  constructor
  · rintro ⟨hr, hc⟩
    refine ⟨⟨?_, fun c hc' => hc c (List.mem_append_left _ hc')⟩, ?_, fun c hc' => hc c (List.mem_append_right _ hc')⟩
    · intro k lo hi hk
      apply hr (2 * NV + k) lo hi
      have hk' : k < (cyc2 pb).decls.length := by
        rcases Nat.lt_or_ge k (cyc2 pb).decls.length with h | h
        · exact h
        · rw [List.getElem?_eq_none h] at hk; cases hk
      rw [List.append_assoc, List.append_assoc, List.getElem?_append_right (by rw [hlen1]; omega), hlen1,
        Nat.add_sub_cancel_left, List.getElem?_append_left hk']
      exact hk
    · intro k hk
      apply hr (b1 pb + k) 0 (pb.gates.length : Int)
      rw [List.getElem?_append_left (by rw [List.length_append, hlen2, List.length_replicate]; omega),
        List.getElem?_append_right (by rw [hlen2]; omega), hlen2, Nat.add_sub_cancel_left, List.getElem?_replicate,
        if_pos hk]
  · rintro ⟨⟨hr, hc1⟩, hord, hc2⟩
    refine ⟨?_, ?_⟩
    · intro id lo hi hd
      by_cases h1 : id < 2 * NV
      · rw [List.append_assoc, List.append_assoc, List.getElem?_append_left (by rw [hlen1]; exact h1),
          List.getElem?_replicate, if_pos h1] at hd
        cases hd
      · by_cases h2 : id < b1 pb
        · rw [List.append_assoc, List.append_assoc, List.getElem?_append_right (by rw [hlen1]; omega), hlen1,
            List.getElem?_append_left (by omega)] at hd
          have := hr (id - 2 * NV) lo hi hd
          rwa [show 2 * NV + (id - 2 * NV) = id by omega] at this
        · by_cases h3 : id < b1 pb + pb.height * pb.width
          · rw [List.getElem?_append_left (by rw [List.length_append, hlen2, List.length_replicate]; exact h3),
              List.getElem?_append_right (by rw [hlen2]; omega), hlen2, List.getElem?_replicate,
              if_pos (by omega)] at hd
            simp only [Option.some.injEq, VarDecl.int.injEq] at hd
            have := hord (id - b1 pb) (by omega)
            rw [show b1 pb + (id - b1 pb) = id by omega] at this
            rw [← hd.1, ← hd.2]; exact this
          · rw [List.getElem?_append_right (by rw [List.length_append, hlen2, List.length_replicate]; omega),
              List.getElem?_replicate] at hd
            split at hd <;> cases hd
    · intro c hc
      rcases List.mem_append.mp hc with h | h
      · exact hc1 c h
      · exact hc2 c h

theorem decls_split : decls pb = List.replicate NV VarDecl.bool ++
    (List.replicate NV VarDecl.bool ++ (cyc2 pb).decls ++
      List.replicate (pb.height * pb.width) (.int 0 (pb.gates.length : Int)) ++ List.replicate (pb.height * pb.width) .bool) := by
  unfold decls
  rw [show 2 * NV = NV + NV by omega, List.replicate_add]
  simp only [List.append_assoc]

theorem seg_var_shift (s : Seg) : s.var NV HH WW = NV + s.var 0 HH WW := by
  cases s <;> simp only [Seg.var] <;> omega

theorem ord_bounds_of_sat (σ : Asg)
    (h : ∀ k, k < pb.height * pb.width → 0 ≤ σ.i (b1 pb + k) ∧ σ.i (b1 pb + k) ≤ (pb.gates.length : Int)) :
    ∀ p : Pt, p.1 < pb.height → p.2 < pb.width → 0 ≤ ordS pb σ p ∧ ordS pb σ p ≤ pb.gates.length :=
  fun _ p1 p2 => h _ (C14.mul_add_lt p1 p2)

/-- SOUNDNESS + COMPLETENESS: the posted program encodes the rules. -/
theorem encodes (hw : WellFormed pb) :
    EncodesRules { decls := decls pb, cs := (cyc2 pb).cs ++ extra pb, keys := List.range NV } (Rules pb) := by
  intro a
  constructor
  · rintro ⟨σ, hσ, hk⟩
    obtain ⟨hfrag, hord, hex⟩ := (sat_iff pb σ).mp hσ
    have hloc := (extra_iff pb σ).mp hex
    have hloop := loop_of_sat2 pb σ hfrag
    refine ⟨onOf HH WW σ, ?_, sound pb σ hw hloc hloop (ord_bounds_of_sat pb σ hord)⟩
    have hk' : (segAnswer HH WW (onOf HH WW σ)).map some = a.map some := by
      rw [← keyVals_frame HH WW _ σ, ← decls_split pb]; exact hk
    exact ((List.map_inj_right (fun _ _ e => Option.some.inj e)).mp hk').symm
  · rintro ⟨on, rfl, hl, hblk, t, ht, hgr⟩
    have h1 := hw.1
    have h2 := hw.2.1
    have hhw : (HH + 1) * (WW + 1) = pb.height * pb.width := by
      rw [Nat.sub_add_cancel h1, Nat.sub_add_cancel h2]
    -- segments and direction bits
    let σ0 : Asg := ⟨fun id =>
      if id < NV then (match (allSegs HH WW)[id]? with | some s => on s | none => false)
      else (match (allSegs HH WW)[id - NV]? with | some s => dirBit t (originN pb) s | none => false), fun _ => 0⟩
    have h0 : ∀ s, s.Valid HH WW → onOf HH WW σ0 s = on s := by
      intro s hs
      have hr := var_range 0 HH WW s hs
      show (if s.var 0 HH WW < NV then (match (allSegs HH WW)[s.var 0 HH WW]? with | some s => on s | none => false)
        else _) = on s
      rw [if_pos (by omega), allSegs_var_getElem? HH WW s hs]
    obtain ⟨σ1, hag, hfrag1⟩ := (cyc2_facts pb σ0).mpr ((isLoop_congr HH WW _ _ h0).mpr hl)
    -- `passed` and `gate_ord`
    let σ : Asg := ⟨fun id => if id < b1 pb then σ1.b id
        else decide (((id - (b1 pb + pb.height * pb.width)) / pb.width, (id - (b1 pb + pb.height * pb.width)) % pb.width) ∈ t),
      fun id => if id < b1 pb then σ1.i id else ordVal pb t ((id - b1 pb) / pb.width, (id - b1 pb) % pb.width)⟩
    have hag' : AgreeBelow (b1 pb) σ1 σ := by
      intro id hid
      exact ⟨by show σ1.b id = if id < b1 pb then σ1.b id else _; rw [if_pos hid],
        by show σ1.i id = if id < b1 pb then σ1.i id else _; rw [if_pos hid]⟩
    have hb1 : 2 * NV ≤ b1 pb := by unfold b1; omega
    have hfrag : SatFrag (2 * NV) (cyc2 pb) σ := by
      refine ⟨?_, ?_⟩
      · intro k lo hi hk
        have hk' : k < (cyc2 pb).decls.length := by
          rcases Nat.lt_or_ge k (cyc2 pb).decls.length with h | h
          · exact h
          · rw [List.getElem?_eq_none h] at hk; cases hk
        have hlt : 2 * NV + k < b1 pb := by rw [b1_eq]; omega
        rw [← (hag' _ hlt).2]
        exact hfrag1.1 k lo hi hk
      · intro c hc
        rw [← eval_congr_of_varsBelow hag' c (cyc2_varsBelow pb c hc)]
        exact hfrag1.2 c hc
    have hB : Built pb σ on t := by
      refine ⟨?_, ?_, ?_, ?_⟩
      · intro s hs
        have hr := var_range 0 HH WW s hs
        have hlt : s.var 0 HH WW < b1 pb := by omega
        show σ.b (s.var 0 HH WW) = on s
        rw [← (hag' _ hlt).1, ← (hag _ (by omega)).1]
        exact h0 s hs
      · intro s hs
        have hr := var_range 0 HH WW s hs
        have hlt : s.var NV HH WW < b1 pb := by rw [seg_var_shift]; omega
        show σ.b (s.var NV HH WW) = dirBit t (originN pb) s
        rw [← (hag' _ hlt).1, ← (hag _ (by rw [seg_var_shift]; omega)).1, seg_var_shift]
        show (if NV + s.var 0 HH WW < NV then _
          else (match (allSegs HH WW)[NV + s.var 0 HH WW - NV]? with | some s => dirBit t (originN pb) s | none => false)) = _
        rw [if_neg (by omega), Nat.add_sub_cancel_left, allSegs_var_getElem? HH WW s hs]
      · intro p p1 p2
        show (if b1 pb + pb.height * pb.width + (p.1 * pb.width + p.2) < b1 pb then _ else _) = _
        rw [if_neg (by omega), Nat.add_sub_cancel_left, (C11Grid.cell_div_mod p2).1, (C11Grid.cell_div_mod p2).2]
      · intro p p1 p2
        show (if b1 pb + (p.1 * pb.width + p.2) < b1 pb then _ else _) = _
        rw [if_neg (by omega), Nat.add_sub_cancel_left, (C11Grid.cell_div_mod p2).1, (C11Grid.cell_div_mod p2).2]
    have hloc : Local pb σ := local_of_rules hw hB hl hblk ht hgr
    refine ⟨σ, (sat_iff pb σ).mpr ⟨hfrag, ?_, (extra_iff pb σ).mpr hloc⟩, ?_⟩
    · intro k hk
      show 0 ≤ (if b1 pb + k < b1 pb then _ else _) ∧ (if b1 pb + k < b1 pb then _ else _) ≤ _
      rw [if_neg (by omega)]
      exact ordVal_bounds hgr ht.2.1 _
    · show (List.range NV).map (valOf (decls pb) σ) = _
      rw [decls_split, keyVals_frame HH WW _ σ]
      congr 1
      apply segAnswer_congr
      intro s hs
      exact hB.hon s hs

/-- C11 for `solve_slalom`. -/
theorem main (hw : WellFormed pb) (P : PuzzleProg) (hP : program pb = .ok P) :
    EncodesRules P (Rules pb) ∧ P.KeysOk ∧ (∀ c ∈ P.cs, wtB c = true) := by
  have hs := C11SlalomW.shape pb hw P hP
  rw [program_eq pb hw] at hP
  cases hP
  exact ⟨encodes pb hw, hs⟩

end

end Cspuz.Proofs.C11Slalom
