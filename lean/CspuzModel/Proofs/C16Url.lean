/-
  C16, the URL layer: what the regex matcher `matchUrl` (model of `_DESERIALIZE_URL_REG`) does on a URL assembled as
  `prefix ++ name ++ "/" ++ width ++ "/" ++ height ++ "/" ++ body`, hence `get_puzzle_info_from_url` and
  `deserialize_problem_as_url` on it; and "no emitted text contains a newline" (the regex's `.` stops at `\n`).
-/
import CspuzModel.Proofs.C15Roundtrip
import CspuzModel.Spec.C16Formats
import Mathlib.Data.List.TakeDrop
import Mathlib.Data.List.TakeWhile
set_option linter.unusedVariables false
namespace Cspuz.Proofs.C16Url
open Cspuz Cspuz.Ser Cspuz.C16F

/-! ### spans -/

theorem span_append_stop {α} (p : α → Bool) (a : List α) (x : α) (r : List α) (ha : ∀ c ∈ a, p c = true)
    (hx : p x = false) : (a ++ x :: r).span p = (a, x :: r) := by
  rw [List.span_eq_takeWhile_dropWhile]
  induction a with
  | nil => simp [hx]
  | cons c a ih =>
    have hc : p c = true := ha c (by simp)
    have := ih (fun c' hc' => ha c' (List.mem_cons_of_mem _ hc'))
    simp only [Prod.mk.injEq] at this
    simp [List.takeWhile_cons, List.dropWhile_cons, hc, this.1, this.2]

theorem isDecimal_slash : isDecimal 47 = false := by decide

theorem toBase10_isDecimal (n : Nat) : ∀ c ∈ toBase 10 n, isDecimal c = true := by
  intro c hc
  have := toBase10_ascii n c hc
  exact isDecimal_ascii c this.1 this.2

/-- a URL name: not empty, no `/` -/
def NameOk (name : Str) : Prop := name ≠ [] ∧ ∀ c ∈ name, c ≠ 47

instance (name : Str) : Decidable (NameOk name) := by unfold NameOk; infer_instance

theorem stripPrefix_append (p s : Str) : stripPrefix p (p ++ s) = some s := by
  induction p with
  | nil => cases s <;> rfl
  | cons a p ih => simp [stripPrefix, ih]

/-! ### the matcher on an assembled URL -/

/-- what follows `…?` in an assembled URL -/
def tail (name : Str) (w h : Nat) (body : Str) : Str :=
  name ++ [47] ++ toBase 10 w ++ [47] ++ toBase 10 h ++ [47] ++ body

/-- the part of `matchUrl` after the `?` -/
def matchTail (s : Str) : Option (Str × Str × Str × Str) := do
  let (name, s) := s.span (· != 47)
  if name.isEmpty then Option.none
  let s ← stripPrefix [47] s
  let (wd, s) := s.span isDecimal
  if wd.isEmpty then Option.none
  let s ← stripPrefix [47] s
  let (hd, s) := s.span isDecimal
  if hd.isEmpty then Option.none
  let s ← stripPrefix [47] s
  some (name, wd, hd, s.takeWhile (· != 10))

theorem tail_eq (name : Str) (w h : Nat) (body : Str) :
    tail name w h body = name ++ 47 :: (toBase 10 w ++ 47 :: (toBase 10 h ++ 47 :: body)) := by
  simp [tail, List.append_assoc]

theorem isEmpty_false_of_ne_nil {α} {l : List α} (h : l ≠ []) : l.isEmpty = false := by
  cases l with
  | nil => exact absurd rfl h
  | cons _ _ => rfl

theorem matchTail_tail (name : Str) (w h : Nat) (body : Str) (hn : NameOk name) :
    matchTail (tail name w h body) = some (name, toBase 10 w, toBase 10 h, body.takeWhile (· != 10)) := by
  rw [tail_eq]
  unfold matchTail
  have h1 := span_append_stop (· != 47) name 47 (toBase 10 w ++ 47 :: (toBase 10 h ++ 47 :: body))
      (fun c hc => by simpa using hn.2 c hc) (by simp)
  have h2 := span_append_stop isDecimal (toBase 10 w) 47 (toBase 10 h ++ 47 :: body) (toBase10_isDecimal w)
      isDecimal_slash
  have h3 := span_append_stop isDecimal (toBase 10 h) 47 body (toBase10_isDecimal h) isDecimal_slash
  have hne := isEmpty_false_of_ne_nil hn.1
  have hw := isEmpty_false_of_ne_nil (toBase_ne_nil 10 w (by omega))
  have hh' := isEmpty_false_of_ne_nil (toBase_ne_nil 10 h (by omega))
  have hsp : ∀ X : Str, stripPrefix [47] (47 :: X) = some X := by intro X; cases X <;> simp [stripPrefix]
  simp only [h1, hne, hsp, h2, hw, h3, hh', Bool.false_eq_true, if_false, Option.bind_eq_bind, Option.bind_some,
    Option.pure_def, bind, pure]

theorem defaultPrefix_eq : defaultPrefix
    = [104, 116, 116, 112, 115, 58, 47, 47, 112, 117, 122, 122, 46, 108, 105, 110, 107, 47, 112, 63] := by decide

theorem puzzLinkPrefix_eq : Codecs.puzzLinkPrefix = defaultPrefix := by decide

theorem pzvPrefix_eq : Codecs.pzvPrefix
    = [104, 116, 116, 112, 58, 47, 47, 112, 122, 118, 46, 106, 112, 47, 112, 46, 104, 116, 109, 108, 63] := by decide

theorem matchUrl_default (s : Str) : matchUrl (defaultPrefix ++ s) = matchTail s := by
  rw [defaultPrefix_eq]
  rfl

theorem matchUrl_pzv (s : Str) : matchUrl (Codecs.pzvPrefix ++ s) = matchTail s := by
  rw [pzvPrefix_eq]
  rfl

/-- **the URL frame is read back**: on `prefix ++ name/width/height/body` the matcher returns the four groups -/
theorem matchUrl_frame (pre name : Str) (w h : Nat) (body : Str) (hp : pre = defaultPrefix ∨ pre = Codecs.pzvPrefix)
    (hn : NameOk name) :
    matchUrl (pre ++ tail name w h body) = some (name, toBase 10 w, toBase 10 h, body.takeWhile (· != 10)) := by
  rcases hp with rfl | rfl
  · rw [matchUrl_default, matchTail_tail name w h body hn]
  · rw [matchUrl_pzv, matchTail_tail name w h body hn]

/-- `get_puzzle_info_from_url` returns `(name, height, width)` -/
theorem getPuzzleInfo_frame (pre name : Str) (w h : Nat) (body : Str) (hp : pre = defaultPrefix ∨ pre = Codecs.pzvPrefix)
    (hn : NameOk name) (hdw : DecimalOk w) (hdh : DecimalOk h) :
    getPuzzleInfo (pre ++ tail name w h body) = .ok (name, h, w) := by
  unfold getPuzzleInfo
  rw [matchUrl_frame pre name w h body hp hn]
  simp only [pyInt_toBase10 h hdh, pyInt_toBase10 w hdw]
  rfl

theorem takeWhile_noNL (body : Str) (hb : ∀ c ∈ body, c ≠ 10) : body.takeWhile (· != 10) = body := by
  rw [List.takeWhile_eq_self_iff]
  intro c hc
  simpa using hb c hc

/-- `deserialize_problem_as_url` on an assembled URL whose body has no newline and whose name is allowed -/
theorem deProblemAsUrl_frame (c : Comb) (name : Str) (w h : Nat) (body : Str) (allowed : Option (List Str))
    (af rs : Bool) (hn : NameOk name) (hdw : DecimalOk w) (hdh : DecimalOk h) (hb : ∀ x ∈ body, x ≠ 10)
    (ha : ∀ names, allowed = some names → names.contains name = true) :
    deProblemAsUrl c (defaultPrefix ++ tail name w h body) allowed af rs =
      (deProblem c body h w).bind fun p => .ok (if rs then .tuple [.int h, .int w, p] else p) := by
  unfold deProblemAsUrl
  rw [matchUrl_frame defaultPrefix name w h body (Or.inl rfl) hn, takeWhile_noNL body hb]
  simp only [pyInt_toBase10 h hdh, pyInt_toBase10 w hdw]
  cases allowed with
  | none => rfl
  | some names =>
    have := ha names rfl
    simp only [this]
    rfl

/-- `serialize_problem_as_url` assembles the frame -/
theorem serProblemAsUrl_frame (c : Comb) (name : Str) (h w : Nat) (p : PyVal) (pre body : Str)
    (hs : serProblem c p h w = .ok body) : serProblemAsUrl c name h w p pre = .ok (pre ++ tail name w h body) := by
  unfold serProblemAsUrl tail
  rw [hs]
  simp [Outcome.bind, List.append_assoc]

/-! ### emitted text never contains a newline -/

/-- every text the function emits satisfies `P` character by character -/
def EmitsIn (P : Nat → Prop) (f : SerF) : Prop := ∀ d i k t, f d i = .ok (k, t) → ∀ x ∈ t, P x

theorem digitChar_ne_nl (d : Nat) : digitChar d ≠ 10 := by
  unfold digitChar; split <;> omega

theorem toBase_ne_nl (b n : Nat) : ∀ x ∈ toBase b n, x ≠ 10 := by
  intro x hx
  simp only [toBase, List.mem_map] at hx
  obtain ⟨d, _, rfl⟩ := hx
  exact digitChar_ne_nl d

def NoNL (x : Nat) : Prop := x ≠ 10

mutual
/-- no string embedded in the term contains a newline -/
def noNL : Comb → Bool
  | .fixStr s => !s.contains 10
  | .dict _ a => a.all fun s => !s.contains 10
  | .oneOf cs => noNLAll cs
  | .tupl es => noNLAll es
  | .seq b _ => noNL b
  | .grid b _ => noNL b
  | .valuedRooms v _ _ => noNL v
  | _ => true
def noNLAll : List Comb → Bool
  | [] => true
  | c :: cs => noNL c && noNLAll cs
end

theorem emitsIn_oneOf {P} : ∀ (fs : List SerF), (∀ f ∈ fs, EmitsIn P f) → EmitsIn P (oneOfF fs) := by
  intro fs
  induction fs with
  | nil => intro _ d i k t h; simp [oneOfF] at h
  | cons f fs ih =>
    intro hf d i k t h
    simp only [oneOfF] at h
    cases hc : f d i with
    | ok r =>
      rw [hc] at h
      obtain ⟨k', t'⟩ := r
      simp only [Outcome.ok.injEq, Prod.mk.injEq] at h
      obtain ⟨rfl, rfl⟩ := h
      exact hf f (by simp) d i _ _ hc
    | none =>
      rw [hc] at h
      exact ih (fun g hg => hf g (List.mem_cons_of_mem _ hg)) d i k t h
    | raised e => rw [hc] at h; cases h
    | diverge => rw [hc] at h; cases h

theorem tuplSerParts_in {P} : ∀ (fs : List SerF) (comps : List PyVal) (t : Str), (∀ f ∈ fs, EmitsIn P f) →
    tuplSerParts fs comps = .ok t → ∀ x ∈ t, P x := by
  intro fs
  induction fs with
  | nil => intro comps t _ h; simp [tuplSerParts] at h; subst h; intro x hx; cases hx
  | cons f fs ih =>
    intro comps t hf h
    cases comps with
    | nil => simp [tuplSerParts] at h
    | cons c cs =>
      simp only [tuplSerParts] at h
      split at h
      · cases h
      · rename_i l _
        obtain ⟨r, hr, h⟩ := Outcome.bind_eq_ok.mp h
        obtain ⟨t2, ht2, h⟩ := Outcome.bind_eq_ok.mp h
        simp only [Outcome.ok.injEq] at h
        subst h
        intro x hx
        rcases List.mem_append.mp hx with hx | hx
        · exact hf f (by simp) l 0 r.1 r.2 hr x hx
        · exact ih cs t2 (fun g hg => hf g (List.mem_cons_of_mem _ hg)) ht2 x hx

theorem emitsIn_tupl {P} (fs : List SerF) (hf : ∀ f ∈ fs, EmitsIn P f) : EmitsIn P (tuplSer fs) := by
  intro d i k t h
  simp only [tuplSer] at h
  obtain ⟨v, _, hk⟩ := withItem_eq_ok.mp h
  cases v with
  | tuple comps =>
    simp only at hk
    split at hk
    · cases hk
    · obtain ⟨t', ht', heq⟩ := Outcome.bind_eq_ok.mp hk
      simp only [Outcome.ok.injEq, Prod.mk.injEq] at heq
      obtain ⟨_, rfl⟩ := heq
      exact tuplSerParts_in fs comps t' hf ht'
  | _ => simp at hk

theorem seqSerLoop_in {P} (f : SerF) (hf : EmitsIn P f) (l : List PyVal) (n : Nat) :
    ∀ fuel p acc t, (∀ x ∈ acc, P x) → seqSerLoop f l n fuel p acc = .ok t → ∀ x ∈ t, P x := by
  intro fuel
  induction fuel with
  | zero => intro p acc t _ h; simp [seqSerLoop] at h
  | succ fuel ih =>
    intro p acc t hacc h
    unfold seqSerLoop at h
    split at h
    · split at h
      · rename_i k tk hk
        split at h
        · cases h
        · exact ih (p + k) (acc ++ tk) t (fun x hx => by
            rcases List.mem_append.mp hx with hx | hx
            · exact hacc x hx
            · exact hf l p k tk hk x hx) h
      · cases h
      · cases h
      · cases h
    · split at h
      · simp only [Outcome.ok.injEq] at h; subst h; exact hacc
      · cases h

theorem emitsIn_seq {P} (f : SerF) (hf : EmitsIn P f) (n : Nat) : EmitsIn P (seqSer f n) := by
  intro d i k t h
  simp only [seqSer] at h
  obtain ⟨v, _, hk⟩ := withItem_eq_ok.mp h
  cases v with
  | list l =>
    simp only at hk
    obtain ⟨t', ht', heq⟩ := Outcome.bind_eq_ok.mp hk
    simp only [Outcome.ok.injEq, Prod.mk.injEq] at heq
    obtain ⟨_, rfl⟩ := heq
    exact seqSerLoop_in f hf l n _ 0 [] t' (fun x hx => by cases hx) ht'
  | _ => simp at hk

theorem emitsIn_grid {P} (f : SerF) (hf : EmitsIn P f) (h w : Nat) : EmitsIn P (gridSer f h w) := by
  intro d i k t hh
  simp only [gridSer] at hh
  obtain ⟨v, _, hk⟩ := withItem_eq_ok.mp hh
  cases v with
  | list rows =>
    simp only at hk
    obtain ⟨flat, _, hs⟩ := Outcome.bind_eq_ok.mp hk
    exact emitsIn_seq f hf (h * w) _ _ _ _ hs
  | _ => simp at hk

theorem emitsIn_multiDigit {P : Nat → Prop} (hP : ∀ d, P (digitChar d)) (b k : Nat) : EmitsIn P (multiDigitSer b k) := by
  intro d i kk t h
  simp only [multiDigitSer] at h
  split at h
  · cases h
  · split at h
    · cases h
    · obtain ⟨v, _, heq⟩ := Outcome.bind_eq_ok.mp h
      simp only [Outcome.ok.injEq, Prod.mk.injEq] at heq
      obtain ⟨_, rfl⟩ := heq
      intro x hx
      simp only [toBase, List.mem_map] at hx
      obtain ⟨dd, _, rfl⟩ := hx
      exact hP dd

theorem emitsIn_borders (h w : Nat) : EmitsIn NoNL (bordersSer h w) := by
  unfold bordersSer
  apply emitsIn_tupl
  intro f hf
  simp only [List.mem_cons, List.not_mem_nil, or_false] at hf
  rcases hf with rfl | rfl
  · exact emitsIn_grid _ (emitsIn_multiDigit digitChar_ne_nl 2 5) _ _
  · exact emitsIn_grid _ (emitsIn_multiDigit digitChar_ne_nl 2 5) _ _

theorem emitsIn_rooms (env : Env) (skip : Bool) : EmitsIn NoNL (roomsSer env skip) := by
  intro d i k t h
  have hcore : roomsSerCore env d i = .ok (k, t) := by
    unfold roomsSer catchValueError at h
    cases skip
    · simpa using h
    · simp only [if_true] at h
      split at h
      · cases h
      · exact h
  unfold roomsSerCore at hcore
  split at hcore
  · cases hcore
  · split at hcore
    · cases hcore
    · simp only at hcore
      split at hcore
      · cases hcore
      · obtain ⟨rid, _, h1⟩ := Outcome.bind_eq_ok.mp hcore
        obtain ⟨_, _, h2⟩ := Outcome.bind_eq_ok.mp h1
        obtain ⟨vt, _, h3⟩ := Outcome.bind_eq_ok.mp h2
        obtain ⟨hz, _, h4⟩ := Outcome.bind_eq_ok.mp h3
        exact emitsIn_borders _ _ _ _ _ _ h4
    · cases hcore

theorem emitsIn_valuedRooms (fv : SerF) (hf : EmitsIn NoNL fv) (env : Env) (skip : Bool) :
    EmitsIn NoNL (valuedRoomsSer fv env skip) := by
  intro d i k t h
  simp only [valuedRoomsSer] at h
  obtain ⟨v, _, hk⟩ := withItem_eq_ok.mp h
  split at hk
  · split at hk
    · obtain ⟨pairs, _, hk⟩ := Outcome.bind_eq_ok.mp hk
      split at hk
      · cases hk
      · obtain ⟨r, hr, heq⟩ := Outcome.bind_eq_ok.mp hk
        simp only [Outcome.ok.injEq, Prod.mk.injEq] at heq
        obtain ⟨_, rfl⟩ := heq
        refine emitsIn_tupl _ ?_ _ _ _ _ hr
        intro f hf'
        simp only [List.mem_cons, List.not_mem_nil, or_false] at hf'
        rcases hf' with rfl | rfl
        · exact emitsIn_rooms env skip
        · exact emitsIn_seq fv hf _
    · cases hk
  · cases hk

theorem dictSerFind_in (v : PyVal) : ∀ (b : List PyVal) (a : List Str) (k : Nat) (t : Str),
    dictSerFind v b a = .ok (k, t) → t ∈ a := by
  intro b
  induction b with
  | nil => intro a k t h; simp [dictSerFind] at h
  | cons x b ih =>
    intro a k t h
    cases a with
    | nil => simp [dictSerFind] at h
    | cons s a =>
      simp only [dictSerFind] at h
      split at h
      · simp only [Outcome.ok.injEq, Prod.mk.injEq] at h; simp [h.2]
      · exact List.mem_cons_of_mem _ (ih a k t h)

theorem mem_contains_false {s : Str} (h : s.contains 10 = false) : ∀ x ∈ s, x ≠ 10 := by
  intro x hx hx10
  subst hx10
  have : s.contains 10 = true := by simpa using hx
  rw [this] at h; cases h

theorem yajilin_noNL : EmitsIn NoNL yajilinSer := by
  intro d i k t h
  unfold yajilinSer at h
  split at h
  · cases h
  · split at h
    · cases h
    · split at h
      · cases h
      · split at h
        · simp only [Outcome.ok.injEq, Prod.mk.injEq] at h
          obtain ⟨_, rfl⟩ := h
          intro x hx; simp at hx; rcases hx with rfl | rfl <;> simp [NoNL]
        · split at h
          · split at h
            · cases h
            · rename_i dir _
              split at h
              · cases h
              · obtain ⟨n, _, h⟩ := Outcome.bind_eq_ok.mp h
                have hdir : ∀ a : Nat, 48 + dir + a ≠ 10 := by intro a; omega
                split at h
                · simp only [Outcome.ok.injEq, Prod.mk.injEq] at h
                  obtain ⟨_, rfl⟩ := h
                  intro x hx
                  simp only [List.mem_cons] at hx
                  rcases hx with rfl | hx
                  · exact hdir 0
                  · exact toBase_ne_nl 16 n x hx
                · split at h
                  · simp only [Outcome.ok.injEq, Prod.mk.injEq] at h
                    obtain ⟨_, rfl⟩ := h
                    intro x hx
                    simp only [List.mem_cons] at hx
                    rcases hx with rfl | hx
                    · exact hdir 5
                    · exact toBase_ne_nl 16 n x hx
                  · cases h
          · cases h

theorem serL_mem (cs : List Comb) (env : Env) (f : SerF) (hf : f ∈ serL cs env) : ∃ c ∈ cs, f = ser c env := by
  rw [serL_eq_map] at hf
  obtain ⟨c, hc, rfl⟩ := List.mem_map.mp hf
  exact ⟨c, hc, rfl⟩

theorem noNLAll_mem : ∀ cs : List Comb, noNLAll cs = true → ∀ c ∈ cs, noNL c = true := by
  intro cs
  induction cs with
  | nil => intro _ c hc; cases hc
  | cons c cs ih =>
    intro h c' hc'
    simp only [noNLAll, Bool.and_eq_true] at h
    cases hc' with
    | head => exact h.1
    | tail _ h' => exact ih h.2 c' h'

/-- **no emitted text contains a newline**, for every term whose embedded strings contain none -/
theorem ser_noNL (env : Env) : ∀ c, noNL c = true → EmitsIn NoNL (ser c env) := by
  intro c
  induction c using Comb.ind with
  | fixStr s =>
    intro hn d i k t h
    simp only [ser, fixStrSer, Outcome.ok.injEq, Prod.mk.injEq] at h
    obtain ⟨_, rfl⟩ := h
    simp only [noNL, Bool.not_eq_true'] at hn
    exact mem_contains_false hn
  | dict b a =>
    intro hn d i k t h
    simp only [ser, dictSer] at h
    obtain ⟨v, _, hk⟩ := withItem_eq_ok.mp h
    have hm := dictSerFind_in v b a k t hk
    simp only [noNL, List.all_eq_true, Bool.not_eq_true'] at hn
    exact mem_contains_false (hn t hm)
  | spaces sp o =>
    intro _ d i k t h
    simp only [ser, spacesSer] at h
    obtain ⟨v, _, hk⟩ := withItem_eq_ok.mp h
    split at hk
    · cases hk
    · obtain ⟨tt, htt, heq⟩ := Outcome.bind_eq_ok.mp hk
      simp only [Outcome.ok.injEq, Prod.mk.injEq] at heq
      obtain ⟨_, rfl⟩ := heq
      unfold toBase36 at htt
      split at htt
      · cases htt
      · simp only [Outcome.ok.injEq] at htt; subst htt; exact toBase_ne_nl 36 _
  | decInt =>
    intro _ d i k t h
    simp only [ser, decIntSer] at h
    obtain ⟨v, _, hk⟩ := withItem_eq_ok.mp h
    split at hk
    · split at hk
      · cases hk
      · split at hk
        · cases hk
        · simp only [Outcome.ok.injEq, Prod.mk.injEq] at hk
          obtain ⟨_, rfl⟩ := hk
          exact toBase_ne_nl 10 _
    · simp only [Outcome.ok.injEq, Prod.mk.injEq] at hk
      obtain ⟨_, rfl⟩ := hk
      intro x hx
      unfold boolStr at hx
      split at hx <;> simp at hx <;> (simp only [NoNL]; omega)
    · cases hk
  | hexInt =>
    intro _ d i k t h
    simp only [ser, hexIntSer] at h
    obtain ⟨v, _, hk⟩ := withItem_eq_ok.mp h
    split at hk
    · cases hk
    · split at hk
      · cases hk
      · simp only [Outcome.ok.injEq, Prod.mk.injEq] at hk
        obtain ⟨_, rfl⟩ := hk
        intro x hx
        rcases List.mem_append.mp hx with hx | hx
        · split at hx
          · simp at hx; subst hx; simp [NoNL]
          · split at hx
            · simp at hx; subst hx; simp [NoNL]
            · cases hx
        · exact toBase_ne_nl 16 _ x hx
  | intSpaces sp mi ms =>
    intro _ d i k t h
    simp only [ser, intSpacesSer] at h
    obtain ⟨v, _, hk⟩ := withItem_eq_ok.mp h
    split at hk
    · cases hk
    · split at hk
      · cases hk
      · simp only [Outcome.ok.injEq, Prod.mk.injEq] at hk
        obtain ⟨_, rfl⟩ := hk
        exact toBase_ne_nl 36 _
  | multiDigit b k => intro _; exact emitsIn_multiDigit digitChar_ne_nl b k
  | oneOf cs ih =>
    intro hn
    simp only [ser]
    apply emitsIn_oneOf
    intro f hf
    obtain ⟨c, hc, rfl⟩ := serL_mem cs env f hf
    exact ih c hc (noNLAll_mem cs (by simpa [noNL] using hn) c hc)
  | tupl es ih =>
    intro hn
    simp only [ser]
    apply emitsIn_tupl
    intro f hf
    obtain ⟨c, hc, rfl⟩ := serL_mem es env f hf
    exact ih c hc (noNLAll_mem es (by simpa [noNL] using hn) c hc)
  | seq b n ih => intro hn; simp only [ser]; exact emitsIn_seq _ (ih (by simpa [noNL] using hn)) n
  | grid b dims ih => intro hn; simp only [ser]; exact emitsIn_grid _ (ih (by simpa [noNL] using hn)) _ _
  | rooms s a => intro _; simp only [ser]; exact emitsIn_rooms env s
  | valuedRooms v s a ih =>
    intro hn; simp only [ser]; exact emitsIn_valuedRooms _ (ih (by simpa [noNL] using hn)) env s
  | yajilinClue => intro _; exact yajilin_noNL

/-- the body produced by `serialize_problem` has no newline -/
theorem serProblem_noNL (c : Comb) (hn : noNL c = true) (p : PyVal) (h w : Nat) (body : Str)
    (hs : serProblem c p h w = .ok body) : ∀ x ∈ body, x ≠ 10 := by
  unfold serProblem at hs
  split at hs
  · rename_i r hr
    simp only [Outcome.ok.injEq] at hs
    subst hs
    exact ser_noNL ⟨h, w⟩ c hn [p] 0 r.1 r.2 hr
  · cases hs
  · cases hs
  · cases hs

end Cspuz.Proofs.C16Url
