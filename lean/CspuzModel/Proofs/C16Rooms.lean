/-
  C16, the three `Rooms`-based modules (lits, norinori, heyawake): the URL round trip as an instance of C15's rooms
  theorems plus the URL layer, and what the independent pzpr decoders read in the body.
-/
import CspuzModel.Proofs.C16Url
import CspuzModel.Proofs.C16Bits
import CspuzModel.Proofs.C16PzprNum
import CspuzModel.Proofs.C15Rooms
import CspuzModel.Proofs.C15ValuedRT
set_option linter.unusedVariables false
namespace Cspuz.Proofs.C16Rooms
open Cspuz Cspuz.Ser Cspuz.C16F Cspuz.Codecs Cspuz.Proofs.C16Url

theorem serProblem_of_ser (c : Comb) (v : PyVal) (h w : Nat) (t : Str) (hs : ser c ⟨h, w⟩ [v] 0 = .ok (1, t)) :
    serProblem c v h w = .ok t := by
  simp [serProblem, hs]

theorem deProblem_of_de (c : Comb) (s : Str) (h w k : Nat) (v : PyVal) (hd : de c ⟨h, w⟩ s 0 = .ok (k, [v])) :
    deProblem c s h w = .ok v := by
  simp [deProblem, hd, Outcome.bind]

/-! ### lits, norinori -/

/-- a codec whose combinator is `Rooms(…)` and which returns the size -/
theorem rooms_codec_roundtrip (pc : Gen.PuzzleCodec) (skip allow : Bool) (hc : pc.comb = .rooms skip allow)
    (hname : NameOk pc.urlName) (hal : ∀ names, pc.allowed = some names → names.contains pc.urlName = true)
    (hrs : pc.returnSize = true) (h w : Nat) (hh : 1 ≤ h) (hw : 1 ≤ w) (hdh : DecimalOk h) (hdw : DecimalOk w)
    (rooms : List (List (Nat × Nat))) (hv : ValidPartition h w rooms) :
    ∃ body, serProblem pc.comb (roomsVal rooms) h w = .ok body ∧
      serializeRoomsPuzzle pc h w (roomsVal rooms) = .ok (defaultPrefix ++ tail pc.urlName w h body) ∧
      deserializePuzzle pc (defaultPrefix ++ tail pc.urlName w h body)
        = .ok (.tuple [.int h, .int w, roomsVal (canonRooms h w rooms)]) ∧
      getPuzzleInfo (defaultPrefix ++ tail pc.urlName w h body) = .ok (pc.urlName, h, w) ∧
      Pzpr.decodeBorders h w body = some (bordersOf h w rooms) := by
  obtain ⟨t, hser, hde⟩ := rooms_roundtrip h w hh hw (borders_roundtrip h w) rooms hv skip allow
  have hser' : ser pc.comb ⟨h, w⟩ [roomsVal rooms] 0 = .ok (1, t) := by rw [hc]; simpa [ser] using hser
  have hsp := serProblem_of_ser pc.comb _ h w t hser'
  have hde0 : de pc.comb ⟨h, w⟩ t 0 = .ok (t.length, [roomsVal (canonRooms h w rooms)]) := by
    have := hde [] []
    rw [hc]
    simpa [de] using this
  have hnl : noNL pc.comb = true := by rw [hc]; rfl
  refine ⟨t, hsp, ?_, ?_, ?_, ?_⟩
  · unfold serializeRoomsPuzzle
    exact serProblemAsUrl_frame pc.comb pc.urlName h w _ defaultPrefix t hsp
  · unfold deserializePuzzle
    rw [deProblemAsUrl_frame pc.comb pc.urlName w h t pc.allowed pc.allowFailure pc.returnSize hname hdw hdh
      (serProblem_noNL pc.comb hnl _ h w t hsp) hal, deProblem_of_de pc.comb t h w _ _ hde0, hrs]
    rfl
  · exact getPuzzleInfo_frame defaultPrefix pc.urlName w h t (Or.inl rfl) hname hdw hdh
  · have := C16Bits.pzpr_rooms_borders h w hh hw rooms hv skip allow t (by rw [← hc]; exact hser') []
    simp only [List.append_nil] at this
    simp [Pzpr.decodeBorders, Pzpr.whole, this]

theorem roundtrip_lits (h w : Nat) (hh : 1 ≤ h) (hw : 1 ≤ w) (hdh : DecimalOk h) (hdw : DecimalOk w)
    (rooms : List (List (Nat × Nat))) (hv : ValidPartition h w rooms) :
    ∃ body, serProblem Gen.litsCodec.comb (roomsVal rooms) h w = .ok body ∧
      serializeRoomsPuzzle Gen.litsCodec h w (roomsVal rooms) = .ok (defaultPrefix ++ tail Gen.litsCodec.urlName w h body) ∧
      deserializePuzzle Gen.litsCodec (defaultPrefix ++ tail Gen.litsCodec.urlName w h body)
        = .ok (.tuple [.int h, .int w, roomsVal (canonRooms h w rooms)]) ∧
      getPuzzleInfo (defaultPrefix ++ tail Gen.litsCodec.urlName w h body) = .ok (Gen.litsCodec.urlName, h, w) ∧
      Pzpr.decodeBorders h w body = some (bordersOf h w rooms) :=
  rooms_codec_roundtrip Gen.litsCodec false false rfl ⟨by decide, by decide⟩ (by decide) (by decide)
    h w hh hw hdh hdw rooms hv

theorem roundtrip_norinori (h w : Nat) (hh : 1 ≤ h) (hw : 1 ≤ w) (hdh : DecimalOk h) (hdw : DecimalOk w)
    (rooms : List (List (Nat × Nat))) (hv : ValidPartition h w rooms) :
    ∃ body, serProblem Gen.norinoriCodec.comb (roomsVal rooms) h w = .ok body ∧
      serializeRoomsPuzzle Gen.norinoriCodec h w (roomsVal rooms)
        = .ok (defaultPrefix ++ tail Gen.norinoriCodec.urlName w h body) ∧
      deserializePuzzle Gen.norinoriCodec (defaultPrefix ++ tail Gen.norinoriCodec.urlName w h body)
        = .ok (.tuple [.int h, .int w, roomsVal (canonRooms h w rooms)]) ∧
      getPuzzleInfo (defaultPrefix ++ tail Gen.norinoriCodec.urlName w h body) = .ok (Gen.norinoriCodec.urlName, h, w) ∧
      Pzpr.decodeBorders h w body = some (bordersOf h w rooms) :=
  rooms_codec_roundtrip Gen.norinoriCodec false false rfl ⟨by decide, by decide⟩ (by decide) (by decide)
    h w hh hw hdh hdw rooms hv

/-! ### the borders of a partition do not depend on the order of the rooms -/

theorem sameRoom_iff {h w : Nat} {rooms : List (List (Nat × Nat))} (hv : ValidPartition h w rooms) {c c' : Nat × Nat}
    (hc : c.1 < h ∧ c.2 < w) (hc' : c'.1 < h ∧ c'.2 < w) :
    roomOf rooms c = roomOf rooms c' ↔ ∃ r ∈ rooms, c ∈ r ∧ c' ∈ r := by
  have hk := hv.roomOf_lt hc.1 hc.2
  have hk' := hv.roomOf_lt hc'.1 hc'.2
  constructor
  · intro heq
    refine ⟨rooms[roomOf rooms c], List.getElem_mem hk, hv.mem_roomOf hc.1 hc.2 hk, ?_⟩
    have hm := hv.mem_roomOf hc'.1 hc'.2 hk'
    have : ∀ k (hk2 : k < rooms.length), k = roomOf rooms c' → c' ∈ rooms[k] := by
      intro k hk2 e; subst e; exact hm
    exact this _ hk heq
  · rintro ⟨r, hr, h1, h2⟩
    obtain ⟨k, hklt, rfl⟩ := List.getElem_of_mem hr
    rw [hv.roomOf_eq hklt h1, hv.roomOf_eq hklt h2]

theorem roomIdx_ne_perm {h w : Nat} {rooms rooms' : List (List (Nat × Nat))} (hv : ValidPartition h w rooms)
    (hp : rooms'.Perm rooms) {c c' : Nat × Nat} (hc : c.1 < h ∧ c.2 < w) (hc' : c'.1 < h ∧ c'.2 < w) :
    (roomIdx rooms' c != roomIdx rooms' c') = (roomIdx rooms c != roomIdx rooms c') := by
  have hv' := hv.of_perm hp
  have e1 := sameRoom_iff hv hc hc'
  have e2 := sameRoom_iff hv' hc hc'
  have e3 : (∃ r ∈ rooms', c ∈ r ∧ c' ∈ r) ↔ (∃ r ∈ rooms, c ∈ r ∧ c' ∈ r) :=
    ⟨fun ⟨r, hr, hh⟩ => ⟨r, hp.mem_iff.1 hr, hh⟩, fun ⟨r, hr, hh⟩ => ⟨r, hp.mem_iff.2 hr, hh⟩⟩
  have : roomOf rooms' c = roomOf rooms' c' ↔ roomOf rooms c = roomOf rooms c' := e2.trans (e3.trans e1.symm)
  show (roomOf rooms' c != roomOf rooms' c') = (roomOf rooms c != roomOf rooms c')
  by_cases hq : roomOf rooms c = roomOf rooms c'
  · rw [this.2 hq, hq]; simp
  · have hq' : ¬ roomOf rooms' c = roomOf rooms' c' := fun h' => hq (this.1 h')
    rw [bne_iff_ne.mpr hq', bne_iff_ne.mpr hq]

theorem bordersOf_perm {h w : Nat} {rooms rooms' : List (List (Nat × Nat))} (hv : ValidPartition h w rooms)
    (hp : rooms'.Perm rooms) : bordersOf h w rooms' = bordersOf h w rooms := by
  unfold bordersOf
  congr 1
  · apply List.map_congr_left
    intro y hy
    apply List.map_congr_left
    intro x hx
    have hy' := List.mem_range.1 hy
    have hx' := List.mem_range.1 hx
    exact roomIdx_ne_perm hv hp ⟨hy', by simp; omega⟩ ⟨hy', by simp; omega⟩
  · apply List.map_congr_left
    intro y hy
    apply List.map_congr_left
    intro x hx
    have hy' := List.mem_range.1 hy
    have hx' := List.mem_range.1 hx
    exact roomIdx_ne_perm hv hp ⟨by simp; omega, hx'⟩ ⟨by simp; omega, hx'⟩

/-! ### heyawake -/

def heyValue : Comb := .oneOf [.hexInt, .spaces (.int (-1)) 15]

theorem heyawake_comb : Gen.heyawakeCodec.comb = .valuedRooms heyValue true false := rfl

/-- the clue list as Python values -/
def clueVals (clues : List Int) : List PyVal := clues.map PyVal.int

theorem hey_step (L : List Int) (hL : ∀ c ∈ L, ClueVal c) (env : Env) (p : Nat) (hp : p < (clueVals L).length) :
    ∃ k t, ser heyValue env (clueVals L) p = .ok (k, t) ∧ 1 ≤ k ∧ p + k ≤ (clueVals L).length := by
  have hp' : p < L.length := by simpa [clueVals] using hp
  have hv : (clueVals L)[p]? = some (.int L[p]) := by simp [clueVals, hp']
  have hP := hL L[p] (List.getElem_mem hp')
  simp only [heyValue, ser, serL, oneOfF]
  by_cases h1 : L[p] = -1
  · have hn : hexIntSer (clueVals L) p = .none := by
      rw [hexIntSer, withItem, if_neg (by omega), hv]
      simp [asInt?, h1]
    rw [hn]
    have hlt := hp
    rw [spacesSer, withItem, if_neg (by omega), hv]
    have he : pyEq (.int L[p]) (.int (-1)) = true := by simp [pyEq, h1]
    simp only [he, Bool.not_true, Bool.false_eq_true, if_false]
    have hc := countRun_le_length (.int (-1)) ((clueVals L).drop (p + 1)) ((35 - (15 : Int)) - 1).toNat
    simp only [List.length_drop] at hc
    refine ⟨1 + countRun (.int (-1)) ((clueVals L).drop (p + 1)) ((35 - (15 : Int)) - 1).toNat,
      toBase 36 ((15 : Int) + ((1 + countRun (.int (-1)) ((clueVals L).drop (p + 1)) ((35 - (15 : Int)) - 1).toNat : Nat) : Int)).toNat,
      ?_, by omega, by omega⟩
    unfold toBase36
    rw [if_neg (by omega)]
    rfl
  · have hr : 0 ≤ L[p] ∧ L[p] ≤ 4095 := by rcases hP with h | h <;> omega
    rw [hexIntSer, withItem, if_neg (by omega), hv]
    simp only [asInt?]
    have : (0 ≤ L[p] && L[p] ≤ 4095) = true := by simp [hr.1, hr.2]
    simp only [this, Bool.not_true, Bool.false_eq_true, if_false]
    exact ⟨1, _, rfl, by omega, by omega⟩

theorem noBoolL_clueVals (L : List Int) : noBoolL (clueVals L) = true := by
  induction L with
  | nil => rfl
  | cons a l ih => simp [clueVals, noBoolL, PyVal.noBool] at ih ⊢; exact ih

/-- the value layer accepts every list of clue values of the right length -/
theorem hey_seq (L : List Int) (hL : ∀ c ∈ L, ClueVal c) (env : Env) :
    Good (.seq heyValue L.length) env [.list (clueVals L)] 0 ∧
    ∃ t, ser (.seq heyValue L.length) env [.list (clueVals L)] 0 = .ok (1, t) := by
  have hlen : (clueVals L).length = L.length := by simp [clueVals]
  refine ⟨⟨by simp [noBoolL, PyVal.noBool, noBoolL_clueVals], ?_⟩, ?_⟩
  · simp only [Tight]
    intro l hl
    simp at hl
    subst hl
    exact ⟨by omega, fun p => by simp [heyValue, Tight, TightAll]⟩
  · obtain ⟨t, ht⟩ := seqSerLoop_total (ser heyValue env) (clueVals L) (fun p hp => hey_step L hL env p hp)
      ((clueVals L).length + 1) 0 [] (by omega) (by omega)
    refine ⟨t, ?_⟩
    simp only [ser, seqSer, withItem]
    simp [← hlen, ht]

/-- the canonical re-ordering of a list of clue values is again a list of clue values, one per room -/
theorem canon_clues {h w : Nat} {rooms : List (List (Nat × Nat))} (hv : ValidPartition h w rooms) (clues : List Int)
    (hl : clues.length = rooms.length) (hcl : ∀ c ∈ clues, ClueVal c) :
    ∃ cl : List Int, canonValues h w rooms (clueVals clues) = clueVals cl ∧ cl.length = rooms.length ∧
      ∀ c ∈ cl, ClueVal c := by
  have hl' : (clueVals clues).length = rooms.length := by simpa [clueVals] using hl
  rw [canonValues_sorted hv hl']
  have hperm := (sortZ_perm (rooms.zip (clueVals clues))).map Prod.snd
  rw [List.map_snd_zip (by omega)] at hperm
  -- a permutation of `clues.map .int` is `cl.map .int` for a permutation `cl` of `clues`
  have key : ∀ (l : List PyVal), l.Perm (clueVals clues) → ∃ cl : List Int, l = clueVals cl ∧ cl.Perm clues := by
    intro l hlp
    refine ⟨l.filterMap (fun v => match v with | .int c => some c | _ => Option.none), ?_, ?_⟩
    · have hall : ∀ v ∈ l, ∃ c, v = PyVal.int c := by
        intro v hv'
        have := hlp.mem_iff.1 hv'
        simp only [clueVals, List.mem_map] at this
        obtain ⟨c, _, rfl⟩ := this
        exact ⟨c, rfl⟩
      clear hlp
      induction l with
      | nil => rfl
      | cons a l ih =>
        obtain ⟨c, rfl⟩ := hall a (by simp)
        have := ih (fun v hv' => hall v (List.mem_cons_of_mem _ hv'))
        simp only [clueVals, List.filterMap_cons, List.map_cons] at this ⊢
        rw [← this]
    · have := hlp.filterMap (fun v => match v with | PyVal.int c => some c | _ => Option.none)
      have e : (clueVals clues).filterMap (fun v => match v with | PyVal.int c => some c | _ => Option.none) = clues := by
        simp only [clueVals, List.filterMap_map]
        induction clues with
        | nil => rfl
        | cons a l ih => simp [List.filterMap_cons]
      rw [e] at this
      exact this
  obtain ⟨cl, hcl1, hcl2⟩ := key _ hperm
  exact ⟨cl, hcl1, by rw [hcl2.length_eq, hl], fun c hc => hcl c (hcl2.mem_iff.1 hc)⟩

/-- the body of a heyawake URL: produced, decoded back, and read by the independent decoder (no URL layer involved) -/
theorem heyawake_body (h w : Nat) (hh : 1 ≤ h) (hw : 1 ≤ w)
    (rooms : List (List (Nat × Nat))) (hv : ValidPartition h w rooms) (clues : List Int)
    (hl : clues.length = rooms.length) (hcl : ∀ c ∈ clues, ClueVal c) :
    ∃ body, serProblem Gen.heyawakeCodec.comb (.tuple [roomsVal rooms, .list (clueVals clues)]) h w = .ok body ∧
      de Gen.heyawakeCodec.comb ⟨h, w⟩ body 0 = .ok (body.length,
        [.tuple [roomsVal (canonRooms h w rooms), .list (canonValues h w rooms (clueVals clues))]]) ∧
      ∃ cl : List Int, canonValues h w rooms (clueVals clues) = clueVals cl ∧
        Pzpr.decodeHeyawakeN h w rooms.length body = some (bordersOf h w rooms, cl) := by
  have hl' : (clueVals clues).length = rooms.length := by simpa [clueVals] using hl
  obtain ⟨cl, hcv, hcll, hclv⟩ := canon_clues hv clues hl hcl
  obtain ⟨hgood, t2, ht2⟩ := hey_seq cl hclv ⟨h, w⟩
  rw [hcll] at hgood ht2
  -- the text: rooms part ++ values part
  obtain ⟨sz, hperm⟩ := sortedZ_of_valid hv hl'
  have hv' := hv.of_perm hperm
  obtain ⟨t1, hs1, _⟩ := rooms_roundtrip h w hh hw (borders_roundtrip h w) _ hv' true false
  have hser : ser Gen.heyawakeCodec.comb ⟨h, w⟩ [.tuple [roomsVal rooms, .list (clueVals clues)]] 0 = .ok (1, t1 ++ t2) := by
    rw [heyawake_comb]
    simp only [ser]
    rw [valuedRoomsSer_sorted _ ⟨h, w⟩ true rooms (clueVals clues) hv.nonempty hl' (rooms_ne_nil hh hw hv), hs1,
      ← canonValues_sorted hv hl', hcv]
    have : seqSer (ser heyValue ⟨h, w⟩) rooms.length [.list (clueVals cl)] 0 = .ok (1, t2) := by
      simpa [ser] using ht2
    rw [this]
    rfl
  have hsp := serProblem_of_ser _ _ h w _ hser
  obtain ⟨t, hst, hde⟩ := valuedRooms_term_roundtrip h w heyValue rooms (clueVals clues) true false hh hw hv hl'
    (by decide) (by decide) (by rw [hcv]; exact hgood) ⟨t2, by rw [hcv]; exact ht2⟩
  have htt : t = t1 ++ t2 := by
    rw [← heyawake_comb, hser] at hst
    simp only [Outcome.ok.injEq, Prod.mk.injEq, true_and] at hst
    exact hst.symm
  subst htt
  have hde0 := hde [] []
  simp only [List.nil_append, List.append_nil, List.length_nil] at hde0
  rw [← heyawake_comb] at hde0
  refine ⟨t1 ++ t2, hsp, hde0, cl, hcv, ?_⟩
  have hb := C16Bits.pzpr_rooms_borders h w hh hw _ hv' true false t1 (by simpa [ser] using hs1) t2
  have hn := C16PzprNum.pzpr_clue_seq ⟨h, w⟩ cl hclv t2 (by rw [hcll]; exact ht2)
  rw [hcll] at hn
  rw [bordersOf_perm hv hperm] at hb
  simp [Pzpr.decodeHeyawakeN, hb, hn, Pzpr.whole]

theorem roundtrip_heyawake (h w : Nat) (hh : 1 ≤ h) (hw : 1 ≤ w) (hdh : DecimalOk h) (hdw : DecimalOk w)
    (rooms : List (List (Nat × Nat))) (hv : ValidPartition h w rooms) (clues : List Int)
    (hl : clues.length = rooms.length) (hcl : ∀ c ∈ clues, ClueVal c) :
    ∃ body, serProblem Gen.heyawakeCodec.comb (.tuple [roomsVal rooms, .list (clueVals clues)]) h w = .ok body ∧
      serializeHeyawake h w (roomsVal rooms) (.list (clueVals clues))
        = .ok (defaultPrefix ++ tail Gen.heyawakeCodec.urlName w h body) ∧
      deserializePuzzle Gen.heyawakeCodec (defaultPrefix ++ tail Gen.heyawakeCodec.urlName w h body)
        = .ok (.tuple [.int h, .int w,
            .tuple [roomsVal (canonRooms h w rooms), .list (canonValues h w rooms (clueVals clues))]]) ∧
      getPuzzleInfo (defaultPrefix ++ tail Gen.heyawakeCodec.urlName w h body) = .ok (Gen.heyawakeCodec.urlName, h, w) ∧
      ∃ cl : List Int, canonValues h w rooms (clueVals clues) = clueVals cl ∧
        Pzpr.decodeHeyawakeN h w rooms.length body = some (bordersOf h w rooms, cl) := by
  obtain ⟨body, hsp, hde0, hpz⟩ := heyawake_body h w hh hw rooms hv clues hl hcl
  refine ⟨body, hsp, ?_, ?_, ?_, hpz⟩
  · unfold serializeHeyawake
    exact serProblemAsUrl_frame _ _ h w _ defaultPrefix _ hsp
  · unfold deserializePuzzle
    rw [deProblemAsUrl_frame _ Gen.heyawakeCodec.urlName w h _ _ _ _ ⟨by decide, by decide⟩ hdw hdh
      (serProblem_noNL _ (by decide) _ h w _ hsp) (by decide), deProblem_of_de _ _ h w _ _ hde0]
    rfl
  · exact getPuzzleInfo_frame defaultPrefix _ w h _ (Or.inl rfl) ⟨by decide, by decide⟩ hdw hdh

end Cspuz.Proofs.C16Rooms
