/-
  C11 (nurimaze) — facts about the grid multigraph `Graph.grid h w`: it has no self-loops, no parallel
  edges, and "the active vertices form a tree" is the same thing on the grid graph and on the spec's
  orthogonal cell adjacency.
-/
import CspuzModel.Proofs.C11CellGraph
import Mathlib.Combinatorics.SimpleGraph.Acyclic
namespace Cspuz.Proofs.C11NurimazeG
open Cspuz Cspuz.Spec Cspuz.Proofs

theorem grid_loopFree (h w : Nat) : LoopFree (Graph.grid h w) := by
  rintro ⟨a, b⟩ he
  rw [C04Prim.mem_grid_edges] at he
  obtain ⟨y, _, x, hx, ⟨_, h2, h3⟩ | ⟨_, h2, h3⟩⟩ := he
  · simp only; omega
  · simp only
    have : (y + 1) * w = y * w + w := by rw [Nat.add_mul, Nat.one_mul]
    omega

/-- Every edge of the grid graph is listed with its smaller endpoint first. -/
theorem grid_edge_lt (h w : Nat) (e : Nat × Nat) (he : e ∈ (Graph.grid h w).edges) : e.1 < e.2 := by
  obtain ⟨a, b⟩ := e
  rw [C04Prim.mem_grid_edges] at he
  obtain ⟨y, _, x, hx, ⟨_, h2, h3⟩ | ⟨_, h2, h3⟩⟩ := he
  · simp only; omega
  · simp only
    have : (y + 1) * w = y * w + w := by rw [Nat.add_mul, Nat.one_mul]
    omega

/-- `Nodup` of a `flatMap` over a range. -/
theorem nodup_flatMap_range {α : Type} (n : Nat) (f : Nat → List α)
    (h1 : ∀ i, i < n → (f i).Nodup)
    (h2 : ∀ i j, i < n → j < n → i ≠ j → ∀ a ∈ f i, ∀ b ∈ f j, a ≠ b) :
    ((List.range n).flatMap f).Nodup := by
  unfold List.Nodup
  rw [List.pairwise_flatMap]
  refine ⟨fun i hi => h1 i (List.mem_range.mp hi), ?_⟩
  refine List.Pairwise.imp_of_mem ?_ (List.pairwise_lt_range (n := n))
  intro i j hi hj hij a ha b hb
  exact h2 i j (List.mem_range.mp hi) (List.mem_range.mp hj) (Nat.ne_of_lt hij) a ha b hb

/-- The edges produced for the cell `(y, x)`. -/
def cellEdges (h w y x : Nat) : List (Nat × Nat) :=
  (if x + 1 < w then [(y * w + x, y * w + (x + 1))] else []) ++
  (if y + 1 < h then [(y * w + x, (y + 1) * w + x)] else [])

theorem cellEdges_fst {h w y x : Nat} {e : Nat × Nat} (he : e ∈ cellEdges h w y x) :
    e.1 = y * w + x := by
  unfold cellEdges at he
  rw [List.mem_append] at he
  rcases he with he | he <;> split at he <;> simp at he <;> rw [he]

theorem cellEdges_nodup (h w y x : Nat) : (cellEdges h w y x).Nodup := by
  unfold cellEdges
  have : (y + 1) * w = y * w + w := by rw [Nat.add_mul, Nat.one_mul]
  split <;> split <;> simp
  omega

theorem grid_edges_eq (h w : Nat) : (Graph.grid h w).edges =
    (List.range h).flatMap fun y => (List.range w).flatMap fun x => cellEdges h w y x := rfl

theorem grid_edges_nodup (h w : Nat) : (Graph.grid h w).edges.Nodup := by
  rw [grid_edges_eq]
  have row : ∀ y (e : Nat × Nat), e ∈ ((List.range w).flatMap fun x => cellEdges h w y x) →
      ∃ x, x < w ∧ e.1 = y * w + x := by
    intro y e he
    rw [List.mem_flatMap] at he
    obtain ⟨x, hx, he⟩ := he
    exact ⟨x, List.mem_range.mp hx, cellEdges_fst he⟩
  apply nodup_flatMap_range
  · intro y _
    apply nodup_flatMap_range
    · intro x _; exact cellEdges_nodup h w y x
    · intro x x' _ _ hne a ha b hb hab
      have h1 := cellEdges_fst ha
      have h2 := cellEdges_fst hb
      rw [hab] at h1
      omega
  · intro y y' _ _ hne a ha b hb hab
    obtain ⟨x, hx, h1⟩ := row y a ha
    obtain ⟨x', hx', h2⟩ := row y' b hb
    rw [hab, h2] at h1
    have := (C11Grid.cell_div_mod (y := y) hx).1
    have := (C11Grid.cell_div_mod (y := y') hx').1
    apply hne
    rw [← ‹(y * w + x) / w = y›, ← ‹(y' * w + x') / w = y'›, h1]

/-- The grid graph has no parallel edges at all. -/
theorem grid_noParallel (h w : Nat) (act : Nat → Bool) : NoParallelActive (Graph.grid h w) act := by
  intro k l u v hkl hk hl _
  have key : ∀ k, Joins (Graph.grid h w) k u v →
      (Graph.grid h w).edges[k]? = some (min u v, max u v) := by
    intro k hk
    rcases hk with hk | hk
    · have := grid_edge_lt h w _ (List.mem_of_getElem? hk)
      simp only at this
      rw [hk, Nat.min_eq_left (Nat.le_of_lt this), Nat.max_eq_right (Nat.le_of_lt this)]
    · have := grid_edge_lt h w _ (List.mem_of_getElem? hk)
      simp only at this
      rw [hk, Nat.min_eq_right (Nat.le_of_lt this), Nat.max_eq_left (Nat.le_of_lt this)]
  have e1 := key k hk
  have e2 := key l hl
  have hlt : k < (Graph.grid h w).edges.length := by
    rcases Nat.lt_or_ge k (Graph.grid h w).edges.length with h' | h'
    · exact h'
    · rw [List.getElem?_eq_none h'] at e1; cases e1
  exact hkl ((List.getElem?_inj hlt (grid_edges_nodup h w)).1 (e1.trans e2.symm))

/-- The active vertices of the grid graph form a tree (or there is none) iff the corresponding cells do. -/
theorem activeTree_grid_iff (h w : Nat) (act : Nat → Bool) (S : Nat → Nat → Prop)
    (hS : ∀ y x, y < h → x < w → (act (y * w + x) = true ↔ S y x)) :
    ActiveTreeOrEmpty (Graph.grid h w) act ↔
      ((∀ v, v < h * w → act v = false) ∨ (cellGraph.induce (cellSet h w S)).IsTree) := by
  have hn : (Graph.grid h w).n = h * w := rfl
  let e : ↥(activeSet (Graph.grid h w) act) ≃ ↥(cellSet h w S) :=
    { toFun := fun v => ⟨(v.1.1 / w, v.1.1 % w), by
        have hv : v.1.1 < h * w := v.1.2
        have hdm := C11Grid.div_lt_of_lt_mul hv
        refine ⟨hdm.1, hdm.2, (hS _ _ hdm.1 hdm.2).1 ?_⟩
        have : act v.1.1 = true := v.2
        rwa [Nat.div_add_mod' v.1.1 w]⟩
      invFun := fun p => ⟨⟨p.1.1 * w + p.1.2, C11Grid.cell_lt p.2.1 p.2.2.1⟩, by
        show act (p.1.1 * w + p.1.2) = true
        exact (hS _ _ p.2.1 p.2.2.1).2 p.2.2.2⟩
      left_inv := by
        rintro ⟨⟨v, hv⟩, hact⟩
        apply Subtype.ext; apply Fin.ext
        exact Nat.div_add_mod' v w
      right_inv := by
        rintro ⟨⟨y, x⟩, hy, hx, hs⟩
        apply Subtype.ext
        simp only
        rw [(C11Grid.cell_div_mod hx).1, (C11Grid.cell_div_mod hx).2] }
  have iso : (toSimple (Graph.grid h w)).induce (activeSet (Graph.grid h w) act) ≃g
      cellGraph.induce (cellSet h w S) :=
    { toEquiv := e
      map_rel_iff' := by
        rintro ⟨u, hu⟩ ⟨v, hv⟩
        simp only [SimpleGraph.comap_adj, Function.Embedding.subtype_apply]
        rw [C04Prim.grid_adj]
        rfl }
  unfold ActiveTreeOrEmpty
  rw [iso.isTree_iff, and_iff_left (grid_noParallel h w act)]
  exact Iff.rfl

end Cspuz.Proofs.C11NurimazeG
