/-
  C11 / gokigen, part G: the forest condition of `active_edges_acyclic` on the graph built by `solve_gokigen`
  is "the drawn diagonals form no closed loop" (acyclicity of the graph drawn on the lattice points).
-/
import CspuzModel.Proofs.C11GokigenA
namespace Cspuz.Proofs.C11GokigenG
open Cspuz Cspuz.Spec Cspuz.Puzzles Cspuz.Puzzles.Gokigen Cspuz.Proofs Cspuz.Spec.Gokigen
open Cspuz.Proofs.C11GokigenA

/-! ### a general fact on acyclicity -/

/-- If every edge of `G` lies inside `s`, a cycle of `G` is a cycle of `G[s]`. -/
theorem isAcyclic_of_induce {V : Type} {G : SimpleGraph V} (s : Set V) (hs : ∀ u v, G.Adj u v → u ∈ s)
    (h : (G.induce s).IsAcyclic) : G.IsAcyclic := by
  intro a c hc
  have hsup : ∀ {u v : V} (p : G.Walk u v), u ∈ s → ∀ x ∈ p.support, x ∈ s := by
    intro u v p
    induction p with
    | nil =>
      intro hu x hx
      simp only [SimpleGraph.Walk.support_nil, List.mem_singleton] at hx
      subst hx; exact hu
    | cons hadj p ih =>
      intro hu x hx
      rw [SimpleGraph.Walk.support_cons, List.mem_cons] at hx
      rcases hx with rfl | hx
      · exact hu
      · exact ih (hs _ _ hadj.symm) x hx
  have ha : a ∈ s := by
    cases c with
    | nil => exact absurd rfl hc.ne_nil
    | cons hadj p => exact hs _ _ hadj
  apply h (c.induce s (hsup c ha))
  apply SimpleGraph.Walk.IsCycle.of_map (f := (SimpleGraph.Embedding.induce s).toHom)
  rw [SimpleGraph.Walk.map_induce]; exact hc

/-! ### arithmetic of the lattice numbering -/

theorem vtx_inj {W y x y' x' : Nat} (hx : x < W) (hx' : x' < W) (h : y * W + x = y' * W + x') :
    y = y' ∧ x = x' := by
  have h1 := C11Grid.cell_div_mod (y := y) hx
  have h2 := C11Grid.cell_div_mod (y := y') hx'
  rw [h] at h1
  exact ⟨h1.1.symm.trans h2.1, h1.2.symm.trans h2.2⟩

theorem divmod_ext {w i j : Nat} (h1 : i / w = j / w) (h2 : i % w = j % w) : i = j := by
  have a := Nat.div_add_mod i w
  have b := Nat.div_add_mod j w
  rw [h1, h2] at a
  omega

/-! ### the edges of the graph, by position -/

/-- The `\` edge of the cell number `i`. -/
def E1 (w i : Nat) : Nat × Nat := ((i / w) * (w + 1) + i % w, (i / w + 1) * (w + 1) + (i % w + 1))
/-- The `/` edge of the cell number `i`. -/
def E2 (w i : Nat) : Nat × Nat := ((i / w) * (w + 1) + (i % w + 1), (i / w + 1) * (w + 1) + i % w)

theorem edges_getElem? (h w k : Nat) :
    (diagGraph h w).edges[k]? =
      if k < 2 * (h * w) then some (if k % 2 = 0 then E1 w (k / 2) else E2 w (k / 2)) else none := by
  rw [diagGraph_edges]
  exact pairs_getElem? (E1 w) (E2 w) (h * w) k

theorem E_inj {h w i j : Nat} (hi : i < h * w) (hj : j < h * w) :
    (E1 w i = E1 w j → i = j) ∧ (E2 w i = E2 w j → i = j) ∧ E1 w i ≠ E2 w j := by
  have hi' := (C11Grid.div_lt_of_lt_mul hi).2
  have hj' := (C11Grid.div_lt_of_lt_mul hj).2
  refine ⟨?_, ?_, ?_⟩
  · intro he
    simp only [E1, Prod.mk.injEq] at he
    obtain ⟨e1, e2⟩ := vtx_inj (W := w + 1) (by omega) (by omega) he.1
    exact divmod_ext e1 e2
  · intro he
    simp only [E2, Prod.mk.injEq] at he
    obtain ⟨e1, e2⟩ := vtx_inj (W := w + 1) (by omega) (by omega) he.1
    exact divmod_ext e1 (by omega)
  · intro he
    simp only [E1, E2, Prod.mk.injEq, Nat.succ_mul] at he
    omega

theorem edge_index_unique {h w k l : Nat} {e : Nat × Nat}
    (hk : (diagGraph h w).edges[k]? = some e) (hl : (diagGraph h w).edges[l]? = some e) : k = l := by
  rw [edges_getElem?] at hk hl
  split at hk
  · rename_i hk'
    split at hl
    · rename_i hl'
      simp only [Option.some.injEq] at hk hl
      have hi : k / 2 < h * w := by omega
      have hj : l / 2 < h * w := by omega
      obtain ⟨i1, i2, i3⟩ := E_inj hi hj
      have i3' := (E_inj hj hi).2.2
      by_cases pk : k % 2 = 0 <;> by_cases pl : l % 2 = 0
      · rw [if_pos pk] at hk; rw [if_pos pl] at hl
        have := i1 (hk.trans hl.symm); omega
      · rw [if_pos pk] at hk; rw [if_neg pl] at hl
        exact absurd (hk.trans hl.symm) i3
      · rw [if_neg pk] at hk; rw [if_pos pl] at hl
        exact absurd (hl.trans hk.symm) i3'
      · rw [if_neg pk] at hk; rw [if_neg pl] at hl
        have := i2 (hk.trans hl.symm); omega
    · cases hl
  · cases hk

/-- No two distinct edges of the graph join the same pair of lattice points. -/
theorem joins_unique {h w k l u v : Nat} (hk : Joins (diagGraph h w) k u v) (hl : Joins (diagGraph h w) l u v) :
    k = l := by
  rcases hk with hk | hk <;> rcases hl with hl | hl
  · exact edge_index_unique hk hl
  · have a := diagGraph_lt (List.mem_of_getElem? hk)
    have b := diagGraph_lt (List.mem_of_getElem? hl)
    simp only at a b; omega
  · have a := diagGraph_lt (List.mem_of_getElem? hk)
    have b := diagGraph_lt (List.mem_of_getElem? hl)
    simp only at a b; omega
  · exact edge_index_unique hk hl

/-! ### which edges are active -/

theorem elE_getElem? (n k : Nat) :
    (elE n)[k]? = if k < 2 * n then some (if k % 2 = 0 then .bvar (k / 2) else .node .not [.bvar (k / 2)]) else none :=
  pairs_getElem? _ _ n k

theorem truthAt_elE (σ : Asg) (n k : Nat) :
    truthAt σ (elE n) k = (decide (k < 2 * n) && (if k % 2 = 0 then σ.b (k / 2) else !σ.b (k / 2))) := by
  unfold truthAt
  rw [elE_getElem?]
  by_cases hk : k < 2 * n
  · rw [if_pos hk]
    by_cases pk : k % 2 = 0
    · simp only [pk, if_true, hk, decide_true, Bool.true_and, eval_bvar]
      cases σ.b (k / 2) <;> rfl
    · simp only [pk, if_false, hk, decide_true, Bool.true_and]
      rw [eval_not (eval_bvar σ _)]
      cases σ.b (k / 2) <;> rfl
  · simp [hk]

/-- The diagonal drawn in some cell joins the lattice points numbered `a` (upper end) and `b` (lower end). -/
def DiagN (h w : Nat) (g : Nat → Nat → Bool) (a b : Nat) : Prop :=
  ∃ y x, y < h ∧ x < w ∧
    ((g y x = true ∧ a = y * (w + 1) + x ∧ b = (y + 1) * (w + 1) + (x + 1)) ∨
     (g y x = false ∧ a = y * (w + 1) + (x + 1) ∧ b = (y + 1) * (w + 1) + x))

theorem active_edge_iff {h w : Nat} {σ : Asg} {g : Nat → Nat → Bool}
    (hg : ∀ y, y < h → ∀ x, x < w → g y x = σ.b (y * w + x)) (a b : Nat) :
    (∃ k, truthAt σ (elE (h * w)) k = true ∧ (diagGraph h w).edges[k]? = some (a, b)) ↔ DiagN h w g a b := by
  constructor
  · rintro ⟨k, hact, hk⟩
    rw [truthAt_elE, Bool.and_eq_true, decide_eq_true_eq] at hact
    obtain ⟨hk', hact⟩ := hact
    rw [edges_getElem?, if_pos hk', Option.some.injEq] at hk
    have hi : k / 2 < h * w := by omega
    obtain ⟨hy, hx⟩ := C11Grid.div_lt_of_lt_mul hi
    have hgi : g (k / 2 / w) (k / 2 % w) = σ.b (k / 2) := by
      rw [hg _ hy _ hx, Nat.div_add_mod' (k / 2) w]
    refine ⟨k / 2 / w, k / 2 % w, hy, hx, ?_⟩
    by_cases pk : k % 2 = 0
    · rw [if_pos pk] at hk hact
      simp only [E1, Prod.mk.injEq] at hk
      exact Or.inl ⟨hgi.trans hact, hk.1.symm, hk.2.symm⟩
    · rw [if_neg pk] at hk hact
      simp only [E2, Prod.mk.injEq] at hk
      refine Or.inr ⟨hgi.trans ?_, hk.1.symm, hk.2.symm⟩
      simpa using hact
  · rintro ⟨y, x, hy, hx, hd⟩
    have hc := C11Grid.cell_lt hy hx
    have hdm := C11Grid.cell_div_mod (y := y) hx
    rcases hd with ⟨hgv, rfl, rfl⟩ | ⟨hgv, rfl, rfl⟩
    · refine ⟨2 * (y * w + x), ?_, ?_⟩
      · rw [truthAt_elE, show 2 * (y * w + x) % 2 = 0 by omega, show 2 * (y * w + x) / 2 = y * w + x by omega,
          ← hg y hy x hx, hgv]
        simp; omega
      · rw [edges_getElem?, if_pos (by omega), show 2 * (y * w + x) % 2 = 0 by omega,
          show 2 * (y * w + x) / 2 = y * w + x by omega]
        simp only [if_true, E1, hdm.1, hdm.2]
    · refine ⟨2 * (y * w + x) + 1, ?_, ?_⟩
      · rw [truthAt_elE, show (2 * (y * w + x) + 1) % 2 = 1 by omega,
          show (2 * (y * w + x) + 1) / 2 = y * w + x by omega, ← hg y hy x hx, hgv]
        simp; omega
      · rw [edges_getElem?, if_pos (by omega), show (2 * (y * w + x) + 1) % 2 = 1 by omega,
          show (2 * (y * w + x) + 1) / 2 = y * w + x by omega]
        simp only [Nat.one_ne_zero, if_false, E2, hdm.1, hdm.2]

theorem active_joins_iff {h w : Nat} {σ : Asg} {g : Nat → Nat → Bool}
    (hg : ∀ y, y < h → ∀ x, x < w → g y x = σ.b (y * w + x)) (a b : Nat) :
    (∃ k, truthAt σ (elE (h * w)) k = true ∧ Joins (diagGraph h w) k a b) ↔ DiagN h w g a b ∨ DiagN h w g b a := by
  rw [← active_edge_iff hg a b, ← active_edge_iff hg b a]
  unfold Joins
  constructor
  · rintro ⟨k, hk, hj | hj⟩
    · exact Or.inl ⟨k, hk, hj⟩
    · exact Or.inr ⟨k, hk, hj⟩
  · rintro (⟨k, hk, hj⟩ | ⟨k, hk, hj⟩)
    · exact ⟨k, hk, Or.inl hj⟩
    · exact ⟨k, hk, Or.inr hj⟩

/-! ### numbered lattice points vs. lattice points -/

theorem diagN_of_diagonal {h w : Nat} {g : Nat → Nat → Bool} {p q : Nat × Nat} (hd : Diagonal h w g p q) :
    DiagN h w g (p.1 * (w + 1) + p.2) (q.1 * (w + 1) + q.2) := by
  obtain ⟨y, x, hy, hx, hd⟩ := hd
  refine ⟨y, x, hy, hx, ?_⟩
  rcases hd with ⟨hgv, rfl, rfl⟩ | ⟨hgv, rfl, rfl⟩
  · exact Or.inl ⟨hgv, rfl, rfl⟩
  · exact Or.inr ⟨hgv, rfl, rfl⟩

theorem diagonal_of_diagN {h w : Nat} {g : Nat → Nat → Bool} {a b : Nat} (hd : DiagN h w g a b) :
    Diagonal h w g (a / (w + 1), a % (w + 1)) (b / (w + 1), b % (w + 1)) := by
  obtain ⟨y, x, hy, hx, hd⟩ := hd
  refine ⟨y, x, hy, hx, ?_⟩
  have e1 := C11Grid.cell_div_mod (w := w + 1) (y := y) (x := x) (by omega)
  have e2 := C11Grid.cell_div_mod (w := w + 1) (y := y + 1) (x := x + 1) (by omega)
  have e3 := C11Grid.cell_div_mod (w := w + 1) (y := y) (x := x + 1) (by omega)
  have e4 := C11Grid.cell_div_mod (w := w + 1) (y := y + 1) (x := x) (by omega)
  rcases hd with ⟨hgv, rfl, rfl⟩ | ⟨hgv, rfl, rfl⟩
  · exact Or.inl ⟨hgv, by rw [e1.1, e1.2], by rw [e2.1, e2.2]⟩
  · exact Or.inr ⟨hgv, by rw [e3.1, e3.2], by rw [e4.1, e4.2]⟩

/-- The ends of a diagonal are lattice points of the board. -/
theorem diagonal_mem {h w : Nat} {g : Nat → Nat → Bool} {p q : Nat × Nat} (hd : Diagonal h w g p q) :
    (p.1 ≤ h ∧ p.2 ≤ w) ∧ (q.1 ≤ h ∧ q.2 ≤ w) := by
  obtain ⟨y, x, hy, hx, hd⟩ := hd
  rcases hd with ⟨_, rfl, rfl⟩ | ⟨_, rfl, rfl⟩ <;> simp only <;> omega

/-! ### the two graphs have the same cycles -/

/-- The lattice points of the board. -/
def lattice (h w : Nat) : Set (Nat × Nat) := {p | p.1 ≤ h ∧ p.2 ≤ w}

theorem forest_iff_acyclic {h w : Nat} {σ : Asg} {g : Nat → Nat → Bool}
    (hg : ∀ y, y < h → ∀ x, x < w → g y x = σ.b (y * w + x)) :
    EdgesForest (diagGraph h w) (truthAt σ (elE (h * w))) ↔ (drawn h w g).IsAcyclic := by
  unfold EdgesForest
  rw [and_iff_left (fun k l u v hkl _ _ hk hl => hkl (joins_unique hk hl))]
  constructor
  · intro hac
    apply isAcyclic_of_induce (lattice h w)
    · intro u v huv
      rw [drawn, SimpleGraph.fromRel_adj] at huv
      rcases huv.2 with hd | hd
      · exact (diagonal_mem hd).1
      · exact (diagonal_mem hd).2
    · -- numbering the lattice points is an injective homomorphism into the active-edge graph
      let f : (lattice h w) → Fin (diagGraph h w).n := fun p => ⟨p.1.1 * (w + 1) + p.1.2, lattice_lt p.2.1 p.2.2⟩
      have finj : Function.Injective f := by
        intro p q hpq
        have hpq' : p.1.1 * (w + 1) + p.1.2 = q.1.1 * (w + 1) + q.1.2 := congrArg Fin.val hpq
        have hp := p.2.2
        have hq := q.2.2
        obtain ⟨e1, e2⟩ := vtx_inj (W := w + 1) (by omega) (by omega) hpq'
        exact Subtype.ext (Prod.ext e1 e2)
      refine SimpleGraph.IsAcyclic.comap (G' := activeEdgeGraph (diagGraph h w) (truthAt σ (elE (h * w))))
        ⟨f, ?_⟩ finj hac
      intro p q hpq
      have hpq' : (drawn h w g).Adj p.1 q.1 := hpq
      rw [drawn, SimpleGraph.fromRel_adj] at hpq'
      refine ⟨fun e => hpq'.1 (congrArg Subtype.val (finj e)), ?_⟩
      show ∃ k, truthAt σ (elE (h * w)) k = true ∧
        Joins (diagGraph h w) k (p.1.1 * (w + 1) + p.1.2) (q.1.1 * (w + 1) + q.1.2)
      rw [active_joins_iff hg]
      exact hpq'.2.imp diagN_of_diagonal diagN_of_diagonal
  · intro hac
    -- reading a number as a lattice point is an injective homomorphism into the drawn graph
    let f : Fin (diagGraph h w).n → Nat × Nat := fun v => (v.1 / (w + 1), v.1 % (w + 1))
    have finj : Function.Injective f := by
      intro u v huv
      simp only [f, Prod.mk.injEq] at huv
      exact Fin.ext (divmod_ext huv.1 huv.2)
    refine SimpleGraph.IsAcyclic.comap (G' := drawn h w g) ⟨f, ?_⟩ finj hac
    intro u v huv
    obtain ⟨hne, hk⟩ := huv
    rw [active_joins_iff hg] at hk
    show (drawn h w g).Adj (f u) (f v)
    rw [drawn, SimpleGraph.fromRel_adj]
    exact ⟨fun e => hne (finj e), hk.imp diagonal_of_diagN diagonal_of_diagN⟩

end Cspuz.Proofs.C11GokigenG
