/-
  C01 assembly: the four lemmas used by Properties/C01.lean.
-/
import CspuzModel.Proofs.C01Trans
import CspuzModel.Proofs.C01Sess
namespace Cspuz.Proofs.C01
open Cspuz Cspuz.Spec

theorem translation_faithful :
    ∀ (e : Expr) (σ : Asg), (wtB e = true ∨ wtI e = true) →
      ∃ r, convertExpr e = .ok r ∧ r.val σ = eval σ e :=
  Cspuz.Proofs.C01Trans.translation_faithful

theorem backend_correct : ∀ (o : Z3Oracle), o.Correct → (z3Backend o).Correct :=
  Cspuz.Proofs.C01Sess.backend_correct

theorem find_answer_exact :
    ∀ (B : Backend), B.Correct → ∀ (st : SolverState), (∀ c ∈ st.cs, wtB c = true) →
    ((findAnswer B st).2 = .verdict true ∨ (findAnswer B st).2 = .verdict false) ∧
    ((findAnswer B st).2 = .verdict true ↔ Satisfiable st.decls st.cs) ∧
    ((findAnswer B st).2 = .verdict true →
      ∃ σ, Sat st.decls st.cs σ ∧ (findAnswer B st).1.sol = publish st.decls σ) :=
  Cspuz.Proofs.C01Sess.find_answer_exact

theorem session :
    ∀ (B : Backend), B.Correct → ∀ (ops : List SolverOp), WellTyped ops →
    ∀ k, ops[k]? = some .findAnswer →
      let pre := ops.take k
      let st := (runSession B {} pre).1
      st.decls = declsOf pre ∧ st.cs = csOf pre ∧
      ((runSession B {} ops).2[k]? = some (.verdict true) ∨ (runSession B {} ops).2[k]? = some (.verdict false)) ∧
      ((runSession B {} ops).2[k]? = some (.verdict true) ↔ Satisfiable (declsOf pre) (csOf pre)) ∧
      ((runSession B {} ops).2[k]? = some (.verdict true) →
        ∃ σ, Sat (declsOf pre) (csOf pre) σ ∧ (runSession B {} (ops.take (k + 1))).1.sol = publish (declsOf pre) σ) :=
  Cspuz.Proofs.C01Sess.session

end Cspuz.Proofs.C01
