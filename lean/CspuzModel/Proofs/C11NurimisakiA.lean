/-
  C11 / Nurimisaki, part A — the program posted by `solve_nurimisaki` in closed form (`program_eq`).
-/
import CspuzModel.Spec.PuzzleRules.Nurimisaki
import CspuzModel.Proofs.C11CL
import CspuzModel.Proofs.C11Grid
import CspuzModel.Proofs.C11FragWT
import CspuzModel.Proofs.C12Conv
import CspuzModel.Proofs.C04L1
import CspuzModel.Proofs.C04Prim
import CspuzModel.Proofs.C11Norinori
namespace Cspuz.Proofs.C11NurimisakiA
open Cspuz Cspuz.Spec Cspuz.Puzzles Cspuz.Puzzles.Nurimisaki Cspuz.Spec.Nurimisaki Cspuz.Proofs

/-! ### table lookup -/

theorem tableGet_eq {pb : Problem} (hwf : WellFormed pb) {y x : Nat} (hy : y < pb.height) (hx : x < pb.width) :
    tableGet pb.problem (y : Int) (x : Int) = .ok (val pb y x) := by
  obtain ⟨_, _, hlen, hrow⟩ := hwf
  have hy' : y < pb.problem.length := by omega
  have hr := (hrow _ (List.getElem_mem hy')).1
  have hx' : x < (pb.problem[y]).length := by omega
  simp only [tableGet, val]
  rw [C13.pyIndex_natCast _ _ hy', List.getElem?_eq_getElem hy']
  simp only [ok_bind]
  rw [C13.pyIndex_natCast _ _ hx', List.getElem?_eq_getElem hx']
  simp [List.getD, List.getElem?_eq_getElem hy', List.getElem?_eq_getElem hx']

theorem val_cases {pb : Problem} (hwf : WellFormed pb) {y x : Nat} (hy : y < pb.height) (hx : x < pb.width) :
    val pb y x = -1 ∨ val pb y x = 0 ∨ 2 ≤ val pb y x := by
  obtain ⟨_, _, hlen, hrow⟩ := hwf
  have hy' : y < pb.problem.length := by omega
  have hr := hrow _ (List.getElem_mem hy')
  have hx' : x < (pb.problem[y]).length := by omega
  have : val pb y x = (pb.problem[y])[x] := by
    simp [val, List.getD, List.getElem?_eq_getElem hy', List.getElem?_eq_getElem hx']
  rw [this]
  exact hr.2 _ (List.getElem_mem hx')

theorem bvars_eq (n : Nat) : bvars 0 n = (List.range n).map Expr.bvar := by
  simp [bvars]

/-- The variable of cell `(y, x)`. -/
def cv (w y x : Nat) : Expr := .bvar (y * w + x)

/-! ### `fold_and` / `fold_or` on lists without Python literals -/

/-- What `fold_and` returns on a list of `BoolExpr`s. -/
def andE (l : List Expr) : Expr := if l.isEmpty then .node .boolConst [.litB true] else .node .and l

/-- What `fold_or` returns on a list of `BoolExpr`s. -/
def orE (l : List Expr) : Expr := if l.isEmpty then .node .boolConst [.litB false] else .node .or l

theorem foldAnd_go_exprs : ∀ (l acc : List Expr), (∀ x ∈ l, x.isBoolExpr = true) →
    foldAnd.go l acc = .ok (andE (acc.reverse ++ l))
  | [], acc, _ => by
    simp only [foldAnd.go, andE, List.append_nil, List.isEmpty_reverse]
    split <;> rfl
  | x :: r, acc, h => by
    have hbe := h x (by simp)
    have hgo : foldAnd.go (x :: r) acc = foldAnd.go r (x :: acc) := by
      cases x <;> simp [Expr.isBoolExpr] at hbe <;> simp [foldAnd.go, Expr.isBoolExpr, hbe]
    rw [hgo, foldAnd_go_exprs r (x :: acc) (fun y hy => h y (by simp [hy]))]
    simp

theorem foldAnd_exprs (l : List Expr) (h : ∀ x ∈ l, x.isBoolExpr = true) : foldAnd l = .ok (andE l) := by
  unfold foldAnd
  rw [foldAnd_go_exprs l [] h]; simp

theorem foldOr_go_exprs : ∀ (l acc : List Expr), (∀ x ∈ l, x.isBoolExpr = true) →
    foldOr.go l acc = .ok (orE (acc.reverse ++ l))
  | [], acc, _ => by
    simp only [foldOr.go, orE, List.append_nil, List.isEmpty_reverse]
    split <;> rfl
  | x :: r, acc, h => by
    have hbe := h x (by simp)
    have hgo : foldOr.go (x :: r) acc = foldOr.go r (x :: acc) := by
      cases x <;> simp [Expr.isBoolExpr] at hbe <;> simp [foldOr.go, Expr.isBoolExpr, hbe]
    rw [hgo, foldOr_go_exprs r (x :: acc) (fun y hy => h y (by simp [hy]))]
    simp

theorem foldOr_exprs (l : List Expr) (h : ∀ x ∈ l, x.isBoolExpr = true) : foldOr l = .ok (orE l) := by
  unfold foldOr
  rw [foldOr_go_exprs l [] h]; simp

/-! ### the 2×2 constraints -/

/-- `a | b | c | d` on the block with top-left cell `(y, x)`. -/
def orBlock (w y x : Nat) : Expr :=
  .node .or [.node .or [.node .or [cv w y x, cv w (y + 1) x], cv w y (x + 1)], cv w (y + 1) (x + 1)]

/-- `~(a & b & c & d)` on the block with top-left cell `(y, x)`. -/
def nandBlock (w y x : Nat) : Expr :=
  .node .not [.node .and [.node .and [.node .and [cv w y x, cv w (y + 1) x], cv w y (x + 1)], cv w (y + 1) (x + 1)]]

/-- The constraints posted by the two `ensure` calls on the shifted slices. -/
def blocks (h w : Nat) : List Expr :=
  ((List.range ((h - 1) * (w - 1))).map fun i => orBlock w (i / (w - 1)) (i % (w - 1))) ++
  ((List.range ((h - 1) * (w - 1))).map fun i => nandBlock w (i / (w - 1)) (i % (w - 1)))

/-- A shifted slice `[dy : h-1+dy, dx : w-1+dx]` (`dy, dx ∈ {0, 1}`). -/
theorem slice_eq (h w : Nat) (ky kx : AxisKey) (dy dx : Nat) (hdy : dy ≤ 1) (hdx : dx ≤ 1)
    (hy : axisSel h ky = .ok (false, (List.range (h - 1)).map fun j => j + dy))
    (hx : axisSel w kx = .ok (false, (List.range (w - 1)).map fun j => j + dx)) :
    getitemV (.arr2 true h w ((List.range (h * w)).map Expr.bvar)) (.pair ky kx)
      = .ok (.arr2 true (h - 1) (w - 1)
          ((List.range ((h - 1) * (w - 1))).map fun i => cv w (i / (w - 1) + dy) (i % (w - 1) + dx))) := by
  rw [C11CL.getitemV_slices true Expr.bvar h w ky kx _ _ hy hx
    (by intro y hy; simp only [List.mem_map, List.mem_range] at hy; obtain ⟨j, hj, rfl⟩ := hy; omega)
    (by intro x hx; simp only [List.mem_map, List.mem_range] at hx; obtain ⟨j, hj, rfl⟩ := hx; omega)]
  simp only [List.length_map, List.length_range, List.flatMap_map, List.map_map, Function.comp_def]
  rw [C11Grid.flatMap_range_eq (fun y x => Expr.bvar ((y + dy) * w + (x + dx)))]
  rfl

theorem zipWith_map_range (op : Op) (F G : Nat → Expr) (n : Nat) :
    List.zipWith (fun a b => Expr.node op [a, b]) ((List.range n).map F) ((List.range n).map G)
      = (List.range n).map fun i => Expr.node op [F i, G i] := by
  apply List.ext_getElem <;> simp

theorem binop_maps (o : BinOp) (op : Op) (ho : (o = .and_ ∧ op = .and) ∨ (o = .or_ ∧ op = .or))
    (H W : Nat) (F G : Nat → Expr) :
    binop o (.arr2 true H W ((List.range (H * W)).map F)) (.arr2 true H W ((List.range (H * W)).map G))
      = .ok (.arr2 true H W ((List.range (H * W)).map fun i => Expr.node op [F i, G i])) := by
  rw [C11CL.binop_bool_arr2 o op ho H W _ _ (by simp) (by simp), zipWith_map_range]

theorem chain_maps (o : BinOp) (op : Op) (ho : (o = .and_ ∧ op = .and) ∨ (o = .or_ ∧ op = .or))
    (H W : Nat) (A B C D : Nat → Expr) :
    chain o (.arr2 true H W ((List.range (H * W)).map A)) (.arr2 true H W ((List.range (H * W)).map B))
        (.arr2 true H W ((List.range (H * W)).map C)) (.arr2 true H W ((List.range (H * W)).map D))
      = .ok (.arr2 true H W ((List.range (H * W)).map fun i =>
          Expr.node op [.node op [.node op [A i, B i], C i], D i])) := by
  unfold chain
  rw [binop_maps o op ho, ok_bind, binop_maps o op ho, ok_bind, binop_maps o op ho]

theorem blockCs_eq (h w : Nat) :
    blockCs (.arr2 true h w ((List.range (h * w)).map Expr.bvar)) = .ok (blocks h w) := by
  unfold blockCs
  rw [slice_eq h w _ _ 0 0 (by omega) (by omega) (by rw [sl, C11CL.axisSel_upto]; simp)
    (by rw [sl, C11CL.axisSel_upto]; simp), ok_bind]
  rw [slice_eq h w _ _ 1 0 (by omega) (by omega) (by rw [sl, C11CL.axisSel_from1])
    (by rw [sl, C11CL.axisSel_upto]; simp), ok_bind]
  rw [slice_eq h w _ _ 0 1 (by omega) (by omega) (by rw [sl, C11CL.axisSel_upto]; simp)
    (by rw [sl, C11CL.axisSel_from1]), ok_bind]
  rw [slice_eq h w _ _ 1 1 (by omega) (by omega) (by rw [sl, C11CL.axisSel_from1])
    (by rw [sl, C11CL.axisSel_from1]), ok_bind]
  rw [chain_maps .or_ .or (Or.inr ⟨rfl, rfl⟩), ok_bind]
  rw [C11CL.ensureV_arr2 _ _ _ _ (by
    intro e he; simp only [List.mem_map] at he; obtain ⟨i, _, rfl⟩ := he; rfl), ok_bind]
  rw [chain_maps .and_ .and (Or.inl ⟨rfl, rfl⟩), ok_bind]
  rw [C11CL.unop_invert_arr2 _ _ _ (by simp), ok_bind]
  rw [C11CL.ensureV_arr2 _ _ _ _ (by
    intro e he; simp only [List.mem_map] at he; obtain ⟨i, _, rfl⟩ := he; rfl)]
  simp only [blocks, orBlock, nandBlock, Nat.add_zero, List.map_map, Function.comp_def, ok_bind]

/-! ### the candidate list of a numbered circle -/

theorem flattenList_leaves : ∀ L : List Expr, ANest.flattenList (L.map fun e => ANest.leaf (.scalar e)) = L
  | [] => rfl
  | e :: r => by simp [ANest.flattenList, ANest.flatten, PyV.flat, flattenList_leaves r]

/-- One direction of the candidate list in closed form: `fold_and(run)` when the run ends at the border,
`fold_and(run, ~stop)` when it ends inside the board, nothing when it does not fit. -/
def dirCands (edge inside : Prop) [Decidable edge] [Decidable inside] (run : List Expr) (stop : Expr) :
    List Expr :=
  if edge then [andE run] else if inside then [andE (run ++ [.node .not [stop]])] else []

theorem candDir_eq (isWhite : PyV) (runK stopK : Key2) (b1 b2 : Bool) (edge inside : Prop)
    [Decidable edge] [Decidable inside] (h1 : b1 = decide edge) (h2 : b2 = decide inside)
    (run : List Expr) (s : Nat)
    (hrun : edge ∨ inside → getitemV isWhite runK = .ok (.arr1 true run))
    (hbe : ∀ e ∈ run, e.isBoolExpr = true)
    (hstop : ¬ edge → inside → getitemV isWhite stopK = .ok (.scalar (.bvar s))) :
    candDir isWhite b1 b2 runK stopK
      = .ok ((dirCands edge inside run (.bvar s)).map fun e => .leaf (.scalar e)) := by
  subst h1 h2
  unfold candDir dirCands
  by_cases he : edge
  · simp only [he, decide_true, if_true]
    rw [hrun (Or.inl he), ok_bind]
    simp only [foldAndA, ANest.flattenList, ANest.flatten, PyV.flat, List.append_nil]
    rw [foldAnd_exprs _ hbe]; rfl
  · by_cases hi : inside
    · simp only [he, hi, decide_true, decide_false, if_true, if_false, Bool.false_eq_true]
      rw [hrun (Or.inr hi), ok_bind, hstop he hi, ok_bind]
      have : unop .invert (.scalar (.bvar s)) = .ok (.scalar (.node .not [.bvar s])) := rfl
      rw [this, ok_bind]
      simp only [foldAndA, ANest.flattenList, ANest.flatten, PyV.flat, List.append_nil]
      rw [foldAnd_exprs _ (by
        intro e he'
        rcases List.mem_append.1 he' with h | h
        · exact hbe e h
        · simp only [List.mem_singleton] at h; subst h; rfl)]
      rfl
    · simp [he, hi]

def upRun (w y x m : Nat) : List Expr := (List.range (m - 1)).map fun j => cv w (y + 1 - m + j) x
def dnRun (w y x m : Nat) : List Expr := (List.range (m - 1)).map fun j => cv w (y + 1 + j) x
def lfRun (w y x m : Nat) : List Expr := (List.range (m - 1)).map fun j => cv w y (x + 1 - m + j)
def rtRun (w y x m : Nat) : List Expr := (List.range (m - 1)).map fun j => cv w y (x + 1 + j)

theorem run_isBoolExpr (F : Nat → Nat) (G : Nat → Nat) (w n : Nat) :
    ∀ e ∈ (List.range n).map (fun j => cv w (F j) (G j)), e.isBoolExpr = true := by
  intro e he
  simp only [List.mem_map] at he
  obtain ⟨j, _, rfl⟩ := he; rfl

/-- The candidates of the circle `m` at `(y, x)`: up, down, left, right. -/
def cands (h w y x m : Nat) : List Expr :=
  dirCands (y + 1 = m) (m < y + 1) (upRun w y x m) (cv w (y - m) x) ++
  dirCands (y + m = h) (y + m < h) (dnRun w y x m) (cv w (y + m) x) ++
  dirCands (x + 1 = m) (m < x + 1) (lfRun w y x m) (cv w y (x - m)) ++
  dirCands (x + m = w) (x + m < w) (rtRun w y x m) (cv w y (x + m))

/-- A vertical run `is_white[a:b, x]`. -/
theorem col_run (h w x a b : Nat) (ka kb : Int) (ha : ka = (a : Int)) (hb : kb = (b : Int))
    (hab : a ≤ b) (hbh : b ≤ h) (hx : x < w) :
    getitemV (.arr2 true h w ((List.range (h * w)).map Expr.bvar)) (.pair (sl (some ka) (some kb)) (.idx (x : Int)))
      = .ok (.arr1 true ((List.range (b - a)).map fun j => cv w (a + j) x)) := by
  rw [sl, C11CL.getitemV_col true Expr.bvar h w _ x _ hx (C11CL.axisSel_range' h ka kb a b ha hb hab hbh)
    (by intro y hy; simp only [List.mem_map, List.mem_range] at hy; obtain ⟨j, hj, rfl⟩ := hy; omega)]
  simp only [List.map_map, Function.comp_def, cv]

/-- A horizontal run `is_white[y, a:b]`. -/
theorem row_run (h w y a b : Nat) (ka kb : Int) (ha : ka = (a : Int)) (hb : kb = (b : Int))
    (hab : a ≤ b) (hbw : b ≤ w) (hy : y < h) :
    getitemV (.arr2 true h w ((List.range (h * w)).map Expr.bvar)) (.pair (.idx (y : Int)) (sl (some ka) (some kb)))
      = .ok (.arr1 true ((List.range (b - a)).map fun j => cv w y (a + j))) := by
  rw [sl, C11CL.getitemV_row true Expr.bvar h w y _ _ hy (C11CL.axisSel_range' w ka kb a b ha hb hab hbw)
    (by intro x hx; simp only [List.mem_map, List.mem_range] at hx; obtain ⟨j, hj, rfl⟩ := hx; omega)]
  simp only [List.map_map, Function.comp_def, cv]

theorem cell_eq (h w y x : Nat) (ky kx : Int) (hky : ky = (y : Int)) (hkx : kx = (x : Int))
    (hy : y < h) (hx : x < w) :
    getitemV (.arr2 true h w ((List.range (h * w)).map Expr.bvar)) (.pair (.idx ky) (.idx kx))
      = .ok (.scalar (.bvar (y * w + x))) := by
  subst hky hkx
  exact C11CL.getitemV_cell true Expr.bvar h w y x hy hx

theorem candUp_eq (h w y x m : Nat) (n : Int) (hn : n = (m : Int)) (hm : 1 ≤ m) (hy : y < h) (hx : x < w) :
    candDir (.arr2 true h w ((List.range (h * w)).map Expr.bvar)) ((y : Int) == n - 1) (decide ((y : Int) > n - 1))
        (.pair (sl (some ((y : Int) - n + 1)) (some (y : Int))) (.idx (x : Int)))
        (.pair (.idx ((y : Int) - n)) (.idx (x : Int)))
      = .ok ((dirCands (y + 1 = m) (m < y + 1) (upRun w y x m) (cv w (y - m) x)).map
          fun e => .leaf (.scalar e)) := by
  subst hn
  apply candDir_eq _ _ _ _ _ (y + 1 = m) (m < y + 1)
    (show decide ((y : Int) = (m : Int) - 1) = _ from decide_eq_decide.2 (by omega))
    (decide_eq_decide.2 (by omega)) _ ((y - m) * w + x)
  · intro hc
    rw [col_run h w x (y + 1 - m) y _ _ (by omega) rfl (by omega) (by omega) hx]
    rw [show y - (y + 1 - m) = m - 1 by omega]; rfl
  · exact run_isBoolExpr _ _ _ _
  · intro _ hi
    exact cell_eq h w (y - m) x _ _ (by omega) rfl (by omega) hx

theorem candDn_eq (h w y x m : Nat) (n : Int) (hn : n = (m : Int)) (hm : 1 ≤ m) (_hy : y < h) (hx : x < w) :
    candDir (.arr2 true h w ((List.range (h * w)).map Expr.bvar)) ((y : Int) == (h : Int) - n)
        (decide ((y : Int) < (h : Int) - n))
        (.pair (sl (some ((y : Int) + 1)) (some ((y : Int) + n))) (.idx (x : Int)))
        (.pair (.idx ((y : Int) + n)) (.idx (x : Int)))
      = .ok ((dirCands (y + m = h) (y + m < h) (dnRun w y x m) (cv w (y + m) x)).map
          fun e => .leaf (.scalar e)) := by
  subst hn
  apply candDir_eq _ _ _ _ _ (y + m = h) (y + m < h)
    (show decide ((y : Int) = (h : Int) - (m : Int)) = _ from decide_eq_decide.2 (by omega))
    (decide_eq_decide.2 (by omega)) _ ((y + m) * w + x)
  · intro hc
    rw [col_run h w x (y + 1) (y + m) _ _ (by omega) (by omega) (by omega) (by omega) hx]
    rw [show y + m - (y + 1) = m - 1 by omega]; rfl
  · exact run_isBoolExpr _ _ _ _
  · intro _ hi
    exact cell_eq h w (y + m) x _ _ (by omega) rfl (by omega) hx

theorem candLf_eq (h w y x m : Nat) (n : Int) (hn : n = (m : Int)) (hm : 1 ≤ m) (hy : y < h) (hx : x < w) :
    candDir (.arr2 true h w ((List.range (h * w)).map Expr.bvar)) ((x : Int) == n - 1) (decide ((x : Int) > n - 1))
        (.pair (.idx (y : Int)) (sl (some ((x : Int) - n + 1)) (some (x : Int))))
        (.pair (.idx (y : Int)) (.idx ((x : Int) - n)))
      = .ok ((dirCands (x + 1 = m) (m < x + 1) (lfRun w y x m) (cv w y (x - m))).map
          fun e => .leaf (.scalar e)) := by
  subst hn
  apply candDir_eq _ _ _ _ _ (x + 1 = m) (m < x + 1)
    (show decide ((x : Int) = (m : Int) - 1) = _ from decide_eq_decide.2 (by omega))
    (decide_eq_decide.2 (by omega)) _ (y * w + (x - m))
  · intro hc
    rw [row_run h w y (x + 1 - m) x _ _ (by omega) rfl (by omega) (by omega) hy]
    rw [show x - (x + 1 - m) = m - 1 by omega]; rfl
  · exact run_isBoolExpr _ _ _ _
  · intro _ hi
    exact cell_eq h w y (x - m) _ _ rfl (by omega) hy (by omega)

theorem candRt_eq (h w y x m : Nat) (n : Int) (hn : n = (m : Int)) (hm : 1 ≤ m) (hy : y < h) (_hx : x < w) :
    candDir (.arr2 true h w ((List.range (h * w)).map Expr.bvar)) ((x : Int) == (w : Int) - n)
        (decide ((x : Int) < (w : Int) - n))
        (.pair (.idx (y : Int)) (sl (some ((x : Int) + 1)) (some ((x : Int) + n))))
        (.pair (.idx (y : Int)) (.idx ((x : Int) + n)))
      = .ok ((dirCands (x + m = w) (x + m < w) (rtRun w y x m) (cv w y (x + m))).map
          fun e => .leaf (.scalar e)) := by
  subst hn
  apply candDir_eq _ _ _ _ _ (x + m = w) (x + m < w)
    (show decide ((x : Int) = (w : Int) - (m : Int)) = _ from decide_eq_decide.2 (by omega))
    (decide_eq_decide.2 (by omega)) _ (y * w + (x + m))
  · intro hc
    rw [row_run h w y (x + 1) (x + m) _ _ (by omega) (by omega) (by omega) (by omega) hy]
    rw [show x + m - (x + 1) = m - 1 by omega]; rfl
  · exact run_isBoolExpr _ _ _ _
  · intro _ hi
    exact cell_eq h w y (x + m) _ _ rfl (by omega) hy (by omega)

theorem dirCands_isBoolExpr (edge inside : Prop) [Decidable edge] [Decidable inside] (run : List Expr) (stop : Expr) :
    ∀ e ∈ dirCands edge inside run stop, e.isBoolExpr = true := by
  intro e he
  unfold dirCands at he
  split at he
  · simp only [List.mem_singleton] at he; subst he; unfold andE; split <;> rfl
  · split at he
    · simp only [List.mem_singleton] at he; subst he; unfold andE; split <;> rfl
    · simp at he

theorem cands_isBoolExpr (h w y x m : Nat) : ∀ e ∈ cands h w y x m, e.isBoolExpr = true := by
  intro e he
  simp only [cands, List.mem_append] at he
  rcases he with ((he | he) | he) | he <;> exact dirCands_isBoolExpr _ _ _ _ e he

theorem foldOrA_cands (a b c d : List Expr) (hbe : ∀ e ∈ a ++ b ++ c ++ d, e.isBoolExpr = true) :
    foldOrA [.items (a.map (fun e => ANest.leaf (.scalar e)) ++ b.map (fun e => ANest.leaf (.scalar e)) ++
      c.map (fun e => ANest.leaf (.scalar e)) ++ d.map (fun e => ANest.leaf (.scalar e)))]
      = .ok (orE (a ++ b ++ c ++ d)) := by
  rw [← List.map_append, ← List.map_append, ← List.map_append]
  simp only [foldOrA, ANest.flattenList, ANest.flatten, List.append_nil]
  rw [flattenList_leaves, foldOr_exprs _ hbe]

/-! ### the constraints of one cell -/

/-- The neighbour variables of `(y, x)` in the order up, down, left, right (those on the board). -/
def nbE (h w y x : Nat) : List Expr :=
  (neighbours h w (y : Int) (x : Int)).map fun p => Expr.bvar (p.1.toNat * w + p.2.toNat)

/-- The constraints posted by the loop body for the cell `(y, x)`. -/
def cellE (pb : Problem) (y x : Nat) : List Expr :=
  if val pb y x = -1 then
    [.node .imp [cv pb.width y x, .node .ne [countTrueE (nbE pb.height pb.width y x), .litI 1]]]
  else
    [cv pb.width y x, .node .eq [countTrueE (nbE pb.height pb.width y x), .litI 1]] ++
      (if val pb y x = 0 then [] else [orE (cands pb.height pb.width y x (val pb y x).toNat)])

theorem binop_ne_node_lit (op : Op) (l : List Expr) (v : Int) (hop : op.isIntOp = true) :
    binop .ne (.scalar (.node op l)) (.scalar (.litI v)) = .ok (.scalar (.node .ne [.node op l, .litI v])) := by
  cases op <;> first | rfl | simp [Op.isIntOp] at hop

theorem cellCs_eq {pb : Problem} (hwf : WellFormed pb) {y x : Nat} (hy : y < pb.height) (hx : x < pb.width) :
    cellCs pb (.arr2 true pb.height pb.width (bvars 0 (pb.height * pb.width))) (y, x) = .ok (cellE pb y x) := by
  have hvc := val_cases hwf hy hx
  unfold cellCs cellE
  simp only
  rw [tableGet_eq hwf hy hx, ok_bind, bvars_eq, C11CL.getitemV_cell true Expr.bvar _ _ _ _ hy hx, ok_bind,
    C11Norinori.fourNeighbors_fresh true Expr.bvar _ _ _ _ hy hx, ok_bind,
    C11CL.countTrueA_arr1 _ (C11Norinori.bvar_map_isBoolLike _ _), ok_bind]
  obtain ⟨op, args, hE, hop⟩ := C11CL.countTrueE_isNode (nbE pb.height pb.width y x)
  simp only [nbE] at hE
  simp only [nbE, hE]
  generalize val pb y x = v at hvc ⊢
  rcases hvc with rfl | rfl | hv
  · rw [if_pos (by decide), if_pos (by decide)]
    rw [binop_ne_node_lit op args _ hop, ok_bind, C11CL.callM_then_bvar _ _ _ rfl, ok_bind,
      C11CL.ensureV_scalar _ rfl]
    rfl
  · rw [if_neg (by decide), if_neg (by decide)]
    rw [C11CL.ensureV_scalar _ rfl, ok_bind, C11CL.binop_eq_node_lit op args _ hop, ok_bind,
      C11CL.ensureV_scalar _ rfl, ok_bind]
    rw [if_neg (by decide), if_pos rfl]
    rfl
  · obtain ⟨m, rfl⟩ : ∃ m : Nat, v = (m : Int) := ⟨v.toNat, by omega⟩
    have hm : 1 ≤ m := by omega
    have h1 : ¬ (((m : Int) == -1) = true) := by simp
    have h2 : ¬ ((m : Int) = -1) := by omega
    have h3 : ((m : Int) != 0) = true := by simp; omega
    have h4 : ¬ ((m : Int) = 0) := by omega
    rw [if_neg h1, if_neg h2]
    rw [C11CL.ensureV_scalar _ rfl, ok_bind, C11CL.binop_eq_node_lit op args _ hop, ok_bind,
      C11CL.ensureV_scalar _ rfl, ok_bind]
    rw [if_pos h3, if_neg h4]
    rw [candUp_eq _ _ y x m _ rfl hm hy hx, ok_bind, candDn_eq _ _ y x m _ rfl hm hy hx, ok_bind,
      candLf_eq _ _ y x m _ rfl hm hy hx, ok_bind, candRt_eq _ _ y x m _ rfl hm hy hx, ok_bind]
    rw [foldOrA_cands _ _ _ _ (cands_isBoolExpr pb.height pb.width y x m), ok_bind]
    rw [C11CL.ensureV_scalar _ (by unfold orE; split <;> rfl)]
    simp only [Int.toNat_natCast, cands, cv]
    rfl

/-! ### the posted program in closed form -/

/-- The connectivity fragment. -/
def avc (pb : Problem) : Prog :=
  C04L1.avcProg (Graph.grid pb.height pb.width) (bvars 0 (pb.height * pb.width)) (pb.height * pb.width) false

/-- The per-cell constraints. -/
def cells (pb : Problem) : List Expr :=
  (cellsOf pb.height pb.width).flatMap fun p => cellE pb p.1 p.2

/-- The local (non-connectivity) constraints. -/
def locals (pb : Problem) : List Expr := blocks pb.height pb.width ++ cells pb

theorem mem_cellsOf {h w : Nat} {p : Nat × Nat} : p ∈ cellsOf h w ↔ p.1 < h ∧ p.2 < w := by
  simp only [cellsOf, List.mem_flatMap, List.mem_range, List.mem_map]
  constructor
  · rintro ⟨y, hy, x, hx, rfl⟩; exact ⟨hy, hx⟩
  · rintro ⟨hy, hx⟩; exact ⟨p.1, hy, p.2, hx, rfl⟩

theorem grid_pos {pb : Problem} (hwf : WellFormed pb) : 0 < (Graph.grid pb.height pb.width).n :=
  Nat.mul_pos hwf.1 hwf.2.1

theorem avc_eq {pb : Problem} (hwf : WellFormed pb) :
    activeVerticesConnected (Graph.grid pb.height pb.width) (bvars 0 (pb.height * pb.width))
      (pb.height * pb.width) false false = .ok (avc pb) :=
  C04L1.avc_eq_prog (grid_pos hwf) (C04Prim.grid_wf _ _) (by simp [bvars, Graph.grid])
    (C11FragWT.bvars_boolArgs _)

theorem program_eq {pb : Problem} (hwf : WellFormed pb) :
    program pb = .ok { decls := List.replicate (pb.height * pb.width) .bool ++ (avc pb).decls,
                       cs := (avc pb).cs ++ locals pb, keys := List.range (pb.height * pb.width) } := by
  unfold program programWith
  simp only
  rw [C11Grid.addKeys_bvars, ok_bind, avc_eq hwf, ok_bind]
  rw [show blockCs (.arr2 true pb.height pb.width (bvars 0 (pb.height * pb.width))) = .ok (blocks pb.height pb.width)
    from by rw [bvars_eq]; exact blockCs_eq _ _, ok_bind]
  rw [mapM_eq_ok_map (g := fun p : Nat × Nat => cellE pb p.1 p.2)]
  · simp only [ok_bind, locals, cells, List.flatMap_def, List.append_assoc]
  · intro p hp
    obtain ⟨h1, h2⟩ := mem_cellsOf.1 hp
    exact cellCs_eq hwf h1 h2

end Cspuz.Proofs.C11NurimisakiA
