/-
  C11 / LITS — the eight lattice symmetries followed by a translation form a group of injective maps of
  `ℤ × ℤ`; hence `SameShape` is symmetric and transitive.  Pointwise criterion for `SameShape` of two
  four-cell sets.
-/
import Mathlib.Data.Set.Card
import Mathlib.Algebra.Group.Prod
import Mathlib.Tactic.Ring
import Mathlib.Tactic.Abel
import CspuzModel.Spec.PuzzleRules.Lits
namespace Cspuz.Proofs.C11LitsShapeSym
open Cspuz Cspuz.Spec Cspuz.Spec.Lits

/-- A cell as a point of `ℤ × ℤ`. -/
def castC (p : Nat × Nat) : Int × Int := ((p.1 : Int), (p.2 : Int))

theorem castC_injective : Function.Injective castC := by
  rintro ⟨a, b⟩ ⟨c, d⟩ h
  simp only [castC, Prod.mk.injEq, Nat.cast_inj] at h
  rw [Prod.mk.injEq]
  exact h

/-- A lattice symmetry followed by a translation. -/
def affZ (s n m : Bool) (t : Int × Int) (p : Int × Int) : Int × Int := latticeSym s n m p + t

theorem sameShape_iff (A B : Set (Nat × Nat)) :
    SameShape A B ↔ ∃ (s n m : Bool) (t : Int × Int), (fun p => affZ s n m t (castC p)) '' A = castC '' B :=
  Iff.rfl

theorem latticeSym_add (s n m : Bool) (p q : Int × Int) :
    latticeSym s n m (p + q) = latticeSym s n m p + latticeSym s n m q := by
  obtain ⟨p1, p2⟩ := p
  obtain ⟨q1, q2⟩ := q
  cases s <;> cases n <;> cases m <;> simp [latticeSym] <;> omega

theorem latticeSym_neg (s n m : Bool) (p : Int × Int) :
    latticeSym s n m (-p) = -latticeSym s n m p := by
  obtain ⟨p1, p2⟩ := p
  cases s <;> cases n <;> cases m <;> simp [latticeSym]

theorem latticeSym_sub (s n m : Bool) (p q : Int × Int) :
    latticeSym s n m (p - q) = latticeSym s n m p - latticeSym s n m q := by
  rw [sub_eq_add_neg, latticeSym_add, latticeSym_neg, ← sub_eq_add_neg]

/-- The inverse of a lattice symmetry is a lattice symmetry. -/
theorem latticeSym_inv (s n m : Bool) (p : Int × Int) :
    latticeSym s (if s then m else n) (if s then n else m) (latticeSym s n m p) = p := by
  obtain ⟨p1, p2⟩ := p
  cases s <;> cases n <;> cases m <;> simp [latticeSym]

/-- The composition of two lattice symmetries is a lattice symmetry. -/
theorem latticeSym_comp (s n m s' n' m' : Bool) (p : Int × Int) :
    latticeSym s' n' m' (latticeSym s n m p) =
      latticeSym (xor s s') (xor n' (if s' then m else n)) (xor m' (if s' then n else m)) p := by
  obtain ⟨p1, p2⟩ := p
  cases s <;> cases n <;> cases m <;> cases s' <;> cases n' <;> cases m' <;> simp [latticeSym]

theorem latticeSym_injective (s n m : Bool) : Function.Injective (latticeSym s n m) :=
  Function.LeftInverse.injective (latticeSym_inv s n m)

theorem affZ_injective (s n m : Bool) (t : Int × Int) : Function.Injective (affZ s n m t) := by
  intro p q h
  simp only [affZ, add_left_inj] at h
  exact latticeSym_injective s n m h

theorem affZ_inv (s n m : Bool) (t : Int × Int) (p : Int × Int) :
    affZ s (if s then m else n) (if s then n else m)
      (-latticeSym s (if s then m else n) (if s then n else m) t) (affZ s n m t p) = p := by
  simp only [affZ, latticeSym_add, latticeSym_inv]
  abel

theorem affZ_comp (s n m s' n' m' : Bool) (t t' : Int × Int) (p : Int × Int) :
    affZ s' n' m' t' (affZ s n m t p) =
      affZ (xor s s') (xor n' (if s' then m else n)) (xor m' (if s' then n else m))
        (latticeSym s' n' m' t + t') p := by
  simp only [affZ, latticeSym_add, latticeSym_comp]
  abel

theorem sameShape_refl (A : Set (Nat × Nat)) : SameShape A A := by
  rw [sameShape_iff]
  refine ⟨false, false, false, 0, ?_⟩
  congr 1

theorem sameShape_symm {A B : Set (Nat × Nat)} (h : SameShape A B) : SameShape B A := by
  rw [sameShape_iff] at h ⊢
  obtain ⟨s, n, m, t, h⟩ := h
  refine ⟨s, if s then m else n, if s then n else m,
    -latticeSym s (if s then m else n) (if s then n else m) t, ?_⟩
  rw [← Set.image_image, ← h, Set.image_image]
  simp only [affZ_inv]

theorem sameShape_trans {A B C : Set (Nat × Nat)} (h : SameShape A B) (h' : SameShape B C) :
    SameShape A C := by
  rw [sameShape_iff] at h h' ⊢
  obtain ⟨s, n, m, t, h⟩ := h
  obtain ⟨s', n', m', t', h'⟩ := h'
  refine ⟨xor s s', xor n' (if s' then m else n), xor m' (if s' then n else m),
    latticeSym s' n' m' t + t', ?_⟩
  rw [← h', ← Set.image_image (affZ s' n' m' t') castC, ← h, Set.image_image]
  simp only [affZ_comp]

/-- Pointwise criterion: the symmetry `(s, n, m)` maps the difference vectors of `x, y, z, w` to those of
`c0, c1, c2, c3`. -/
theorem sameShape_of_points (S C : Set (Nat × Nat)) (x y z w c0 c1 c2 c3 : Nat × Nat)
    (hS : ∀ p, p ∈ S ↔ p = x ∨ p = y ∨ p = z ∨ p = w)
    (hC : ∀ p, p ∈ C ↔ p = c0 ∨ p = c1 ∨ p = c2 ∨ p = c3)
    (s n m : Bool)
    (h1 : latticeSym s n m (castC y - castC x) = castC c1 - castC c0)
    (h2 : latticeSym s n m (castC z - castC x) = castC c2 - castC c0)
    (h3 : latticeSym s n m (castC w - castC x) = castC c3 - castC c0) : SameShape S C := by
  rw [sameShape_iff]
  refine ⟨s, n, m, castC c0 - latticeSym s n m (castC x), ?_⟩
  have e0 : affZ s n m (castC c0 - latticeSym s n m (castC x)) (castC x) = castC c0 := by
    simp only [affZ]; abel
  have e1 : affZ s n m (castC c0 - latticeSym s n m (castC x)) (castC y) = castC c1 := by
    rw [latticeSym_sub] at h1
    simp only [affZ]
    rw [eq_sub_iff_add_eq] at h1
    rw [← h1]; abel
  have e2 : affZ s n m (castC c0 - latticeSym s n m (castC x)) (castC z) = castC c2 := by
    rw [latticeSym_sub] at h2
    simp only [affZ]
    rw [eq_sub_iff_add_eq] at h2
    rw [← h2]; abel
  have e3 : affZ s n m (castC c0 - latticeSym s n m (castC x)) (castC w) = castC c3 := by
    rw [latticeSym_sub] at h3
    simp only [affZ]
    rw [eq_sub_iff_add_eq] at h3
    rw [← h3]; abel
  ext q
  constructor
  · rintro ⟨p, hp, rfl⟩
    rcases (hS p).1 hp with rfl | rfl | rfl | rfl
    · exact ⟨c0, (hC _).2 (Or.inl rfl), e0.symm⟩
    · exact ⟨c1, (hC _).2 (Or.inr (Or.inl rfl)), e1.symm⟩
    · exact ⟨c2, (hC _).2 (Or.inr (Or.inr (Or.inl rfl))), e2.symm⟩
    · exact ⟨c3, (hC _).2 (Or.inr (Or.inr (Or.inr rfl))), e3.symm⟩
  · rintro ⟨p, hp, rfl⟩
    rcases (hC p).1 hp with rfl | rfl | rfl | rfl
    · exact ⟨x, (hS _).2 (Or.inl rfl), e0⟩
    · exact ⟨y, (hS _).2 (Or.inr (Or.inl rfl)), e1⟩
    · exact ⟨z, (hS _).2 (Or.inr (Or.inr (Or.inl rfl))), e2⟩
    · exact ⟨w, (hS _).2 (Or.inr (Or.inr (Or.inr rfl))), e3⟩

end Cspuz.Proofs.C11LitsShapeSym
