/-
  C11 / LITS, part S — meaning, typing and locality of each constraint of the closed-form program.
-/
import CspuzModel.Proofs.C11LitsP
import CspuzModel.Proofs.C11FragWT
namespace Cspuz.Proofs.C11LitsS
open Cspuz Cspuz.Spec Cspuz.Puzzles Cspuz.Puzzles.Lits Cspuz.Spec.Lits Cspuz.Proofs
open Cspuz.Proofs.C11LitsA Cspuz.Proofs.C11LitsP

/-! ### generic evaluation lemmas -/

theorem eval_countTrueE_map {ι : Type} (σ : Asg) (l : List ι) (f : ι → Expr) (g : ι → Bool)
    (h : ∀ x ∈ l, eval σ (f x) = some (.b (g x))) :
    eval σ (countTrueE (l.map f)) = some (.i (((l.filter g).length : Nat) : Int)) := by
  rw [eval_countTrueE (l.map g) (by
    rw [List.map_map, List.map_map]
    apply List.map_congr_left
    intro x hx
    simp [h x hx])]
  rw [List.count_eq_countP, List.countP_map, List.countP_eq_length_filter]
  congr 4
  apply List.filter_congr
  intro x _; simp

theorem eval_orE_map {ι : Type} (σ : Asg) (l : List ι) (f : ι → Expr) (g : ι → Bool)
    (h : ∀ x ∈ l, eval σ (f x) = some (.b (g x))) :
    eval σ (orE (l.map f)) = some (.b (l.any g)) := by
  unfold orE
  have hm : (l.map f).map (eval σ) = (l.map g).map fun b => some (.b b) := by
    rw [List.map_map, List.map_map]
    apply List.map_congr_left
    intro x hx
    simp [h x hx]
  split
  · next he =>
    have : l = [] := by simpa using he
    subst this
    simp [evalOp]
  · rw [eval_node, hm, evalOp_or]
    simp [List.any_map]

theorem eval_and3 {σ : Asg} {a b c : Expr} {x y z : Bool} (ha : eval σ a = some (.b x))
    (hb : eval σ b = some (.b y)) (hc : eval σ c = some (.b z)) :
    eval σ (.node .and [a, b, c]) = some (.b (x && y && z)) := by
  simp [ha, hb, hc, evalOp, allBools, Bool.and_assoc]

theorem eval_iff2 {σ : Asg} {a b : Expr} {x y : Bool} (ha : eval σ a = some (.b x)) (hb : eval σ b = some (.b y)) :
    eval σ (.node .iff [a, b]) = some (.b (x == y)) := by
  simp [ha, hb, evalOp, allBools]

theorem eval_xor2 {σ : Asg} {a b : Expr} {x y : Bool} (ha : eval σ a = some (.b x)) (hb : eval σ b = some (.b y)) :
    eval σ (.node .xor [a, b]) = some (.b (x != y)) := by
  simp [ha, hb, evalOp, allBools]

theorem eval_or2 {σ : Asg} {a b : Expr} {x y : Bool} (ha : eval σ a = some (.b x)) (hb : eval σ b = some (.b y)) :
    eval σ (.node .or [a, b]) = some (.b (x || y)) := by
  simp [ha, hb, evalOp, allBools]

theorem eval_imp2 {σ : Asg} {a b : Expr} {x y : Bool} (ha : eval σ a = some (.b x)) (hb : eval σ b = some (.b y)) :
    eval σ (.node .imp [a, b]) = some (.b (!x || y)) := by
  simp [ha, hb, evalOp, allBools]

/-! ### the cell variables -/

/-- Cell `p` is shaded under `σ`. -/
def sh (pb : Problem) (σ : Asg) (p : Nat × Nat) : Bool := σ.b (p.1 * pb.width + p.2)

theorem eval_cv (pb : Problem) (σ : Asg) (p : Nat × Nat) : eval σ (cv pb.width p) = some (.b (sh pb σ p)) := by
  simp [cv, sh]

theorem cv_wt (pb : Problem) {p : Nat × Nat} (hp : OnB pb p) :
    wtB (cv pb.width p) = true ∧ (cv pb.width p).varsBelow (pb.height * pb.width) = true := by
  refine ⟨rfl, ?_⟩
  have := C11Grid.cell_lt hp.1 hp.2
  simp only [cv, Expr.varsBelow, decide_eq_true_eq]
  exact this

/-! ### the 2 × 2 constraint -/

theorem eval_sqE (pb : Problem) (σ : Asg) (p : Nat × Nat) :
    eval σ (sqE pb.width p) = some (.b true) ↔
      ¬ (sh pb σ (p.1, p.2) = true ∧ sh pb σ (p.1, p.2 + 1) = true ∧ sh pb σ (p.1 + 1, p.2) = true ∧
          sh pb σ (p.1 + 1, p.2 + 1) = true) := by
  unfold sqE
  rw [eval_not (eval_and2 (eval_and2 (eval_and2 (eval_cv pb σ _) (eval_cv pb σ _)) (eval_cv pb σ _))
    (eval_cv pb σ _))]
  simp only [Nat.add_zero, Option.some.injEq, Val.b.injEq]
  cases sh pb σ (p.1, p.2) <;> cases sh pb σ (p.1, p.2 + 1) <;> cases sh pb σ (p.1 + 1, p.2) <;>
    cases sh pb σ (p.1 + 1, p.2 + 1) <;> simp

theorem sqE_wt (pb : Problem) {p : Nat × Nat} (hp : p.1 + 1 < pb.height ∧ p.2 + 1 < pb.width) :
    wtB (sqE pb.width p) = true ∧ (sqE pb.width p).varsBelow (pb.height * pb.width) = true := by
  have h00 := cv_wt pb (p := (p.1 + 0, p.2 + 0)) ⟨by simp only; omega, by simp only; omega⟩
  have h01 := cv_wt pb (p := (p.1 + 0, p.2 + 1)) ⟨by simp only; omega, by simp only; omega⟩
  have h10 := cv_wt pb (p := (p.1 + 1, p.2 + 0)) ⟨by simp only; omega, by simp only; omega⟩
  have h11 := cv_wt pb (p := (p.1 + 1, p.2 + 1)) ⟨by simp only; omega, by simp only; omega⟩
  unfold sqE
  refine ⟨by simp [wtB, wtBs, cv], ?_⟩
  simp only [C11FragWT.varsBelow_node, List.mem_cons, List.not_mem_nil, or_false, forall_eq_or_imp, forall_eq]
  exact ⟨⟨⟨h11.2, h10.2⟩, h01.2⟩, h00.2⟩

/-! ### the constraints of a region -/

theorem eval_cntE (pb : Problem) (σ : Asg) (b : List (Nat × Nat)) :
    eval σ (cntE pb b) = some (.b true) ↔ (b.filter (sh pb σ)).length = 4 := by
  unfold cntE
  rw [eval_cmp (op := .eq) rfl (eval_countTrueE_map σ b _ _ (fun p _ => eval_cv pb σ p)) (eval_litI σ 4)]
  simp only [cmpOp_eq, Option.some.injEq, Val.b.injEq, beq_iff_eq]
  omega

theorem eval_nbrE (pb : Problem) (σ : Asg) (i : Nat) (p : Nat × Nat) :
    eval σ (nbrE pb i p) = some (.b true) ↔ (sh pb σ p = true → (sameN pb i p).any (sh pb σ) = true) := by
  unfold nbrE
  rw [eval_imp2 (eval_cv pb σ p) (eval_orE_map σ _ _ _ (fun q _ => eval_cv pb σ q))]
  simp only [Option.some.injEq, Val.b.injEq]
  cases sh pb σ p <;> simp

/-- The pairs `(p, q)`, `p < q`, of neighbouring cells of region `i` (cells `b`). -/
def pairsL (pb : Problem) (i : Nat) (b : List (Nat × Nat)) : List ((Nat × Nat) × (Nat × Nat)) :=
  b.flatMap fun p => ((sameN pb i p).filter (lexLtB p)).map fun q => (p, q)

theorem pairsE_eq (pb : Problem) (i : Nat) (b : List (Nat × Nat)) :
    b.flatMap (pairsE pb i)
      = (pairsL pb i b).map fun pq => Expr.node .and [cv pb.width pq.1, cv pb.width pq.2] := by
  simp only [pairsL, List.map_flatMap, List.map_map, Function.comp_def]
  rfl

theorem eval_pairCntE (pb : Problem) (σ : Asg) (i : Nat) (b : List (Nat × Nat)) :
    eval σ (pairCntE pb i b) = some (.b true) ↔
      ((pairsL pb i b).filter fun pq => sh pb σ pq.1 && sh pb σ pq.2).length = 3 := by
  unfold pairCntE
  rw [pairsE_eq, eval_cmp (op := .eq) rfl (eval_countTrueE_map σ (pairsL pb i b) _ _
    (fun pq _ => eval_and2 (eval_cv pb σ pq.1) (eval_cv pb σ pq.2))) (eval_litI σ 3)]
  simp only [cmpOp_eq, Option.some.injEq, Val.b.injEq, beq_iff_eq]
  omega

/-- The value of the `is_straight` entry of `p`. -/
def strB (pb : Problem) (σ : Asg) (i : Nat) (p : Nat × Nat) : Bool :=
  (vertOK pb i p && (sh pb σ (p.1 - 1, p.2) && sh pb σ p && sh pb σ (p.1 + 1, p.2))) ||
  (horizOK pb i p && (sh pb σ (p.1, p.2 - 1) && sh pb σ p && sh pb σ (p.1, p.2 + 1)))

theorem eval_vE (pb : Problem) (σ : Asg) (p : Nat × Nat) :
    eval σ (vE pb.width p) = some (.b (sh pb σ (p.1 - 1, p.2) && sh pb σ p && sh pb σ (p.1 + 1, p.2))) :=
  eval_and3 (eval_cv pb σ _) (eval_cv pb σ _) (eval_cv pb σ _)

theorem eval_hE (pb : Problem) (σ : Asg) (p : Nat × Nat) :
    eval σ (hE pb.width p) = some (.b (sh pb σ (p.1, p.2 - 1) && sh pb σ p && sh pb σ (p.1, p.2 + 1))) :=
  eval_and3 (eval_cv pb σ _) (eval_cv pb σ _) (eval_cv pb σ _)

theorem straightE_eval (pb : Problem) (σ : Asg) (i : Nat) (p : Nat × Nat) :
    ∀ e ∈ straightE pb i p, eval σ e = some (.b (strB pb σ i p)) := by
  intro e he
  unfold straightE tmpE at he
  unfold strB
  have hv := eval_vE pb σ p
  have hh := eval_hE pb σ p
  cases h1 : vertOK pb i p <;> cases h2 : horizOK pb i p <;> simp [h1, h2] at he <;> subst he <;>
    simp [hv, hh, evalOp, allBools]

theorem straightE_length (pb : Problem) (σ : Asg) (i : Nat) (p : Nat × Nat) :
    (straightE pb i p).length ≤ 1 ∧ (strB pb σ i p = true → (straightE pb i p).length = 1) := by
  unfold straightE tmpE strB
  cases vertOK pb i p <;> cases horizOK pb i p <;> simp

theorem count_straight (pb : Problem) (σ : Asg) (i : Nat) : ∀ b : List (Nat × Nat),
    ((b.flatMap (straightE pb i)).map (eval σ))
      = ((b.flatMap fun p => (straightE pb i p).map fun _ => strB pb σ i p).map fun v => some (.b v))
  | [] => rfl
  | p :: r => by
    simp only [List.flatMap_cons, List.map_append, count_straight pb σ i r]
    congr 1
    rw [List.map_map]
    apply List.map_congr_left
    intro e he
    simp [straightE_eval pb σ i p e he]

theorem count_straight' (pb : Problem) (σ : Asg) (i : Nat) : ∀ b : List (Nat × Nat),
    (b.flatMap fun p => (straightE pb i p).map fun _ => strB pb σ i p).count true
      = (b.filter (strB pb σ i)).length
  | [] => rfl
  | p :: r => by
    simp only [List.flatMap_cons, List.count_append, count_straight' pb σ i r]
    obtain ⟨h1, h2⟩ := straightE_length pb σ i p
    cases hs : strB pb σ i p
    · rw [List.filter_cons_of_neg (by simp [hs])]
      have : ((straightE pb i p).map fun _ => false).count true = 0 := by
        rw [List.count_eq_zero]; simp
      rw [this]; omega
    · rw [List.filter_cons_of_pos (by simp [hs])]
      have hl := h2 hs
      match hm : straightE pb i p, hl with
      | [e], _ => simp; omega

/-- The number the solver equates with `num_straight[i]`. -/
def strN (pb : Problem) (σ : Asg) (i : Nat) (b : List (Nat × Nat)) : Nat := (b.filter (strB pb σ i)).length

theorem eval_straightCount (pb : Problem) (σ : Asg) (i : Nat) (b : List (Nat × Nat)) :
    eval σ (countTrueE (b.flatMap (straightE pb i))) = some (.i ((strN pb σ i b : Nat) : Int)) := by
  rw [eval_countTrueE _ (count_straight pb σ i b), count_straight']
  rfl

theorem eval_nsE (pb : Problem) (σ : Asg) (i : Nat) (b : List (Nat × Nat)) :
    eval σ (nsE pb i b) = some (.b true) ↔ σ.i (base pb + i) = (strN pb σ i b : Nat) := by
  unfold nsE nsV
  rw [eval_cmp (op := .eq) rfl (eval_ivar σ _) (eval_straightCount pb σ i b)]
  simp only [cmpOp_eq, Option.some.injEq, Val.b.injEq, beq_iff_eq]

/-- The value of the `is_t` entry of `p` (when there is one). -/
def tCell (pb : Problem) (σ : Asg) (i : Nat) (p : Nat × Nat) : Bool :=
  decide (3 ≤ (sameN pb i p).length) && decide (3 ≤ ((sameN pb i p).filter (sh pb σ)).length)

/-- The value the solver equates with `has_t[i]`. -/
def tB (pb : Problem) (σ : Asg) (i : Nat) (b : List (Nat × Nat)) : Bool := b.any (tCell pb σ i)

theorem tsE_eq (pb : Problem) (i : Nat) (b : List (Nat × Nat)) :
    b.flatMap (tsE pb i) = (b.filter fun p => decide (3 ≤ (sameN pb i p).length)).map fun p =>
      Expr.node .ge [countTrueE ((sameN pb i p).map (cv pb.width)), .litI 3] := by
  induction b with
  | nil => rfl
  | cons p r ih =>
    simp only [List.flatMap_cons, ih, tsE]
    by_cases h : 3 ≤ (sameN pb i p).length
    · rw [if_pos h, List.filter_cons_of_pos (by simpa using h)]; rfl
    · rw [if_neg h, List.filter_cons_of_neg (by simpa using h)]; rfl

theorem eval_htE (pb : Problem) (σ : Asg) (i : Nat) (b : List (Nat × Nat)) :
    eval σ (htE pb i b) = some (.b true) ↔ σ.b (base pb + pb.blocks.length + i) = tB pb σ i b := by
  unfold htE htV
  rw [tsE_eq, eval_iff2 (eval_bvar σ _) (eval_orE_map σ _ _
    (fun p => decide (3 ≤ ((sameN pb i p).filter (sh pb σ)).length)) (by
      intro p _
      rw [eval_cmp (op := .ge) rfl (eval_countTrueE_map σ (sameN pb i p) _ _ (fun q _ => eval_cv pb σ q))
        (eval_litI σ 3)]
      simp only [cmpOp_ge, Option.some.injEq, Val.b.injEq, decide_eq_decide]
      omega))]
  have : ((b.filter fun p => decide (3 ≤ (sameN pb i p).length)).any
      fun p => decide (3 ≤ ((sameN pb i p).filter (sh pb σ)).length)) = tB pb σ i b := by
    unfold tB tCell
    rw [List.any_filter]
  rw [this]
  simp only [Option.some.injEq, Val.b.injEq, beq_iff_eq]

/-! ### the border constraints -/

theorem eval_borderE (pb : Problem) (σ : Asg) (p q : Nat × Nat) (i j : Nat) :
    eval σ (borderE pb p q i j) = some (.b true) ↔
      (sh pb σ p = true → sh pb σ q = true →
        σ.i (base pb + i) ≠ σ.i (base pb + j) ∨
        σ.b (base pb + pb.blocks.length + i) ≠ σ.b (base pb + pb.blocks.length + j)) := by
  unfold borderE nsV htV
  rw [eval_imp2 (eval_and2 (eval_cv pb σ p) (eval_cv pb σ q))
    (eval_or2 (eval_cmp (op := .ne) rfl (eval_ivar σ _) (eval_ivar σ _))
      (eval_xor2 (eval_bvar σ _) (eval_bvar σ _)))]
  simp only [cmpOp_ne, Option.some.injEq, Val.b.injEq]
  cases sh pb σ p <;> cases sh pb σ q <;> simp

/-! ### typing and locality -/

theorem orE_wt (l : List Expr) (h : ∀ x ∈ l, wtB x = true) : wtB (orE l) = true := by
  unfold orE
  split
  · rfl
  · simp only [wtB]; exact (C11FragWT.wtBs_iff l).2 h

theorem orE_varsBelow (n : Nat) (l : List Expr) (h : ∀ x ∈ l, x.varsBelow n = true) :
    (orE l).varsBelow n = true := by
  unfold orE
  split
  · simp [Expr.varsBelow, Expr.varsBelow.varsBelowList]
  · rw [C11FragWT.varsBelow_node]; exact h

theorem cvs_wt (pb : Problem) {l : List (Nat × Nat)} (hl : ∀ p ∈ l, OnB pb p) :
    ∀ x ∈ l.map (cv pb.width), wtB x = true ∧ x.varsBelow (pb.height * pb.width) = true := by
  intro x hx
  simp only [List.mem_map] at hx
  obtain ⟨p, hp, rfl⟩ := hx
  exact cv_wt pb (hl p hp)

theorem cntE_wt (pb : Problem) {b : List (Nat × Nat)} (hb : ∀ p ∈ b, OnB pb p) :
    wtB (cntE pb b) = true ∧ (cntE pb b).varsBelow (pb.height * pb.width) = true :=
  ⟨C11FragWT.wtB_cmp_countTrueE .eq rfl _ 4 (fun x hx => (cvs_wt pb hb x hx).1),
    C11FragWT.varsBelow_cmp_countTrueE _ .eq _ 4 (fun x hx => (cvs_wt pb hb x hx).2)⟩

theorem nbrE_wt (pb : Problem) (i : Nat) {p : Nat × Nat} (hp : OnB pb p) :
    wtB (nbrE pb i p) = true ∧ (nbrE pb i p).varsBelow (pb.height * pb.width) = true := by
  have hs := cvs_wt pb (l := sameN pb i p) (fun q hq => sameN_onB hp hq)
  have h1 := orE_wt _ (fun x hx => (hs x hx).1)
  have h2 := orE_varsBelow _ _ (fun x hx => (hs x hx).2)
  unfold nbrE
  refine ⟨by simp [wtB, wtBs, h1, cv], ?_⟩
  rw [C11FragWT.varsBelow_node]
  intro x hx
  simp only [List.mem_cons, List.not_mem_nil, or_false] at hx
  rcases hx with rfl | rfl
  · exact (cv_wt pb hp).2
  · exact h2

theorem pairsE_wt (pb : Problem) (i : Nat) {b : List (Nat × Nat)} (hb : ∀ p ∈ b, OnB pb p) :
    ∀ x ∈ b.flatMap (pairsE pb i), wtB x = true ∧ x.varsBelow (pb.height * pb.width) = true := by
  intro x hx
  simp only [List.mem_flatMap, pairsE, List.mem_map, List.mem_filter] at hx
  obtain ⟨p, hp, q, ⟨hq, _⟩, rfl⟩ := hx
  have h1 := cv_wt pb (hb p hp)
  have h2 := cv_wt pb (sameN_onB (hb p hp) hq)
  refine ⟨by simp [wtB, wtBs, cv], ?_⟩
  rw [C11FragWT.varsBelow_node]
  intro x hx
  simp only [List.mem_cons, List.not_mem_nil, or_false] at hx
  rcases hx with rfl | rfl
  · exact h1.2
  · exact h2.2

theorem pairCntE_wt (pb : Problem) (i : Nat) {b : List (Nat × Nat)} (hb : ∀ p ∈ b, OnB pb p) :
    wtB (pairCntE pb i b) = true ∧ (pairCntE pb i b).varsBelow (pb.height * pb.width) = true :=
  ⟨C11FragWT.wtB_cmp_countTrueE .eq rfl _ 3 (fun x hx => (pairsE_wt pb i hb x hx).1),
    C11FragWT.varsBelow_cmp_countTrueE _ .eq _ 3 (fun x hx => (pairsE_wt pb i hb x hx).2)⟩

theorem straightE_wt (pb : Problem) (i : Nat) (b : List (Nat × Nat)) :
    ∀ x ∈ b.flatMap (straightE pb i), wtB x = true := by
  intro x hx
  simp only [List.mem_flatMap] at hx
  obtain ⟨p, _, hx⟩ := hx
  unfold straightE tmpE at hx
  cases h1 : vertOK pb i p <;> cases h2 : horizOK pb i p <;> simp [h1, h2] at hx <;> subst hx <;>
    simp [wtB, wtBs, vE, hE, cv]

theorem nsE_wt (pb : Problem) (i : Nat) (b : List (Nat × Nat)) : wtB (nsE pb i b) = true := by
  have := C11FragWT.wtI_countTrueE _ (straightE_wt pb i b)
  unfold nsE nsV
  simp [wtB, wtIs, wtI, this]

theorem tsE_wt (pb : Problem) (i : Nat) (b : List (Nat × Nat)) :
    ∀ x ∈ b.flatMap (tsE pb i), wtB x = true := by
  intro x hx
  rw [tsE_eq] at hx
  simp only [List.mem_map] at hx
  obtain ⟨p, _, rfl⟩ := hx
  exact C11FragWT.wtB_cmp_countTrueE .ge rfl _ 3 (by
    intro y hy
    simp only [List.mem_map] at hy
    obtain ⟨_, _, rfl⟩ := hy; rfl)

theorem htE_wt (pb : Problem) (i : Nat) (b : List (Nat × Nat)) : wtB (htE pb i b) = true := by
  have := orE_wt _ (tsE_wt pb i b)
  unfold htE htV
  simp [wtB, wtBs, this]

theorem borderE_wt (pb : Problem) (p q : Nat × Nat) (i j : Nat) : wtB (borderE pb p q i j) = true := by
  simp [borderE, wtB, wtBs, wtIs, wtI, nsV, htV, cv]

end Cspuz.Proofs.C11LitsS
