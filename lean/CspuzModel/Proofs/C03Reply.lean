/-
  C03, reply layer: the two reply formats printed by CspuzSugarInterface.java (reference formatters of
  Model/Sugar.lean) are read back by `SugarLikeBackend.solve` / `solve_irrefutably` into the `sol` field of the
  right variable with the right type.
-/
import CspuzModel.Proofs.C03Text
namespace Cspuz.Proofs.C03Reply
open Cspuz Cspuz.Sugar Cspuz.SugarSyntax Cspuz.Proofs.C03Str Cspuz.Proofs.C03Text

/-- How a value is printed by the Java side (`Integer.toString` / `Boolean.toString`). -/
def valStr : Val → Str
  | .i n => intStr n
  | .b b => boolS b

theorem valStr_good (x : Val) : goodAtom (valStr x) = true := by
  cases x with
  | i n => exact goodAtom_intStr n
  | b v => exact goodAtom_boolS v

theorem intStr_ne_bool (n : Int) : intStr n ≠ trueS ∧ intStr n ≠ falseS := by
  cases n with
  | ofNat m =>
    obtain ⟨c, r, h, hc⟩ := natDigits_cons m
    have hs := digs_not_sign c hc
    simp only [intStr, h]
    constructor <;> (intro he; simp only [trueS, falseS, List.cons.injEq] at he)
    · exact hs.2.2.2.2.1 he.1
    · exact hs.2.2.2.2.2.1 he.1
  | negSucc m => simp [intStr, trueS, falseS]

theorem parseVal_valStr (x : Val) : parseVal (valStr x) = .ok x := by
  cases x with
  | i n =>
    have := intStr_ne_bool n
    simp [parseVal, valStr, this.1, this.2, pyInt_intStr]
  | b v => cases v <;> simp [parseVal, valStr, boolS, trueS, falseS]

theorem name_drop (v : SVar) : v.name.drop 1 = natDigits v.id := by
  unfold SVar.name; cases v.decl <;> rfl

theorem pySetItem_nat {α} {l : List α} {k : Nat} (h : k < l.length) (x : α) :
    pySetItem l (k : Int) x = .ok (l.set k x) := by
  have h1 : ¬ ((k : Int) < 0) := by omega
  have h2 : (0 : Int) ≤ k ∧ (k : Int) < l.length := by omega
  simp [pySetItem, h1, h2]

theorem pyIndex_nat {α} {l : List α} {k : Nat} (h : k < l.length) :
    pyIndex l (k : Int) = .ok l[k] := by
  have h1 : ¬ ((k : Int) < 0) := by omega
  have h2 : (0 : Int) ≤ k ∧ (k : Int) < l.length := by omega
  simp [pyIndex, h1, h2, h]

/-- No tab / blank / newline inside an atom. -/
theorem good_no {a : Str} (h : goodAtom a = true) : '\t' ∉ a ∧ ' ' ∉ a ∧ '\n' ∉ a := by
  have hp := (goodAtom_iff.1 h).2
  exact ⟨fun hc => (plain_ne (hp _ hc)).2.2.1 rfl, fun hc => (plain_ne (hp _ hc)).1 rfl,
    fun hc => (plain_ne (hp _ hc)).2.1 rfl⟩

theorem strip_pair {a b : Str} (ha : goodAtom a = true) (hb : goodAtom b = true) (sep : Char) :
    strip (a ++ sep :: b) = a ++ sep :: b := by
  obtain ⟨hane, hap⟩ := goodAtom_iff.1 ha
  obtain ⟨hbne, hbp⟩ := goodAtom_iff.1 hb
  apply strip_eq_self
  · cases a with
    | nil => exact absurd rfl hane
    | cons x r => intro c hc; simp at hc; subst hc; exact plain_not_space (hap _ (by simp))
  · intro c hc
    have : (a ++ sep :: b).getLast? = b.getLast? := by
      rw [List.getLast?_append, List.getLast?_cons]
      cases hbl : b.getLast? with
      | none => exact absurd (List.getLast?_eq_none_iff.1 hbl) hbne
      | some z => simp
    rw [this] at hc
    exact plain_not_space (hbp _ (List.mem_of_mem_getLast? hc))

/-! ### one reply line -/

theorem satLine_step (v : SVar) (x : Val) (rest : List Str) (asg : List (Option Val)) (h : v.id < asg.length) :
    parseSatLines (satLine v.name (valStr x) :: rest) asg = parseSatLines rest (asg.set v.id (some x)) := by
  have hn := name_good v
  have hv := valStr_good x
  have hlen : ¬ (satLine v.name (valStr x)).length ≤ 2 := by
    have := (goodAtom_iff.1 hn).1
    cases hh : v.name with
    | nil => exact absurd hh this
    | cons _ _ => simp [satLine]
  have hsplit : splitOn '\t' (strip ((satLine v.name (valStr x)).drop 2)) = [v.name, valStr x] := by
    have : (satLine v.name (valStr x)).drop 2 = v.name ++ '\t' :: valStr x := rfl
    rw [this, strip_pair hn hv, splitOn_append _ (good_no hn).1, splitOn_nomem (good_no hv).1]
  rw [parseSatLines]
  simp only [hlen, if_false, hsplit, parseVal_valStr, name_drop, pyInt_natDigits, ok_bind, pySetItem_nat h]

theorem factLine_step (v : SVar) (x : Val) (rest : List Str) (asg : List (Option Val)) (h : v.id < asg.length) :
    parseFactLines ((v.name ++ ' ' :: valStr x) :: rest) asg = parseFactLines rest (asg.set v.id (some x)) := by
  have hn := name_good v
  have hv := valStr_good x
  have hlen : ¬ (v.name ++ ' ' :: valStr x).length ≤ 2 := by
    have h1 : 2 ≤ v.name.length := by
      have := natDigits_ne_nil v.id
      unfold SVar.name
      cases v.decl <;> (cases hh : natDigits v.id with
        | nil => exact absurd hh this
        | cons _ _ => simp)
    simp; omega
  have hsplit : splitOn ' ' (v.name ++ ' ' :: valStr x) = [v.name, valStr x] := by
    rw [splitOn_append _ (good_no hn).2.1, splitOn_nomem (good_no hv).2.1]
  rw [parseFactLines]
  simp only [hlen, if_false, hsplit, parseVal_valStr, name_drop, pyInt_natDigits, ok_bind, pySetItem_nat h]

/-! ### a whole reply body -/

/-- The writes a list of reply lines performs on the `assignment` list. -/
def setAll (pairs : List (SVar × Val)) (asg : List (Option Val)) : List (Option Val) :=
  pairs.foldl (fun a p => a.set p.1.id (some p.2)) asg

theorem setAll_length (pairs : List (SVar × Val)) : ∀ asg, (setAll pairs asg).length = asg.length := by
  induction pairs with
  | nil => intro asg; rfl
  | cons p r ih => intro asg; simp [setAll, List.foldl_cons] at ih ⊢; rw [ih]; simp

theorem satLines_all : ∀ (pairs : List (SVar × Val)) (tail : List Str) (asg : List (Option Val)),
    (∀ p ∈ pairs, p.1.id < asg.length) →
    parseSatLines (pairs.map (fun p => satLine p.1.name (valStr p.2)) ++ tail) asg
      = parseSatLines tail (setAll pairs asg)
  | [], _, _, _ => rfl
  | p :: r, tail, asg, h => by
    simp only [List.map_cons, List.cons_append]
    rw [satLine_step p.1 p.2 _ asg (h p (by simp))]
    exact satLines_all r tail _ fun q hq => by simpa using h q (List.mem_cons_of_mem _ hq)

theorem factLines_all : ∀ (pairs : List (SVar × Val)) (tail : List Str) (asg : List (Option Val)),
    (∀ p ∈ pairs, p.1.id < asg.length) →
    parseFactLines (pairs.map (fun p => p.1.name ++ ' ' :: valStr p.2) ++ tail) asg
      = parseFactLines tail (setAll pairs asg)
  | [], _, _, _ => rfl
  | p :: r, tail, asg, h => by
    simp only [List.map_cons, List.cons_append]
    rw [factLine_step p.1 p.2 _ asg (h p (by simp))]
    exact factLines_all r tail _ fun q hq => by simpa using h q (List.mem_cons_of_mem _ hq)

theorem setAll_getD_not_mem : ∀ (pairs : List (SVar × Val)) (asg : List (Option Val)) (k : Nat),
    (∀ p ∈ pairs, p.1.id ≠ k) → (setAll pairs asg).getD k none = asg.getD k none
  | [], _, _, _ => rfl
  | p :: r, asg, k, h => by
    have ih := setAll_getD_not_mem r (asg.set p.1.id (some p.2)) k fun q hq => h q (List.mem_cons_of_mem _ hq)
    have hp := h p (by simp)
    simp only [setAll, List.foldl_cons] at ih ⊢
    rw [ih]
    simp [List.getD_eq_getElem?_getD, List.getElem?_set_ne hp]

theorem setAll_getD_mem : ∀ (pairs : List (SVar × Val)) (asg : List (Option Val)) (k : Nat) (x : Val),
    k < asg.length → (∃ p ∈ pairs, p.1.id = k) → (∀ p ∈ pairs, p.1.id = k → p.2 = x) →
    (setAll pairs asg).getD k none = some x
  | [], _, _, _, _, ⟨_, hp, _⟩, _ => by simp at hp
  | p :: r, asg, k, x, hk, _, hall => by
    by_cases hr : ∃ q ∈ r, q.1.id = k
    · have := setAll_getD_mem r (asg.set p.1.id (some p.2)) k x (by simpa using hk) hr
        fun q hq => hall q (List.mem_cons_of_mem _ hq)
      simpa [setAll, List.foldl_cons] using this
    · have hr' : ∀ q ∈ r, q.1.id ≠ k := fun q hq he => hr ⟨q, hq, he⟩
      have hpk : p.1.id = k := by
        rename_i hex
        obtain ⟨q, hq, he⟩ := hex
        rcases List.mem_cons.1 hq with h | h
        · subst h; exact he
        · exact absurd he (hr' q h)
      have := setAll_getD_not_mem r (asg.set p.1.id (some p.2)) k hr'
      simp only [setAll, List.foldl_cons] at this ⊢
      rw [this, hpk, hall p (by simp) hpk]
      simp [List.getD_eq_getElem?_getD, hk]

/-! ### `max_var_id`, `assignment[v.id]` -/

theorem foldl_max_ge (vars : List SVar) : ∀ m : Int, m ≤ vars.foldl (fun m v => max m (v.id : Int)) m := by
  induction vars with
  | nil => intro m; exact Int.le_refl m
  | cons v r ih => intro m; exact Int.le_trans (Int.le_max_left _ _) (ih _)

theorem foldl_max_mem (vars : List SVar) : ∀ (m : Int), ∀ v ∈ vars,
    (v.id : Int) ≤ vars.foldl (fun m v => max m (v.id : Int)) m := by
  induction vars with
  | nil => intro m v hv; simp at hv
  | cons w r ih =>
    intro m v hv
    rcases List.mem_cons.1 hv with h | h
    · subst h; exact Int.le_trans (Int.le_max_right _ _) (foldl_max_ge r _)
    · exact ih _ v h

theorem fresh_length (vars : List SVar) : ∀ v ∈ vars, v.id < (SugarLike.init vars).freshAssignment.length := by
  intro v hv
  have h1 := foldl_max_mem vars (-1) v hv
  simp only [SugarLike.freshAssignment, SugarLike.init, List.length_replicate]
  omega

theorem fresh_getD (vars : List SVar) (k : Nat) : (SugarLike.init vars).freshAssignment.getD k none = none := by
  simp [SugarLike.freshAssignment, List.getD_eq_getElem?_getD, List.getElem?_replicate]
  split <;> rfl

theorem readSols_eq (vars : List SVar) (asg : List (Option Val)) (h : ∀ v ∈ vars, v.id < asg.length) :
    (SugarLike.init vars).readSols asg = .ok (vars.map fun v => asg.getD v.id none) := by
  have : ∀ l : List SVar, (∀ v ∈ l, v.id < asg.length) →
      l.mapM (fun v => pyIndex asg (v.id : Int)) = Except.ok (l.map fun v => asg.getD v.id none) := by
    intro l
    induction l with
    | nil => intro _; rfl
    | cons v r ih =>
      intro hl
      have hv := hl v (by simp)
      rw [List.mapM_cons, pyIndex_nat hv, ih fun w hw => hl w (List.mem_cons_of_mem _ hw)]
      simp [List.getD_eq_getElem?_getD, hv]
      rfl
  exact this vars h

theorem inj_of_nodup_map {α β} {f : α → β} : ∀ {l : List α}, (l.map f).Nodup →
    ∀ x ∈ l, ∀ y ∈ l, f x = f y → x = y
  | [], _, x, hx, _, _, _ => by simp at hx
  | a :: r, h, x, hx, y, hy, e => by
    simp only [List.map_cons, List.nodup_cons, List.mem_map, not_exists, not_and] at h
    rcases List.mem_cons.1 hx with rfl | hx' <;> rcases List.mem_cons.1 hy with rfl | hy'
    · rfl
    · exact absurd e.symm (h.1 y hy')
    · exact absurd e (h.1 x hx')
    · exact inj_of_nodup_map h.2 x hx' y hy' e

/-! ### answer-finder mode -/

/-- No identifier is used both by an integer and by a Boolean variable (the reply parser keeps only the
number of a name: `int(var[1:])`). -/
def KindOK (vars : List SVar) : Prop := ∀ v ∈ vars, ∀ w ∈ vars, v.id = w.id → v.isInt = w.isInt

def satPairs (vars : List SVar) (σ : Asg) : List (SVar × Val) :=
  (intVarsOf vars).map (fun v => (v, Val.i (σ.i v.id))) ++ (boolVarsOf vars).map (fun v => (v, Val.b (σ.b v.id)))

theorem formatSat_lines (vars : List SVar) (σ : Asg) :
    formatSat vars σ = unlines (['s', ' ', 'S', 'A', 'T', 'I', 'S', 'F', 'I', 'A', 'B', 'L', 'E'] ::
      ((satPairs vars σ).map (fun p => satLine p.1.name (valStr p.2)) ++ [['a']])) := by
  simp [formatSat, satPairs, valStr, Function.comp_def]

theorem satLine_no_nl (p : SVar × Val) : '\n' ∉ satLine p.1.name (valStr p.2) := by
  intro hc
  simp only [satLine, List.mem_cons, List.mem_append] at hc
  rcases hc with h | h | h | h | h
  · cases h
  · cases h
  · exact (good_no (name_good p.1)).2.2 h
  · cases h
  · exact (good_no (valStr_good p.2)).2.2 h

theorem valV_eq (σ : Asg) (v : SVar) : valV σ v = if v.isInt then Val.i (σ.i v.id) else Val.b (σ.b v.id) := by
  unfold valV SVar.isInt; cases v.decl <;> rfl

theorem satPairs_mem {vars : List SVar} {σ : Asg} {p : SVar × Val} (hp : p ∈ satPairs vars σ) :
    p.1 ∈ vars ∧ p.2 = valV σ p.1 := by
  simp only [satPairs, intVarsOf, boolVarsOf, List.mem_append, List.mem_map, List.mem_filter] at hp
  rcases hp with ⟨v, ⟨hv, hi⟩, rfl⟩ | ⟨v, ⟨hv, hi⟩, rfl⟩
  · exact ⟨hv, by simp [valV_eq, hi]⟩
  · simp only [Bool.not_eq_true'] at hi; exact ⟨hv, by simp [valV_eq, hi]⟩

theorem satPairs_has {vars : List SVar} (σ : Asg) {v : SVar} (hv : v ∈ vars) :
    ∃ p ∈ satPairs vars σ, p.1 = v := by
  by_cases hi : v.isInt = true
  · exact ⟨(v, Val.i (σ.i v.id)), List.mem_append_left _ (List.mem_map.2 ⟨v, List.mem_filter.2 ⟨hv, hi⟩, rfl⟩), rfl⟩
  · exact ⟨(v, Val.b (σ.b v.id)), List.mem_append_right _ (List.mem_map.2 ⟨v, List.mem_filter.2 ⟨hv, by simpa using hi⟩, rfl⟩), rfl⟩

theorem reply_sat (vars : List SVar) (hk : KindOK vars) (σ : Asg) :
    (SugarLike.init vars).parseSat (formatSat vars σ) = .ok (true, vars.map fun v => some (valV σ v)) := by
  have hnl : ∀ l ∈ (['s', ' ', 'S', 'A', 'T', 'I', 'S', 'F', 'I', 'A', 'B', 'L', 'E'] : Str) ::
      ((satPairs vars σ).map (fun p => satLine p.1.name (valStr p.2)) ++ [['a']]), '\n' ∉ l := by
    intro l hl
    rcases List.mem_cons.1 hl with h | h
    · subst h; decide
    · rcases List.mem_append.1 h with h | h
      · obtain ⟨p, _, rfl⟩ := List.mem_map.1 h; exact satLine_no_nl p
      · simp only [List.mem_singleton] at h; subst h; decide
  have hlen : ∀ p ∈ satPairs vars σ, p.1.id < (SugarLike.init vars).freshAssignment.length :=
    fun p hp => fresh_length vars p.1 (satPairs_mem hp).1
  unfold SugarLike.parseSat
  rw [formatSat_lines, splitOn_unlines hnl]
  simp only [List.cons_append]
  have hfirst : isInfix unsatWordSat ['s', ' ', 'S', 'A', 'T', 'I', 'S', 'F', 'I', 'A', 'B', 'L', 'E'] = false := by
    decide
  simp only [hfirst, Bool.false_eq_true, if_false, List.append_assoc]
  rw [satLines_all _ _ _ hlen]
  have htail : ∀ a, parseSatLines ([['a']] ++ [[]]) a = .ok a := fun a => by simp [parseSatLines]
  rw [htail]
  simp only [ok_bind]
  rw [readSols_eq vars _ (by intro v hv; rw [setAll_length]; exact fresh_length vars v hv)]
  simp only [ok_bind]
  congr 2
  apply List.map_congr_left
  intro v hv
  apply setAll_getD_mem
  · exact fresh_length vars v hv
  · obtain ⟨p, hp, he⟩ := satPairs_has σ hv; exact ⟨p, hp, by rw [he]⟩
  · intro p hp hid
    obtain ⟨hpv, hval⟩ := satPairs_mem hp
    have hkind := hk p.1 hpv v hv hid
    rw [hval, valV_eq, valV_eq, hkind, hid]

theorem reply_unsat (vars : List SVar) :
    (SugarLike.init vars).parseSat formatUnsat = .ok (false, vars.map fun _ => none) := by
  have h : splitOn '\n' formatUnsat = [['s', ' ', 'U', 'N', 'S', 'A', 'T', 'I', 'S', 'F', 'I', 'A', 'B', 'L', 'E'], []] := by
    decide
  unfold SugarLike.parseSat
  rw [h]
  have : isInfix unsatWordSat ['s', ' ', 'U', 'N', 'S', 'A', 'T', 'I', 'S', 'F', 'I', 'A', 'B', 'L', 'E'] = true := by decide
  simp [this, SugarLike.init]

/-! ### deduction mode -/

/-- What the deduction reply says about `v`: its decided value when `v` is a named key, decided, of the right
type; nothing otherwise. -/
def factOf (keys : List Str) (F : SVar → Option Val) (v : SVar) : Option Val :=
  if keys.contains v.name then
    match v.decl, F v with
    | .int _ _, some (.i x) => some (.i x)
    | .bool, some (.b x) => some (.b x)
    | _, _ => none
  else none

theorem factLine_eq (keys : List Str) (F : SVar → Option Val) (v : SVar) :
    factLine keys F v = (factOf keys F v).map fun x => v.name ++ ' ' :: valStr x := by
  rcases v with ⟨id, d⟩
  simp only [factLine, factOf]
  split
  · cases d <;> (cases F _ with
      | none => rfl
      | some x => cases x <;> rfl)
  · rfl

def factPairs (vars : List SVar) (keys : List Str) (F : SVar → Option Val) : List (SVar × Val) :=
  (intVarsOf vars ++ boolVarsOf vars).filterMap fun v => (factOf keys F v).map fun x => (v, x)

theorem formatFacts_lines (vars : List SVar) (keys : List Str) (F : SVar → Option Val) :
    formatFacts vars keys F = unlines (['s', 'a', 't'] ::
      ((factPairs vars keys F).map fun p => p.1.name ++ ' ' :: valStr p.2)) := by
  have : ∀ l : List SVar, l.filterMap (factLine keys F) =
      (l.filterMap fun v => (factOf keys F v).map fun x => (v, x)).map fun p => p.1.name ++ ' ' :: valStr p.2 := by
    intro l
    induction l with
    | nil => rfl
    | cons v r ih =>
      simp only [List.filterMap_cons, factLine_eq]
      cases factOf keys F v <;> simp [ih]
  simp [formatFacts, factPairs, List.filterMap_append, this]

theorem factPairs_mem {vars : List SVar} {keys : List Str} {F : SVar → Option Val} {p : SVar × Val}
    (hp : p ∈ factPairs vars keys F) : p.1 ∈ vars ∧ factOf keys F p.1 = some p.2 := by
  simp only [factPairs, List.mem_filterMap, List.mem_append, intVarsOf, boolVarsOf, List.mem_filter,
    Option.map_eq_some_iff] at hp
  obtain ⟨v, hv, x, hx, rfl⟩ := hp
  exact ⟨by rcases hv with h | h <;> exact h.1, hx⟩

theorem factPairs_has {vars : List SVar} {keys : List Str} {F : SVar → Option Val} {v : SVar} (hv : v ∈ vars)
    {x : Val} (hx : factOf keys F v = some x) : (v, x) ∈ factPairs vars keys F := by
  simp only [factPairs, List.mem_filterMap, List.mem_append, intVarsOf, boolVarsOf, List.mem_filter,
    Option.map_eq_some_iff]
  refine ⟨v, ?_, x, hx, rfl⟩
  by_cases hi : v.isInt = true
  · exact Or.inl ⟨hv, hi⟩
  · exact Or.inr ⟨hv, by simpa using hi⟩

theorem factLine_no_nl (p : SVar × Val) : '\n' ∉ p.1.name ++ ' ' :: valStr p.2 := by
  intro hc
  simp only [List.mem_cons, List.mem_append] at hc
  rcases hc with h | h | h
  · exact (good_no (name_good p.1)).2.2 h
  · cases h
  · exact (good_no (valStr_good p.2)).2.2 h

/-- Distinct variable objects have distinct identifiers. -/
def IdInj (vars : List SVar) : Prop := ∀ v ∈ vars, ∀ w ∈ vars, v.id = w.id → v = w

theorem IdInj.of_nodup {vars : List SVar} (hnd : (vars.map SVar.id).Nodup) : IdInj vars :=
  fun v hv w hw h => inj_of_nodup_map hnd v hv w hw h

theorem IdInj.kindOK {vars : List SVar} (h : IdInj vars) : KindOK vars :=
  fun v hv w hw e => by rw [h v hv w hw e]

theorem reply_facts (vars : List SVar) (hinj : IdInj vars) (keys : List Str) (F : SVar → Option Val) :
    (SugarLike.init vars).parseFacts (formatFacts vars keys F) = .ok (true, vars.map (factOf keys F)) := by
  have hnl : ∀ l ∈ (['s', 'a', 't'] : Str) ::
      ((factPairs vars keys F).map fun p => p.1.name ++ ' ' :: valStr p.2), '\n' ∉ l := by
    intro l hl
    rcases List.mem_cons.1 hl with h | h
    · subst h; decide
    · obtain ⟨p, _, rfl⟩ := List.mem_map.1 h; exact factLine_no_nl p
  have hlen : ∀ p ∈ factPairs vars keys F, p.1.id < (SugarLike.init vars).freshAssignment.length :=
    fun p hp => fresh_length vars p.1 (factPairs_mem hp).1
  unfold SugarLike.parseFacts
  rw [formatFacts_lines, splitOn_unlines hnl]
  simp only [List.cons_append]
  have hfirst : isInfix unsatWordFacts ['s', 'a', 't'] = false := by decide
  simp only [hfirst, Bool.false_eq_true, if_false]
  rw [factLines_all _ _ _ hlen]
  have htail : ∀ a, parseFactLines [[]] a = .ok a := fun a => by simp [parseFactLines]
  rw [htail]
  simp only [ok_bind]
  rw [readSols_eq vars _ (by intro v hv; rw [setAll_length]; exact fresh_length vars v hv)]
  simp only [ok_bind]
  congr 2
  apply List.map_congr_left
  intro v hv
  cases hf : factOf keys F v with
  | none =>
    rw [setAll_getD_not_mem, fresh_getD]
    intro p hp hid
    obtain ⟨hpv, hpx⟩ := factPairs_mem hp
    have := hinj p.1 hpv v hv hid
    rw [this, hf] at hpx
    cases hpx
  | some x =>
    apply setAll_getD_mem
    · exact fresh_length vars v hv
    · exact ⟨(v, x), factPairs_has hv hf, rfl⟩
    · intro p hp hid
      obtain ⟨hpv, hpx⟩ := factPairs_mem hp
      have := hinj p.1 hpv v hv hid
      rw [this, hf] at hpx
      exact (Option.some.inj hpx).symm

theorem reply_unsat_facts (vars : List SVar) :
    (SugarLike.init vars).parseFacts formatUnsatFacts = .ok (false, vars.map fun _ => none) := by
  have h : splitOn '\n' formatUnsatFacts = [['u', 'n', 's', 'a', 't'], []] := by decide
  unfold SugarLike.parseFacts
  rw [h]
  have : isInfix unsatWordFacts ['u', 'n', 's', 'a', 't'] = true := by decide
  simp [this, SugarLike.init]

end Cspuz.Proofs.C03Reply
