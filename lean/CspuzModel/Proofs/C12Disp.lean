/-
  C12 — reduction of the method calls and of the operator dispatch to `_elementwise`.
-/
import CspuzModel.Proofs.C12Elem
namespace Cspuz.Proofs.C12Disp
set_option linter.unusedSimpArgs false
set_option linter.unusedVariables false
open Cspuz Cspuz.Spec Cspuz.Proofs Cspuz.Proofs.C12Elem

/-- required operand kind of a binary operator -/
def opKind : Op → Option Bool
  | .and | .or | .iff | .xor | .imp => some true
  | .eq | .ne | .le | .lt | .ge | .gt | .add | .sub => some false
  | _ => none

theorem tc2 {op : Op} {k : Bool} (h : opKind op = some k) (x y : PyV) :
    ewTypeCheck op [x, y] = .ok (hasKind k x && hasKind k y) := by
  cases op <;> simp [opKind] at h <;> subst h <;> simp [ewTypeCheck, Op.isCmp, hasKind]

theorem binarySpec_kind {k : Bool} {m : Meth} {op : Op} {sw : Bool} (h : binarySpec k m = some (op, sw)) :
    opKind op = some k := by
  cases k <;> cases m <;> simp [binarySpec] at h <;> (obtain ⟨rfl, rfl⟩ := h; rfl)

theorem data_of_shape {self : PyV} {sh : Shape} (hs : self.shape? = some sh) : ∃ d, self.data? = some d := by
  cases self <;> simp [PyV.shape?] at hs <;> exact ⟨_, rfl⟩

theorem arrayMethod_bin {cls : Cls} {k : Bool} {m : Meth} {op : Op} {sw : Bool} {self x : PyV} {sh : Shape}
    (hc : cls.arrKind? = some k) (hm : binarySpec k m = some (op, sw)) (hs : self.shape? = some sh) :
    arrayMethod cls m self [x] = elementwise op sh (swapIf sw self x) := by
  obtain ⟨d, hd⟩ := data_of_shape hs
  have hdef : cls.defines m = true := by simp [Cls.defines, hc, hm]
  cases k <;> cases m <;> simp [binarySpec] at hm <;> obtain ⟨rfl, rfl⟩ := hm <;>
    simp [arrayMethod, hc, hdef, hs, hd, binarySpec]

theorem cls_node (op : Op) (args : List Expr) :
    (PyV.scalar (.node op args)).cls = .boolExpr ∨ (PyV.scalar (.node op args)).cls = .intExpr ∨
      (PyV.scalar (.node op args)).cls = .object := by
  simp only [PyV.cls]
  split
  · exact .inl rfl
  · split
    · exact .inr (.inl rfl)
    · exact .inr (.inr rfl)

theorem cls_arrKind (v : PyV) : v.cls.arrKind? = v.arrKind? := by
  cases v with
  | scalar e =>
    cases e with
    | node op args => rcases cls_node op args with h | h | h <;> rw [h] <;> rfl
    | _ => rfl
  | arr1 b d => cases b <;> rfl
  | arr2 b h w d => cases b <;> rfl
  | other => rfl

/-- the binary dunders -/
def isBin : Meth → Bool
  | .and_ | .rand | .or_ | .ror | .xor | .rxor | .eq | .ne | .lt | .le | .gt | .ge
  | .add | .radd | .sub | .rsub => true
  | _ => false

theorem isBin_meth (o : BinOp) : isBin o.meth = true := by cases o <;> rfl
theorem isBin_rmeth (o : BinOp) : isBin o.rmeth = true := by cases o <;> rfl

theorem tryMeth_arr_some {k : Bool} {m : Meth} {op : Op} {sw : Bool} {self x : PyV} {sh : Shape}
    (hk : self.arrKind? = some k) (hs : self.shape? = some sh) (hm : binarySpec k m = some (op, sw)) :
    tryMeth m self x = elementwise op sh (swapIf sw self x) := by
  have hc : self.cls.arrKind? = some k := by rw [cls_arrKind, hk]
  have hdef : self.cls.defines m = true := by simp [Cls.defines, hc, hm]
  simp [tryMeth, hdef, callMethod, hc, arrayMethod_bin hc hm hs]

theorem tryMeth_arr_none {k : Bool} {m : Meth} {self x : PyV}
    (hk : self.arrKind? = some k) (hb : isBin m = true) (hm : binarySpec k m = none) :
    tryMeth m self x = .ok none := by
  have hc : self.cls.arrKind? = some k := by rw [cls_arrKind, hk]
  have hdef : self.cls.defines m = false := by
    cases k <;> cases m <;> simp [isBin] at hb <;> simp [binarySpec] at hm <;>
      simp [Cls.defines, hc, unarySpec, binarySpec]
  simp [tryMeth, hdef]

theorem allScalars_arr_right (a x : PyV) (hx : x.isArr = true) : allScalars [a, x] = none := by
  cases x <;> simp [PyV.isArr, PyV.arrKind?] at hx <;> cases a <;> simp [allScalars]

theorem allScalars_arr_left (a x : PyV) (hx : x.isArr = true) : allScalars [x, a] = none := by
  cases x <;> simp [PyV.isArr, PyV.arrKind?] at hx <;> simp [allScalars]

theorem litVal_arr (x : PyV) (hx : x.isArr = true) : litVal? x = none := by
  cases x <;> simp [PyV.isArr, PyV.arrKind?] at hx <;> rfl

/-- A scalar's own dunder declines an array operand. -/
theorem tryMeth_scalar_arr (e : Expr) {m : Meth} {x : PyV} (hb : isBin m = true) (hx : x.isArr = true) :
    tryMeth m (.scalar e) x = .ok none := by
  have h1 := allScalars_arr_right (.scalar e) x hx
  have h2 := allScalars_arr_left (.scalar e) x hx
  have h3 := litVal_arr x hx
  cases e with
  | bvar id =>
    cases m <;> simp [isBin] at hb <;>
      simp [tryMeth, PyV.cls, Cls.defines, Cls.arrKind?, Cls.exprKind?, callMethod, exprMethod, binarySpec,
        unarySpec, makeExprV, swapIf, h1, h2, Op.isBoolOp, Op.isIntOp]
  | ivar id =>
    cases m <;> simp [isBin] at hb <;>
      simp [tryMeth, PyV.cls, Cls.defines, Cls.arrKind?, Cls.exprKind?, callMethod, exprMethod, binarySpec,
        unarySpec, makeExprV, swapIf, h1, h2, Op.isBoolOp, Op.isIntOp]
  | litB b =>
    have hs : litVal? (.scalar (.litB b)) = some (true, if b then 1 else 0) := rfl
    cases m <;> simp [isBin] at hb <;>
      simp [tryMeth, PyV.cls, Cls.defines, Cls.arrKind?, Cls.exprKind?, Cls.isBuiltinNum, callMethod,
        builtinMethod, hs, h3]
  | litI n =>
    have hs : litVal? (.scalar (.litI n)) = some (false, n) := rfl
    cases m <;> simp [isBin] at hb <;>
      simp [tryMeth, PyV.cls, Cls.defines, Cls.arrKind?, Cls.exprKind?, Cls.isBuiltinNum, callMethod,
        builtinMethod, hs, h3]
  | litNone =>
    simp [tryMeth, PyV.cls, Cls.defines, Cls.arrKind?, Cls.exprKind?, Cls.isBuiltinNum]
  | node op args =>
    rcases cls_node op args with h | h | h
    · cases m <;> simp [isBin] at hb <;>
        simp [tryMeth, h, Cls.defines, Cls.arrKind?, Cls.exprKind?, callMethod, exprMethod, binarySpec,
          unarySpec, makeExprV, swapIf, h1, h2, Op.isBoolOp, Op.isIntOp]
    · cases m <;> simp [isBin] at hb <;>
        simp [tryMeth, h, Cls.defines, Cls.arrKind?, Cls.exprKind?, callMethod, exprMethod, binarySpec,
          unarySpec, makeExprV, swapIf, h1, h2, Op.isBoolOp, Op.isIntOp]
    · simp [tryMeth, h, Cls.defines, Cls.arrKind?, Cls.exprKind?, Cls.isBuiltinNum]

/-- what the left operand's method does when an array is involved -/
def leftTry (o : BinOp) (a b : PyV) : Py (Option PyV) :=
  match a.arrKind?, a.shape? with
  | some k, some sh =>
    (match binarySpec k o.meth with
     | some (op, sw) => elementwise op sh (swapIf sw a b)
     | none => .ok none)
  | _, _ => .ok none

/-- … and the reflected method of the right operand -/
def rightTry (o : BinOp) (a b : PyV) : Py (Option PyV) :=
  match b.arrKind?, b.shape? with
  | some k, some sh =>
    (match binarySpec k o.rmeth with
     | some (op, sw) => elementwise op sh (swapIf sw b a)
     | none => .ok none)
  | _, _ => .ok none

def fallback (o : BinOp) (a b : PyV) : Py PyV :=
  match o with
  | .eq => .ok (.scalar (.litB (sameObject a b)))
  | .ne => .ok (.scalar (.litB (!sameObject a b)))
  | _ => .error .typeError

theorem arr_shape {v : PyV} (h : v.isArr = true) : ∃ k sh, v.arrKind? = some k ∧ v.shape? = some sh := by
  cases v <;> simp [PyV.isArr, PyV.arrKind?] at h <;> exact ⟨_, _, rfl, rfl⟩

theorem tryMeth_generic {m : Meth} (hb : isBin m = true) (a b : PyV) (h : a.isArr = true ∨ b.isArr = true) :
    tryMeth m a b =
      match a.arrKind?, a.shape? with
      | some k, some sh =>
        (match binarySpec k m with
         | some (op, sw) => elementwise op sh (swapIf sw a b)
         | none => .ok none)
      | _, _ => .ok none := by
  by_cases ha : a.isArr = true
  · obtain ⟨k, sh, hk, hs⟩ := arr_shape ha
    rw [hk, hs]
    show tryMeth m a b = match binarySpec k m with
      | some (op, sw) => elementwise op sh (swapIf sw a b)
      | none => .ok none
    cases hm : binarySpec k m with
    | none => simp [tryMeth_arr_none hk hb hm]
    | some p => obtain ⟨op, sw⟩ := p; simp [tryMeth_arr_some hk hs hm]
  · have hbarr : b.isArr = true := h.resolve_left ha
    cases a with
    | scalar e => simp [tryMeth_scalar_arr e hb hbarr, PyV.arrKind?]
    | other => simp [tryMeth, PyV.cls, Cls.defines, Cls.arrKind?, Cls.exprKind?, Cls.isBuiltinNum, PyV.arrKind?]
    | arr1 _ _ => simp [PyV.isArr, PyV.arrKind?] at ha
    | arr2 _ _ _ _ => simp [PyV.isArr, PyV.arrKind?] at ha

theorem properSubclass_arr {c d : Cls} (h : Cls.properSubclass c d = true) :
    c.arrKind? = none ∧ d.arrKind? = none := by
  cases c <;> cases d <;> simp [Cls.properSubclass] at h <;> exact ⟨rfl, rfl⟩

theorem prio_false (a b : PyV) (h : a.isArr = true ∨ b.isArr = true) :
    Cls.properSubclass b.cls a.cls = false := by
  cases hp : Cls.properSubclass b.cls a.cls with
  | false => rfl
  | true =>
    obtain ⟨h1, h2⟩ := properSubclass_arr hp
    rw [cls_arrKind] at h1 h2
    rcases h with h | h <;> simp [PyV.isArr, h1, h2] at h

theorem binop_arr (o : BinOp) (a b : PyV) (h : a.isArr = true ∨ b.isArr = true) :
    binop o a b =
      match leftTry o a b with
      | .error e => .error e
      | .ok (some v) => .ok v
      | .ok none =>
        if o.isCmp || a.cls != b.cls then
          match rightTry o a b with
          | .error e => .error e
          | .ok (some v) => .ok v
          | .ok none => fallback o a b
        else fallback o a b := by
  have hl : tryMeth o.meth a b = leftTry o a b := tryMeth_generic (isBin_meth o) a b h
  have hr : tryMeth o.rmeth b a = rightTry o a b := tryMeth_generic (isBin_rmeth o) b a h.symm
  simp only [binop, prio_false a b h, Bool.and_false, hl, hr]
  cases leftTry o a b with
  | error e => rfl
  | ok r =>
    cases r with
    | some v => rfl
    | none => cases o <;> rfl

end Cspuz.Proofs.C12Disp
