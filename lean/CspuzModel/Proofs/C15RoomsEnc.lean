/-
  C15 for `Rooms`, encoder half: for a valid partition the serializer succeeds, the room-id grid it builds maps
  every cell to the index of its room, and the two border bitmaps are `BitGrid`s determined by that grid.
-/
import CspuzModel.Spec.Rooms
import CspuzModel.Proofs.C17Rooms
import Mathlib.Data.List.Nodup
namespace Cspuz.Ser
open Cspuz

/-- index of the (first) room containing the cell -/
def roomOf (rooms : List (List (Nat × Nat))) (c : Nat × Nat) : Nat := rooms.findIdx (·.contains c)

/-- the vertical border bitmap computed from a room-id grid -/
def vertBits (rid : Grid2 Int) (h w : Nat) : List PyVal :=
  (List.range h).map fun y => .list ((List.range (w - 1)).map fun x => bitVal (gv rid y x) (gv rid y (x + 1)))

/-- the horizontal border bitmap computed from a room-id grid -/
def horBits (rid : Grid2 Int) (h w : Nat) : List PyVal :=
  (List.range (h - 1)).map fun y => .list ((List.range w).map fun x => bitVal (gv rid y x) (gv rid (y + 1) x))

/-! ### partition facts -/

theorem nodup_cells (h w : Nat) : (cells h w).Nodup := by
  unfold cells
  rw [List.nodup_flatMap]
  refine ⟨fun y _ => ?_, ?_⟩
  · exact List.Nodup.map (fun a b hab => by simpa using hab) List.nodup_range
  · refine List.Pairwise.imp_of_mem ?_ (List.nodup_range (n := h))
    intro a b _ _ hab
    simp only [Function.onFun, List.disjoint_left, List.mem_map, List.mem_range]
    rintro p ⟨x, _, rfl⟩ ⟨x', _, hx'⟩
    simp only [Prod.mk.injEq] at hx'
    exact hab hx'.1.symm

variable {h w : Nat} {rooms : List (List (Nat × Nat))}

theorem ValidPartition.mem_board (hv : ValidPartition h w rooms) {r} (hr : r ∈ rooms) {c} (hc : c ∈ r) :
    c.1 < h ∧ c.2 < w := by
  have : c ∈ rooms.flatten := List.mem_flatten.2 ⟨r, hr, hc⟩
  exact mem_cells.1 (hv.cover.mem_iff.1 this)

theorem ValidPartition.nodup_flatten (hv : ValidPartition h w rooms) : rooms.flatten.Nodup :=
  hv.cover.nodup_iff.2 (nodup_cells h w)

theorem ValidPartition.roomOf_lt (hv : ValidPartition h w rooms) {c : Nat × Nat} (hy : c.1 < h) (hx : c.2 < w) :
    roomOf rooms c < rooms.length := by
  have : c ∈ rooms.flatten := hv.cover.mem_iff.2 (mem_cells.2 ⟨hy, hx⟩)
  obtain ⟨r, hr, hc⟩ := List.mem_flatten.1 this
  unfold roomOf
  rw [List.findIdx_lt_length]
  exact ⟨r, hr, by simpa using hc⟩

set_option linter.unusedVariables false in
theorem ValidPartition.mem_roomOf (hv : ValidPartition h w rooms) {c : Nat × Nat} (hy : c.1 < h) (hx : c.2 < w)
    (hlt : roomOf rooms c < rooms.length) : c ∈ rooms[roomOf rooms c] := by
  have := @List.findIdx_getElem _ (fun r : List (Nat × Nat) => r.contains c) rooms hlt
  simpa [roomOf] using this

theorem ValidPartition.roomOf_eq (hv : ValidPartition h w rooms) {k} (hk : k < rooms.length) {c : Nat × Nat}
    (hc : c ∈ rooms[k]) : roomOf rooms c = k := by
  have hnd := hv.nodup_flatten
  rw [List.nodup_flatten] at hnd
  have hpw := List.pairwise_iff_getElem.1 hnd.2
  unfold roomOf
  rw [List.findIdx_eq hk]
  refine ⟨by simpa using hc, fun j hj => ?_⟩
  have hd := hpw j k (by omega) hk hj
  have : c ∉ rooms[j] := fun hcj => List.disjoint_left.1 hd hcj hc
  simpa using this

/-! ### the encoder on a valid partition -/

theorem assignCells_ok (h w : Nat) (i : Int) : ∀ (ps : List (Nat × Nat)) (rid : Grid2 Int), Dims h w rid →
    ps.Nodup → (∀ p ∈ ps, p.1 < h ∧ p.2 < w ∧ gv rid p.1 p.2 = -1) →
    ∃ rid', assignCells h w i (ps.map cellVal) rid = .ok rid' ∧ Dims h w rid' ∧
      ∀ y x, gv rid' y x = if (y, x) ∈ ps then i else gv rid y x := by
  intro ps
  induction ps with
  | nil => intro rid hd _ _; exact ⟨rid, rfl, hd, by simp⟩
  | cons p ps ih =>
    intro rid hd hnd hin
    obtain ⟨y, x⟩ := p
    rw [List.nodup_cons] at hnd
    obtain ⟨hy, hx, hcur⟩ := hin (y, x) (by simp)
    simp only at hy hx hcur
    have hd' := dims_set2 hd y x i
    obtain ⟨rid', h1, h2, h3⟩ := ih (set2 rid y x i) hd' hnd.2 (by
      intro p hp
      obtain ⟨a, b, c⟩ := hin p (by simp [hp])
      refine ⟨a, b, ?_⟩
      rw [gv_set2 hd hy hx]
      have : ¬ (p.1 = y ∧ p.2 = x) := by
        rintro ⟨rfl, rfl⟩; exact hnd.1 hp
      simp [this, c])
    refine ⟨rid', ?_, h2, ?_⟩
    · simp only [List.map_cons, cellVal, assignCells, asInt?]
      have e1 : (!(decide (0 ≤ (y : Int)) && decide ((y : Int) < (h : Int)))) = false := by
        simp; omega
      have e2 : (!(decide (0 ≤ (x : Int)) && decide ((x : Int) < (w : Int)))) = false := by
        simp; omega
      simp only [e1, e2, Bool.false_eq_true, if_false, Int.toNat_natCast, rd2_eq hd hy hx, Outcome.bind_ok, hcur]
      simpa using h1
    · intro y' x'
      rw [h3, gv_set2 hd hy hx]
      by_cases hm : (y', x') ∈ ps
      · simp [hm]
      · by_cases he : y' = y ∧ x' = x
        · obtain ⟨rfl, rfl⟩ := he; simp
        · have : ¬ ((y', x') = (y, x)) := by simpa using he
          simp [hm, he, this]

theorem assignRooms_ok (h w : Nat) : ∀ (rs : List (List (Nat × Nat))) (i : Int) (rid : Grid2 Int), Dims h w rid →
    rs.flatten.Nodup → (∀ r ∈ rs, ∀ p ∈ r, p.1 < h ∧ p.2 < w ∧ gv rid p.1 p.2 = -1) →
    ∃ rid', assignRooms h w (rs.map fun r => .list (r.map cellVal)) i rid = .ok rid' ∧ Dims h w rid' ∧
      ∀ y x, gv rid' y x =
        if rs.any (·.contains (y, x)) then i + ((rs.findIdx (·.contains (y, x)) : Nat) : Int) else gv rid y x := by
  intro rs
  induction rs with
  | nil => intro i rid hd _ _; exact ⟨rid, rfl, hd, by simp⟩
  | cons r rs ih =>
    intro i rid hd hnd hin
    rw [List.flatten_cons, List.nodup_append] at hnd
    obtain ⟨hr, hrs, hdis⟩ := hnd
    obtain ⟨rid1, h1, h2, h3⟩ := assignCells_ok h w i r rid hd hr (hin r (by simp))
    obtain ⟨rid', g1, g2, g3⟩ := ih (i + 1) rid1 h2 hrs (by
      intro r' hr' p hp
      obtain ⟨a, b, c⟩ := hin r' (by simp [hr']) p hp
      refine ⟨a, b, ?_⟩
      rw [h3]
      have : (p.1, p.2) ∉ r := fun hpr => hdis _ hpr _ (List.mem_flatten.2 ⟨r', hr', hp⟩) rfl
      simp [this, c])
    refine ⟨rid', ?_, g2, ?_⟩
    · simp only [List.map_cons, assignRooms, h1, Outcome.bind_ok]
      exact g1
    · intro y x
      rw [g3, h3, List.findIdx_cons, List.any_cons]
      by_cases hm : (y, x) ∈ r
      · have hnot : rs.any (·.contains (y, x)) = false := by
          rw [List.any_eq_false]
          intro r' hr'
          have : (y, x) ∉ r' := fun hp => hdis _ hm _ (List.mem_flatten.2 ⟨r', hr', hp⟩) rfl
          simpa using this
        have hc : r.contains (y, x) = true := by simpa using hm
        simp only [hnot, hc, Bool.true_or, cond_true, hm, if_true, Bool.false_eq_true, if_false]
        simp
      · have hc : r.contains (y, x) = false := by simpa using hm
        simp only [hc, Bool.false_or, cond_false, hm, if_false]
        split
        · push_cast; omega
        · rfl

theorem allAssigned_ok {h w : Nat} {rid : Grid2 Int} (hd : Dims h w rid) : ∀ (l : List (Nat × Nat)),
    (∀ p ∈ l, p.1 < h ∧ p.2 < w ∧ gv rid p.1 p.2 ≠ -1) → allAssigned rid l = .ok () := by
  intro l
  induction l with
  | nil => intro _; rfl
  | cons p l ih =>
    intro hin
    obtain ⟨y, x⟩ := p
    obtain ⟨hy, hx, hne⟩ := hin (y, x) (by simp)
    simp only at hy hx hne
    simp only [allAssigned, rd2_eq hd hy hx, Outcome.bind_ok]
    have : (gv rid y x == -1) = false := by simpa using hne
    simp only [this, Bool.false_eq_true, if_false]
    exact ih fun p hp => hin p (by simp [hp])

theorem vertRow_ok {h w : Nat} {rid : Grid2 Int} (hd : Dims h w rid) {y : Nat} (hy : y < h) : ∀ (xs : List Nat),
    (∀ x ∈ xs, x + 1 < w) →
    vertRow rid y xs = .ok (xs.map fun x => bitVal (gv rid y x) (gv rid y (x + 1))) := by
  intro xs
  induction xs with
  | nil => intro _; rfl
  | cons x xs ih =>
    intro hin
    have hx := hin x (by simp)
    simp only [vertRow, rd2_eq hd hy (show x < w by omega), rd2_eq hd hy hx, Outcome.bind_ok,
      ih fun x' hx' => hin x' (by simp [hx']), List.map_cons]

theorem horRow_ok {h w : Nat} {rid : Grid2 Int} (hd : Dims h w rid) {y : Nat} (hy : y + 1 < h) : ∀ (xs : List Nat),
    (∀ x ∈ xs, x < w) →
    horRow rid y xs = .ok (xs.map fun x => bitVal (gv rid y x) (gv rid (y + 1) x)) := by
  intro xs
  induction xs with
  | nil => intro _; rfl
  | cons x xs ih =>
    intro hin
    have hx := hin x (by simp)
    simp only [horRow, rd2_eq hd (show y < h by omega) hx, rd2_eq hd hy hx, Outcome.bind_ok,
      ih fun x' hx' => hin x' (by simp [hx']), List.map_cons]

theorem mapRows_ok (row : Nat → Outcome (List PyVal)) (f : Nat → List PyVal) : ∀ (ys : List Nat),
    (∀ y ∈ ys, row y = .ok (f y)) → mapRows row ys = .ok (ys.map fun y => .list (f y)) := by
  intro ys
  induction ys with
  | nil => intro _; rfl
  | cons y ys ih =>
    intro hin
    simp only [mapRows, hin y (by simp), Outcome.bind_ok, ih fun y' hy' => hin y' (by simp [hy']), List.map_cons]


theorem vertRows_ok {h w : Nat} {rid : Grid2 Int} (hd : Dims h w rid) :
    mapRows (fun y => vertRow rid y (List.range (w - 1))) (List.range h) = .ok (vertBits rid h w) := by
  unfold vertBits
  apply mapRows_ok _ (fun y => (List.range (w - 1)).map fun x => bitVal (gv rid y x) (gv rid y (x + 1)))
  intro y hy
  exact vertRow_ok hd (List.mem_range.1 hy) _ (fun x hx => by have := List.mem_range.1 hx; omega)

theorem horRows_ok {h w : Nat} {rid : Grid2 Int} (hd : Dims h w rid) :
    mapRows (fun y => horRow rid y (List.range w)) (List.range (h - 1)) = .ok (horBits rid h w) := by
  unfold horBits
  apply mapRows_ok _ (fun y => (List.range w).map fun x => bitVal (gv rid y x) (gv rid (y + 1) x))
  intro y hy
  exact horRow_ok hd (by have := List.mem_range.1 hy; omega) _ (fun x hx => List.mem_range.1 hx)

theorem roomsSerCore_valid (h w : Nat) (hh : 1 ≤ h) (hw : 1 ≤ w) (rooms : List (List (Nat × Nat)))
    (hv : ValidPartition h w rooms) :
    ∃ rid : Grid2 Int, Dims h w rid ∧
      (∀ y x, y < h → x < w → gv rid y x = ((roomOf rooms (y, x) : Nat) : Int)) ∧
      roomsSerCore ⟨h, w⟩ [roomsVal rooms] 0 =
        bordersSer h w [.tuple [.list [.list (vertBits rid h w)], .list [.list (horBits rid h w)]]] 0 := by
  obtain ⟨rid, h1, h2, h3⟩ := assignRooms_ok h w rooms 0 (List.replicate h (List.replicate w (-1)))
    (dims_replicate h w _) hv.nodup_flatten (by
      intro r hr p hp
      obtain ⟨a, b⟩ := hv.mem_board hr hp
      exact ⟨a, b, gv_replicate _ a b⟩)
  have hval : ∀ y x, y < h → x < w → gv rid y x = ((roomOf rooms (y, x) : Nat) : Int) := by
    intro y x hy hx
    have hlt := hv.roomOf_lt (c := (y, x)) hy hx
    have hany : rooms.any (·.contains (y, x)) = true := by
      rw [List.any_eq_true]
      exact ⟨_, List.getElem_mem hlt, by simpa using hv.mem_roomOf (c := (y, x)) hy hx hlt⟩
    rw [h3, if_pos hany]
    simp [roomOf]
  refine ⟨rid, h2, hval, ?_⟩
  have hall : allAssigned rid (cells h w) = .ok () := by
    apply allAssigned_ok h2
    intro p hp
    obtain ⟨a, b⟩ := mem_cells.1 hp
    refine ⟨a, b, ?_⟩
    rw [hval _ _ a b]
    omega
  have ehw : (h = 0 || w = 0) = false := by simp; omega
  simp only [roomsSerCore, if_false, List.getElem?_cons_zero, roomsVal, ehw, Bool.false_eq_true, h1,
    Outcome.bind_ok, hall, vertRows_ok h2, horRows_ok h2]
  rw [if_neg (by simp)]

/-! ### the border bitmaps are bit grids -/

theorem bitVal_bit (a b : Int) : bitVal a b = .int 0 ∨ bitVal a b = .int 1 := by
  unfold bitVal
  split
  · exact Or.inr rfl
  · exact Or.inl rfl

theorem bitGrid_vertBits (rid : Grid2 Int) (h w : Nat) : BitGrid h (w - 1) (.list (vertBits rid h w)) := by
  refine ⟨_, rfl, by simp [vertBits], ?_⟩
  intro row hrow
  simp only [vertBits, List.mem_map, List.mem_range] at hrow
  obtain ⟨y, _, rfl⟩ := hrow
  refine ⟨_, rfl, by simp, ?_⟩
  intro b hb
  simp only [List.mem_map] at hb
  obtain ⟨x, _, rfl⟩ := hb
  exact bitVal_bit _ _

theorem bitGrid_horBits (rid : Grid2 Int) (h w : Nat) : BitGrid (h - 1) w (.list (horBits rid h w)) := by
  refine ⟨_, rfl, by simp [horBits], ?_⟩
  intro row hrow
  simp only [horBits, List.mem_map, List.mem_range] at hrow
  obtain ⟨y, _, rfl⟩ := hrow
  refine ⟨_, rfl, by simp, ?_⟩
  intro b hb
  simp only [List.mem_map] at hb
  obtain ⟨x, _, rfl⟩ := hb
  exact bitVal_bit _ _

end Cspuz.Ser
