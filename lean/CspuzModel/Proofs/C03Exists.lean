/-
  C03: the hypothesis `SolverCorrect` of the backend theorems is satisfiable (an ideal solver exists), so they are
  not vacuous.
-/
import CspuzModel.Spec.SugarSyntax
namespace Cspuz.Proofs.C03Exists
open Cspuz Cspuz.Sugar Cspuz.SugarSyntax

open Classical in
/-- The exact fact about `v` (classically). -/
noncomputable def exactF (vars : List SVar) (cs : List Expr) (v : SVar) : Option Val :=
  if h : ∃ x, ∀ σ, SatV vars cs σ → valV σ v = x then some (Classical.choose h) else none

open Classical in
noncomputable def idealSolver : Call := fun text =>
  match parseCSPL text with
  | none => []
  | some (vars, cs, none) =>
    if h : ∃ σ, SatV vars cs σ then formatSat vars (Classical.choose h) else formatUnsat
  | some (vars, cs, some ks) =>
    if ∃ σ, SatV vars cs σ then formatFacts vars ks (exactF vars cs) else formatUnsatFacts

theorem exactF_spec {vars : List SVar} {cs : List Expr} (hsat : ∃ σ, SatV vars cs σ) (v : SVar) :
    ExactFact vars cs v (exactF vars cs v) := by
  classical
  unfold exactF
  by_cases h : ∃ x, ∀ σ, SatV vars cs σ → valV σ v = x
  · simp only [h, dif_pos]
    exact Classical.choose_spec h
  · simp only [h, dif_neg, not_false_eq_true]
    obtain ⟨σ₀, h₀⟩ := hsat
    have : ∃ σ, SatV vars cs σ ∧ valV σ v ≠ valV σ₀ v := by
      apply Classical.byContradiction
      intro hn
      apply h
      refine ⟨valV σ₀ v, fun σ hσ => ?_⟩
      apply Classical.byContradiction
      intro hne
      exact hn ⟨σ, hσ, hne⟩
    obtain ⟨σ, hσ, hne⟩ := this
    exact ⟨σ, σ₀, hσ, h₀, hne⟩

theorem ideal_correct : SolverCorrect idealSolver := by
  classical
  intro text vars cs keys hparse
  cases keys with
  | none =>
    by_cases h : ∃ σ, SatV vars cs σ
    · left
      exact ⟨Classical.choose h, Classical.choose_spec h, by simp [idealSolver, hparse, h]⟩
    · right
      exact ⟨h, by simp [idealSolver, hparse, h]⟩
  | some ks =>
    by_cases h : ∃ σ, SatV vars cs σ
    · right
      exact ⟨h, exactF vars cs, fun v _ => exactF_spec h v, by simp [idealSolver, hparse, h]⟩
    · left
      exact ⟨h, by simp [idealSolver, hparse, h]⟩

theorem solver_exists : ∃ S : Call, SolverCorrect S := ⟨idealSolver, ideal_correct⟩

end Cspuz.Proofs.C03Exists
