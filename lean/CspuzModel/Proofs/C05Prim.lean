/-
  C05, native-primitive route: one indicator array per label (forced by `iff` constraints to be the
  label class), the native connectivity operator on it, non-emptiness by a count, roots by equalities.
  Realizable iff `DivisionOK`.
-/
import CspuzModel.Proofs.C05L1
import CspuzModel.Proofs.C04Prim
import CspuzModel.Spec.GraphSpec2
namespace Cspuz.Proofs.C05Prim
open Cspuz Cspuz.Spec Cspuz.Proofs Cspuz.Proofs.C05L1

/-! ### closed form -/

def primEqs (dv : List Expr) (base n c : Nat) : List Expr :=
  (List.range n).map fun v => .node .iff [.bvar (base + c * n + v), eqE (dv.getD v .litNone) (.litI c)]

def primAvc (g : Graph) (base c : Nat) : Expr :=
  .node .graphAVC ([.litI g.n, .litI g.edges.length] ++ bvars (base + c * g.n) g.n ++ edgeLits g.edges)

def primNe (base n : Nat) (allowEmpty : Bool) (c : Nat) : List Expr :=
  if allowEmpty then [] else [.node .ge [countTrueE (bvars (base + c * n) n), .litI 1]]

def primCs (g : Graph) (dv : List Expr) (allowEmpty : Bool) (base c : Nat) : List Expr :=
  primEqs dv base g.n c ++ [primAvc g base c] ++ primNe base g.n allowEmpty c

def primProg (g : Graph) (dv : List Expr) (k : Nat) (roots : Option (List (Option Nat)))
    (allowEmpty : Bool) (base : Nat) : Prog :=
  { decls := List.replicate (k * g.n) .bool,
    cs := ((List.range k).map (primCs g dv allowEmpty base)).flatten ++ rootCsE dv roots none }

theorem bvars_length (b n : Nat) : (bvars b n).length = n := by simp [bvars]

theorem bvars_boolLike (b n : Nat) : ∀ x ∈ bvars b n, x.isBoolLike = true := by
  intro x hx
  simp only [bvars, List.mem_map] at hx
  obtain ⟨_, _, rfl⟩ := hx
  rfl

theorem prim_eq_prog {g : Graph} {dv : List Expr} {k : Nat} {roots : Option (List (Option Nat))}
    {allowEmpty : Bool} {base : Nat} (hlen : dv.length = g.n)
    (hI : ∀ i (h : i < dv.length), dv[i].isIntLike = true)
    (hroots : ∀ (c r : Nat), (roots.getD [])[c]? = some (some r) → r < dv.length) :
    divisionConnected g dv k roots allowEmpty true base = .ok (primProg g dv k roots allowEmpty base) := by
  rw [divisionConnected_eq]
  simp only [if_true]
  rw [mapM_eq_ok_map (g := primCs g dv allowEmpty base), ok_bind, rootCsM_eq _ hI hroots]
  · rfl
  · intro c _
    rw [mapM_eq_ok_map (g := fun v => .node .iff [.bvar (base + c * g.n + v), eqE (dv.getD v .litNone) (.litI c)]),
      ok_bind]
    · have havc : activeVerticesConnected g (bvars (base + c * g.n) g.n) 0 false true =
          .ok { cs := [primAvc g base c] } := by
        simp [activeVerticesConnected, bvars_length, primAvc]
      rw [havc, ok_bind]
      cases allowEmpty
      · simp only [Bool.false_eq_true, if_false]
        rw [countTrue_ok_of_boolLike (bvars_boolLike _ _)]
        simp [primCs, primEqs, primNe]
      · simp [primCs, primEqs, primNe]
    · intro v hv
      have hv : v < dv.length := by rw [hlen]; simpa using hv
      rw [getE_eq_ok hv, ok_bind, cmpPy_eq_eqE (hI v hv) rfl, ok_bind, getD_eq hv]

/-! ### meaning -/

/-- the region indicator of label `c` read off an assignment -/
def reg (σ' : Asg) (base n c : Nat) (v : Nat) : Bool := σ'.b (base + c * n + v)

section Sem
variable {g : Graph} {dv : List Expr} {base : Nat} {σ σ' : Asg}

theorem sat_primEqs (hlen : dv.length = g.n) (hdv : IntArgs base dv) (hag : AgreeBelow base σ σ')
    (c : Nat) :
    (∀ x ∈ primEqs dv base g.n c, eval σ' x = some (.b true)) ↔
      ∀ v, v < g.n → reg σ' base g.n c v = decide (labOf σ dv v = (c : Int)) := by
  have hev : ∀ v, v < g.n →
      eval σ' (.node .iff [.bvar (base + c * g.n + v), eqE (dv.getD v .litNone) (.litI c)]) =
        some (.b (reg σ' base g.n c v == decide (labOf σ dv v = (c : Int)))) := by
    intro v hv
    have h1 := eval_eqE (eval_label_getD hdv hag (show v < dv.length by omega)) (eval_litI σ' (c : Int))
    rw [eval_node]
    simp only [List.map_cons, List.map_nil, eval_bvar, h1, evalOp, allBools, Option.map_some]
    rfl
  simp only [primEqs, List.mem_map, List.mem_range]
  constructor
  · intro h v hv
    have := h _ ⟨v, hv, rfl⟩
    rw [hev v hv] at this
    simpa using this
  · rintro h x ⟨v, hv, rfl⟩
    rw [hev v hv, h v hv]
    simp

theorem truthAt_bvars (σ' : Asg) (b n : Nat) {v : Nat} (hv : v < n) :
    truthAt σ' (bvars b n) v = σ'.b (b + v) := by
  simp only [truthAt, bvars, List.getElem?_map, List.getElem?_range hv, Option.map_some, eval_bvar]
  cases σ'.b (b + v) <;> rfl

theorem bvars_boolArgs (b n : Nat) : BoolArgs (b + n) (bvars b n) := by
  intro e he
  simp only [bvars, List.mem_map, List.mem_range] at he
  obtain ⟨v, hv, rfl⟩ := he
  exact ⟨rfl, by simp [Expr.varsBelow]; omega⟩

theorem activeSet_eq_labelClass {lab : Nat → Int} {act : Nat → Bool} {c : Int}
    (h : ∀ v, v < g.n → act v = decide (lab v = c)) : activeSet g act = labelClass g lab c := by
  ext ⟨v, hv⟩
  simp [activeSet, labelClass, h v hv]

theorem sat_primAvc (hwf : g.wf = true) (c : Nat) :
    eval σ' (primAvc g base c) = some (.b true) ↔
      ActiveConnected g (truthAt σ' (bvars (base + c * g.n) g.n)) := by
  unfold primAvc
  rw [C04Prim.eval_avcNode g (bvars_length _ _) (bvars_boolArgs _ _) (AgreeBelow.refl _ σ'),
    ← C04Prim.avcSem_iff g _ hwf]
  simp

theorem sat_primNe (allowEmpty : Bool) (c : Nat) :
    (∀ x ∈ primNe base g.n allowEmpty c, eval σ' x = some (.b true)) ↔
      (allowEmpty = false → ∃ v, v < g.n ∧ reg σ' base g.n c v = true) := by
  cases allowEmpty
  · simp only [primNe, Bool.false_eq_true, if_false, List.mem_singleton, forall_eq, true_imp_iff]
    have hct := eval_countTrueE (σ := σ') (xs := bvars (base + c * g.n) g.n)
      ((List.range g.n).map (reg σ' base g.n c)) (by simp [bvars, reg])
    rw [eval_cmp rfl hct (eval_litI ..)]
    have hpos : 0 < List.count true ((List.range g.n).map (reg σ' base g.n c)) ↔
        ∃ v, v < g.n ∧ reg σ' base g.n c v = true := by
      rw [List.count_pos_iff]
      simp
    rw [← hpos]
    simp
  · simp [primNe]

theorem sat_primCs (hwf : g.wf = true) (hlen : dv.length = g.n) (hdv : IntArgs base dv)
    (hag : AgreeBelow base σ σ') (allowEmpty : Bool) (c : Nat) :
    (∀ x ∈ primCs g dv allowEmpty base c, eval σ' x = some (.b true)) ↔
      (∀ v, v < g.n → reg σ' base g.n c v = decide (labOf σ dv v = (c : Int))) ∧
      ((toSimple g).induce (labelClass g (labOf σ dv) (c : Int))).Preconnected ∧
      (allowEmpty = false → ∃ v, v < g.n ∧ labOf σ dv v = (c : Int)) := by
  have key : ∀ (hreg : ∀ v, v < g.n → reg σ' base g.n c v = decide (labOf σ dv v = (c : Int))),
      (ActiveConnected g (truthAt σ' (bvars (base + c * g.n) g.n)) ↔
        ((toSimple g).induce (labelClass g (labOf σ dv) (c : Int))).Preconnected) ∧
      ((allowEmpty = false → ∃ v, v < g.n ∧ reg σ' base g.n c v = true) ↔
        (allowEmpty = false → ∃ v, v < g.n ∧ labOf σ dv v = (c : Int))) := by
    intro hreg
    constructor
    · unfold ActiveConnected
      rw [activeSet_eq_labelClass (lab := labOf σ dv) (c := (c : Int)) (fun v hv => by
        rw [truthAt_bvars σ' _ _ hv]; exact hreg v hv)]
    · apply imp_congr_right
      intro _
      apply exists_congr
      intro v
      apply and_congr_right
      intro hv
      rw [hreg v hv]; simp
  unfold primCs
  simp only [List.mem_append, List.mem_singleton]
  constructor
  · intro h
    have h1 := (sat_primEqs hlen hdv hag c).1 (fun x hx => h x (.inl (.inl hx)))
    have h2 := (sat_primAvc hwf c).1 (h _ (.inl (.inr rfl)))
    have h3 := (sat_primNe allowEmpty c).1 (fun x hx => h x (.inr hx))
    exact ⟨h1, (key h1).1.1 h2, (key h1).2.1 h3⟩
  · rintro ⟨h1, h2, h3⟩ x hx
    rcases hx with (hx | rfl) | hx
    · exact (sat_primEqs hlen hdv hag c).2 h1 x hx
    · exact (sat_primAvc hwf c).2 ((key h1).1.2 h2)
    · exact (sat_primNe allowEmpty c).2 ((key h1).2.2 h3) x hx
end Sem

theorem satFrag_primProg_iff {g : Graph} {dv : List Expr} {k : Nat} {roots : Option (List (Option Nat))}
    {allowEmpty : Bool} {base : Nat} {σ σ' : Asg}
    (hwf : g.wf = true) (hlen : dv.length = g.n) (hdv : IntArgs base dv)
    (hroots : ∀ (c r : Nat), (roots.getD [])[c]? = some (some r) → r < dv.length)
    (hag : AgreeBelow base σ σ') :
    SatFrag base (primProg g dv k roots allowEmpty base) σ' ↔
      (∀ c, c < k →
        (∀ v, v < g.n → reg σ' base g.n c v = decide (labOf σ dv v = (c : Int))) ∧
        ((toSimple g).induce (labelClass g (labOf σ dv) (c : Int))).Preconnected ∧
        (allowEmpty = false → ∃ v, v < g.n ∧ labOf σ dv v = (c : Int))) ∧
      (∀ (c r : Nat), (roots.getD [])[c]? = some (some r) → labOf σ dv r = (c : Int)) := by
  have hroot := sat_rootCsE (σ := σ) (σ' := σ') (roots := roots) none hdv hag hroots
  unfold SatFrag primProg
  simp only [List.mem_append, List.mem_flatten, List.mem_map, List.mem_range]
  constructor
  · rintro ⟨_, h⟩
    constructor
    · intro c hc
      rw [← sat_primCs hwf hlen hdv hag allowEmpty c]
      intro x hx
      exact h x (.inl ⟨_, ⟨c, hc, rfl⟩, hx⟩)
    · intro c r hcr
      exact (hroot.1 (fun x hx => h x (.inr hx)) c r hcr).1
  · rintro ⟨h1, h2⟩
    constructor
    · intro j lo hi hj
      have := List.mem_of_getElem? hj
      simp at this
    · intro x hx
      rcases hx with ⟨l, ⟨c, hc, rfl⟩, hx⟩ | hx
      · exact (sat_primCs hwf hlen hdv hag allowEmpty c).2 (h1 c hc) x hx
      · refine hroot.2 ?_ x hx
        intro c r hcr
        exact ⟨h2 c r hcr, by intro f' hf; cases hf⟩

/-- Extension of `σ` by the class indicators. -/
def extendP (σ : Asg) (base n : Nat) (lab : Nat → Int) : Asg where
  i := σ.i
  b := fun id => if base ≤ id then decide (lab ((id - base) % n) = (((id - base) / n : Nat) : Int)) else σ.b id

theorem extendP_agree (σ : Asg) (base n : Nat) (lab : Nat → Int) :
    AgreeBelow base σ (extendP σ base n lab) := by
  intro id hid
  refine ⟨?_, rfl⟩
  show σ.b id = if base ≤ id then _ else σ.b id
  rw [if_neg (by omega)]

theorem reg_extendP (σ : Asg) (base n : Nat) (lab : Nat → Int) (c : Nat) {v : Nat} (hv : v < n) :
    reg (extendP σ base n lab) base n c v = decide (lab v = (c : Int)) := by
  have hn : 0 < n := by omega
  have h1 : (c * n + v) % n = v := by
    rw [Nat.mul_comm, Nat.mul_add_mod, Nat.mod_eq_of_lt hv]
  have h2 : (c * n + v) / n = c := by
    rw [Nat.mul_comm, Nat.mul_add_div hn, Nat.div_eq_of_lt hv, Nat.add_zero]
  simp only [reg, extendP]
  rw [if_pos (by omega), show base + c * n + v - base = c * n + v by omega, h1, h2]

theorem prim_exact (g : Graph) (dv : List Expr) (k : Nat) (roots : Option (List (Option Nat)))
    (allowEmpty : Bool) (base : Nat) (p : Prog) (σ : Asg)
    (hwf : g.wf = true) (hlen : dv.length = g.n) (hdv : IntArgs base dv)
    (hp : divisionConnected g dv k roots allowEmpty true base = .ok p) :
    Realizable base p σ ↔ DivisionOK g (labOf σ dv) k (roots.getD []) allowEmpty := by
  have hroots := div_ok_roots hp
  have hI : ∀ i (h : i < dv.length), dv[i].isIntLike = true := fun i h => intArgs_isIntLike hdv h
  rw [prim_eq_prog hlen hI hroots] at hp
  cases hp
  unfold DivisionOK
  constructor
  · rintro ⟨σ', hag, hs⟩
    obtain ⟨h1, h2⟩ := (satFrag_primProg_iff hwf hlen hdv hroots hag).1 hs
    exact ⟨fun c hc => (h1 c hc).2.1, fun ha c hc => (h1 c hc).2.2 ha,
      fun c r hcr => ⟨by have := hroots c r hcr; omega, h2 c r hcr⟩⟩
  · rintro ⟨h1, h2, h3⟩
    refine ⟨extendP σ base g.n (labOf σ dv), extendP_agree _ _ _ _, ?_⟩
    rw [satFrag_primProg_iff hwf hlen hdv hroots (extendP_agree _ _ _ _)]
    exact ⟨fun c hc => ⟨fun v hv => reg_extendP _ _ _ _ c hv, h1 c hc, fun ha => h2 ha c hc⟩,
      fun c r hcr => (h3 c r hcr).2⟩

end Cspuz.Proofs.C05Prim
