/-
  C11 / LITS — pure combinatorics of four-cell sets on the square grid (no solver objects here):
  for a duplicate-free list `L` of four cells,
    [every cell has a neighbour in `L` ∧ exactly three adjacent pairs]  ↔  [`L` is orthogonally connected]
  (the direction ← needs "`L` is not a 2 × 2 square"), such an `L` has at most two straight middles, and a
  cell with three neighbours in `L` belongs to `L`.
-/
import Mathlib.Data.Set.Card
import Mathlib.Tactic.IntervalCases
import CspuzModel.Spec.PuzzleRules.Lits
namespace Cspuz.Proofs.C11LitsG
open Cspuz Cspuz.Spec Cspuz.Spec.Lits

/-- Orthogonal adjacency, as a Boolean. -/
def adjB (p q : Nat × Nat) : Bool :=
  (p.1 == q.1 && (p.2 + 1 == q.2 || q.2 + 1 == p.2)) || (p.2 == q.2 && (p.1 + 1 == q.1 || q.1 + 1 == p.1))

theorem adjB_iff (p q : Nat × Nat) : adjB p q = true ↔ cellGraph.Adj p q := by
  simp only [adjB, cellGraph, Bool.or_eq_true, Bool.and_eq_true, beq_iff_eq]

/-- Python's tuple order `(y, x) < (y', x')`. -/
def lexLtB (p q : Nat × Nat) : Bool := decide (p.1 < q.1) || (p.1 == q.1 && decide (p.2 < q.2))

/-- Number of pairs `p < q` of adjacent cells of `L`. -/
def pairCnt (L : List (Nat × Nat)) : Nat :=
  (L.map fun p => L.countP fun q => lexLtB p q && adjB p q).sum

/-- `p` is a cell of `L` whose two vertical or two horizontal neighbours are cells of `L`. -/
def midB (L : List (Nat × Nat)) (p : Nat × Nat) : Bool :=
  L.contains p &&
    ((decide (1 ≤ p.1) && L.contains (p.1 - 1, p.2) && L.contains (p.1 + 1, p.2)) ||
     (decide (1 ≤ p.2) && L.contains (p.1, p.2 - 1) && L.contains (p.1, p.2 + 1)))

theorem midB_iff (L : List (Nat × Nat)) (p : Nat × Nat) :
    midB L p = true ↔ StraightMid {x | x ∈ L} p := by
  simp only [midB, StraightMid, Bool.and_eq_true, Bool.or_eq_true, List.contains_iff_mem, decide_eq_true_eq,
    Set.mem_setOf_eq, and_assoc]

/-- `L` contains no 2 × 2 square. -/
def NoSq (L : List (Nat × Nat)) : Prop :=
  ¬ ∃ y x, (y, x) ∈ L ∧ (y, x + 1) ∈ L ∧ (y + 1, x) ∈ L ∧ (y + 1, x + 1) ∈ L

/-- Four cells, each with a neighbour among them, exactly three adjacent pairs: they are connected. -/
theorem connected_of_counts (L : List (Nat × Nat)) (hnd : L.Nodup) (hlen : L.length = 4)
    (hnb : ∀ p ∈ L, ∃ q ∈ L, cellGraph.Adj p q) (hpc : pairCnt L = 3) :
    (cellGraph.induce {x | x ∈ L}).Preconnected := by
  sorry

/-- Four connected cells that are not a 2 × 2 square: each has a neighbour among them and there are exactly
three adjacent pairs. -/
theorem counts_of_connected (L : List (Nat × Nat)) (hnd : L.Nodup) (hlen : L.length = 4)
    (hconn : (cellGraph.induce {x | x ∈ L}).Preconnected) (hsq : NoSq L) :
    (∀ p ∈ L, ∃ q ∈ L, cellGraph.Adj p q) ∧ pairCnt L = 3 := by
  sorry

/-- At most two cells of such a set are the middle of a straight triple. -/
theorem mids_le_two (L : List (Nat × Nat)) (hnd : L.Nodup) (hlen : L.length = 4)
    (hnb : ∀ p ∈ L, ∃ q ∈ L, cellGraph.Adj p q) (hpc : pairCnt L = 3) :
    L.countP (midB L) ≤ 2 := by
  sorry

/-- A cell with three neighbours in such a set belongs to it. -/
theorem tcell_mem (L : List (Nat × Nat)) (hnd : L.Nodup) (hlen : L.length = 4)
    (hnb : ∀ p ∈ L, ∃ q ∈ L, cellGraph.Adj p q) (hpc : pairCnt L = 3)
    (p : Nat × Nat) (h3 : 3 ≤ L.countP (adjB p)) : p ∈ L := by
  sorry

end Cspuz.Proofs.C11LitsG
