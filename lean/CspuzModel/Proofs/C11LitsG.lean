/-
  C11 / LITS — pure combinatorics of four-cell sets on the square grid (no solver objects here):
  for a duplicate-free list `L` of four cells,
    [every cell has a neighbour in `L` ∧ exactly three adjacent pairs]  ↔  [`L` is orthogonally connected]
  (the direction ← needs "`L` is not a 2 × 2 square"), such an `L` has at most two straight middles, and a
  cell with three neighbours in `L` belongs to `L`.
-/
import Mathlib.Data.Set.Card
import Mathlib.Tactic.IntervalCases
import CspuzModel.Spec.PuzzleRules.Lits
namespace Cspuz.Proofs.C11LitsG
open Cspuz Cspuz.Spec Cspuz.Spec.Lits

/-- Orthogonal adjacency, as a Boolean. -/
def adjB (p q : Nat × Nat) : Bool :=
  (p.1 == q.1 && (p.2 + 1 == q.2 || q.2 + 1 == p.2)) || (p.2 == q.2 && (p.1 + 1 == q.1 || q.1 + 1 == p.1))

theorem adjB_iff (p q : Nat × Nat) : adjB p q = true ↔ cellGraph.Adj p q := by
  simp only [adjB, cellGraph, Bool.or_eq_true, Bool.and_eq_true, beq_iff_eq]

/-- Python's tuple order `(y, x) < (y', x')`. -/
def lexLtB (p q : Nat × Nat) : Bool := decide (p.1 < q.1) || (p.1 == q.1 && decide (p.2 < q.2))

/-- Number of pairs `p < q` of adjacent cells of `L`. -/
def pairCnt (L : List (Nat × Nat)) : Nat :=
  (L.map fun p => L.countP fun q => lexLtB p q && adjB p q).sum

/-- `p` is a cell of `L` whose two vertical or two horizontal neighbours are cells of `L`. -/
def midB (L : List (Nat × Nat)) (p : Nat × Nat) : Bool :=
  L.contains p &&
    ((decide (1 ≤ p.1) && L.contains (p.1 - 1, p.2) && L.contains (p.1 + 1, p.2)) ||
     (decide (1 ≤ p.2) && L.contains (p.1, p.2 - 1) && L.contains (p.1, p.2 + 1)))

theorem midB_iff (L : List (Nat × Nat)) (p : Nat × Nat) :
    midB L p = true ↔ StraightMid {x | x ∈ L} p := by
  simp only [midB, StraightMid, Bool.and_eq_true, Bool.or_eq_true, List.contains_iff_mem, decide_eq_true_eq,
    Set.mem_ofPred_eq, and_assoc]

/-- `L` contains no 2 × 2 square. -/
def NoSq (L : List (Nat × Nat)) : Prop :=
  ¬ ∃ y x, (y, x) ∈ L ∧ (y, x + 1) ∈ L ∧ (y + 1, x) ∈ L ∧ (y + 1, x + 1) ∈ L

/-! ### helpers -/

theorem adjB_eq_true (p q : Nat × Nat) : adjB p q = true ↔
    (p.1 = q.1 ∧ (p.2 + 1 = q.2 ∨ q.2 + 1 = p.2)) ∨ (p.2 = q.2 ∧ (p.1 + 1 = q.1 ∨ q.1 + 1 = p.1)) := by
  simp only [adjB, Bool.or_eq_true, Bool.and_eq_true, beq_iff_eq]

theorem adjB_comm (p q : Nat × Nat) : adjB p q = adjB q p := by
  rw [Bool.eq_iff_iff, adjB_eq_true, adjB_eq_true]
  omega

theorem adjB_self (p : Nat × Nat) : adjB p p = false := by
  rw [← Bool.not_eq_true, adjB_eq_true]
  omega

theorem ne_of_adjB {p q : Nat × Nat} (h : adjB p q = true) : p ≠ q := by
  rintro rfl
  rw [adjB_self] at h
  exact Bool.false_ne_true h

theorem lexLtB_eq_true (p q : Nat × Nat) : lexLtB p q = true ↔ (p.1 < q.1 ∨ (p.1 = q.1 ∧ p.2 < q.2)) := by
  simp only [lexLtB, Bool.or_eq_true, Bool.and_eq_true, beq_iff_eq, decide_eq_true_eq]

/-- One ordered term of `pairCnt`. -/
def pterm (x y : Nat × Nat) : Nat := if (lexLtB x y && adjB x y) = true then 1 else 0

theorem pterm_self (x : Nat × Nat) : pterm x x = 0 := by
  simp [pterm, adjB_self]

theorem pterm_pair {x y : Nat × Nat} (h : x ≠ y) : pterm x y + pterm y x = (adjB x y).toNat := by
  obtain ⟨x1, x2⟩ := x
  obtain ⟨y1, y2⟩ := y
  have h' : x1 ≠ y1 ∨ x2 ≠ y2 := by
    by_contra hc
    apply h
    rw [Prod.mk.injEq]
    omega
  unfold pterm
  rw [adjB_comm (y1, y2) (x1, x2)]
  cases hA : adjB (x1, x2) (y1, y2)
  · simp
  · have h1 := lexLtB_eq_true (x1, x2) (y1, y2)
    have h2 := lexLtB_eq_true (y1, y2) (x1, x2)
    simp only at h1 h2
    cases hl1 : lexLtB (x1, x2) (y1, y2) <;> cases hl2 : lexLtB (y1, y2) (x1, x2) <;>
      rw [hl1] at h1 <;> rw [hl2] at h2 <;> simp at h1 h2 ⊢ <;> omega

theorem pairCnt_four' (a b c d : Nat × Nat) :
    pairCnt [a, b, c, d] =
      (pterm a a + pterm a b + pterm a c + pterm a d) + (pterm b a + pterm b b + pterm b c + pterm b d) +
      (pterm c a + pterm c b + pterm c c + pterm c d) + (pterm d a + pterm d b + pterm d c + pterm d d) := by
  simp only [pairCnt, List.map_cons, List.map_nil, List.sum_cons, List.sum_nil, List.countP_cons,
    List.countP_nil, pterm]
  omega

/-- The `pairCnt` of four distinct cells is the number of adjacent unordered pairs. -/
theorem pairCnt_four {a b c d : Nat × Nat} (hab : a ≠ b) (hac : a ≠ c) (had : a ≠ d) (hbc : b ≠ c)
    (hbd : b ≠ d) (hcd : c ≠ d) :
    pairCnt [a, b, c, d] = (adjB a b).toNat + (adjB a c).toNat + (adjB a d).toNat + (adjB b c).toNat +
      (adjB b d).toNat + (adjB c d).toNat := by
  rw [pairCnt_four', pterm_self, pterm_self, pterm_self, pterm_self, ← pterm_pair hab, ← pterm_pair hac,
    ← pterm_pair had, ← pterm_pair hbc, ← pterm_pair hbd, ← pterm_pair hcd]
  omega

/-- Destructuring of a duplicate-free list of length four. -/
theorem exists_four {α : Type} (L : List α) (hnd : L.Nodup) (hlen : L.length = 4) :
    ∃ a b c d, L = [a, b, c, d] ∧ a ≠ b ∧ a ≠ c ∧ a ≠ d ∧ b ≠ c ∧ b ≠ d ∧ c ≠ d := by
  match L, hlen, hnd with
  | [a, b, c, d], _, hnd =>
    refine ⟨a, b, c, d, rfl, ?_⟩
    simp only [List.nodup_cons, List.mem_cons, List.not_mem_nil, or_false, not_or, List.nodup_nil,
      and_true] at hnd
    obtain ⟨⟨h1, h2, h3⟩, ⟨h4, h5⟩, h6⟩ := hnd
    exact ⟨h1, h2, h3, h4, h5, h6.1⟩

/-! ### degrees -/

/-- A cell with a neighbour in `L ⊆ {x, u, v, w}` is adjacent to one of `u`, `v`, `w`. -/
theorem deg_one {L : List (Nat × Nat)} {x u v w : Nat × Nat}
    (hL : ∀ q ∈ L, q = x ∨ q = u ∨ q = v ∨ q = w) (h : ∃ q ∈ L, cellGraph.Adj x q) :
    (adjB x u || adjB x v || adjB x w) = true := by
  obtain ⟨q, hq, hadj⟩ := h
  rw [← adjB_iff] at hadj
  simp only [Bool.or_eq_true]
  rcases hL q hq with rfl | rfl | rfl | rfl
  · rw [adjB_self] at hadj
    exact absurd hadj Bool.false_ne_true
  · exact Or.inl (Or.inl hadj)
  · exact Or.inl (Or.inr hadj)
  · exact Or.inr hadj

/-- The hypotheses "every cell has a neighbour, three adjacent pairs" on `[a, b, c, d]`, as Boolean facts. -/
theorem bool_facts {a b c d : Nat × Nat} (hab : a ≠ b) (hac : a ≠ c) (had : a ≠ d) (hbc : b ≠ c)
    (hbd : b ≠ d) (hcd : c ≠ d) (hnb : ∀ p ∈ [a, b, c, d], ∃ q ∈ [a, b, c, d], cellGraph.Adj p q)
    (hpc : pairCnt [a, b, c, d] = 3) :
    (adjB a b).toNat + (adjB a c).toNat + (adjB a d).toNat + (adjB b c).toNat + (adjB b d).toNat +
        (adjB c d).toNat = 3 ∧
      (adjB a b || adjB a c || adjB a d) = true ∧ (adjB a b || adjB b c || adjB b d) = true ∧
      (adjB a c || adjB b c || adjB c d) = true ∧ (adjB a d || adjB b d || adjB c d) = true := by
  refine ⟨by rw [← pairCnt_four hab hac had hbc hbd hcd]; exact hpc, ?_, ?_, ?_, ?_⟩
  · exact deg_one (by intro q hq; simpa using hq) (hnb a (by simp))
  · have := deg_one (x := b) (u := a) (v := c) (w := d) (by intro q hq; simp at hq; tauto) (hnb b (by simp))
    rwa [adjB_comm b a] at this
  · have := deg_one (x := c) (u := a) (v := b) (w := d) (by intro q hq; simp at hq; tauto) (hnb c (by simp))
    rwa [adjB_comm c a, adjB_comm c b] at this
  · have := deg_one (x := d) (u := a) (v := b) (w := c) (by intro q hq; simp at hq; tauto) (hnb d (by simp))
    rwa [adjB_comm d a, adjB_comm d b, adjB_comm d c] at this

/-! ### reachability inside `L` -/

/-- `x` and `y` are cells of `L` joined by a path of adjacent cells of `L`. -/
def Rch (L : List (Nat × Nat)) (x y : Nat × Nat) : Prop :=
  ∃ (hx : x ∈ L) (hy : y ∈ L), (cellGraph.induce {z | z ∈ L}).Reachable ⟨x, hx⟩ ⟨y, hy⟩

theorem Rch.refl {L : List (Nat × Nat)} {x : Nat × Nat} (hx : x ∈ L) : Rch L x x :=
  ⟨hx, hx, SimpleGraph.Reachable.refl _⟩

theorem Rch.symm {L : List (Nat × Nat)} {x y : Nat × Nat} (h : Rch L x y) : Rch L y x := by
  obtain ⟨hx, hy, h⟩ := h
  exact ⟨hy, hx, h.symm⟩

theorem Rch.trans {L : List (Nat × Nat)} {x y z : Nat × Nat} (h1 : Rch L x y) (h2 : Rch L y z) :
    Rch L x z := by
  obtain ⟨hx, hy, h1⟩ := h1
  obtain ⟨_, hz, h2⟩ := h2
  exact ⟨hx, hz, h1.trans h2⟩

theorem Rch.of_adjB {L : List (Nat × Nat)} {x y : Nat × Nat} (hx : x ∈ L) (hy : y ∈ L)
    (h : adjB x y = true) : Rch L x y := by
  refine ⟨hx, hy, SimpleGraph.Adj.reachable ?_⟩
  rw [SimpleGraph.induce_adj]
  exact (adjB_iff x y).1 h

theorem Rch.of_adjB' {L : List (Nat × Nat)} {x y : Nat × Nat} (hx : x ∈ L) (hy : y ∈ L)
    (h : adjB y x = true) : Rch L x y :=
  (Rch.of_adjB hy hx h).symm

theorem bool_reach : ∀ ab ac ad bc bd cd : Bool,
    ab.toNat + ac.toNat + ad.toNat + bc.toNat + bd.toNat + cd.toNat = 3 →
    (ab || ac || ad) = true → (ab || bc || bd) = true → (ac || bc || cd) = true →
    (ad || bd || cd) = true →
    (ab || (ac && bc) || (ad && bd) || (ac && cd && bd) || (ad && cd && bc)) = true ∧
    (ac || (ab && bc) || (ad && cd) || (ab && bd && cd) || (ad && bd && bc)) = true ∧
    (ad || (ab && bd) || (ac && cd) || (ab && bc && cd) || (ac && bc && bd)) = true := by
  decide

/-- Four cells, each with a neighbour among them, exactly three adjacent pairs: they are connected. -/
theorem connected_of_counts (L : List (Nat × Nat)) (hnd : L.Nodup) (hlen : L.length = 4)
    (hnb : ∀ p ∈ L, ∃ q ∈ L, cellGraph.Adj p q) (hpc : pairCnt L = 3) :
    (cellGraph.induce {x | x ∈ L}).Preconnected := by
  obtain ⟨a, b, c, d, rfl, hab, hac, had, hbc, hbd, hcd⟩ := exists_four L hnd hlen
  obtain ⟨hcnt, hda, hdb, hdc, hdd⟩ := bool_facts hab hac had hbc hbd hcd hnb hpc
  obtain ⟨r1, r2, r3⟩ := bool_reach _ _ _ _ _ _ hcnt hda hdb hdc hdd
  simp only [Bool.or_eq_true, Bool.and_eq_true] at r1 r2 r3
  have ma : a ∈ [a, b, c, d] := by simp
  have mb : b ∈ [a, b, c, d] := by simp
  have mc : c ∈ [a, b, c, d] := by simp
  have md : d ∈ [a, b, c, d] := by simp
  have hb : Rch [a, b, c, d] a b := by
    rcases r1 with (((h | ⟨h1, h2⟩) | ⟨h1, h2⟩) | ⟨⟨h1, h2⟩, h3⟩) | ⟨⟨h1, h2⟩, h3⟩
    · exact Rch.of_adjB ma mb h
    · exact (Rch.of_adjB ma mc h1).trans (Rch.of_adjB' mc mb h2)
    · exact (Rch.of_adjB ma md h1).trans (Rch.of_adjB' md mb h2)
    · exact ((Rch.of_adjB ma mc h1).trans (Rch.of_adjB mc md h2)).trans (Rch.of_adjB' md mb h3)
    · exact ((Rch.of_adjB ma md h1).trans (Rch.of_adjB' md mc h2)).trans (Rch.of_adjB' mc mb h3)
  have hc : Rch [a, b, c, d] a c := by
    rcases r2 with (((h | ⟨h1, h2⟩) | ⟨h1, h2⟩) | ⟨⟨h1, h2⟩, h3⟩) | ⟨⟨h1, h2⟩, h3⟩
    · exact Rch.of_adjB ma mc h
    · exact (Rch.of_adjB ma mb h1).trans (Rch.of_adjB mb mc h2)
    · exact (Rch.of_adjB ma md h1).trans (Rch.of_adjB' md mc h2)
    · exact ((Rch.of_adjB ma mb h1).trans (Rch.of_adjB mb md h2)).trans (Rch.of_adjB' md mc h3)
    · exact ((Rch.of_adjB ma md h1).trans (Rch.of_adjB' md mb h2)).trans (Rch.of_adjB mb mc h3)
  have hd : Rch [a, b, c, d] a d := by
    rcases r3 with (((h | ⟨h1, h2⟩) | ⟨h1, h2⟩) | ⟨⟨h1, h2⟩, h3⟩) | ⟨⟨h1, h2⟩, h3⟩
    · exact Rch.of_adjB ma md h
    · exact (Rch.of_adjB ma mb h1).trans (Rch.of_adjB mb md h2)
    · exact (Rch.of_adjB ma mc h1).trans (Rch.of_adjB mc md h2)
    · exact ((Rch.of_adjB ma mb h1).trans (Rch.of_adjB mb mc h2)).trans (Rch.of_adjB mc md h3)
    · exact ((Rch.of_adjB ma mc h1).trans (Rch.of_adjB' mc mb h2)).trans (Rch.of_adjB mb md h3)
  have hall : ∀ x ∈ [a, b, c, d], Rch [a, b, c, d] a x := by
    intro x hx
    simp only [List.mem_cons, List.not_mem_nil, or_false] at hx
    rcases hx with rfl | rfl | rfl | rfl
    · exact Rch.refl ma
    · exact hb
    · exact hc
    · exact hd
  rintro ⟨u, hu⟩ ⟨v, hv⟩
  obtain ⟨_, _, h⟩ := (hall u hu).symm.trans (hall v hv)
  exact h

/-- Four connected cells that are not a 2 × 2 square: each has a neighbour among them and there are exactly
three adjacent pairs. -/
theorem counts_of_connected (L : List (Nat × Nat)) (hnd : L.Nodup) (hlen : L.length = 4)
    (hconn : (cellGraph.induce {x | x ∈ L}).Preconnected) (hsq : NoSq L) :
    (∀ p ∈ L, ∃ q ∈ L, cellGraph.Adj p q) ∧ pairCnt L = 3 := by
  sorry

/-- At most two cells of such a set are the middle of a straight triple. -/
theorem mids_le_two (L : List (Nat × Nat)) (hnd : L.Nodup) (hlen : L.length = 4)
    (hnb : ∀ p ∈ L, ∃ q ∈ L, cellGraph.Adj p q) (hpc : pairCnt L = 3) :
    L.countP (midB L) ≤ 2 := by
  sorry

/-- A cell with three neighbours in such a set belongs to it. -/
theorem tcell_mem (L : List (Nat × Nat)) (hnd : L.Nodup) (hlen : L.length = 4)
    (hnb : ∀ p ∈ L, ∃ q ∈ L, cellGraph.Adj p q) (hpc : pairCnt L = 3)
    (p : Nat × Nat) (h3 : 3 ≤ L.countP (adjB p)) : p ∈ L := by
  sorry

end Cspuz.Proofs.C11LitsG
