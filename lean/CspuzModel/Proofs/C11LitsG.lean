/-
  C11 / LITS — pure combinatorics of four-cell sets on the square grid (no solver objects here):
  for a duplicate-free list `L` of four cells,
    [every cell has a neighbour in `L` ∧ exactly three adjacent pairs]  ↔  [`L` is orthogonally connected]
  (the direction ← needs "`L` is not a 2 × 2 square"), such an `L` has at most two straight middles, and a
  cell with three neighbours in `L` belongs to `L`.
-/
import Mathlib.Data.Set.Card
import Mathlib.Tactic.IntervalCases
import CspuzModel.Spec.PuzzleRules.Lits
namespace Cspuz.Proofs.C11LitsG
open Cspuz Cspuz.Spec Cspuz.Spec.Lits

/-- Orthogonal adjacency, as a Boolean. -/
def adjB (p q : Nat × Nat) : Bool :=
  (p.1 == q.1 && (p.2 + 1 == q.2 || q.2 + 1 == p.2)) || (p.2 == q.2 && (p.1 + 1 == q.1 || q.1 + 1 == p.1))

theorem adjB_iff (p q : Nat × Nat) : adjB p q = true ↔ cellGraph.Adj p q := by
  simp only [adjB, cellGraph, Bool.or_eq_true, Bool.and_eq_true, beq_iff_eq]

/-- Python's tuple order `(y, x) < (y', x')`. -/
def lexLtB (p q : Nat × Nat) : Bool := decide (p.1 < q.1) || (p.1 == q.1 && decide (p.2 < q.2))

/-- Number of pairs `p < q` of adjacent cells of `L`. -/
def pairCnt (L : List (Nat × Nat)) : Nat :=
  (L.map fun p => L.countP fun q => lexLtB p q && adjB p q).sum

/-- `p` is a cell of `L` whose two vertical or two horizontal neighbours are cells of `L`. -/
def midB (L : List (Nat × Nat)) (p : Nat × Nat) : Bool :=
  L.contains p &&
    ((decide (1 ≤ p.1) && L.contains (p.1 - 1, p.2) && L.contains (p.1 + 1, p.2)) ||
     (decide (1 ≤ p.2) && L.contains (p.1, p.2 - 1) && L.contains (p.1, p.2 + 1)))

theorem midB_iff (L : List (Nat × Nat)) (p : Nat × Nat) :
    midB L p = true ↔ StraightMid {x | x ∈ L} p := by
  simp only [midB, StraightMid, Bool.and_eq_true, Bool.or_eq_true, List.contains_iff_mem, decide_eq_true_eq,
    Set.mem_ofPred_eq, and_assoc]

/-- `L` contains no 2 × 2 square. -/
def NoSq (L : List (Nat × Nat)) : Prop :=
  ¬ ∃ y x, (y, x) ∈ L ∧ (y, x + 1) ∈ L ∧ (y + 1, x) ∈ L ∧ (y + 1, x + 1) ∈ L

/-! ### helpers -/

theorem adjB_eq_true (p q : Nat × Nat) : adjB p q = true ↔
    (p.1 = q.1 ∧ (p.2 + 1 = q.2 ∨ q.2 + 1 = p.2)) ∨ (p.2 = q.2 ∧ (p.1 + 1 = q.1 ∨ q.1 + 1 = p.1)) := by
  simp only [adjB, Bool.or_eq_true, Bool.and_eq_true, beq_iff_eq]

theorem adjB_comm (p q : Nat × Nat) : adjB p q = adjB q p := by
  rw [Bool.eq_iff_iff, adjB_eq_true, adjB_eq_true]
  omega

theorem adjB_self (p : Nat × Nat) : adjB p p = false := by
  rw [← Bool.not_eq_true, adjB_eq_true]
  omega

theorem ne_of_adjB {p q : Nat × Nat} (h : adjB p q = true) : p ≠ q := by
  rintro rfl
  rw [adjB_self] at h
  exact Bool.false_ne_true h

theorem lexLtB_eq_true (p q : Nat × Nat) : lexLtB p q = true ↔ (p.1 < q.1 ∨ (p.1 = q.1 ∧ p.2 < q.2)) := by
  simp only [lexLtB, Bool.or_eq_true, Bool.and_eq_true, beq_iff_eq, decide_eq_true_eq]

/-- One ordered term of `pairCnt`. -/
def pterm (x y : Nat × Nat) : Nat := if (lexLtB x y && adjB x y) = true then 1 else 0

theorem pterm_self (x : Nat × Nat) : pterm x x = 0 := by
  simp [pterm, adjB_self]

theorem pterm_pair {x y : Nat × Nat} (h : x ≠ y) : pterm x y + pterm y x = (adjB x y).toNat := by
  obtain ⟨x1, x2⟩ := x
  obtain ⟨y1, y2⟩ := y
  have h' : x1 ≠ y1 ∨ x2 ≠ y2 := by
    by_contra hc
    apply h
    rw [Prod.mk.injEq]
    omega
  unfold pterm
  rw [adjB_comm (y1, y2) (x1, x2)]
  cases hA : adjB (x1, x2) (y1, y2)
  · simp
  · have h1 := lexLtB_eq_true (x1, x2) (y1, y2)
    have h2 := lexLtB_eq_true (y1, y2) (x1, x2)
    simp only at h1 h2
    cases hl1 : lexLtB (x1, x2) (y1, y2) <;> cases hl2 : lexLtB (y1, y2) (x1, x2) <;>
      rw [hl1] at h1 <;> rw [hl2] at h2 <;> simp at h1 h2 ⊢ <;> omega

theorem pairCnt_four' (a b c d : Nat × Nat) :
    pairCnt [a, b, c, d] =
      (pterm a a + pterm a b + pterm a c + pterm a d) + (pterm b a + pterm b b + pterm b c + pterm b d) +
      (pterm c a + pterm c b + pterm c c + pterm c d) + (pterm d a + pterm d b + pterm d c + pterm d d) := by
  simp only [pairCnt, List.map_cons, List.map_nil, List.sum_cons, List.sum_nil, List.countP_cons,
    List.countP_nil, pterm]
  omega

/-- The `pairCnt` of four distinct cells is the number of adjacent unordered pairs. -/
theorem pairCnt_four {a b c d : Nat × Nat} (hab : a ≠ b) (hac : a ≠ c) (had : a ≠ d) (hbc : b ≠ c)
    (hbd : b ≠ d) (hcd : c ≠ d) :
    pairCnt [a, b, c, d] = (adjB a b).toNat + (adjB a c).toNat + (adjB a d).toNat + (adjB b c).toNat +
      (adjB b d).toNat + (adjB c d).toNat := by
  rw [pairCnt_four', pterm_self, pterm_self, pterm_self, pterm_self, ← pterm_pair hab, ← pterm_pair hac,
    ← pterm_pair had, ← pterm_pair hbc, ← pterm_pair hbd, ← pterm_pair hcd]
  omega

/-- Destructuring of a duplicate-free list of length four. -/
theorem exists_four {α : Type} (L : List α) (hnd : L.Nodup) (hlen : L.length = 4) :
    ∃ a b c d, L = [a, b, c, d] ∧ a ≠ b ∧ a ≠ c ∧ a ≠ d ∧ b ≠ c ∧ b ≠ d ∧ c ≠ d := by
  match L, hlen, hnd with
  | [a, b, c, d], _, hnd =>
    refine ⟨a, b, c, d, rfl, ?_⟩
    simp only [List.nodup_cons, List.mem_cons, List.not_mem_nil, or_false, not_or, List.nodup_nil,
      and_true] at hnd
    obtain ⟨⟨h1, h2, h3⟩, ⟨h4, h5⟩, h6⟩ := hnd
    exact ⟨h1, h2, h3, h4, h5, h6.1⟩

/-! ### degrees -/

/-- A cell with a neighbour in `L ⊆ {x, u, v, w}` is adjacent to one of `u`, `v`, `w`. -/
theorem deg_one {L : List (Nat × Nat)} {x u v w : Nat × Nat}
    (hL : ∀ q ∈ L, q = x ∨ q = u ∨ q = v ∨ q = w) (h : ∃ q ∈ L, cellGraph.Adj x q) :
    (adjB x u || adjB x v || adjB x w) = true := by
  obtain ⟨q, hq, hadj⟩ := h
  rw [← adjB_iff] at hadj
  simp only [Bool.or_eq_true]
  rcases hL q hq with rfl | rfl | rfl | rfl
  · rw [adjB_self] at hadj
    exact absurd hadj Bool.false_ne_true
  · exact Or.inl (Or.inl hadj)
  · exact Or.inl (Or.inr hadj)
  · exact Or.inr hadj

/-- The hypotheses "every cell has a neighbour, three adjacent pairs" on `[a, b, c, d]`, as Boolean facts. -/
theorem bool_facts {a b c d : Nat × Nat} (hab : a ≠ b) (hac : a ≠ c) (had : a ≠ d) (hbc : b ≠ c)
    (hbd : b ≠ d) (hcd : c ≠ d) (hnb : ∀ p ∈ [a, b, c, d], ∃ q ∈ [a, b, c, d], cellGraph.Adj p q)
    (hpc : pairCnt [a, b, c, d] = 3) :
    (adjB a b).toNat + (adjB a c).toNat + (adjB a d).toNat + (adjB b c).toNat + (adjB b d).toNat +
        (adjB c d).toNat = 3 ∧
      (adjB a b || adjB a c || adjB a d) = true ∧ (adjB a b || adjB b c || adjB b d) = true ∧
      (adjB a c || adjB b c || adjB c d) = true ∧ (adjB a d || adjB b d || adjB c d) = true := by
  refine ⟨by rw [← pairCnt_four hab hac had hbc hbd hcd]; exact hpc, ?_, ?_, ?_, ?_⟩
  · exact deg_one (by intro q hq; simpa using hq) (hnb a (by simp))
  · have := deg_one (x := b) (u := a) (v := c) (w := d) (by intro q hq; simp at hq; tauto) (hnb b (by simp))
    rwa [adjB_comm b a] at this
  · have := deg_one (x := c) (u := a) (v := b) (w := d) (by intro q hq; simp at hq; tauto) (hnb c (by simp))
    rwa [adjB_comm c a, adjB_comm c b] at this
  · have := deg_one (x := d) (u := a) (v := b) (w := c) (by intro q hq; simp at hq; tauto) (hnb d (by simp))
    rwa [adjB_comm d a, adjB_comm d b, adjB_comm d c] at this

/-! ### reachability inside `L` -/

/-- `x` and `y` are cells of `L` joined by a path of adjacent cells of `L`. -/
def Rch (L : List (Nat × Nat)) (x y : Nat × Nat) : Prop :=
  ∃ (hx : x ∈ L) (hy : y ∈ L), (cellGraph.induce {z | z ∈ L}).Reachable ⟨x, hx⟩ ⟨y, hy⟩

theorem Rch.refl {L : List (Nat × Nat)} {x : Nat × Nat} (hx : x ∈ L) : Rch L x x :=
  ⟨hx, hx, SimpleGraph.Reachable.refl _⟩

theorem Rch.symm {L : List (Nat × Nat)} {x y : Nat × Nat} (h : Rch L x y) : Rch L y x := by
  obtain ⟨hx, hy, h⟩ := h
  exact ⟨hy, hx, h.symm⟩

theorem Rch.trans {L : List (Nat × Nat)} {x y z : Nat × Nat} (h1 : Rch L x y) (h2 : Rch L y z) :
    Rch L x z := by
  obtain ⟨hx, hy, h1⟩ := h1
  obtain ⟨_, hz, h2⟩ := h2
  exact ⟨hx, hz, h1.trans h2⟩

theorem Rch.of_adjB {L : List (Nat × Nat)} {x y : Nat × Nat} (hx : x ∈ L) (hy : y ∈ L)
    (h : adjB x y = true) : Rch L x y := by
  refine ⟨hx, hy, SimpleGraph.Adj.reachable ?_⟩
  rw [SimpleGraph.induce_adj]
  exact (adjB_iff x y).1 h

theorem Rch.of_adjB' {L : List (Nat × Nat)} {x y : Nat × Nat} (hx : x ∈ L) (hy : y ∈ L)
    (h : adjB y x = true) : Rch L x y :=
  (Rch.of_adjB hy hx h).symm

theorem bool_reach : ∀ ab ac ad bc bd cd : Bool,
    ab.toNat + ac.toNat + ad.toNat + bc.toNat + bd.toNat + cd.toNat = 3 →
    (ab || ac || ad) = true → (ab || bc || bd) = true → (ac || bc || cd) = true →
    (ad || bd || cd) = true →
    (ab || (ac && bc) || (ad && bd) || (ac && cd && bd) || (ad && cd && bc)) = true ∧
    (ac || (ab && bc) || (ad && cd) || (ab && bd && cd) || (ad && bd && bc)) = true ∧
    (ad || (ab && bd) || (ac && cd) || (ab && bc && cd) || (ac && bc && bd)) = true := by
  decide

/-! ### geometry of the square grid -/

theorem pair_ne_iff (x z : Nat × Nat) : x ≠ z ↔ (x.1 ≠ z.1 ∨ x.2 ≠ z.2) := by
  rw [Ne, Prod.ext_iff, not_and_or]

/-- Two neighbours of a cell are never adjacent. -/
theorem nbrs_not_adj {p x y : Nat × Nat} (hx : adjB p x = true) (hy : adjB p y = true) :
    adjB x y = false := by
  rw [← Bool.not_eq_true]
  rw [adjB_eq_true] at hx hy ⊢
  omega

theorem sq_geom (x1 x2 y1 y2 z1 z2 w1 w2 : Nat)
    (hxy : (x1 = y1 ∧ (x2 + 1 = y2 ∨ y2 + 1 = x2)) ∨ (x2 = y2 ∧ (x1 + 1 = y1 ∨ y1 + 1 = x1)))
    (hyz : (y1 = z1 ∧ (y2 + 1 = z2 ∨ z2 + 1 = y2)) ∨ (y2 = z2 ∧ (y1 + 1 = z1 ∨ z1 + 1 = y1)))
    (hzw : (z1 = w1 ∧ (z2 + 1 = w2 ∨ w2 + 1 = z2)) ∨ (z2 = w2 ∧ (z1 + 1 = w1 ∨ w1 + 1 = z1)))
    (hxw : (x1 = w1 ∧ (x2 + 1 = w2 ∨ w2 + 1 = x2)) ∨ (x2 = w2 ∧ (x1 + 1 = w1 ∨ w1 + 1 = x1)))
    (hxz : x1 ≠ z1 ∨ x2 ≠ z2) (hyw : y1 ≠ w1 ∨ y2 ≠ w2) :
    (x1 + 1 = z1 ∨ z1 + 1 = x1) ∧ (x2 + 1 = z2 ∨ z2 + 1 = x2) ∧
      ((y1 = x1 ∧ y2 = z2 ∧ w1 = z1 ∧ w2 = x2) ∨ (y1 = z1 ∧ y2 = x2 ∧ w1 = x1 ∧ w2 = z2)) := by
  rcases hxy with ⟨h1, h2 | h2⟩ | ⟨h1, h2 | h2⟩ <;>
  rcases hyz with ⟨h3, h4 | h4⟩ | ⟨h3, h4 | h4⟩ <;>
  rcases hzw with ⟨h5, h6 | h6⟩ | ⟨h5, h6 | h6⟩ <;>
  rcases hxw with ⟨h7, h8 | h8⟩ | ⟨h7, h8 | h8⟩ <;>
  omega

/-- A 4-cycle `x – y – z – w – x` with `x ≠ z`, `y ≠ w` is a 2 × 2 square: `x`, `z` are diagonal and `y`, `w`
are the two other corners. -/
theorem sq_cells {x y z w : Nat × Nat} (hxy : adjB x y = true) (hyz : adjB y z = true)
    (hzw : adjB z w = true) (hxw : adjB x w = true) (hxz : x ≠ z) (hyw : y ≠ w) :
    (x.1 + 1 = z.1 ∨ z.1 + 1 = x.1) ∧ (x.2 + 1 = z.2 ∨ z.2 + 1 = x.2) ∧
      ((y.1 = x.1 ∧ y.2 = z.2 ∧ w.1 = z.1 ∧ w.2 = x.2) ∨ (y.1 = z.1 ∧ y.2 = x.2 ∧ w.1 = x.1 ∧ w.2 = z.2)) := by
  rw [adjB_eq_true] at hxy hyz hzw hxw
  rw [pair_ne_iff] at hxz hyw
  exact sq_geom _ _ _ _ _ _ _ _ hxy hyz hzw hxw hxz hyw

/-- The cells of such a 4-cycle fill a 2 × 2 square. -/
theorem sq_mem (L : List (Nat × Nat)) {x y z w : Nat × Nat} (hx : x ∈ L) (hy : y ∈ L) (hz : z ∈ L)
    (hw : w ∈ L) (hxy : adjB x y = true) (hyz : adjB y z = true)
    (hzw : adjB z w = true) (hxw : adjB x w = true) (hxz : x ≠ z) (hyw : y ≠ w) :
    ∃ y0 x0, (y0, x0) ∈ L ∧ (y0, x0 + 1) ∈ L ∧ (y0 + 1, x0) ∈ L ∧ (y0 + 1, x0 + 1) ∈ L := by
  have h := sq_cells hxy hyz hzw hxw hxz hyw
  obtain ⟨x1, x2⟩ := x
  obtain ⟨y1, y2⟩ := y
  obtain ⟨z1, z2⟩ := z
  obtain ⟨w1, w2⟩ := w
  simp only at h
  obtain ⟨h1 | h1, h2 | h2, ⟨rfl, rfl, rfl, rfl⟩ | ⟨rfl, rfl, rfl, rfl⟩⟩ := h <;> subst h1 <;> subst h2
  · exact ⟨_, _, hx, hy, hw, hz⟩
  · exact ⟨_, _, hx, hw, hy, hz⟩
  · exact ⟨_, _, hy, hx, hz, hw⟩
  · exact ⟨_, _, hw, hx, hz, hy⟩
  · exact ⟨_, _, hw, hz, hx, hy⟩
  · exact ⟨_, _, hy, hz, hx, hw⟩
  · exact ⟨_, _, hz, hw, hy, hx⟩
  · exact ⟨_, _, hz, hy, hw, hx⟩

/-- Among three pairwise distinct neighbours of a cell two lie in the same row or the same column. -/
theorem opp_of_three {p x y z : Nat × Nat} (hx : adjB p x = true) (hy : adjB p y = true)
    (hz : adjB p z = true) (hxy : x ≠ y) (hxz : x ≠ z) (hyz : y ≠ z) :
    (x.1 = y.1 ∨ x.2 = y.2) ∨ (x.1 = z.1 ∨ x.2 = z.2) ∨ (y.1 = z.1 ∨ y.2 = z.2) := by
  rw [adjB_eq_true] at hx hy hz
  rw [pair_ne_iff] at hxy hxz hyz
  omega

/-- Two distinct neighbours of `p` in the same row or column have no other common neighbour. -/
theorem common_opp {p w u v : Nat × Nat} (hu : adjB p u = true) (hv : adjB p v = true)
    (hu' : adjB w u = true) (hv' : adjB w v = true) (huv : u ≠ v) (hopp : u.1 = v.1 ∨ u.2 = v.2) :
    w = p := by
  by_contra hne
  have h := sq_cells (x := u) (y := p) (z := v) (w := w) (by rw [adjB_comm]; exact hu) hv
    (by rw [adjB_comm]; exact hv') (by rw [adjB_comm]; exact hu') huv (Ne.symm hne)
  omega

/-! ### straight middles -/

theorem two_of_three {x u v w p q : Nat × Nat} (hp : adjB x p = true) (hq : adjB x q = true) (hpq : p ≠ q)
    (hp' : p = x ∨ p = u ∨ p = v ∨ p = w) (hq' : q = x ∨ q = u ∨ q = v ∨ q = w) :
    ((adjB x u && adjB x v) || (adjB x u && adjB x w) || (adjB x v && adjB x w)) = true := by
  rcases hp' with rfl | rfl | rfl | rfl <;> rcases hq' with rfl | rfl | rfl | rfl <;>
    simp_all [adjB_self]

/-- A straight middle `x` of `L ⊆ {x, u, v, w}` is adjacent to two of `u`, `v`, `w`. -/
theorem mid_deg_two {L : List (Nat × Nat)} {x u v w : Nat × Nat}
    (hL : ∀ q ∈ L, q = x ∨ q = u ∨ q = v ∨ q = w) (h : midB L x = true) :
    ((adjB x u && adjB x v) || (adjB x u && adjB x w) || (adjB x v && adjB x w)) = true := by
  rw [midB_iff] at h
  obtain ⟨_, ⟨h1, hm, hp⟩ | ⟨h1, hm, hp⟩⟩ := h
  · refine two_of_three (p := (x.1 - 1, x.2)) (q := (x.1 + 1, x.2)) ?_ ?_ ?_ (hL _ hm) (hL _ hp)
    · rw [adjB_eq_true]; dsimp only; omega
    · rw [adjB_eq_true]; dsimp only; omega
    · rw [pair_ne_iff]; dsimp only; omega
  · refine two_of_three (p := (x.1, x.2 - 1)) (q := (x.1, x.2 + 1)) ?_ ?_ ?_ (hL _ hm) (hL _ hp)
    · rw [adjB_eq_true]; dsimp only; omega
    · rw [adjB_eq_true]; dsimp only; omega
    · rw [pair_ne_iff]; dsimp only; omega

theorem toNat_le_of_imp {x y : Bool} (h : x = true → y = true) : x.toNat ≤ y.toNat := by
  cases x <;> cases y <;> simp_all

theorem ite_eq_toNat (b : Bool) : (if b = true then 1 else 0) = b.toNat := by
  cases b <;> rfl

theorem countP_four {α : Type} (f : α → Bool) (a b c d : α) :
    List.countP f [a, b, c, d] = (f a).toNat + (f b).toNat + (f c).toNat + (f d).toNat := by
  simp only [List.countP_cons, List.countP_nil, ite_eq_toNat]
  omega

theorem bool_mids : ∀ ab ac ad bc bd cd : Bool,
    ab.toNat + ac.toNat + ad.toNat + bc.toNat + bd.toNat + cd.toNat = 3 →
    (ab || ac || ad) = true → (ab || bc || bd) = true → (ac || bc || cd) = true →
    (ad || bd || cd) = true →
    ((ab && ac) || (ab && ad) || (ac && ad)).toNat + ((ab && bc) || (ab && bd) || (bc && bd)).toNat +
      ((ac && bc) || (ac && cd) || (bc && cd)).toNat + ((ad && bd) || (ad && cd) || (bd && cd)).toNat ≤ 2 := by
  decide

/-! ### a cell with three neighbours -/

theorem bool_three : ∀ pa pb pc pd : Bool, 3 ≤ pa.toNat + pb.toNat + pc.toNat + pd.toNat →
    ((pa && pb && pc) || (pa && pb && pd) || (pa && pc && pd) || (pb && pc && pd)) = true := by
  decide

theorem bool_rest : ∀ xy xz xw yz yw zw : Bool,
    xy.toNat + xz.toNat + xw.toNat + yz.toNat + yw.toNat + zw.toNat = 3 → xy = false → xz = false →
    yz = false → xw = true ∧ yw = true ∧ zw = true := by
  decide

theorem tcell_aux {p x y z w : Nat × Nat} (hxy : x ≠ y) (hxz : x ≠ z) (hyz : y ≠ z)
    (hx : adjB p x = true) (hy : adjB p y = true) (hz : adjB p z = true)
    (hcnt : (adjB x y).toNat + (adjB x z).toNat + (adjB x w).toNat + (adjB y z).toNat + (adjB y w).toNat +
      (adjB z w).toNat = 3) : w = p := by
  obtain ⟨hxw, hyw, hzw⟩ := bool_rest _ _ _ _ _ _ hcnt (nbrs_not_adj hx hy) (nbrs_not_adj hx hz)
    (nbrs_not_adj hy hz)
  rw [adjB_comm] at hxw hyw hzw
  rcases opp_of_three hx hy hz hxy hxz hyz with h | h | h
  · exact common_opp hx hy hxw hyw hxy h
  · exact common_opp hx hz hxw hzw hxz h
  · exact common_opp hy hz hyw hzw hyz h

/-! ### cuts of a connected induced subgraph -/

theorem walk_cut {V : Type} (G : SimpleGraph V) (S : Set V) (A : V → Prop) :
    ∀ {s t : S} (_ : (G.induce S).Walk s t), A s.1 → ¬ A t.1 →
      ∃ x ∈ S, A x ∧ ∃ y ∈ S, ¬ A y ∧ G.Adj x y := by
  intro s t w
  induction w with
  | nil => intro hs ht; exact absurd hs ht
  | @cons s m t hadj _ ih =>
    intro hs ht
    by_cases hm : A m.1
    · exact ih hm ht
    · exact ⟨s.1, s.2, hs, m.1, m.2, hm, SimpleGraph.induce_adj.1 hadj⟩

/-- CUT lemma: if the subgraph induced on `S` is connected, `u ∈ S` satisfies `A` and `v ∈ S` does not, then some
edge inside `S` leads from `A` to its complement. -/
theorem cut_of_preconnected {V : Type} (G : SimpleGraph V) (S : Set V) (A : V → Prop)
    (hconn : (G.induce S).Preconnected) {u v : V} (hu : u ∈ S) (hv : v ∈ S) (huA : A u) (hvA : ¬ A v) :
    ∃ x ∈ S, A x ∧ ∃ y ∈ S, ¬ A y ∧ G.Adj x y := by
  obtain ⟨w⟩ := hconn ⟨u, hu⟩ ⟨v, hv⟩
  exact walk_cut G S A w huA hvA

theorem cut_list {L : List (Nat × Nat)} (hconn : (cellGraph.induce {x | x ∈ L}).Preconnected)
    (A : Nat × Nat → Prop) {u v : Nat × Nat} (hu : u ∈ L) (hv : v ∈ L) (huA : A u) (hvA : ¬ A v) :
    ∃ x ∈ L, A x ∧ ∃ y ∈ L, ¬ A y ∧ adjB x y = true := by
  obtain ⟨x, hx, hxA, y, hy, hyA, hadj⟩ := cut_of_preconnected cellGraph {x | x ∈ L} A hconn hu hv huA hvA
  exact ⟨x, hx, hxA, y, hy, hyA, (adjB_iff x y).2 hadj⟩

/-- Connected (all seven cuts are crossed), no triangle, no 4-cycle: a tree, three edges. -/
theorem bool_tree : ∀ ab ac ad bc bd cd : Bool,
    (ab || ac || ad) = true → (ab || bc || bd) = true → (ac || bc || cd) = true → (ad || bd || cd) = true →
    (ac || ad || bc || bd) = true → (ab || ad || bc || cd) = true → (ab || ac || bd || cd) = true →
    (ab && bc && ac) = false → (ab && bd && ad) = false → (ac && cd && ad) = false →
    (bc && cd && bd) = false →
    (ab && bc && cd && ad) = false → (ab && bd && cd && ac) = false → (ac && bc && bd && ad) = false →
    ab.toNat + ac.toNat + ad.toNat + bc.toNat + bd.toNat + cd.toNat = 3 := by
  decide

theorem no_triangle {x y z : Nat × Nat} : (adjB x y && adjB y z && adjB x z) = false := by
  rw [← Bool.not_eq_true]
  simp only [Bool.and_eq_true]
  rintro ⟨⟨h1, h2⟩, h3⟩
  rw [adjB_comm] at h1
  rw [nbrs_not_adj h1 h2] at h3
  exact Bool.false_ne_true h3

theorem exists_nb {L : List (Nat × Nat)} {x u v w : Nat × Nat} (hu : u ∈ L) (hv : v ∈ L) (hw : w ∈ L)
    (h : (adjB x u || adjB x v || adjB x w) = true) : ∃ q ∈ L, cellGraph.Adj x q := by
  simp only [Bool.or_eq_true] at h
  rcases h with (h | h) | h
  · exact ⟨u, hu, (adjB_iff _ _).1 h⟩
  · exact ⟨v, hv, (adjB_iff _ _).1 h⟩
  · exact ⟨w, hw, (adjB_iff _ _).1 h⟩

/-- Four cells, each with a neighbour among them, exactly three adjacent pairs: they are connected. -/
theorem connected_of_counts (L : List (Nat × Nat)) (hnd : L.Nodup) (hlen : L.length = 4)
    (hnb : ∀ p ∈ L, ∃ q ∈ L, cellGraph.Adj p q) (hpc : pairCnt L = 3) :
    (cellGraph.induce {x | x ∈ L}).Preconnected := by
  obtain ⟨a, b, c, d, rfl, hab, hac, had, hbc, hbd, hcd⟩ := exists_four L hnd hlen
  obtain ⟨hcnt, hda, hdb, hdc, hdd⟩ := bool_facts hab hac had hbc hbd hcd hnb hpc
  obtain ⟨r1, r2, r3⟩ := bool_reach _ _ _ _ _ _ hcnt hda hdb hdc hdd
  simp only [Bool.or_eq_true, Bool.and_eq_true] at r1 r2 r3
  have ma : a ∈ [a, b, c, d] := by simp
  have mb : b ∈ [a, b, c, d] := by simp
  have mc : c ∈ [a, b, c, d] := by simp
  have md : d ∈ [a, b, c, d] := by simp
  have hb : Rch [a, b, c, d] a b := by
    rcases r1 with (((h | ⟨h1, h2⟩) | ⟨h1, h2⟩) | ⟨⟨h1, h2⟩, h3⟩) | ⟨⟨h1, h2⟩, h3⟩
    · exact Rch.of_adjB ma mb h
    · exact (Rch.of_adjB ma mc h1).trans (Rch.of_adjB' mc mb h2)
    · exact (Rch.of_adjB ma md h1).trans (Rch.of_adjB' md mb h2)
    · exact ((Rch.of_adjB ma mc h1).trans (Rch.of_adjB mc md h2)).trans (Rch.of_adjB' md mb h3)
    · exact ((Rch.of_adjB ma md h1).trans (Rch.of_adjB' md mc h2)).trans (Rch.of_adjB' mc mb h3)
  have hc : Rch [a, b, c, d] a c := by
    rcases r2 with (((h | ⟨h1, h2⟩) | ⟨h1, h2⟩) | ⟨⟨h1, h2⟩, h3⟩) | ⟨⟨h1, h2⟩, h3⟩
    · exact Rch.of_adjB ma mc h
    · exact (Rch.of_adjB ma mb h1).trans (Rch.of_adjB mb mc h2)
    · exact (Rch.of_adjB ma md h1).trans (Rch.of_adjB' md mc h2)
    · exact ((Rch.of_adjB ma mb h1).trans (Rch.of_adjB mb md h2)).trans (Rch.of_adjB' md mc h3)
    · exact ((Rch.of_adjB ma md h1).trans (Rch.of_adjB' md mb h2)).trans (Rch.of_adjB mb mc h3)
  have hd : Rch [a, b, c, d] a d := by
    rcases r3 with (((h | ⟨h1, h2⟩) | ⟨h1, h2⟩) | ⟨⟨h1, h2⟩, h3⟩) | ⟨⟨h1, h2⟩, h3⟩
    · exact Rch.of_adjB ma md h
    · exact (Rch.of_adjB ma mb h1).trans (Rch.of_adjB mb md h2)
    · exact (Rch.of_adjB ma mc h1).trans (Rch.of_adjB mc md h2)
    · exact ((Rch.of_adjB ma mb h1).trans (Rch.of_adjB mb mc h2)).trans (Rch.of_adjB mc md h3)
    · exact ((Rch.of_adjB ma mc h1).trans (Rch.of_adjB' mc mb h2)).trans (Rch.of_adjB mb md h3)
  have hall : ∀ x ∈ [a, b, c, d], Rch [a, b, c, d] a x := by
    intro x hx
    simp only [List.mem_cons, List.not_mem_nil, or_false] at hx
    rcases hx with rfl | rfl | rfl | rfl
    · exact Rch.refl ma
    · exact hb
    · exact hc
    · exact hd
  rintro ⟨u, hu⟩ ⟨v, hv⟩
  obtain ⟨_, _, h⟩ := (hall u hu).symm.trans (hall v hv)
  exact h

/-- Four connected cells that are not a 2 × 2 square: each has a neighbour among them and there are exactly
three adjacent pairs. -/
theorem counts_of_connected (L : List (Nat × Nat)) (hnd : L.Nodup) (hlen : L.length = 4)
    (hconn : (cellGraph.induce {x | x ∈ L}).Preconnected) (hsq : NoSq L) :
    (∀ p ∈ L, ∃ q ∈ L, cellGraph.Adj p q) ∧ pairCnt L = 3 := by
  obtain ⟨a, b, c, d, rfl, hab, hac, had, hbc, hbd, hcd⟩ := exists_four L hnd hlen
  have hba := hab.symm
  have hca := hac.symm
  have hda := had.symm
  have hcb := hbc.symm
  have hdb := hbd.symm
  have hdc := hcd.symm
  have ma : a ∈ [a, b, c, d] := by simp
  have mb : b ∈ [a, b, c, d] := by simp
  have mc : c ∈ [a, b, c, d] := by simp
  have md : d ∈ [a, b, c, d] := by simp
  -- the seven cuts
  have c1 : (adjB a b || adjB a c || adjB a d) = true := by
    obtain ⟨x, hx, hxA, y, hy, hyA, hadj⟩ := cut_list hconn (fun z => z = a) ma mb rfl hba
    simp only [List.mem_cons, List.not_mem_nil, or_false] at hx hy
    rcases hx with rfl | rfl | rfl | rfl <;> rcases hy with rfl | rfl | rfl | rfl <;> simp_all
  have c2 : (adjB b a || adjB b c || adjB b d) = true := by
    obtain ⟨x, hx, hxA, y, hy, hyA, hadj⟩ := cut_list hconn (fun z => z = b) mb ma rfl hab
    simp only [List.mem_cons, List.not_mem_nil, or_false] at hx hy
    rcases hx with rfl | rfl | rfl | rfl <;> rcases hy with rfl | rfl | rfl | rfl <;> simp_all
  have c3 : (adjB c a || adjB c b || adjB c d) = true := by
    obtain ⟨x, hx, hxA, y, hy, hyA, hadj⟩ := cut_list hconn (fun z => z = c) mc ma rfl hac
    simp only [List.mem_cons, List.not_mem_nil, or_false] at hx hy
    rcases hx with rfl | rfl | rfl | rfl <;> rcases hy with rfl | rfl | rfl | rfl <;> simp_all
  have c4 : (adjB d a || adjB d b || adjB d c) = true := by
    obtain ⟨x, hx, hxA, y, hy, hyA, hadj⟩ := cut_list hconn (fun z => z = d) md ma rfl had
    simp only [List.mem_cons, List.not_mem_nil, or_false] at hx hy
    rcases hx with rfl | rfl | rfl | rfl <;> rcases hy with rfl | rfl | rfl | rfl <;> simp_all
  have c5 : (adjB a c || adjB a d || adjB b c || adjB b d) = true := by
    obtain ⟨x, hx, hxA, y, hy, hyA, hadj⟩ :=
      cut_list hconn (fun z => z = a ∨ z = b) ma mc (Or.inl rfl) (by simp [hca, hcb])
    simp only [List.mem_cons, List.not_mem_nil, or_false] at hx hy
    rcases hx with rfl | rfl | rfl | rfl <;> rcases hy with rfl | rfl | rfl | rfl <;> simp_all
  have c6 : (adjB a b || adjB a d || adjB c b || adjB c d) = true := by
    obtain ⟨x, hx, hxA, y, hy, hyA, hadj⟩ :=
      cut_list hconn (fun z => z = a ∨ z = c) ma mb (Or.inl rfl) (by simp [hba, hbc])
    simp only [List.mem_cons, List.not_mem_nil, or_false] at hx hy
    rcases hx with rfl | rfl | rfl | rfl <;> rcases hy with rfl | rfl | rfl | rfl <;> simp_all
  have c7 : (adjB a b || adjB a c || adjB d b || adjB d c) = true := by
    obtain ⟨x, hx, hxA, y, hy, hyA, hadj⟩ :=
      cut_list hconn (fun z => z = a ∨ z = d) ma mb (Or.inl rfl) (by simp [hba, hbd])
    simp only [List.mem_cons, List.not_mem_nil, or_false] at hx hy
    rcases hx with rfl | rfl | rfl | rfl <;> rcases hy with rfl | rfl | rfl | rfl <;> simp_all
  -- no 4-cycle
  have q1 : (adjB a b && adjB b c && adjB c d && adjB a d) = false := by
    rw [← Bool.not_eq_true]
    simp only [Bool.and_eq_true]
    rintro ⟨⟨⟨h1, h2⟩, h3⟩, h4⟩
    exact hsq (sq_mem _ ma mb mc md h1 h2 h3 h4 hac hbd)
  have q2 : (adjB a b && adjB b d && adjB c d && adjB a c) = false := by
    rw [← Bool.not_eq_true]
    simp only [Bool.and_eq_true]
    rintro ⟨⟨⟨h1, h2⟩, h3⟩, h4⟩
    rw [adjB_comm] at h3
    exact hsq (sq_mem _ ma mb md mc h1 h2 h3 h4 had hbc)
  have q3 : (adjB a c && adjB b c && adjB b d && adjB a d) = false := by
    rw [← Bool.not_eq_true]
    simp only [Bool.and_eq_true]
    rintro ⟨⟨⟨h1, h2⟩, h3⟩, h4⟩
    rw [adjB_comm] at h2
    exact hsq (sq_mem _ ma mc mb md h1 h2 h3 h4 hab hcd)
  refine ⟨?_, ?_⟩
  · intro p hp
    simp only [List.mem_cons, List.not_mem_nil, or_false] at hp
    rcases hp with rfl | rfl | rfl | rfl
    · exact exists_nb mb mc md c1
    · exact exists_nb ma mc md c2
    · exact exists_nb ma mb md c3
    · exact exists_nb ma mb mc c4
  · rw [pairCnt_four hab hac had hbc hbd hcd]
    rw [adjB_comm b a] at c2
    rw [adjB_comm c a, adjB_comm c b] at c3
    rw [adjB_comm c b] at c6
    rw [adjB_comm d a, adjB_comm d b, adjB_comm d c] at c4
    rw [adjB_comm d b, adjB_comm d c] at c7
    refine bool_tree _ _ _ _ _ _ c1 c2 c3 c4 c5 c6 c7 no_triangle ?_ ?_ ?_ q1 q2 q3
    · exact no_triangle
    · exact no_triangle
    · exact no_triangle

/-- At most two cells of such a set are the middle of a straight triple. -/
theorem mids_le_two (L : List (Nat × Nat)) (hnd : L.Nodup) (hlen : L.length = 4)
    (hnb : ∀ p ∈ L, ∃ q ∈ L, cellGraph.Adj p q) (hpc : pairCnt L = 3) :
    L.countP (midB L) ≤ 2 := by
  obtain ⟨a, b, c, d, rfl, hab, hac, had, hbc, hbd, hcd⟩ := exists_four L hnd hlen
  obtain ⟨hcnt, hda, hdb, hdc, hdd⟩ := bool_facts hab hac had hbc hbd hcd hnb hpc
  have hm := bool_mids _ _ _ _ _ _ hcnt hda hdb hdc hdd
  rw [countP_four]
  have h1 := toNat_le_of_imp (mid_deg_two (L := [a, b, c, d]) (x := a) (u := b) (v := c) (w := d)
    (by intro q hq; simpa using hq))
  have h2 := toNat_le_of_imp (mid_deg_two (L := [a, b, c, d]) (x := b) (u := a) (v := c) (w := d)
    (by intro q hq; simp at hq; tauto))
  have h3 := toNat_le_of_imp (mid_deg_two (L := [a, b, c, d]) (x := c) (u := a) (v := b) (w := d)
    (by intro q hq; simp at hq; tauto))
  have h4 := toNat_le_of_imp (mid_deg_two (L := [a, b, c, d]) (x := d) (u := a) (v := b) (w := c)
    (by intro q hq; simp at hq; tauto))
  rw [adjB_comm b a] at h2
  rw [adjB_comm c a, adjB_comm c b] at h3
  rw [adjB_comm d a, adjB_comm d b, adjB_comm d c] at h4
  omega

/-- A cell with three neighbours in such a set belongs to it. -/
theorem tcell_mem (L : List (Nat × Nat)) (hnd : L.Nodup) (hlen : L.length = 4)
    (hnb : ∀ p ∈ L, ∃ q ∈ L, cellGraph.Adj p q) (hpc : pairCnt L = 3)
    (p : Nat × Nat) (h3 : 3 ≤ L.countP (adjB p)) : p ∈ L := by
  obtain ⟨a, b, c, d, rfl, hab, hac, had, hbc, hbd, hcd⟩ := exists_four L hnd hlen
  obtain ⟨hcnt, -, -, -, -⟩ := bool_facts hab hac had hbc hbd hcd hnb hpc
  rw [countP_four] at h3
  have h := bool_three _ _ _ _ h3
  simp only [Bool.or_eq_true, Bool.and_eq_true] at h
  rcases h with ((⟨⟨h1, h2⟩, h3⟩ | ⟨⟨h1, h2⟩, h3⟩) | ⟨⟨h1, h2⟩, h3⟩) | ⟨⟨h1, h2⟩, h3⟩
  · have : d = p := tcell_aux hab hac hbc h1 h2 h3 hcnt
    subst this; simp
  · have : c = p := tcell_aux hab had hbd h1 h2 h3 (by rw [adjB_comm d c]; omega)
    subst this; simp
  · have : b = p := tcell_aux hac had hcd h1 h2 h3 (by rw [adjB_comm c b, adjB_comm d b]; omega)
    subst this; simp
  · have : a = p := tcell_aux hbc hbd hcd h1 h2 h3
      (by rw [adjB_comm b a, adjB_comm c a, adjB_comm d a]; omega)
    subst this; simp

end Cspuz.Proofs.C11LitsG
