/-
  C07, layer L1 (evaluation layer): the program emitted by `_division_connected_variable_groups`
  (group_id / rank / is_root / is_active_edge / downstream_size / total_size encoding) is satisfied by
  an extension `σ'` of `σ` iff an arithmetic certificate `GroupCert` exists, with the group ids read
  off `σ'`.  Also the auxiliary (non-native) route of `_with_borders`.
-/
import CspuzModel.Proofs.EvalLemmas
import CspuzModel.Proofs.C05L1
import CspuzModel.Spec.C07Spec
namespace Cspuz.Proofs.C07L1
open Cspuz Cspuz.Spec Cspuz.Proofs

def withSizes : GroupSize → Bool | .none => false | _ => true
def perEdge : GroupSize → Bool | .scalar _ => false | _ => true

/-! ### closed form of the emitted program -/

def gidE (base i : Nat) : Expr := .ivar (base + i)
def rankE (base n i : Nat) : Expr := .ivar (base + n + i)
def rootE (base n i : Nat) : Expr := .bvar (base + 2 * n + i)
def aeE (base n e : Nat) : Expr := .bvar (base + 3 * n + e)
def dsE (base n m i : Nat) : Expr := .ivar (base + 3 * n + m + i)
def tsE (base n m i : Nat) : Expr := .ivar (base + 4 * n + m + i)

def c0E (base n : Nat) : List Expr :=
  (List.range n).map fun i => Expr.node .iff [rootE base n i, .node .eq [rankE base n i, .litI 0]]

def perE (g : Graph) (base i : Nat) : List Expr :=
  [Expr.node .imp [rootE base g.n i, .node .eq [gidE base i, .litI i]]] ++
    ((g.incident i).map fun je =>
      Expr.node .imp [aeE base g.n je.2, .node .ne [rankE base g.n je.1, rankE base g.n i]]) ++
    [.node .eq [countTrueE ((g.incident i).map fun je =>
        .node .and [aeE base g.n je.2, .node .lt [rankE base g.n je.1, rankE base g.n i]]),
      .node .ite [rootE base g.n i, .litI 0, .litI 1]]]

def c2E (g : Graph) (base : Nat) : List Expr :=
  g.edges.zipIdx.map fun uv =>
    Expr.node .imp [aeE base g.n uv.2, .node .eq [gidE base uv.1.1, gidE base uv.1.2]]

def c3E (base n m : Nat) : List Expr :=
  (List.range n).map fun i => Expr.node .le [dsE base n m i, tsE base n m i]

def c4E (base n m : Nat) : List Expr :=
  (List.range n).map fun i => Expr.node .imp [rootE base n i, .node .eq [dsE base n m i, tsE base n m i]]

def termE (g : Graph) (base i : Nat) (je : Nat × Nat) : Expr :=
  .node .ite [.node .and [aeE base g.n je.2, .node .gt [rankE base g.n je.1, rankE base g.n i]],
    dsE base g.n g.edges.length je.1, .litI 0]

/-- Python `sum(terms) + 1`. -/
def lhsE (terms : List Expr) : Expr :=
  match terms with
  | [] => .litI 1
  | t :: r => .node .add [r.foldl (fun acc x => .node .add [acc, x]) (.node .add [.litI 0, t]), .litI 1]

/-- The constraint tying `total_size[i]` to the `group_size` argument. -/
def specE (gs : GroupSize) (base n m i : Nat) : List Expr :=
  match gs with
  | .none => []
  | .scalar s => [.node .eq [tsE base n m i, s]]
  | .perVertex l =>
    match l[i]? with
    | some (some e) => [.node .eq [tsE base n m i, e]]
    | _ => []

def per2E (g : Graph) (gs : GroupSize) (base i : Nat) : List Expr :=
  Expr.node .eq [dsE base g.n g.edges.length i, lhsE ((g.incident i).map (termE g base i))] ::
    specE gs base g.n g.edges.length i

def c5E (g : Graph) (gs : GroupSize) (base : Nat) : List Expr :=
  match gs with
  | .scalar _ => []
  | _ => g.edges.zipIdx.map fun uv =>
    Expr.node .imp [aeE base g.n uv.2,
      .node .eq [tsE base g.n g.edges.length uv.1.1, tsE base g.n g.edges.length uv.1.2]]

def baseDecls (g : Graph) : List VarDecl :=
  List.replicate g.n (.int 0 ((g.n : Int) - 1)) ++ List.replicate g.n (.int 0 ((g.n : Int) - 1)) ++
    List.replicate g.n .bool ++ List.replicate g.edges.length .bool

def baseCs (g : Graph) (base : Nat) : List Expr :=
  c0E base g.n ++ ((List.range g.n).map (perE g base)).flatten ++ c2E g base

def vgProg (g : Graph) (gs : GroupSize) (base : Nat) : Prog :=
  match gs with
  | .none => { decls := baseDecls g, cs := baseCs g base }
  | _ =>
    { decls := baseDecls g ++ List.replicate g.n (.int 1 g.n) ++ List.replicate g.n (.int 1 g.n),
      cs := baseCs g base ++ c3E base g.n g.edges.length ++ c4E base g.n g.edges.length ++
        ((List.range g.n).map (per2E g gs base)).flatten ++ c5E g gs base }

theorem cmpPy_lhsE (terms : List Expr) (x : Nat) :
    cmpPy .eq (lhsE terms) (.ivar x) = .ok (.node .eq [.ivar x, lhsE terms]) := by
  cases terms <;> rfl

theorem decl1 {n : Nat} (hn : 0 < n) :
    intArrayDecls n 0 ((n : Int) - 1) = .ok (List.replicate n (.int 0 ((n : Int) - 1))) := by
  unfold intArrayDecls; rw [if_neg (by omega)]

theorem decl2 {n : Nat} (hn : 0 < n) :
    intArrayDecls n 1 n = .ok (List.replicate n (.int 1 n)) := by
  unfold intArrayDecls; rw [if_neg (by omega)]

theorem vg_eq_none {g : Graph} {base : Nat} (hn : 0 < g.n) :
    variableGroups g .none base = .ok (vgProg g .none base, ivars base g.n) := by
  unfold variableGroups
  simp only [decl1 hn, ok_bind]
  rw [mapM_eq_ok_map (g := perE g base)]
  · rfl
  · intro i _
    rw [countTrue_ok_of_boolLike (by
      intro x hx; simp only [List.mem_map] at hx; obtain ⟨_, _, rfl⟩ := hx; rfl)]
    rfl

theorem vg_eq_scalar {g : Graph} {base : Nat} {s : Expr} (hn : 0 < g.n) (hs : s.isIntLike = true) :
    variableGroups g (.scalar s) base = .ok (vgProg g (.scalar s) base, ivars base g.n) := by
  unfold variableGroups
  simp only [decl1 hn, decl2 hn, ok_bind]
  rw [mapM_eq_ok_map (g := perE g base)]
  · simp only [ok_bind]
    rw [mapM_eq_ok_map (g := per2E g (.scalar s) base)]
    · rfl
    · intro i _
      change (cmpPy .eq (lhsE ((g.incident i).map (termE g base i))) (.ivar _) >>= _) = _
      rw [cmpPy_lhsE, ok_bind]
      simp only [hs, if_true]
      rfl
  · intro i _
    rw [countTrue_ok_of_boolLike (by
      intro x hx; simp only [List.mem_map] at hx; obtain ⟨_, _, rfl⟩ := hx; rfl)]
    rfl

theorem vg_eq_perVertex {g : Graph} {base : Nat} {l : List (Option Expr)} (hn : 0 < g.n)
    (hlen : l.length = g.n) (hl : ∀ e, some e ∈ l → e.isIntLike = true) :
    variableGroups g (.perVertex l) base = .ok (vgProg g (.perVertex l) base, ivars base g.n) := by
  unfold variableGroups
  simp only [decl1 hn, decl2 hn, ok_bind]
  rw [mapM_eq_ok_map (g := perE g base)]
  · simp only [ok_bind]
    rw [mapM_eq_ok_map (g := per2E g (.perVertex l) base)]
    · rfl
    · intro i hi
      have hi : i < l.length := by rw [hlen]; simpa using hi
      change (cmpPy .eq (lhsE ((g.incident i).map (termE g base i))) (.ivar _) >>= _) = _
      rw [cmpPy_lhsE, ok_bind]
      simp only [per2E, specE, List.getElem?_eq_getElem hi]
      cases hx : l[i] with
      | none => rfl
      | some e =>
        have he : e.isIntLike = true := hl e (hx ▸ List.getElem_mem hi)
        simp only [he, if_true]
        rfl
  · intro i _
    rw [countTrue_ok_of_boolLike (by
      intro x hx; simp only [List.mem_map] at hx; obtain ⟨_, _, rfl⟩ := hx; rfl)]
    rfl

theorem vg_eq_prog {g : Graph} {gs : GroupSize} {base : Nat} (hn : 0 < g.n)
    (hsz : SizeArgs base g.n gs) :
    variableGroups g gs base = .ok (vgProg g gs base, ivars base g.n) := by
  cases gs with
  | none => exact vg_eq_none hn
  | scalar s => exact vg_eq_scalar hn (wtI_isIntLike _ hsz.1)
  | perVertex l => exact vg_eq_perVertex hn hsz.1 (fun e he => wtI_isIntLike _ (hsz.2 e he).1)

theorem decl1_pos {n : Nat} {d : List VarDecl} (h : intArrayDecls n 0 ((n : Int) - 1) = .ok d) : 0 < n := by
  unfold intArrayDecls at h
  split at h
  · cases h
  · omega

/-- success facts -/
theorem groups_ok {g : Graph} {gs : GroupSize} {base : Nat} {p : Prog} {ids : List Expr}
    (hp : variableGroups g gs base = .ok (p, ids)) : ids = ivars base g.n ∧ 0 < g.n := by
  unfold variableGroups at hp
  rw [bind_eq_ok] at hp
  obtain ⟨d1, hd1, hp⟩ := hp
  refine ⟨?_, decl1_pos hd1⟩
  rw [bind_eq_ok] at hp
  obtain ⟨per, _, hp⟩ := hp
  cases gs with
  | none => simp only [Except.ok.injEq, Prod.mk.injEq] at hp; exact hp.2.symm
  | scalar s =>
    simp only [bind_eq_ok, Except.ok.injEq, Prod.mk.injEq] at hp
    obtain ⟨_, _, _, _, _, h⟩ := hp
    exact h.symm
  | perVertex l =>
    simp only [bind_eq_ok, Except.ok.injEq, Prod.mk.injEq] at hp
    obtain ⟨_, _, _, _, _, h⟩ := hp
    exact h.symm

/-! ### generic evaluation facts -/

theorem vb_true {v : Bool} : (some (Val.b v) = some (Val.b true)) ↔ v = true := by simp

theorem eval_eqI {σ : Asg} {a b : Expr} {x y : Int} (ha : eval σ a = some (.i x))
    (hb : eval σ b = some (.i y)) : eval σ (.node .eq [a, b]) = some (.b (decide (x = y))) := by
  rw [eval_cmp rfl ha hb, cmpOp_eq, C05L1.beq_dec]

theorem sat_eqI {σ : Asg} {a b : Expr} {x y : Int} (ha : eval σ a = some (.i x))
    (hb : eval σ b = some (.i y)) : eval σ (.node .eq [a, b]) = some (.b true) ↔ x = y := by
  rw [eval_eqI ha hb, vb_true, decide_eq_true_eq]

theorem sat_leI {σ : Asg} {a b : Expr} {x y : Int} (ha : eval σ a = some (.i x))
    (hb : eval σ b = some (.i y)) : eval σ (.node .le [a, b]) = some (.b true) ↔ x ≤ y := by
  rw [eval_cmp rfl ha hb, cmpOp_le, vb_true, decide_eq_true_eq]

theorem eval_neI {σ : Asg} {a b : Expr} {x y : Int} (ha : eval σ a = some (.i x))
    (hb : eval σ b = some (.i y)) : eval σ (.node .ne [a, b]) = some (.b (decide (x ≠ y))) := by
  rw [eval_cmp rfl ha hb, cmpOp_ne]
  by_cases h : x = y <;> simp [h]

theorem sat_imp {σ : Asg} {a b : Expr} {x y : Bool} (ha : eval σ a = some (.b x))
    (hb : eval σ b = some (.b y)) :
    eval σ (.node .imp [a, b]) = some (.b true) ↔ (x = true → y = true) := by
  have := eval_thenRaw ha hb
  unfold thenRaw at this
  rw [this, vb_true]
  cases x <;> simp

theorem eval_iff2 {σ : Asg} {a b : Expr} {x y : Bool} (ha : eval σ a = some (.b x))
    (hb : eval σ b = some (.b y)) : eval σ (.node .iff [a, b]) = some (.b (x == y)) := by
  simp [ha, hb, evalOp, allBools]

theorem sat_iff2 {σ : Asg} {a b : Expr} {x y : Bool} (ha : eval σ a = some (.b x))
    (hb : eval σ b = some (.b y)) :
    eval σ (.node .iff [a, b]) = some (.b true) ↔ (x = true ↔ y = true) := by
  rw [eval_iff2 ha hb, vb_true]
  cases x <;> cases y <;> simp

theorem eval_add2 {σ : Asg} {a b : Expr} {x y : Int} (ha : eval σ a = some (.i x))
    (hb : eval σ b = some (.i y)) : eval σ (.node .add [a, b]) = some (.i (x + y)) := by
  have := evalOp_add_ints (ns := [x, y]) (by simp)
  simp only [List.map_cons, List.map_nil] at this
  rw [eval_node]
  simp only [List.map_cons, List.map_nil, ha, hb, this]
  simp

theorem eval_foldAdd {σ : Asg} : ∀ (r : List Expr) (ns : List Int) (acc : Expr) (a : Int),
    r.map (eval σ) = ns.map (fun n => some (.i n)) → eval σ acc = some (.i a) →
    eval σ (r.foldl (fun acc x => .node .add [acc, x]) acc) = some (.i (a + ns.sum))
  | [], ns, acc, a, h, ha => by
    cases ns with
    | nil => simpa using ha
    | cons _ _ => simp at h
  | t :: r, ns, acc, a, h, ha => by
    cases ns with
    | nil => simp at h
    | cons x ns =>
      simp only [List.map_cons, List.cons.injEq] at h
      rw [List.foldl_cons, eval_foldAdd r ns _ (a + x) h.2 (eval_add2 ha h.1)]
      simp only [List.sum_cons]
      congr 2; omega

theorem eval_lhsE {σ : Asg} (terms : List Expr) (ns : List Int)
    (h : terms.map (eval σ) = ns.map (fun n => some (.i n))) :
    eval σ (lhsE terms) = some (.i (ns.sum + 1)) := by
  cases terms with
  | nil =>
    cases ns with
    | nil => simp [lhsE]
    | cons _ _ => simp at h
  | cons t r =>
    cases ns with
    | nil => simp at h
    | cons x ns =>
      simp only [List.map_cons, List.cons.injEq] at h
      unfold lhsE
      rw [eval_add2 (eval_foldAdd r ns _ (0 + x) h.2 (eval_add2 (eval_litI σ 0) h.1)) (eval_litI σ 1)]
      simp only [List.sum_cons]
      congr 2; omega

theorem edge_bounds {g : Graph} (hwf : g.wf = true) {k u v : Nat} (hk : g.edges[k]? = some (u, v)) :
    k < g.edges.length ∧ u < g.n ∧ v < g.n := by
  obtain ⟨hlt, _⟩ := List.getElem?_eq_some_iff.1 hk
  have hm : (u, v) ∈ g.edges := List.mem_of_getElem? hk
  have := List.all_eq_true.1 hwf _ hm
  simp only [Bool.and_eq_true, decide_eq_true_eq] at this
  exact ⟨hlt, this.1, this.2⟩

theorem forall_mem_flatten_range {n : Nat} {f : Nat → List Expr} {P : Expr → Prop} :
    (∀ c ∈ ((List.range n).map f).flatten, P c) ↔ ∀ i, i < n → ∀ c ∈ f i, P c := by
  rw [List.forall_mem_flatten, List.forall_mem_map]
  simp only [List.mem_range]

theorem forall_mem_map_range {n : Nat} {f : Nat → Expr} {P : Expr → Prop} :
    (∀ c ∈ (List.range n).map f, P c) ↔ ∀ i, i < n → P (f i) := by
  rw [List.forall_mem_map]
  simp only [List.mem_range]

/-! ### declarations -/

def DeclOK (base : Nat) (σ' : Asg) (D : List VarDecl) : Prop :=
  ∀ k lo hi, D[k]? = some (.int lo hi) → lo ≤ σ'.i (base + k) ∧ σ'.i (base + k) ≤ hi

theorem satFrag_iff {base : Nat} {p : Prog} {σ' : Asg} :
    SatFrag base p σ' ↔ DeclOK base σ' p.decls ∧ ∀ c ∈ p.cs, eval σ' c = some (.b true) := Iff.rfl

theorem declOK_append {base : Nat} {σ' : Asg} {A B : List VarDecl} :
    DeclOK base σ' (A ++ B) ↔ DeclOK base σ' A ∧ DeclOK (base + A.length) σ' B := by
  constructor
  · intro h
    refine ⟨fun k lo hi hk => h k lo hi ?_, fun k lo hi hk => ?_⟩
    · rw [List.getElem?_append_left (List.getElem?_eq_some_iff.1 hk).1]; exact hk
    · have := h (A.length + k) lo hi (by
        rw [List.getElem?_append_right (by omega)]; simpa using hk)
      rwa [← Nat.add_assoc] at this
  · rintro ⟨h1, h2⟩ k lo hi hk
    by_cases hk' : k < A.length
    · rw [List.getElem?_append_left hk'] at hk; exact h1 k lo hi hk
    · rw [List.getElem?_append_right (by omega)] at hk
      have := h2 (k - A.length) lo hi hk
      rwa [show base + A.length + (k - A.length) = base + k by omega] at this

theorem declOK_int {base : Nat} {σ' : Asg} {n : Nat} {lo hi : Int} :
    DeclOK base σ' (List.replicate n (.int lo hi)) ↔
      ∀ i, i < n → lo ≤ σ'.i (base + i) ∧ σ'.i (base + i) ≤ hi := by
  constructor
  · intro h i hi'
    exact h i lo hi (by simp [hi'])
  · intro h k lo' hi' hk
    obtain ⟨hlt, he⟩ := List.getElem?_eq_some_iff.1 hk
    simp only [List.length_replicate] at hlt
    simp only [List.getElem_replicate, VarDecl.int.injEq] at he
    obtain ⟨rfl, rfl⟩ := he
    exact h k hlt

theorem declOK_bool {base : Nat} {σ' : Asg} {n : Nat} :
    DeclOK base σ' (List.replicate n .bool) := by
  intro k lo hi hk
  have := List.mem_of_getElem? hk
  simp at this

/-! ### meaning of the blocks under an assignment whose auxiliary values are `gid … ts` -/

/-- `σ'` carries the values `gid … ts` at the ids of the six auxiliary arrays. -/
structure Reads (σ' : Asg) (base n m : Nat) (gid rank : Nat → Int) (root ae : Nat → Bool)
    (ds ts : Nat → Int) : Prop where
  hgid : ∀ i, i < n → σ'.i (base + i) = gid i
  hrank : ∀ i, i < n → σ'.i (base + n + i) = rank i
  hroot : ∀ i, i < n → σ'.b (base + 2 * n + i) = root i
  hae : ∀ e, e < m → σ'.b (base + 3 * n + e) = ae e
  hds : ∀ i, i < n → σ'.i (base + 3 * n + m + i) = ds i
  hts : ∀ i, i < n → σ'.i (base + 4 * n + m + i) = ts i

section Sem
variable {g : Graph} {base : Nat} {σ' : Asg} {gid rank : Nat → Int} {root ae : Nat → Bool}
  {ds ts : Nat → Int}

theorem eval_gidE (hr : Reads σ' base g.n g.edges.length gid rank root ae ds ts) {i : Nat}
    (hi : i < g.n) : eval σ' (gidE base i) = some (.i (gid i)) := by
  rw [gidE, eval_ivar, hr.hgid i hi]

theorem eval_rankE (hr : Reads σ' base g.n g.edges.length gid rank root ae ds ts) {i : Nat}
    (hi : i < g.n) : eval σ' (rankE base g.n i) = some (.i (rank i)) := by
  rw [rankE, eval_ivar, hr.hrank i hi]

theorem eval_rootE (hr : Reads σ' base g.n g.edges.length gid rank root ae ds ts) {i : Nat}
    (hi : i < g.n) : eval σ' (rootE base g.n i) = some (.b (root i)) := by
  rw [rootE, eval_bvar, hr.hroot i hi]

theorem eval_aeE (hr : Reads σ' base g.n g.edges.length gid rank root ae ds ts) {e : Nat}
    (he : e < g.edges.length) : eval σ' (aeE base g.n e) = some (.b (ae e)) := by
  rw [aeE, eval_bvar, hr.hae e he]

theorem eval_dsE (hr : Reads σ' base g.n g.edges.length gid rank root ae ds ts) {i : Nat}
    (hi : i < g.n) : eval σ' (dsE base g.n g.edges.length i) = some (.i (ds i)) := by
  rw [dsE, eval_ivar, hr.hds i hi]

theorem eval_tsE (hr : Reads σ' base g.n g.edges.length gid rank root ae ds ts) {i : Nat}
    (hi : i < g.n) : eval σ' (tsE base g.n g.edges.length i) = some (.i (ts i)) := by
  rw [tsE, eval_ivar, hr.hts i hi]

theorem sat_c0 (hr : Reads σ' base g.n g.edges.length gid rank root ae ds ts) :
    (∀ c ∈ c0E base g.n, eval σ' c = some (.b true)) ↔
      ∀ i, i < g.n → (root i = true ↔ rank i = 0) := by
  unfold c0E
  rw [forall_mem_map_range]
  refine forall₂_congr fun i hi => ?_
  rw [sat_iff2 (eval_rootE hr hi) (eval_eqI (eval_rankE hr hi) (eval_litI σ' 0)), decide_eq_true_eq]

theorem eval_ctLt (hwf : g.wf = true) (hr : Reads σ' base g.n g.edges.length gid rank root ae ds ts)
    {i : Nat} (hi : i < g.n) :
    eval σ' (countTrueE ((g.incident i).map fun je =>
        .node .and [aeE base g.n je.2, .node .lt [rankE base g.n je.1, rankE base g.n i]])) =
      some (.i ((countInc g i (fun je => ae je.2 && decide (rank je.1 < rank i)) : Nat))) := by
  rw [eval_countTrueE ((g.incident i).map (fun je => ae je.2 && decide (rank je.1 < rank i))) (by
    rw [List.map_map, List.map_map]
    apply List.map_congr_left
    intro je hje
    have hb := incident_bounds hwf hje
    simp only [Function.comp]
    rw [eval_and2 (eval_aeE hr hb.2.1) (eval_cmp rfl (eval_rankE hr hb.1) (eval_rankE hr hi))]
    rfl)]
  congr 3
  rw [List.count_eq_countP, List.countP_map, List.countP_eq_length_filter]
  unfold countInc
  congr 1
  apply List.filter_congr
  intro x _; simp

theorem sat_per (hwf : g.wf = true) (hr : Reads σ' base g.n g.edges.length gid rank root ae ds ts)
    {i : Nat} (hi : i < g.n) :
    (∀ c ∈ perE g base i, eval σ' c = some (.b true)) ↔
      (root i = true → gid i = (i : Int)) ∧
      (∀ je ∈ g.incident i, ae je.2 = true → rank je.1 ≠ rank i) ∧
      countInc g i (fun je => ae je.2 && decide (rank je.1 < rank i)) = if root i then 0 else 1 := by
  unfold perE
  rw [List.forall_mem_append, List.forall_mem_append, List.forall_mem_singleton,
    List.forall_mem_singleton, List.forall_mem_map, and_assoc]
  refine and_congr ?_ (and_congr ?_ ?_)
  · rw [sat_imp (eval_rootE hr hi) (eval_eqI (eval_gidE hr hi) (eval_litI σ' i)), decide_eq_true_eq]
  · refine forall₂_congr fun je hje => ?_
    have hb := incident_bounds hwf hje
    rw [sat_imp (eval_aeE hr hb.2.1) (eval_neI (eval_rankE hr hb.1) (eval_rankE hr hi)),
      decide_eq_true_eq]
  · rw [sat_eqI (eval_ctLt hwf hr hi) (eval_ite (eval_rootE hr hi) (eval_litI ..) (eval_litI ..))]
    cases root i <;> simp

theorem sat_c2 (hwf : g.wf = true) (hr : Reads σ' base g.n g.edges.length gid rank root ae ds ts) :
    (∀ c ∈ c2E g base, eval σ' c = some (.b true)) ↔
      ∀ k u v, g.edges[k]? = some (u, v) → ae k = true → gid u = gid v := by
  unfold c2E
  rw [List.forall_mem_map]
  constructor
  · intro h k u v hk
    have hb := edge_bounds hwf hk
    have := h ((u, v), k) (List.mem_zipIdx_iff_getElem?.2 hk)
    rwa [sat_imp (eval_aeE hr hb.1) (eval_eqI (eval_gidE hr hb.2.1) (eval_gidE hr hb.2.2)),
      decide_eq_true_eq] at this
  · rintro h ⟨⟨u, v⟩, k⟩ hm
    have hk : g.edges[k]? = some (u, v) := List.mem_zipIdx_iff_getElem?.1 hm
    have hb := edge_bounds hwf hk
    rw [sat_imp (eval_aeE hr hb.1) (eval_eqI (eval_gidE hr hb.2.1) (eval_gidE hr hb.2.2)),
      decide_eq_true_eq]
    exact h k u v hk

theorem sat_c3 (hr : Reads σ' base g.n g.edges.length gid rank root ae ds ts) :
    (∀ c ∈ c3E base g.n g.edges.length, eval σ' c = some (.b true)) ↔
      ∀ i, i < g.n → ds i ≤ ts i := by
  unfold c3E
  rw [forall_mem_map_range]
  refine forall₂_congr fun i hi => ?_
  rw [sat_leI (eval_dsE hr hi) (eval_tsE hr hi)]

theorem sat_c4 (hr : Reads σ' base g.n g.edges.length gid rank root ae ds ts) :
    (∀ c ∈ c4E base g.n g.edges.length, eval σ' c = some (.b true)) ↔
      ∀ i, i < g.n → root i = true → ds i = ts i := by
  unfold c4E
  rw [forall_mem_map_range]
  refine forall₂_congr fun i hi => ?_
  rw [sat_imp (eval_rootE hr hi) (eval_eqI (eval_dsE hr hi) (eval_tsE hr hi)), decide_eq_true_eq]

theorem sat_c5 (hwf : g.wf = true) (hr : Reads σ' base g.n g.edges.length gid rank root ae ds ts)
    (gs : GroupSize) :
    (∀ c ∈ c5E g gs base, eval σ' c = some (.b true)) ↔
      (perEdge gs = true → ∀ k u v, g.edges[k]? = some (u, v) → ae k = true → ts u = ts v) := by
  have key : (∀ c ∈ g.edges.zipIdx.map (fun uv => Expr.node .imp [aeE base g.n uv.2,
        .node .eq [tsE base g.n g.edges.length uv.1.1, tsE base g.n g.edges.length uv.1.2]]),
        eval σ' c = some (.b true)) ↔
      ∀ k u v, g.edges[k]? = some (u, v) → ae k = true → ts u = ts v := by
    rw [List.forall_mem_map]
    constructor
    · intro h k u v hk
      have hb := edge_bounds hwf hk
      have := h ((u, v), k) (List.mem_zipIdx_iff_getElem?.2 hk)
      rwa [sat_imp (eval_aeE hr hb.1) (eval_eqI (eval_tsE hr hb.2.1) (eval_tsE hr hb.2.2)),
        decide_eq_true_eq] at this
    · rintro h ⟨⟨u, v⟩, k⟩ hm
      have hk : g.edges[k]? = some (u, v) := List.mem_zipIdx_iff_getElem?.1 hm
      have hb := edge_bounds hwf hk
      rw [sat_imp (eval_aeE hr hb.1) (eval_eqI (eval_tsE hr hb.2.1) (eval_tsE hr hb.2.2)),
        decide_eq_true_eq]
      exact h k u v hk
  cases gs with
  | scalar s => simp [c5E, perEdge]
  | none => simpa [c5E, perEdge] using key
  | perVertex l => simpa [c5E, perEdge] using key

theorem sat_sum (hwf : g.wf = true) (hr : Reads σ' base g.n g.edges.length gid rank root ae ds ts)
    {i : Nat} (hi : i < g.n) :
    eval σ' (.node .eq [dsE base g.n g.edges.length i, lhsE ((g.incident i).map (termE g base i))]) =
        some (.b true) ↔
      ((g.incident i).map fun je => if ae je.2 && decide (rank je.1 > rank i) then ds je.1 else 0).sum + 1
        = ds i := by
  rw [sat_eqI (eval_dsE hr hi) (eval_lhsE _
    ((g.incident i).map fun je => if ae je.2 && decide (rank je.1 > rank i) then ds je.1 else 0) (by
      rw [List.map_map, List.map_map]
      apply List.map_congr_left
      intro je hje
      have hb := incident_bounds hwf hje
      simp only [Function.comp, termE]
      rw [eval_ite (eval_and2 (eval_aeE hr hb.2.1) (eval_cmp rfl (eval_rankE hr hb.1) (eval_rankE hr hi)))
        (eval_dsE hr hb.1) (eval_litI ..)]
      rfl))]
  exact eq_comm

/-- A caller-supplied size expression evaluates under any extension as under `σ`. -/
theorem eval_sizeArg {σ : Asg} {e : Expr} (hag : AgreeBelow base σ σ') (hw : wtI e = true)
    (hv : e.varsBelow base = true) : ∃ x, eval σ e = some (.i x) ∧ eval σ' e = some (.i x) := by
  obtain ⟨x, hx⟩ := wtI_eval σ e hw
  exact ⟨x, hx, by rw [← eval_congr_of_varsBelow hag e hv, hx]⟩

theorem sat_specE {σ : Asg} {gs : GroupSize} (hsz : SizeArgs base g.n gs) (hag : AgreeBelow base σ σ')
    (hr : Reads σ' base g.n g.edges.length gid rank root ae ds ts) {i : Nat} (hi : i < g.n) :
    (∀ c ∈ specE gs base g.n g.edges.length i, eval σ' c = some (.b true)) ↔
      ∀ s, sizeSpec σ gs i = some s → ts i = s := by
  cases gs with
  | none => simp [specE, sizeSpec]
  | scalar e =>
    obtain ⟨x, hx, hx'⟩ := eval_sizeArg hag hsz.1 hsz.2
    simp only [specE, sizeSpec, hx, List.forall_mem_singleton, Option.some.injEq]
    rw [sat_eqI (eval_tsE hr hi) hx']
    constructor
    · rintro h s rfl; exact h
    · intro h; exact h x rfl
  | perVertex l =>
    have hil : i < l.length := by rw [hsz.1]; exact hi
    simp only [specE, sizeSpec, List.getElem?_eq_getElem hil]
    cases hx : l[i] with
    | none => simp
    | some e =>
      have hm : some e ∈ l := hx ▸ List.getElem_mem hil
      obtain ⟨x, hx, hx'⟩ := eval_sizeArg hag (hsz.2 e hm).1 (hsz.2 e hm).2
      simp only [hx, List.forall_mem_singleton, Option.some.injEq]
      rw [sat_eqI (eval_tsE hr hi) hx']
      constructor
      · rintro h s rfl; exact h
      · intro h; exact h x rfl

theorem sat_per2 {σ : Asg} {gs : GroupSize} (hwf : g.wf = true) (hsz : SizeArgs base g.n gs)
    (hag : AgreeBelow base σ σ')
    (hr : Reads σ' base g.n g.edges.length gid rank root ae ds ts) {i : Nat} (hi : i < g.n) :
    (∀ c ∈ per2E g gs base i, eval σ' c = some (.b true)) ↔
      (((g.incident i).map fun je => if ae je.2 && decide (rank je.1 > rank i) then ds je.1 else 0).sum + 1
        = ds i) ∧ ∀ s, sizeSpec σ gs i = some s → ts i = s := by
  unfold per2E
  rw [List.forall_mem_cons, sat_sum hwf hr hi, sat_specE hsz hag hr hi]

/-- The size-free fields of `GroupCert`. -/
structure BaseOn (g : Graph) (gid rank : Nat → Int) (root ae : Nat → Bool) : Prop where
  gid_rng : ∀ i, i < g.n → 0 ≤ gid i ∧ gid i ≤ (g.n : Int) - 1
  rank_rng : ∀ i, i < g.n → 0 ≤ rank i ∧ rank i ≤ (g.n : Int) - 1
  root_iff : ∀ i, i < g.n → (root i = true ↔ rank i = 0)
  root_gid : ∀ i, i < g.n → root i = true → gid i = (i : Int)
  ae_rank : ∀ i, i < g.n → ∀ je ∈ g.incident i, ae je.2 = true → rank je.1 ≠ rank i
  loc : ∀ i, i < g.n →
    countInc g i (fun je => ae je.2 && decide (rank je.1 < rank i)) = if root i then 0 else 1
  ae_gid : ∀ k u v, g.edges[k]? = some (u, v) → ae k = true → gid u = gid v

/-- The size bookkeeping fields of `GroupCert`. -/
structure SizeOn (g : Graph) (size : Nat → Option Int) (pe : Bool) (rank : Nat → Int)
    (root ae : Nat → Bool) (ds ts : Nat → Int) : Prop where
  sz_rng : ∀ i, i < g.n → 1 ≤ ds i ∧ ds i ≤ g.n ∧ 1 ≤ ts i ∧ ts i ≤ g.n
  sz_le : ∀ i, i < g.n → ds i ≤ ts i
  sz_root : ∀ i, i < g.n → root i = true → ds i = ts i
  sz_sum : ∀ i, i < g.n →
    ((g.incident i).map fun je => if ae je.2 && decide (rank je.1 > rank i) then ds je.1 else 0).sum + 1 = ds i
  sz_spec : ∀ i s, i < g.n → size i = some s → ts i = s
  sz_edge : pe = true → ∀ k u v, g.edges[k]? = some (u, v) → ae k = true → ts u = ts v

theorem declOK_base (hr : Reads σ' base g.n g.edges.length gid rank root ae ds ts) :
    DeclOK base σ' (baseDecls g) ↔
      (∀ i, i < g.n → 0 ≤ gid i ∧ gid i ≤ (g.n : Int) - 1) ∧
      (∀ i, i < g.n → 0 ≤ rank i ∧ rank i ≤ (g.n : Int) - 1) := by
  unfold baseDecls
  rw [declOK_append, declOK_append, declOK_append, declOK_int, declOK_int]
  simp only [List.length_replicate, declOK_bool, and_true]
  refine and_congr (forall₂_congr fun i hi => ?_) (forall₂_congr fun i hi => ?_)
  · rw [hr.hgid i hi]
  · rw [hr.hrank i hi]

theorem sat_baseCs (hwf : g.wf = true) (hr : Reads σ' base g.n g.edges.length gid rank root ae ds ts) :
    (DeclOK base σ' (baseDecls g) ∧ ∀ c ∈ baseCs g base, eval σ' c = some (.b true)) ↔
      BaseOn g gid rank root ae := by
  unfold baseCs
  rw [declOK_base hr, List.forall_mem_append, List.forall_mem_append, sat_c0 hr, sat_c2 hwf hr,
    forall_mem_flatten_range]
  have hper : (∀ i, i < g.n → ∀ c ∈ perE g base i, eval σ' c = some (.b true)) ↔
      ∀ i, i < g.n → ((root i = true → gid i = (i : Int)) ∧
        (∀ je ∈ g.incident i, ae je.2 = true → rank je.1 ≠ rank i) ∧
        countInc g i (fun je => ae je.2 && decide (rank je.1 < rank i)) = if root i then 0 else 1) :=
    forall₂_congr fun i hi => sat_per hwf hr hi
  rw [hper]
  constructor
  · rintro ⟨⟨h1, h2⟩, ⟨h3, h4⟩, h5⟩
    exact ⟨h1, h2, h3, fun i hi => (h4 i hi).1, fun i hi => (h4 i hi).2.1,
      fun i hi => (h4 i hi).2.2, h5⟩
  · intro h
    exact ⟨⟨h.gid_rng, h.rank_rng⟩, ⟨h.root_iff, fun i hi => ⟨h.root_gid i hi, h.ae_rank i hi, h.loc i hi⟩⟩,
      h.ae_gid⟩

theorem satFrag_none (hwf : g.wf = true)
    (hr : Reads σ' base g.n g.edges.length gid rank root ae ds ts) :
    SatFrag base (vgProg g .none base) σ' ↔ BaseOn g gid rank root ae :=
  sat_baseCs hwf hr

theorem vgProg_sized {gs : GroupSize} (h : withSizes gs = true) :
    vgProg g gs base =
      { decls := baseDecls g ++ List.replicate g.n (.int 1 g.n) ++ List.replicate g.n (.int 1 g.n),
        cs := baseCs g base ++ c3E base g.n g.edges.length ++ c4E base g.n g.edges.length ++
          ((List.range g.n).map (per2E g gs base)).flatten ++ c5E g gs base } := by
  cases gs with
  | none => cases h
  | scalar s => rfl
  | perVertex l => rfl

theorem baseDecls_length : (baseDecls g).length = 3 * g.n + g.edges.length := by
  simp only [baseDecls, List.length_append, List.length_replicate]; omega

theorem satFrag_sized {σ : Asg} {gs : GroupSize} (hwf : g.wf = true) (hsz : SizeArgs base g.n gs)
    (hag : AgreeBelow base σ σ') (hws : withSizes gs = true)
    (hr : Reads σ' base g.n g.edges.length gid rank root ae ds ts) :
    SatFrag base (vgProg g gs base) σ' ↔
      BaseOn g gid rank root ae ∧ SizeOn g (sizeSpec σ gs) (perEdge gs) rank root ae ds ts := by
  rw [vgProg_sized hws, satFrag_iff]
  simp only
  rw [declOK_append, declOK_append, declOK_int, declOK_int, List.forall_mem_append,
    List.forall_mem_append, List.forall_mem_append, List.forall_mem_append, sat_c3 hr, sat_c4 hr,
    sat_c5 hwf hr, forall_mem_flatten_range]
  have hper : (∀ i, i < g.n → ∀ c ∈ per2E g gs base i, eval σ' c = some (.b true)) ↔
      ∀ i, i < g.n → ((((g.incident i).map fun je =>
          if ae je.2 && decide (rank je.1 > rank i) then ds je.1 else 0).sum + 1 = ds i) ∧
        ∀ s, sizeSpec σ gs i = some s → ts i = s) :=
    forall₂_congr fun i hi => sat_per2 hwf hsz hag hr hi
  rw [hper]
  have hb := sat_baseCs hwf hr
  simp only [List.length_append, List.length_replicate, baseDecls_length]
  have hd1 : (∀ i, i < g.n → (1 : Int) ≤ σ'.i (base + (3 * g.n + g.edges.length) + i) ∧
      σ'.i (base + (3 * g.n + g.edges.length) + i) ≤ g.n) ↔ ∀ i, i < g.n → 1 ≤ ds i ∧ ds i ≤ g.n := by
    refine forall₂_congr fun i hi => ?_
    rw [show base + (3 * g.n + g.edges.length) + i = base + 3 * g.n + g.edges.length + i by omega,
      hr.hds i hi]
  have hd2 : (∀ i, i < g.n → (1 : Int) ≤ σ'.i (base + (3 * g.n + g.edges.length + g.n) + i) ∧
      σ'.i (base + (3 * g.n + g.edges.length + g.n) + i) ≤ g.n) ↔ ∀ i, i < g.n → 1 ≤ ts i ∧ ts i ≤ g.n := by
    refine forall₂_congr fun i hi => ?_
    rw [show base + (3 * g.n + g.edges.length + g.n) + i = base + 4 * g.n + g.edges.length + i by omega,
      hr.hts i hi]
  rw [hd1, hd2]
  constructor
  · rintro ⟨⟨⟨hA, h1⟩, h2⟩, ⟨⟨⟨hB, h3⟩, h4⟩, h5⟩, h6⟩
    refine ⟨hb.1 ⟨hA, hB⟩, ?_⟩
    exact ⟨fun i hi => ⟨(h1 i hi).1, (h1 i hi).2, (h2 i hi).1, (h2 i hi).2⟩, h3, h4,
      fun i hi => (h5 i hi).1, fun i s hi => (h5 i hi).2 s, h6⟩
  · rintro ⟨hB, hS⟩
    obtain ⟨hA, hB⟩ := hb.2 hB
    exact ⟨⟨⟨hA, fun i hi => ⟨(hS.sz_rng i hi).1, (hS.sz_rng i hi).2.1⟩⟩,
        fun i hi => ⟨(hS.sz_rng i hi).2.2.1, (hS.sz_rng i hi).2.2.2⟩⟩,
      ⟨⟨⟨hB, hS.sz_le⟩, hS.sz_root⟩, fun i hi => ⟨hS.sz_sum i hi, fun s => hS.sz_spec i s hi⟩⟩, hS.sz_edge⟩

end Sem

/-! ### main theorems -/

theorem reads_self (σ' : Asg) (base n m : Nat) :
    Reads σ' base n m (fun i => σ'.i (base + i)) (fun i => σ'.i (base + n + i))
      (fun i => σ'.b (base + 2 * n + i)) (fun e => σ'.b (base + 3 * n + e))
      (fun i => σ'.i (base + 3 * n + m + i)) (fun i => σ'.i (base + 4 * n + m + i)) :=
  ⟨fun _ _ => rfl, fun _ _ => rfl, fun _ _ => rfl, fun _ _ => rfl, fun _ _ => rfl, fun _ _ => rfl⟩

/-- satisfying extension ⇒ certificate with the same group ids -/
theorem groups_sat_cert {g : Graph} {gs : GroupSize} {base : Nat} {p : Prog} {ids : List Expr} {σ σ' : Asg}
    (hwf : g.wf = true) (hsz : SizeArgs base g.n gs)
    (hp : variableGroups g gs base = .ok (p, ids))
    (hag : AgreeBelow base σ σ') (hs : SatFrag base p σ') :
    ∃ C : GroupCert g (sizeSpec σ gs) (withSizes gs) (perEdge gs), ∀ v, v < g.n → C.gid v = σ'.i (base + v) := by
  have hn := (groups_ok hp).2
  rw [vg_eq_prog hn hsz] at hp
  cases hp
  have hr := reads_self σ' base g.n g.edges.length
  by_cases hws : withSizes gs = true
  · obtain ⟨hB, hS⟩ := (satFrag_sized hwf hsz hag hws hr).1 hs
    exact ⟨{ gid := _, rank := _, root := _, ae := _, ds := _, ts := _,
             gid_rng := hB.gid_rng, rank_rng := hB.rank_rng, root_iff := hB.root_iff,
             root_gid := hB.root_gid, ae_rank := hB.ae_rank, loc := hB.loc, ae_gid := hB.ae_gid,
             sz_rng := fun _ => hS.sz_rng, sz_le := fun _ => hS.sz_le, sz_root := fun _ => hS.sz_root,
             sz_sum := fun _ => hS.sz_sum, sz_spec := fun _ => hS.sz_spec,
             sz_edge := fun _ => hS.sz_edge }, fun _ _ => rfl⟩
  · have hgs : gs = .none := by
      cases gs with
      | none => rfl
      | scalar s => exact absurd rfl hws
      | perVertex l => exact absurd rfl hws
    subst hgs
    have hB := (satFrag_none hwf hr).1 hs
    exact ⟨{ gid := _, rank := _, root := _, ae := _,
             ds := fun _ => 0, ts := fun _ => 0,
             gid_rng := hB.gid_rng, rank_rng := hB.rank_rng, root_iff := hB.root_iff,
             root_gid := hB.root_gid, ae_rank := hB.ae_rank, loc := hB.loc, ae_gid := hB.ae_gid,
             sz_rng := fun h => absurd h hws, sz_le := fun h => absurd h hws,
             sz_root := fun h => absurd h hws, sz_sum := fun h => absurd h hws,
             sz_spec := fun h => absurd h hws, sz_edge := fun h => absurd h hws }, fun _ _ => rfl⟩

/-- Extension of `σ` by the six auxiliary arrays. -/
def extend (σ : Asg) (base n m : Nat) (gid rank : Nat → Int) (root ae : Nat → Bool)
    (ds ts : Nat → Int) : Asg where
  i := fun id =>
    if id < base then σ.i id
    else if id < base + n then gid (id - base)
    else if id < base + 2 * n then rank (id - (base + n))
    else if id < base + 3 * n + m then 0
    else if id < base + 4 * n + m then ds (id - (base + 3 * n + m))
    else ts (id - (base + 4 * n + m))
  b := fun id =>
    if id < base then σ.b id
    else if id < base + 3 * n then root (id - (base + 2 * n))
    else ae (id - (base + 3 * n))

theorem extend_agree (σ : Asg) (base n m : Nat) (gid rank : Nat → Int) (root ae : Nat → Bool)
    (ds ts : Nat → Int) : AgreeBelow base σ (extend σ base n m gid rank root ae ds ts) := by
  intro id hid
  simp only [extend]
  rw [if_pos hid, if_pos hid]
  exact ⟨rfl, rfl⟩

theorem extend_reads (σ : Asg) (base n m : Nat) (gid rank : Nat → Int) (root ae : Nat → Bool)
    (ds ts : Nat → Int) :
    Reads (extend σ base n m gid rank root ae ds ts) base n m gid rank root ae ds ts := by
  refine ⟨?_, ?_, ?_, ?_, ?_, ?_⟩
  · intro i hi
    simp only [extend]
    rw [if_neg (by omega), if_pos (by omega)]
    congr 1; omega
  · intro i hi
    simp only [extend]
    rw [if_neg (by omega), if_neg (by omega), if_pos (by omega)]
    congr 1; omega
  · intro i hi
    simp only [extend]
    rw [if_neg (by omega), if_pos (by omega)]
    congr 1; omega
  · intro e he
    simp only [extend]
    rw [if_neg (by omega), if_neg (by omega)]
    congr 1; omega
  · intro i hi
    simp only [extend]
    rw [if_neg (by omega), if_neg (by omega), if_neg (by omega), if_neg (by omega), if_pos (by omega)]
    congr 1; omega
  · intro i hi
    simp only [extend]
    rw [if_neg (by omega), if_neg (by omega), if_neg (by omega), if_neg (by omega), if_neg (by omega)]
    congr 1; omega

/-- certificate ⇒ satisfying extension with the same group ids -/
theorem groups_cert_sat {g : Graph} {gs : GroupSize} {base : Nat} {p : Prog} {ids : List Expr} (σ : Asg)
    (hwf : g.wf = true) (hsz : SizeArgs base g.n gs)
    (hp : variableGroups g gs base = .ok (p, ids))
    (C : GroupCert g (sizeSpec σ gs) (withSizes gs) (perEdge gs)) :
    ∃ σ', AgreeBelow base σ σ' ∧ SatFrag base p σ' ∧ ∀ v, v < g.n → σ'.i (base + v) = C.gid v := by
  have hn := (groups_ok hp).2
  rw [vg_eq_prog hn hsz] at hp
  cases hp
  have hag := extend_agree σ base g.n g.edges.length C.gid C.rank C.root C.ae C.ds C.ts
  have hr := extend_reads σ base g.n g.edges.length C.gid C.rank C.root C.ae C.ds C.ts
  refine ⟨_, hag, ?_, hr.hgid⟩
  have hB : BaseOn g C.gid C.rank C.root C.ae :=
    ⟨C.gid_rng, C.rank_rng, C.root_iff, C.root_gid, C.ae_rank, C.loc, C.ae_gid⟩
  by_cases hws : withSizes gs = true
  · exact (satFrag_sized hwf hsz hag hws hr).2 ⟨hB,
      ⟨C.sz_rng hws, C.sz_le hws, C.sz_root hws, C.sz_sum hws, C.sz_spec hws, C.sz_edge hws⟩⟩
  · have hgs : gs = .none := by
      cases gs with
      | none => rfl
      | scalar s => exact absurd rfl hws
      | perVertex l => exact absurd rfl hws
    subst hgs
    exact (satFrag_none hwf hr).2 hB

/-! ### the auxiliary `_with_borders` route -/

/-- Whatever form Python `a == b` takes on Boolean operands, it evaluates to the equivalence. -/
theorem eval_iffPy {σ : Asg} {a b e : Expr} {x y : Bool} (h : iffPy a b = .ok e)
    (ha : eval σ a = some (.b x)) (hb : eval σ b = some (.b y)) : eval σ e = some (.b (x == y)) := by
  have hswap : eval σ (.node .iff [b, a]) = some (.b (x == y)) := by
    rw [eval_iff2 hb ha, Bool.beq_comm]
  unfold iffPy at h
  split at h
  · cases h
    simp only [eval_litB, Option.some.injEq, Val.b.injEq] at ha hb
    subst ha hb
    rw [eval_litB]
  · split at h
    · cases h; exact hswap
    · cases h
  · split at h
    · cases h; exact hswap
    · cases h
  · split at h
    · cases h; exact eval_iff2 ha hb
    · cases h

theorem mapM_ok_mem {ε α β : Type} {f : α → Except ε β} {l : List α} {r : List β}
    (hm : l.mapM f = .ok r) {x : α} (hx : x ∈ l) : ∃ y, f x = .ok y ∧ y ∈ r := by
  obtain ⟨hl, hi⟩ := mapM_eq_ok_iff.1 hm
  obtain ⟨i, hi', rfl⟩ := List.getElem_of_mem hx
  exact ⟨r[i]'(by omega), hi i hi' (by omega), List.getElem_mem _⟩

theorem getE_ivars {base n u : Nat} (hu : u < n) : getE (ivars base n) u = .ok (.ivar (base + u)) := by
  unfold getE ivars
  rw [List.getElem?_map, List.getElem?_range hu]
  rfl

theorem satFrag_append_cs {base : Nat} {σ' : Asg} {p0 : Prog} {cs : List Expr} :
    SatFrag base (p0 ++ ({ cs := cs } : Prog)) σ' ↔
      SatFrag base p0 σ' ∧ ∀ c ∈ cs, eval σ' c = some (.b true) := by
  have h1 : (p0 ++ ({ cs := cs } : Prog)).decls = p0.decls := by
    show p0.decls ++ [] = p0.decls
    simp
  have h2 : (p0 ++ ({ cs := cs } : Prog)).cs = p0.cs ++ cs := rfl
  rw [satFrag_iff, h1, h2, List.forall_mem_append, satFrag_iff, and_assoc]

theorem beq_decide_iff {x : Bool} {P : Prop} [Decidable P] :
    (some (Val.b (x == decide P)) = some (Val.b true)) ↔ (x = true ↔ P) := by
  cases x <;> simp

/-- Meaning of the border constraints under an extension `σ'` of `σ`. -/
theorem sat_borderCs {g : Graph} {border : List Expr} {base : Nat} {σ σ' : Asg} {cs : List Expr}
    (hwf : g.wf = true) (hb : BoolArgs base border) (hbl : border.length = g.edges.length)
    (hag : AgreeBelow base σ σ')
    (hcs : (g.edges.zipIdx.mapM fun uv => do
      let a ← getE (ivars base g.n) uv.1.1
      let b ← getE (ivars base g.n) uv.1.2
      iffPy (← getE border uv.2) (.node .ne [a, b])) = .ok cs) :
    (∀ c ∈ cs, eval σ' c = some (.b true)) ↔
      ∀ k u v, g.edges[k]? = some (u, v) →
        (truthAt σ border k = true ↔ σ'.i (base + u) ≠ σ'.i (base + v)) := by
  have hev : ∀ k u v, g.edges[k]? = some (u, v) → ∀ y,
      (do
        let a ← getE (ivars base g.n) u
        let b ← getE (ivars base g.n) v
        iffPy (← getE border k) (.node .ne [a, b])) = .ok y →
      (eval σ' y = some (.b true) ↔
        (truthAt σ border k = true ↔ σ'.i (base + u) ≠ σ'.i (base + v))) := by
    intro k u v hk y hy
    have hbd := edge_bounds hwf hk
    have hk' : k < border.length := by omega
    rw [getE_ivars hbd.2.1, ok_bind, getE_ivars hbd.2.2, ok_bind, getE_eq_ok hk', ok_bind] at hy
    rw [eval_iffPy hy (eval_boolArg hb hag hk') (eval_neI (eval_ivar ..) (eval_ivar ..)),
      beq_decide_iff]
  constructor
  · intro h k u v hk
    obtain ⟨y, hy, hyr⟩ := mapM_ok_mem hcs (x := ((u, v), k)) (List.mem_zipIdx_iff_getElem?.2 hk)
    exact (hev k u v hk y hy).1 (h y hyr)
  · intro h y hy
    obtain ⟨⟨⟨u, v⟩, k⟩, hm, hf⟩ := mem_of_mapM_ok hcs hy
    have hk : g.edges[k]? = some (u, v) := List.mem_zipIdx_iff_getElem?.1 hm
    exact (hev k u v hk y hf).2 (h k u v hk)

/-- the auxiliary (non-native) `_with_borders` route -/
theorem borders_aux_iff {g : Graph} {gs : List (Option Expr)} {border : List Expr} {base : Nat} {p : Prog} {σ : Asg}
    (hwf : g.wf = true) (hsz : SizeArgs base g.n (.perVertex gs)) (hb : BoolArgs base border)
    (hp : variableGroupsWithBorders g gs border false base = .ok p) :
    Realizable base p σ ↔
      ∃ C : GroupCert g (sizeSpec σ (.perVertex gs)) true true,
        ∀ k u v, g.edges[k]? = some (u, v) → (truthAt σ border k = true ↔ C.gid u ≠ C.gid v) := by
  unfold variableGroupsWithBorders at hp
  split at hp
  · cases hp
  split at hp
  · cases hp
  rename_i hlen hbl
  simp only [Bool.false_eq_true, if_false] at hp
  rw [bind_eq_ok] at hp
  obtain ⟨⟨p0, ids⟩, hvg, hp⟩ := hp
  simp only [bind_eq_ok] at hp
  obtain ⟨cs, hcs, hp⟩ := hp
  cases hp
  obtain ⟨rfl, hn⟩ := groups_ok hvg
  have hbl' : border.length = g.edges.length := by omega
  constructor
  · rintro ⟨σ', hag, hs⟩
    rw [satFrag_append_cs] at hs
    obtain ⟨C, hC⟩ := groups_sat_cert hwf hsz hvg hag hs.1
    refine ⟨C, ?_⟩
    intro k u v hk
    have hbd := edge_bounds hwf hk
    rw [hC u hbd.2.1, hC v hbd.2.2]
    exact (sat_borderCs hwf hb hbl' hag hcs).1 hs.2 k u v hk
  · rintro ⟨C, hC⟩
    obtain ⟨σ', hag, hs, hg⟩ := groups_cert_sat σ hwf hsz hvg C
    refine ⟨σ', hag, satFrag_append_cs.2 ⟨hs, (sat_borderCs hwf hb hbl' hag hcs).2 ?_⟩⟩
    intro k u v hk
    have hbd := edge_bounds hwf hk
    rw [hg u hbd.2.1, hg v hbd.2.2]
    exact hC k u v hk

end Cspuz.Proofs.C07L1

/-
#print axioms Cspuz.Proofs.C07L1.groups_ok          -- [propext, Quot.sound]
#print axioms Cspuz.Proofs.C07L1.groups_sat_cert    -- [propext, Classical.choice, Quot.sound]
#print axioms Cspuz.Proofs.C07L1.groups_cert_sat    -- [propext, Classical.choice, Quot.sound]
#print axioms Cspuz.Proofs.C07L1.borders_aux_iff    -- [propext, Classical.choice, Quot.sound]
-/
