/-
  C07, layer L1 (evaluation layer): the program emitted by `_division_connected_variable_groups`
  (group_id / rank / is_root / is_active_edge / downstream_size / total_size encoding) is satisfied by
  an extension `σ'` of `σ` iff an arithmetic certificate `GroupCert` exists, with the group ids read
  off `σ'`.  Also the auxiliary (non-native) route of `_with_borders`.
-/
import CspuzModel.Proofs.EvalLemmas
import CspuzModel.Proofs.C05L1
import CspuzModel.Spec.C07Spec
namespace Cspuz.Proofs.C07L1
open Cspuz Cspuz.Spec Cspuz.Proofs

def withSizes : GroupSize → Bool | .none => false | _ => true
def perEdge : GroupSize → Bool | .scalar _ => false | _ => true

/-! ### closed form of the emitted program -/

def gidE (base i : Nat) : Expr := .ivar (base + i)
def rankE (base n i : Nat) : Expr := .ivar (base + n + i)
def rootE (base n i : Nat) : Expr := .bvar (base + 2 * n + i)
def aeE (base n e : Nat) : Expr := .bvar (base + 3 * n + e)
def dsE (base n m i : Nat) : Expr := .ivar (base + 3 * n + m + i)
def tsE (base n m i : Nat) : Expr := .ivar (base + 4 * n + m + i)

def c0E (base n : Nat) : List Expr :=
  (List.range n).map fun i => Expr.node .iff [rootE base n i, .node .eq [rankE base n i, .litI 0]]

def perE (g : Graph) (base i : Nat) : List Expr :=
  [Expr.node .imp [rootE base g.n i, .node .eq [gidE base i, .litI i]]] ++
    ((g.incident i).map fun je =>
      Expr.node .imp [aeE base g.n je.2, .node .ne [rankE base g.n je.1, rankE base g.n i]]) ++
    [.node .eq [countTrueE ((g.incident i).map fun je =>
        .node .and [aeE base g.n je.2, .node .lt [rankE base g.n je.1, rankE base g.n i]]),
      .node .ite [rootE base g.n i, .litI 0, .litI 1]]]

def c2E (g : Graph) (base : Nat) : List Expr :=
  g.edges.zipIdx.map fun uv =>
    Expr.node .imp [aeE base g.n uv.2, .node .eq [gidE base uv.1.1, gidE base uv.1.2]]

def c3E (base n m : Nat) : List Expr :=
  (List.range n).map fun i => Expr.node .le [dsE base n m i, tsE base n m i]

def c4E (base n m : Nat) : List Expr :=
  (List.range n).map fun i => Expr.node .imp [rootE base n i, .node .eq [dsE base n m i, tsE base n m i]]

def termE (g : Graph) (base i : Nat) (je : Nat × Nat) : Expr :=
  .node .ite [.node .and [aeE base g.n je.2, .node .gt [rankE base g.n je.1, rankE base g.n i]],
    dsE base g.n g.edges.length je.1, .litI 0]

/-- Python `sum(terms) + 1`. -/
def lhsE (terms : List Expr) : Expr :=
  match terms with
  | [] => .litI 1
  | t :: r => .node .add [r.foldl (fun acc x => .node .add [acc, x]) (.node .add [.litI 0, t]), .litI 1]

/-- The constraint tying `total_size[i]` to the `group_size` argument. -/
def specE (gs : GroupSize) (base n m i : Nat) : List Expr :=
  match gs with
  | .none => []
  | .scalar s => [.node .eq [tsE base n m i, s]]
  | .perVertex l =>
    match l[i]? with
    | some (some e) => [.node .eq [tsE base n m i, e]]
    | _ => []

def per2E (g : Graph) (gs : GroupSize) (base i : Nat) : List Expr :=
  Expr.node .eq [dsE base g.n g.edges.length i, lhsE ((g.incident i).map (termE g base i))] ::
    specE gs base g.n g.edges.length i

def c5E (g : Graph) (gs : GroupSize) (base : Nat) : List Expr :=
  match gs with
  | .scalar _ => []
  | _ => g.edges.zipIdx.map fun uv =>
    Expr.node .imp [aeE base g.n uv.2,
      .node .eq [tsE base g.n g.edges.length uv.1.1, tsE base g.n g.edges.length uv.1.2]]

def baseDecls (g : Graph) : List VarDecl :=
  List.replicate g.n (.int 0 ((g.n : Int) - 1)) ++ List.replicate g.n (.int 0 ((g.n : Int) - 1)) ++
    List.replicate g.n .bool ++ List.replicate g.edges.length .bool

def baseCs (g : Graph) (base : Nat) : List Expr :=
  c0E base g.n ++ ((List.range g.n).map (perE g base)).flatten ++ c2E g base

def vgProg (g : Graph) (gs : GroupSize) (base : Nat) : Prog :=
  match gs with
  | .none => { decls := baseDecls g, cs := baseCs g base }
  | _ =>
    { decls := baseDecls g ++ List.replicate g.n (.int 1 g.n) ++ List.replicate g.n (.int 1 g.n),
      cs := baseCs g base ++ c3E base g.n g.edges.length ++ c4E base g.n g.edges.length ++
        ((List.range g.n).map (per2E g gs base)).flatten ++ c5E g gs base }

theorem cmpPy_lhsE (terms : List Expr) (x : Nat) :
    cmpPy .eq (lhsE terms) (.ivar x) = .ok (.node .eq [.ivar x, lhsE terms]) := by
  cases terms <;> rfl

theorem decl1 {n : Nat} (hn : 0 < n) :
    intArrayDecls n 0 ((n : Int) - 1) = .ok (List.replicate n (.int 0 ((n : Int) - 1))) := by
  unfold intArrayDecls; rw [if_neg (by omega)]

theorem decl2 {n : Nat} (hn : 0 < n) :
    intArrayDecls n 1 n = .ok (List.replicate n (.int 1 n)) := by
  unfold intArrayDecls; rw [if_neg (by omega)]

theorem vg_eq_none {g : Graph} {base : Nat} (hn : 0 < g.n) :
    variableGroups g .none base = .ok (vgProg g .none base, ivars base g.n) := by
  unfold variableGroups
  simp only [decl1 hn, ok_bind]
  rw [mapM_eq_ok_map (g := perE g base)]
  · rfl
  · intro i _
    rw [countTrue_ok_of_boolLike (by
      intro x hx; simp only [List.mem_map] at hx; obtain ⟨_, _, rfl⟩ := hx; rfl)]
    rfl

theorem vg_eq_scalar {g : Graph} {base : Nat} {s : Expr} (hn : 0 < g.n) (hs : s.isIntLike = true) :
    variableGroups g (.scalar s) base = .ok (vgProg g (.scalar s) base, ivars base g.n) := by
  unfold variableGroups
  simp only [decl1 hn, decl2 hn, ok_bind]
  rw [mapM_eq_ok_map (g := perE g base)]
  · simp only [ok_bind]
    rw [mapM_eq_ok_map (g := per2E g (.scalar s) base)]
    · rfl
    · intro i _
      change (cmpPy .eq (lhsE ((g.incident i).map (termE g base i))) (.ivar _) >>= _) = _
      rw [cmpPy_lhsE, ok_bind]
      simp only [hs, if_true]
      rfl
  · intro i _
    rw [countTrue_ok_of_boolLike (by
      intro x hx; simp only [List.mem_map] at hx; obtain ⟨_, _, rfl⟩ := hx; rfl)]
    rfl

theorem vg_eq_perVertex {g : Graph} {base : Nat} {l : List (Option Expr)} (hn : 0 < g.n)
    (hlen : l.length = g.n) (hl : ∀ e, some e ∈ l → e.isIntLike = true) :
    variableGroups g (.perVertex l) base = .ok (vgProg g (.perVertex l) base, ivars base g.n) := by
  unfold variableGroups
  simp only [decl1 hn, decl2 hn, ok_bind]
  rw [mapM_eq_ok_map (g := perE g base)]
  · simp only [ok_bind]
    rw [mapM_eq_ok_map (g := per2E g (.perVertex l) base)]
    · rfl
    · intro i hi
      have hi : i < l.length := by rw [hlen]; simpa using hi
      change (cmpPy .eq (lhsE ((g.incident i).map (termE g base i))) (.ivar _) >>= _) = _
      rw [cmpPy_lhsE, ok_bind]
      simp only [per2E, specE, List.getElem?_eq_getElem hi]
      cases hx : l[i] with
      | none => rfl
      | some e =>
        have he : e.isIntLike = true := hl e (hx ▸ List.getElem_mem hi)
        simp only [he, if_true]
        rfl
  · intro i _
    rw [countTrue_ok_of_boolLike (by
      intro x hx; simp only [List.mem_map] at hx; obtain ⟨_, _, rfl⟩ := hx; rfl)]
    rfl

theorem vg_eq_prog {g : Graph} {gs : GroupSize} {base : Nat} (hn : 0 < g.n)
    (hsz : SizeArgs base g.n gs) :
    variableGroups g gs base = .ok (vgProg g gs base, ivars base g.n) := by
  cases gs with
  | none => exact vg_eq_none hn
  | scalar s => exact vg_eq_scalar hn (wtI_isIntLike _ hsz.1)
  | perVertex l => exact vg_eq_perVertex hn hsz.1 (fun e he => wtI_isIntLike _ (hsz.2 e he).1)

theorem decl1_pos {n : Nat} {d : List VarDecl} (h : intArrayDecls n 0 ((n : Int) - 1) = .ok d) : 0 < n := by
  unfold intArrayDecls at h
  split at h
  · cases h
  · omega

/-- success facts -/
theorem groups_ok {g : Graph} {gs : GroupSize} {base : Nat} {p : Prog} {ids : List Expr}
    (hp : variableGroups g gs base = .ok (p, ids)) : ids = ivars base g.n ∧ 0 < g.n := by
  unfold variableGroups at hp
  rw [bind_eq_ok] at hp
  obtain ⟨d1, hd1, hp⟩ := hp
  refine ⟨?_, decl1_pos hd1⟩
  rw [bind_eq_ok] at hp
  obtain ⟨per, _, hp⟩ := hp
  cases gs with
  | none => simp only [Except.ok.injEq, Prod.mk.injEq] at hp; exact hp.2.symm
  | scalar s =>
    simp only [bind_eq_ok, Except.ok.injEq, Prod.mk.injEq] at hp
    obtain ⟨_, _, _, _, _, h⟩ := hp
    exact h.symm
  | perVertex l =>
    simp only [bind_eq_ok, Except.ok.injEq, Prod.mk.injEq] at hp
    obtain ⟨_, _, _, _, _, h⟩ := hp
    exact h.symm

end Cspuz.Proofs.C07L1
