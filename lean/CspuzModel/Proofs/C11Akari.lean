/-
  C11 / akari — the program posted by `solve_akari` encodes the rules of Akari (Light Up).
  Parts: C11AkariA (Python-level glue and the four kinds of constraints), C11AkariB (closed form of the
  posted program, meaning of its constraints), C11AkariC (that meaning is the published rules).
-/
import CspuzModel.Proofs.C11AkariC
namespace Cspuz.Proofs.C11Akari
open Cspuz Cspuz.Spec Cspuz.Puzzles.Akari Cspuz.Spec.Akari
open Cspuz.Proofs Cspuz.Proofs.C11AkariA Cspuz.Proofs.C11AkariB Cspuz.Proofs.C11AkariC

theorem total (pb : Problem) (hwf : WellFormed pb) : ∃ P, program pb = .ok P :=
  ⟨closed pb, program_closed hwf⟩

theorem program_iff_rules (pb : Problem) (hwf : WellFormed pb) (P : PuzzleProg) (hP : program pb = .ok P) :
    EncodesRules P (Rules pb) ∧ P.KeysOk ∧ (∀ c ∈ P.cs, wtB c = true) := by
  rw [program_closed hwf] at hP
  cases hP
  refine ⟨?_, ?_, wt_closed pb⟩
  · have := C11Grid.encodes_bool_grid pb.height pb.width (closedCs pb) (RulesGrid pb) (fun σ g hag => by
      rw [closed_sem pb σ]; exact core hwf σ g hag)
    exact this
  · exact C11Grid.keysOk_range _ _ _ (by simp)

end Cspuz.Proofs.C11Akari
