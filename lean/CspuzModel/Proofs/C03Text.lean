/-
  C03, text layer: the CSP description printed by `SugarLikeBackend` reads back (Spec/SugarSyntax.lean) as
  exactly the declared variables, the posted constraints (constant nodes ≡ literals) and the answer keys.
-/
import CspuzModel.Proofs.C03Str
import CspuzModel.Proofs.EvalLemmas
namespace Cspuz.Proofs.C03Text
open Cspuz Cspuz.Sugar Cspuz.SugarSyntax Cspuz.Proofs.C03Str

/-! ### generic S-expressions: render, tokens -/

mutual
def render : SX → Str
  | .atom a => a
  | .app h args => '(' :: (h ++ ' ' :: (joinWith [' '] (renderList args) ++ [')']))
def renderList : List SX → List Str
  | [] => []
  | x :: r => render x :: renderList r
end

mutual
def toks : SX → List Tok
  | .atom a => [Tok.at a]
  | .app h args => Tok.lp :: Tok.at h :: (toksList args ++ [Tok.rp])
def toksList : List SX → List Tok
  | [] => []
  | x :: r => toks x ++ toksList r
end

def goodAtom (a : Str) : Bool := !a.isEmpty && a.all plain

mutual
def good : SX → Bool
  | .atom a => goodAtom a
  | .app h args => goodAtom h && goodList args
def goodList : List SX → Bool
  | [] => true
  | x :: r => good x && goodList r
end

theorem goodAtom_iff {a : Str} : goodAtom a = true ↔ a ≠ [] ∧ ∀ c ∈ a, plain c = true := by
  cases a <;> simp [goodAtom]

/-! ### lexer -/

theorem flush_nil : flush [] = [] := rfl

theorem lexGo_atom : ∀ (a rest cur : Str), (∀ c ∈ a, plain c = true) →
    lexGo (a ++ rest) cur = lexGo rest (a.reverse ++ cur)
  | [], _, _, _ => rfl
  | c :: a, rest, cur, h => by
    have hc := plain_ne (h c (by simp))
    have hd := plain_not_delim (h c (by simp))
    have ih := lexGo_atom a rest (c :: cur) fun x hx => h x (List.mem_cons_of_mem _ hx)
    simp only [List.cons_append, lexGo, hc.2.2.2.2.1, hc.2.2.2.2.2.1, hd, if_false, Bool.false_eq_true]
    rw [ih]; simp

theorem lexGo_delim {d : Char} (hd : isDelim d = true) (rest cur : Str) :
    lexGo (d :: rest) cur = flush cur ++ lexGo (d :: rest) [] := by
  simp only [lexGo, flush_nil, List.nil_append, hd, if_true]
  split
  · rfl
  · split <;> rfl

theorem lexGo_atom_delim {a : Str} (ha : goodAtom a = true) {d : Char} (hd : isDelim d = true) (rest : Str) :
    lexGo (a ++ d :: rest) [] = Tok.at a :: lexGo (d :: rest) [] := by
  obtain ⟨hne, hp⟩ := goodAtom_iff.1 ha
  rw [lexGo_atom a _ [] hp, lexGo_delim hd]
  have : (a.reverse ++ []).isEmpty = false := by
    cases a with
    | nil => exact absurd rfl hne
    | cons x r => simp
  simp [flush, hne]

theorem lexGo_lp (rest : Str) : lexGo ('(' :: rest) [] = Tok.lp :: lexGo rest [] := by
  simp [lexGo, flush]

theorem lexGo_rp (rest : Str) : lexGo (')' :: rest) [] = Tok.rp :: lexGo rest [] := by
  simp [lexGo, flush]

theorem lexGo_sp (rest : Str) : lexGo (' ' :: rest) [] = lexGo rest [] := by
  simp [lexGo, flush, isDelim]

mutual
theorem lex_render : ∀ (t : SX), good t = true → ∀ (d : Char) (rest : Str), isDelim d = true →
    lexGo (render t ++ d :: rest) [] = toks t ++ lexGo (d :: rest) []
  | .atom a, h, d, rest, hd => by
    simp only [good] at h
    simpa [render, toks] using lexGo_atom_delim h hd rest
  | .app hd' args, h, d, rest, hd => by
    simp only [good, Bool.and_eq_true] at h
    have hsp : isDelim ' ' = true := by decide
    have hrp : isDelim ')' = true := by decide
    have e : render (.app hd' args) ++ d :: rest
        = '(' :: (hd' ++ ' ' :: (joinWith [' '] (renderList args) ++ ')' :: d :: rest)) := by
      simp [render]
    rw [e, lexGo_lp, lexGo_atom_delim h.1 hsp, lexGo_sp, lex_renderList args h.2 ')' (d :: rest) hrp, lexGo_rp]
    simp [toks]
theorem lex_renderList : ∀ (l : List SX), goodList l = true → ∀ (d : Char) (rest : Str), isDelim d = true →
    lexGo (joinWith [' '] (renderList l) ++ d :: rest) [] = toksList l ++ lexGo (d :: rest) []
  | [], _, d, rest, _ => by simp [renderList, joinWith, toksList]
  | [x], h, d, rest, hd => by
    simp only [goodList, Bool.and_eq_true] at h
    simpa [renderList, joinWith, toksList] using lex_render x h.1 d rest hd
  | x :: y :: r, h, d, rest, hd => by
    have h' := h
    simp only [goodList, Bool.and_eq_true] at h'
    have hy : goodList (y :: r) = true := by simp [goodList, h'.2.1, h'.2.2]
    have hsp : isDelim ' ' = true := by decide
    have e : joinWith [' '] (renderList (x :: y :: r)) ++ d :: rest
        = render x ++ ' ' :: (joinWith [' '] (renderList (y :: r)) ++ d :: rest) := by
      simp [renderList, joinWith]
    rw [e, lex_render x h'.1 ' ' _ hsp, lexGo_sp, lex_renderList (y :: r) hy d rest hd]
    simp [toksList]
end

theorem lexLine_render {t : SX} (h : good t = true) : lexLine (render t) = toks t := by
  have := lex_render t h ' ' [] (by decide)
  simpa [lexLine, lexGo_sp, lexGo, flush, isDelim] using this

/-! ### parser -/

mutual
theorem parse_toks : ∀ (t : SX) (ts : List Tok) (h : Str) (r : List SX) (st : List SugarSyntax.Frame),
    parseToks (toks t ++ ts) (⟨some h, r⟩ :: st) = parseToks ts (⟨some h, t :: r⟩ :: st)
  | .atom a, ts, h, r, st => by simp [toks, parseToks]
  | .app hd args, ts, h, r, st => by
    have := parse_toksList args (Tok.rp :: ts) hd [] (⟨some h, r⟩ :: st)
    simp only [toks, List.cons_append, List.append_assoc, List.nil_append, parseToks]
    rw [this]
    simp [parseToks]
theorem parse_toksList : ∀ (l : List SX) (ts : List Tok) (h : Str) (r : List SX) (st : List SugarSyntax.Frame),
    parseToks (toksList l ++ ts) (⟨some h, r⟩ :: st) = parseToks ts (⟨some h, l.reverse ++ r⟩ :: st)
  | [], ts, h, r, st => by simp [toksList]
  | x :: l, ts, h, r, st => by
    simp only [toksList, List.append_assoc]
    rw [parse_toks x, parse_toksList l]
    simp
end

theorem parseSeq_toksList (l : List SX) : parseSeq (toksList l) = some l := by
  have := parse_toksList l [] [] [] []
  simp only [List.append_nil] at this
  simp [parseSeq, this, parseToks]

/-! ### characters of a rendered S-expression -/

def lineChar (c : Char) : Prop := plain c = true ∨ c = '(' ∨ c = ')' ∨ c = ' '

mutual
theorem render_chars : ∀ (t : SX), good t = true → ∀ c ∈ render t, lineChar c
  | .atom a, h, c, hc => by
    simp only [good] at h
    exact Or.inl ((goodAtom_iff.1 h).2 c (by simpa [render] using hc))
  | .app hd args, h, c, hc => by
    simp only [good, Bool.and_eq_true] at h
    simp only [render, List.mem_cons, List.mem_append, List.mem_nil_iff, or_false] at hc
    rcases hc with hc | hc | hc | hc | hc
    · exact Or.inr (Or.inl hc)
    · exact Or.inl ((goodAtom_iff.1 h.1).2 c hc)
    · exact Or.inr (Or.inr (Or.inr hc))
    · rcases joinWith_mem hc with hs | ⟨l, hl, hcl⟩
      · simp at hs; exact Or.inr (Or.inr (Or.inr hs))
      · exact renderList_chars args h.2 l hl c hcl
    · exact Or.inr (Or.inr (Or.inl hc))
theorem renderList_chars : ∀ (l : List SX), goodList l = true → ∀ s ∈ renderList l, ∀ c ∈ s, lineChar c
  | [], _, s, hs, _, _ => by simp [renderList] at hs
  | x :: r, h, s, hs, c, hc => by
    simp only [goodList, Bool.and_eq_true] at h
    simp only [renderList, List.mem_cons] at hs
    rcases hs with hs | hs
    · subst hs; exact render_chars x h.1 c hc
    · exact renderList_chars r h.2 s hs c hc
end

theorem lineChar_ne_nl {c : Char} (h : lineChar c) : c ≠ '\n' := by
  rcases h with h | h | h | h
  · exact (plain_ne h).2.1
  all_goals (subst h; decide)

theorem render_not_keyLine {t : SX} (h : good t = true) : isKeyLine (render t) = false := by
  cases t with
  | atom a =>
    simp only [good] at h
    obtain ⟨hne, hp⟩ := goodAtom_iff.1 h
    cases a with
    | nil => exact absurd rfl hne
    | cons x r =>
      have := (plain_ne (hp x (by simp))).2.2.2.2.2.2
      simp only [render, isKeyLine]
      split
      · rename_i heq; simp only [List.cons.injEq] at heq; exact absurd heq.1 this
      · rfl
  | app hd args => simp [render, isKeyLine]

/-! ### the printer factors through S-expressions -/

mutual
/-- Emitted expressions must avoid the shapes `_convert_expr` cannot print (a `VAR`-operator node that is
not a variable object, malformed constant nodes) or prints ambiguously (`-` with the wrong arity). -/
def printable : Expr → Bool
  | .node op args =>
    match op with
    | .var => false
    | .boolConst => (match args with | [.litB _] => true | _ => false)
    | .intConst => (match args with | [.litI _] => true | _ => false)
    | .neg => args.length == 1 && printables args
    | .sub => args.length != 1 && printables args
    | _ => printables args
  | _ => true
def printables : List Expr → Bool
  | [] => true
  | e :: r => printable e && printables r
end

mutual
/-- The identification the printer makes: a constant NODE prints like the literal it wraps. -/
def norm : Expr → Expr
  | .node op args =>
    match op with
    | .boolConst => (match args with | [.litB b] => .litB b | _ => .node .boolConst args)
    | .intConst => (match args with | [.litI n] => .litI n | _ => .node .intConst args)
    | op => .node op (norms args)
  | e => e
def norms : List Expr → List Expr
  | [] => []
  | e :: r => norm e :: norms r
end

mutual
def exprSX : Expr → SX
  | .litNone => .atom ['*']
  | .litB b => .atom (boolS b)
  | .litI n => .atom (intStr n)
  | .bvar id => .atom ('b' :: natDigits id)
  | .ivar id => .atom ('i' :: natDigits id)
  | .node op args =>
    match op with
    | .boolConst => (match args with | [.litB b] => .atom (boolS b) | _ => .atom [])
    | .intConst => (match args with | [.litI n] => .atom (intStr n) | _ => .atom [])
    | op => .app ((opNameL op).getD []) (exprSXs args)
def exprSXs : List Expr → List SX
  | [] => []
  | e :: r => exprSX e :: exprSXs r
end

@[simp] theorem norm_litNone : norm .litNone = .litNone := by rw [norm]; intro _ _ h; cases h
@[simp] theorem norm_litB (b : Bool) : norm (.litB b) = .litB b := by rw [norm]; intro _ _ h; cases h
@[simp] theorem norm_litI (n : Int) : norm (.litI n) = .litI n := by rw [norm]; intro _ _ h; cases h
@[simp] theorem norm_bvar (id : Nat) : norm (.bvar id) = .bvar id := by rw [norm]; intro _ _ h; cases h
@[simp] theorem norm_ivar (id : Nat) : norm (.ivar id) = .ivar id := by rw [norm]; intro _ _ h; cases h

theorem norms_eq_map : ∀ l : List Expr, norms l = l.map norm
  | [] => rfl
  | e :: r => by simp [norms, norms_eq_map r]

theorem exprSXs_length : ∀ l : List Expr, (exprSXs l).length = l.length
  | [] => rfl
  | e :: r => by simp [exprSXs, exprSXs_length r]

def generic (op : Op) : Prop := op ≠ .var ∧ op ≠ .boolConst ∧ op ≠ .intConst

theorem sugarOp_arity (nm : Str) (k : Nat) : sugarOp nm k = if k = 1 then sugarOp nm 1 else sugarOp nm 0 := by
  unfold sugarOp
  by_cases h : nm = ['-']
  · rw [if_pos h, if_pos h, if_pos h]
    by_cases hk : k = 1
    · rw [if_pos hk, if_pos hk]; rfl
    · rw [if_neg hk, if_neg hk]; rfl
  · rw [if_neg h, if_neg h, if_neg h]
    by_cases hk : k = 1
    · rw [if_pos hk]
    · rw [if_neg hk]

/-- Everything the proofs need about the regenerated name table: each printable operator has a name,
made of atom characters, different from the declaration keywords, and Sugar reads that name (with the
operator's arity class) as the same operator. -/
theorem table_ok : ∀ op : Op, generic op → ∃ nm, opNameL op = some nm ∧ goodAtom nm = true ∧
    nm ≠ ['i', 'n', 't'] ∧ nm ≠ ['b', 'o', 'o', 'l'] ∧
    ∀ k : Nat, (op = .neg → k = 1) → (op = .sub → k ≠ 1) → sugarOp nm k = some op := by
  intro op hg
  obtain ⟨h1, h2, h3⟩ := hg
  cases op <;> first | exact absurd rfl h1 | exact absurd rfl h2 | exact absurd rfl h3 | skip
  all_goals
    refine ⟨_, rfl, by decide, by decide, by decide, ?_⟩
    intro k hk1 hk2
    rw [sugarOp_arity]
    by_cases hk : k = 1
    · simp only [hk, if_true]
      first | exact absurd hk (hk2 rfl) | decide
    · simp only [hk, if_false]
      first | exact absurd (hk1 rfl) hk | decide

theorem convertExpr_generic {op : Op} (hg : generic op) (args : List Expr) :
    Sugar.convertExpr (.node op args) =
      (match opNameL op with
      | none => .error .keyError
      | some nm => (Sugar.convertList args >>= fun parts =>
        Except.ok ('(' :: (nm ++ ' ' :: (joinWith [' '] parts ++ [')']))))) := by
  obtain ⟨h1, h2, h3⟩ := hg
  cases op <;> first | exact absurd rfl h2 | exact absurd rfl h3 | (rw [Sugar.convertExpr]; all_goals first | rfl | (intro h; cases h))

theorem exprSX_generic {op : Op} (hg : generic op) (args : List Expr) :
    exprSX (.node op args) = .app ((opNameL op).getD []) (exprSXs args) := by
  obtain ⟨h1, h2, h3⟩ := hg
  cases op <;> first | exact absurd rfl h2 | exact absurd rfl h3 | (rw [exprSX]; all_goals first | rfl | (intro h; cases h))

theorem norm_generic {op : Op} (hg : generic op) (args : List Expr) :
    norm (.node op args) = .node op (norms args) := by
  obtain ⟨h1, h2, h3⟩ := hg
  cases op <;> first | exact absurd rfl h2 | exact absurd rfl h3 | (rw [norm]; all_goals first | rfl | (intro h; cases h))

theorem printable_generic {op : Op} {args : List Expr} (hp : printable (.node op args) = true)
    (h2 : op ≠ .boolConst) (h3 : op ≠ .intConst) :
    generic op ∧ printables args = true ∧ (op = .neg → args.length = 1) ∧ (op = .sub → args.length ≠ 1) := by
  cases op <;> simp only [printable, Bool.and_eq_true, beq_iff_eq, bne_iff_ne, Bool.false_eq_true] at hp
    <;> first | exact absurd rfl h2 | exact absurd rfl h3 | skip
  all_goals
    refine ⟨⟨by simp, by simp, by simp⟩, ?_, ?_, ?_⟩ <;> simp_all

mutual
theorem convert_eq : ∀ e : Expr, printable e = true → Sugar.convertExpr e = .ok (render (exprSX e))
  | .litNone, _ => by rw [Sugar.convertExpr, exprSX, render]
  | .litB b, _ => by rw [Sugar.convertExpr, exprSX, render]
  | .litI n, _ => by rw [Sugar.convertExpr, exprSX, render]
  | .bvar id, _ => by rw [Sugar.convertExpr, exprSX, render]
  | .ivar id, _ => by rw [Sugar.convertExpr, exprSX, render]
  | .node op args, hp => by
    by_cases h2 : op = .boolConst
    · subst h2
      simp only [printable] at hp
      split at hp
      · simp [Sugar.convertExpr, exprSX, render, truthy]
      · cases hp
    by_cases h3 : op = .intConst
    · subst h3
      simp only [printable] at hp
      split at hp
      · simp [Sugar.convertExpr, exprSX, render, pyStr]
      · cases hp
    obtain ⟨hg, hps, _, _⟩ := printable_generic hp h2 h3
    obtain ⟨nm, hnm, _⟩ := table_ok op hg
    rw [convertExpr_generic hg, exprSX_generic hg, hnm, convertList_eq args hps]
    simp [render]
theorem convertList_eq : ∀ l : List Expr, printables l = true → Sugar.convertList l = .ok (renderList (exprSXs l))
  | [], _ => by rw [Sugar.convertList, exprSXs, renderList]
  | e :: r, hp => by
    simp only [printables, Bool.and_eq_true] at hp
    rw [Sugar.convertList, convert_eq e hp.1, convertList_eq r hp.2, exprSXs, renderList]
    rfl
end

theorem goodAtom_boolS (b : Bool) : goodAtom (boolS b) = true := by cases b <;> decide

theorem goodAtom_intStr (n : Int) : goodAtom (intStr n) = true :=
  goodAtom_iff.2 ⟨intStr_ne_nil n, intStr_plain n⟩

theorem goodAtom_var {x : Char} (hx : plain x = true) (id : Nat) : goodAtom (x :: natDigits id) = true :=
  goodAtom_iff.2 ⟨by simp, fun c hc => by
    rcases List.mem_cons.1 hc with h | h
    · subst h; exact hx
    · exact natDigits_plain id c h⟩

mutual
theorem good_exprSX : ∀ e : Expr, printable e = true → good (exprSX e) = true
  | .litNone, _ => by rw [exprSX, good]; decide
  | .litB b, _ => by rw [exprSX, good]; exact goodAtom_boolS b
  | .litI n, _ => by rw [exprSX, good]; exact goodAtom_intStr n
  | .bvar id, _ => by rw [exprSX, good]; exact goodAtom_var (by decide) id
  | .ivar id, _ => by rw [exprSX, good]; exact goodAtom_var (by decide) id
  | .node op args, hp => by
    by_cases h2 : op = .boolConst
    · subst h2
      simp only [printable] at hp
      split at hp
      · simpa [exprSX, good] using goodAtom_boolS _
      · cases hp
    by_cases h3 : op = .intConst
    · subst h3
      simp only [printable] at hp
      split at hp
      · simpa [exprSX, good] using goodAtom_intStr _
      · cases hp
    obtain ⟨hg, hps, _, _⟩ := printable_generic hp h2 h3
    obtain ⟨nm, hnm, hgood, _⟩ := table_ok op hg
    rw [exprSX_generic hg, hnm, good]
    simp [hgood, good_exprSXs args hps]
theorem good_exprSXs : ∀ l : List Expr, printables l = true → goodList (exprSXs l) = true
  | [], _ => by rw [exprSXs, goodList]
  | e :: r, hp => by
    simp only [printables, Bool.and_eq_true] at hp
    rw [exprSXs, goodList, good_exprSX e hp.1, good_exprSXs r hp.2]; rfl
end

/-! ### reading the S-expression back -/

theorem atomExpr_bool (b : Bool) : atomExpr? (boolS b) = some (.litB b) := by cases b <;> rfl

theorem atomExpr_none : atomExpr? ['*'] = some .litNone := by rfl

theorem atomExpr_bvar (id : Nat) : atomExpr? ('b' :: natDigits id) = some (.bvar id) := by
  simp [atomExpr?, parseNat_natDigits]

theorem atomExpr_ivar (id : Nat) : atomExpr? ('i' :: natDigits id) = some (.ivar id) := by
  simp [atomExpr?, parseNat_natDigits]

theorem atomExpr_of_int {s : Str} {c : Char} {r : Str} (hs : s = c :: r)
    (hc : c ≠ 'b' ∧ c ≠ 'i' ∧ c ≠ 't' ∧ c ≠ 'f' ∧ c ≠ '*') {n : Int} (hn : parseInt? s = some n) :
    atomExpr? s = some (.litI n) := by
  subst hs
  obtain ⟨h1, h2, h3, h4, h5⟩ := hc
  unfold atomExpr?
  have e1 : (c :: r) ≠ ['t', 'r', 'u', 'e'] := by intro h; simp only [List.cons.injEq] at h; exact h3 h.1
  have e2 : (c :: r) ≠ ['f', 'a', 'l', 's', 'e'] := by intro h; simp only [List.cons.injEq] at h; exact h4 h.1
  have e3 : (c :: r) ≠ ['*'] := by intro h; simp only [List.cons.injEq] at h; exact h5 h.1
  simp only [e1, e2, e3, if_false]
  split
  · rename_i heq; simp only [List.cons.injEq] at heq; exact absurd heq.1 h1
  · rename_i heq; simp only [List.cons.injEq] at heq; exact absurd heq.1 h2
  · simp [hn]

theorem atomExpr_int (n : Int) : atomExpr? (intStr n) = some (.litI n) := by
  cases n with
  | ofNat m =>
    obtain ⟨c, r, h, hc⟩ := natDigits_cons m
    have hs := digs_not_sign c hc
    exact atomExpr_of_int (s := intStr (Int.ofNat m)) h ⟨hs.2.2.1, hs.2.2.2.1, hs.2.2.2.2.1, hs.2.2.2.2.2.1, hs.2.2.2.2.2.2.1⟩
      (parseInt_intStr _)
  | negSucc m =>
    exact atomExpr_of_int (s := intStr (Int.negSucc m)) (c := '-') rfl (by decide) (parseInt_intStr _)

mutual
theorem toExpr_exprSX : ∀ e : Expr, printable e = true → toExpr? (exprSX e) = some (norm e)
  | .litNone, _ => by rw [exprSX, toExpr?, norm_litNone]; exact atomExpr_none
  | .litB b, _ => by rw [exprSX, toExpr?, norm_litB]; exact atomExpr_bool b
  | .litI n, _ => by rw [exprSX, toExpr?, norm_litI]; exact atomExpr_int n
  | .bvar id, _ => by rw [exprSX, toExpr?, norm_bvar]; exact atomExpr_bvar id
  | .ivar id, _ => by rw [exprSX, toExpr?, norm_ivar]; exact atomExpr_ivar id
  | .node op args, hp => by
    by_cases h2 : op = .boolConst
    · subst h2
      simp only [printable] at hp
      split at hp
      · simpa [exprSX, norm, toExpr?] using atomExpr_bool _
      · cases hp
    by_cases h3 : op = .intConst
    · subst h3
      simp only [printable] at hp
      split at hp
      · simpa [exprSX, norm, toExpr?] using atomExpr_int _
      · cases hp
    obtain ⟨hg, hps, hneg, hsub⟩ := printable_generic hp h2 h3
    obtain ⟨nm, hnm, _, _, _, hop⟩ := table_ok op hg
    rw [exprSX_generic hg, norm_generic hg, hnm, toExpr?, toExprs_exprSXs args hps, exprSXs_length]
    simp [hop args.length hneg hsub]
theorem toExprs_exprSXs : ∀ l : List Expr, printables l = true → toExprs? (exprSXs l) = some (norms l)
  | [], _ => by rw [exprSXs, toExprs?, norms]
  | e :: r, hp => by
    simp only [printables, Bool.and_eq_true] at hp
    rw [exprSXs, toExprs?, toExpr_exprSX e hp.1, toExprs_exprSXs r hp.2, norms]
end

/-! ### the identification preserves meaning -/

mutual
theorem eval_norm (σ : Asg) : ∀ e : Expr, eval σ (norm e) = eval σ e
  | .litNone => by rw [norm_litNone]
  | .litB b => by rw [norm_litB]
  | .litI n => by rw [norm_litI]
  | .bvar id => by rw [norm_bvar]
  | .ivar id => by rw [norm_ivar]
  | .node op args => by
    by_cases h2 : op = .boolConst
    · subst h2
      simp only [norm]
      split
      · simp [evalOp]
      · rfl
    by_cases h3 : op = .intConst
    · subst h3
      simp only [norm]
      split
      · simp [evalOp]
      · rfl
    have : norm (.node op args) = .node op (norms args) := by
      cases op <;> first | exact absurd rfl h2 | exact absurd rfl h3 | (rw [norm]; all_goals first | rfl | (intro h; cases h))
    rw [this, eval_node, eval_node, evalList_norms σ args]
theorem evalList_norms (σ : Asg) : ∀ l : List Expr, (norms l).map (eval σ) = l.map (eval σ)
  | [] => by rw [norms]
  | e :: r => by rw [norms, List.map_cons, List.map_cons, eval_norm σ e, evalList_norms σ r]
end

/-! ### declarations -/

def declSX (v : SVar) : SX :=
  match v.decl with
  | .bool => .app ['b', 'o', 'o', 'l'] [.atom ('b' :: natDigits v.id)]
  | .int lo hi => .app ['i', 'n', 't'] [.atom ('i' :: natDigits v.id), .atom (intStr lo), .atom (intStr hi)]

theorem convertVariable_eq (v : SVar) : convertVariable v = render (declSX v) := by
  unfold convertVariable declSX
  cases v.decl <;> simp [render, renderList, joinWith]

theorem good_declSX (v : SVar) : good (declSX v) = true := by
  unfold declSX
  cases v.decl with
  | bool =>
    simp only [good, goodList, Bool.and_true, Bool.and_eq_true]
    exact ⟨by decide, goodAtom_var (by decide) _⟩
  | int lo hi =>
    simp only [good, goodList, Bool.and_true, Bool.and_eq_true]
    exact ⟨by decide, goodAtom_var (by decide) _, goodAtom_intStr _, goodAtom_intStr _⟩

theorem item_declSX (v : SVar) : item? (declSX v) = some (.decl v) := by
  obtain ⟨id, d⟩ := v
  cases d with
  | bool => simp [declSX, item?, parseNat_natDigits]
  | int lo hi => simp [declSX, item?, parseNat_natDigits, parseInt_intStr]

theorem item_atom (a : Str) : item? (.atom a) = (toExpr? (.atom a)).map .constraint := by
  rw [item?]

theorem item_app {h : Str} (h1 : h ≠ ['i', 'n', 't']) (h2 : h ≠ ['b', 'o', 'o', 'l']) (args : List SX) :
    item? (.app h args) = (toExpr? (.app h args)).map .constraint := by
  unfold item?
  simp only [h1, h2, if_false]

theorem item_exprSX {e : Expr} (hp : printable e = true) : item? (exprSX e) = some (.constraint (norm e)) := by
  have ht := toExpr_exprSX e hp
  cases e with
  | node op args =>
    by_cases h2 : op = .boolConst
    · subst h2
      simp only [printable] at hp
      split at hp
      · rw [exprSX] at ht ⊢; rw [item_atom, ht]; rfl
      · cases hp
    by_cases h3 : op = .intConst
    · subst h3
      simp only [printable] at hp
      split at hp
      · rw [exprSX] at ht ⊢; rw [item_atom, ht]; rfl
      · cases hp
    obtain ⟨hg, _, _, _⟩ := printable_generic hp h2 h3
    obtain ⟨nm, hnm, _, hi, hb, _⟩ := table_ok op hg
    rw [exprSX_generic hg, hnm] at ht ⊢
    simp only [Option.getD_some] at ht ⊢
    rw [item_app hi hb, ht]; rfl
  | litNone => rw [exprSX] at ht ⊢; rw [item_atom, ht]; rfl
  | litB b => rw [exprSX] at ht ⊢; rw [item_atom, ht]; rfl
  | litI n => rw [exprSX] at ht ⊢; rw [item_atom, ht]; rfl
  | bvar id => rw [exprSX] at ht ⊢; rw [item_atom, ht]; rfl
  | ivar id => rw [exprSX] at ht ⊢; rw [item_atom, ht]; rfl

theorem collect_cs : ∀ cs : List Expr, (∀ c ∈ cs, printable c = true) →
    collect (cs.map exprSX) = some ([], cs.map norm)
  | [], _ => rfl
  | c :: r, h => by
    simp only [List.map_cons, collect, item_exprSX (h c (by simp)),
      collect_cs r fun x hx => h x (List.mem_cons_of_mem _ hx)]

theorem collect_all (cs : List Expr) (hcs : ∀ c ∈ cs, printable c = true) : ∀ vars : List SVar,
    collect (vars.map declSX ++ cs.map exprSX) = some (vars, cs.map norm)
  | [] => by simpa using collect_cs cs hcs
  | v :: r => by
    simp only [List.map_cons, List.cons_append, collect, item_declSX, collect_all cs hcs r]

/-! ### the whole description -/

theorem renderList_eq_map : ∀ l : List SX, renderList l = l.map render
  | [] => rfl
  | x :: r => by simp [renderList, renderList_eq_map r]

theorem exprSXs_eq_map : ∀ l : List Expr, exprSXs l = l.map exprSX
  | [] => rfl
  | x :: r => by simp [exprSXs, exprSXs_eq_map r]

theorem printables_of_forall : ∀ {l : List Expr}, (∀ c ∈ l, printable c = true) → printables l = true
  | [], _ => rfl
  | x :: r, h => by
    simp [printables, h x (by simp), printables_of_forall fun c hc => h c (List.mem_cons_of_mem _ hc)]

theorem goodList_iff : ∀ {l : List SX}, goodList l = true ↔ ∀ t ∈ l, good t = true
  | [] => by simp [goodList]
  | x :: r => by simp [goodList, goodList_iff (l := r)]

theorem flatMap_lexLine : ∀ {l : List SX}, goodList l = true → (l.map render).flatMap lexLine = toksList l
  | [], _ => rfl
  | x :: r, h => by
    simp only [goodList, Bool.and_eq_true] at h
    simp [toksList, lexLine_render h.1, flatMap_lexLine h.2]

theorem filter_body {sxs : List SX} (hg : goodList sxs = true) {extra : List Str}
    (he : ∀ l ∈ extra, isKeyLine l = true) :
    (sxs.map render ++ extra).filter (fun l => !isKeyLine l) = sxs.map render := by
  rw [List.filter_append]
  have h1 : (sxs.map render).filter (fun l => !isKeyLine l) = sxs.map render := by
    apply List.filter_eq_self.2
    intro l hl
    obtain ⟨t, ht, rfl⟩ := List.mem_map.1 hl
    simp [render_not_keyLine (goodList_iff.1 hg t ht)]
  have h2 : extra.filter (fun l => !isKeyLine l) = [] := by
    apply List.filter_eq_nil_iff.2
    intro l hl; simp [he l hl]
  rw [h1, h2, List.append_nil]

theorem filter_keys {sxs : List SX} (hg : goodList sxs = true) {extra : List Str}
    (he : ∀ l ∈ extra, isKeyLine l = true) :
    (sxs.map render ++ extra).filter isKeyLine = extra := by
  rw [List.filter_append]
  have h1 : (sxs.map render).filter isKeyLine = [] := by
    apply List.filter_eq_nil_iff.2
    intro l hl
    obtain ⟨t, ht, rfl⟩ := List.mem_map.1 hl
    simp [render_not_keyLine (goodList_iff.1 hg t ht)]
  have h2 : extra.filter isKeyLine = extra := List.filter_eq_self.2 he
  rw [h1, h2, List.nil_append]

/-- Reading back a text made of rendered S-expression lines followed by `#` lines. -/
theorem parse_text (sxs : List SX) (hg : goodList sxs = true) (extra : List Str)
    (he : ∀ l ∈ extra, isKeyLine l = true ∧ '\n' ∉ l) :
    parseCSPL (joinWith ['\n'] (sxs.map render ++ extra)) =
      (collect sxs).map fun r => (r.1, r.2, keysOf extra) := by
  by_cases hnil : sxs.map render ++ extra = []
  · have h1 : sxs = [] := by
      cases sxs with
      | nil => rfl
      | cons _ _ => simp at hnil
    have h2 : extra = [] := by subst h1; simpa using hnil
    subst h1 h2
    rfl
  · have hsplit : splitOn '\n' (joinWith ['\n'] (sxs.map render ++ extra)) = sxs.map render ++ extra := by
      apply splitOn_join hnil
      intro l hl
      rcases List.mem_append.1 hl with hl | hl
      · obtain ⟨t, ht, rfl⟩ := List.mem_map.1 hl
        intro hc
        exact lineChar_ne_nl (render_chars t (goodList_iff.1 hg t ht) _ hc) rfl
      · exact (he l hl).2
    have he' : ∀ l ∈ extra, isKeyLine l = true := fun l hl => (he l hl).1
    unfold parseCSPL
    simp only [hsplit, filter_body hg he', flatMap_lexLine hg, parseSeq_toksList]
    have h2 : extra.filter isKeyLine = extra := List.filter_eq_self.2 he'
    simp only [keysOf, filter_keys hg he', h2]
    cases h : collect sxs <;> simp [h]

def keyNamesOf (vars : List SVar) (ks : List Bool) : List Str :=
  ((vars.zip ks).filter fun p => p.2).map fun p => p.1.name

theorem name_good (v : SVar) : goodAtom v.name = true := by
  unfold SVar.name
  cases v.decl <;> exact goodAtom_var (by decide) _

theorem keyNamesFrom_eq : ∀ (vars : List SVar) (i : Nat) (ks : List Bool), i + vars.length ≤ ks.length →
    keyNamesFrom vars i ks = .ok (keyNamesOf vars (ks.drop i))
  | [], _, _, _ => by simp [keyNamesFrom, keyNamesOf]
  | v :: r, i, ks, h => by
    have hi : i < ks.length := by simp at h; omega
    have ih := keyNamesFrom_eq r (i + 1) ks (by simp at h ⊢; omega)
    rw [keyNamesFrom, List.getElem?_eq_getElem hi]
    simp only [ih, ok_bind]
    rw [List.drop_eq_getElem_cons hi]
    cases hk : ks[i] <;> simp [keyNamesOf, List.zip_cons_cons]

theorem keyNames_eq {vars : List SVar} {ks : List Bool} (h : vars.length ≤ ks.length) :
    keyNames vars ks = .ok (keyNamesOf vars ks) := by
  simpa [keyNames] using keyNamesFrom_eq vars 0 ks (by simpa using h)

theorem keyNamesOf_good (vars : List SVar) (ks : List Bool) : ∀ n ∈ keyNamesOf vars ks, goodAtom n = true := by
  intro n hn
  simp only [keyNamesOf, List.mem_map] at hn
  obtain ⟨p, _, rfl⟩ := hn
  exact name_good p.1

theorem keysOf_keyLine {names : List Str} (hn : ∀ n ∈ names, goodAtom n = true) :
    keysOf ['#' :: joinWith [' '] names] = some names := by
  have hsp : ∀ n ∈ names, ' ' ∉ n := fun n h hc => (plain_ne ((goodAtom_iff.1 (hn n h)).2 _ hc)).1 rfl
  simp only [keysOf, List.filter_cons, isKeyLine, if_true, List.filter_nil, List.getLast?_singleton, List.drop_succ_cons,
    List.drop_zero, Option.some.injEq]
  cases names with
  | nil => rfl
  | cons x r =>
    rw [splitOn_join (by simp) hsp]
    apply List.filter_eq_self.2
    intro n h
    have := (goodAtom_iff.1 (hn n h)).1
    cases n with
    | nil => exact absurd rfl this
    | cons _ _ => rfl

theorem keyLine_ok {names : List Str} (hn : ∀ n ∈ names, goodAtom n = true) :
    isKeyLine ('#' :: joinWith [' '] names) = true ∧ '\n' ∉ ('#' :: joinWith [' '] names) := by
  refine ⟨rfl, ?_⟩
  intro hc
  rcases List.mem_cons.1 hc with h | h
  · cases h
  · rcases joinWith_mem h with h | ⟨l, hl, hcl⟩
    · simp at h
    · exact (plain_ne ((goodAtom_iff.1 (hn l hl)).2 _ hcl)).2.1 rfl

theorem lineChar_ascii {c : Char} (h : lineChar c) : c.toNat < 128 := by
  rcases h with h | h | h | h
  · exact plain_ascii h
  all_goals (subst h; decide)

theorem text_ascii (sxs : List SX) (hg : goodList sxs = true) (extra : List Str)
    (he : ∀ l ∈ extra, ∀ c ∈ l, c.toNat < 128) :
    ∀ c ∈ joinWith ['\n'] (sxs.map render ++ extra), c.toNat < 128 := by
  intro c hc
  rcases joinWith_mem hc with h | ⟨l, hl, hcl⟩
  · simp only [List.mem_singleton] at h; subst h; decide
  · rcases List.mem_append.1 hl with hl | hl
    · obtain ⟨t, ht, rfl⟩ := List.mem_map.1 hl
      exact lineChar_ascii (render_chars t (goodList_iff.1 hg t ht) c hcl)
    · exact he l hl c hcl

theorem keyLine_ascii {names : List Str} (hn : ∀ n ∈ names, goodAtom n = true) :
    ∀ c ∈ ('#' :: joinWith [' '] names), c.toNat < 128 := by
  intro c hc
  rcases List.mem_cons.1 hc with h | h
  · subst h; decide
  · rcases joinWith_mem h with h | ⟨l, hl, hcl⟩
    · simp only [List.mem_singleton] at h; subst h; decide
    · exact plain_ascii ((goodAtom_iff.1 (hn l hl)).2 _ hcl)

/-- The S-expression lines of a program. -/
def progSX (vars : List SVar) (cs : List Expr) : List SX := vars.map declSX ++ cs.map exprSX

theorem progSX_good (vars : List SVar) {cs : List Expr} (hcs : ∀ c ∈ cs, printable c = true) :
    goodList (progSX vars cs) = true := by
  apply goodList_iff.2
  intro t ht
  rcases List.mem_append.1 ht with ht | ht
  · obtain ⟨v, _, rfl⟩ := List.mem_map.1 ht; exact good_declSX v
  · obtain ⟨c, hc, rfl⟩ := List.mem_map.1 ht; exact good_exprSX c (hcs c hc)

theorem addConstraints_eq (vars : List SVar) {cs : List Expr} (hcs : ∀ c ∈ cs, printable c = true) :
    ∃ be, (SugarLike.init vars).addConstraints cs = .ok be ∧ be.variables = vars ∧
      be.maxVarId = (SugarLike.init vars).maxVarId ∧
      be.convVars ++ be.convCs = (progSX vars cs).map render := by
  have h : (SugarLike.init vars).addConstraints cs = .ok { (SugarLike.init vars) with
      convCs := (SugarLike.init vars).convCs ++ renderList (exprSXs cs) } := by
    unfold SugarLike.addConstraints
    rw [convertList_eq cs (printables_of_forall hcs)]
    rfl
  refine ⟨_, h, rfl, rfl, ?_⟩
  simp [SugarLike.init, progSX, renderList_eq_map, exprSXs_eq_map, convertVariable_eq]

/-- The description text reads back as exactly the variables, the (normalised) constraints and the keys. -/
theorem description_roundtrip (vars : List SVar) (cs : List Expr) (hcs : ∀ c ∈ cs, printable c = true)
    (keys : Option (List Bool)) (hk : ∀ ks, keys = some ks → vars.length ≤ ks.length) :
    ∃ text, cspDescriptionL vars cs keys = .ok text ∧
      parseCSPL text = some (vars, cs.map norm, keys.map (keyNamesOf vars)) ∧
      ∀ c ∈ text, c.toNat < 128 := by
  obtain ⟨be, hbe, hv, _, hlines⟩ := addConstraints_eq vars hcs
  have hg := progSX_good vars hcs
  have hcol : collect (progSX vars cs) = some (vars, cs.map norm) := collect_all cs hcs vars
  cases keys with
  | none =>
    refine ⟨be.description, by simp [cspDescriptionL, hbe], ?_, ?_⟩
    · have := parse_text (progSX vars cs) hg [] (by simp)
      simp only [List.append_nil] at this
      rw [SugarLike.description, hlines, this, hcol]
      rfl
    · have := text_ascii (progSX vars cs) hg [] (by simp)
      simp only [List.append_nil] at this
      rw [SugarLike.description, hlines]; exact this
  | some ks =>
    have hlen := hk ks rfl
    have hnames := keyNamesOf_good vars ks
    refine ⟨joinWith ['\n'] (be.convVars ++ be.convCs ++ [('#' :: joinWith [' '] (keyNamesOf vars ks))]), ?_, ?_, ?_⟩
    rotate_left 2
    · rw [hlines]
      exact text_ascii (progSX vars cs) hg _
        (by intro l hl; simp only [List.mem_singleton] at hl; subst hl; exact keyLine_ascii hnames)
    · simp [cspDescriptionL, hbe, SugarLike.descriptionKeys, hv, keyNames_eq hlen]
    · have := parse_text (progSX vars cs) hg ['#' :: joinWith [' '] (keyNamesOf vars ks)]
        (by intro l hl; simp only [List.mem_singleton] at hl; subst hl; exact keyLine_ok hnames)
      rw [hlines, this, hcol, keysOf_keyLine hnames]
      rfl

end Cspuz.Proofs.C03Text
