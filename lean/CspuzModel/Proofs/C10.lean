/-
  Assembly of the C10 theorems (statements: Properties/C10.lean).

  Layers: C10L1 (closed form of the generator, meaning of the local constraints), C10L2 (activity
  list, forced values), C10Cross (structure of the split graph), C10Graph + C10Strand (strand /
  split-graph identification), C04 / C04Prim (connectivity encodings).
-/
import CspuzModel.Proofs.C10L2
import CspuzModel.Proofs.C04
namespace Cspuz.Proofs.C10
open Cspuz Cspuz.Spec Cspuz.Proofs
open Cspuz.Proofs.C10L1 Cspuz.Proofs.C10L2 Cspuz.Proofs.C10Cross Cspuz.Proofs.C10Strand

/-- Both connectivity routes are exact on the split graph. -/
theorem avc_exact (H W base : Nat) (prim : Bool) (avc : Prog) (hb : base = Frame.numVars H W)
    (havc : activeVerticesConnected (crossGraph (H + 1) (W + 1)) (gv H W base)
      (base + 5 * ((H + 1) * (W + 1))) false prim = .ok avc) (τ : Asg) :
    Realizable (base + 5 * ((H + 1) * (W + 1))) avc τ ↔
      ActiveConnected (crossGraph (H + 1) (W + 1)) (truthAt τ (gv H W base)) := by
  cases prim with
  | false =>
    have := C04.aux_exact _ _ _ false avc τ (cross_wf H W) (by intro h; cases h) (gv_length H W base)
      (gv_boolArgs H W base hb) havc
    simpa using this
  | true =>
    exact C04Prim.prim_exact _ _ _ avc τ (cross_wf H W) (gv_length H W base) (gv_boolArgs H W base hb) havc

theorem exact_gen (prim : Bool) :
    ∀ (H W base : Nat) (singleCycle : Bool) (p : Prog) (ps cr : List Expr) (σ : Asg),
      base = Frame.numVars H W →
      connectedCrossable (Frame.fresh 0 H W) singleCycle prim base = .ok (p, ps, cr) →
      let act := segActive (Frame.fresh 0 H W) σ
      (Realizable base p σ ↔ CrossableOK H W act singleCycle) ∧
      (∀ σ', AgreeBelow base σ σ' → SatFrag base p σ' →
        ∀ y x, y ≤ H → x ≤ W →
          σ'.b (base + y * (W + 1) + x) = decide (0 < pointDegree H W act y x) ∧
          σ'.b (base + (H + 1) * (W + 1) + y * (W + 1) + x) = decide (pointDegree H W act y x = 4)) ∧
      ps = (List.range ((H + 1) * (W + 1))).map (fun i => Expr.bvar (base + i)) ∧
      cr = (List.range ((H + 1) * (W + 1))).map (fun i => Expr.bvar (base + (H + 1) * (W + 1) + i)) := by
  intro H W base sc p ps cr σ hb hp
  obtain ⟨avc, havc, hpe, hps, hcr⟩ := cc_ok H W base sc hp
  subst hpe
  intro act
  have hC := avc_exact H W base prim avc hb havc
  -- what a satisfying completion looks like
  have ana : ∀ σ', AgreeBelow base σ σ' →
      SatFrag base { decls := List.replicate (5 * ((H + 1) * (W + 1))) .bool ++ avc.decls,
                     cs := localCs H W base sc (dE H W) ++ avc.cs } σ' →
      segActive (Frame.fresh 0 H W) σ' = act ∧ DegreeRules H W act sc ∧ Forced H W base act σ' ∧
        SatFrag (base + 5 * ((H + 1) * (W + 1))) avc σ' := by
    intro σ' hag hsat
    have hact : segActive (Frame.fresh 0 H W) σ' = act := (segActive_congr H W (hb ▸ hag)).symm
    obtain ⟨hloc, hrest⟩ := (satFrag_split _ _ _ _ _ _).1 hsat
    obtain ⟨hdr, hF⟩ := (local_iff H W base sc σ').1 hloc
    rw [hact] at hdr hF
    exact ⟨hact, hdr, hF, hrest⟩
  refine ⟨⟨?_, ?_⟩, ?_, hps, hcr⟩
  · -- satisfiable → specification
    rintro ⟨σ', hag, hsat⟩
    obtain ⟨hact, hdr, hF, hrest⟩ := ana σ' hag hsat
    refine ⟨hdr, ?_⟩
    have hconn := (hC σ').1 ⟨σ', AgreeBelow.refl _ _, hrest⟩
    have hspec := gv_spec H W base σ' (by rw [hact]; exact hF)
    rw [hact] at hspec
    exact (connected_iff_oneStrand hdr hspec).1 hconn
  · -- specification → satisfiable
    rintro ⟨hdr, hos⟩
    have hag1 := forcedAsg_agree H W base act σ
    have hact1 : segActive (Frame.fresh 0 H W) (forcedAsg H W base act σ) = act :=
      (segActive_congr H W (hb ▸ hag1)).symm
    have hF1 := forcedAsg_forced H W base act σ
    have hspec := gv_spec H W base (forcedAsg H W base act σ) (by rw [hact1]; exact hF1)
    rw [hact1] at hspec
    have hconn := (connected_iff_oneStrand hdr hspec).2 hos
    obtain ⟨σ2, hag2, hsat2⟩ := (hC _).2 hconn
    have hag : AgreeBelow base σ σ2 := agreeBelow_trans hag1 (agreeBelow_mono (by omega) hag2)
    have hact2 : segActive (Frame.fresh 0 H W) σ2 = act := (segActive_congr H W (hb ▸ hag)).symm
    have hF2 := forced_congr H W base act hag2 hF1
    refine ⟨σ2, hag, (satFrag_split _ _ _ _ _ _).2 ⟨?_, hsat2⟩⟩
    apply (local_iff H W base sc σ2).2
    rw [hact2]
    exact ⟨hdr, hF2⟩
  · -- the returned arrays are exact
    intro σ' hag hsat y x hy hx
    obtain ⟨-, -, hF, -⟩ := ana σ' hag hsat
    obtain ⟨f1, f2, -⟩ := hF y x hy hx
    exact ⟨f1, f2⟩

theorem exact_aux :
    ∀ (H W base : Nat) (singleCycle : Bool) (p : Prog) (ps cr : List Expr) (σ : Asg),
      base = Frame.numVars H W →
      connectedCrossable (Frame.fresh 0 H W) singleCycle false base = .ok (p, ps, cr) →
      let act := segActive (Frame.fresh 0 H W) σ
      (Realizable base p σ ↔ CrossableOK H W act singleCycle) ∧
      (∀ σ', AgreeBelow base σ σ' → SatFrag base p σ' →
        ∀ y x, y ≤ H → x ≤ W →
          σ'.b (base + y * (W + 1) + x) = decide (0 < pointDegree H W act y x) ∧
          σ'.b (base + (H + 1) * (W + 1) + y * (W + 1) + x) = decide (pointDegree H W act y x = 4)) ∧
      ps = (List.range ((H + 1) * (W + 1))).map (fun i => Expr.bvar (base + i)) ∧
      cr = (List.range ((H + 1) * (W + 1))).map (fun i => Expr.bvar (base + (H + 1) * (W + 1) + i)) :=
  exact_gen false

theorem exact_prim :
    ∀ (H W base : Nat) (singleCycle : Bool) (p : Prog) (ps cr : List Expr) (σ : Asg),
      base = Frame.numVars H W →
      connectedCrossable (Frame.fresh 0 H W) singleCycle true base = .ok (p, ps, cr) →
      let act := segActive (Frame.fresh 0 H W) σ
      (Realizable base p σ ↔ CrossableOK H W act singleCycle) ∧
      (∀ σ', AgreeBelow base σ σ' → SatFrag base p σ' →
        ∀ y x, y ≤ H → x ≤ W →
          σ'.b (base + y * (W + 1) + x) = decide (0 < pointDegree H W act y x) ∧
          σ'.b (base + (H + 1) * (W + 1) + y * (W + 1) + x) = decide (pointDegree H W act y x = 4)) ∧
      ps = (List.range ((H + 1) * (W + 1))).map (fun i => Expr.bvar (base + i)) ∧
      cr = (List.range ((H + 1) * (W + 1))).map (fun i => Expr.bvar (base + (H + 1) * (W + 1) + i)) :=
  exact_gen true

/-- The generator succeeds on every fresh frame (all sizes, both modes, both routes). -/
theorem total : ∀ (H W : Nat) (singleCycle prim : Bool),
    ∃ r, connectedCrossable (Frame.fresh 0 H W) singleCycle prim (Frame.numVars H W) = .ok r := by
  intro H W sc prim
  obtain ⟨avc, havc⟩ := C04.dispatch.2 (crossGraph (H + 1) (W + 1)) (gv H W (Frame.numVars H W))
    (Frame.numVars H W + 5 * ((H + 1) * (W + 1))) false prim
    (by rw [cross_n]; unfold npts; have : 0 < (H + 1) * (W + 1) := Nat.mul_pos (Nat.succ_pos H) (Nat.succ_pos W); omega) (cross_wf H W) (gv_length H W _) (gv_boolArgs H W _ rfl)
  exact cc_of_avc H W _ sc havc

/-! ### a concrete instance (used for the non-vacuity examples) -/

/-- The unit square with all four segments active is a single closed strand. -/
theorem unitSquare_ok (act : LSeg → Bool) (hact : ∀ s : LSeg, s.valid 1 1 → act s = true) :
    CrossableOK 1 1 act true := by
  have a1 := hact (.v 0 0) ⟨by omega, by omega⟩
  have a2 := hact (.v 0 1) ⟨by omega, by omega⟩
  have a3 := hact (.h 0 0) ⟨by omega, by omega⟩
  have a4 := hact (.h 1 0) ⟨by omega, by omega⟩
  have deg : ∀ y x, y ≤ 1 → x ≤ 1 → pointDegree 1 1 act y x = 2 := by
    intro y x hy hx
    have hy' : y = 0 ∨ y = 1 := by omega
    have hx' : x = 0 ∨ x = 1 := by omega
    rcases hy' with rfl | rfl <;> rcases hx' with rfl | rfl <;> simp [pointDegree, a1, a2, a3, a4]
  have cont : ∀ (s t : LSeg) (p : Nat × Nat), s ≠ t → s.valid 1 1 → t.valid 1 1 → s.touches p → t.touches p →
      p.1 ≤ 1 → p.2 ≤ 1 → (strandGraph 1 1 act).Reachable s t := by
    intro s t p hne hs ht hp hq h1 h2
    exact SimpleGraph.Adj.reachable
      (show Continues 1 1 act s t from
        ⟨hne, hs, ht, hact s hs, hact t ht, p, hp, hq, Or.inl (by rw [deg p.1 p.2 h1 h2])⟩)
  have r1 : (strandGraph 1 1 act).Reachable (.h 0 0) (.v 0 0) :=
    cont _ _ (0, 0) (by decide) ⟨by omega, by omega⟩ ⟨by omega, by omega⟩ (Or.inl rfl) (Or.inl rfl)
      (by omega) (by omega)
  have r2 : (strandGraph 1 1 act).Reachable (.v 0 0) (.h 1 0) :=
    cont _ _ (1, 0) (by decide) ⟨by omega, by omega⟩ ⟨by omega, by omega⟩ (Or.inr rfl) (Or.inl rfl)
      (by omega) (by omega)
  have r3 : (strandGraph 1 1 act).Reachable (.h 0 0) (.v 0 1) :=
    cont _ _ (0, 1) (by decide) ⟨by omega, by omega⟩ ⟨by omega, by omega⟩ (Or.inr rfl) (Or.inl rfl)
      (by omega) (by omega)
  have key : ∀ s : LSeg, s.valid 1 1 → (strandGraph 1 1 act).Reachable (.h 0 0) s := by
    intro s hs
    cases s with
    | h y x =>
      obtain ⟨h1, h2⟩ := hs
      have hx : x = 0 := by omega
      have hy : y = 0 ∨ y = 1 := by omega
      subst hx
      rcases hy with rfl | rfl
      · exact SimpleGraph.Reachable.refl _
      · exact r1.trans r2
    | v y x =>
      obtain ⟨h1, h2⟩ := hs
      have hy : y = 0 := by omega
      have hx : x = 0 ∨ x = 1 := by omega
      subst hy
      rcases hx with rfl | rfl
      · exact r1
      · exact r3
  refine ⟨fun y x hy hx => ?_, fun s t hs ht _ _ => (key s hs).symm.trans (key t ht)⟩
  refine ⟨Or.inr (Or.inr (Or.inl (deg y x hy hx))), fun h => ?_⟩
  rw [deg y x hy hx] at h
  omega

end Cspuz.Proofs.C10
