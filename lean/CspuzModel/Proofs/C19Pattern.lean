/-
  C19, part 5: builder patterns — enumerate_variables, get, with_update and the neighbour generator.
-/
import CspuzModel.Proofs.C19Builder
namespace Cspuz.Gen
open Cspuz
variable {V : Type}

theorem conformsList_length : ∀ (ps : List (Pat V)) (cs : List (Prob V)), ConformsList ps cs → ps.length = cs.length
  | [], [], _ => rfl
  | [], _ :: _, h => by simp [ConformsList] at h
  | _ :: _, [], h => by simp [ConformsList] at h
  | _ :: ps, _ :: cs, h => by
    simp only [ConformsList] at h
    simp [conformsList_length ps cs h.2]

theorem conformsList_get : ∀ (ps : List (Pat V)) (cs : List (Prob V)) (i : Nat) (p : Pat V) (c : Prob V),
    ConformsList ps cs → ps[i]? = some p → cs[i]? = some c → Conforms p c
  | [], _, _, _, _, _, hp, _ => by simp at hp
  | _ :: _, [], _, _, _, h, _, _ => by simp [ConformsList] at h
  | p0 :: ps, c0 :: cs, 0, p, c, h, hp, hc => by
    simp only [ConformsList] at h
    simp only [List.getElem?_cons_zero, Option.some.injEq] at hp hc
    subst hp; subst hc; exact h.1
  | p0 :: ps, c0 :: cs, i + 1, p, c, h, hp, hc => by
    simp only [ConformsList] at h
    simp only [List.getElem?_cons_succ] at hp hc
    exact conformsList_get ps cs i p c h.2 hp hc

theorem conformsList_set : ∀ (ps : List (Pat V)) (cs : List (Prob V)) (i : Nat) (p : Pat V) (c' : Prob V),
    ConformsList ps cs → ps[i]? = some p → Conforms p c' → ConformsList ps (cs.set i c')
  | [], _, _, _, _, _, hp, _ => by simp at hp
  | _ :: _, [], _, _, _, h, _, _ => by simp [ConformsList] at h
  | p0 :: ps, c0 :: cs, 0, p, c', h, hp, hc => by
    simp only [ConformsList] at h
    simp only [List.getElem?_cons_zero, Option.some.injEq] at hp
    subst hp
    simp only [List.set_cons_zero, ConformsList]
    exact ⟨hc, h.2⟩
  | p0 :: ps, c0 :: cs, i + 1, p, c', h, hp, hc => by
    simp only [ConformsList] at h
    simp only [List.getElem?_cons_succ] at hp
    simp only [List.set_cons_succ, ConformsList]
    exact ⟨h.1, conformsList_set ps cs i p c' h.2 hp hc⟩

theorem copyWithUpdate_conforms (b : BuilderSpec V) (sub sub' : Prob V) (u : Upd V)
    (h : b.copyWithUpdate sub u = .ok sub') : Conforms (.builder b) sub' := by
  cases b with
  | choice ch d =>
    cases u with
    | setVal v => simp only [BuilderSpec.copyWithUpdate, Except.ok.injEq] at h; subst h; simp [Conforms]
    | cells l => simp [BuilderSpec.copyWithUpdate] at h
  | array c =>
    cases sub with
    | leaf bv =>
      cases bv with
      | val v => simp [BuilderSpec.copyWithUpdate] at h
      | grid g =>
        cases u with
        | setVal v => simp [BuilderSpec.copyWithUpdate] at h
        | cells l =>
          simp only [BuilderSpec.copyWithUpdate] at h
          obtain ⟨g', _, h⟩ := py_bind_ok h
          cases h
          simp [Conforms]
    | list l => simp [BuilderSpec.copyWithUpdate] at h
    | tuple l => simp [BuilderSpec.copyWithUpdate] at h


theorem getPat_cons_builder {pat : Pat V} {i : Nat} {rest : List Nat} {b : BuilderSpec V}
    (h : getPat pat (i :: rest) = .ok (.builder b)) :
    ∃ ps p, (pat = .list ps ∨ pat = .tuple ps) ∧ ps[i]? = some p ∧ getPat p rest = .ok (.builder b) := by
  cases pat with
  | builder b' => simp [getPat, Pat.children] at h; cases h
  | const c => simp [getPat, Pat.children] at h; cases h
  | list l =>
    simp only [getPat, Pat.children] at h
    change (match l[i]? with | some c => getPat c rest | none => _) = _ at h
    cases hp : l[i]? with
    | none => rw [hp] at h; cases h
    | some p => rw [hp] at h; exact ⟨l, p, Or.inl rfl, hp, h⟩
  | tuple l =>
    simp only [getPat, Pat.children] at h
    change (match l[i]? with | some c => getPat c rest | none => _) = _ at h
    cases hp : l[i]? with
    | none => rw [hp] at h; cases h
    | some p => rw [hp] at h; exact ⟨l, p, Or.inr rfl, hp, h⟩

/-- The conclusion of `withUpdate_spec`. -/
def UpdatedAt (pat : Pat V) (b : BuilderSpec V) (prob prob' : Prob V) (pos : List Nat) (u : Upd V) : Prop :=
  ∃ sub sub', getProb prob pos = .ok sub ∧ b.copyWithUpdate sub u = .ok sub' ∧
    getProb prob' pos = .ok sub' ∧ DiffersOnlyAt prob prob' pos ∧ Conforms pat prob'

theorem withUpdate_node (mk : List (Prob V) → Prob V) (hmk : ∀ l, (mk l).children = .ok l)
    (i : Nat) (rest : List Nat) (ps : List (Pat V)) (cs : List (Prob V)) (p : Pat V) (u : Upd V)
    (prob' : Prob V) (hconf : ConformsList ps cs) (hp : ps[i]? = some p)
    (h : (do
      let cs' ← (mk cs).children
      if cs'.length < ps.length then Except.error PyErr.indexError
      else
        match ps[i]?, cs'[i]? with
        | some p, some c => do
          let c' ← withUpdate rest c p u
          Except.ok (mk ((cs'.take ps.length).set i c'))
        | _, _ => Except.ok (mk (cs'.take ps.length))) = Except.ok prob') :
    ∃ c c', cs[i]? = some c ∧ withUpdate rest c p u = .ok c' ∧ prob' = mk (cs.set i c') := by
  rw [hmk] at h
  have hlen := conformsList_length ps cs hconf
  have hi : i < cs.length := by
    have := (List.getElem?_eq_some_iff.mp hp).1; omega
  change (if cs.length < ps.length then _ else _) = _ at h
  rw [if_neg (by omega), hp, List.getElem?_eq_getElem hi] at h
  simp only at h
  obtain ⟨c', hc', h⟩ := py_bind_ok h
  cases h
  refine ⟨cs[i], c', List.getElem?_eq_getElem hi, hc', ?_⟩
  rw [hlen, List.take_length]

theorem withUpdate_spec : ∀ (pos : List Nat) (prob : Prob V) (pat : Pat V) (u : Upd V) (prob' : Prob V)
    (b : BuilderSpec V), Conforms pat prob → getPat pat pos = .ok (.builder b) →
    withUpdate pos prob pat u = .ok prob' → UpdatedAt pat b prob prob' pos u
  | [], prob, pat, u, prob', b, _, hget, hw => by
    simp only [getPat, Except.ok.injEq] at hget
    subst hget
    simp only [withUpdate] at hw
    exact ⟨prob, prob', rfl, hw, rfl, DiffersOnlyAt.here _ _, copyWithUpdate_conforms b prob prob' u hw⟩
  | i :: rest, prob, pat, u, prob', b, hconf, hget, hw => by
    obtain ⟨ps, p, hpat, hp, hgetp⟩ := getPat_cons_builder hget
    rcases hpat with rfl | rfl
    · cases prob with
      | leaf bv => simp [Conforms] at hconf
      | tuple cs => simp [Conforms] at hconf
      | list cs =>
        simp only [Conforms] at hconf
        simp only [withUpdate] at hw
        obtain ⟨c, c', hc, hwc, rfl⟩ := withUpdate_node Prob.list (fun _ => rfl) i rest ps cs p u prob' hconf hp hw
        obtain ⟨sub, sub', h1, h2, h3, h4, h5⟩ :=
          withUpdate_spec rest c p u c' b (conformsList_get ps cs i p c hconf hp hc) hgetp hwc
        have hi : i < cs.length := (List.getElem?_eq_some_iff.mp hc).1
        refine ⟨sub, sub', ?_, h2, ?_, ?_, ?_⟩
        · simp only [getProb, Prob.children]
          show (match cs[i]? with | some c => getProb c rest | none => _) = _
          rw [hc]; exact h1
        · simp only [getProb, Prob.children]
          show (match (cs.set i c')[i]? with | some c => getProb c rest | none => _) = _
          rw [List.getElem?_set_self hi]; exact h3
        · exact DiffersOnlyAt.list cs (cs.set i c') i rest c c' (by simp) hc (List.getElem?_set_self hi)
            (fun j hj => by rw [List.getElem?_set_ne (Ne.symm hj)]) h4
        · simp only [Conforms]
          exact conformsList_set ps cs i p c' hconf hp h5
    · cases prob with
      | leaf bv => simp [Conforms] at hconf
      | list cs => simp [Conforms] at hconf
      | tuple cs =>
        simp only [Conforms] at hconf
        simp only [withUpdate] at hw
        obtain ⟨c, c', hc, hwc, rfl⟩ := withUpdate_node Prob.tuple (fun _ => rfl) i rest ps cs p u prob' hconf hp hw
        obtain ⟨sub, sub', h1, h2, h3, h4, h5⟩ :=
          withUpdate_spec rest c p u c' b (conformsList_get ps cs i p c hconf hp hc) hgetp hwc
        have hi : i < cs.length := (List.getElem?_eq_some_iff.mp hc).1
        refine ⟨sub, sub', ?_, h2, ?_, ?_, ?_⟩
        · simp only [getProb, Prob.children]
          show (match cs[i]? with | some c => getProb c rest | none => _) = _
          rw [hc]; exact h1
        · simp only [getProb, Prob.children]
          show (match (cs.set i c')[i]? with | some c => getProb c rest | none => _) = _
          rw [List.getElem?_set_self hi]; exact h3
        · exact DiffersOnlyAt.tuple cs (cs.set i c') i rest c c' (by simp) hc (List.getElem?_set_self hi)
            (fun j hj => by rw [List.getElem?_set_ne (Ne.symm hj)]) h4
        · simp only [Conforms]
          exact conformsList_set ps cs i p c' hconf hp h5

end Cspuz.Gen
namespace Cspuz.Gen
open Cspuz
variable {V : Type}

theorem getPat_list_cons (l : List (Pat V)) (k : Nat) (rel : List Nat) (p : Pat V) (h : l[k]? = some p) :
    getPat (.list l) (k :: rel) = getPat p rel := by
  simp only [getPat, Pat.children]
  show (match l[k]? with | some c => getPat c rel | none => _) = _
  rw [h]

theorem getPat_tuple_cons (l : List (Pat V)) (k : Nat) (rel : List Nat) (p : Pat V) (h : l[k]? = some p) :
    getPat (.tuple l) (k :: rel) = getPat p rel := by
  simp only [getPat, Pat.children]
  show (match l[k]? with | some c => getPat c rel | none => _) = _
  rw [h]

mutual
/-- The initial problem has the shape of the pattern, and every recorded variable `(pos, b)` is the
builder found at `pos` in the pattern. -/
theorem enumVars_spec : ∀ (pat : Pat V) (pos0 : List Nat),
    Conforms pat (enumVars pat pos0).1 ∧
    ∀ pv ∈ (enumVars pat pos0).2, ∃ rel, pv.1 = pos0 ++ rel ∧ getPat pat rel = .ok (.builder pv.2)
  | .builder b, pos0 => by
    simp only [enumVars, List.mem_singleton]
    refine ⟨?_, ?_⟩
    · cases b <;> simp [BuilderSpec.initial, Conforms]
    · rintro pv rfl
      exact ⟨[], by simp, rfl⟩
  | .const c, pos0 => by simp [enumVars, Conforms]
  | .list l, pos0 => by
    obtain ⟨h1, h2⟩ := enumVarsList_spec l pos0 0
    simp only [enumVars]
    refine ⟨by simpa [Conforms] using h1, ?_⟩
    intro pv hpv
    obtain ⟨k, rel, p, e, hk, hg⟩ := h2 pv hpv
    exact ⟨k :: rel, by simpa using e, by rw [getPat_list_cons l k rel p hk]; exact hg⟩
  | .tuple l, pos0 => by
    obtain ⟨h1, h2⟩ := enumVarsList_spec l pos0 0
    simp only [enumVars]
    refine ⟨by simpa [Conforms] using h1, ?_⟩
    intro pv hpv
    obtain ⟨k, rel, p, e, hk, hg⟩ := h2 pv hpv
    exact ⟨k :: rel, by simpa using e, by rw [getPat_tuple_cons l k rel p hk]; exact hg⟩
theorem enumVarsList_spec : ∀ (l : List (Pat V)) (pos0 : List Nat) (i : Nat),
    ConformsList l (enumVarsList l pos0 i).1 ∧
    ∀ pv ∈ (enumVarsList l pos0 i).2, ∃ k rel p, pv.1 = pos0 ++ (i + k) :: rel ∧ l[k]? = some p ∧
      getPat p rel = .ok (.builder pv.2)
  | [], _, _ => by simp [enumVarsList, ConformsList]
  | p :: ps, pos0, i => by
    obtain ⟨h1, h2⟩ := enumVars_spec p (pos0 ++ [i])
    obtain ⟨h3, h4⟩ := enumVarsList_spec ps pos0 (i + 1)
    simp only [enumVarsList, ConformsList]
    refine ⟨⟨h1, h3⟩, ?_⟩
    intro pv hpv
    rcases List.mem_append.mp hpv with hpv | hpv
    · obtain ⟨rel, e, hg⟩ := h2 pv hpv
      exact ⟨0, rel, p, by simpa using e, rfl, hg⟩
    · obtain ⟨k, rel, q, e, hk, hg⟩ := h4 pv hpv
      exact ⟨k + 1, rel, q, by rw [e]; congr 2; omega, by simpa using hk, hg⟩
end

theorem enumVars_top (pat : Pat V) :
    Conforms pat (enumVars pat []).1 ∧
    ∀ pv ∈ (enumVars pat []).2, getPat pat pv.1 = .ok (.builder pv.2) := by
  obtain ⟨h1, h2⟩ := enumVars_spec pat []
  refine ⟨h1, fun pv hpv => ?_⟩
  obtain ⟨rel, e, hg⟩ := h2 pv hpv
  simp only [List.nil_append] at e
  rw [e]; exact hg

/-- `m` can return `v` from some state. -/
def Yields {α} (m : Rand α) (v : α) : Prop := ∃ s s', m s = .ok v s'

theorem Post.self {α} (m : Rand α) : Post m (Yields m) := fun s v s' h => ⟨s, s', h⟩

variable [DecidableEq V]

/-- Every neighbour is `(pos, u)` for one variable `(pos, b)` of the pattern and one update `u` offered by
`b.candidates` for the sub-problem at `pos`. -/
theorem neighbours_spec (fuel : Nat) (pat : Pat V) (vars : List (List Nat × BuilderSpec V)) (prob : Prob V)
    (hvars : ∀ pv ∈ vars, getPat pat pv.1 = .ok (.builder pv.2)) :
    Post (neighbours fuel pat vars prob) fun cands => ∀ n ∈ cands, ∃ b sub us, (n.1, b) ∈ vars ∧
      getProb prob n.1 = .ok sub ∧ Yields (b.candidates fuel sub) us ∧ n.2 ∈ us := by
  unfold neighbours
  refine Post.bind (R := fun cands => ∀ n ∈ cands, ∃ b sub us, (n.1, b) ∈ vars ∧
      getProb prob n.1 = .ok sub ∧ Yields (b.candidates fuel sub) us ∧ n.2 ∈ us) ?_ ?_
  · refine Post.forEach _ _ (by simp) fun acc pv hpv hacc => ?_
    refine Post.bind (Post.liftPy (Q := fun sub => getProb prob pv.1 = .ok sub) fun v hv => hv) fun sub hsub => ?_
    refine Post.bind (Post.liftPy (Q := fun sp => getPat pat pv.1 = .ok sp) fun v hv => hv) fun sp hsp => ?_
    rw [hvars pv hpv] at hsp
    cases hsp
    simp only
    refine Post.bind (Post.self _) fun us hus => Post.pure ?_
    intro n hn
    rcases List.mem_append.mp hn with hn | hn
    · exact hacc n hn
    · simp only [List.mem_map] at hn
      obtain ⟨u, hu, rfl⟩ := hn
      exact ⟨pv.2, sub, us, hpv, hsub, hus, hu⟩
  · intro cands hc
    refine Post.mono (shuffle_perm fuel cands) fun l' hperm n hn => hc n (hperm.mem_iff.mp hn)

end Cspuz.Gen
namespace Cspuz.Gen
open Cspuz
variable {V : Type} [DecidableEq V]

theorem builder_candidates_spec (fuel : Nat) (b : BuilderSpec V) (sub : Prob V) :
    Post (b.candidates fuel sub) fun us => ∀ u ∈ us, BuilderUpdOk b sub u := by
  cases b with
  | choice ch d =>
    cases sub with
    | leaf bv =>
      cases bv with
      | val cur =>
        simp only [BuilderSpec.candidates]
        refine Post.pure ?_
        intro u hu
        simp only [List.mem_map, choiceCandidates, List.mem_filter] at hu
        obtain ⟨v, ⟨hv, hne⟩, rfl⟩ := hu
        exact ⟨hv, by simpa using hne⟩
      | grid g => exact Post.throw
    | list l => exact Post.throw
    | tuple l => exact Post.throw
  | array c =>
    cases sub with
    | leaf bv =>
      cases bv with
      | val cur => exact Post.throw
      | grid g =>
        simp only [BuilderSpec.candidates]
        refine Post.bind (arrayCandidates_post fuel c g) fun us hus => Post.pure ?_
        obtain ⟨mv, vs, rfl, _, hmv, hvs⟩ := hus
        intro u hu
        simp only [List.mem_map] at hu
        obtain ⟨l, hl, rfl⟩ := hu
        intro hsh
        rcases List.mem_append.mp hl with hl | hl
        · exact updateOk_of_shape c g l hsh (Or.inl (hmv l hl))
        · exact updateOk_of_shape c g l hsh (Or.inr (hvs l hl))
    | list l => exact Post.throw
    | tuple l => exact Post.throw

theorem neighbours_full (fuel : Nat) (pat : Pat V) (prob : Prob V) (hconf : Conforms pat prob) :
    Post (neighbours fuel pat (enumVars pat []).2 prob) fun cands => ∀ n ∈ cands, ∃ b sub,
      (n.1, b) ∈ (enumVars pat []).2 ∧ getPat pat n.1 = .ok (.builder b) ∧ getProb prob n.1 = .ok sub ∧
      BuilderUpdOk b sub n.2 ∧
      ∀ prob', realise pat prob n = .ok prob' → ∃ sub', b.copyWithUpdate sub n.2 = .ok sub' ∧
        getProb prob' n.1 = .ok sub' ∧ DiffersOnlyAt prob prob' n.1 ∧ Conforms pat prob' := by
  have hvars := (enumVars_top pat).2
  refine Post.mono (neighbours_spec fuel pat _ prob hvars) ?_
  intro cands hc n hn
  obtain ⟨b, sub, us, hmem, hsub, ⟨s1, s2, hy⟩, hu⟩ := hc n hn
  have hget := hvars (n.1, b) hmem
  refine ⟨b, sub, hmem, hget, hsub, builder_candidates_spec fuel b sub s1 us s2 hy n.2 hu, ?_⟩
  intro prob' hr
  obtain ⟨sub0, sub', h1, h2, h3, h4, h5⟩ := withUpdate_spec n.1 prob pat n.2 prob' b hconf hget hr
  rw [hsub] at h1
  cases h1
  exact ⟨sub', h2, h3, h4, h5⟩

/-! ## the initial grid -/

theorem cellI_replicate (h w : Nat) (d : V) (y x : Int) (hy : 0 ≤ y) (hy' : y < h) (hx : 0 ≤ x) (hx' : x < w) :
    cellI (List.replicate h (List.replicate w d)) y x = some d := by
  have h1 : y.toNat < h := by omega
  have h2 : x.toNat < w := by omega
  simp [cellI, hy, hx, h1, h2]

theorem initialGrid_spec (c : ArrayCfg V) (h : c.initial = none) :
    Shaped c.height c.width c.initialGrid ∧ GridValid c c.initialGrid ∧ Sym c c.initialGrid ∧
      NoAdj c c.initialGrid := by
  have hall : ∀ y x, InR c y x → cellI c.initialGrid y x = some c.default := by
    intro y x hin
    unfold InR at hin
    simp only [ArrayCfg.initialGrid, h]
    exact cellI_replicate _ _ _ y x hin.1 hin.2.1 hin.2.2.1 hin.2.2.2
  refine ⟨?_, ?_, ?_, ?_⟩
  · simp only [ArrayCfg.initialGrid, h, Shaped, List.length_replicate, true_and]
    intro r hr
    rw [(List.mem_replicate.mp hr).2, List.length_replicate]
  · intro y x hin
    exact ⟨c.default, hall y x hin, Or.inr rfl⟩
  · intro y x hin
    rw [hall y x hin, hall _ _ (inR_mirror hin)]
  · intro y x d _ hin _
    exact Or.inl (hall y x hin)

end Cspuz.Gen
