/-
  C11 / shakashaka — assembly: the program posted by `solve_shakashaka` encodes the published rules.
    program  ⇔  CluesOK ∧ ∀ grid points, PointOK        (Proofs/C11ShakashakaP*.lean, program level)
    PointOK everywhere  ⇔  LocalRules                     (Proofs/C11ShakashakaL*.lean, finite table)
    LocalRules  ⇔  every white area is a rectangle        (geometry: G0, Rect, GD, GA, GB, GU, Conv, Conv2)
-/
import CspuzModel.Proofs.C11ShakashakaP
import CspuzModel.Proofs.C11ShakashakaL
import CspuzModel.Proofs.C11ShakashakaGU
import CspuzModel.Proofs.C11ShakashakaConv
import CspuzModel.Proofs.C11ShakashakaConv2
namespace Cspuz.Proofs.C11Shakashaka
open Cspuz Cspuz.Spec Cspuz.Puzzles.Shakashaka Cspuz.Spec.Shakashaka Cspuz.Proofs.C11ShakashakaDefs
open Cspuz.Proofs.C11ShakashakaG0

theorem fin4_q : ∀ q : Fin 4,
    ((q = 1 ∨ q = 2) ↔ (q = 1 ∨ q = 1 + 1)) ∧ ((q = 0 ∨ q = 1) ↔ (q = 0 ∨ q = 0 + 1)) ∧
    ((q = 0 ∨ q = 3) ↔ (q = 3 ∨ q = 3 + 1)) ∧ ((q = 2 ∨ q = 3) ↔ (q = 2 ∨ q = 2 + 1)) := by decide

/-- In every cell nothing, everything or two neighbouring quarters are white. -/
theorem cellPattern_white (pb : Problem) (g : Nat → Nat → Int) : CellPattern (White pb g) := by
  intro y x
  by_cases hb : 0 ≤ y ∧ y < pb.height ∧ 0 ≤ x ∧ x < pb.width ∧ val pb y.toNat x.toNat = none
  · have hw : ∀ q, White pb g ⟨y, x, q⟩ ↔ whiteQ (g y.toNat x.toNat) q = true := by
      intro q
      unfold White
      simp only
      constructor
      · exact fun h => h.2.2.2.2.2
      · exact fun h => ⟨hb.1, hb.2.1, hb.2.2.1, hb.2.2.2.1, hb.2.2.2.2, h⟩
    generalize g y.toNat x.toNat = v at hw
    by_cases h0 : v = 0
    · exact Or.inr (Or.inl fun q => (hw q).2 (by simp [whiteQ, h0]))
    by_cases h1 : v = 1
    · refine Or.inr (Or.inr ⟨1, fun q => ?_⟩)
      rw [hw, ← (fin4_q q).1]; simp [whiteQ, h1]
    by_cases h2 : v = 2
    · refine Or.inr (Or.inr ⟨0, fun q => ?_⟩)
      rw [hw, ← (fin4_q q).2.1]; simp [whiteQ, h2]
    by_cases h3 : v = 3
    · refine Or.inr (Or.inr ⟨3, fun q => ?_⟩)
      rw [hw, ← (fin4_q q).2.2.1]; simp [whiteQ, h3]
    by_cases h4 : v = 4
    · refine Or.inr (Or.inr ⟨2, fun q => ?_⟩)
      rw [hw, ← (fin4_q q).2.2.2]; simp [whiteQ, h4]
    · exact Or.inl fun q h => by
        have := (hw q).1 h
        simp [whiteQ, h0, h1, h2, h3, h4] at this
  · refine Or.inl fun q h => hb ?_
    exact ⟨h.1, h.2.1, h.2.2.1, h.2.2.2.1, h.2.2.2.2.1⟩

theorem bounded_white (pb : Problem) (g : Nat → Nat → Int) : Bounded (White pb g) := by
  refine ⟨(pb.height : Int) + pb.width, fun t ht => ?_⟩
  obtain ⟨h1, h2, h3, h4, _⟩ := ht
  omega

/-- The geometric fact: the local rules hold at all grid points iff all white areas are rectangles. -/
theorem local_iff_rectangles : Cspuz.Spec.Shakashaka.local_iff_rectangles := by
  intro pb g
  constructor
  · intro h
    exact C11ShakashakaGU.allRect_of_angles (cellPattern_white pb g) (bounded_white pb g) h.1
  · intro h
    exact ⟨C11ShakashakaConv.angles_of_allRect _ h,
      C11ShakashakaConv2.straight_of_allRect _ (cellPattern_white pb g) h⟩

/-- What the program says on the grid is exactly the rules. -/
theorem localCode_iff_rules (pb : Problem) (g : Nat → Nat → Int) : LocalCode pb g ↔ RulesGrid pb g := by
  unfold LocalCode RulesGrid
  constructor
  · rintro ⟨hcl, hp⟩
    exact ⟨hcl, (local_iff_rectangles pb g).1 ((C11ShakashakaL.pointOK_iff_localRules pb g hcl).1 hp)⟩
  · rintro ⟨hcl, hr⟩
    exact ⟨hcl, (C11ShakashakaL.pointOK_iff_localRules pb g hcl).2 ((local_iff_rectangles pb g).2 hr)⟩

theorem program_iff_rules (pb : Problem) (hwf : WellFormed pb) (P : PuzzleProg) (hP : program pb = .ok P) :
    EncodesRules P (Rules pb) ∧ P.KeysOk ∧ (∀ c ∈ P.cs, wtB c = true) := by
  obtain ⟨henc, hk, hwt⟩ := C11ShakashakaP.encodes pb hwf P hP
  refine ⟨fun a => ?_, hk, hwt⟩
  rw [henc a]
  unfold Rules
  constructor
  · rintro ⟨g, e, h⟩; exact ⟨g, e, (localCode_iff_rules pb g).1 h⟩
  · rintro ⟨g, e, h⟩; exact ⟨g, e, (localCode_iff_rules pb g).2 h⟩

theorem total (pb : Problem) (hwf : WellFormed pb) : ∃ P, program pb = .ok P := C11ShakashakaP.total pb hwf

end Cspuz.Proofs.C11Shakashaka
