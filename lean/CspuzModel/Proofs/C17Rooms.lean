/-
  C17 for `Rooms`: the flood-fill decoder never crashes (no IndexError / AssertionError / TypeError, no
  non-termination), given the same for the border bitmap layer.  Also the shared grid lemmas (`Dims`, `gv`,
  `rd2_eq`, `gv_set2`, `fillLoop_step`) used by the C15 round trip of `Rooms`.
-/
import CspuzModel.Proofs.SerBasics
namespace Cspuz.Ser
open Cspuz

/-! ### grids with fixed dimensions -/

def Dims {α} (h w : Nat) (g : Grid2 α) : Prop := g.length = h ∧ ∀ r ∈ g, r.length = w

/-- total read (default outside the grid) -/
def gv {α} [Inhabited α] (g : Grid2 α) (y x : Nat) : α := ((g[y]?.getD [])[x]?).getD default

theorem rd2_eq {α} [Inhabited α] {h w : Nat} {g : Grid2 α} (hd : Dims h w g) {y x : Nat} (hy : y < h) (hx : x < w) :
    rd2 g y x = .ok (gv g y x) := by
  obtain ⟨hl, hr⟩ := hd
  have hy' : y < g.length := by omega
  have hx' : x < g[y].length := by rw [hr _ (List.getElem_mem hy')]; exact hx
  simp [rd2, gv, List.getElem?_eq_getElem hy', List.getElem?_eq_getElem hx']

theorem dims_set2 {α} {h w : Nat} {g : Grid2 α} (hd : Dims h w g) (y x : Nat) (v : α) : Dims h w (set2 g y x v) := by
  obtain ⟨hl, hr⟩ := hd
  refine ⟨by simp [set2, hl], ?_⟩
  intro r hmem
  obtain ⟨j, hj, rfl⟩ := List.getElem_of_mem hmem
  simp only [set2, List.getElem_modify]
  have hj' : j < g.length := by simpa [set2] using hj
  split
  · simp [hr _ (List.getElem_mem hj')]
  · exact hr _ (List.getElem_mem hj')

theorem gv_set2 {α} [Inhabited α] {h w : Nat} {g : Grid2 α} (hd : Dims h w g) {y x : Nat} (hy : y < h) (hx : x < w)
    (v : α) (y' x' : Nat) : gv (set2 g y x v) y' x' = if y' = y ∧ x' = x then v else gv g y' x' := by
  obtain ⟨hl, hr⟩ := hd
  have hy' : y < g.length := by omega
  have hx' : x < g[y].length := by rw [hr _ (List.getElem_mem hy')]; exact hx
  simp only [gv, set2, List.getElem?_modify]
  by_cases h1 : y = y'
  · subst h1
    simp only [List.getElem?_eq_getElem hy', true_and]
    by_cases h2 : x' = x
    · subst h2; simp [hx']
    · have h3 : ¬ x = x' := fun e => h2 e.symm
      simp [h2, h3]
  · have : ¬ y' = y := fun e => h1 e.symm
    simp only [this, false_and, if_false, h1]
    cases g[y']? <;> simp

theorem dims_replicate {α} (h w : Nat) (v : α) : Dims h w (List.replicate h (List.replicate w v)) := by
  refine ⟨by simp, ?_⟩
  intro r hr
  rw [List.eq_of_mem_replicate hr]; simp

theorem gv_replicate {α} [Inhabited α] {h w : Nat} (v : α) {y x : Nat} (hy : y < h) (hx : x < w) :
    gv (List.replicate h (List.replicate w v)) y x = v := by
  simp [gv, hy, hx]

/-! ### cells -/

theorem mem_cells {h w : Nat} {p : Nat × Nat} : p ∈ cells h w ↔ p.1 < h ∧ p.2 < w := by
  obtain ⟨y, x⟩ := p
  simp only [cells, List.mem_flatMap, List.mem_range, List.mem_map, Prod.mk.injEq]
  constructor
  · rintro ⟨a, ha, b, hb, rfl, rfl⟩; exact ⟨ha, hb⟩
  · rintro ⟨hy, hx⟩; exact ⟨y, hy, x, hx, rfl, rfl⟩

theorem length_cells (h w : Nat) : (cells h w).length = h * w := by
  simp [cells, List.length_flatMap, List.map_const', List.sum_replicate_nat]

def push4 (hz vt : Grid2 Bool) (h w y x : Nat) (st : List (Nat × Nat)) : List (Nat × Nat) :=
  let st1 := if y > 0 ∧ gv hz (y - 1) x = false then (y - 1, x) :: st else st
  let st2 := if y + 1 < h ∧ gv hz y x = false then (y + 1, x) :: st1 else st1
  let st3 := if x > 0 ∧ gv vt y (x - 1) = false then (y, x - 1) :: st2 else st2
  if x + 1 < w ∧ gv vt y x = false then (y, x + 1) :: st3 else st3

theorem pushStep {g : Grid2 Bool} {hh ww : Nat} (hd : Dims hh ww g) (c : Prop) [Decidable c] (yy xx : Nat)
    (hc : c → yy < hh ∧ xx < ww) (p : Nat × Nat) (st : List (Nat × Nat)) :
    (if c then (rd2 g yy xx).bind fun b => Outcome.ok (if !b then p :: st else st) else .ok st)
      = .ok (if c ∧ gv g yy xx = false then p :: st else st) := by
  by_cases h : c
  · rw [if_pos h, rd2_eq hd (hc h).1 (hc h).2]
    cases gv g yy xx <;> simp [h]
  · simp [h]

theorem fillLoop_step {hz vt : Grid2 Bool} {h w : Nat} {rid : Grid2 Int} (hr : Dims h w rid)
    (hhz : Dims (h - 1) w hz) (hvt : Dims h (w - 1) vt) {y x : Nat} (hy : y < h) (hx : x < w)
    (id : Int) (fuel : Nat) (st : List (Nat × Nat)) :
    fillLoop hz vt h w id (fuel + 1) ((y, x) :: st) rid =
      if gv rid y x ≠ -1 then fillLoop hz vt h w id fuel st rid
      else fillLoop hz vt h w id fuel (push4 hz vt h w y x st) (set2 rid y x id) := by
  rw [fillLoop, rd2_eq hr hy hx, Outcome.bind_ok]
  by_cases hc : gv rid y x = -1
  · simp only [hc, bne_self_eq_false, Bool.false_eq_true, if_false, ne_eq, not_true_eq_false]
    rw [pushStep hhz (y > 0) (y - 1) x (fun _ => ⟨by omega, hx⟩), Outcome.bind_ok,
      pushStep hhz (y + 1 < h) y x (fun _ => ⟨by omega, hx⟩), Outcome.bind_ok,
      pushStep hvt (x > 0) y (x - 1) (fun _ => ⟨hy, by omega⟩), Outcome.bind_ok,
      pushStep hvt (x + 1 < w) y x (fun _ => ⟨hy, by omega⟩), Outcome.bind_ok]
    rfl
  · simp [hc]

theorem countP_lt_of {α} {p q : α → Bool} {l : List α} (hpq : ∀ x ∈ l, p x = true → q x = true) {a : α}
    (ha : a ∈ l) (hqa : q a = true) (hpa : p a = false) : l.countP p < l.countP q := by
  induction l with
  | nil => simp at ha
  | cons b l ih =>
    have hmono : l.countP p ≤ l.countP q := List.countP_mono_left (fun x hx => hpq x (List.mem_cons_of_mem _ hx))
    rcases List.mem_cons.1 ha with rfl | hal
    · simp [hqa, hpa]; omega
    · have := ih (fun x hx => hpq x (List.mem_cons_of_mem _ hx)) hal
      have hb := hpq b List.mem_cons_self
      simp only [List.countP_cons]
      cases hp : p b
      · simp; split <;> omega
      · simp [hb hp]; omega

/-- number of board cells still carrying `-1` -/
def unmarked (h w : Nat) (rid : Grid2 Int) : Nat := (cells h w).countP fun p => gv rid p.1 p.2 == -1

theorem unmarked_le (h w : Nat) (rid : Grid2 Int) : unmarked h w rid ≤ h * w := by
  rw [← length_cells]; exact List.countP_le_length

theorem unmarked_set2 {h w : Nat} {rid : Grid2 Int} (hr : Dims h w rid) {y x : Nat} (hy : y < h) (hx : x < w)
    (hc : gv rid y x = -1) {id : Int} (hid : id ≠ -1) : unmarked h w (set2 rid y x id) + 1 ≤ unmarked h w rid := by
  have : unmarked h w (set2 rid y x id) < unmarked h w rid := by
    unfold unmarked
    apply countP_lt_of (a := (y, x))
    · intro p _ hp
      rw [gv_set2 hr hy hx] at hp
      split at hp
      · simp [hid] at hp
      · exact hp
    · exact mem_cells.2 ⟨hy, hx⟩
    · simp [hc]
    · simp [gv_set2 hr hy hx, hid]
  omega

theorem length_push4 (hz vt : Grid2 Bool) (h w y x : Nat) (st : List (Nat × Nat)) :
    (push4 hz vt h w y x st).length ≤ st.length + 4 := by
  unfold push4
  repeat' split
  all_goals simp only [List.length_cons]
  all_goals omega

theorem mem_ite_cons {α} {c : Prop} [Decidable c] {p q : α} {l : List α} :
    p ∈ (if c then q :: l else l) ↔ (c ∧ p = q) ∨ p ∈ l := by
  by_cases h : c <;> simp [h]

/-- one step of the fill: `b` is an orthogonal neighbour of `a` on the board with no border between them -/
def Open (hz vt : Grid2 Bool) (h w : Nat) (a b : Nat × Nat) : Prop :=
  (a.1 > 0 ∧ gv hz (a.1 - 1) a.2 = false ∧ b = (a.1 - 1, a.2)) ∨
  (a.1 + 1 < h ∧ gv hz a.1 a.2 = false ∧ b = (a.1 + 1, a.2)) ∨
  (a.2 > 0 ∧ gv vt a.1 (a.2 - 1) = false ∧ b = (a.1, a.2 - 1)) ∨
  (a.2 + 1 < w ∧ gv vt a.1 a.2 = false ∧ b = (a.1, a.2 + 1))

theorem mem_push4 {hz vt : Grid2 Bool} {h w y x : Nat} {st : List (Nat × Nat)} {p : Nat × Nat} :
    p ∈ push4 hz vt h w y x st ↔ p ∈ st ∨ Open hz vt h w (y, x) p := by
  simp only [push4, mem_ite_cons, Open]
  grind

theorem Open.board {hz vt : Grid2 Bool} {h w : Nat} {a b : Nat × Nat} (ha : a.1 < h ∧ a.2 < w)
    (hab : Open hz vt h w a b) : b.1 < h ∧ b.2 < w := by
  rcases hab with ⟨h1, _, rfl⟩ | ⟨h1, _, rfl⟩ | ⟨h1, _, rfl⟩ | ⟨h1, _, rfl⟩ <;> simp <;> omega


theorem fillLoop_ok {hz vt : Grid2 Bool} {h w : Nat} (hhz : Dims (h - 1) w hz) (hvt : Dims h (w - 1) vt)
    {id : Int} (hid : id ≠ -1) :
    ∀ (fuel : Nat) (st : List (Nat × Nat)) (rid : Grid2 Int), Dims h w rid → (∀ p ∈ st, p.1 < h ∧ p.2 < w) →
      4 * unmarked h w rid + st.length + 1 ≤ fuel →
      ∃ rid', fillLoop hz vt h w id fuel st rid = .ok rid' ∧ Dims h w rid' ∧
        (∀ y x, gv rid y x ≠ -1 → gv rid' y x = gv rid y x) ∧
        (∀ y x, gv rid' y x = gv rid y x ∨ gv rid' y x = id) ∧
        (∀ p ∈ st, gv rid' p.1 p.2 ≠ -1) := by
  intro fuel
  induction fuel with
  | zero => intro st rid _ _ hf; omega
  | succ fuel ih =>
    intro st rid hr hst hf
    match st with
    | [] => exact ⟨rid, rfl, hr, fun _ _ _ => rfl, fun _ _ => Or.inl rfl, by simp⟩
    | (y, x) :: st =>
      have hyx : y < h ∧ x < w := hst (y, x) List.mem_cons_self
      have hst' : ∀ p ∈ st, p.1 < h ∧ p.2 < w := fun p hp => hst p (List.mem_cons_of_mem _ hp)
      rw [fillLoop_step hr hhz hvt hyx.1 hyx.2]
      by_cases hc : gv rid y x = -1
      · rw [if_neg (by simp [hc])]
        have hr1 := dims_set2 hr y x id
        have hu := unmarked_set2 hr hyx.1 hyx.2 hc hid
        have hl := length_push4 hz vt h w y x st
        obtain ⟨rid', he, hd', f1, f2, f3⟩ := ih (push4 hz vt h w y x st) (set2 rid y x id) hr1
          (fun p hp => by
            rcases mem_push4.1 hp with hp | hp
            · exact hst' p hp
            · exact hp.board hyx)
          (by simp only [List.length_cons] at hf; omega)
        refine ⟨rid', he, hd', ?_, ?_, ?_⟩
        · intro a b hab
          have : gv (set2 rid y x id) a b = gv rid a b := by
            rw [gv_set2 hr hyx.1 hyx.2]
            split
            · rename_i hh; rw [hh.1, hh.2, hc] at hab; exact absurd rfl hab
            · rfl
          rw [← this]; exact f1 a b (by rw [this]; exact hab)
        · intro a b
          rcases f2 a b with e | e
          · rw [gv_set2 hr hyx.1 hyx.2] at e
            split at e
            · exact Or.inr e
            · exact Or.inl e
          · exact Or.inr e
        · intro p hp
          rcases List.mem_cons.1 hp with rfl | hp
          · have : gv (set2 rid y x id) y x = id := by rw [gv_set2 hr hyx.1 hyx.2]; simp
            have h2 := f1 y x (by rw [this]; exact hid)
            simp only; rw [h2, this]; exact hid
          · exact f3 p (mem_push4.2 (Or.inl hp))
      · rw [if_pos hc]
        obtain ⟨rid', he, hd', f1, f2, f3⟩ := ih st rid hr hst' (by simp only [List.length_cons] at hf; omega)
        refine ⟨rid', he, hd', f1, f2, ?_⟩
        intro p hp
        rcases List.mem_cons.1 hp with rfl | hp
        · simp only; rw [f1 y x hc]; exact hc
        · exact f3 p hp

/-- every board cell is unmarked or carries an id in `[0, last)` -/
def IdsBelow (h w : Nat) (rid : Grid2 Int) (last : Int) : Prop :=
  ∀ y x, y < h → x < w → gv rid y x = -1 ∨ (0 ≤ gv rid y x ∧ gv rid y x < last)

theorem scanFill_ok {hz vt : Grid2 Bool} {h w : Nat} (hhz : Dims (h - 1) w hz) (hvt : Dims h (w - 1) vt) :
    ∀ (l : List (Nat × Nat)) (rid : Grid2 Int) (last : Int), Dims h w rid → 0 ≤ last →
      (∀ p ∈ l, p.1 < h ∧ p.2 < w) → IdsBelow h w rid last →
      ∃ rid' last', scanFill hz vt h w l rid last = .ok (rid', last') ∧ Dims h w rid' ∧ 0 ≤ last' ∧
        IdsBelow h w rid' last' ∧ (∀ y x, gv rid y x ≠ -1 → gv rid' y x = gv rid y x) ∧
        (∀ p ∈ l, gv rid' p.1 p.2 ≠ -1) := by
  intro l
  induction l with
  | nil => intro rid last hr hl _ hi; exact ⟨rid, last, rfl, hr, hl, hi, fun _ _ _ => rfl, by simp⟩
  | cons p r ih =>
    obtain ⟨y, x⟩ := p
    intro rid last hr hl hb hi
    have hyx : y < h ∧ x < w := hb (y, x) List.mem_cons_self
    have hb' : ∀ p ∈ r, p.1 < h ∧ p.2 < w := fun p hp => hb p (List.mem_cons_of_mem _ hp)
    rw [scanFill, rd2_eq hr hyx.1 hyx.2, Outcome.bind_ok]
    by_cases hc : gv rid y x = -1
    · rw [if_pos (by simp [hc])]
      have hu := unmarked_le h w rid
      have hm : 4 * h * w = 4 * (h * w) := Nat.mul_assoc 4 h w
      obtain ⟨rid1, he1, hr1, f1, f2, f3⟩ := fillLoop_ok hhz hvt (id := last) (by omega) (4 * h * w + 2) [(y, x)] rid hr
        (by simpa using hyx) (by simp only [List.length_cons, List.length_nil]; omega)
      rw [he1, Outcome.bind_ok]
      have hi1 : IdsBelow h w rid1 (last + 1) := by
        intro a b ha hb
        rcases f2 a b with e | e
        · rw [e]; rcases hi a b ha hb with h1 | h1
          · exact Or.inl h1
          · exact Or.inr ⟨h1.1, by omega⟩
        · rw [e]; exact Or.inr ⟨hl, by omega⟩
      obtain ⟨rid', last', he, hr', hl', hi', g1, g3⟩ := ih rid1 (last + 1) hr1 (by omega) hb' hi1
      refine ⟨rid', last', he, hr', hl', hi', ?_, ?_⟩
      · intro a b hab
        have := f1 a b hab
        rw [← this]; exact g1 a b (by rw [this]; exact hab)
      · intro p hp
        rcases List.mem_cons.1 hp with rfl | hp
        · have h3 := f3 (y, x) List.mem_cons_self
          simp only at h3 ⊢
          rw [g1 y x h3]; exact h3
        · exact g3 p hp
    · rw [if_neg (by simp [hc])]
      obtain ⟨rid', last', he, hr', hl', hi', g1, g3⟩ := ih rid last hr hl hb' hi
      refine ⟨rid', last', he, hr', hl', hi', g1, ?_⟩
      intro p hp
      rcases List.mem_cons.1 hp with rfl | hp
      · simp only; rw [g1 y x hc]; exact hc
      · exact g3 p hp

/-- the redundancy check reads inside the board only: it returns or raises `ValueError` -/
theorem redundantCheck_safe {hz vt : Grid2 Bool} {rid : Grid2 Int} {h w : Nat} (hhz : Dims (h - 1) w hz)
    (hvt : Dims h (w - 1) vt) (hr : Dims h w rid) :
    ∀ (l : List (Nat × Nat)), (∀ p ∈ l, p.1 < h ∧ p.2 < w) →
      redundantCheck hz vt rid h w l = .ok () ∨ redundantCheck hz vt rid h w l = .raised .valueError := by
  intro l
  induction l with
  | nil => intro _; exact Or.inl rfl
  | cons p r ih =>
    obtain ⟨y, x⟩ := p
    intro hb
    have hyx : y < h ∧ x < w := hb (y, x) List.mem_cons_self
    have ih' := ih (fun p hp => hb p (List.mem_cons_of_mem _ hp))
    rw [redundantCheck]
    by_cases h1 : y + 1 < h
    · rw [if_pos h1, rd2_eq hhz (by omega) hyx.2, Outcome.bind_ok, rd2_eq hr hyx.1 hyx.2, rd2_eq hr h1 hyx.2]
      simp only [Outcome.bind_ok]
      by_cases h2 : x + 1 < w
      · rw [if_pos h2, rd2_eq hvt hyx.1 (by omega), Outcome.bind_ok, rd2_eq hr hyx.1 h2]
        simp only [Outcome.bind_ok]
        cases gv hz y x <;> cases gv vt y x <;> simp <;> (repeat' split) <;> simp [ih']
      · rw [if_neg h2]
        cases gv hz y x <;> simp <;> (repeat' split) <;> simp [ih']
    · rw [if_neg h1, Outcome.bind_ok]
      by_cases h2 : x + 1 < w
      · rw [if_pos h2, rd2_eq hvt hyx.1 (by omega), Outcome.bind_ok, rd2_eq hr hyx.1 hyx.2, rd2_eq hr hyx.1 h2]
        simp only [Outcome.bind_ok]
        cases gv vt y x <;> simp <;> (repeat' split) <;> simp [ih']
      · rw [if_neg h2, Outcome.bind_ok]; exact ih'

theorem collectRooms_ok {rid : Grid2 Int} {h w : Nat} (hr : Dims h w rid) (n : Nat) :
    ∀ (l : List (Nat × Nat)) (rooms : List (List (Nat × Nat))), rooms.length = n →
      (∀ p ∈ l, p.1 < h ∧ p.2 < w ∧ 0 ≤ gv rid p.1 p.2 ∧ gv rid p.1 p.2 < n) →
      ∃ rooms', collectRooms rid l rooms = .ok rooms' ∧ rooms'.length = n := by
  intro l
  induction l with
  | nil => intro rooms hl _; exact ⟨rooms, rfl, hl⟩
  | cons p r ih =>
    obtain ⟨y, x⟩ := p
    intro rooms hl hb
    obtain ⟨hy, hx, h0, h1⟩ := hb (y, x) List.mem_cons_self
    simp only at hy hx h0 h1
    rw [collectRooms, rd2_eq hr hy hx, Outcome.bind_ok]
    have hlt : (gv rid y x).toNat < rooms.length := by omega
    rw [if_neg (by simp; omega), if_neg (by omega), List.getElem?_eq_getElem hlt]
    exact ih _ (by simp [hl]) (fun p hp => hb p (List.mem_cons_of_mem _ hp))


/-! ### the shape of a decoded border bitmap -/

theorem gridRows_shape (w : Nat) (d2 : List PyVal) : ∀ (h i : Nat), (i + h) * w ≤ d2.length →
    GridShape h w (gridRows w d2 h i) := by
  intro h
  induction h with
  | zero => intro i _; exact ⟨rfl, by simp [gridRows]⟩
  | succ h ih =>
    intro i hl
    have hl' : i * w + w + h * w ≤ d2.length := by
      have : (i + (h + 1)) * w = i * w + w + h * w := by
        rw [Nat.add_mul, Nat.add_mul, Nat.one_mul]; omega
      omega
    obtain ⟨h1, h2⟩ := ih (i + 1) (by rw [show i + 1 + h = i + (h + 1) by omega]; exact hl)
    refine ⟨by simp [gridRows, h1], ?_⟩
    intro r hr
    simp only [gridRows, List.mem_cons] at hr
    rcases hr with rfl | hr
    · exact ⟨_, rfl, by simp [List.length_take, List.length_drop]; omega⟩
    · exact h2 r hr

theorem gridDe_ok_shape {f : DeF} {h w : Nat} {data : Str} {idx n : Nat} {items : List PyVal}
    (he : gridDe f h w data idx = .ok (n, items)) : ∃ rows, items = [.list rows] ∧ GridShape h w rows := by
  unfold gridDe at he
  obtain ⟨r, _, h2⟩ := Outcome.bind_eq_ok.1 he
  split at h2
  · rename_i d2 _
    split at h2
    · cases h2
    · rename_i hl
      simp only [Outcome.ok.injEq, Prod.mk.injEq] at h2
      refine ⟨_, h2.2.symm, gridRows_shape w d2 h 0 ?_⟩
      simp only [ne_eq, Decidable.not_not] at hl
      simp [hl]
  · cases h2
  · cases h2

theorem bordersDe_ok_shape {h w : Nat} {data : Str} {idx n : Nat} {items : List PyVal}
    (he : bordersDe h w data idx = .ok (n, items)) :
    ∃ vrows hrows, items = [.tuple [.list [.list vrows], .list [.list hrows]]] ∧
      GridShape h (w - 1) vrows ∧ GridShape (h - 1) w hrows := by
  unfold bordersDe tuplDe at he
  simp only [tuplDeLoop] at he
  obtain ⟨r1, e1, he⟩ := Outcome.bind_eq_ok.1 he
  obtain ⟨r2, e2, he⟩ := Outcome.bind_eq_ok.1 he
  obtain ⟨n1, i1⟩ := r1
  obtain ⟨n2, i2⟩ := r2
  obtain ⟨vrows, rfl, hv⟩ := gridDe_ok_shape e1
  obtain ⟨hrows, rfl, hh⟩ := gridDe_ok_shape e2
  simp only [Outcome.ok.injEq, Prod.mk.injEq] at he
  exact ⟨vrows, hrows, by rw [← he.2]; rfl, hv, hh⟩

def boolRow : PyVal → List Bool
  | .list bits => bits.map truthy
  | _ => []

theorem toBoolGrid_ok {rows : List PyVal} (hs : ∀ r ∈ rows, ∃ l, r = .list l) :
    toBoolGrid (.list rows) = .ok (rows.map boolRow) := by
  simp only [toBoolGrid]
  induction rows with
  | nil => rfl
  | cons r rows ih =>
    obtain ⟨l, rfl⟩ := hs _ List.mem_cons_self
    rw [List.foldr_cons, ih (fun r hr => hs r (List.mem_cons_of_mem _ hr))]
    rfl

theorem toBoolGrid_shape {h w : Nat} {rows : List PyVal} (hs : GridShape h w rows) :
    toBoolGrid (.list rows) = .ok (rows.map boolRow) ∧ Dims h w (rows.map boolRow) := by
  refine ⟨toBoolGrid_ok (fun r hr => by obtain ⟨l, e, _⟩ := hs.2 r hr; exact ⟨l, e⟩), by simp [hs.1], ?_⟩
  intro g hg
  obtain ⟨r, hr, rfl⟩ := List.mem_map.1 hg
  obtain ⟨l, rfl, hl⟩ := hs.2 r hr
  simp [boolRow, hl]


/-- the flood fill after a successful decoding of the two bitmaps: `ValueError` or a list of rooms -/
theorem roomsDeCore_of_borders {env : Env} (allow : Bool) {s : Str} {i k : Nat} {items : List PyVal}
    (h0 : ¬ (env.height = 0 ∨ env.width = 0)) (he : bordersDe env.height env.width s i = .ok (k, items)) :
    roomsDeCore env allow s i = .raised .valueError ∨ ∃ rooms, roomsDeCore env allow s i = .ok (k, [roomsVal rooms]) := by
  obtain ⟨vrows, hrows, rfl, hv, hh⟩ := bordersDe_ok_shape he
  obtain ⟨ev, hvt⟩ := toBoolGrid_shape hv
  obtain ⟨eh, hhz⟩ := toBoolGrid_shape hh
  have hcells : ∀ p ∈ cells env.height env.width, p.1 < env.height ∧ p.2 < env.width := fun p hp => mem_cells.1 hp
  obtain ⟨rid, last, es, hr, hl, hi, _, hm⟩ := scanFill_ok hhz hvt (cells env.height env.width)
    (List.replicate env.height (List.replicate env.width (-1))) 0 (dims_replicate _ _ _) (Int.le_refl 0) hcells
    (fun y x hy hx => Or.inl (gv_replicate _ hy hx))
  obtain ⟨rooms, ec, _⟩ := collectRooms_ok hr last.toNat (cells env.height env.width)
    (List.replicate last.toNat []) (by simp) (fun p hp => by
      have hb := hcells p hp
      refine ⟨hb.1, hb.2, ?_⟩
      rcases hi p.1 p.2 hb.1 hb.2 with h1 | h1
      · exact absurd h1 (hm p hp)
      · omega)
  unfold roomsDeCore
  simp only [he, ev, eh, es, ec, Outcome.bind_ok]
  rw [if_neg (by simpa using h0)]
  cases allow
  · rcases redundantCheck_safe hhz hvt hr (cells env.height env.width) hcells with e | e
    · right; exact ⟨rooms, by simp [e]⟩
    · left; simp [e]
  · right; exact ⟨rooms, by simp⟩

theorem roomsDeCore_ok_shape {env : Env} {allow : Bool} {s : Str} {i k : Nat} {items : List PyVal}
    (he : roomsDeCore env allow s i = .ok (k, items)) : ∃ rooms, items = [roomsVal rooms] := by
  by_cases h0 : env.height = 0 ∨ env.width = 0
  · unfold roomsDeCore at he
    simp only [] at he
    rw [if_pos (by simpa using h0)] at he
    cases he
  · cases hb : bordersDe env.height env.width s i with
    | ok r =>
      obtain ⟨k', items'⟩ := r
      rcases roomsDeCore_of_borders allow h0 hb with e | ⟨rooms, e⟩
      · rw [e] at he; cases he
      · rw [e] at he; cases he; exact ⟨rooms, rfl⟩
    | none => unfold roomsDeCore at he; simp [hb, h0] at he
    | raised e => unfold roomsDeCore at he; simp [hb, h0] at he
    | diverge => unfold roomsDeCore at he; simp [hb, h0] at he

theorem catchValueError_ok {α} {skip : Bool} {x : Outcome α} {a : α} (h : catchValueError skip x = .ok a) : x = .ok a := by
  unfold catchValueError at h
  cases skip
  · simpa using h
  · simp only [if_true] at h
    split at h
    · cases h
    · exact h

theorem roomsDe_ok_shape {env : Env} {skip allow : Bool} {s : Str} {i k : Nat} {items : List PyVal}
    (he : roomsDe env skip allow s i = .ok (k, items)) : ∃ rooms, items = [roomsVal rooms] :=
  roomsDeCore_ok_shape (catchValueError_ok he)

theorem catchValueError_safe {skip : Bool} {s : Str} {i : Nat} {x : Outcome (Nat × List PyVal)} (h : SafeOutcome s i x) :
    SafeOutcome s i (catchValueError skip x) := by
  unfold catchValueError
  cases skip
  · simpa using h
  · rcases h with rfl | rfl | ⟨k, items, rfl, hk⟩
    · exact Or.inl rfl
    · exact Or.inl rfl
    · exact Or.inr (Or.inr ⟨k, items, rfl, hk⟩)

/-- **C17 for `Rooms`**: given a safe bitmap layer, decoding a room partition never crashes and never spins. -/
theorem roomsDe_safe_of_borders (hB : ∀ h w, SafeDe (bordersDe h w)) (env : Env) (skip allow : Bool) :
    SafeDe (roomsDe env skip allow) := by
  intro s i hi
  apply catchValueError_safe
  by_cases h0 : env.height = 0 ∨ env.width = 0
  · right; left
    unfold roomsDeCore
    simp only []
    rw [if_pos (by simpa using h0)]
  · rcases hB env.height env.width s i hi with hb | hb | ⟨k, items, hb, hk⟩
    · right; left; unfold roomsDeCore; simp only [hb]; rw [if_neg (by simpa using h0)]
    · right; left; unfold roomsDeCore; simp only [hb]; rw [if_neg (by simpa using h0)]
    · rcases roomsDeCore_of_borders allow h0 hb with e | ⟨rooms, e⟩
      · exact Or.inr (Or.inl e)
      · exact Or.inr (Or.inr ⟨k, _, e, hk⟩)

end Cspuz.Ser
