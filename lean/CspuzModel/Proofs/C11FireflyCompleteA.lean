/-
  C11 / firefly — completeness of the certificate, part A: the lines of a rule-abiding drawing.
  Geometry of steps, determinism of `Follows`, the predicate `Out p d` ("some firefly's line leaves the cell `p` in
  direction `d`"), exclusivity (no step is travelled in both directions) and the resulting facts per cell.

  `Fol` is `Spec.Firefly.Follows` with the board size as parameters (`fol_iff`).
-/
import CspuzModel.Proofs.C11FireflyCert
import Mathlib.Data.List.Perm.Subperm
namespace Cspuz.Proofs.C11FireflyCompleteA
open Cspuz Cspuz.Spec Cspuz.Spec.FrameGeom Cspuz.Spec.Loop
open Cspuz.Spec.Firefly (firefly segOf opp clue armCount steps walk bends Follows IsLine)
open Cspuz.Puzzles.Firefly (Problem Clue Num)
open Cspuz.Proofs.C11FireflyCert

/-! ### geometry -/

/-- The cell is on the `(H+1) × (W+1)` board. -/
def InB (H W : Nat) (p : Pt) : Prop := p.1 ≤ H ∧ p.2 ≤ W

theorem opp_opp (d : Dir) : opp (opp d) = d := by cases d <;> rfl

theorem opp_ne (d : Dir) : opp d ≠ d := by cases d <;> simp [opp]

theorem arm_has {H W : Nat} {on : Seg → Bool} {p : Pt} {d : Dir} (h : arm H W on p d = true) :
    has H W p d = true := by
  cases d <;> simp_all [arm, has]

theorem arm_on {H W : Nat} {on : Seg → Bool} {p : Pt} {d : Dir} (h : arm H W on p d = true) :
    on (segOf p d) = true := by
  cases d <;> simp_all [arm, segOf]

theorem arm_of {H W : Nat} {on : Seg → Bool} {p : Pt} {d : Dir} (h1 : has H W p d = true)
    (h2 : on (segOf p d) = true) : arm H W on p d = true := by
  cases d <;> simp_all [arm, segOf, has]

theorem nb_inB {H W : Nat} {p : Pt} {d : Dir} (hp : InB H W p) (h : has H W p d = true) : InB H W (nb p d) := by
  obtain ⟨y, x⟩ := p
  cases d <;> simp_all [InB, has, nb] <;> omega

theorem nb_nb {H W : Nat} {p : Pt} {d : Dir} (h : has H W p d = true) : nb (nb p d) (opp d) = p := by
  obtain ⟨y, x⟩ := p
  cases d <;> simp_all [has, nb, opp] <;> omega

theorem has_opp {H W : Nat} {p : Pt} {d : Dir} (hp : InB H W p) (h : has H W p d = true) :
    has H W (nb p d) (opp d) = true := by
  obtain ⟨y, x⟩ := p
  cases d <;> simp [InB, has, nb, opp] at * <;> first | omega | exact decide_eq_true (by omega)

theorem segOf_opp {H W : Nat} {p : Pt} {d : Dir} (h : has H W p d = true) :
    segOf (nb p d) (opp d) = segOf p d := by
  obtain ⟨y, x⟩ := p
  cases d <;> simp_all [has, nb, opp, segOf]

theorem segOf_valid {H W : Nat} {p : Pt} {d : Dir} (hp : InB H W p) (h : has H W p d = true) :
    (segOf p d).Valid H W := by
  obtain ⟨y, x⟩ := p
  cases d <;> simp_all [InB, has, segOf, Seg.Valid] <;> omega

theorem arm_opp {H W : Nat} {on : Seg → Bool} {p : Pt} {d : Dir} (hp : InB H W p)
    (h : arm H W on p d = true) : arm H W on (nb p d) (opp d) = true := by
  have h1 := arm_has h
  exact arm_of (has_opp hp h1) (by rw [segOf_opp h1]; exact arm_on h)

/-- A cell with exactly two drawn steps has no three different drawn steps. -/
theorem arm_third {H W : Nat} {on : Seg → Bool} {p : Pt} {a b c : Dir} (h2 : armCount H W on p = 2)
    (ha : arm H W on p a = true) (hb : arm H W on p b = true) (hc : arm H W on p c = true)
    (hab : a ≠ b) (hac : a ≠ c) : b = c := by
  by_contra hbc
  unfold armCount at h2
  have hall : ∀ d : Dir, d ∈ [Dir.up, Dir.down, Dir.left, Dir.right] := by intro d; cases d <;> simp
  have hsub : [a, b, c] ⊆ [Dir.up, Dir.down, Dir.left, Dir.right].filter fun d => arm H W on p d := by
    intro d hd
    simp only [List.mem_cons, List.not_mem_nil, or_false] at hd
    rw [List.mem_filter]
    rcases hd with rfl | rfl | rfl
    · exact ⟨hall _, ha⟩
    · exact ⟨hall _, hb⟩
    · exact ⟨hall _, hc⟩
  have hnd : [a, b, c].Nodup := by simp [hab, hac, hbc]
  have := (List.subperm_of_subset hnd hsub).length_le
  simp [h2] at this

theorem isVert_opp {d d' : Dir} (h : d ≠ d') : (isVert d = isVert d') ↔ opp d = d' := by
  cases d <;> cases d' <;> simp_all [isVert, opp]

/-! ### following a line -/

/-- `Spec.Firefly.Follows` with the board size as parameters. -/
def Fol (pb : Problem) (H W : Nat) (on : Seg → Bool) : Pt → Dir → List Dir → Prop
  | p, prev, [] => ∃ d n, firefly pb p = some (d, n) ∧ d ≠ opp prev
  | p, prev, d :: r =>
    firefly pb p = none ∧ armCount H W on p = 2 ∧ d ≠ opp prev ∧ arm H W on p d = true ∧
      Fol pb H W on (nb p d) d r

theorem fol_iff (pb : Problem) (on : Seg → Bool) (p : Pt) (prev : Dir) (ds : List Dir) :
    Fol pb (pb.height - 1) (pb.width - 1) on p prev ds ↔ Follows pb on p prev ds := by
  induction ds generalizing p prev with
  | nil => simp [Fol, Follows]
  | cons d r ih => simp [Fol, Follows, ih]

/-- `(p, d)` is a drawn step of the board and `ds` is how a line goes on after it, up to its end. -/
def Tail (pb : Problem) (H W : Nat) (on : Seg → Bool) (p : Pt) (d : Dir) (ds : List Dir) : Prop :=
  InB H W p ∧ arm H W on p d = true ∧ Fol pb H W on (nb p d) d ds

section
variable {pb : Problem} {H W : Nat} {on : Seg → Bool}

theorem Tail.inB {p : Pt} {d : Dir} {ds : List Dir} (h : Tail pb H W on p d ds) : InB H W p := h.1
theorem Tail.arm {p : Pt} {d : Dir} {ds : List Dir} (h : Tail pb H W on p d ds) : arm H W on p d = true := h.2.1
theorem Tail.has {p : Pt} {d : Dir} {ds : List Dir} (h : Tail pb H W on p d ds) : has H W p d = true :=
  arm_has h.2.1

theorem tail_cons {p : Pt} {d d' : Dir} {r : List Dir} (h : Tail pb H W on p d (d' :: r)) :
    Tail pb H W on (nb p d) d' r ∧ firefly pb (nb p d) = none ∧ armCount H W on (nb p d) = 2 ∧ d' ≠ opp d := by
  obtain ⟨hp, ha, hf, hc, hne, ha', hr⟩ := h
  exact ⟨⟨nb_inB hp (arm_has ha), ha', hr⟩, hf, hc, hne⟩

theorem tail_nil {p : Pt} {d : Dir} (h : Tail pb H W on p d []) :
    ∃ dd n, firefly pb (nb p d) = some (dd, n) ∧ dd ≠ opp d := h.2.2

/-- A. Determinism: the continuation of a line after a step is determined by the step. -/
theorem tail_det {p : Pt} {d : Dir} {ds ds' : List Dir} (h : Tail pb H W on p d ds)
    (h' : Tail pb H W on p d ds') : ds = ds' := by
  induction ds generalizing p d ds' with
  | nil =>
    cases ds' with
    | nil => rfl
    | cons d' r' =>
      obtain ⟨dd, n, hf, _⟩ := tail_nil h
      have := (tail_cons h').2.1
      simp [hf] at this
  | cons d1 r ih =>
    cases ds' with
    | nil =>
      obtain ⟨dd, n, hf, _⟩ := tail_nil h'
      have := (tail_cons h).2.1
      simp [hf] at this
    | cons d1' r' =>
      obtain ⟨ht, _, hc, hne⟩ := tail_cons h
      obtain ⟨ht', _, _, hne'⟩ := tail_cons h'
      have hback : arm H W on (nb p d) (opp d) = true := arm_opp h.inB h.arm
      have : d1 = d1' := by
        by_contra hcon
        have := arm_third hc ht.arm ht'.arm hback hcon hne
        exact hne' this
      subst this
      rw [ih ht ht']

/-- The line ends at a firefly. -/
theorem tail_walk {p : Pt} {d : Dir} {ds : List Dir} (h : Tail pb H W on p d ds) :
    ∃ dd n, firefly pb (walk p (d :: ds)) = some (dd, n) := by
  induction ds generalizing p d with
  | nil =>
    obtain ⟨dd, n, hf, _⟩ := tail_nil h
    exact ⟨dd, n, hf⟩
  | cons d1 r ih => exact ih (tail_cons h).1

/-- Where a step of a line sits in it. -/
theorem mem_steps {f p : Pt} {d0 d : Dir} {ds : List Dir} (h : Tail pb H W on f d0 ds)
    (hm : (p, d) ∈ steps f (d0 :: ds)) :
    ∃ suf, Tail pb H W on p d suf ∧ (∀ st ∈ steps p (d :: suf), st ∈ steps f (d0 :: ds)) ∧
      bends (d :: suf) ≤ bends (d0 :: ds) ∧
      ((p = f ∧ d = d0 ∧ suf = ds) ∨
        (firefly pb p = none ∧ armCount H W on p = 2 ∧
          ∃ p' prev, (p', prev) ∈ steps f (d0 :: ds) ∧ nb p' prev = p ∧ d ≠ opp prev)) := by
  induction ds generalizing f d0 with
  | nil =>
    simp only [steps, List.mem_cons, List.not_mem_nil, or_false, Prod.mk.injEq] at hm
    obtain ⟨rfl, rfl⟩ := hm
    exact ⟨[], h, fun st hst => hst, Nat.le_refl _, Or.inl ⟨rfl, rfl, rfl⟩⟩
  | cons d1 r ih =>
    have hm' : (p, d) = (f, d0) ∨ (p, d) ∈ steps (nb f d0) (d1 :: r) := by
      simpa [steps] using hm
    rcases hm' with hm' | hm'
    · obtain ⟨rfl, rfl⟩ := Prod.mk.inj hm'
      exact ⟨d1 :: r, h, fun st hst => hst, Nat.le_refl _, Or.inl ⟨rfl, rfl, rfl⟩⟩
    · obtain ⟨ht, hf, hc, hne⟩ := tail_cons h
      obtain ⟨suf, hs, hsub, hb, hcase⟩ := ih ht hm'
      have hsub' : ∀ st ∈ steps (nb f d0) (d1 :: r), st ∈ steps f (d0 :: d1 :: r) := by
        intro st hst
        show st ∈ (f, d0) :: steps (nb f d0) (d1 :: r)
        exact List.mem_cons_of_mem _ hst
      refine ⟨suf, hs, fun st hst => hsub' st (hsub st hst), ?_, Or.inr ?_⟩
      · have : bends (d1 :: r) ≤ bends (d0 :: d1 :: r) := by
          show _ ≤ (if d0 = d1 then 0 else 1) + bends (d1 :: r)
          omega
        omega
      · rcases hcase with ⟨rfl, rfl, rfl⟩ | ⟨hf', hc', p', prev, hpm, hnb, hne'⟩
        · exact ⟨hf, hc, f, d0, by simp [steps], rfl, hne⟩
        · exact ⟨hf', hc', p', prev, hsub' _ hpm, hnb, hne'⟩

/-! ### `Out` -/

/-- The line of the firefly `f` leaves the cell `p` in direction `d`. -/
def OutF (pb : Problem) (H W : Nat) (on : Seg → Bool) (f p : Pt) (d : Dir) : Prop :=
  ∃ d0 n ds, firefly pb f = some (d0, n) ∧ Tail pb H W on f d0 ds ∧ (p, d) ∈ steps f (d0 :: ds)

/-- Some line leaves the cell `p` in direction `d`. -/
def Out (pb : Problem) (H W : Nat) (on : Seg → Bool) (p : Pt) (d : Dir) : Prop := ∃ f, OutF pb H W on f p d

theorem OutF.out {f p : Pt} {d : Dir} (h : OutF pb H W on f p d) : Out pb H W on p d := ⟨f, h⟩

theorem OutF.tail {f p : Pt} {d : Dir} (h : OutF pb H W on f p d) : ∃ suf, Tail pb H W on p d suf := by
  obtain ⟨d0, n, ds, _, ht, hm⟩ := h
  obtain ⟨suf, hs, _⟩ := mem_steps ht hm
  exact ⟨suf, hs⟩

theorem Out.tail {p : Pt} {d : Dir} (h : Out pb H W on p d) : ∃ suf, Tail pb H W on p d suf := by
  obtain ⟨f, hf⟩ := h
  exact hf.tail

theorem Out.inB {p : Pt} {d : Dir} (h : Out pb H W on p d) : InB H W p := by
  obtain ⟨suf, hs⟩ := h.tail
  exact hs.inB

theorem Out.arm {p : Pt} {d : Dir} (h : Out pb H W on p d) : arm H W on p d = true := by
  obtain ⟨suf, hs⟩ := h.tail
  exact hs.arm

theorem Out.has {p : Pt} {d : Dir} (h : Out pb H W on p d) : has H W p d = true := arm_has h.arm

/-- The first step of a line. -/
theorem outF_first {f : Pt} {d0 : Dir} {n : Option Int} {ds : List Dir} (hf : firefly pb f = some (d0, n))
    (ht : Tail pb H W on f d0 ds) : OutF pb H W on f f d0 :=
  ⟨d0, n, ds, hf, ht, by simp [steps]⟩

/-- All the steps after a step of the line of `f` are steps of the line of `f`. -/
theorem OutF.rest {f p : Pt} {d : Dir} {suf : List Dir} (h : OutF pb H W on f p d)
    (hs : Tail pb H W on p d suf) : ∀ st ∈ steps p (d :: suf), OutF pb H W on f st.1 st.2 := by
  obtain ⟨d0, n, ds, hf, ht, hm⟩ := h
  obtain ⟨suf', hs', hsub, _⟩ := mem_steps ht hm
  obtain rfl := tail_det hs hs'
  intro st hst
  exact ⟨d0, n, ds, hf, ht, hsub st hst⟩

/-- The step after a step of the line of `f` is a step of the line of `f`. -/
theorem OutF.next {f p : Pt} {d d' : Dir} {r : List Dir} (h : OutF pb H W on f p d)
    (hs : Tail pb H W on p d (d' :: r)) : OutF pb H W on f (nb p d) d' :=
  h.rest hs (nb p d, d') (by simp [steps])

/-- A step that leaves an empty cell has a step before it, on the same line. -/
theorem OutF.pred {f p : Pt} {d : Dir} (h : OutF pb H W on f p d) (he : firefly pb p = none) :
    ∃ p' prev, OutF pb H W on f p' prev ∧ nb p' prev = p ∧ d ≠ opp prev ∧ armCount H W on p = 2 := by
  obtain ⟨d0, n, ds, hf, ht, hm⟩ := h
  obtain ⟨suf, _, _, _, hcase⟩ := mem_steps ht hm
  rcases hcase with ⟨rfl, _, _⟩ | ⟨_, hc, p', prev, hpm, hnb, hne⟩
  · simp [hf] at he
  · exact ⟨p', prev, ⟨d0, n, ds, hf, ht, hpm⟩, hnb, hne, hc⟩

/-- A step that leaves a firefly cell is the first step of the line of this firefly. -/
theorem OutF.first {f p : Pt} {d dd : Dir} {n : Option Int} (h : OutF pb H W on f p d)
    (hp : firefly pb p = some (dd, n)) : p = f ∧ d = dd := by
  obtain ⟨d0, n0, ds, hf, ht, hm⟩ := h
  obtain ⟨suf, _, _, _, hcase⟩ := mem_steps ht hm
  rcases hcase with ⟨rfl, rfl, _⟩ | ⟨he, _⟩
  · simp [hf] at hp
    exact ⟨rfl, hp.1⟩
  · simp [hp] at he

/-! ### B. exclusivity -/

theorem excl_base {f : Pt} {d0 : Dir} {n : Option Int} (hf : firefly pb f = some (d0, n))
    (hh : has H W f d0 = true) : ¬ Out pb H W on (nb f d0) (opp d0) := by
  rintro ⟨g, hg⟩
  obtain ⟨suf, hs⟩ := hg.tail
  have hfol := hs.2.2
  rw [nb_nb hh] at hfol
  cases suf with
  | nil =>
    obtain ⟨d, n', hf', hne⟩ := hfol
    rw [hf] at hf'
    rw [opp_opp] at hne
    simp at hf'
    exact hne hf'.1.symm
  | cons d' r =>
    have := hfol.1
    simp [hf] at this

theorem excl_step {p' : Pt} {prev d : Dir} {r : List Dir} (ht : Tail pb H W on p' prev (d :: r))
    (hg : ¬ Out pb H W on (nb p' prev) (opp prev)) : ¬ Out pb H W on (nb (nb p' prev) d) (opp d) := by
  rintro ⟨g, hout⟩
  obtain ⟨ht1, hf, hc, hne⟩ := tail_cons ht
  obtain ⟨suf, hs⟩ := hout.tail
  have hfol := hs.2.2
  have hback : nb (nb (nb p' prev) d) (opp d) = nb p' prev := nb_nb ht1.has
  rw [hback] at hfol
  cases suf with
  | nil =>
    obtain ⟨dd, n', hf', _⟩ := hfol
    simp [hf] at hf'
  | cons d'' r'' =>
    obtain ⟨_, _, hne'', harm'', _⟩ := hfol
    rw [opp_opp] at hne''
    have hb : arm H W on (nb p' prev) (opp prev) = true := arm_opp ht.inB ht.arm
    have : d'' = opp prev := arm_third hc ht1.arm harm'' hb (Ne.symm hne'') hne
    subst this
    have := hout.next hs
    rw [hback] at this
    exact hg this.out

theorem excl_all {p : Pt} {d : Dir} {ds : List Dir} (ht : Tail pb H W on p d ds)
    (hg : ¬ Out pb H W on (nb p d) (opp d)) :
    ∀ st ∈ steps p (d :: ds), ¬ Out pb H W on (nb st.1 st.2) (opp st.2) := by
  induction ds generalizing p d with
  | nil =>
    intro st hst
    simp only [steps, List.mem_cons, List.not_mem_nil, or_false] at hst
    subst hst
    exact hg
  | cons d1 r ih =>
    intro st hst
    have hst' : st = (p, d) ∨ st ∈ steps (nb p d) (d1 :: r) := by simpa [steps] using hst
    rcases hst' with rfl | hst'
    · exact hg
    · exact ih (tail_cons ht).1 (excl_step ht hg) st hst'

/-- B. No step is travelled in both directions. -/
theorem excl {p : Pt} {d : Dir} (h : Out pb H W on p d) : ¬ Out pb H W on (nb p d) (opp d) := by
  obtain ⟨f, d0, n, ds, hf, ht, hm⟩ := h
  exact excl_all ht (excl_base hf ht.has) (p, d) hm

/-! ### the cells -/

/-- At a firefly cell only the dot side is left by a line. -/
theorem out_fly {p : Pt} {d dd : Dir} {n : Option Int} (h : Out pb H W on p d)
    (hp : firefly pb p = some (dd, n)) : d = dd := by
  obtain ⟨f, hf⟩ := h
  exact (hf.first hp).2

/-- A line that leaves an empty cell has entered it. -/
theorem out_in {f p : Pt} {d : Dir} (h : OutF pb H W on f p d) (he : firefly pb p = none) :
    ∃ a, has H W p a = true ∧ a ≠ d ∧ OutF pb H W on f (nb p a) (opp a) ∧ armCount H W on p = 2 := by
  obtain ⟨p', prev, hp', hnb, hne, hc⟩ := h.pred he
  have hh := hp'.out.has
  refine ⟨opp prev, ?_, Ne.symm hne, ?_, hc⟩
  · rw [← hnb]; exact has_opp hp'.out.inB hh
  · rw [← hnb, nb_nb hh, opp_opp]; exact hp'

/-- A line that enters an empty cell leaves it. -/
theorem in_out {f p : Pt} {a : Dir} (hh : has H W p a = true) (h : OutF pb H W on f (nb p a) (opp a))
    (he : firefly pb p = none) :
    ∃ d r, d ≠ a ∧ OutF pb H W on f p d ∧ armCount H W on p = 2 ∧
      Tail pb H W on (nb p a) (opp a) (d :: r) ∧ Tail pb H W on p d r := by
  obtain ⟨suf, hs⟩ := h.tail
  have hfol := hs.2.2
  rw [nb_nb hh] at hfol
  cases suf with
  | nil =>
    obtain ⟨dd, n', hf', _⟩ := hfol
    simp [he] at hf'
  | cons d r =>
    have hn := h.next hs
    have ht := (tail_cons hs).1
    rw [nb_nb hh] at hn ht
    obtain ⟨_, hc, hne, _, _⟩ := hfol
    rw [opp_opp] at hne
    exact ⟨d, r, hne, hn, hc, hs, ht⟩

/-- A line that enters a firefly cell ends there. -/
theorem in_fly {p : Pt} {a dd : Dir} {n : Option Int} {suf : List Dir} (hh : has H W p a = true)
    (hs : Tail pb H W on (nb p a) (opp a) suf) (hp : firefly pb p = some (dd, n)) : suf = [] := by
  have hfol := hs.2.2
  rw [nb_nb hh] at hfol
  cases suf with
  | nil => rfl
  | cons d r =>
    have := hfol.1
    simp [hp] at this

theorem in_arm {p : Pt} {a : Dir} (hh : has H W p a = true) (h : Out pb H W on (nb p a) (opp a)) :
    arm H W on p a = true := by
  have := arm_opp h.inB h.arm
  rwa [nb_nb hh, opp_opp] at this

/-- An empty cell is left by at most one line step. -/
theorem out_unique_empty {p : Pt} {d d' : Dir} (h : Out pb H W on p d) (h' : Out pb H W on p d')
    (he : firefly pb p = none) : d = d' := by
  by_contra hne
  obtain ⟨f, hf⟩ := h
  obtain ⟨a, hh, had, hin, hc⟩ := out_in hf he
  have : d' = a := arm_third hc hf.out.arm h'.arm (in_arm hh hin.out) hne (Ne.symm had)
  subst this
  exact excl h' hin.out

/-- Every cell is left by at most one line step. -/
theorem out_unique {p : Pt} {d d' : Dir} (h : Out pb H W on p d) (h' : Out pb H W on p d') : d = d' := by
  cases hf : firefly pb p with
  | none => exact out_unique_empty h h' hf
  | some v =>
    obtain ⟨dd, n⟩ := v
    rw [out_fly h hf, out_fly h' hf]

/-- An empty cell is entered by at most one line step. -/
theorem in_unique {p : Pt} {a a' : Dir} (hh : has H W p a = true) (hh' : has H W p a' = true)
    (h : Out pb H W on (nb p a) (opp a)) (h' : Out pb H W on (nb p a') (opp a'))
    (he : firefly pb p = none) : a = a' := by
  by_contra hne
  obtain ⟨f, hf⟩ := h
  obtain ⟨d, r, hda, hout, hc, _, _⟩ := in_out hh hf he
  have : a' = d := arm_third hc (in_arm hh hf.out) (in_arm hh' h') hout.out.arm hne (Ne.symm hda)
  subst this
  exact excl hout.out h'

end

end Cspuz.Proofs.C11FireflyCompleteA
