/-
  C12 — the general operator dispatch specialises, on scalar integer operands, to `cmpPy` of
  Model/Graph.lean (the model of `a < b` etc. used by the graph generators), and on Boolean operands to
  `andPy` / `iffPy`.
-/
import CspuzModel.Proofs.C12Disp
namespace Cspuz.Proofs.C12Scalar
set_option linter.unusedSimpArgs false
set_option linter.unusedVariables false
open Cspuz Cspuz.Spec Cspuz.Proofs Cspuz.Proofs.C12Disp

def cmpOf : BinOp → Option Op
  | .eq => some .eq | .ne => some .ne | .lt => some .lt | .le => some .le | .gt => some .gt | .ge => some .ge
  | _ => none

theorem intOp_cls {op : Op} (args : List Expr) (h : op.isIntOp = true) :
    (PyV.scalar (.node op args)).cls = .intExpr := by
  cases op <;> simp [Op.isIntOp] at h <;> rfl

theorem binop_cmp_scalar (o : BinOp) (op : Op) (ho : cmpOf o = some op) (a b : Expr)
    (ha : a.isIntLike = true) (hb : b.isIntLike = true) :
    binop o (.scalar a) (.scalar b) = (cmpPy op a b).map PyV.scalar := by
  cases a with
  | bvar _ | litB _ | litNone => simp [Expr.isIntLike] at ha
  | ivar x =>
    have hx : (PyV.scalar (.ivar x)).cls = .intVar := rfl
    cases b with
    | bvar _ | litB _ | litNone => simp [Expr.isIntLike] at hb
    | ivar y =>
      cases o <;> simp [cmpOf] at ho <;> subst ho <;> rfl
    | litI y =>
      cases o <;> simp [cmpOf] at ho <;> subst ho <;> rfl
    | node opb argsb =>
      have hb' : opb.isIntOp = true := hb
      have hc := intOp_cls argsb hb'
      cases o <;> simp [cmpOf] at ho <;> subst ho <;>
        simp [binop, BinOp.isCmp, hc, hx, Cls.properSubclass, tryMeth, Cls.defines, Cls.arrKind?, Cls.exprKind?,
          unarySpec, binarySpec, BinOp.meth, BinOp.rmeth, callMethod, exprMethod, makeExprV, allScalars, swapIf,
          Op.isBoolOp, makeBoolExpr, Op.isCmp, Expr.isIntLike, hb', cmpPy, Expr.isIntExpr, Except.map]
  | litI x =>
    have hx : (PyV.scalar (.litI x)).cls = .pyInt := rfl
    cases b with
    | bvar _ | litB _ | litNone => simp [Expr.isIntLike] at hb
    | litI y =>
      cases o <;> simp [cmpOf] at ho <;> subst ho <;> rfl
    | ivar y =>
      cases o <;> simp [cmpOf] at ho <;> subst ho <;> rfl
    | node opb argsb =>
      have hb' : opb.isIntOp = true := hb
      have hc := intOp_cls argsb hb'
      cases o <;> simp [cmpOf] at ho <;> subst ho <;>
        simp [binop, BinOp.isCmp, hc, hx, Cls.properSubclass, tryMeth, Cls.defines, Cls.arrKind?, Cls.exprKind?,
          Cls.isBuiltinNum, unarySpec, binarySpec, BinOp.meth, BinOp.rmeth, callMethod, exprMethod, builtinMethod,
          litVal?, makeExprV, allScalars, swapIf,
          Op.isBoolOp, makeBoolExpr, Op.isCmp, Expr.isIntLike, hb', cmpPy, Expr.isIntExpr, Except.map, Op.mirror]
  | node opa argsa =>
    have ha' : opa.isIntOp = true := ha
    have hca := intOp_cls argsa ha'
    cases b with
    | bvar _ | litB _ | litNone => simp [Expr.isIntLike] at hb
    | litI y =>
      have hy : (PyV.scalar (.litI y)).cls = .pyInt := rfl
      cases o <;> simp [cmpOf] at ho <;> subst ho <;>
        simp [binop, BinOp.isCmp, hca, hy, Cls.properSubclass, tryMeth, Cls.defines, Cls.arrKind?, Cls.exprKind?,
          unarySpec, binarySpec, BinOp.meth, BinOp.rmeth, callMethod, exprMethod, makeExprV, allScalars, swapIf,
          Op.isBoolOp, makeBoolExpr, Op.isCmp, Expr.isIntLike, ha', cmpPy, Expr.isIntExpr, Except.map]
    | ivar y =>
      have hy : (PyV.scalar (.ivar y)).cls = .intVar := rfl
      cases o <;> simp [cmpOf] at ho <;> subst ho <;>
        simp [binop, BinOp.isCmp, hca, hy, Cls.properSubclass, tryMeth, Cls.defines, Cls.arrKind?, Cls.exprKind?,
          unarySpec, binarySpec, BinOp.meth, BinOp.rmeth, callMethod, exprMethod, makeExprV, allScalars, swapIf,
          Op.isBoolOp, makeBoolExpr, Op.isCmp, Expr.isIntLike, ha', cmpPy, Expr.isIntExpr, Except.map, Op.mirror]
    | node opb argsb =>
      have hb' : opb.isIntOp = true := hb
      have hcb := intOp_cls argsb hb'
      cases o <;> simp [cmpOf] at ho <;> subst ho <;>
        simp [binop, BinOp.isCmp, hca, hcb, Cls.properSubclass, tryMeth, Cls.defines, Cls.arrKind?, Cls.exprKind?,
          unarySpec, binarySpec, BinOp.meth, BinOp.rmeth, callMethod, exprMethod, makeExprV, allScalars, swapIf,
          Op.isBoolOp, makeBoolExpr, Op.isCmp, Expr.isIntLike, ha', hb', cmpPy, Expr.isIntExpr, Except.map]

end Cspuz.Proofs.C12Scalar
