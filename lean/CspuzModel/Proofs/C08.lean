import CspuzModel.Proofs.C08Adj
import CspuzModel.Proofs.C08Seg
import CspuzModel.Proofs.C08DiagL1
import CspuzModel.Proofs.C08DiagL2
import CspuzModel.Proofs.C08DiagL3
/-! Assembly of the C08 theorems from the layers (statements: Properties/C08.lean). -/
namespace Cspuz.Proofs.C08
open Cspuz Cspuz.Spec Cspuz.Proofs

theorem not_adjacent_graph :
    ∀ (g : Graph) (ia : List Expr) (base : Nat) (p : Prog) (σ : Asg),
      g.wf = true → ia.length = g.n → BoolArgs base ia →
      notAdjacentGraph g ia = .ok p →
      (p.decls = [] ∧ (Realizable base p σ ↔ NoAdjacentActive g (truthAt σ ia))) := by
  intro g ia base p σ hwf hlen hia hp
  have := C08Adj.notAdjacentGraph_plain σ hwf hlen hia hp
  exact ⟨this.decls, this.realizable⟩

theorem not_adjacent_grid :
    ∀ (h w : Nat) (a : List Expr) (base : Nat) (p : Prog) (σ : Asg),
      a.length = h * w → BoolArgs base a →
      notAdjacentGrid h w a = .ok p →
      (p.decls = [] ∧ (Realizable base p σ ↔ NoAdjacentActive (Graph.grid h w) (truthAt σ a))) := by
  intro h w a base p σ hlen ha hp
  have := C08Adj.notAdjacentGrid_plain σ hlen ha hp
  exact ⟨this.decls, this.realizable⟩

theorem segmenting_graph :
    ∀ (g : Graph) (ia : List Expr) (base : Nat) (prim : Bool) (p : Prog) (σ : Asg),
      g.wf = true → ia.length = g.n → BoolArgs base ia →
      notSegmentingGraph g ia base prim = .ok p →
      (Realizable base p σ ↔ NotSegmenting g (truthAt σ ia)) :=
  C08Seg.segmenting_graph

theorem grid_line :
    ∀ (h w : Nat) (a : List Expr) (base : Nat) (prim : Bool) (p : Prog) (σ : Asg),
      (h = 1 ∨ w = 1) → a.length = h * w → BoolArgs base a →
      notSegmentingGrid h w a base prim = .ok p →
      (Realizable base p σ ↔ NotSegmenting (Graph.grid h w) (truthAt σ a)) :=
  C08Seg.grid_line

theorem grid_diag_sound :
    ∀ (h w : Nat) (a : List Expr) (base : Nat) (p : Prog) (σ : Asg),
      2 ≤ h → 2 ≤ w → a.length = h * w → BoolArgs base a →
      notSegmentingGridDiag h w a base = .ok p →
      (Realizable base p σ ↔
        (NoAdjacentActive (Graph.grid h w) (truthAt σ a) ∧ Nonempty (DiagCert h w (truthAt σ a)))) ∧
      (Nonempty (DiagCert h w (truthAt σ a)) → DiagForest h w (truthAt σ a)) := by
  intro h w a base p σ hh hw hlen ha hp
  have hpos : 0 < h * w := Nat.mul_pos (by omega) (by omega)
  rw [C08DiagL1.diag_eq_prog hpos hlen] at hp
  obtain ⟨p1, hp1, hp⟩ := bind_eq_ok.1 hp
  cases hp
  refine ⟨?_, fun ⟨c⟩ => C08DiagL2.diag_forest c⟩
  rw [(C08Adj.notAdjacentGrid_plain σ hlen ha hp1).append,
    C08DiagL1.diag_realizable_iff_cert σ hlen ha]

theorem grid_diag_complete :
    ∀ (h w : Nat) (act : Nat → Bool), 2 ≤ h → 2 ≤ w →
      NoAdjacentActive (Graph.grid h w) act → DiagForest h w act → Nonempty (DiagCert h w act) :=
  fun _ _ _ hh hw hNA hF => C08DiagL3.diag_complete hh hw hNA hF

/-- Corollary of `grid_diag_sound` and `grid_diag_complete` (not registered in Properties/C08.lean):
for `h, w ≥ 2` the diagonal program accepts exactly the non-adjacent patterns whose diagonal graph is
a forest. What remains for `statement_grid` is the planar lemma `statement_planar` only. -/
theorem grid_diag_exact (h w : Nat) (a : List Expr) (base : Nat) (p : Prog) (σ : Asg)
    (hh : 2 ≤ h) (hw : 2 ≤ w) (hlen : a.length = h * w) (ha : BoolArgs base a)
    (hp : notSegmentingGridDiag h w a base = .ok p) :
    Realizable base p σ ↔
      (NoAdjacentActive (Graph.grid h w) (truthAt σ a) ∧ DiagForest h w (truthAt σ a)) := by
  obtain ⟨h1, h2⟩ := grid_diag_sound h w a base p σ hh hw hlen ha hp
  rw [h1]
  exact ⟨fun ⟨hna, hc⟩ => ⟨hna, h2 hc⟩,
    fun ⟨hna, hf⟩ => ⟨hna, grid_diag_complete h w _ hh hw hna hf⟩⟩

end Cspuz.Proofs.C08
