/-
  C11 / building (Skyscrapers), part B — the closed form of the posted program, read on the grid, says
  exactly what the rules say; the final theorems.
-/
import CspuzModel.Proofs.C11BuildingA
import Mathlib.Data.List.Nodup
namespace Cspuz.Proofs.C11Building
open Cspuz Cspuz.Spec Cspuz.Puzzles Cspuz.Puzzles.Building Cspuz.Spec.Building Cspuz.Proofs
open Cspuz.Proofs.C11BuildingA

/-! ### `alldifferent` -/

theorem allDistinct_iff_nodup (l : List Int) : allDistinct l = true ↔ l.Nodup := by
  induction l with
  | nil => simp [allDistinct]
  | cons x r ih => simp [allDistinct, List.nodup_cons, ih]

theorem eval_alldiff (σ : Asg) (ks : List Nat) :
    eval σ (.node .alldiff (ks.map Expr.ivar)) = some (.b (allDistinct (ks.map σ.i))) := by
  rw [eval_node]
  have : (ks.map Expr.ivar).map (eval σ) = (ks.map σ.i).map fun n => some (.i n) := by
    simp [List.map_map, Function.comp_def]
  rw [this]
  simp only [evalOp, allInts_map_some]

theorem nodup_map_range (n : Nat) (f : Nat → Int) :
    ((List.range n).map f).Nodup ↔ ∀ x, x < n → ∀ x', x' < n → x ≠ x' → f x ≠ f x' := by
  rw [List.nodup_map_iff_inj_on List.nodup_range]
  simp only [List.mem_range]
  constructor
  · intro h x hx x' hx' hne he; exact hne (h x hx x' hx' he)
  · intro h x hx x' hx' he
    by_contra hne
    exact h x hx x' hx' hne he

/-! ### visibility -/

/-- Position `i` of the line `l` is visible from the front. -/
def visB (l : List Int) (i : Nat) : Bool := decide (∀ j, j < i → l.getD j 0 < l.getD i 0)

theorem visible_eq (l : List Int) (hl : 1 ≤ l.length) :
    visible l = 1 + (List.range' 1 (l.length - 1)).countP (visB l) := by
  obtain ⟨m, hm⟩ : ∃ m, l.length = m + 1 := ⟨l.length - 1, by omega⟩
  unfold visible
  rw [List.range_eq_range', hm, List.range'_succ, List.countP_cons]
  simp only [Nat.not_lt_zero, false_imp_iff, implies_true, decide_true, if_true, Nat.add_sub_cancel,
    Nat.zero_add]
  rw [Nat.add_comm]
  rfl

theorem getD_map_i (σ : Asg) (ks : List Nat) (j : Nat) (hj : j < ks.length) :
    (ks.map σ.i).getD j 0 = σ.i (ks.getD j 0) := by
  simp [List.getD_eq_getElem?_getD, hj]

theorem eval_conds (σ : Asg) (ks : List Nat) (i : Nat) (hi : i < ks.length) :
    eval σ (.node .and (condsE ks i)) = some (.b (visB (ks.map σ.i) i)) := by
  rw [eval_node]
  have : (condsE ks i).map (eval σ)
      = ((List.range i).map fun j => decide (σ.i (ks.getD j 0) < σ.i (ks.getD i 0))).map
          (fun b => some (.b b)) := by
    simp only [condsE, List.map_map]
    apply List.map_congr_left
    intro j _
    simp only [Function.comp]
    rw [eval_cmp (op := .lt) rfl (eval_ivar σ _) (eval_ivar σ _), cmpOp_lt]
  rw [this, evalOp_and]
  congr 2
  rw [Bool.eq_iff_iff]
  simp only [visB, List.all_eq_true, List.mem_map, List.mem_range, id, decide_eq_true_eq]
  constructor
  · intro h j hj
    rw [getD_map_i σ ks j (by omega), getD_map_i σ ks i hi]
    simpa using h _ ⟨j, hj, rfl⟩
  · rintro h b ⟨j, hj, rfl⟩
    have := h j hj
    rw [getD_map_i σ ks j (by omega), getD_map_i σ ks i hi] at this
    simpa using this

theorem eval_termE (σ : Asg) (ks : List Nat) (i : Nat) (hi : i < ks.length) :
    eval σ (termE ks i) = some (.i (if visB (ks.map σ.i) i then 1 else 0)) :=
  eval_ite (eval_conds σ ks i hi) (eval_litI σ 1) (eval_litI σ 0)

theorem eval_add2 {σ : Asg} {a b : Expr} {x y : Int} (ha : eval σ a = some (.i x)) (hb : eval σ b = some (.i y)) :
    eval σ (.node .add [a, b]) = some (.i (x + y)) := by
  simp [ha, hb, evalOp, allInts]

theorem eval_sumFrom (σ : Asg) (ks : List Nat) : ∀ (is : List Nat), (∀ i ∈ is, i < ks.length) →
    ∀ (init : Expr) (v : Int), eval σ init = some (.i v) →
      eval σ (sumFrom ks is init) = some (.i (v + (is.countP (visB (ks.map σ.i)) : Nat))) := by
  intro is
  induction is with
  | nil => intro _ init v h; simpa [sumFrom] using h
  | cons i r ih =>
    intro his init v h
    have hi := his i List.mem_cons_self
    have := ih (fun x hx => his x (List.mem_cons_of_mem _ hx)) (.node .add [init, termE ks i]) _
      (eval_add2 h (eval_termE σ ks i hi))
    show eval σ (sumFrom ks r (.node .add [init, termE ks i])) = _
    rw [this, List.countP_cons]
    congr 2
    split
    · simp; omega
    · simp

theorem eval_nvE (σ : Asg) (ks : List Nat) (hk : 1 ≤ ks.length) :
    eval σ (nvE ks) = some (.i (visible (ks.map σ.i) : Nat)) := by
  unfold nvE
  rw [eval_sumFrom σ ks _ (by intro i hi; rw [List.mem_range'_1] at hi; omega) _ 1 (eval_litI σ 1),
    visible_eq _ (by simpa using hk)]
  simp

/-! ### well-typedness -/

theorem wtBs_conds (f : Nat → Nat) (b : Nat) : ∀ L : List Nat,
    wtBs (L.map fun j => Expr.node .lt [.ivar (f j), .ivar b]) = true
  | [] => rfl
  | j :: L => by simp [wtBs, wtB, wtIs, wtI, wtBs_conds f b L]

theorem wtI_termE (ks : List Nat) (i : Nat) : wtI (termE ks i) = true := by
  simp [termE, wtI, wtB, condsE, wtBs_conds]

theorem wtI_sumFrom (ks : List Nat) : ∀ (is : List Nat) (init : Expr), wtI init = true →
    wtI (sumFrom ks is init) = true
  | [], init, h => h
  | i :: r, init, h => by
    show wtI (sumFrom ks r (.node .add [init, termE ks i])) = true
    exact wtI_sumFrom ks r _ (by simp [wtI, wtIs, h, wtI_termE])

theorem wtB_eqE (c : Int) (ks : List Nat) : wtB (eqE c ks) = true := by
  unfold eqE
  split
  · rfl
  · simp [wtB, wtIs, wtI, nvE, wtI_sumFrom ks _ (.litI 1) rfl]

theorem wtIs_ivars : ∀ ks : List Nat, wtIs (ks.map Expr.ivar) = true
  | [] => rfl
  | k :: ks => by simp [wtIs, wtI, wtIs_ivars ks]

/-! ### one clue slot -/

theorem eval_eqE (σ : Asg) (c : Int) (ks : List Nat) (hk : 1 ≤ ks.length) :
    eval σ (eqE c ks) = some (.b (decide ((visible (ks.map σ.i) : Int) = c))) := by
  unfold eqE
  split
  · next h1 =>
    have hv : visible (ks.map σ.i) = 1 := by
      rw [visible_eq _ (by simpa using hk)]
      have : (ks.map σ.i).length - 1 = 0 := by simp; omega
      rw [this]; rfl
    rw [hv, eval_litB, cmpOp_eq]
    congr 2
  · rw [eval_cmp (op := .eq) rfl (eval_nvE σ ks hk) (eval_litI σ c), cmpOp_eq]
    congr 2

theorem clueE_sat (σ : Asg) (clue : List Int) (i : Nat) (ks : List Nat) (hk : 1 ≤ ks.length) :
    (∀ e ∈ clueE clue i ks, eval σ e = some (.b true)) ↔ ClueOk (clue.getD i 0) (ks.map σ.i) := by
  unfold clueE ClueOk
  split
  · next h =>
    simp only [List.mem_singleton, forall_eq, eval_eqE σ _ ks hk]
    simp only [Option.some.injEq, Val.b.injEq, decide_eq_true_eq]
    constructor
    · intro h' _; exact h'
    · intro h'; exact h' h
  · next h =>
    simp only [List.not_mem_nil, false_imp_iff, implies_true, true_iff]
    intro h'; exact absurd h' h

/-! ### the whole program on the grid -/

theorem forall_mem_flatten_map {α β : Type} (L : List α) (f : α → List β) (P : β → Prop) :
    (∀ c ∈ (L.map f).flatten, P c) ↔ ∀ i ∈ L, ∀ c ∈ f i, P c := by
  simp only [List.mem_flatten, List.mem_map]
  constructor
  · intro h i hi c hc; exact h c ⟨f i, ⟨i, hi, rfl⟩, hc⟩
  · rintro h c ⟨_, ⟨i, hi, rfl⟩, hc⟩; exact h i hi c hc

theorem rowK_vals (pb : Problem) (σ : Asg) (g : Nat → Nat → Int)
    (hag : ∀ y, y < pb.n → ∀ x, x < pb.n → g y x = σ.i (y * pb.n + x)) (i : Nat) (hi : i < pb.n) :
    (rowK pb.n i).map σ.i = row pb g i := by
  simp only [rowK, row, List.map_map]
  apply List.map_congr_left
  intro x hx
  exact (hag i hi x (List.mem_range.mp hx)).symm

theorem colK_vals (pb : Problem) (σ : Asg) (g : Nat → Nat → Int)
    (hag : ∀ y, y < pb.n → ∀ x, x < pb.n → g y x = σ.i (y * pb.n + x)) (i : Nat) (hi : i < pb.n) :
    (colK pb.n i).map σ.i = col pb g i := by
  simp only [colK, col, List.map_map]
  apply List.map_congr_left
  intro y hy
  exact (hag y (List.mem_range.mp hy) i hi).symm

theorem lat_iff (pb : Problem) (σ : Asg) (g : Nat → Nat → Int)
    (hag : ∀ y, y < pb.n → ∀ x, x < pb.n → g y x = σ.i (y * pb.n + x)) :
    (∀ c ∈ (latC pb.n).flatten, eval σ c = some (.b true)) ↔
      (∀ y, y < pb.n → ∀ x, x < pb.n → ∀ x', x' < pb.n → x ≠ x' → g y x ≠ g y x') ∧
      (∀ x, x < pb.n → ∀ y, y < pb.n → ∀ y', y' < pb.n → y ≠ y' → g y x ≠ g y' x) := by
  unfold latC
  rw [forall_mem_flatten_map]
  simp only [List.mem_range, List.mem_cons, List.not_mem_nil, or_false, forall_eq_or_imp, forall_eq,
    eval_alldiff, Option.some.injEq, Val.b.injEq, allDistinct_iff_nodup]
  constructor
  · intro h
    refine ⟨fun y hy => ?_, fun x hx => ?_⟩
    · have := (h y hy).1
      rw [rowK_vals pb σ g hag y hy] at this
      exact (nodup_map_range pb.n (fun x => g y x)).1 this
    · have := (h x hx).2
      rw [colK_vals pb σ g hag x hx] at this
      exact (nodup_map_range pb.n (fun y => g y x)).1 this
  · rintro ⟨hr, hc⟩ i hi
    rw [rowK_vals pb σ g hag i hi, colK_vals pb σ g hag i hi]
    exact ⟨(nodup_map_range pb.n (fun x => g i x)).2 (hr i hi),
      (nodup_map_range pb.n (fun y => g y i)).2 (hc i hi)⟩

theorem clues_iff (pb : Problem) (hn : 1 ≤ pb.n) (σ : Asg) (g : Nat → Nat → Int)
    (hag : ∀ y, y < pb.n → ∀ x, x < pb.n → g y x = σ.i (y * pb.n + x)) :
    (∀ c ∈ (cluesC pb).flatten, eval σ c = some (.b true)) ↔
      (∀ i, i < pb.n →
        ClueOk (pb.up.getD i 0) (col pb g i) ∧ ClueOk (pb.dw.getD i 0) (col pb g i).reverse ∧
        ClueOk (pb.lf.getD i 0) (row pb g i) ∧ ClueOk (pb.rg.getD i 0) (row pb g i).reverse) := by
  unfold cluesC
  rw [forall_mem_flatten_map]
  have hlc : ∀ i, (colK pb.n i).length = pb.n := by intro i; simp [colK]
  have hlr : ∀ i, (rowK pb.n i).length = pb.n := by intro i; simp [rowK]
  apply forall_congr'
  intro i
  simp only [List.mem_range]
  apply imp_congr_right
  intro hi
  simp only [List.mem_append, or_imp, forall_and]
  rw [clueE_sat σ pb.up i _ (by rw [hlc]; exact hn), clueE_sat σ pb.dw i _ (by rw [List.length_reverse, hlc]; exact hn),
    clueE_sat σ pb.lf i _ (by rw [hlr]; exact hn), clueE_sat σ pb.rg i _ (by rw [List.length_reverse, hlr]; exact hn),
    List.map_reverse, List.map_reverse, rowK_vals pb σ g hag i hi, colK_vals pb σ g hag i hi]
  tauto

theorem closedCs_iff (pb : Problem) (hn : 1 ≤ pb.n) (σ : Asg) (g : Nat → Nat → Int)
    (hag : ∀ y, y < pb.n → ∀ x, x < pb.n → g y x = σ.i (y * pb.n + x)) :
    (((∀ y, y < pb.n → ∀ x, x < pb.n → (1 : Int) ≤ g y x ∧ g y x ≤ (pb.n : Int)) ∧
      ∀ c ∈ closedCs pb, eval σ c = some (.b true)) ↔ RulesGrid pb g) := by
  unfold closedCs RulesGrid
  rw [List.forall_mem_append, lat_iff pb σ g hag, clues_iff pb hn σ g hag]
  constructor
  · rintro ⟨hb, ⟨hr, hc⟩, hcl⟩; exact ⟨hb, hr, hc, hcl⟩
  · rintro ⟨hb, hr, hc, hcl⟩; exact ⟨hb, ⟨hr, hc⟩, hcl⟩

theorem wtB_closedCs (pb : Problem) : ∀ c ∈ closedCs pb, wtB c = true := by
  have h1 : ∀ c ∈ (latC pb.n).flatten, wtB c = true := by
    unfold latC
    rw [forall_mem_flatten_map]
    intro i _ c hc
    simp only [List.mem_cons, List.not_mem_nil, or_false] at hc
    rcases hc with rfl | rfl <;> simp [wtB, wtIs_ivars]
  have h2 : ∀ c ∈ (cluesC pb).flatten, wtB c = true := by
    unfold cluesC
    rw [forall_mem_flatten_map]
    intro i _ c hc
    have hce : ∀ (clue : List Int) (ks : List Nat), ∀ e ∈ clueE clue i ks, wtB e = true := by
      intro clue ks e he
      unfold clueE at he
      split at he
      · rw [List.mem_singleton] at he; subst he; exact wtB_eqE _ _
      · cases he
    simp only [List.mem_append] at hc
    rcases hc with ((hc | hc) | hc) | hc <;> exact hce _ _ _ hc
  intro c hc
  unfold closedCs at hc
  rcases List.mem_append.mp hc with h | h
  · exact h1 c h
  · exact h2 c h

/-! ### the theorems -/

theorem total (pb : Problem) (hwf : WellFormed pb) : ∃ P, program pb = .ok P :=
  ⟨closed pb, program_closed pb hwf⟩

theorem program_iff_rules (pb : Problem) (hwf : WellFormed pb) (P : PuzzleProg) (hP : program pb = .ok P) :
    EncodesRules P (Rules pb) ∧ P.KeysOk ∧ (∀ c ∈ P.cs, wtB c = true) := by
  rw [program_closed pb hwf] at hP
  cases hP
  refine ⟨?_, ?_, wtB_closedCs pb⟩
  · exact Cspuz.Proofs.C11Grid.encodes_int_grid pb.n pb.n 1 (pb.n : Int) (closedCs pb) (RulesGrid pb)
      (fun σ g hag => closedCs_iff pb hwf.1 σ g hag)
  · exact Cspuz.Proofs.C11Grid.keysOk_range (pb.n * pb.n) _ _ (by simp)

end Cspuz.Proofs.C11Building
