/-
  C11 / firefly — the ARITHMETIC CERTIFICATE that the program of `solve_firefly` asks for, stated on the geometry
  of the board (segments, cells, directions) and free of the expression language: an orientation of the drawn
  steps, one ignored step, a rank per cell that decreases along every oriented step but the ignored one, and a
  "turns still to come" counter per step.

  `C11FireflyL1` proves: the posted program has a model extending an answer `on`  ⇔  `Cert … on` is inhabited.
  `C11FireflySound` / `C11FireflyComplete` relate `Cert` to the published rules (`Spec.Firefly.RulesOn`).

  Definitions only (plus trivial unfolding lemmas).
-/
import CspuzModel.Spec.PuzzleRules.Firefly
namespace Cspuz.Proofs.C11FireflyCert
open Cspuz Cspuz.Spec Cspuz.Spec.FrameGeom Cspuz.Spec.Loop
open Cspuz.Spec.Firefly (firefly segOf opp clue)
open Cspuz.Puzzles.Firefly (Problem Clue Num)

/-- The four directions in the order of the module's `adj` table. -/
def dirs : List Dir := [.up, .down, .left, .right]

/-- The cell `p` of the `(H+1) × (W+1)` board has a neighbour in direction `d`. -/
def has (H W : Nat) (p : Pt) : Dir → Bool
  | .up => decide (0 < p.1)
  | .down => decide (p.1 < H)
  | .left => decide (0 < p.2)
  | .right => decide (p.2 < W)

/-- up / down. -/
def isVert : Dir → Bool
  | .up | .down => true
  | _ => false

/-- The step between `p` and its neighbour in direction `d` is oriented TOWARDS `p`.
(`ul s`: the step `s` points to its upper / left end; `dr s`: to its lower / right end.) -/
def inTo (ul dr : Seg → Bool) (p : Pt) : Dir → Bool
  | .up => dr (segOf p .up)
  | .down => ul (segOf p .down)
  | .left => dr (segOf p .left)
  | .right => ul (segOf p .right)

/-- … oriented AWAY from `p`. -/
def outFrom (ul dr : Seg → Bool) (p : Pt) : Dir → Bool
  | .up => ul (segOf p .up)
  | .down => dr (segOf p .down)
  | .left => ul (segOf p .left)
  | .right => dr (segOf p .right)

/-- Number of steps oriented towards `p`. -/
def inCnt (H W : Nat) (ul dr : Seg → Bool) (p : Pt) : Nat :=
  (dirs.filter fun d => has H W p d && inTo ul dr p d).length

/-- Number of steps oriented away from `p`. -/
def outCnt (H W : Nat) (ul dr : Seg → Bool) (p : Pt) : Nat :=
  (dirs.filter fun d => has H W p d && outFrom ul dr p d).length

/-- What the module demands at a firefly cell `p` with the dot on side `d0` and the number `n`. -/
def FlyOk (H W : Nat) (unk : Int) (ul dr : Seg → Bool) (nt : Seg → Int) (p : Pt) (d0 : Dir) (n : Option Int) : Prop :=
  has H W p d0 = true ∧ outFrom ul dr p d0 = true ∧ nt (segOf p d0) = n.getD unk ∧
  ∀ d, d ≠ d0 → has H W p d = true →
    outFrom ul dr p d = false ∧ (inTo ul dr p d = true → nt (segOf p d) = 0 ∨ nt (segOf p d) = unk)

/-- What the module demands at an empty cell `p`. -/
def EmptyOk (H W : Nat) (unk : Int) (ul dr : Seg → Bool) (nt : Seg → Int) (p : Pt) : Prop :=
  inCnt H W ul dr p ≤ 1 ∧ inCnt H W ul dr p = outCnt H W ul dr p ∧
  ∀ d d', d ≠ d' → has H W p d = true → has H W p d' = true → inTo ul dr p d = true → outFrom ul dr p d' = true →
    if isVert d = isVert d' then nt (segOf p d) = nt (segOf p d')
    else (nt (segOf p d) = unk ∧ nt (segOf p d') = unk) ∨ nt (segOf p d) = nt (segOf p d') + 1

/-- The certificate for the drawing `on` on the `(H+1) × (W+1)` board; `unk` is the module's `n_turn_unknown`. -/
structure Cert (pb : Problem) (H W : Nat) (unk : Int) (on : Seg → Bool) where
  ul : Seg → Bool
  dr : Seg → Bool
  ig : Seg → Bool
  rank : Pt → Int
  nt : Seg → Int
  /-- every drawn step has exactly one orientation, an undrawn step none -/
  orient : ∀ s : Seg, s.Valid H W → on s = (ul s || dr s) ∧ (ul s && dr s) = false
  /-- exactly one step of the board is ignored -/
  oneIgnored : ((allSegs H W).filter ig).length = 1
  rankBound : ∀ p : Pt, p.1 ≤ H → p.2 ≤ W → 0 ≤ rank p ∧ rank p ≤ ((H + 1 : Nat) : Int) * ((W + 1 : Nat) : Int) - 1
  ntBound : ∀ s : Seg, s.Valid H W → 0 ≤ nt s ∧ nt s ≤ unk
  /-- the rank decreases along every oriented step that is not ignored -/
  rankUl : ∀ s : Seg, s.Valid H W → ul s = true → ig s = false → rank s.ends.1 < rank s.ends.2
  rankDr : ∀ s : Seg, s.Valid H W → dr s = true → ig s = false → rank s.ends.1 > rank s.ends.2
  flies : ∀ y, y ≤ H → ∀ x, x ≤ W → ∀ d n, firefly pb (y, x) = some (d, n) → FlyOk H W unk ul dr nt (y, x) d n
  empties : ∀ y, y ≤ H → ∀ x, x ≤ W → firefly pb (y, x) = none → EmptyOk H W unk ul dr nt (y, x)

/-- The certificate as a proposition. -/
def HasCert (pb : Problem) (H W : Nat) (unk : Int) (on : Seg → Bool) : Prop := Nonempty (Cert pb H W unk on)

end Cspuz.Proofs.C11FireflyCert
