/-
  Assembly of the GENERAL C10 theorems (statements: Properties/C10.lean, `statement_general`): any
  well-formed frame whose entries are Boolean expressions over the caller's variables, auxiliary
  variables allocated at any `base` above them.
-/
import CspuzModel.Proofs.C10GenL2
import CspuzModel.Proofs.C04
namespace Cspuz.Proofs.C10Gen
open Cspuz Cspuz.Spec Cspuz.Proofs
open Cspuz.Proofs.C10L1 Cspuz.Proofs.C10L2 Cspuz.Proofs.C10Cross Cspuz.Proofs.C10Strand
open Cspuz.Proofs.C10GenL1 Cspuz.Proofs.C10GenL2

/-- Both connectivity routes are exact on the split graph. -/
theorem avc_exact {f : Frame} {base : Nat} (prim : Bool) (avc : Prog) (hwf : FrameWF f)
    (hb : BoolArgs base (f.horizontal.data ++ f.vertical.data))
    (havc : activeVerticesConnected (crossGraph (f.height + 1) (f.width + 1)) (gvG f base)
      (base + 5 * ((f.height + 1) * (f.width + 1))) false prim = .ok avc) (τ : Asg) :
    Realizable (base + 5 * ((f.height + 1) * (f.width + 1))) avc τ ↔
      ActiveConnected (crossGraph (f.height + 1) (f.width + 1)) (truthAt τ (gvG f base)) := by
  cases prim with
  | false =>
    have := C04.aux_exact _ _ _ false avc τ (cross_wf f.height f.width) (by intro h; cases h)
      (gvG_length base hwf) (gvG_boolArgs base hb) havc
    simpa using this
  | true =>
    exact C04Prim.prim_exact _ _ _ avc τ (cross_wf f.height f.width) (gvG_length base hwf)
      (gvG_boolArgs base hb) havc

theorem exact_gen (prim : Bool) :
    ∀ (f : Frame) (base : Nat) (singleCycle : Bool) (p : Prog) (ps cr : List Expr) (σ : Asg),
      FrameWF f →
      BoolArgs base (f.horizontal.data ++ f.vertical.data) →
      connectedCrossable f singleCycle prim base = .ok (p, ps, cr) →
      let H := f.height
      let W := f.width
      let act := segActive f σ
      (Realizable base p σ ↔ CrossableOK H W act singleCycle) ∧
      (∀ σ', AgreeBelow base σ σ' → SatFrag base p σ' →
        ∀ y x, y ≤ H → x ≤ W →
          σ'.b (base + y * (W + 1) + x) = decide (0 < pointDegree H W act y x) ∧
          σ'.b (base + (H + 1) * (W + 1) + y * (W + 1) + x) = decide (pointDegree H W act y x = 4)) ∧
      ps = (List.range ((H + 1) * (W + 1))).map (fun i => Expr.bvar (base + i)) ∧
      cr = (List.range ((H + 1) * (W + 1))).map (fun i => Expr.bvar (base + (H + 1) * (W + 1) + i)) := by
  intro f base sc p ps cr σ hwf hb hp
  obtain ⟨avc, havc, hpe, hps, hcr⟩ := cc_ok hwf hb hp
  subst hpe
  intro H W act
  have hC := avc_exact prim avc hwf hb havc
  have hloc : ∀ σ' : Asg, (∀ c ∈ localCs H W base sc (dEG f), eval σ' c = some (.b true)) ↔
      DegreeRules H W (segActive f σ') sc ∧ Forced H W base (segActive f σ') σ' :=
    fun σ' => local_iff_gen H W base sc (dEG f) _ σ' (fun _ _ hy hx => eval_dEG hwf hb σ' hy hx)
  -- what a satisfying completion looks like
  have ana : ∀ σ', AgreeBelow base σ σ' →
      SatFrag base { decls := List.replicate (5 * ((H + 1) * (W + 1))) .bool ++ avc.decls,
                     cs := localCs H W base sc (dEG f) ++ avc.cs } σ' →
      segActive f σ' = act ∧ DegreeRules H W act sc ∧ Forced H W base act σ' ∧
        SatFrag (base + 5 * ((H + 1) * (W + 1))) avc σ' := by
    intro σ' hag hsat
    have hact : segActive f σ' = act := (segActive_congr hb hag).symm
    obtain ⟨hl, hrest⟩ := (satFrag_split _ _ _ _ _ _).1 hsat
    obtain ⟨hdr, hF⟩ := (hloc σ').1 hl
    rw [hact] at hdr hF
    exact ⟨hact, hdr, hF, hrest⟩
  refine ⟨⟨?_, ?_⟩, ?_, hps, hcr⟩
  · -- satisfiable → specification
    rintro ⟨σ', hag, hsat⟩
    obtain ⟨hact, hdr, hF, hrest⟩ := ana σ' hag hsat
    refine ⟨hdr, ?_⟩
    have hconn := (hC σ').1 ⟨σ', AgreeBelow.refl _ _, hrest⟩
    have hspec := gvG_spec base hwf σ' (by rw [hact]; exact hF)
    rw [hact] at hspec
    exact (connected_iff_oneStrand hdr hspec).1 hconn
  · -- specification → satisfiable
    rintro ⟨hdr, hos⟩
    have hag1 := forcedAsg_agree H W base act σ
    have hact1 : segActive f (forcedAsg H W base act σ) = act := (segActive_congr hb hag1).symm
    have hF1 := forcedAsg_forced H W base act σ
    have hspec := gvG_spec base hwf (forcedAsg H W base act σ) (by rw [hact1]; exact hF1)
    rw [hact1] at hspec
    have hconn := (connected_iff_oneStrand hdr hspec).2 hos
    obtain ⟨σ2, hag2, hsat2⟩ := (hC _).2 hconn
    have hag : AgreeBelow base σ σ2 := agreeBelow_trans hag1 (agreeBelow_mono (by omega) hag2)
    have hact2 : segActive f σ2 = act := (segActive_congr hb hag).symm
    have hF2 := forced_congr H W base act hag2 hF1
    refine ⟨σ2, hag, (satFrag_split _ _ _ _ _ _).2 ⟨?_, hsat2⟩⟩
    apply (hloc σ2).2
    rw [hact2]
    exact ⟨hdr, hF2⟩
  · -- the returned arrays are exact
    intro σ' hag hsat y x hy hx
    obtain ⟨-, -, hF, -⟩ := ana σ' hag hsat
    obtain ⟨f1, f2, -⟩ := hF y x hy hx
    exact ⟨f1, f2⟩

/-- The generator succeeds on every well-formed frame of Boolean expressions over the caller's
variables (all sizes, both modes, both routes, every `base`). -/
theorem total : ∀ (f : Frame) (base : Nat) (singleCycle prim : Bool),
    FrameWF f → BoolArgs base (f.horizontal.data ++ f.vertical.data) →
    ∃ r, connectedCrossable f singleCycle prim base = .ok r := by
  intro f base sc prim hwf hb
  obtain ⟨avc, havc⟩ := C04.dispatch.2 (crossGraph (f.height + 1) (f.width + 1)) (gvG f base)
    (base + 5 * ((f.height + 1) * (f.width + 1))) false prim
    (by
      rw [cross_n]; unfold npts
      have : 0 < (f.height + 1) * (f.width + 1) := Nat.mul_pos (Nat.succ_pos _) (Nat.succ_pos _)
      omega)
    (cross_wf _ _) (gvG_length base hwf) (gvG_boolArgs base hb)
  exact cc_of_avc hwf hb havc

/-! ### frames that satisfy the hypotheses -/

theorem bvars_length (b n : Nat) : (bvars b n).length = n := by simp [bvars]

/-- `BoolGridFrame(solver, H, W)` allocated after `b0` other variables is well formed. -/
theorem fresh_wf (b0 H W : Nat) : FrameWF (Frame.fresh b0 H W) :=
  ⟨rfl, rfl, bvars_length _ _, rfl, rfl, bvars_length _ _⟩

/-- … and its entries are variables below every `base ≥ b0 + numVars`. -/
theorem fresh_boolArgs (b0 H W base : Nat) (hbase : b0 + Frame.numVars H W ≤ base) :
    BoolArgs base ((Frame.fresh b0 H W).horizontal.data ++ (Frame.fresh b0 H W).vertical.data) := by
  intro e he
  unfold Frame.numVars at hbase
  rcases List.mem_append.1 he with he | he
  · obtain ⟨i, hi, rfl⟩ := mem_bvars he
    exact boolArgs_bvar (by omega)
  · obtain ⟨i, hi, rfl⟩ := mem_bvars he
    exact boolArgs_bvar (by omega)

/-- `dual()` of a board's inner frame (the same variables, arrays swapped) is well formed as soon as
the inner frame has the shapes `BoolInnerGridFrame` gives it. -/
theorem innerFresh_dual_wf (b0 H W : Nat) : FrameWF (InnerFrame.fresh b0 (H + 1) (W + 1)).dual :=
  ⟨rfl, rfl, bvars_length _ _, rfl, rfl, bvars_length _ _⟩

/-- Negating every entry keeps the hypotheses. -/
def negFrame (f : Frame) : Frame :=
  { f with horizontal := ⟨f.horizontal.h, f.horizontal.w, f.horizontal.data.map fun e => .node .not [e]⟩,
           vertical := ⟨f.vertical.h, f.vertical.w, f.vertical.data.map fun e => .node .not [e]⟩ }

theorem negFrame_wf {f : Frame} (h : FrameWF f) : FrameWF (negFrame f) := by
  obtain ⟨h1, h2, h3, h4, h5, h6⟩ := h
  exact ⟨h1, h2, by simpa [negFrame] using h3, h4, h5, by simpa [negFrame] using h6⟩

theorem negFrame_boolArgs {f : Frame} {base : Nat}
    (h : BoolArgs base (f.horizontal.data ++ f.vertical.data)) :
    BoolArgs base ((negFrame f).horizontal.data ++ (negFrame f).vertical.data) := by
  intro e he
  simp only [negFrame, ← List.map_append, List.mem_map] at he
  obtain ⟨a, ha, rfl⟩ := he
  obtain ⟨h1, h2⟩ := h a ha
  refine ⟨?_, ?_⟩
  · simp [wtB, wtBs, h1]
  · simp [Expr.varsBelow, Expr.varsBelow.varsBelowList, h2]

end Cspuz.Proofs.C10Gen
