import CspuzModel.Proofs.C04L1
import CspuzModel.Proofs.C04L2
import CspuzModel.Proofs.C04Prim
/-! Assembly of the C04 theorems from the layers (see Properties/C04.lean for the statements). -/
namespace Cspuz.Proofs.C04
open Cspuz Cspuz.Spec
end Cspuz.Proofs.C04
