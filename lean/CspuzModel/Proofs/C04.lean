import CspuzModel.Proofs.C04L1
import CspuzModel.Proofs.C04L2
import CspuzModel.Proofs.C04Prim
/-! Assembly of the C04 theorems from the layers (statements: Properties/C04.lean). -/
namespace Cspuz.Proofs.C04
open Cspuz Cspuz.Spec
open Cspuz.Proofs.C04L1 Cspuz.Proofs.C04L2

theorem aux_exact (g : Graph) (ia : List Expr) (base : Nat) (acyclic : Bool) (p : Prog) (σ : Asg)
    (hwf : g.wf = true) (hlf : acyclic = true → LoopFree g) (hlen : ia.length = g.n)
    (hia : BoolArgs base ia) (hp : activeVerticesConnected g ia base acyclic false = .ok p) :
    (Realizable base p σ ↔
      if acyclic then ActiveTreeOrEmpty g (truthAt σ ia) else ActiveConnected g (truthAt σ ia)) := by
  rw [avc_realizable_iff_cert g ia base acyclic p σ hwf hlen hia hp]
  cases acyclic with
  | false => simpa using avc_cert_iff_connected g (truthAt σ ia) hwf
  | true => simpa using avc_cert_iff_tree g (truthAt σ ia) hwf (hlf rfl)

theorem dispatch :
    (∀ g ia base, activeVerticesConnected g ia base true true = activeVerticesConnected g ia base true false) ∧
    (∀ (g : Graph) (ia : List Expr) (base : Nat) (acyclic prim : Bool),
      0 < g.n → g.wf = true → ia.length = g.n → BoolArgs base ia →
      ∃ p, activeVerticesConnected g ia base acyclic prim = .ok p) :=
  ⟨avc_prim_acyclic, fun g ia base acyclic prim h1 h2 h3 h4 => avc_total g ia base acyclic prim h1 h2 h3 h4⟩

end Cspuz.Proofs.C04

