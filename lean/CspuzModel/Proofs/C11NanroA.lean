/-
  C11 / Nanro, part A — the program posted by `solve_nanro` on a well-formed instance, in closed form.
-/
import CspuzModel.Spec.PuzzleRules.Nanro
import CspuzModel.Proofs.C11Aquarium
import CspuzModel.Proofs.C11FragWT
import CspuzModel.Proofs.C04Prim
namespace Cspuz.Proofs.C11NanroA
open Cspuz Cspuz.Spec Cspuz.Puzzles Cspuz.Puzzles.Nanro Cspuz.Spec.Nanro Cspuz.Proofs
open Cspuz.Proofs.C11Aquarium (Rep tableGet_rep pyIndex_of_getElem? pyIndex_nat rep_replicate rep_congr fill_blocks
  getCell_bvars)

/-! ### regions of a well-formed instance -/

theorem nodup_flatten_unique {α : Type} : ∀ {L : List (List α)}, L.flatten.Nodup → ∀ {i j : Nat} {a : α}
    (hi : i < L.length) (hj : j < L.length), a ∈ L[i] → a ∈ L[j] → i = j
  | [], _, i, _, _, hi, _, _, _ => by simp at hi
  | l :: L, hnd, i, j, a, hi, hj, hai, haj => by
    rw [List.flatten_cons, List.nodup_append] at hnd
    obtain ⟨_, hL, hdis⟩ := hnd
    cases i with
    | zero =>
      cases j with
      | zero => rfl
      | succ j =>
        exfalso
        simp only [List.getElem_cons_zero] at hai
        simp only [List.getElem_cons_succ] at haj
        exact hdis a hai a (List.mem_flatten.2 ⟨_, List.getElem_mem _, haj⟩) rfl
    | succ i =>
      cases j with
      | zero =>
        exfalso
        simp only [List.getElem_cons_zero] at haj
        simp only [List.getElem_cons_succ] at hai
        exact hdis a haj a (List.mem_flatten.2 ⟨_, List.getElem_mem _, hai⟩) rfl
      | succ j =>
        simp only [List.getElem_cons_succ] at hai haj
        have := nodup_flatten_unique hL (by simpa using hi) (by simpa using hj) hai haj
        omega

theorem nodup_of_flatten {α : Type} {L : List (List α)} (h : L.flatten.Nodup) : ∀ l ∈ L, l.Nodup := by
  induction L with
  | nil => simp
  | cons l L ih =>
    rw [List.flatten_cons, List.nodup_append] at h
    intro l' hl'
    rcases List.mem_cons.1 hl' with rfl | hl'
    · exact h.1
    · exact ih h.2.1 l' hl'

variable {pb : Problem}

/-- The region of a cell of the board exists and lists the cell. -/
theorem region_spec (hwf : WellFormed pb) {y x : Nat} (hy : y < pb.height) (hx : x < pb.width) :
    ∃ hj : regionOf pb y x < pb.blocks.length, ((y : Int), (x : Int)) ∈ pb.blocks[regionOf pb y x] := by
  obtain ⟨r, hr, hc⟩ := hwf.2.2.2.2.2.2 y hy x hx
  have hlt : regionOf pb y x < pb.blocks.length := by
    unfold regionOf
    rw [List.findIdx_lt_length]
    exact ⟨r, hr, by simp [inRegion, hc]⟩
  refine ⟨hlt, ?_⟩
  have := List.findIdx_getElem (w := hlt) (p := fun r => inRegion r y x) (xs := pb.blocks)
  simpa [inRegion, regionOf] using this

/-- … and it is the only region that lists the cell. -/
theorem region_unique (hwf : WellFormed pb) {y x : Nat} (hy : y < pb.height) (hx : x < pb.width) {i : Nat}
    (hi : i < pb.blocks.length) (hin : ((y : Int), (x : Int)) ∈ pb.blocks[i]) : i = regionOf pb y x := by
  obtain ⟨hj, hin'⟩ := region_spec hwf hy hx
  exact nodup_flatten_unique hwf.2.2.2.2.2.1 hi hj hin hin'

theorem block_onBoard (hwf : WellFormed pb) {b : List (Int × Int)} (hb : b ∈ pb.blocks) :
    ∀ c ∈ b, 0 ≤ c.1 ∧ c.1 < (pb.height : Int) ∧ 0 ≤ c.2 ∧ c.2 < (pb.width : Int) :=
  hwf.2.2.2.2.1 b hb

/-- A cell `c` listed by the `i`-th region lies in region `i`. -/
theorem regionOf_cell (hwf : WellFormed pb) {i : Nat} (hi : i < pb.blocks.length) {c : Int × Int}
    (hc : c ∈ pb.blocks[i]) : regionOf pb c.1.toNat c.2.toNat = i ∧ c.1.toNat < pb.height ∧ c.2.toNat < pb.width := by
  obtain ⟨h1, h2, h3, h4⟩ := block_onBoard hwf (List.getElem_mem hi) c hc
  have hy : c.1.toNat < pb.height := by omega
  have hx : c.2.toNat < pb.width := by omega
  refine ⟨(region_unique hwf hy hx hi ?_).symm, hy, hx⟩
  rw [Int.toNat_of_nonneg h1, Int.toNat_of_nonneg h3]
  exact hc

/-! ### the `block_id` table -/

theorem fillTable_wf (hwf : WellFormed pb) :
    ∃ bid, Aquarium.fillTable pb.blocks (List.replicate pb.height (List.replicate pb.width (-1))) = .ok bid ∧
      Rep pb.height pb.width bid (fun y x => (regionOf pb y x : Int)) := by
  obtain ⟨t', f', ht', hr', hf'⟩ := fill_blocks (h := pb.height) (w := pb.width) pb.blocks 0 _ _
    (rep_replicate pb.height pb.width (-1)) hwf.2.2.2.2.1
  refine ⟨t', ?_, rep_congr hr' ?_⟩
  · unfold Aquarium.fillTable
    rw [List.range_eq_range']
    exact ht'
  · intro y hy x hx
    obtain ⟨hj, hin⟩ := region_spec hwf hy hx
    have e : pb.blocks.getD (regionOf pb y x) [] = pb.blocks[regionOf pb y x] :=
      (List.getElem_eq_getD (h := hj) []).symm
    have := (hf' y x).1 (regionOf pb y x) hj (by rw [e]; exact hin) (by
      intro j hij hjl hjin
      have e' : pb.blocks.getD j [] = pb.blocks[j] := (List.getElem_eq_getD (h := hjl) []).symm
      rw [e'] at hjin
      have := region_unique hwf hy hx hjl hjin
      omega)
    rw [this]; simp

/-! ### Python-level glue -/

theorem ansAt_nat (pb : Problem) {y x : Nat} (hy : y < pb.height) (hx : x < pb.width) :
    ansAt pb (y : Int) (x : Int) = .ok (ansVar pb y x) := by
  unfold ansAt answer
  rw [pyIndex_of_getElem? _ y ((List.range pb.width).map fun x => ansVar pb y x) (by simp [hy]), ok_bind]
  exact pyIndex_of_getElem? _ x _ (by simp [hx])

theorem ansAt_cell (pb : Problem) {c : Int × Int}
    (hc : 0 ≤ c.1 ∧ c.1 < (pb.height : Int) ∧ 0 ≤ c.2 ∧ c.2 < (pb.width : Int)) :
    ansAt pb c.1 c.2 = .ok (ansVar pb c.1.toNat c.2.toNat) := by
  obtain ⟨h1, h2, h3, h4⟩ := hc
  have := ansAt_nat pb (y := c.1.toNat) (x := c.2.toNat) (by omega) (by omega)
  rwa [Int.toNat_of_nonneg h1, Int.toNat_of_nonneg h3] at this

theorem cmp_ivar_lit (op : Op) (i : Nat) (n : Int) :
    cmpPy op (.ivar i) (.litI n) = .ok (.node op [.ivar i, .litI n]) := rfl

theorem cmp_ivar_ivar (op : Op) (i j : Nat) :
    cmpPy op (.ivar i) (.ivar j) = .ok (.node op [.ivar i, .ivar j]) := rfl

theorem cmp_ivar_node (op op' : Op) (i : Nat) (l : List Expr) (h : op'.isIntOp = true) :
    cmpPy op (.ivar i) (.node op' l) = .ok (.node op [.ivar i, .node op' l]) := by
  simp [cmpPy, Expr.isIntExpr, Expr.isIntLike, h]

theorem orE_node (o1 o2 : Op) (l1 l2 : List Expr) (h1 : o1.isBoolOp = true) (h2 : o2.isBoolOp = true) :
    orE (.node o1 l1) (.node o2 l2) = .ok (.node .or [.node o1 l1, .node o2 l2]) := by
  simp [orE, binB, makeBoolExpr, Op.isCmp, Expr.isBoolLike, h1, h2]

/-! ### the first loop -/

/-- Number of cells of the region of `(y, x)`. -/
def sizeAt (pb : Problem) (y x : Nat) : Nat := (pb.blocks.getD (regionOf pb y x) []).length

/-- `has_num[y, x] == (answer[y][x] != 0)`. -/
def firstE (pb : Problem) (y x : Nat) : Expr :=
  .node .iff [.bvar (y * pb.width + x), .node .ne [ansVar pb y x, .litI 0]]

theorem firstCell_eq (hwf : WellFormed pb) {bid : List (List Int)}
    (hrep : Rep pb.height pb.width bid (fun y x => (regionOf pb y x : Int)))
    {y x : Nat} (hy : y < pb.height) (hx : x < pb.width) :
    firstCell pb bid (y, x) = .ok (.int 0 (sizeAt pb y x), firstE pb y x) := by
  obtain ⟨hj, _⟩ := region_spec hwf hy hx
  unfold firstCell
  simp only
  rw [tableGet_rep hrep hy hx, ok_bind, pyIndex_nat pb.blocks (regionOf pb y x) [] hj, ok_bind]
  unfold ansVar hasNumAt
  rw [cmp_ivar_lit, ok_bind, getCell_bvars _ _ _ _ hy hx, ok_bind]
  rfl

/-! ### the loop over the regions -/

/-- The `IntVar` of a listed cell. -/
def cv (pb : Problem) (c : Int × Int) : Expr := ansVar pb c.1.toNat c.2.toNat

def countE (pb : Problem) (b : List (Int × Int)) : Expr :=
  countTrueE (b.map fun c => .node .ne [cv pb c, .litI 0])

/-- The constraints posted for region `b` whose counter is the variable `n`. -/
def blockE (pb : Problem) (n : Nat) (b : List (Int × Int)) : List Expr :=
  .node .eq [.ivar n, countE pb b] ::
    b.map fun c => .node .or [.node .eq [cv pb c, .litI 0], .node .eq [cv pb c, .ivar n]]

theorem blockCs_eq (pb : Problem) (base i : Nat) {b : List (Int × Int)}
    (hb : ∀ c ∈ b, 0 ≤ c.1 ∧ c.1 < (pb.height : Int) ∧ 0 ≤ c.2 ∧ c.2 < (pb.width : Int)) :
    blockCs pb base (b, i) = .ok (blockE pb (base + i) b) := by
  unfold blockCs
  simp only
  rw [mapM_eq_ok_map (g := fun c => Expr.node .ne [cv pb c, .litI 0]), ok_bind]
  · rw [countTrue_ok_of_boolLike (by
      intro e he; simp only [List.mem_map] at he; obtain ⟨_, _, rfl⟩ := he; rfl), ok_bind]
    obtain ⟨op, args, he, hop⟩ := C11CL.countTrueE_isNode (b.map fun c => Expr.node .ne [cv pb c, .litI 0])
    rw [he, cmp_ivar_node _ _ _ _ hop, ok_bind]
    rw [mapM_eq_ok_map (g := fun c => Expr.node .or [.node .eq [cv pb c, .litI 0], .node .eq [cv pb c, .ivar (base + i)]])]
    · simp only [ok_bind, ensure1, Expr.isBoolLike, Op.isBoolOp, Bool.true_or, if_true, blockE, countE, he]
    · intro c hc
      rw [ansAt_cell pb (hb c hc)]
      simp only [ok_bind, cv, ansVar, cmp_ivar_lit, cmp_ivar_ivar]
      rw [orE_node _ _ _ _ rfl rfl]
      rfl
  · intro c hc
    rw [ansAt_cell pb (hb c hc)]
    rfl

/-! ### the final double loop -/

/-- `answer[y][x] == 0`. -/
def zE (pb : Problem) (y x : Nat) : Expr := .node .eq [ansVar pb y x, .litI 0]

/-- `(a == 0) | (b == 0) | (a != b)`. -/
def differE (pb : Problem) (y x y' x' : Nat) : Expr :=
  .node .or [.node .or [zE pb y x, zE pb y' x'], .node .ne [ansVar pb y x, ansVar pb y' x']]

/-- The 2 × 2 constraint whose top left cell is `(y, x)`. -/
def squareE (pb : Problem) (y x : Nat) : Expr :=
  .node .or [.node .or [.node .or [zE pb y x, zE pb y (x + 1)], zE pb (y + 1) x], zE pb (y + 1) (x + 1)]

def givenE (pb : Problem) (y x : Nat) : List Expr :=
  if 0 < given pb y x then [.node .eq [ansVar pb y x, .litI (given pb y x)]] else []

def sqE (pb : Problem) (y x : Nat) : List Expr :=
  if y + 1 < pb.height ∧ x + 1 < pb.width then [squareE pb y x] else []

def downE (pb : Problem) (y x : Nat) : List Expr :=
  if y + 1 < pb.height ∧ regionOf pb y x ≠ regionOf pb (y + 1) x then [differE pb y x (y + 1) x] else []

def rightE (pb : Problem) (y x : Nat) : List Expr :=
  if x + 1 < pb.width ∧ regionOf pb y x ≠ regionOf pb y (x + 1) then [differE pb y x y (x + 1)] else []

/-- The constraints posted for the cell `(y, x)` by the final double loop. -/
def cellE (pb : Problem) (y x : Nat) : List Expr := givenE pb y x ++ sqE pb y x ++ downE pb y x ++ rightE pb y x

theorem isZero_nat (pb : Problem) {y x : Nat} (hy : y < pb.height) (hx : x < pb.width) :
    isZero pb (y : Int) (x : Int) = .ok (zE pb y x) := by
  unfold isZero
  rw [ansAt_nat pb hy hx]
  rfl

theorem differCs_nat (pb : Problem) {y x y' x' : Nat} (hy : y < pb.height) (hx : x < pb.width)
    (hy' : y' < pb.height) (hx' : x' < pb.width) :
    differCs pb (y : Int) (x : Int) (y' : Int) (x' : Int) = .ok [differE pb y x y' x'] := by
  unfold differCs
  rw [isZero_nat pb hy hx, ok_bind, isZero_nat pb hy' hx', ok_bind]
  unfold zE
  rw [orE_node _ _ _ _ rfl rfl, ok_bind, ansAt_nat pb hy hx, ok_bind, ansAt_nat pb hy' hx', ok_bind]
  unfold ansVar
  rw [cmp_ivar_ivar, ok_bind, orE_node _ _ _ _ rfl rfl]
  rfl

theorem tableGet_num (hwf : WellFormed pb) {y x : Nat} (hy : y < pb.height) (hx : x < pb.width) :
    tableGet pb.num (y : Int) (x : Int) = .ok (given pb y x) := by
  obtain ⟨_, _, hl, hrow, _⟩ := hwf
  unfold tableGet given
  rw [pyIndex_nat pb.num y [] (by omega), ok_bind]
  have hmem : pb.num.getD y [] ∈ pb.num := by
    rw [← List.getElem_eq_getD (h := by omega) []]; exact List.getElem_mem _
  exact pyIndex_nat _ x 0 (by rw [hrow _ hmem]; exact hx)

theorem givenCs_eq (hwf : WellFormed pb) {y x : Nat} (hy : y < pb.height) (hx : x < pb.width) :
    givenCs pb y x = .ok (givenE pb y x) := by
  unfold givenCs givenE
  rw [tableGet_num hwf hy hx, ok_bind]
  by_cases hg : 0 < given pb y x
  · rw [if_pos hg, if_pos hg, ansAt_nat pb hy hx]; rfl
  · rw [if_neg hg, if_neg hg]

theorem squareCs_eq (pb : Problem) {y x : Nat} (hy : y < pb.height) (hx : x < pb.width) :
    squareCs pb y x = .ok (sqE pb y x) := by
  have e1 : ((y : Int) + 1) = ((y + 1 : Nat) : Int) := by push_cast; rfl
  have e2 : ((x : Int) + 1) = ((x + 1 : Nat) : Int) := by push_cast; rfl
  unfold squareCs sqE
  by_cases hc : y + 1 < pb.height ∧ x + 1 < pb.width
  · rw [if_pos (by omega), if_pos hc, e1, e2, isZero_nat pb hy hx, ok_bind, isZero_nat pb hy hc.2, ok_bind]
    rw [isZero_nat pb hc.1 hx, isZero_nat pb hc.1 hc.2]
    unfold zE
    rw [orE_node _ _ _ _ rfl rfl, ok_bind, ok_bind, orE_node _ _ _ _ rfl rfl, ok_bind, ok_bind,
      orE_node _ _ _ _ rfl rfl]
    rfl
  · rw [if_neg (by omega), if_neg hc]

theorem downCs_eq {bid : List (List Int)}
    (hrep : Rep pb.height pb.width bid (fun y x => (regionOf pb y x : Int)))
    {y x : Nat} (hy : y < pb.height) (hx : x < pb.width) :
    downCs pb bid y x = .ok (downE pb y x) := by
  have e1 : ((y : Int) + 1) = ((y + 1 : Nat) : Int) := by push_cast; rfl
  unfold downCs downE
  by_cases hc : y + 1 < pb.height
  · rw [if_pos (by omega), e1, tableGet_rep hrep hy hx, ok_bind, tableGet_rep hrep hc hx, ok_bind]
    by_cases hr : regionOf pb y x = regionOf pb (y + 1) x
    · rw [if_neg (by simp [hr]), if_neg (by simp [hr])]
    · rw [if_pos (by simpa using hr), if_pos ⟨hc, hr⟩, differCs_nat pb hy hx hc hx]
  · rw [if_neg (by omega), if_neg (by tauto)]

theorem rightCs_eq {bid : List (List Int)}
    (hrep : Rep pb.height pb.width bid (fun y x => (regionOf pb y x : Int)))
    {y x : Nat} (hy : y < pb.height) (hx : x < pb.width) :
    rightCs pb bid y x = .ok (rightE pb y x) := by
  have e2 : ((x : Int) + 1) = ((x + 1 : Nat) : Int) := by push_cast; rfl
  unfold rightCs rightE
  by_cases hc : x + 1 < pb.width
  · rw [if_pos (by omega), e2, tableGet_rep hrep hy hx, ok_bind, tableGet_rep hrep hy hc, ok_bind]
    by_cases hr : regionOf pb y x = regionOf pb y (x + 1)
    · rw [if_neg (by simp [hr]), if_neg (by simp [hr])]
    · rw [if_pos (by simpa using hr), if_pos ⟨hc, hr⟩, differCs_nat pb hy hx hy hc]
  · rw [if_neg (by omega), if_neg (by tauto)]

theorem cellCs_eq (hwf : WellFormed pb) {bid : List (List Int)}
    (hrep : Rep pb.height pb.width bid (fun y x => (regionOf pb y x : Int)))
    {y x : Nat} (hy : y < pb.height) (hx : x < pb.width) :
    cellCs pb bid (y, x) = .ok (cellE pb y x) := by
  unfold cellCs
  simp only
  rw [givenCs_eq hwf hy hx, ok_bind, squareCs_eq pb hy hx, ok_bind, downCs_eq hrep hy hx, ok_bind,
    rightCs_eq hrep hy hx, ok_bind]
  rfl

/-! ### the posted program in closed form -/

/-- The connectivity fragment (rank / root encoding over `has_num`). -/
def avc (pb : Problem) : Prog :=
  C04L1.avcProg (Graph.grid pb.height pb.width) (bvars 0 (pb.height * pb.width))
    (pb.height * pb.width + pb.height * pb.width) false

theorem hasNum_boolArgs (pb : Problem) :
    BoolArgs (pb.height * pb.width + pb.height * pb.width) (bvars 0 (pb.height * pb.width)) := by
  intro e he
  obtain ⟨h1, h2⟩ := C11FragWT.bvars_boolArgs _ e he
  exact ⟨h1, C11Frag.varsBelow_mono (by omega) _ h2⟩

theorem grid_pos (hwf : WellFormed pb) : 0 < (Graph.grid pb.height pb.width).n :=
  Nat.mul_pos hwf.1 hwf.2.1

theorem avc_eq (hwf : WellFormed pb) :
    activeVerticesConnected (Graph.grid pb.height pb.width) (bvars 0 (pb.height * pb.width))
      (pb.height * pb.width + pb.height * pb.width) false false = .ok (avc pb) :=
  C04L1.avc_eq_prog (grid_pos hwf) (C04Prim.grid_wf _ _) (by simp [bvars, Graph.grid]) (hasNum_boolArgs pb)

/-- Id of the first region counter. -/
def base2 (pb : Problem) : Nat := pb.height * pb.width + pb.height * pb.width + (avc pb).decls.length

/-- The caller's variables: `has_num`, then the cell numbers. -/
def D0 (pb : Problem) : List VarDecl :=
  List.replicate (pb.height * pb.width) .bool ++
    (cellsOf pb.height pb.width).map fun p => VarDecl.int 0 (sizeAt pb p.1 p.2)

/-- The region-counter fragment. -/
def blocksProg (pb : Problem) : Prog :=
  { decls := pb.blocks.map fun b => VarDecl.int 1 b.length,
    cs := (pb.blocks.zipIdx.map fun bi => blockE pb (base2 pb + bi.2) bi.1).flatten }

def firstCs (pb : Problem) : List Expr := (cellsOf pb.height pb.width).map fun p => firstE pb p.1 p.2

def cellsCs (pb : Problem) : List Expr := ((cellsOf pb.height pb.width).map fun p => cellE pb p.1 p.2).flatten

def keysOf (pb : Problem) : List Nat :=
  (cellsOf pb.height pb.width).map fun p => pb.height * pb.width + (p.1 * pb.width + p.2)

theorem mem_cellsOf {h w : Nat} {p : Nat × Nat} : p ∈ cellsOf h w ↔ p.1 < h ∧ p.2 < w := by
  simp only [cellsOf, List.mem_flatMap, List.mem_range, List.mem_map]
  constructor
  · rintro ⟨y, hy, x, hx, rfl⟩; exact ⟨hy, hx⟩
  · rintro ⟨hy, hx⟩; exact ⟨p.1, hy, p.2, hx, rfl⟩

theorem program_eq (hwf : WellFormed pb) :
    program pb = .ok { decls := D0 pb ++ (avc pb).decls ++ (blocksProg pb).decls,
                       cs := firstCs pb ++ (avc pb).cs ++ (blocksProg pb).cs ++ cellsCs pb,
                       keys := keysOf pb } := by
  obtain ⟨bid, hbid, hrep⟩ := fillTable_wf hwf
  unfold program programWith
  simp only
  rw [hbid, ok_bind]
  rw [mapM_eq_ok_map (g := fun p : Nat × Nat => (VarDecl.int 0 (sizeAt pb p.1 p.2), firstE pb p.1 p.2)), ok_bind]
  · rw [avc_eq hwf, ok_bind]
    rw [mapM_eq_ok_map (g := fun bi : List (Int × Int) × Nat => blockE pb (base2 pb + bi.2) bi.1), ok_bind]
    · rw [mapM_eq_ok_map (g := fun p : Nat × Nat => cellE pb p.1 p.2), ok_bind]
      · simp only [D0, blocksProg, firstCs, cellsCs, keysOf, List.map_map, Function.comp_def]
      · intro p hp
        obtain ⟨h1, h2⟩ := mem_cellsOf.1 hp
        exact cellCs_eq hwf hrep h1 h2
    · intro bi hbi
      exact blockCs_eq pb _ bi.2 (block_onBoard hwf (List.fst_mem_of_mem_zipIdx hbi))
  · intro p hp
    obtain ⟨h1, h2⟩ := mem_cellsOf.1 hp
    exact firstCell_eq hwf hrep h1 h2

end Cspuz.Proofs.C11NanroA
