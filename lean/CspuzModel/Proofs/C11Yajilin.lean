/-
  C11 for `solve_yajilin`: the posted program encodes the published rules.
-/
import CspuzModel.Proofs.C11LoopExt
import CspuzModel.Proofs.C11Geradeweg
import CspuzModel.Spec.PuzzleRules.Yajilin
namespace Cspuz.Proofs.C11Yajilin
open Cspuz Cspuz.Spec Cspuz.Spec.FrameGeom Cspuz.Spec.Loop Cspuz.Proofs Cspuz.Proofs.C11Loop Cspuz.Proofs.C11LoopExt
open Cspuz.Puzzles Cspuz.Puzzles.Loop Cspuz.Puzzles.Yajilin Cspuz.Spec.Yajilin
open Cspuz.Proofs.C11Slitherlink (mem_cellsOf)
open Cspuz.Proofs.C11Geradeweg (slice_row slice_col passed_get')

section Basics
variable (pb : Problem)

local notation "HH" => pb.height - 1
local notation "WW" => pb.width - 1

/-- id of the shaded-cell variable of `(y, x)`. -/
def blackId (y x : Nat) : Nat := B HH WW + (y * pb.width + x)

/-- the data of `black_cell`. -/
def blackData : List Expr := bvars (B HH WW) (pb.height * pb.width)

theorem blackData_eq : blackData pb = (List.range (pb.height * pb.width)).map fun i => Expr.bvar (B HH WW + i) := rfl

theorem clueAt_eq (hw : WellFormed pb) {y x : Nat} (hy : y < pb.height) (hx : x < pb.width) :
    clueAt pb y x = .ok (clue pb y x) := by
  obtain ⟨_, _, hlen, hrows⟩ := hw
  unfold clueAt clue
  have hy' : y < pb.problem.length := by rw [hlen]; exact hy
  have hrow : pb.problem[y]? = some pb.problem[y] := List.getElem?_eq_getElem hy'
  have hl : pb.problem[y].length = pb.width := hrows _ (List.getElem_mem hy')
  have hx' : x < pb.problem[y].length := by rw [hl]; exact hx
  rw [C14.pyIndex_nat _ _ _ hrow, ok_bind, C14.pyIndex_nat _ _ _ (List.getElem?_eq_getElem hx')]
  simp [List.getD, hrow, List.getElem?_eq_getElem hx']

theorem black_get {y x : Nat} (hy : y < pb.height) (hx : x < pb.width) :
    (Arr2.mk pb.height pb.width (blackData pb)).get (y : Int) (x : Int) = .ok (.bvar (blackId pb y x)) := by
  apply C14.Arr2.get_nat _ y x _ hy hx
  simp only [blackData]
  rw [C14.bvars_getElem? _ _ _ (C14.mul_add_lt hy hx)]
  rfl

/-! ### `active_vertices_not_adjacent` -/

/-- closed form of the constraints of `active_vertices_not_adjacent(solver, black_cell)`. -/
def naE : List Expr :=
  ((cellsOf (pb.height - 1) pb.width).map fun yx =>
      Expr.node .not [.node .and [.bvar (blackId pb (yx.1 + 1) yx.2), .bvar (blackId pb yx.1 yx.2)]]) ++
  ((cellsOf pb.height (pb.width - 1)).map fun yx =>
      Expr.node .not [.node .and [.bvar (blackId pb yx.1 (yx.2 + 1)), .bvar (blackId pb yx.1 yx.2)]])

theorem getE_black {y x : Nat} (hy : y < pb.height) (hx : x < pb.width) :
    getE (blackData pb) (y * pb.width + x) = .ok (.bvar (blackId pb y x)) := by
  unfold getE
  rw [blackData, C14.bvars_getElem? _ _ _ (C14.mul_add_lt hy hx)]
  rfl

theorem notAdjacent_eq : notAdjacentGrid pb.height pb.width (blackData pb) = .ok { cs := naE pb } := by
  unfold notAdjacentGrid
  have e1 : ((List.range (pb.height - 1)).flatMap fun y => (List.range pb.width).map fun x => (y, x))
      = cellsOf (pb.height - 1) pb.width := rfl
  have e2 : ((List.range pb.height).flatMap fun y => (List.range (pb.width - 1)).map fun x => (y, x))
      = cellsOf pb.height (pb.width - 1) := rfl
  simp only [e1, e2]
  rw [mapM_eq_ok_map (g := fun yx : Nat × Nat =>
      Expr.node .not [.node .and [.bvar (blackId pb (yx.1 + 1) yx.2), .bvar (blackId pb yx.1 yx.2)]])]
  · rw [ok_bind]
    rw [mapM_eq_ok_map (g := fun yx : Nat × Nat =>
        Expr.node .not [.node .and [.bvar (blackId pb yx.1 (yx.2 + 1)), .bvar (blackId pb yx.1 yx.2)]])]
    · rfl
    · intro p hp
      obtain ⟨hy, hx⟩ := mem_cellsOf.mp hp
      rw [getE_black pb hy (by omega : p.2 + 1 < pb.width), ok_bind, getE_black pb hy (by omega), ok_bind]
  · intro p hp
    obtain ⟨hy, hx⟩ := mem_cellsOf.mp hp
    rw [getE_black pb (by omega : p.1 + 1 < pb.height) hx, ok_bind, getE_black pb (by omega) hx, ok_bind]

end Basics

section Cells
variable (pb : Problem)

local notation "HH" => pb.height - 1
local notation "WW" => pb.width - 1

/-! ### the cells an arrow looks at -/

/-- the cells seen from `(y, x)` in direction `d`, as (row, column) pairs in slice order. -/
def rayCells (d : Puzzles.Yajilin.Dir) (y x : Nat) : List (Nat × Nat) :=
  match d with
  | .up => (List.range y).map fun r => (r, x)
  | .down => (List.range (pb.height - (y + 1))).map fun j => (y + 1 + j, x)
  | .left => (List.range x).map fun c => (y, c)
  | .right => (List.range (pb.width - (x + 1))).map fun j => (y, x + 1 + j)

def rayE (d : Puzzles.Yajilin.Dir) (y x : Nat) : List Expr :=
  (rayCells pb d y x).map fun p => Expr.bvar (blackId pb p.1 p.2)

theorem sliceList_arr1 (data : List Expr) (h w : Nat) (ky kx : AxisKey) (l : List Expr)
    (hg : getitem2D data h w (.pair ky kx) = .ok (.arr1 l)) : sliceList data h w ky kx = .ok l := by
  unfold sliceList; rw [hg]; rfl

theorem ray_eq {y x : Nat} (hy : y < pb.height) (hx : x < pb.width) (d : Puzzles.Yajilin.Dir) :
    ray pb (blackData pb) d y x = .ok (rayE pb d y x) := by
  unfold ray rayE rayCells
  rw [blackData_eq]
  cases d <;> simp only []
  · apply sliceList_arr1
    rw [slice_col _ pb.height pb.width x _ _ hx
      (C11CL.axisSel_range' pb.height 0 (y : Int) 0 y rfl rfl (by omega) (by omega))
      (by intro r hr; simp at hr; omega)]
    simp [blackId, List.map_map, Function.comp_def]
  · apply sliceList_arr1
    rw [slice_col _ pb.height pb.width x _ _ hx
      (C11CL.axisSel_range' pb.height ((y : Int) + 1) (pb.height : Int) (y + 1) pb.height (by omega) rfl (by omega) (by omega))
      (by intro r hr; simp at hr; omega)]
    simp [blackId, List.map_map, Function.comp_def]
  · apply sliceList_arr1
    rw [slice_row _ pb.height pb.width y _ _ hy
      (C11CL.axisSel_range' pb.width 0 (x : Int) 0 x rfl rfl (by omega) (by omega))
      (by intro r hr; simp at hr; omega)]
    simp [blackId, List.map_map, Function.comp_def]
  · apply sliceList_arr1
    rw [slice_row _ pb.height pb.width y _ _ hy
      (C11CL.axisSel_range' pb.width ((x : Int) + 1) (pb.width : Int) (x + 1) pb.width (by omega) rfl (by omega) (by omega))
      (by intro r hr; simp at hr; omega)]
    simp [blackId, List.map_map, Function.comp_def]

/-! ### the double loop -/

def passedVar (y x : Nat) : Expr := .bvar (Frame.numVars HH WW + ptIndex WW (y, x))

/-- What the double loop posts for one cell. -/
def cellE (p : Nat × Nat) : List Expr :=
  match clue pb p.1 p.2 with
  | .empty => [.node .xor [passedVar pb p.1 p.2, .bvar (blackId pb p.1 p.2)]]
  | .unknown => [.node .not [passedVar pb p.1 p.2], .node .not [.bvar (blackId pb p.1 p.2)]]
  | .arrow d n => [.node .not [passedVar pb p.1 p.2], .node .not [.bvar (blackId pb p.1 p.2)],
      .node .eq [countTrueE (rayE pb d p.1 p.2), .litI n]]

theorem cellCs_eq (hw : WellFormed pb) {p : Nat × Nat} (hp : p ∈ cellsOf pb.height pb.width) :
    cellCs pb (Arr2.mk (HH + 1) (WW + 1) (bvars (Frame.numVars HH WW) ((HH + 1) * (WW + 1))))
      (Arr2.mk pb.height pb.width (blackData pb)) p = .ok (cellE pb p) := by
  obtain ⟨hy, hx⟩ := mem_cellsOf.mp hp
  have h1 := hw.1
  have h2 := hw.2.1
  unfold cellCs cellE
  simp only []
  rw [clueAt_eq pb hw hy hx, ok_bind, passed_get' HH WW p.1 p.2 (by omega) (by omega), ok_bind,
    black_get pb hy hx, ok_bind]
  cases hc : clue pb p.1 p.2 with
  | empty => rfl
  | unknown => rfl
  | arrow d n =>
    simp only []
    have hn1 : notE (Expr.bvar (Frame.numVars HH WW + ptIndex WW (p.1, p.2))) = .ok (.node .not [passedVar pb p.1 p.2]) := rfl
    have hn2 : notE (Expr.bvar (blackId pb p.1 p.2)) = .ok (.node .not [.bvar (blackId pb p.1 p.2)]) := rfl
    rw [hn1, ok_bind]
    have he1 : ensure1 (Expr.node .not [passedVar pb p.1 p.2]) = .ok (.node .not [passedVar pb p.1 p.2]) := rfl
    have he2 : ensure1 (Expr.node .not [Expr.bvar (blackId pb p.1 p.2)]) = .ok (.node .not [.bvar (blackId pb p.1 p.2)]) := rfl
    rw [he1, ok_bind, hn2, ok_bind, he2, ok_bind]
    show (ray pb (blackData pb) d p.1 p.2 >>= _) = _
    rw [ray_eq pb hy hx d, ok_bind]
    have hbl : ∀ e ∈ rayE pb d p.1 p.2, e.isBoolLike = true := by
      intro e he
      simp only [rayE, List.mem_map] at he
      obtain ⟨q, _, rfl⟩ := he
      rfl
    rw [countTrue_ok_of_boolLike hbl, ok_bind]
    obtain ⟨op, args, hct, hop⟩ := C11CL.countTrueE_isNode (rayE pb d p.1 p.2)
    have hcmp : cmpPy .eq (countTrueE (rayE pb d p.1 p.2)) (.litI n)
        = .ok (.node .eq [countTrueE (rayE pb d p.1 p.2), .litI n]) := by
      rw [hct]
      simp [cmpPy, Expr.isIntExpr, Expr.isIntLike, hop]
    rw [hcmp, ok_bind]
    rfl

def extra : List Expr := naE pb ++ ((cellsOf pb.height pb.width).map (cellE pb)).flatten

/-- `add_answer_key(black_cell)` after `add_answer_key(grid_frame)`. -/
theorem addKeys_black (n m base : Nat) (hb : n ≤ base) :
    addKeysV (.arr2 true pb.height pb.width (bvars base m)) (List.range n)
      = .ok (List.range n ++ (List.range m).map (base + ·)) := by
  unfold addKeysV
  simp only [PyV.flat, bvars]
  suffices h : ∀ k, k ≤ m → ((List.range k).map fun i => Expr.bvar (base + i)).foldlM (fun (acc : List Nat) (x : Expr) =>
      match isVarExpr x with
      | none => (Except.error PyErr.typeError : Py (List Nat))
      | some id => if acc.contains id then .error .valueError else .ok (acc ++ [id])) (List.range n)
        = .ok (List.range n ++ (List.range k).map (base + ·)) from h m (Nat.le_refl m)
  intro k
  induction k with
  | zero => intro _; simp; rfl
  | succ k ih =>
    intro hk
    rw [List.range_succ, List.map_append, List.foldlM_append, ih (by omega)]
    simp only [List.map_cons, List.map_nil, List.foldlM_cons, List.foldlM_nil, ok_bind, C11Grid.isVarExpr_bvar]
    have : (List.range n ++ (List.range k).map (base + ·)).contains (base + k) = false := by
      simp only [List.contains_eq_mem, List.mem_append, List.mem_range, List.mem_map, decide_eq_false_iff_not]
      rintro (h | ⟨j, hj, he⟩) <;> omega
    rw [this]
    simp [List.map_append, List.append_assoc]

/-- Closed form of the posted program. -/
theorem program_eq (hw : WellFormed pb) :
    program pb = .ok
      { decls := List.replicate (Frame.numVars HH WW) .bool ++ (cyc HH WW).decls
          ++ List.replicate (pb.height * pb.width) .bool,
        cs := (cyc HH WW).cs ++ extra pb,
        keys := List.range (Frame.numVars HH WW) ++ (List.range (pb.height * pb.width)).map (B HH WW + ·) } := by
  have hw' := hw
  obtain ⟨h1, h2, _, _⟩ := hw
  unfold program
  rw [if_neg (by omega)]
  simp only [setup_eq, bind, Except.bind]
  have hbd : bvars (B HH WW) (pb.height * pb.width) = blackData pb := rfl
  simp only [hbd, notAdjacent_eq, frameKeys_eq]
  rw [hbd.symm, addKeys_black pb _ _ _ (by simp only [B]; omega)]
  simp only [hbd]
  rw [mapM_eq_ok_map (g := cellE pb) (fun p hp => cellCs_eq pb hw' hp)]
  simp only [extra, List.append_assoc]

end Cells

section Sem
variable (pb : Problem)

local notation "HH" => pb.height - 1
local notation "WW" => pb.width - 1

/-- the shading grid read from a flat list of flags. -/
def sh2 (shf : Nat → Bool) (y x : Nat) : Bool := shf (y * pb.width + x)

/-- Rules 1-3 without the loop condition. -/
def CellRules (on : Seg → Bool) (sh : Nat → Nat → Bool) : Prop :=
  (∀ y, y < pb.height → ∀ x, x < pb.width → sh y x = true →
    (y + 1 < pb.height → sh (y + 1) x = false) ∧ (x + 1 < pb.width → sh y (x + 1) = false)) ∧
  (∀ y, y < pb.height → ∀ x, x < pb.width →
    match clue pb y x with
    | .empty => onLoop HH WW on (y, x) = !sh y x
    | .unknown => onLoop HH WW on (y, x) = false ∧ sh y x = false
    | .arrow d n => onLoop HH WW on (y, x) = false ∧ sh y x = false ∧ ((seen pb sh y x d : Nat) : Int) = n)

theorem rulesOn_iff (on : Seg → Bool) (sh : Nat → Nat → Bool) :
    RulesOn pb on sh ↔ (IsLoop HH WW on ∧ CellRules pb on sh) := Iff.rfl

theorem eval_notand (σ : Asg) (i j : Nat) :
    eval σ (.node .not [.node .and [.bvar i, .bvar j]]) = some (.b true) ↔ ¬ (σ.b i = true ∧ σ.b j = true) := by
  simp only [eval_node, List.map_cons, List.map_nil, eval_bvar]
  cases σ.b i <;> cases σ.b j <;> simp [evalOp, allBools]

theorem eval_not_bvar (σ : Asg) (i : Nat) :
    eval σ (.node .not [.bvar i]) = some (.b true) ↔ σ.b i = false := by
  simp only [eval_node, List.map_cons, List.map_nil, eval_bvar]
  cases σ.b i <;> simp [evalOp]

theorem eval_xor_bvar (σ : Asg) (i j : Nat) :
    eval σ (.node .xor [.bvar i, .bvar j]) = some (.b true) ↔ σ.b i = !σ.b j := by
  simp only [eval_node, List.map_cons, List.map_nil, eval_bvar]
  cases σ.b i <;> cases σ.b j <;> simp [evalOp, allBools]

theorem seen_eq (sh : Nat → Nat → Bool) (y x : Nat) (d : Puzzles.Yajilin.Dir) :
    seen pb sh y x d = (rayCells pb d y x).countP fun p => sh p.1 p.2 := by
  cases d <;> simp [seen, rayCells, List.countP_map, Function.comp_def]

theorem eval_count (σ : Asg) (d : Puzzles.Yajilin.Dir) (y x : Nat) (n : Int) :
    eval σ (.node .eq [countTrueE (rayE pb d y x), .litI n]) = some (.b true) ↔
      ((seen pb (sh2 pb fun k => σ.b (B HH WW + k)) y x d : Nat) : Int) = n := by
  have h := eval_countTrueE (σ := σ) (xs := rayE pb d y x)
    ((rayCells pb d y x).map fun p => sh2 pb (fun k => σ.b (B HH WW + k)) p.1 p.2) (by
      unfold rayE
      rw [List.map_map, List.map_map]
      apply List.map_congr_left
      intro p _
      simp [sh2, blackId, eval_bvar])
  rw [eval_node]
  simp only [List.map_cons, List.map_nil, h, eval_litI]
  rw [evalOp_cmp rfl, cmpOp_eq, seen_eq, List.count_eq_countP, List.countP_map]
  have e : ((fun x => x == true) ∘ fun p : Nat × Nat => sh2 pb (fun k => σ.b (B HH WW + k)) p.1 p.2)
      = fun p : Nat × Nat => sh2 pb (fun k => σ.b (B HH WW + k)) p.1 p.2 := by
    funext p; simp
  rw [e]
  simp

theorem na_iff (σ : Asg) :
    (∀ c ∈ naE pb, eval σ c = some (.b true)) ↔
      (∀ y, y < pb.height → ∀ x, x < pb.width → sh2 pb (fun k => σ.b (B HH WW + k)) y x = true →
        (y + 1 < pb.height → sh2 pb (fun k => σ.b (B HH WW + k)) (y + 1) x = false) ∧
        (x + 1 < pb.width → sh2 pb (fun k => σ.b (B HH WW + k)) y (x + 1) = false)) := by
  have hsh : ∀ y x, sh2 pb (fun k => σ.b (B HH WW + k)) y x = σ.b (blackId pb y x) := fun _ _ => rfl
  unfold naE
  constructor
  · intro h y hy x hx hs
    rw [hsh] at hs
    constructor
    · intro hy1
      have := h _ (List.mem_append_left _ (List.mem_map.mpr ⟨(y, x), mem_cellsOf.mpr ⟨by simp only []; omega, hx⟩, rfl⟩))
      rw [eval_notand] at this
      rw [hsh]
      cases hb : σ.b (blackId pb (y + 1) x)
      · rfl
      · exact absurd ⟨hb, hs⟩ this
    · intro hx1
      have := h _ (List.mem_append_right _ (List.mem_map.mpr ⟨(y, x), mem_cellsOf.mpr ⟨hy, by simp only []; omega⟩, rfl⟩))
      rw [eval_notand] at this
      rw [hsh]
      cases hb : σ.b (blackId pb y (x + 1))
      · rfl
      · exact absurd ⟨hb, hs⟩ this
  · intro h c hc
    rcases List.mem_append.mp hc with hc | hc
    · obtain ⟨p, hp, rfl⟩ := List.mem_map.mp hc
      obtain ⟨hy, hx⟩ := mem_cellsOf.mp hp
      rw [eval_notand]
      rintro ⟨ha, hb⟩
      have := (h p.1 (by omega) p.2 hx (by rw [hsh]; exact hb)).1 (by omega)
      rw [hsh, ha] at this
      cases this
    · obtain ⟨p, hp, rfl⟩ := List.mem_map.mp hc
      obtain ⟨hy, hx⟩ := mem_cellsOf.mp hp
      rw [eval_notand]
      rintro ⟨ha, hb⟩
      have := (h p.1 hy p.2 (by omega) (by rw [hsh]; exact hb)).2 (by omega)
      rw [hsh, ha] at this
      cases this

theorem cell_iff (σ : Asg) (y x : Nat)
    (hpass : σ.b (Frame.numVars HH WW + ptIndex WW (y, x)) = onLoop HH WW (onOf HH WW σ) (y, x)) :
    (∀ c ∈ cellE pb (y, x), eval σ c = some (.b true)) ↔
      (match clue pb y x with
       | .empty => onLoop HH WW (onOf HH WW σ) (y, x) = !sh2 pb (fun k => σ.b (B HH WW + k)) y x
       | .unknown => onLoop HH WW (onOf HH WW σ) (y, x) = false ∧ sh2 pb (fun k => σ.b (B HH WW + k)) y x = false
       | .arrow d n => onLoop HH WW (onOf HH WW σ) (y, x) = false ∧ sh2 pb (fun k => σ.b (B HH WW + k)) y x = false ∧
           ((seen pb (sh2 pb fun k => σ.b (B HH WW + k)) y x d : Nat) : Int) = n) := by
  have hsh : sh2 pb (fun k => σ.b (B HH WW + k)) y x = σ.b (blackId pb y x) := rfl
  unfold cellE
  simp only []
  cases hc : clue pb y x with
  | empty =>
    simp only [List.mem_singleton, forall_eq, passedVar]
    rw [eval_xor_bvar, hpass, hsh]
  | unknown =>
    simp only [List.mem_cons, List.not_mem_nil, or_false, forall_eq_or_imp, forall_eq, passedVar]
    rw [eval_not_bvar, eval_not_bvar, hpass, hsh]
  | arrow d n =>
    simp only [List.mem_cons, List.not_mem_nil, or_false, forall_eq_or_imp, forall_eq, passedVar]
    rw [eval_not_bvar, eval_not_bvar, hpass, hsh, eval_count]

theorem extra_iff (hw : WellFormed pb) (σ : Asg)
    (hpass : ∀ p, PtValid HH WW p → σ.b (Frame.numVars HH WW + ptIndex WW p) = onLoop HH WW (onOf HH WW σ) p) :
    (∀ c ∈ extra pb, eval σ c = some (.b true)) ↔
      CellRules pb (onOf HH WW σ) (sh2 pb fun k => σ.b (B HH WW + k)) := by
  obtain ⟨h1, h2, _, _⟩ := hw
  have hvalid : ∀ y x, y < pb.height → x < pb.width → PtValid HH WW (y, x) := by
    intro y x hy hx; exact ⟨by simp only []; omega, by simp only []; omega⟩
  unfold extra CellRules
  rw [← na_iff]
  constructor
  · intro h
    refine ⟨fun c hc => h c (List.mem_append_left _ hc), ?_⟩
    intro y hy x hx
    apply (cell_iff pb σ y x (hpass _ (hvalid y x hy hx))).mp
    intro c hc
    apply h c (List.mem_append_right _ ?_)
    rw [List.mem_flatten]
    exact ⟨cellE pb (y, x), List.mem_map.mpr ⟨(y, x), mem_cellsOf.mpr ⟨hy, hx⟩, rfl⟩, hc⟩
  · rintro ⟨hna, hcells⟩ c hc
    rcases List.mem_append.mp hc with hc | hc
    · exact hna c hc
    · rw [List.mem_flatten] at hc
      obtain ⟨l, hl, hcl⟩ := hc
      obtain ⟨p, hp, rfl⟩ := List.mem_map.mp hl
      obtain ⟨hy, hx⟩ := mem_cellsOf.mp hp
      exact (cell_iff pb σ p.1 p.2 (hpass _ (hvalid _ _ hy hx))).mpr (hcells p.1 hy p.2 hx) c hcl

end Sem

section Main
variable (pb : Problem)

local notation "HH" => pb.height - 1
local notation "WW" => pb.width - 1

theorem rayCells_in (hy : y < pb.height) (hx : x < pb.width) (d : Puzzles.Yajilin.Dir) :
    ∀ p ∈ rayCells pb d y x, p.1 < pb.height ∧ p.2 < pb.width := by
  intro p hp
  cases d <;> simp only [rayCells, List.mem_map, List.mem_range] at hp <;>
    obtain ⟨c, hc, rfl⟩ := hp <;> simp only [] <;> omega

theorem seen_congr (sh sh' : Nat → Nat → Bool)
    (hsh : ∀ y, y < pb.height → ∀ x, x < pb.width → sh y x = sh' y x)
    {y x : Nat} (hy : y < pb.height) (hx : x < pb.width) (d : Puzzles.Yajilin.Dir) :
    seen pb sh y x d = seen pb sh' y x d := by
  rw [seen_eq, seen_eq]
  apply List.countP_congr
  intro p hp
  have := rayCells_in pb hy hx d p hp
  rw [hsh p.1 this.1 p.2 this.2]

theorem cellRules_congr (hw : WellFormed pb) (on on' : Seg → Bool) (sh sh' : Nat → Nat → Bool)
    (hon : ∀ s, s.Valid HH WW → on s = on' s)
    (hsh : ∀ y, y < pb.height → ∀ x, x < pb.width → sh y x = sh' y x) :
    CellRules pb on sh → CellRules pb on' sh' := by
  obtain ⟨h1, h2, _, _⟩ := hw
  have hvalid : ∀ y x, y < pb.height → x < pb.width → PtValid HH WW (y, x) := by
    intro y x hy hx; exact ⟨by simp only []; omega, by simp only []; omega⟩
  rintro ⟨hna, hcells⟩
  refine ⟨?_, ?_⟩
  · intro y hy x hx hs
    rw [← hsh y hy x hx] at hs
    obtain ⟨a, b⟩ := hna y hy x hx hs
    exact ⟨fun h => by rw [← hsh (y + 1) h x hx]; exact a h, fun h => by rw [← hsh y hy (x + 1) h]; exact b h⟩
  · intro y hy x hx
    have hc := hcells y hy x hx
    rw [← onLoop_congr HH WW on on' hon (y, x) (hvalid y x hy hx), ← hsh y hy x hx]
    cases hcl : clue pb y x with
    | empty => rw [hcl] at hc; exact hc
    | unknown => rw [hcl] at hc; exact hc
    | arrow d n =>
      rw [hcl] at hc
      simp only [] at hc ⊢
      rw [← seen_congr pb sh sh' hsh hy hx d]
      exact hc

theorem extra_wt : ∀ c ∈ extra pb, wtB c = true := by
  intro c hc
  unfold extra at hc
  rcases List.mem_append.mp hc with hc | hc
  · unfold naE at hc
    rcases List.mem_append.mp hc with hc | hc <;>
      (obtain ⟨p, _, rfl⟩ := List.mem_map.mp hc; rfl)
  · rw [List.mem_flatten] at hc
    obtain ⟨l, hl, hcl⟩ := hc
    obtain ⟨p, _, rfl⟩ := List.mem_map.mp hl
    unfold cellE at hcl
    split at hcl
    · simp only [List.mem_singleton] at hcl; subst hcl; rfl
    · simp only [List.mem_cons, List.not_mem_nil, or_false] at hcl
      rcases hcl with rfl | rfl <;> rfl
    · next d n _ =>
      simp only [List.mem_cons, List.not_mem_nil, or_false] at hcl
      rcases hcl with rfl | rfl | rfl
      · rfl
      · rfl
      · have : ∀ e ∈ rayE pb d p.1 p.2, wtB e = true := by
          intro e he
          simp only [rayE, List.mem_map] at he
          obtain ⟨q, _, rfl⟩ := he
          rfl
        simp [wtB, wtIs, wtI, wtI_countTrueE _ this]

theorem boolGrid_flat (h w : Nat) (shf : Nat → Bool) :
    boolGrid h w (fun y x => shf (y * w + x)) = (List.range (h * w)).map fun k => Val.b (shf k) := by
  unfold boolGrid
  rw [C11Grid.flatMap_range_eq (fun y x => Val.b (shf (y * w + x)))]
  apply List.map_congr_left
  intro i hi
  have hi' := List.mem_range.mp hi
  have hw : 0 < w := by
    rcases Nat.eq_zero_or_pos w with h0 | h0
    · subst h0; simp at hi'
    · exact h0
  rw [Nat.div_add_mod' i w]

theorem main (hw : WellFormed pb) (P : PuzzleProg) (hP : program pb = .ok P) :
    EncodesRules P (Rules pb) ∧ P.KeysOk ∧ (∀ c ∈ P.cs, wtB c = true) := by
  rw [program_eq pb hw] at hP
  cases hP
  refine ⟨?_, keysOk_ext _ _ _ _, ?_⟩
  · have h := encodes_loop_ext HH WW (pb.height * pb.width) (extra pb)
      (fun on shf => CellRules pb on (sh2 pb shf))
      (by
        intro on on' shf shf' hon hsh
        have hsh2 : ∀ y, y < pb.height → ∀ x, x < pb.width → sh2 pb shf y x = sh2 pb shf' y x :=
          fun y hy x hx => hsh _ (C14.mul_add_lt hy hx)
        exact ⟨cellRules_congr pb hw on on' _ _ hon hsh2,
          cellRules_congr pb hw on' on _ _ (fun s hs => (hon s hs).symm) (fun y hy x hx => (hsh2 y hy x hx).symm)⟩)
      (fun σ _ hpass => extra_iff pb hw σ hpass)
    intro a
    rw [h a]
    unfold Rules
    constructor
    · rintro ⟨on, shf, rfl, hl, hc⟩
      refine ⟨on, sh2 pb shf, ?_, (rulesOn_iff pb on _).mpr ⟨hl, hc⟩⟩
      unfold sh2
      rw [boolGrid_flat]
    · rintro ⟨on, sh, rfl, hr⟩
      obtain ⟨hl, hc⟩ := (rulesOn_iff pb on sh).mp hr
      refine ⟨on, fun k => sh (k / pb.width) (k % pb.width), ?_, hl, ?_⟩
      · congr 1
        unfold boolGrid
        rw [C11Grid.flatMap_range_eq (fun y x => Val.b (sh y x))]
      · apply cellRules_congr pb hw on on sh _ (fun _ _ => rfl) ?_ hc
        intro y _ x hx
        unfold sh2
        beta_reduce
        rw [(C11Grid.cell_div_mod hx).1, (C11Grid.cell_div_mod hx).2]
  · intro c hc
    rcases List.mem_append.mp hc with h | h
    · exact cyc_wt _ _ c h
    · exact extra_wt pb c h

theorem total (hw : WellFormed pb) : ∃ P, program pb = .ok P := ⟨_, program_eq pb hw⟩

end Main

end Cspuz.Proofs.C11Yajilin
