/-
  C05, layer L2 (pure graph theory): a rank / is_root / spanning_forest certificate (`DivCert`)
  exists iff every label class induces a connected subgraph (`DivisionOK`).
  Soundness: follow the unique lower forest neighbour down to the unique root of the label.
  Completeness: one root per label, rank := position in the order by `(distance from the root of the
  own label, index)`, forest := one chosen lower-ranked same-label entry per non-root vertex.
  Self-loops and parallel edges are allowed.
-/
import CspuzModel.Spec.GraphSpec2
import CspuzModel.Spec.Certs2
import CspuzModel.Proofs.C04L2
namespace Cspuz.Proofs.C05L2
open Cspuz Cspuz.Spec
open Cspuz.Proofs.C04L2

/-- Same-label adjacency on all vertices. -/
def H (g : Graph) (lab : Nat → Int) : SimpleGraph (Fin g.n) where
  Adj u v := u ≠ v ∧ lab u.1 = lab v.1 ∧ ∃ e, Joins g e u.1 v.1
  symm := ⟨by
    rintro u v ⟨h1, h2, e, he⟩
    exact ⟨h1.symm, h2.symm, e, he.symm⟩⟩
  loopless := ⟨fun v h => h.1 rfl⟩

theorem H_adj {g : Graph} {lab : Nat → Int} {u v : Fin g.n} :
    (H g lab).Adj u v ↔ u ≠ v ∧ lab u.1 = lab v.1 ∧ ∃ e, Joins g e u.1 v.1 := Iff.rfl

/-- Forgetting the membership proof is a homomorphism from the induced graph on a class into `H`. -/
def homToH (g : Graph) (lab : Nat → Int) (c : Int) :
    (toSimple g).induce (labelClass g lab c) →g H g lab where
  toFun x := x.1
  map_rel' := by
    rintro ⟨a, ha⟩ ⟨b, hb⟩ h
    have h' : (toSimple g).Adj a b := h
    have ha' : lab a.1 = c := ha
    have hb' : lab b.1 = c := hb
    exact ⟨h'.1, by rw [ha', hb'], h'.2⟩

theorem reach_H_of_preconnected {g : Graph} {lab : Nat → Int} {c : Int}
    (hpc : ((toSimple g).induce (labelClass g lab c)).Preconnected) (u v : Fin g.n)
    (hu : lab u.1 = c) (hv : lab v.1 = c) : (H g lab).Reachable u v :=
  (hpc ⟨u, hu⟩ ⟨v, hv⟩).map (homToH g lab c)

theorem reach_induce_of_H {g : Graph} {lab : Nat → Int} {c : Int} {u v : Fin g.n}
    (h : (H g lab).Reachable u v) (hu : lab u.1 = c) :
    ∃ hv : lab v.1 = c,
      ((toSimple g).induce (labelClass g lab c)).Reachable ⟨u, hu⟩ ⟨v, hv⟩ := by
  obtain ⟨p⟩ := h
  induction p with
  | nil => exact ⟨hu, SimpleGraph.Reachable.refl _⟩
  | cons hadj q ih =>
    rename_i a b d
    obtain ⟨hne, hl, he⟩ := hadj
    have hb : lab b.1 = c := by rw [← hl]; exact hu
    obtain ⟨hv, r⟩ := ih hb
    refine ⟨hv, SimpleGraph.Reachable.trans (SimpleGraph.Adj.reachable ?_) r⟩
    show (toSimple g).Adj a b
    exact ⟨hne, he⟩

/-- An edge id determines its two endpoints. -/
theorem joins_unique {g : Graph} {e v j w j' : Nat} (h1 : Joins g e v j) (h2 : Joins g e w j') :
    (v = w ∧ j = j') ∨ (v = j' ∧ j = w) := by
  unfold Joins at h1 h2
  rcases h1 with h1 | h1 <;> rcases h2 with h2 | h2 <;> rw [h1] at h2 <;> simp at h2 <;> omega

/-! ### Soundness -/
section Soundness
variable {g : Graph} {lab : Nat → Int} {k : Nat} {roots : List (Option Nat)} {allowEmpty : Bool}

theorem cert_edge_lab (hwf : g.wf = true) (c : DivCert g lab k roots allowEmpty) {e u v : Nat}
    (hJ : Joins g e u v) (hsf : c.sf e = true) (hne : u ≠ v) : lab u = lab v := by
  obtain ⟨hu, hv⟩ := joins_lt hwf hJ
  rcases Nat.lt_or_gt_of_ne hne with h | h
  · exact (c.edge u hu (v, e) (mem_incident.2 hJ) h hsf).1
  · exact (c.edge v hv (u, e) (mem_incident.2 hJ.symm) h hsf).1.symm

theorem cert_step (hwf : g.wf = true) (c : DivCert g lab k roots allowEmpty) {i : Nat}
    (hi : i < g.n) (hr : c.root i = false) :
    ∃ j e, Joins g e i j ∧ c.rank j < c.rank i ∧ lab i = lab j := by
  have h := c.loc i hi
  rw [hr] at h
  simp only [Bool.false_eq_true, if_false] at h
  obtain ⟨j, e, hj, hp⟩ := countInc_pos_iff.1 (le_of_eq h.symm)
  simp only [Bool.and_eq_true, decide_eq_true_eq] at hp
  have hne : i ≠ j := by rintro rfl; omega
  exact ⟨j, e, hj, hp.2, cert_edge_lab hwf c hj hp.1 hne⟩

theorem cert_reach_root (hwf : g.wf = true) (c : DivCert g lab k roots allowEmpty) :
    ∀ (m : Nat) (i : Nat) (hi : i < g.n), (c.rank i).toNat ≤ m →
      ∃ (r : Nat) (hr : r < g.n), c.root r = true ∧ lab r = lab i ∧
        (H g lab).Reachable ⟨i, hi⟩ ⟨r, hr⟩ := by
  intro m
  induction m with
  | zero =>
    intro i hi hm
    cases hroot : c.root i
    · obtain ⟨j, e, hj, hlt, _⟩ := cert_step hwf c hi hroot
      have := c.rank_lo j (joins_lt hwf hj).2
      omega
    · exact ⟨i, hi, hroot, rfl, SimpleGraph.Reachable.refl _⟩
  | succ m ih =>
    intro i hi hm
    cases hroot : c.root i
    · obtain ⟨j, e, hj, hlt, hl⟩ := cert_step hwf c hi hroot
      have hjn := (joins_lt hwf hj).2
      have := c.rank_lo j hjn
      obtain ⟨r, hr, hrr, hlr, hreach⟩ := ih j hjn (by omega)
      refine ⟨r, hr, hrr, by rw [hlr, hl],
        SimpleGraph.Reachable.trans (SimpleGraph.Adj.reachable ?_) hreach⟩
      rw [H_adj]
      refine ⟨?_, hl, e, hj⟩
      intro h
      have : i = j := congrArg Fin.val h
      subst this; omega
    · exact ⟨i, hi, hroot, rfl, SimpleGraph.Reachable.refl _⟩

theorem cert_per_le (c : DivCert g lab k roots allowEmpty) {c' : Nat} (hc : c' < k) :
    ((List.range g.n).filter fun v => c.root v && decide (lab v = (c' : Int))).length ≤ 1 := by
  have := c.per c' hc
  cases allowEmpty
  · simp only [Bool.false_eq_true, if_false] at this; omega
  · simpa using this

theorem cert_root_unique (c : DivCert g lab k roots allowEmpty) {c' : Nat} (hc : c' < k)
    {r r' : Nat} (hr : r < g.n) (hr' : r' < g.n) (h : c.root r = true) (h' : c.root r' = true)
    (hl : lab r = (c' : Int)) (hl' : lab r' = (c' : Int)) : r = r' :=
  eq_of_mem_of_length_le_one (cert_per_le c hc)
    (List.mem_filter.2 ⟨List.mem_range.2 hr, by simp [h, hl]⟩)
    (List.mem_filter.2 ⟨List.mem_range.2 hr', by simp [h', hl']⟩)

theorem cert_ok (hwf : g.wf = true)
    (hroots : ∀ (c r : Nat), roots[c]? = some (some r) → r < g.n)
    (c : DivCert g lab k roots allowEmpty) : DivisionOK g lab k roots allowEmpty := by
  refine ⟨?_, ?_, ?_⟩
  · intro c' hc
    rintro ⟨⟨u, hu⟩, hlu⟩ ⟨⟨v, hv⟩, hlv⟩
    have hlu' : lab u = (c' : Int) := hlu
    have hlv' : lab v = (c' : Int) := hlv
    obtain ⟨r, hr, hrr, hlr, h1⟩ := cert_reach_root hwf c _ u hu le_rfl
    obtain ⟨r', hr', hrr', hlr', h2⟩ := cert_reach_root hwf c _ v hv le_rfl
    have := cert_root_unique c hc hr hr' hrr hrr' (hlr.trans hlu') (hlr'.trans hlv')
    subst this
    obtain ⟨_, h3⟩ := reach_induce_of_H (c := (c' : Int)) (h1.trans h2.symm) hlu'
    exact h3
  · intro hae c' hc
    have := c.per c' hc
    subst hae
    simp only [Bool.false_eq_true, if_false] at this
    have hpos : 0 < ((List.range g.n).filter
        fun v => c.root v && decide (lab v = (c' : Int))).length := by omega
    obtain ⟨v, hv⟩ := List.length_pos_iff_exists_mem.1 hpos
    simp only [List.mem_filter, List.mem_range, Bool.and_eq_true, decide_eq_true_eq] at hv
    exact ⟨v, hv.1, hv.2.2⟩
  · intro c' r h
    exact ⟨hroots c' r h, (c.rts c' r h).1⟩

end Soundness

/-! ### Entries of `incident i` leading elsewhere are pairwise distinct -/

theorem incStep_filter_nodup (i : Nat) (p : (Nat × Nat) × Nat) :
    ((incStep i p).filter (fun je => decide (je.1 ≠ i))).Nodup := by
  unfold incStep
  by_cases h1 : p.1.1 = i <;> by_cases h2 : p.1.2 = i <;> simp [h1, h2]

theorem incAuxF_nodup (i : Nat) : ∀ (l : List (Nat × Nat)) (k : Nat),
    (((l.zipIdx k).flatMap (incStep i)).filter (fun je => decide (je.1 ≠ i))).Nodup := by
  intro l
  induction l with
  | nil => intro k; simp
  | cons ab l ih =>
    intro k
    rw [List.zipIdx_cons, List.flatMap_cons, List.filter_append, List.nodup_append]
    refine ⟨incStep_filter_nodup i _, ih (k + 1), ?_⟩
    intro x hx y hy hxy
    subst hxy
    have h1 := incStep_snd (List.mem_filter.1 hx).1
    obtain ⟨q, hq, hyq⟩ := List.mem_flatMap.1 (List.mem_filter.1 hy).1
    have h2 := incStep_snd hyq
    have h3 := (List.mem_zipIdx_iff_le_and_getElem?_sub.1 hq).1
    simp at h1
    omega

theorem incident_filter_nodup (g : Graph) (i : Nat) :
    ((g.incident i).filter (fun je => decide (je.1 ≠ i))).Nodup :=
  incAuxF_nodup i g.edges 0

/-- A selection of entries leading elsewhere that are all equal has at most one element. -/
theorem countInc_le_one_of_eq {g : Graph} {i : Nat} {p : Nat × Nat → Bool}
    (hne : ∀ x ∈ g.incident i, p x = true → x.1 ≠ i)
    (heq : ∀ x ∈ g.incident i, p x = true → ∀ y ∈ g.incident i, p y = true → x = y) :
    countInc g i p ≤ 1 := by
  unfold countInc
  have hfe : (g.incident i).filter p =
      ((g.incident i).filter (fun je => decide (je.1 ≠ i))).filter p := by
    rw [List.filter_filter]
    apply List.filter_congr
    intro x hx
    by_cases hp : p x = true
    · simp [hp, hne x hx hp]
    · simp [hp]
  rw [hfe]
  apply length_le_one_of_nodup ((incident_filter_nodup g i).filter _)
  intro x hx y hy
  have hx' := List.mem_filter.1 hx
  have hy' := List.mem_filter.1 hy
  exact heq x (List.mem_filter.1 hx'.1).1 hx'.2 y (List.mem_filter.1 hy'.1).1 hy'.2

/-! ### Completeness: building a certificate -/
section Completeness
variable (g : Graph) (lab : Nat → Int) (roots : List (Option Nat))

open Classical in
/-- The root of label `c`: the prescribed one if any, else some vertex of the class, else `0`. -/
noncomputable def rootOf (c : Int) : Nat :=
  if h : ∃ r c' : Nat, (c' : Int) = c ∧ roots[c']? = some (some r) then h.choose
  else if h : ∃ v, v < g.n ∧ lab v = c then h.choose else 0

theorem rootOf_spec {c : Int}
    (h3 : ∀ (c r : Nat), roots[c]? = some (some r) → r < g.n ∧ lab r = (c : Int))
    (hne : ∃ v, v < g.n ∧ lab v = c) :
    rootOf g lab roots c < g.n ∧ lab (rootOf g lab roots c) = c := by
  unfold rootOf
  split
  · rename_i h
    obtain ⟨c', hc', hr⟩ := h.choose_spec
    have := h3 c' _ hr
    exact ⟨this.1, this.2.trans hc'⟩
  · exact hne.choose_spec

theorem rootOf_prescribed {c' r : Nat} (h : roots[c']? = some (some r)) :
    rootOf g lab roots (c' : Int) = r := by
  have hex : ∃ r c'' : Nat, (c'' : Int) = (c' : Int) ∧ roots[c'']? = some (some r) :=
    ⟨r, c', rfl, h⟩
  unfold rootOf
  rw [dif_pos hex]
  obtain ⟨c'', hc, hr⟩ := hex.choose_spec
  have : c'' = c' := by exact_mod_cast hc
  subst this
  rw [h] at hr
  simpa using hr.symm

/-- Distance in `H` from the root of the own label. -/
noncomputable def depth (v : Nat) : Nat :=
  if h : v < g.n ∧ rootOf g lab roots (lab v) < g.n then
    (H g lab).dist ⟨rootOf g lab roots (lab v), h.2⟩ ⟨v, h.1⟩ else 0

theorem depth_eq {v r : Nat} (hv : v < g.n) (hr : r < g.n) (h : rootOf g lab roots (lab v) = r) :
    depth g lab roots v = (H g lab).dist ⟨r, hr⟩ ⟨v, hv⟩ := by
  subst h
  unfold depth
  rw [dif_pos ⟨hv, hr⟩]

noncomputable def drank (v : Nat) : Int := (rk g.n (depth g lab roots) v : Int)

noncomputable def droot (v : Nat) : Bool := decide (rootOf g lab roots (lab v) = v)

/-- admissible parent entries of `v` -/
noncomputable def cand (v : Nat) (je : Nat × Nat) : Bool :=
  decide (lab je.1 = lab v) && decide (drank g lab roots je.1 < drank g lab roots v)

/-- the chosen parent entry of `v` -/
noncomputable def par (v : Nat) : Option (Nat × Nat) := (g.incident v).find? (cand g lab roots v)

open Classical in
/-- forest edges: the chosen parent entries of the non-roots -/
noncomputable def sf (e : Nat) : Bool :=
  decide (∃ w, w < g.n ∧ droot g lab roots w = false ∧ ∃ j, par g lab roots w = some (j, e))

theorem par_spec {v j e : Nat} (h : par g lab roots v = some (j, e)) :
    Joins g e v j ∧ lab j = lab v ∧ drank g lab roots j < drank g lab roots v := by
  unfold par at h
  have h1 := List.find?_some h
  have h2 := List.mem_of_find?_eq_some h
  simp only [cand, Bool.and_eq_true, decide_eq_true_eq] at h1
  exact ⟨mem_incident.1 h2, h1.1, h1.2⟩

theorem par_exists (hreach : ∀ u v : Fin g.n, lab u.1 = lab v.1 → (H g lab).Reachable u v)
    (h3 : ∀ (c r : Nat), roots[c]? = some (some r) → r < g.n ∧ lab r = (c : Int))
    {v : Nat} (hv : v < g.n) (hr : droot g lab roots v = false) :
    ∃ j e, par g lab roots v = some (j, e) := by
  obtain ⟨hrn, hrl⟩ := rootOf_spec g lab roots h3 (c := lab v) ⟨v, hv, rfl⟩
  have hne : (⟨v, hv⟩ : Fin g.n) ≠ ⟨rootOf g lab roots (lab v), hrn⟩ := by
    intro h
    have h' : v = rootOf g lab roots (lab v) := congrArg Fin.val h
    simp only [droot, decide_eq_false_iff_not] at hr
    exact hr h'.symm
  obtain ⟨w, hadj, hlt⟩ := exists_closer (hreach ⟨rootOf g lab roots (lab v), hrn⟩ ⟨v, hv⟩ hrl) hne
  obtain ⟨_, hl, e, he⟩ := hadj
  have hl' : lab v = lab w.1 := hl
  have he' : Joins g e v w.1 := he
  have hd : depth g lab roots w.1 < depth g lab roots v := by
    rw [depth_eq g lab roots w.2 hrn (by rw [← hl']), depth_eq g lab roots hv hrn rfl]
    exact hlt
  have hrk := rk_lt_of_keyLt g.n (depth g lab roots) w.2 (Or.inl hd)
  have hc : cand g lab roots v (w.1, e) = true := by
    unfold cand
    rw [Bool.and_eq_true, decide_eq_true_eq, decide_eq_true_eq]
    exact ⟨hl'.symm, by unfold drank; exact_mod_cast hrk⟩
  have hs : (par g lab roots v).isSome = true := by
    unfold par
    rw [List.find?_isSome]
    exact ⟨(w.1, e), mem_incident.2 he', hc⟩
  obtain ⟨⟨j, e'⟩, h⟩ := Option.isSome_iff_exists.1 hs
  exact ⟨j, e', h⟩

open Classical in
theorem sf_of_par {w j e : Nat} (hw : w < g.n) (hr : droot g lab roots w = false)
    (hp : par g lab roots w = some (j, e)) : sf g lab roots e = true := by
  unfold sf
  rw [decide_eq_true_eq]
  exact ⟨w, hw, hr, j, hp⟩

open Classical in
theorem sf_spec {e : Nat} (h : sf g lab roots e = true) :
    ∃ w, w < g.n ∧ droot g lab roots w = false ∧ ∃ j, par g lab roots w = some (j, e) := by
  unfold sf at h
  rwa [decide_eq_true_eq] at h

/-- A lower-ranked forest entry of `v` is the chosen parent entry of `v`, and `v` is not a root. -/
theorem sf_lower {v j e : Nat} (hJ : Joins g e v j) (hsf : sf g lab roots e = true)
    (hlt : drank g lab roots v > drank g lab roots j) :
    droot g lab roots v = false ∧ par g lab roots v = some (j, e) := by
  obtain ⟨w, hw, hrw, j', hp⟩ := sf_spec g lab roots hsf
  obtain ⟨hJ', _, hlt'⟩ := par_spec g lab roots hp
  rcases joins_unique hJ hJ' with ⟨rfl, rfl⟩ | ⟨rfl, rfl⟩
  · exact ⟨hrw, hp⟩
  · omega

theorem loc_root {v : Nat} (hr : droot g lab roots v = true) :
    countInc g v (fun je => sf g lab roots je.2 &&
      decide (drank g lab roots v > drank g lab roots je.1)) = 0 := by
  by_contra hne
  obtain ⟨j, e, hJ, hp⟩ := countInc_pos_iff.1 (Nat.one_le_iff_ne_zero.2 hne)
  simp only [Bool.and_eq_true, decide_eq_true_eq] at hp
  have := (sf_lower g lab roots hJ hp.1 hp.2).1
  rw [hr] at this
  cases this

theorem loc_nonroot (hreach : ∀ u v : Fin g.n, lab u.1 = lab v.1 → (H g lab).Reachable u v)
    (h3 : ∀ (c r : Nat), roots[c]? = some (some r) → r < g.n ∧ lab r = (c : Int))
    {v : Nat} (hv : v < g.n) (hr : droot g lab roots v = false) :
    countInc g v (fun je => sf g lab roots je.2 &&
      decide (drank g lab roots v > drank g lab roots je.1)) = 1 := by
  apply le_antisymm
  · apply countInc_le_one_of_eq
    · intro x _ hp
      simp only [Bool.and_eq_true, decide_eq_true_eq] at hp
      intro h
      rw [h] at hp
      omega
    · intro x hx hpx y hy hpy
      simp only [Bool.and_eq_true, decide_eq_true_eq] at hpx hpy
      have h1 := (sf_lower g lab roots (mem_incident.1 (show (x.1, x.2) ∈ g.incident v from hx))
        hpx.1 hpx.2).2
      have h2 := (sf_lower g lab roots (mem_incident.1 (show (y.1, y.2) ∈ g.incident v from hy))
        hpy.1 hpy.2).2
      rw [h1] at h2
      exact Option.some.inj h2
  · obtain ⟨j, e, hp⟩ := par_exists g lab roots hreach h3 hv hr
    obtain ⟨hJ, _, hlt⟩ := par_spec g lab roots hp
    apply countInc_pos_iff.2
    refine ⟨j, e, hJ, ?_⟩
    simp only [Bool.and_eq_true, decide_eq_true_eq]
    exact ⟨sf_of_par g lab roots hv hr hp, hlt⟩

theorem edge_ok (hwf : g.wf = true) {i : Nat} (je : Nat × Nat) (hje : je ∈ g.incident i)
    (hlt : i < je.1) (hsf : sf g lab roots je.2 = true) :
    lab i = lab je.1 ∧ drank g lab roots i ≠ drank g lab roots je.1 := by
  have hJ : Joins g je.2 i je.1 := mem_incident.1 (show (je.1, je.2) ∈ g.incident i from hje)
  obtain ⟨hi, hj⟩ := joins_lt hwf hJ
  obtain ⟨w, hw, hrw, j', hp⟩ := sf_spec g lab roots hsf
  obtain ⟨hJ', hl, _⟩ := par_spec g lab roots hp
  refine ⟨?_, ?_⟩
  · rcases joins_unique hJ hJ' with ⟨h1, h2⟩ | ⟨h1, h2⟩
    · rw [h1, h2]; exact hl.symm
    · rw [h1, h2]; exact hl
  · intro heq
    have := rk_inj g.n (depth g lab roots) hi hj (by unfold drank at heq; exact_mod_cast heq)
    omega

theorem per_le (c : Int) :
    ((List.range g.n).filter fun v => droot g lab roots v && decide (lab v = c)).length ≤ 1 := by
  apply length_le_one_of_nodup (List.Nodup.filter _ List.nodup_range)
  intro x hx y hy
  simp only [List.mem_filter, droot, Bool.and_eq_true, decide_eq_true_eq] at hx hy
  obtain ⟨_, h1, h2⟩ := hx
  obtain ⟨_, h3, h4⟩ := hy
  rw [h2] at h1
  rw [h4] at h3
  exact h1.symm.trans h3

theorem per_eq {c : Int}
    (h3 : ∀ (c r : Nat), roots[c]? = some (some r) → r < g.n ∧ lab r = (c : Int))
    (hne : ∃ v, v < g.n ∧ lab v = c) :
    ((List.range g.n).filter fun v => droot g lab roots v && decide (lab v = c)).length = 1 := by
  apply le_antisymm (per_le g lab roots c)
  obtain ⟨hrn, hrl⟩ := rootOf_spec g lab roots h3 hne
  apply List.length_pos_iff_exists_mem.2
  refine ⟨rootOf g lab roots c, ?_⟩
  simp only [List.mem_filter, List.mem_range, droot, Bool.and_eq_true, decide_eq_true_eq]
  exact ⟨hrn, by rw [hrl], hrl⟩

end Completeness

theorem reach_of_ok {g : Graph} {lab : Nat → Int} {k : Nat}
    (hrange : ∀ v, v < g.n → 0 ≤ lab v ∧ lab v < (k : Int))
    (hok : ∀ c, c < k → ((toSimple g).induce (labelClass g lab (c : Int))).Preconnected)
    (u v : Fin g.n) (h : lab u.1 = lab v.1) : (H g lab).Reachable u v := by
  obtain ⟨h0, h1⟩ := hrange u.1 u.2
  have hc : ((lab u.1).toNat : Int) = lab u.1 := Int.toNat_of_nonneg h0
  exact reach_H_of_preconnected (hok (lab u.1).toNat (by omega)) u v hc.symm
    (by rw [hc]; exact h.symm)

theorem ok_cert {g : Graph} {lab : Nat → Int} {k : Nat} {roots : List (Option Nat)}
    {allowEmpty : Bool} (hwf : g.wf = true)
    (hrange : ∀ v, v < g.n → 0 ≤ lab v ∧ lab v < (k : Int))
    (hok : DivisionOK g lab k roots allowEmpty) : Nonempty (DivCert g lab k roots allowEmpty) := by
  obtain ⟨h1, h2, h3⟩ := hok
  have hreach := reach_of_ok hrange h1
  refine ⟨{ rank := drank g lab roots, root := droot g lab roots, sf := sf g lab roots,
            rank_lo := ?_, rank_hi := ?_, edge := ?_, loc := ?_, per := ?_, rts := ?_ }⟩
  · intro i _; unfold drank; omega
  · intro i hi
    have := rk_lt g.n (depth g lab roots) hi
    unfold drank; omega
  · intro i _ je hje hlt hsf
    exact edge_ok g lab roots hwf je hje hlt hsf
  · intro i hi
    cases hr : droot g lab roots i
    · simpa using loc_nonroot g lab roots hreach h3 hi hr
    · simpa using loc_root g lab roots hr
  · intro c hc
    cases allowEmpty
    · simp only [Bool.false_eq_true, if_false]
      exact per_eq g lab roots h3 (h2 rfl c hc)
    · simp only [if_true]
      exact per_le g lab roots _
  · intro c r h
    refine ⟨(h3 c r h).2, ?_⟩
    simp only [droot, decide_eq_true_eq]
    rw [(h3 c r h).2]
    exact rootOf_prescribed g lab roots h

/-! ### Main theorem -/

theorem div_cert_iff (g : Graph) (lab : Nat → Int) (k : Nat) (roots : List (Option Nat)) (allowEmpty : Bool)
    (hwf : g.wf = true)
    (hrange : ∀ v, v < g.n → 0 ≤ lab v ∧ lab v < (k : Int))
    (hroots : ∀ (c r : Nat), roots[c]? = some (some r) → r < g.n) :
    Nonempty (DivCert g lab k roots allowEmpty) ↔ DivisionOK g lab k roots allowEmpty :=
  ⟨fun ⟨c⟩ => cert_ok hwf hroots c, ok_cert hwf hrange⟩

end Cspuz.Proofs.C05L2
