/-
  C11 / firefly — COMPLETENESS of the arithmetic certificate: every drawing that obeys the published rules
  (`Spec.Firefly.RulesOn`) admits the certificate `C11FireflyCert.Cert` that the program of `solve_firefly` asks for.

  Parts: `C11FireflyCompleteA` (lines, determinism, exclusivity), `C11FireflyCompleteB` (orientation and the
  turn counter), `C11FireflyCompleteD` (root firefly, ignored step, rank).
-/
import CspuzModel.Proofs.C11FireflyCompleteB
import CspuzModel.Proofs.C11FireflyCompleteD
import Mathlib.Data.List.GetD
namespace Cspuz.Proofs.C11FireflyComplete
open Cspuz Cspuz.Spec Cspuz.Spec.FrameGeom Cspuz.Spec.Loop
open Cspuz.Spec.Firefly (firefly segOf opp clue armCount steps walk bends Follows IsLine EndsAt Linked RulesOn
  WellFormed)
open Cspuz.Puzzles.Firefly (Problem Clue Num)
open Cspuz.Proofs.C11FireflyCert Cspuz.Proofs.C11FireflyCompleteA Cspuz.Proofs.C11FireflyCompleteB
  Cspuz.Proofs.C11FireflyCompleteD

/-- A firefly of a well-formed problem is on the board. -/
theorem fly_inB {pb : Problem} (hwf : WellFormed pb) {p : Pt} {d : Dir} {n : Option Int}
    (hf : firefly pb p = some (d, n)) : InB (pb.height - 1) (pb.width - 1) p := by
  obtain ⟨h1, h2, hlen, hrow, _⟩ := hwf
  have hne : clue pb p.1 p.2 ≠ .empty := by
    intro he
    simp [firefly, he] at hf
  have hy : p.1 < pb.height := by
    by_contra hcon
    apply hne
    unfold clue
    rw [List.getD_eq_default pb.problem [] (n := p.1) (by omega)]
    rfl
  have hx : p.2 < pb.width := by
    by_contra hcon
    apply hne
    unfold clue
    have hmem : pb.problem.getD p.1 [] ∈ pb.problem := by
      rw [List.getD_eq_getElem _ _ (by omega)]
      exact List.getElem_mem _
    rw [List.getD_eq_default _ _ (by rw [hrow _ hmem]; omega)]
  exact ⟨by omega, by omega⟩

theorem isLine_tail {pb : Problem} {on : Seg → Bool} {p : Pt} {d : Dir} {ds : List Dir}
    (hp : InB (pb.height - 1) (pb.width - 1) p) (h : IsLine pb on p d ds) :
    Tail pb (pb.height - 1) (pb.width - 1) on p d ds :=
  ⟨hp, h.1, (fol_iff pb on _ _ _).2 h.2⟩

theorem ctxB {pb : Problem} (hwf : WellFormed pb) {unk : Int} (hpos : 0 < unk)
    (hunk : ∀ y x d k, y ≤ pb.height - 1 → x ≤ pb.width - 1 → firefly pb (y, x) = some (d, some k) → k < unk)
    {on : Seg → Bool} (h : RulesOn pb on) : Ctx pb (pb.height - 1) (pb.width - 1) on unk := by
  have h1 := hwf.1
  have h2 := hwf.2.1
  refine ⟨hpos, fun p d n hf => fly_inB hwf hf, ?_, ?_, ?_⟩
  · intro p d n hf
    have hp := fly_inB hwf hf
    obtain ⟨ds, hl, hk⟩ := h.lines p.1 (by have := hp.1; omega) p.2 (by have := hp.2; omega) d n hf
    exact ⟨ds, isLine_tail hp hl, hk⟩
  · intro s hs hon
    obtain ⟨p, d, n, ds, hf, hl, hm⟩ := h.covered s hs hon
    obtain ⟨st, hst, rfl⟩ := List.mem_map.1 hm
    exact ⟨st.1, st.2, ⟨p, d, n, ds, hf, isLine_tail (fly_inB hwf hf) hl, hst⟩, rfl⟩
  · intro p d k hf
    have hp := fly_inB hwf hf
    exact hunk p.1 p.2 d k hp.1 hp.2 hf

theorem ctxD {pb : Problem} (hwf : WellFormed pb) {on : Seg → Bool} (h : RulesOn pb on) :
    CtxD pb (pb.height - 1) (pb.width - 1) on := by
  have h1 := hwf.1
  have h2 := hwf.2.1
  refine ⟨fun p d n hf => fly_inB hwf hf, ?_, ?_, ?_, ?_⟩
  · intro p d n hf
    have hp := fly_inB hwf hf
    obtain ⟨ds, hl, _⟩ := h.lines p.1 (by have := hp.1; omega) p.2 (by have := hp.2; omega) d n hf
    exact ⟨ds, isLine_tail hp hl⟩
  · rintro p q ⟨d, n, ds, hf, hl, hw⟩
    exact ⟨d, n, ds, hf, isLine_tail (fly_inB hwf hf) hl, hw⟩
  · obtain ⟨y, _, x, _, hs⟩ := hwf.2.2.2.2.2
    obtain ⟨v, hv⟩ := Option.isSome_iff_exists.1 hs
    exact ⟨(y, x), v.1, v.2, hv⟩
  · intro p q hp hq
    obtain ⟨v, hv⟩ := Option.isSome_iff_exists.1 hp
    obtain ⟨w, hw⟩ := Option.isSome_iff_exists.1 hq
    have bp := fly_inB hwf (d := v.1) (n := v.2) hv
    have bq := fly_inB hwf (d := w.1) (n := w.2) hw
    exact h.connected p q hp hq (by have := bp.1; omega) (by have := bp.2; omega)
      (by have := bq.1; omega) (by have := bq.2; omega)

/-- Exactly one step is ignored. -/
theorem one_ignored (H W : Nat) (e : Seg) (he : e.Valid H W) :
    ((allSegs H W).filter fun s => decide (s = e)).length = 1 := by
  have h1 := List.count_eq_one_of_mem (C14.allSegs_nodup H W) ((C14.mem_allSegs H W e).2 he)
  rw [List.count_eq_length_filter] at h1
  rw [← h1]
  congr 1

/-- COMPLETENESS: a drawing that obeys the rules has a certificate. -/
theorem cert_of_rules (pb : Cspuz.Puzzles.Firefly.Problem) (H W : Nat)
    (hH : pb.height = H + 1) (hW : pb.width = W + 1) (hwf : Cspuz.Spec.Firefly.WellFormed pb) (unk : Int)
    (hpos : 0 < unk)
    (hunk : ∀ y x d k, y ≤ H → x ≤ W → Cspuz.Spec.Firefly.firefly pb (y, x) = some (d, some k) → k < unk)
    (on : Cspuz.Spec.FrameGeom.Seg → Bool) (h : Cspuz.Spec.Firefly.RulesOn pb on) :
    Cspuz.Proofs.C11FireflyCert.HasCert pb H W unk on := by
  obtain rfl : H = pb.height - 1 := by omega
  obtain rfl : W = pb.width - 1 := by omega
  have cB := ctxB hwf hpos hunk h
  have cD := ctxD hwf h
  obtain ⟨a, da, na, T, ha, hT, hper⟩ := exists_root cD
  have hoa := live_fly cD ha
  have hstep : ∀ (p : Pt) (d : Dir), Out pb (pb.height - 1) (pb.width - 1) on p d → segOf p d ≠ segOf a da →
      rankF pb (pb.height - 1) (pb.width - 1) on a (nb p d) < rankF pb (pb.height - 1) (pb.width - 1) on a p := by
    intro p d ho hne
    have hpa : p ≠ a := by
      rintro rfl
      exact hne (by rw [out_fly ho ha])
    obtain ⟨r1, r2⟩ := reach_out cD ha hT hper ho
    exact rank_dec ho hpa r1 r2
  exact ⟨{
    ul := ulF pb (pb.height - 1) (pb.width - 1) on
    dr := drF pb (pb.height - 1) (pb.width - 1) on
    ig := fun s => decide (s = segOf a da)
    rank := rankF pb (pb.height - 1) (pb.width - 1) on a
    nt := ntF pb (pb.height - 1) (pb.width - 1) on unk
    orient := fun s hs => orient_ok cB s hs
    oneIgnored := one_ignored _ _ _ (segOf_valid hoa.inB hoa.has)
    rankBound := fun p hy hx => rank_bound ⟨hy, hx⟩
    ntBound := fun s _ => nt_bound cB s
    rankUl := by
      intro s _ hul hig
      have hne : s ≠ segOf a da := by simpa using hig
      cases s with
      | v y x =>
        have ho : Out pb (pb.height - 1) (pb.width - 1) on (y + 1, x) .up := by simpa [ulF] using hul
        have := hstep _ _ ho (by simpa [segOf] using hne)
        simpa [nb, Seg.ends] using this
      | h y x =>
        have ho : Out pb (pb.height - 1) (pb.width - 1) on (y, x + 1) .left := by simpa [ulF] using hul
        have := hstep _ _ ho (by simpa [segOf] using hne)
        simpa [nb, Seg.ends] using this
    rankDr := by
      intro s _ hdr hig
      have hne : s ≠ segOf a da := by simpa using hig
      cases s with
      | v y x =>
        have ho : Out pb (pb.height - 1) (pb.width - 1) on (y, x) .down := by simpa [drF] using hdr
        have := hstep _ _ ho (by simpa [segOf] using hne)
        simpa [nb, Seg.ends] using this
      | h y x =>
        have ho : Out pb (pb.height - 1) (pb.width - 1) on (y, x) .right := by simpa [drF] using hdr
        have := hstep _ _ ho (by simpa [segOf] using hne)
        simpa [nb, Seg.ends] using this
    flies := fun y _ x _ d n hf => fly_ok cB (y, x) d n hf
    empties := fun y _ x _ hf => empty_ok (y, x) hf }⟩

end Cspuz.Proofs.C11FireflyComplete
