/-
  C11 / akari, part A — the Python-level glue of `solve_akari` on a well-formed problem: table reads,
  `has_light[p]`, the `takeWhite` loops, and the four kinds of posted constraints with their meaning.
-/
import CspuzModel.Spec.PuzzleRules.Akari
import CspuzModel.Proofs.C11Grid
import CspuzModel.Proofs.C12Conv
namespace Cspuz.Proofs.C11AkariA
open Cspuz Cspuz.Spec Cspuz.Puzzles Cspuz.Puzzles.Akari Cspuz.Spec.Akari Cspuz.Proofs

/-- The test `problem[y][x] < -1` of the code. -/
def isW (pb : Problem) (p : Nat × Nat) : Bool := decide (val pb p.1 p.2 < -1)

/-- The variable `has_light[p]`. -/
def lv (pb : Problem) (p : Nat × Nat) : Expr := .bvar (p.1 * pb.width + p.2)

/-- The value of `has_light[p]` under an assignment. -/
def lit (pb : Problem) (σ : Asg) (p : Nat × Nat) : Bool := σ.b (p.1 * pb.width + p.2)

/-- `p` is a cell of the board. -/
def InB (pb : Problem) (p : Nat × Nat) : Prop := p.1 < pb.height ∧ p.2 < pb.width

/-! ### The problem table -/

theorem cell_eq {pb : Problem} (hwf : WellFormed pb) {y x : Nat} (hy : y < pb.height) (hx : x < pb.width) :
    cell pb y x = .ok (val pb y x) := by
  obtain ⟨hl, hr⟩ := hwf
  have hy' : y < pb.problem.length := by omega
  have hrow : (pb.problem[y]).length = pb.width := (hr _ (List.getElem_mem hy')).1
  simp only [cell, tableGet, val]
  rw [Cspuz.Proofs.C13.pyIndex_natCast _ _ hy', List.getElem?_eq_getElem hy']
  simp only [ok_bind]
  rw [Cspuz.Proofs.C13.pyIndex_natCast _ _ (by omega), List.getElem?_eq_getElem (by omega)]
  simp [List.getD, List.getElem?_eq_getElem hy', List.getElem?_eq_getElem (show x < (pb.problem[y]).length by omega)]

theorem val_ge {pb : Problem} (hwf : WellFormed pb) (y x : Nat) : -2 ≤ val pb y x := by
  obtain ⟨hl, hr⟩ := hwf
  unfold val
  by_cases hy : y < pb.problem.length
  · have hm : pb.problem[y] ∈ pb.problem := List.getElem_mem hy
    by_cases hx : x < (pb.problem[y]).length
    · have := (hr _ hm).2 _ (List.getElem_mem hx)
      simpa [List.getD, List.getElem?_eq_getElem hy, List.getElem?_eq_getElem hx] using this
    · simp [List.getD, List.getElem?_eq_getElem hy, List.getElem?_eq_none (Nat.le_of_not_lt hx)]
  · simp [List.getD, List.getElem?_eq_none (Nat.le_of_not_lt hy)]

theorem val_out {pb : Problem} (hwf : WellFormed pb) (y x : Nat) (h : ¬ (y < pb.height ∧ x < pb.width)) :
    val pb y x = -1 := by
  obtain ⟨hl, hr⟩ := hwf
  unfold val
  by_cases hy : y < pb.problem.length
  · have hm : pb.problem[y] ∈ pb.problem := List.getElem_mem hy
    have hrow := (hr _ hm).1
    have hx : ¬ x < (pb.problem[y]).length := by omega
    simp [List.getD, List.getElem?_eq_getElem hy, List.getElem?_eq_none (Nat.le_of_not_lt hx)]
  · simp [List.getD, List.getElem?_eq_none (Nat.le_of_not_lt hy)]

/-- Under well-formedness the code's test `< -1` is the spec's `White`. -/
theorem isW_iff {pb : Problem} (hwf : WellFormed pb) (p : Nat × Nat) :
    isW pb p = true ↔ White pb p.1 p.2 := by
  have hge := val_ge hwf p.1 p.2
  simp only [isW, decide_eq_true_eq, White]
  constructor
  · intro h
    by_cases hin : p.1 < pb.height ∧ p.2 < pb.width
    · exact ⟨hin.1, hin.2, by omega⟩
    · have := val_out hwf p.1 p.2 hin; omega
  · rintro ⟨_, _, h⟩; omega

theorem isW_inB {pb : Problem} (hwf : WellFormed pb) {p : Nat × Nat} (h : isW pb p = true) : InB pb p := by
  have := (isW_iff hwf p).1 h
  exact ⟨this.1, this.2.1⟩

/-! ### `has_light[p]` -/

theorem lightAt_eq (pb : Problem) {p : Nat × Nat} (hp : InB pb p) : lightAt pb p = .ok (lv pb p) := by
  unfold lightAt lv
  have hl : (bvars 0 (pb.height * pb.width)).length = pb.height * pb.width := by simp [bvars]
  have := (Cspuz.Proofs.C12Conv.getCell_eq (bvars 0 (pb.height * pb.width)) pb.height pb.width hl
    (p.1 : Int) (p.2 : Int) ⟨by omega, by have := hp.1; omega⟩ ⟨by omega, by have := hp.2; omega⟩).1
  rw [this]
  have hlt := C11Grid.cell_lt hp.1 hp.2
  simp [bvars, List.getD, hlt]

theorem lightAt_mapM (pb : Problem) {l : List (Nat × Nat)} (hl : ∀ p ∈ l, InB pb p) :
    l.mapM (lightAt pb) = .ok (l.map (lv pb)) :=
  mapM_eq_ok_map fun p hp => lightAt_eq pb (hl p hp)

/-! ### The scanning loops -/

theorem takeWhite_eq {pb : Problem} (hwf : WellFormed pb) :
    ∀ {l : List (Nat × Nat)}, (∀ p ∈ l, InB pb p) → takeWhite pb l = .ok (l.takeWhile (isW pb))
  | [], _ => rfl
  | p :: r, h => by
    have hp := h p (by simp)
    rw [takeWhite, cell_eq hwf hp.1 hp.2]
    simp only [ok_bind]
    by_cases hw : val pb p.1 p.2 < -1
    · rw [if_pos hw, takeWhite_eq hwf (l := r) (fun q hq => h q (by simp [hq]))]
      simp [List.takeWhile, isW, hw]
    · rw [if_neg hw]
      simp [List.takeWhile, isW, hw]

/-! ### Expression facts for lists of light variables -/

theorem lv_map_eval (pb : Problem) (σ : Asg) (l : List (Nat × Nat)) :
    (l.map (lv pb)).map (eval σ) = (l.map (lit pb σ)).map (fun b => some (.b b)) := by
  simp [lv, lit, List.map_map, Function.comp_def]

theorem lv_boolLike (pb : Problem) (l : List (Nat × Nat)) : ∀ x ∈ l.map (lv pb), x.isBoolLike = true := by
  intro x hx
  simp only [List.mem_map] at hx
  obtain ⟨p, _, rfl⟩ := hx
  rfl

theorem ctConst_lv (pb : Problem) : ∀ l : List (Nat × Nat), ctConst (l.map (lv pb)) = 0
  | [] => rfl
  | p :: r => by simp [lv, ctConst, ctConst_lv pb r]

theorem ctOps_lv (pb : Problem) : ∀ l : List (Nat × Nat),
    ctOps (l.map (lv pb)) = l.map fun p => .node .ite [lv pb p, .litI 1, .litI 0]
  | [] => rfl
  | p :: r => by
    have := ctOps_lv pb r
    simp only [List.map_cons, lv, ctOps] at this ⊢
    rw [this]

theorem wtIs_ite_lv (pb : Problem) : ∀ l : List (Nat × Nat),
    wtIs (l.map fun p => .node .ite [lv pb p, .litI 1, .litI 0]) = true
  | [] => rfl
  | p :: r => by
    simp only [List.map_cons, wtIs, Bool.and_eq_true]
    exact ⟨by simp [wtI, wtB, lv], wtIs_ite_lv pb r⟩

theorem wtI_countTrueE_lv (pb : Problem) (l : List (Nat × Nat)) : wtI (countTrueE (l.map (lv pb))) = true := by
  unfold countTrueE
  simp only [ctConst_lv, Nat.lt_irrefl, gt_iff_lt, if_false, ctOps_lv]
  cases l with
  | nil => simp [wtI]
  | cons p r =>
    simp only [List.map_cons, List.isEmpty_cons, Bool.false_eq_true, if_false, wtI]
    have := wtIs_ite_lv pb (p :: r)
    simp only [List.map_cons] at this
    simp [this]

theorem countTrueE_isNode (l : List Expr) : ∃ op args, countTrueE l = .node op args ∧ op.isIntOp = true := by
  simp only [countTrueE]
  split <;> split <;> first | exact ⟨.intConst, _, rfl, rfl⟩ | exact ⟨.add, _, rfl, rfl⟩

theorem countTrueE_cmp (op : Op) (l : List Expr) (v : Int) :
    cmpPy op (countTrueE l) (.litI v) = .ok (.node op [countTrueE l, .litI v]) := by
  obtain ⟨o, args, he, ho⟩ := countTrueE_isNode l
  rw [he]
  simp [cmpPy, Expr.isIntExpr, ho, Expr.isIntLike]

theorem eval_countTrueE_lv (pb : Problem) (σ : Asg) (l : List (Nat × Nat)) :
    eval σ (countTrueE (l.map (lv pb))) = some (.i ((l.countP (lit pb σ) : Nat) : Int)) := by
  rw [eval_countTrueE (l.map (lit pb σ)) (lv_map_eval pb σ l)]
  rw [List.count_eq_countP, List.countP_map]
  congr 4
  funext p; simp

theorem wtBs_lv (pb : Problem) : ∀ l : List (Nat × Nat), wtBs (l.map (lv pb)) = true
  | [] => rfl
  | p :: r => by
    simp only [List.map_cons, wtBs, Bool.and_eq_true]
    exact ⟨rfl, wtBs_lv pb r⟩

theorem foldOr_go_bvars (pb : Problem) : ∀ (l : List (Nat × Nat)) (acc : List Expr), (l ≠ [] ∨ acc ≠ []) →
    foldOr.go (l.map (lv pb)) acc = .ok (.node .or (acc.reverse ++ l.map (lv pb)))
  | [], acc, h => by
    have : acc ≠ [] := by rcases h with h | h; exact absurd rfl h; exact h
    cases acc with
    | nil => exact absurd rfl this
    | cons a r => simp [foldOr.go]
  | p :: r, acc, _ => by
    simp only [List.map_cons, lv, foldOr.go, Expr.isBoolExpr, if_true]
    have := foldOr_go_bvars pb r (Expr.bvar (p.1 * pb.width + p.2) :: acc) (Or.inr (by simp))
    rw [this]
    simp

theorem foldOr_lv (pb : Problem) (p : Nat × Nat) (l : List (Nat × Nat)) :
    foldOr ((p :: l).map (lv pb)) = .ok (.node .or ((p :: l).map (lv pb))) := by
  unfold foldOr
  rw [foldOr_go_bvars pb (p :: l) [] (Or.inl (by simp))]
  simp

theorem eval_or_lv (pb : Problem) (σ : Asg) (l : List (Nat × Nat)) :
    eval σ (.node .or (l.map (lv pb))) = some (.b (l.any (lit pb σ))) := by
  rw [eval_node, lv_map_eval, evalOp_or]
  simp [List.any_map, Function.comp_def]

/-! ### The four kinds of constraints -/

/-- `count_true(group) <= 1`. -/
def amoE (pb : Problem) (group : List (Nat × Nat)) : Expr :=
  .node .le [countTrueE (group.map (lv pb)), .litI 1]

theorem atMostOne_eq (pb : Problem) {group : List (Nat × Nat)} (hg : ∀ p ∈ group, InB pb p) :
    atMostOne pb group = .ok [amoE pb group] := by
  unfold atMostOne
  rw [lightAt_mapM pb hg]
  simp only [ok_bind]
  rw [countTrue_ok_of_boolLike (lv_boolLike pb group)]
  simp only [ok_bind]
  rw [countTrueE_cmp .le]
  simp only [ok_bind]
  rfl

theorem wtB_amoE (pb : Problem) (group : List (Nat × Nat)) : wtB (amoE pb group) = true := by
  simp [amoE, wtB, wtIs, wtI_countTrueE_lv, wtI]

theorem eval_amoE (pb : Problem) (σ : Asg) (group : List (Nat × Nat)) :
    eval σ (amoE pb group) = some (.b true) ↔ group.countP (lit pb σ) ≤ 1 := by
  unfold amoE
  rw [eval_cmp rfl (eval_countTrueE_lv pb σ group) (eval_litI σ 1)]
  simp only [cmpOp_le, Option.some.injEq, Val.b.injEq, decide_eq_true_eq]
  omega

/-- `fold_or(group)` for a non-empty group. -/
def orE (pb : Problem) (group : List (Nat × Nat)) : Expr := .node .or (group.map (lv pb))

theorem wtB_orE (pb : Problem) (group : List (Nat × Nat)) : wtB (orE pb group) = true := by
  simp [orE, wtB, wtBs_lv]

theorem eval_orE (pb : Problem) (σ : Asg) (group : List (Nat × Nat)) :
    eval σ (orE pb group) = some (.b true) ↔ ∃ q ∈ group, lit pb σ q = true := by
  unfold orE
  rw [eval_or_lv]
  simp [List.any_eq_true]

/-- `~has_light[p]`. -/
def notE' (pb : Problem) (p : Nat × Nat) : Expr := .node .not [lv pb p]

theorem notE_lv (pb : Problem) (p : Nat × Nat) : notE (lv pb p) = .ok (notE' pb p) := by
  simp [notE, makeBoolExpr, lv, notE', Op.isCmp, Expr.isBoolLike, bind, Except.bind]

theorem wtB_notE' (pb : Problem) (p : Nat × Nat) : wtB (notE' pb p) = true := by
  simp [notE', wtB, wtBs, lv]

theorem eval_notE' (pb : Problem) (σ : Asg) (p : Nat × Nat) :
    eval σ (notE' pb p) = some (.b true) ↔ lit pb σ p = false := by
  unfold notE'
  rw [eval_not (x := lit pb σ p) (by simp [lv, lit])]
  simp

/-- `count_true(neighbors) == v`. -/
def numE (pb : Problem) (nb : List (Nat × Nat)) (v : Int) : Expr :=
  .node .eq [countTrueE (nb.map (lv pb)), .litI v]

theorem wtB_numE (pb : Problem) (nb : List (Nat × Nat)) (v : Int) : wtB (numE pb nb v) = true := by
  simp [numE, wtB, wtIs, wtI_countTrueE_lv, wtI]

theorem eval_numE (pb : Problem) (σ : Asg) (nb : List (Nat × Nat)) (v : Int) :
    eval σ (numE pb nb v) = some (.b true) ↔ ((nb.countP (lit pb σ) : Nat) : Int) = v := by
  unfold numE
  rw [eval_cmp rfl (eval_countTrueE_lv pb σ nb) (eval_litI σ v)]
  simp

end Cspuz.Proofs.C11AkariA
