/-
  C11 / View, part A — closed forms of the Python-level array operations `solve_view` uses, on arrays given
  "by cell" (`gridL h w E` = row-major listing of `E y x`).
-/
import CspuzModel.Spec.PuzzleRules.View
import CspuzModel.Proofs.C11CL
import CspuzModel.Proofs.C11Grid
import CspuzModel.Proofs.C04L1
import CspuzModel.Proofs.C04Prim
import CspuzModel.Proofs.C11FragWT
namespace Cspuz.Proofs.C11ViewA
open Cspuz Cspuz.Spec Cspuz.Puzzles Cspuz.Puzzles.View Cspuz.Proofs Cspuz.Proofs.C12Elem

/-! ### row-major listings -/

/-- Row-major listing of `E y x` over an `h × w` board. -/
def gridL (h w : Nat) (E : Nat → Nat → Expr) : List Expr :=
  (List.range h).flatMap fun y => (List.range w).map fun x => E y x

theorem gridL_eq_map (h w : Nat) (E : Nat → Nat → Expr) :
    gridL h w E = (List.range (h * w)).map fun i => E (i / w) (i % w) :=
  C11Grid.flatMap_range_eq E h w

@[simp] theorem gridL_length (h w : Nat) (E : Nat → Nat → Expr) : (gridL h w E).length = h * w := by
  rw [gridL_eq_map]; simp

theorem mem_gridL {h w : Nat} {E : Nat → Nat → Expr} {c : Expr} :
    c ∈ gridL h w E ↔ ∃ y x, y < h ∧ x < w ∧ c = E y x := by
  simp only [gridL, List.mem_flatMap, List.mem_range, List.mem_map]
  constructor
  · rintro ⟨y, hy, x, hx, rfl⟩; exact ⟨y, x, hy, hx, rfl⟩
  · rintro ⟨y, x, hy, hx, rfl⟩; exact ⟨y, hy, x, hx, rfl⟩

theorem gridL_map (h w : Nat) (E : Nat → Nat → Expr) (f : Expr → Expr) :
    (gridL h w E).map f = gridL h w fun y x => f (E y x) := by
  simp [gridL, List.map_flatMap, Function.comp_def]

theorem gridL_zipWith (h w : Nat) (A B : Nat → Nat → Expr) (f : Expr → Expr → Expr) :
    List.zipWith f (gridL h w A) (gridL h w B) = gridL h w fun y x => f (A y x) (B y x) := by
  simp only [gridL_eq_map, List.zipWith_map, List.zipWith_self]

/-- An array of fresh variables `f 0, f 1, …` by cell. -/
theorem fresh_eq_gridL (h w : Nat) (f : Nat → Expr) :
    (List.range (h * w)).map f = gridL h w fun y x => f (y * w + x) := by
  rw [gridL_eq_map]
  apply List.map_congr_left
  intro i _
  rw [Nat.div_add_mod' i w]

theorem gridL_congr {h w : Nat} {A B : Nat → Nat → Expr} (hAB : ∀ y, y < h → ∀ x, x < w → A y x = B y x) :
    gridL h w A = gridL h w B := by
  simp only [gridL]
  apply List.flatMap_congr
  intro y hy
  apply List.map_congr_left
  intro x hx
  exact hAB y (List.mem_range.1 hy) x (List.mem_range.1 hx)

/-! ### index selection -/

theorem axisSel_last (n : Nat) (hn : 1 ≤ n) : axisSel n (.idx (-1)) = .ok (true, [n - 1]) := by
  simp only [axisSel]
  rw [if_pos (by omega), if_pos (by omega)]
  congr 3
  omega

theorem axisSel_zero (n : Nat) (hn : 1 ≤ n) : axisSel n (.idx 0) = .ok (true, [0]) :=
  C11CL.axisSel_idx n 0 (by omega)

/-- An index (given by its selection) and the full slice: a row. -/
theorem getitemV_rowSel (k : Bool) (f : Nat → Expr) (h w : Nat) (ky : AxisKey) (y : Nat)
    (hy : y < h) (hky : axisSel h ky = .ok (true, [y])) :
    getitemV (.arr2 k h w (gridL h w fun y x => f (y * w + x))) (.pair ky fullSlice)
      = .ok (.arr1 k ((List.range w).map fun x => f (y * w + x))) := by
  rw [← fresh_eq_gridL]
  simp only [getitemV]
  rw [Cspuz.Proofs.C13.getitem2D_eq_spec _ _ h w _ (by simp)]
  simp only [specGetitem, specPair, hky, C11CL.axisSel_full, bind, Except.bind]
  rw [C11CL.sel_fresh f h w [y] (List.range w) (by simpa using hy) (fun x hx => List.mem_range.1 hx)]
  simp [Except.map, idxToPyV]

/-- The full slice and an index (given by its selection): a column. -/
theorem getitemV_colSel (k : Bool) (f : Nat → Expr) (h w : Nat) (kx : AxisKey) (x : Nat)
    (hx : x < w) (hkx : axisSel w kx = .ok (true, [x])) :
    getitemV (.arr2 k h w (gridL h w fun y x => f (y * w + x))) (.pair fullSlice kx)
      = .ok (.arr1 k ((List.range h).map fun y => f (y * w + x))) := by
  rw [← fresh_eq_gridL]
  simp only [getitemV]
  rw [Cspuz.Proofs.C13.getitem2D_eq_spec _ _ h w _ (by simp)]
  simp only [specGetitem, specPair, hkx, C11CL.axisSel_full, bind, Except.bind]
  rw [C11CL.sel_fresh f h w (List.range h) [x] (fun y hy => List.mem_range.1 hy) (by simpa using hx)]
  have e : ∀ l : List Nat, (l.flatMap fun y => [f (y * w + x)]) = l.map fun y => f (y * w + x) := by
    intro l
    induction l with
    | nil => rfl
    | cons a l ih => simp [List.flatMap_cons, ih]
  simp [Except.map, idxToPyV, e]

/-- `A[:-1, :]` -/
theorem getitemV_upper (k : Bool) (f : Nat → Expr) (h w : Nat) :
    getitemV (.arr2 k h w (gridL h w fun y x => f (y * w + x))) (.pair (sl none (some (-1))) fullSlice)
      = .ok (.arr2 k (h - 1) w (gridL (h - 1) w fun y x => f (y * w + x))) := by
  unfold sl
  rw [← fresh_eq_gridL, C11CL.getitemV_slices k f h w _ _ (List.range (h - 1)) (List.range w)
    (C11CL.axisSel_upto h) (C11CL.axisSel_full w)
    (fun y hy => by have := List.mem_range.1 hy; omega) (fun x hx => List.mem_range.1 hx)]
  simp [gridL]

/-- `A[1:, :]` -/
theorem getitemV_lower (k : Bool) (f : Nat → Expr) (h w : Nat) :
    getitemV (.arr2 k h w (gridL h w fun y x => f (y * w + x))) (.pair (sl (some 1) none) fullSlice)
      = .ok (.arr2 k (h - 1) w (gridL (h - 1) w fun y x => f ((y + 1) * w + x))) := by
  unfold sl
  rw [← fresh_eq_gridL, C11CL.getitemV_slices k f h w _ _ ((List.range (h - 1)).map fun j => j + 1) (List.range w)
    (C11CL.axisSel_from1 h) (C11CL.axisSel_full w)
    (fun y hy => by
      simp only [List.mem_map, List.mem_range] at hy
      obtain ⟨j, hj, rfl⟩ := hy; omega) (fun x hx => List.mem_range.1 hx)]
  simp [gridL, List.flatMap_map]

/-- `A[:, :-1]` -/
theorem getitemV_lefts (k : Bool) (f : Nat → Expr) (h w : Nat) :
    getitemV (.arr2 k h w (gridL h w fun y x => f (y * w + x))) (.pair fullSlice (sl none (some (-1))))
      = .ok (.arr2 k h (w - 1) (gridL h (w - 1) fun y x => f (y * w + x))) := by
  unfold sl
  rw [← fresh_eq_gridL, C11CL.getitemV_slices k f h w _ _ (List.range h) (List.range (w - 1))
    (C11CL.axisSel_full h) (C11CL.axisSel_upto w)
    (fun y hy => List.mem_range.1 hy) (fun x hx => by have := List.mem_range.1 hx; omega)]
  simp [gridL]

/-- `A[:, 1:]` -/
theorem getitemV_rights (k : Bool) (f : Nat → Expr) (h w : Nat) :
    getitemV (.arr2 k h w (gridL h w fun y x => f (y * w + x))) (.pair fullSlice (sl (some 1) none))
      = .ok (.arr2 k h (w - 1) (gridL h (w - 1) fun y x => f (y * w + (x + 1)))) := by
  unfold sl
  rw [← fresh_eq_gridL, C11CL.getitemV_slices k f h w _ _ (List.range h) ((List.range (w - 1)).map fun j => j + 1)
    (C11CL.axisSel_full h) (C11CL.axisSel_from1 w)
    (fun y hy => List.mem_range.1 hy) (fun x hx => by
      simp only [List.mem_map, List.mem_range] at hx
      obtain ⟨j, hj, rfl⟩ := hx; omega)]
  simp [gridL, List.map_map, Function.comp_def]

theorem getitemV_cellG (k : Bool) (f : Nat → Expr) (h w : Nat) (y x : Nat) (hy : y < h) (hx : x < w) :
    getitemV (.arr2 k h w (gridL h w fun y x => f (y * w + x))) (.pair (.idx (y : Int)) (.idx (x : Int)))
      = .ok (.scalar (f (y * w + x))) := by
  rw [← fresh_eq_gridL]
  exact C11CL.getitemV_cell k f h w y x hy hx

/-! ### element-wise operators -/

theorem ewData2_arr2_scalar (op : Op) (k : Bool) (h w : Nat) (A : List Expr) (e : Expr) (hA : A.length = h * w) :
    ewData op (.d2 h w) [.arr2 k h w A, .scalar e] = A.map fun a => .node op [a, e] := by
  apply List.ext_getElem
  · simp [ewData, Shape.size, hA]
  · intro i h1 h2
    simp only [ewData, Shape.size, List.length_map, List.length_range] at h1
    have hiA : i < A.length := by omega
    simp [ewData, C12Elem.get, elem?, hiA]

theorem ewData2_arr1_scalar (op : Op) (k : Bool) (A : List Expr) (e : Expr) :
    ewData op (.d1 A.length) [.arr1 k A, .scalar e] = A.map fun a => .node op [a, e] := by
  apply List.ext_getElem
  · simp [ewData, Shape.size]
  · intro i h1 h2
    simp only [ewData, Shape.size, List.length_map, List.length_range] at h1
    simp [ewData, C12Elem.get, elem?, h1]

theorem ewData3_cond (h w : Nat) (C T : List Expr) (e : Expr) (hC : C.length = h * w) (hT : T.length = h * w) :
    ewData .ite (.d2 h w) [.arr2 true h w C, .scalar e, .arr2 false h w T]
      = List.zipWith (fun c t => .node .ite [c, e, t]) C T := by
  apply List.ext_getElem
  · simp [ewData, Shape.size, hC, hT]
  · intro i h1 h2
    simp only [ewData, Shape.size, List.length_map, List.length_range] at h1
    have hiC : i < C.length := by omega
    have hiT : i < T.length := by omega
    simp [ewData, C12Elem.get, elem?, hiC, hiT]

theorem conf2 {sh : Shape} {a b : PyV} (ha : Conf sh a) (hb : Conf sh b) : ∀ x ∈ [a, b], Conf sh x := by
  intro x hx
  simp only [List.mem_cons, List.mem_nil_iff, or_false] at hx
  rcases hx with rfl | rfl
  · exact ha
  · exact hb

/-- `A == B`, `A != B`, `A + B` on two integer 2-D arrays of the same shape. -/
theorem binop_int_arr2 (o : BinOp) (op : Op)
    (ho : (o = .eq ∧ op = .eq) ∨ (o = .ne ∧ op = .ne) ∨ (o = .add ∧ op = .add))
    (h w : Nat) (A B : Nat → Nat → Expr) :
    binop o (.arr2 false h w (gridL h w A)) (.arr2 false h w (gridL h w B)) =
      .ok (.arr2 op.isBoolOp h w (gridL h w fun y x => .node op [A y x, B y x])) := by
  have he : elementwise op (.d2 h w) [.arr2 false h w (gridL h w A), .arr2 false h w (gridL h w B)] = _ :=
    elementwise_ok (by rcases ho with ⟨_, rfl⟩ | ⟨_, rfl⟩ | ⟨_, rfl⟩ <;> simp [ewTypeCheck, Op.isCmp, PyV.isIntLike])
      (conf2 (C11CL.conf_arr2 _ _ _ _ (gridL_length _ _ _)) (C11CL.conf_arr2 _ _ _ _ (gridL_length _ _ _)))
  rw [C11CL.ewData2_arr2 _ _ _ _ _ _ _ (gridL_length _ _ _) (gridL_length _ _ _), gridL_zipWith] at he
  rcases ho with ⟨rfl, rfl⟩ | ⟨rfl, rfl⟩ | ⟨rfl, rfl⟩ <;>
  simp [binop, tryMeth, callMethod, PyV.cls, Cls.defines, arrayMethod, Cls.arrKind?, binarySpec, unarySpec,
    PyV.shape?, PyV.data?, swapIf, BinOp.isCmp, BinOp.meth, he, mkArr, Op.isBoolOp, Cls.properSubclass]

/-- `A == e`, `A + e` on an integer 2-D array and an integer literal. -/
theorem binop_int_arr2_lit (o : BinOp) (op : Op)
    (ho : (o = .eq ∧ op = .eq) ∨ (o = .add ∧ op = .add))
    (h w : Nat) (A : Nat → Nat → Expr) (v : Int) :
    binop o (.arr2 false h w (gridL h w A)) (.scalar (.litI v)) =
      .ok (.arr2 op.isBoolOp h w (gridL h w fun y x => .node op [A y x, .litI v])) := by
  have he : elementwise op (.d2 h w) [.arr2 false h w (gridL h w A), .scalar (.litI v)] = _ :=
    elementwise_ok (by rcases ho with ⟨_, rfl⟩ | ⟨_, rfl⟩ <;>
        simp [ewTypeCheck, Op.isCmp, PyV.isIntLike, Expr.isIntLike])
      (conf2 (C11CL.conf_arr2 _ _ _ _ (gridL_length _ _ _)) (C11CL.conf_scalar _ _))
  rw [ewData2_arr2_scalar _ _ _ _ _ _ (gridL_length _ _ _), gridL_map] at he
  rcases ho with ⟨rfl, rfl⟩ | ⟨rfl, rfl⟩ <;>
  simp [binop, tryMeth, callMethod, PyV.cls, Cls.defines, arrayMethod, Cls.arrKind?, binarySpec, unarySpec,
    PyV.shape?, PyV.data?, swapIf, BinOp.isCmp, BinOp.meth, he, mkArr, Op.isBoolOp, Cls.properSubclass]

/-- `row == e` on an integer 1-D array and an integer literal. -/
theorem binop_eq_arr1_lit (A : List Expr) (v : Int) :
    binop .eq (.arr1 false A) (.scalar (.litI v)) =
      .ok (.arr1 true (A.map fun a => .node .eq [a, .litI v])) := by
  have he : elementwise .eq (.d1 A.length) [.arr1 false A, .scalar (.litI v)] = _ :=
    elementwise_ok (by simp [ewTypeCheck, Op.isCmp, PyV.isIntLike, Expr.isIntLike])
      (conf2 (C11CL.conf_arr1 _ _) (C11CL.conf_scalar _ _))
  rw [ewData2_arr1_scalar] at he
  simp [binop, tryMeth, callMethod, PyV.cls, Cls.defines, arrayMethod, Cls.arrKind?, binarySpec, unarySpec,
    PyV.shape?, PyV.data?, swapIf, BinOp.isCmp, BinOp.meth, he, mkArr, Op.isBoolOp, Cls.properSubclass]

/-- `A & B` on two Boolean 2-D arrays. -/
theorem binop_and_arr2 (h w : Nat) (A B : Nat → Nat → Expr) :
    binop .and_ (.arr2 true h w (gridL h w A)) (.arr2 true h w (gridL h w B)) =
      .ok (.arr2 true h w (gridL h w fun y x => .node .and [A y x, B y x])) := by
  rw [C11CL.binop_bool_arr2 .and_ .and (Or.inl ⟨rfl, rfl⟩) h w _ _ (gridL_length _ _ _) (gridL_length _ _ _),
    gridL_zipWith]

/-- `~A` on a Boolean 2-D array. -/
theorem unop_invert_grid (h w : Nat) (A : Nat → Nat → Expr) :
    unop .invert (.arr2 true h w (gridL h w A)) = .ok (.arr2 true h w (gridL h w fun y x => .node .not [A y x])) := by
  rw [C11CL.unop_invert_arr2 h w _ (gridL_length _ _ _), gridL_map]

/-- `A.then(B)` on two Boolean 2-D arrays. -/
theorem callM_then_arr2 (h w : Nat) (A B : Nat → Nat → Expr) :
    callM .then_ (.arr2 true h w (gridL h w A)) [.arr2 true h w (gridL h w B)] =
      .ok (.arr2 true h w (gridL h w fun y x => .node .imp [A y x, B y x])) := by
  have he : elementwise .imp (.d2 h w) [.arr2 true h w (gridL h w A), .arr2 true h w (gridL h w B)] = _ :=
    elementwise_ok (by simp [ewTypeCheck, Op.isCmp, PyV.isBoolLike])
      (conf2 (C11CL.conf_arr2 _ _ _ _ (gridL_length _ _ _)) (C11CL.conf_arr2 _ _ _ _ (gridL_length _ _ _)))
  rw [C11CL.ewData2_arr2 _ _ _ _ _ _ _ (gridL_length _ _ _) (gridL_length _ _ _), gridL_zipWith] at he
  simp [callM, callMethod, PyV.cls, Cls.defines, arrayMethod, Cls.arrKind?, binarySpec, unarySpec,
    PyV.shape?, PyV.data?, he, mkArr, Op.isBoolOp, raiseNI]

/-- `C.cond(e, T)` on a Boolean 2-D array, an integer literal and an integer 2-D array. -/
theorem callM_cond_arr2 (h w : Nat) (C T : Nat → Nat → Expr) (v : Int) :
    callM .cond (.arr2 true h w (gridL h w C)) [.scalar (.litI v), .arr2 false h w (gridL h w T)] =
      .ok (.arr2 false h w (gridL h w fun y x => .node .ite [C y x, .litI v, T y x])) := by
  have he : elementwise .ite (.d2 h w)
      [.arr2 true h w (gridL h w C), .scalar (.litI v), .arr2 false h w (gridL h w T)] = _ :=
    elementwise_ok (by simp [ewTypeCheck, Op.isCmp, PyV.isBoolLike, PyV.isIntLike, Expr.isIntLike]) (by
      intro x hx
      simp only [List.mem_cons, List.mem_nil_iff, or_false] at hx
      rcases hx with rfl | rfl | rfl
      · exact C11CL.conf_arr2 _ _ _ _ (gridL_length _ _ _)
      · exact C11CL.conf_scalar _ _
      · exact C11CL.conf_arr2 _ _ _ _ (gridL_length _ _ _))
  rw [ewData3_cond _ _ _ _ _ (gridL_length _ _ _) (gridL_length _ _ _), gridL_zipWith] at he
  simp [callM, callMethod, PyV.cls, Cls.defines, arrayMethod, Cls.arrKind?, binarySpec, unarySpec,
    PyV.shape?, PyV.data?, he, mkArr, Op.isBoolOp, raiseNI]

theorem ensureV_grid (k : Bool) (h w : Nat) (E : Nat → Nat → Expr) (hE : ∀ y x, (E y x).isBoolLike = true) :
    ensureV (.arr2 k h w (gridL h w E)) = .ok (gridL h w E) :=
  C11CL.ensureV_arr2 k h w _ (by
    intro c hc
    obtain ⟨y, x, _, _, rfl⟩ := mem_gridL.1 hc
    exact hE y x)

theorem binop_eq_arr2 (h w : Nat) (A B : Nat → Nat → Expr) :
    binop .eq (.arr2 false h w (gridL h w A)) (.arr2 false h w (gridL h w B)) =
      .ok (.arr2 true h w (gridL h w fun y x => .node .eq [A y x, B y x])) :=
  binop_int_arr2 .eq .eq (Or.inl ⟨rfl, rfl⟩) h w A B

theorem binop_ne_arr2 (h w : Nat) (A B : Nat → Nat → Expr) :
    binop .ne (.arr2 false h w (gridL h w A)) (.arr2 false h w (gridL h w B)) =
      .ok (.arr2 true h w (gridL h w fun y x => .node .ne [A y x, B y x])) :=
  binop_int_arr2 .ne .ne (Or.inr (Or.inl ⟨rfl, rfl⟩)) h w A B

theorem binop_add_arr2 (h w : Nat) (A B : Nat → Nat → Expr) :
    binop .add (.arr2 false h w (gridL h w A)) (.arr2 false h w (gridL h w B)) =
      .ok (.arr2 false h w (gridL h w fun y x => .node .add [A y x, B y x])) :=
  binop_int_arr2 .add .add (Or.inr (Or.inr ⟨rfl, rfl⟩)) h w A B

theorem binop_eq_arr2_lit (h w : Nat) (A : Nat → Nat → Expr) (v : Int) :
    binop .eq (.arr2 false h w (gridL h w A)) (.scalar (.litI v)) =
      .ok (.arr2 true h w (gridL h w fun y x => .node .eq [A y x, .litI v])) :=
  binop_int_arr2_lit .eq .eq (Or.inl ⟨rfl, rfl⟩) h w A v

theorem binop_add_arr2_lit (h w : Nat) (A : Nat → Nat → Expr) (v : Int) :
    binop .add (.arr2 false h w (gridL h w A)) (.scalar (.litI v)) =
      .ok (.arr2 false h w (gridL h w fun y x => .node .add [A y x, .litI v])) :=
  binop_int_arr2_lit .add .add (Or.inr ⟨rfl, rfl⟩) h w A v

/-! ### the sight arrays -/

/-- `t == 0` for the variable `t`. -/
def eq0 (t : Nat) : Expr := .node .eq [.ivar t, .litI 0]

/-- `t == has.cond(0, tp + 1)`. -/
def recE (t hp tp : Nat) : Expr :=
  .node .eq [.ivar t, .node .ite [.bvar hp, .litI 0, .node .add [.ivar tp, .litI 1]]]

theorem sightCs_eq (t hasNumber : PyV) (edge inner prev : Key2) (L : List Nat) (e : Nat → Nat) (h' w' : Nat)
    (ti hp tp : Nat → Nat → Nat)
    (hedge : getitemV t edge = .ok (.arr1 false (L.map fun j => .ivar (e j))))
    (hinner : getitemV t inner = .ok (.arr2 false h' w' (gridL h' w' fun y x => .ivar (ti y x))))
    (hprevH : getitemV hasNumber prev = .ok (.arr2 true h' w' (gridL h' w' fun y x => .bvar (hp y x))))
    (hprevT : getitemV t prev = .ok (.arr2 false h' w' (gridL h' w' fun y x => .ivar (tp y x)))) :
    sightCs t hasNumber edge inner prev
      = .ok ((L.map fun j => eq0 (e j)) ++ gridL h' w' fun y x => recE (ti y x) (hp y x) (tp y x)) := by
  unfold sightCs
  rw [hedge, ok_bind, binop_eq_arr1_lit, ok_bind, C11CL.ensureV_arr1 _ _ (by
    intro c hc
    simp only [List.mem_map] at hc
    obtain ⟨a, ⟨j, _, rfl⟩, rfl⟩ := hc
    rfl), ok_bind, hinner, ok_bind, hprevH, ok_bind, hprevT, ok_bind, binop_add_arr2_lit, ok_bind,
    callM_cond_arr2, ok_bind, binop_eq_arr2, ok_bind, ensureV_grid _ _ _ _ (fun _ _ => rfl), ok_bind]
  simp only [List.map_map, Function.comp_def, eq0, recE]

/-! ### answer keys -/

theorem addKeys_gen : ∀ (ids : List Nat) (l : List Expr) (already : List Nat),
    l.map isVarExpr = ids.map some → (∀ i ∈ ids, i ∉ already) → ids.Nodup →
    l.foldlM (fun (acc : List Nat) (x : Expr) =>
      match isVarExpr x with
      | none => (.error .typeError : Py (List Nat))
      | some id => if acc.contains id then .error .valueError else .ok (acc ++ [id])) already
      = .ok (already ++ ids)
  | [], l, already, hl, _, _ => by
    cases l with
    | nil => simp [pure, Except.pure]
    | cons a l => simp at hl
  | i :: ids, l, already, hl, hni, hnd => by
    cases l with
    | nil => simp at hl
    | cons a l =>
      simp only [List.map_cons, List.cons.injEq] at hl
      have h1 : already.contains i = false := by
        have := hni i List.mem_cons_self
        simpa using this
      simp only [List.foldlM_cons, hl.1, h1, Bool.false_eq_true, if_false, ok_bind]
      rw [addKeys_gen ids l (already ++ [i]) hl.2 (by
        intro j hj
        have := hni j (List.mem_cons_of_mem _ hj)
        have hne : j ≠ i := by
          rintro rfl
          exact (List.nodup_cons.1 hnd).1 hj
        simp [this, hne]) (List.nodup_cons.1 hnd).2]
      simp

theorem addKeysV_grid (k : Bool) (h w : Nat) (mk : Nat → Expr) (b : Nat) (hmk : ∀ i, isVarExpr (mk i) = some (b + i))
    (already : List Nat) (hal : ∀ i, i < h * w → b + i ∉ already) :
    addKeysV (.arr2 k h w (gridL h w fun y x => mk (y * w + x))) already
      = .ok (already ++ (List.range (h * w)).map fun i => b + i) := by
  unfold addKeysV
  simp only [PyV.flat]
  rw [← fresh_eq_gridL]
  apply addKeys_gen
  · simp [hmk, Function.comp_def]
  · intro i hi
    simp only [List.mem_map, List.mem_range] at hi
    obtain ⟨j, hj, rfl⟩ := hi
    exact hal j hj
  · refine (List.nodup_range).map ?_
    intro a b' hab
    simp only at hab
    omega

/-! ### the posted program in closed form -/

theorem bvars_grid (h w : Nat) : bvars 0 (h * w) = gridL h w fun y x => .bvar (y * w + x) := by
  rw [← fresh_eq_gridL h w Expr.bvar]
  simp [bvars]

theorem ivars_grid (b h w : Nat) : ivars b (h * w) = gridL h w fun y x => .ivar (b + (y * w + x)) := by
  rw [← fresh_eq_gridL h w fun i => Expr.ivar (b + i)]
  rfl

section Closed
variable (h w : Nat)

/-- `to_up` (variables `b + cell`): zero in the top row, else one more than the cell above unless that one is
numbered. -/
def upCs (b : Nat) : List Expr :=
  ((List.range w).map fun x => eq0 (b + (0 * w + x))) ++
    gridL (h - 1) w fun y x => recE (b + ((y + 1) * w + x)) (y * w + x) (b + (y * w + x))

def downCs (b : Nat) : List Expr :=
  ((List.range w).map fun x => eq0 (b + ((h - 1) * w + x))) ++
    gridL (h - 1) w fun y x => recE (b + (y * w + x)) ((y + 1) * w + x) (b + ((y + 1) * w + x))

def leftCs (b : Nat) : List Expr :=
  ((List.range h).map fun y => eq0 (b + (y * w + 0))) ++
    gridL h (w - 1) fun y x => recE (b + (y * w + (x + 1))) (y * w + x) (b + (y * w + x))

def rightCs (b : Nat) : List Expr :=
  ((List.range h).map fun y => eq0 (b + (y * w + (w - 1)))) ++
    gridL h (w - 1) fun y x => recE (b + (y * w + x)) (y * w + (x + 1)) (b + (y * w + (x + 1)))

/-- `has_number.then(nums == to_up + to_left + to_down + to_right)` -/
def sumCs (bN bU bD bL bR : Nat) : List Expr :=
  gridL h w fun y x => .node .imp [.bvar (y * w + x),
    .node .eq [.ivar (bN + (y * w + x)),
      .node .add [.node .add [.node .add [.ivar (bU + (y * w + x)), .ivar (bL + (y * w + x))],
        .ivar (bD + (y * w + x))], .ivar (bR + (y * w + x))]]]

def vertCs (bN : Nat) : List Expr :=
  gridL (h - 1) w fun y x => .node .imp [.node .and [.bvar (y * w + x), .bvar ((y + 1) * w + x)],
    .node .ne [.ivar (bN + (y * w + x)), .ivar (bN + ((y + 1) * w + x))]]

def horCs (bN : Nat) : List Expr :=
  gridL h (w - 1) fun y x => .node .imp [.node .and [.bvar (y * w + x), .bvar (y * w + (x + 1))],
    .node .ne [.ivar (bN + (y * w + x)), .ivar (bN + (y * w + (x + 1)))]]

def zeroCs (bN : Nat) : List Expr :=
  gridL h w fun y x => .node .imp [.node .not [.bvar (y * w + x)], .node .eq [.ivar (bN + (y * w + x)), .litI 0]]

end Closed

open Cspuz.Spec.View

/-- The constraints of the clue loop. -/
def clueL (pb : Problem) (bN : Nat) : List Expr :=
  (cellsOf pb.height pb.width).flatMap fun p =>
    if 0 ≤ val pb p.1 p.2 then
      [.node .eq [.ivar (bN + (p.1 * pb.width + p.2)), .litI (val pb p.1 p.2)], .bvar (p.1 * pb.width + p.2)]
    else []

/-- All constraints except those of the connectivity fragment. -/
def locCs (pb : Problem) (bN bU bD bL bR : Nat) : List Expr :=
  upCs pb.height pb.width bU ++ downCs pb.height pb.width bD ++ leftCs pb.height pb.width bL ++
    rightCs pb.height pb.width bR ++ sumCs pb.height pb.width bN bU bD bL bR ++ vertCs pb.height pb.width bN ++
    horCs pb.height pb.width bN ++ zeroCs pb.height pb.width bN ++ clueL pb bN

theorem tableGet_eq {pb : Problem} (hwf : WellFormed pb) {y x : Nat} (hy : y < pb.height) (hx : x < pb.width) :
    tableGet pb.problem (y : Int) (x : Int) = .ok (val pb y x) := by
  obtain ⟨_, _, hlen, hrow⟩ := hwf
  have hy' : y < pb.problem.length := by omega
  have hr := hrow _ (List.getElem_mem hy')
  have hx' : x < (pb.problem[y]).length := by omega
  simp only [tableGet, val]
  rw [C13.pyIndex_natCast _ _ hy', List.getElem?_eq_getElem hy']
  simp only [ok_bind]
  rw [C13.pyIndex_natCast _ _ hx', List.getElem?_eq_getElem hx']
  simp [List.getD, List.getElem?_eq_getElem hy', List.getElem?_eq_getElem hx']

theorem clueCs_eq {pb : Problem} (hwf : WellFormed pb) (bN : Nat) {y x : Nat} (hy : y < pb.height) (hx : x < pb.width) :
    clueCs pb (.arr2 false pb.height pb.width (gridL pb.height pb.width fun y x => .ivar (bN + (y * pb.width + x))))
      (.arr2 true pb.height pb.width (gridL pb.height pb.width fun y x => .bvar (y * pb.width + x))) (y, x)
      = .ok (if 0 ≤ val pb y x then
          [.node .eq [.ivar (bN + (y * pb.width + x)), .litI (val pb y x)], .bvar (y * pb.width + x)] else []) := by
  unfold clueCs
  simp only
  rw [tableGet_eq hwf hy hx, ok_bind]
  by_cases hv : val pb y x ≥ 0
  · rw [if_pos hv, if_pos hv]
    rw [getitemV_cellG false (fun i => .ivar (bN + i)) _ _ y x hy hx, ok_bind, C11CL.binop_eq_ivar_lit, ok_bind,
      C11CL.ensureV_scalar _ rfl, ok_bind, getitemV_cellG true Expr.bvar _ _ y x hy hx, ok_bind,
      C11CL.ensureV_scalar _ rfl, ok_bind]
    rfl
  · rw [if_neg hv, if_neg hv]

theorem mem_cellsOf {h w : Nat} {p : Nat × Nat} : p ∈ cellsOf h w ↔ p.1 < h ∧ p.2 < w := by
  simp only [cellsOf, List.mem_flatMap, List.mem_range, List.mem_map]
  constructor
  · rintro ⟨y, hy, x, hx, rfl⟩; exact ⟨hy, hx⟩
  · rintro ⟨hy, hx⟩; exact ⟨p.1, hy, p.2, hx, rfl⟩

/-- The connectivity fragment. -/
def avc (pb : Problem) : Prog :=
  C04L1.avcProg (Graph.grid pb.height pb.width) (bvars 0 (pb.height * pb.width)) (pb.height * pb.width) false

theorem sightUp_eq (h w b : Nat) (hh : 1 ≤ h) :
    sightCs (.arr2 false h w (gridL h w fun y x => .ivar (b + (y * w + x))))
      (.arr2 true h w (gridL h w fun y x => .bvar (y * w + x)))
      (.pair (.idx 0) fullSlice) (.pair (sl (some 1) none) fullSlice) (.pair (sl none (some (-1))) fullSlice)
      = .ok (upCs h w b) :=
  sightCs_eq _ _ _ _ _ (List.range w) (fun x => b + (0 * w + x)) (h - 1) w
    (fun y x => b + ((y + 1) * w + x)) (fun y x => y * w + x) (fun y x => b + (y * w + x))
    (getitemV_rowSel false (fun i => .ivar (b + i)) h w (.idx 0) 0 (by omega) (axisSel_zero h hh))
    (getitemV_lower false (fun i => .ivar (b + i)) h w)
    (getitemV_upper true Expr.bvar h w)
    (getitemV_upper false (fun i => .ivar (b + i)) h w)

theorem sightDown_eq (h w b : Nat) (hh : 1 ≤ h) :
    sightCs (.arr2 false h w (gridL h w fun y x => .ivar (b + (y * w + x))))
      (.arr2 true h w (gridL h w fun y x => .bvar (y * w + x)))
      (.pair (.idx (-1)) fullSlice) (.pair (sl none (some (-1))) fullSlice) (.pair (sl (some 1) none) fullSlice)
      = .ok (downCs h w b) :=
  sightCs_eq _ _ _ _ _ (List.range w) (fun x => b + ((h - 1) * w + x)) (h - 1) w
    (fun y x => b + (y * w + x)) (fun y x => (y + 1) * w + x) (fun y x => b + ((y + 1) * w + x))
    (getitemV_rowSel false (fun i => .ivar (b + i)) h w (.idx (-1)) (h - 1) (by omega) (axisSel_last h hh))
    (getitemV_upper false (fun i => .ivar (b + i)) h w)
    (getitemV_lower true Expr.bvar h w)
    (getitemV_lower false (fun i => .ivar (b + i)) h w)

theorem sightLeft_eq (h w b : Nat) (hw : 1 ≤ w) :
    sightCs (.arr2 false h w (gridL h w fun y x => .ivar (b + (y * w + x))))
      (.arr2 true h w (gridL h w fun y x => .bvar (y * w + x)))
      (.pair fullSlice (.idx 0)) (.pair fullSlice (sl (some 1) none)) (.pair fullSlice (sl none (some (-1))))
      = .ok (leftCs h w b) :=
  sightCs_eq _ _ _ _ _ (List.range h) (fun y => b + (y * w + 0)) h (w - 1)
    (fun y x => b + (y * w + (x + 1))) (fun y x => y * w + x) (fun y x => b + (y * w + x))
    (getitemV_colSel false (fun i => .ivar (b + i)) h w (.idx 0) 0 (by omega) (axisSel_zero w hw))
    (getitemV_rights false (fun i => .ivar (b + i)) h w)
    (getitemV_lefts true Expr.bvar h w)
    (getitemV_lefts false (fun i => .ivar (b + i)) h w)

theorem sightRight_eq (h w b : Nat) (hw : 1 ≤ w) :
    sightCs (.arr2 false h w (gridL h w fun y x => .ivar (b + (y * w + x))))
      (.arr2 true h w (gridL h w fun y x => .bvar (y * w + x)))
      (.pair fullSlice (.idx (-1))) (.pair fullSlice (sl none (some (-1)))) (.pair fullSlice (sl (some 1) none))
      = .ok (rightCs h w b) :=
  sightCs_eq _ _ _ _ _ (List.range h) (fun y => b + (y * w + (w - 1))) h (w - 1)
    (fun y x => b + (y * w + x)) (fun y x => y * w + (x + 1)) (fun y x => b + (y * w + (x + 1)))
    (getitemV_colSel false (fun i => .ivar (b + i)) h w (.idx (-1)) (w - 1) (by omega) (axisSel_last w hw))
    (getitemV_lefts false (fun i => .ivar (b + i)) h w)
    (getitemV_rights true Expr.bvar h w)
    (getitemV_rights false (fun i => .ivar (b + i)) h w)

theorem grid_pos {pb : Problem} (hwf : WellFormed pb) : 0 < (Graph.grid pb.height pb.width).n :=
  Nat.mul_pos hwf.1 hwf.2.1

theorem avc_eq {pb : Problem} (hwf : WellFormed pb) :
    activeVerticesConnected (Graph.grid pb.height pb.width) (bvars 0 (pb.height * pb.width))
      (pb.height * pb.width) false false = .ok (avc pb) :=
  C04L1.avc_eq_prog (grid_pos hwf) (C04Prim.grid_wf _ _) (by simp [bvars, Graph.grid])
    (C11FragWT.bvars_boolArgs _)

theorem avc_len (pb : Problem) : (avc pb).decls.length = 2 * (pb.height * pb.width) := by
  simp [avc, C04L1.avcProg, Graph.grid]; omega

theorem intArrayDecls_ok (n : Nat) (lo hi : Int) (h : lo ≤ hi) :
    intArrayDecls n lo hi = .ok (List.replicate n (.int lo hi)) := by
  unfold intArrayDecls
  rw [if_neg (by omega)]

/-- The posted program in closed form (`n = height * width`; `has_number` = variables `0 … n-1`, the rank/root
variables of the connectivity fragment `n … 3n-1`, `nums` = `3n …`, `to_up` = `4n …`, `to_down` = `5n …`,
`to_left` = `6n …`, `to_right` = `7n …`). -/
def prog (pb : Problem) : PuzzleProg :=
  { decls := List.replicate (pb.height * pb.width) .bool ++ (avc pb).decls ++
      List.replicate (pb.height * pb.width) (.int 0 ((pb.height : Int) + (pb.width : Int))) ++
      List.replicate (pb.height * pb.width) (.int 0 ((pb.height : Int) - 1)) ++
      List.replicate (pb.height * pb.width) (.int 0 ((pb.height : Int) - 1)) ++
      List.replicate (pb.height * pb.width) (.int 0 ((pb.width : Int) - 1)) ++
      List.replicate (pb.height * pb.width) (.int 0 ((pb.width : Int) - 1)),
    cs := (avc pb).cs ++ locCs pb (3 * (pb.height * pb.width)) (4 * (pb.height * pb.width))
      (5 * (pb.height * pb.width)) (6 * (pb.height * pb.width)) (7 * (pb.height * pb.width)),
    keys := ((List.range (pb.height * pb.width)).map fun i => 3 * (pb.height * pb.width) + i) ++
      List.range (pb.height * pb.width) }

theorem program_eq {pb : Problem} (hwf : WellFormed pb) : program pb = .ok (prog pb) := by
  have hh := hwf.1
  have hw := hwf.2.1
  unfold program programWith
  simp only
  rw [avc_eq hwf, ok_bind]
  simp only [avc_len]
  have e3 : pb.height * pb.width + 2 * (pb.height * pb.width) = 3 * (pb.height * pb.width) := by omega
  have e4 : 3 * (pb.height * pb.width) + pb.height * pb.width = 4 * (pb.height * pb.width) := by omega
  have e5 : 3 * (pb.height * pb.width) + 2 * (pb.height * pb.width) = 5 * (pb.height * pb.width) := by omega
  have e6 : 3 * (pb.height * pb.width) + 3 * (pb.height * pb.width) = 6 * (pb.height * pb.width) := by omega
  have e7 : 3 * (pb.height * pb.width) + 4 * (pb.height * pb.width) = 7 * (pb.height * pb.width) := by omega
  simp only [e3, e4, e5, e6, e7]
  rw [intArrayDecls_ok _ 0 ((pb.height : Int) + pb.width) (by omega),
    intArrayDecls_ok _ 0 ((pb.height : Int) - 1) (by omega), intArrayDecls_ok _ 0 ((pb.width : Int) - 1) (by omega)]
  simp only [ok_bind, bvars_grid, ivars_grid]
  rw [addKeysV_grid false _ _ (fun i => .ivar (3 * (pb.height * pb.width) + i)) (3 * (pb.height * pb.width))
    (fun _ => rfl) [] (by simp), ok_bind]
  rw [addKeysV_grid true _ _ Expr.bvar 0 (fun i => by simp [isVarExpr]) _ (by
    intro i hi
    simp only [List.nil_append, List.mem_map, List.mem_range, not_exists, not_and]
    intro j _
    omega), ok_bind]
  rw [sightUp_eq _ _ _ hh, ok_bind, sightDown_eq _ _ _ hh, ok_bind,
    sightLeft_eq _ _ _ hw, ok_bind, sightRight_eq _ _ _ hw, ok_bind]
  rw [binop_add_arr2, ok_bind, binop_add_arr2, ok_bind, binop_add_arr2, ok_bind, binop_eq_arr2, ok_bind,
    callM_then_arr2, ok_bind, ensureV_grid _ _ _ _ (fun _ _ => rfl), ok_bind]
  rw [getitemV_upper true Expr.bvar, ok_bind, getitemV_lower true Expr.bvar, ok_bind,
    getitemV_upper false (fun i => .ivar (3 * (pb.height * pb.width) + i)), ok_bind,
    getitemV_lower false (fun i => .ivar (3 * (pb.height * pb.width) + i)), ok_bind,
    binop_and_arr2, ok_bind, binop_ne_arr2, ok_bind, callM_then_arr2, ok_bind,
    ensureV_grid _ _ _ _ (fun _ _ => rfl), ok_bind]
  rw [getitemV_lefts true Expr.bvar, ok_bind, getitemV_rights true Expr.bvar, ok_bind,
    getitemV_lefts false (fun i => .ivar (3 * (pb.height * pb.width) + i)), ok_bind,
    getitemV_rights false (fun i => .ivar (3 * (pb.height * pb.width) + i)), ok_bind,
    binop_and_arr2, ok_bind, binop_ne_arr2, ok_bind, callM_then_arr2, ok_bind,
    ensureV_grid _ _ _ _ (fun _ _ => rfl), ok_bind]
  rw [unop_invert_grid, ok_bind, binop_eq_arr2_lit, ok_bind, callM_then_arr2, ok_bind,
    ensureV_grid _ _ _ _ (fun _ _ => rfl), ok_bind]
  rw [mapM_eq_ok_map (g := fun p : Nat × Nat =>
      if 0 ≤ val pb p.1 p.2 then
        [Expr.node .eq [.ivar (3 * (pb.height * pb.width) + (p.1 * pb.width + p.2)), .litI (val pb p.1 p.2)],
          Expr.bvar (p.1 * pb.width + p.2)]
      else [])]
  · simp only [ok_bind, prog, locCs, clueL, List.flatMap_def, List.append_assoc, sumCs, vertCs, horCs, zeroCs,
      List.nil_append, Nat.zero_add, List.map_id']
  · intro p hp
    obtain ⟨h1, h2⟩ := mem_cellsOf.1 hp
    exact clueCs_eq hwf _ h1 h2

end Cspuz.Proofs.C11ViewA
