/-
  C11 — the grid graph cspuz infers for a 2-D array (`Graph.grid h w`, vertices `y * w + x`) versus the
  spec's orthogonal cell adjacency (`Spec.cellGraph`): connectivity of an active set is the same thing.
-/
import CspuzModel.Spec.PuzzleRules.CellGraph
import CspuzModel.Proofs.C04Prim
import CspuzModel.Proofs.C11Grid
namespace Cspuz.Proofs.C11CellGraph
open Cspuz Cspuz.Spec Cspuz.Proofs

/-- The active vertices of the grid graph are connected iff the corresponding cells are. -/
theorem activeConnected_grid_iff (h w : Nat) (act : Nat → Bool) (S : Nat → Nat → Prop)
    (hS : ∀ y x, y < h → x < w → (act (y * w + x) = true ↔ S y x)) :
    ActiveConnected (Graph.grid h w) act ↔ CellsConnected h w S := by
  have hn : (Graph.grid h w).n = h * w := rfl
  let e : ↥(activeSet (Graph.grid h w) act) ≃ ↥(cellSet h w S) :=
    { toFun := fun v => ⟨(v.1.1 / w, v.1.1 % w), by
        have hv : v.1.1 < h * w := v.1.2
        have hdm := C11Grid.div_lt_of_lt_mul hv
        refine ⟨hdm.1, hdm.2, (hS _ _ hdm.1 hdm.2).1 ?_⟩
        have : act v.1.1 = true := v.2
        rwa [Nat.div_add_mod' v.1.1 w]⟩
      invFun := fun p => ⟨⟨p.1.1 * w + p.1.2, C11Grid.cell_lt p.2.1 p.2.2.1⟩, by
        show act (p.1.1 * w + p.1.2) = true
        exact (hS _ _ p.2.1 p.2.2.1).2 p.2.2.2⟩
      left_inv := by
        rintro ⟨⟨v, hv⟩, hact⟩
        apply Subtype.ext; apply Fin.ext
        exact Nat.div_add_mod' v w
      right_inv := by
        rintro ⟨⟨y, x⟩, hy, hx, hs⟩
        apply Subtype.ext
        simp only
        rw [(C11Grid.cell_div_mod hx).1, (C11Grid.cell_div_mod hx).2] }
  have iso : (toSimple (Graph.grid h w)).induce (activeSet (Graph.grid h w) act) ≃g
      cellGraph.induce (cellSet h w S) :=
    { toEquiv := e
      map_rel_iff' := by
        rintro ⟨u, hu⟩ ⟨v, hv⟩
        simp only [SimpleGraph.comap_adj, Function.Embedding.subtype_apply]
        rw [C04Prim.grid_adj]
        rfl }
  exact iso.preconnected_iff

end Cspuz.Proofs.C11CellGraph
