/-
  C11 / Yin-Yang — what the program posted by `solve_yinyang` says, read on the grid: the published rules
  (Spec/PuzzleRules/Yinyang.lean) plus the two auxiliary conditions of the solver ("no checkerboard block",
  "at most two colour changes round the outer ring").  Parts A (closed form), B (typing, meaning of the local
  constraints); this file: the two connectivity fragments and the assembly.
-/
import CspuzModel.Proofs.C11YinyangB
import CspuzModel.Properties.C04
import CspuzModel.Proofs.C11Frag
import CspuzModel.Proofs.C11CellGraph
namespace Cspuz.Proofs.C11YinyangProg
open Cspuz Cspuz.Spec Cspuz.Puzzles.Yinyang Cspuz.Spec.Yinyang Cspuz.Proofs.C11YinyangDefs
open Cspuz.Proofs Cspuz.Proofs.C11YinyangA Cspuz.Proofs.C11YinyangB

/-- what the posted program says, read on the grid: the rules plus the two auxiliary conditions -/
def AuxGrid (pb : Problem) (g : Nat → Nat → Bool) : Prop :=
  RulesGrid pb g ∧ NoChecker pb.height pb.width g ∧ RingOk pb.height pb.width g

theorem truthAt_nots (σ : Asg) (n i : Nat) : truthAt σ (nots n) i = (decide (i < n) && !σ.b i) := by
  unfold truthAt nots
  by_cases hi : i < n
  · simp only [List.getElem?_map, List.getElem?_range hi, Option.map_some, eval_not (eval_bvar σ i), hi,
      decide_true, Bool.true_and]
    cases σ.b i <;> rfl
  · rw [List.getElem?_eq_none (by simpa using hi)]
    simp [hi]

theorem avc1_facts (pb : Problem) :
    ∀ c ∈ (avc1 pb).cs, wtB c = true ∧
      c.varsBelow (pb.height * pb.width + (avc1 pb).decls.length) = true :=
  C11FragWT.avcProg_wt (C04Prim.grid_wf _ _) (by simp [bvars, Graph.grid]) (C11FragWT.bvars_boolArgs _)

theorem avc2_facts (pb : Problem) :
    ∀ c ∈ (avc2 pb).cs, wtB c = true :=
  fun c hc => (C11FragWT.avcProg_wt (C04Prim.grid_wf _ _) (by simp [nots, Graph.grid])
    (nots_boolArgs _ _ (Nat.le_add_right _ _)) c hc).1

/-- The white fragment (over the variables of the black one) is realizable iff the white cells are connected. -/
theorem realizable_avc2 {pb : Problem} (hwf : WellFormed pb) (τ : Asg) :
    Realizable (pb.height * pb.width + (avc1 pb).decls.length) (avc2 pb) τ ↔
      ActiveConnected (Graph.grid pb.height pb.width) (truthAt τ (nots (pb.height * pb.width))) := by
  have hreal := Cspuz.C04.C04_aux_exact (Graph.grid pb.height pb.width) (nots (pb.height * pb.width))
    (pb.height * pb.width + (avc1 pb).decls.length) false (avc2 pb) τ (C04Prim.grid_wf _ _)
    (by intro h; cases h) (by simp [nots, Graph.grid]) (nots_boolArgs _ _ (Nat.le_add_right _ _)) (avc2_eq hwf)
  simpa only [Bool.false_eq_true, if_false] using hreal

theorem realizable_avc1 {pb : Problem} (hwf : WellFormed pb) (σ : Asg) :
    Realizable (pb.height * pb.width) (avc1 pb) σ ↔
      ActiveConnected (Graph.grid pb.height pb.width) (truthAt σ (bvars 0 (pb.height * pb.width))) := by
  have hreal := Cspuz.C04.C04_aux_exact (Graph.grid pb.height pb.width) (bvars 0 (pb.height * pb.width))
    (pb.height * pb.width) false (avc1 pb) σ (C04Prim.grid_wf _ _) (by intro h; cases h)
    (by simp [bvars, Graph.grid]) (C11FragWT.bvars_boolArgs _) (avc1_eq hwf)
  simpa only [Bool.false_eq_true, if_false] using hreal

/-- The two connectivity fragments together: black connected and white connected. -/
theorem realizable_both {pb : Problem} (hwf : WellFormed pb) (σ : Asg) (g : Nat → Nat → Bool)
    (hg : ∀ y, y < pb.height → ∀ x, x < pb.width → g y x = σ.b (y * pb.width + x)) :
    Realizable (pb.height * pb.width) (avc1 pb ++ avc2 pb) σ ↔
      CellsConnected pb.height pb.width (fun y x => g y x = true) ∧
      CellsConnected pb.height pb.width (fun y x => g y x = false) := by
  have hQ : ∀ τ τ', AgreeBelow (pb.height * pb.width) τ τ' →
      (ActiveConnected (Graph.grid pb.height pb.width) (truthAt τ (nots (pb.height * pb.width))) ↔
        ActiveConnected (Graph.grid pb.height pb.width) (truthAt τ' (nots (pb.height * pb.width)))) := by
    intro τ τ' hag
    have : truthAt τ (nots (pb.height * pb.width)) = truthAt τ' (nots (pb.height * pb.width)) := by
      funext i
      rw [truthAt_nots, truthAt_nots]
      by_cases hi : i < pb.height * pb.width
      · rw [(hag i hi).1]
      · simp [hi]
    rw [this]
  rw [C11Frag.realizable_append (fun c hc => (avc1_facts pb c hc).2) (realizable_avc2 hwf) hQ σ,
    realizable_avc1 hwf]
  rw [C11CellGraph.activeConnected_grid_iff pb.height pb.width _ (fun y x => g y x = true) (by
    intro y x hy hx
    rw [C11FragWT.truthAt_bvars σ _ _ (C11Grid.cell_lt hy hx), hg y hy x hx])]
  rw [C11CellGraph.activeConnected_grid_iff pb.height pb.width _ (fun y x => g y x = false) (by
    intro y x hy hx
    rw [truthAt_nots, hg y hy x hx]
    have := C11Grid.cell_lt hy hx
    cases σ.b (y * pb.width + x) <;> simp [this])]

theorem encodes {pb : Problem} (hwf : WellFormed pb) :
    EncodesRules { decls := List.replicate (pb.height * pb.width) .bool ++ (avc1 pb ++ avc2 pb).decls,
                   cs := (avc1 pb).cs ++ (avc2 pb).cs ++ locals pb,
                   keys := List.range (pb.height * pb.width) }
      (fun a => ∃ g : Nat → Nat → Bool, a = boolGrid pb.height pb.width g ∧ AuxGrid pb g) := by
  apply C11Frag.encodes_bool_grid_frag pb.height pb.width (avc1 pb ++ avc2 pb) (locals pb) _ (AuxGrid pb)
    (fun c => by simp only [C11Frag.prog_append_cs, List.mem_append])
  · intro c hc
    exact (good_locals hwf c hc).2
  · intro σ g hg
    rw [realizable_both hwf σ g hg, locals_sem hwf σ g hg]
    unfold AuxGrid RulesGrid
    constructor
    · rintro ⟨⟨hb, hw⟩, h3, h4, hN, hR⟩; exact ⟨⟨hb, hw, h3, h4⟩, hN, hR⟩
    · rintro ⟨⟨hb, hw, h3, h4⟩, hN, hR⟩; exact ⟨⟨hb, hw⟩, h3, h4, hN, hR⟩

/-- The program posted by `solve_yinyang` on a well-formed instance encodes exactly "rules + no checkerboard
block + at most two colour changes round the ring"; its keys are the cell variables; every constraint is a
well-typed Boolean expression. -/
theorem main_aux (pb : Problem) (hwf : WellFormed pb) (P : PuzzleProg) (hP : program pb = .ok P) :
    EncodesRules P (fun a => ∃ g : Nat → Nat → Bool, a = boolGrid pb.height pb.width g ∧ AuxGrid pb g) ∧
      P.KeysOk ∧ (∀ c ∈ P.cs, wtB c = true) := by
  rw [program_eq hwf] at hP
  cases hP
  refine ⟨encodes hwf, C11Frag.keysOk_range_le _ _ _ (by simp), ?_⟩
  intro c hc
  rcases List.mem_append.1 hc with hc | hc
  · rcases List.mem_append.1 hc with hc | hc
    · exact (avc1_facts pb c hc).1
    · exact avc2_facts pb c hc
  · exact (good_locals hwf c hc).1

theorem total (pb : Problem) (hwf : WellFormed pb) : ∃ P, program pb = .ok P := ⟨_, program_eq hwf⟩

/-- Non-vacuity: a concrete 2 × 2 instance is well formed and the program is posted. -/
example : WellFormed ⟨2, 2, [[0, 1], [2, 0]]⟩ ∧ ∃ P, program ⟨2, 2, [[0, 1], [2, 0]]⟩ = .ok P := by
  have hwf : WellFormed ⟨2, 2, [[0, 1], [2, 0]]⟩ := by
    refine ⟨by decide, by decide, rfl, ?_⟩
    intro row hrow
    simp only [List.mem_cons, List.not_mem_nil, or_false] at hrow
    rcases hrow with rfl | rfl <;> simp
  exact ⟨hwf, total _ hwf⟩

end Cspuz.Proofs.C11YinyangProg
