/-
  C11 / FiveCells, part A: closed form of the two table-building loops of `solve_fivecells`
  (`vertex_id` / the graph of edge-adjacent board cells).
-/
import CspuzModel.Proofs.C11CL
import CspuzModel.Proofs.C14
import CspuzModel.Spec.PuzzleRules.Fivecells
namespace Cspuz.Proofs.C11FivecellsA
open Cspuz Cspuz.Spec Cspuz.Proofs Cspuz.Puzzles Cspuz.Puzzles.Fivecells Cspuz.Spec.Fivecells

/-! ### Python tables given by a function of the cell -/

/-- The `h × w` list-of-lists table with entry `f (y, x)`. -/
def tbl (h w : Nat) (f : Nat × Nat → Int) : List (List Int) :=
  (List.range h).map fun y => (List.range w).map fun x => f (y, x)

theorem tableGet_tbl {h w : Nat} (f : Nat × Nat → Int) {y x : Nat} (hy : y < h) (hx : x < w) :
    tableGet (tbl h w f) (y : Int) (x : Int) = .ok (f (y, x)) := by
  unfold tableGet tbl
  rw [C14.pyIndex_nat _ y ((List.range w).map fun x => f (y, x)) (by simp [hy]), ok_bind,
    C14.pyIndex_nat _ x (f (y, x)) (by simp [hx])]

theorem pySet_nat {α} (l : List α) (k : Nat) (v : α) (hk : k < l.length) :
    pySet l (k : Int) v = .ok (l.set k v) := by
  simp only [pySet]
  rw [if_neg (show ¬ ((k : Int) < 0) by omega), if_pos (by omega), Int.toNat_natCast]

theorem tableSet_tbl {h w : Nat} (f : Nat × Nat → Int) {y x : Nat} (hy : y < h) (hx : x < w) (v : Int) :
    tableSet (tbl h w f) (y : Int) (x : Int) v = .ok (tbl h w fun q => if q = (y, x) then v else f q) := by
  unfold tableSet
  have hrow : pyIndex (tbl h w f) (y : Int) = .ok ((List.range w).map fun x => f (y, x)) :=
    C14.pyIndex_nat _ y _ (by simp [tbl, hy])
  rw [hrow, ok_bind, pySet_nat _ x v (by simp [hx]), ok_bind, pySet_nat _ y _ (by simp [tbl, hy])]
  congr 1
  unfold tbl
  apply List.ext_getElem
  · simp
  · intro i h1 h2
    simp only [List.length_map, List.length_range] at h2
    rw [List.getElem_set]
    split
    · next hi =>
      subst hi
      simp only [List.getElem_map, List.getElem_range]
      apply List.ext_getElem
      · simp
      · intro j h3 h4
        simp only [List.length_map, List.length_range] at h4
        rw [List.getElem_set]
        split
        · next hj => subst hj; simp
        · next hj =>
          simp only [List.getElem_map, List.getElem_range]
          rw [if_neg]
          intro he
          exact hj (Prod.mk.inj he).2.symm
    · next hi =>
      simp only [List.getElem_map, List.getElem_range]
      apply List.map_congr_left
      intro j _
      rw [if_neg]
      intro he
      exact hi (Prod.mk.inj he).1.symm

theorem replicate_eq_tbl (h w : Nat) (c : Int) :
    List.replicate h (List.replicate w c) = tbl h w fun _ => c := by
  unfold tbl
  apply List.ext_getElem
  · simp
  · intro i h1 h2
    simp only [List.getElem_replicate, List.getElem_map]
    apply List.ext_getElem
    · simp
    · intro j h3 h4
      simp

/-! ### the problem table -/

theorem onBoard_iff {pb : Problem} {p : Nat × Nat} :
    onBoard pb p = true ↔ p.1 < pb.height ∧ p.2 < pb.width ∧ -1 ≤ val pb p.1 p.2 := by
  simp [onBoard, and_assoc]

theorem tableGet_eq {pb : Problem} (hw : WellFormed pb) {y x : Nat} (hy : y < pb.height) (hx : x < pb.width) :
    tableGet pb.problem (y : Int) (x : Int) = .ok (val pb y x) := by
  unfold tableGet val
  have hy' : y < pb.problem.length := by rw [hw.1]; exact hy
  have hrow : pb.problem[y]? = some pb.problem[y] := List.getElem?_eq_getElem hy'
  have hlen : pb.problem[y].length = pb.width := hw.2.1 _ (List.getElem_mem hy')
  have hx' : x < pb.problem[y].length := by rw [hlen]; exact hx
  rw [C14.pyIndex_nat _ _ _ hrow, ok_bind, C14.pyIndex_nat _ _ _ (List.getElem?_eq_getElem hx')]
  simp [List.getD, hrow, List.getElem?_eq_getElem hx']

theorem mem_cellsOf {h w : Nat} {p : Nat × Nat} : p ∈ cellsOf h w ↔ p.1 < h ∧ p.2 < w := by
  unfold cellsOf
  simp only [List.mem_flatMap, List.mem_map, List.mem_range]
  constructor
  · rintro ⟨y, hy, x, hx, rfl⟩; exact ⟨hy, hx⟩
  · rintro ⟨hy, hx⟩; exact ⟨p.1, hy, p.2, hx, rfl⟩

theorem cellsOf_nodup (h w : Nat) : (cellsOf h w).Nodup := by
  unfold cellsOf
  rw [List.nodup_flatMap]
  refine ⟨?_, ?_⟩
  · intro y _
    exact List.Nodup.map (fun a b hab => (Prod.mk.inj hab).2) List.nodup_range
  · apply List.Pairwise.imp _ List.nodup_range
    intro a b hab
    simp only [Function.onFun, List.disjoint_left]
    intro p hp hq
    simp only [List.mem_map, List.mem_range] at hp hq
    obtain ⟨x, _, rfl⟩ := hp
    obtain ⟨x', _, he⟩ := hq
    exact hab (Prod.mk.inj he).1.symm

/-! ### `vertex_id` -/

/-- All cells of the table, row-major. -/
def cells (pb : Problem) : List (Nat × Nat) := cellsOf pb.height pb.width

/-- The board cells in row-major order: the vertices of the graph. -/
def bcells (pb : Problem) : List (Nat × Nat) := (cells pb).filter (onBoard pb)

/-- The vertex number of a board cell. -/
def vidx (pb : Problem) (p : Nat × Nat) : Nat := (bcells pb).idxOf p

/-- `vertex_id` entry after the cells `l` have been processed. -/
def ent (pb : Problem) (l : List (Nat × Nat)) (q : Nat × Nat) : Int :=
  if q ∈ l.filter (onBoard pb) then ((l.filter (onBoard pb)).idxOf q : Int) else -1

/-- State of the first double loop after the cells `l`. -/
def vst (pb : Problem) (l : List (Nat × Nat)) : List (List Int) × Nat :=
  (tbl pb.height pb.width (ent pb l), (l.filter (onBoard pb)).length)

def vstep (pb : Problem) (st : List (List Int) × Nat) (p : Nat × Nat) : Py (List (List Int) × Nat) := do
  let v ← tableGet pb.problem p.1 p.2
  if v ≥ -1 then do
    let t ← tableSet st.1 p.1 p.2 st.2
    .ok (t, st.2 + 1)
  else .ok st

theorem vstep_eq {pb : Problem} (hw : WellFormed pb) (l : List (Nat × Nat)) (p : Nat × Nat)
    (hp : p.1 < pb.height ∧ p.2 < pb.width) (hnl : p ∉ l) :
    vstep pb (vst pb l) p = .ok (vst pb (l ++ [p])) := by
  unfold vstep
  rw [tableGet_eq hw hp.1 hp.2, ok_bind]
  by_cases hv : val pb p.1 p.2 ≥ -1
  · have hb : onBoard pb p = true := onBoard_iff.2 ⟨hp.1, hp.2, hv⟩
    rw [if_pos hv]
    simp only [vst]
    rw [tableSet_tbl _ hp.1 hp.2, ok_bind]
    have hf : (l ++ [p]).filter (onBoard pb) = l.filter (onBoard pb) ++ [p] := by
      rw [List.filter_append]; simp [hb]
    have hpF : p ∉ l.filter (onBoard pb) := fun h => hnl (List.mem_filter.1 h).1
    congr 2
    · congr 1
      funext q
      simp only [ent, hf, List.mem_append, List.mem_singleton]
      by_cases hq : q = p
      · subst hq
        rw [if_pos rfl, if_pos (Or.inr rfl), List.idxOf_append, if_neg hpF]
        simp
      · rw [if_neg hq]
        by_cases hqF : q ∈ l.filter (onBoard pb)
        · rw [if_pos hqF, if_pos (Or.inl hqF), List.idxOf_append, if_pos hqF]
        · rw [if_neg hqF, if_neg (by tauto)]
    · rw [hf]; simp
  · have hb : onBoard pb p = false := by
      rw [Bool.eq_false_iff]
      intro h
      exact hv (onBoard_iff.1 h).2.2
    rw [if_neg hv]
    have hf : (l ++ [p]).filter (onBoard pb) = l.filter (onBoard pb) := by
      rw [List.filter_append]; simp [hb]
    have he : ent pb (l ++ [p]) = ent pb l := by
      funext q; simp only [ent, hf]
    simp only [vst, hf, he]

theorem vfold {pb : Problem} (hw : WellFormed pb) : ∀ (l2 l1 : List (Nat × Nat)),
    (∀ p ∈ l2, p.1 < pb.height ∧ p.2 < pb.width) → (l1 ++ l2).Nodup →
    l2.foldlM (vstep pb) (vst pb l1) = .ok (vst pb (l1 ++ l2))
  | [], l1, _, _ => by simp [pure, Except.pure]
  | p :: l2, l1, hin, hnd => by
    rw [List.foldlM_cons, vstep_eq hw l1 p (hin p List.mem_cons_self) (by
      intro hm
      have := List.nodup_append.1 hnd
      exact this.2.2 p hm p List.mem_cons_self rfl), ok_bind]
    have := vfold hw l2 (l1 ++ [p]) (fun q hq => hin q (List.mem_cons_of_mem _ hq)) (by simpa using hnd)
    rw [this]
    simp

/-- Closed form of the first double loop. -/
theorem vertexIds_eq {pb : Problem} (hw : WellFormed pb) :
    vertexIds pb = .ok (tbl pb.height pb.width (ent pb (cells pb)), (bcells pb).length) := by
  unfold vertexIds
  simp only
  rw [replicate_eq_tbl]
  have h0 : (tbl pb.height pb.width fun _ => (-1 : Int), 0) = vst pb [] := by
    have he : ent pb [] = fun _ => (-1 : Int) := by funext q; simp [ent]
    simp [vst, he]
  rw [h0]
  have := vfold hw (cells pb) [] (fun p hp => mem_cellsOf.1 hp) (by
    rw [List.nil_append]; exact cellsOf_nodup _ _)
  rw [List.nil_append] at this
  exact this

/-- The final `vertex_id` table. -/
def vid (pb : Problem) : List (List Int) := tbl pb.height pb.width (ent pb (cells pb))

theorem mem_bcells {pb : Problem} {p : Nat × Nat} : p ∈ bcells pb ↔ onBoard pb p = true := by
  unfold bcells cells
  rw [List.mem_filter, mem_cellsOf]
  constructor
  · exact fun h => h.2
  · intro h
    exact ⟨⟨(onBoard_iff.1 h).1, (onBoard_iff.1 h).2.1⟩, h⟩

theorem vidx_lt {pb : Problem} {p : Nat × Nat} (hp : onBoard pb p = true) : vidx pb p < (bcells pb).length :=
  List.idxOf_lt_length_iff.2 (mem_bcells.2 hp)

theorem vid_get {pb : Problem} {p : Nat × Nat} (hp : onBoard pb p = true) :
    tableGet (vid pb) (p.1 : Int) (p.2 : Int) = .ok (vidx pb p : Int) := by
  unfold vid
  rw [tableGet_tbl _ (onBoard_iff.1 hp).1 (onBoard_iff.1 hp).2.1]
  have : p ∈ (cells pb).filter (onBoard pb) := mem_bcells.2 hp
  simp only [ent, this, if_true]
  rfl

/-! ### the graph -/

/-- The pairs contributed by the cell `p`. -/
def pairsAt (pb : Problem) (p : Nat × Nat) : List ((Nat × Nat) × (Nat × Nat)) :=
  if onBoard pb p then
    (if onBoard pb (p.1 + 1, p.2) then [(p, (p.1 + 1, p.2))] else []) ++
    (if onBoard pb (p.1, p.2 + 1) then [(p, (p.1, p.2 + 1))] else [])
  else []

theorem pairs_eq (pb : Problem) : pairs pb = (cells pb).flatMap (pairsAt pb) := by
  unfold pairs cells cellsOf pairsAt
  rw [List.flatMap_assoc]
  apply List.flatMap_congr
  intro y _
  rw [List.flatMap_map]

def vpair (pb : Problem) (pq : (Nat × Nat) × (Nat × Nat)) : Nat × Nat := (vidx pb pq.1, vidx pb pq.2)

/-- The graph after the cells `l`. -/
def gst (pb : Problem) (l : List (Nat × Nat)) : Graph :=
  { n := (bcells pb).length, edges := (l.flatMap (pairsAt pb)).map (vpair pb) }

def downPart (pb : Problem) (vid : List (List Int)) (g : Graph) (y x : Int) : Py Graph :=
  if y < (pb.height : Int) - 1 then do
    let v2 ← tableGet pb.problem (y + 1) x
    if v2 ≥ -1 then addEdge g (← tableGet vid y x) (← tableGet vid (y + 1) x) else pure g
  else pure g

def rightPart (pb : Problem) (vid : List (List Int)) (g : Graph) (y x : Int) : Py Graph :=
  if x < (pb.width : Int) - 1 then do
    let v2 ← tableGet pb.problem y (x + 1)
    if v2 ≥ -1 then addEdge g (← tableGet vid y x) (← tableGet vid y (x + 1)) else pure g
  else pure g

def gstep (pb : Problem) (vid : List (List Int)) (g : Graph) (p : Nat × Nat) : Py Graph := do
  let v ← tableGet pb.problem p.1 p.2
  if v ≥ -1 then do
    let g ← downPart pb vid g p.1 p.2
    rightPart pb vid g p.1 p.2
  else .ok g

theorem addEdge_eq (g : Graph) (i j : Nat) (hi : i < g.n) (hj : j < g.n) :
    addEdge g (i : Int) (j : Int) = .ok { g with edges := g.edges ++ [(i, j)] } := by
  unfold addEdge
  rw [if_pos (by omega)]
  simp

/-- The "pair with the cell below" part of the loop body. -/
theorem down_eq {pb : Problem} (hw : WellFormed pb) (g : Graph) (hg : g.n = (bcells pb).length) (p : Nat × Nat)
    (hb : onBoard pb p = true) :
    downPart pb (vid pb) g p.1 p.2
      = .ok { g with edges := g.edges ++
          ((if onBoard pb (p.1 + 1, p.2) then [(p, (p.1 + 1, p.2))] else []).map (vpair pb)) } := by
  have hp := onBoard_iff.1 hb
  unfold downPart
  by_cases hy : p.1 + 1 < pb.height
  · rw [if_pos (by omega)]
    have e : ((p.1 : Int) + 1) = ((p.1 + 1 : Nat) : Int) := by omega
    rw [e, tableGet_eq hw hy hp.2.1, ok_bind]
    by_cases hv : val pb (p.1 + 1) p.2 ≥ -1
    · have hb2 : onBoard pb (p.1 + 1, p.2) = true := onBoard_iff.2 ⟨hy, hp.2.1, hv⟩
      rw [if_pos hv, vid_get hb, ok_bind]
      have := vid_get hb2
      simp only at this
      rw [this, ok_bind, addEdge_eq g _ _ (hg ▸ vidx_lt hb) (hg ▸ vidx_lt hb2)]
      simp [hb2, vpair]
    · have hb2 : onBoard pb (p.1 + 1, p.2) = false := by
        rw [Bool.eq_false_iff]; intro h; exact hv (onBoard_iff.1 h).2.2
      rw [if_neg hv]
      simp [hb2, pure, Except.pure]
  · have hb2 : onBoard pb (p.1 + 1, p.2) = false := by
      rw [Bool.eq_false_iff]; intro h; exact hy (onBoard_iff.1 h).1
    rw [if_neg (by omega)]
    simp [hb2, pure, Except.pure]

/-- The "pair with the cell to the right" part of the loop body. -/
theorem right_eq {pb : Problem} (hw : WellFormed pb) (g : Graph) (hg : g.n = (bcells pb).length) (p : Nat × Nat)
    (hb : onBoard pb p = true) :
    rightPart pb (vid pb) g p.1 p.2
      = .ok { g with edges := g.edges ++
          ((if onBoard pb (p.1, p.2 + 1) then [(p, (p.1, p.2 + 1))] else []).map (vpair pb)) } := by
  have hp := onBoard_iff.1 hb
  unfold rightPart
  by_cases hx : p.2 + 1 < pb.width
  · rw [if_pos (by omega)]
    have e : ((p.2 : Int) + 1) = ((p.2 + 1 : Nat) : Int) := by omega
    rw [e, tableGet_eq hw hp.1 hx, ok_bind]
    by_cases hv : val pb p.1 (p.2 + 1) ≥ -1
    · have hb2 : onBoard pb (p.1, p.2 + 1) = true := onBoard_iff.2 ⟨hp.1, hx, hv⟩
      rw [if_pos hv, vid_get hb, ok_bind]
      have := vid_get hb2
      simp only at this
      rw [this, ok_bind, addEdge_eq g _ _ (hg ▸ vidx_lt hb) (hg ▸ vidx_lt hb2)]
      simp [hb2, vpair]
    · have hb2 : onBoard pb (p.1, p.2 + 1) = false := by
        rw [Bool.eq_false_iff]; intro h; exact hv (onBoard_iff.1 h).2.2
      rw [if_neg hv]
      simp [hb2, pure, Except.pure]
  · have hb2 : onBoard pb (p.1, p.2 + 1) = false := by
      rw [Bool.eq_false_iff]; intro h; exact hx (onBoard_iff.1 h).2.1
    rw [if_neg (by omega)]
    simp [hb2, pure, Except.pure]

theorem gstep_eq {pb : Problem} (hw : WellFormed pb) (l : List (Nat × Nat)) (p : Nat × Nat)
    (hp : p.1 < pb.height ∧ p.2 < pb.width) :
    gstep pb (vid pb) (gst pb l) p = .ok (gst pb (l ++ [p])) := by
  unfold gstep
  rw [tableGet_eq hw hp.1 hp.2, ok_bind]
  by_cases hv : val pb p.1 p.2 ≥ -1
  · have hb : onBoard pb p = true := onBoard_iff.2 ⟨hp.1, hp.2, hv⟩
    rw [if_pos hv, down_eq hw _ rfl p hb, ok_bind, right_eq hw _ rfl p hb]
    simp [gst, pairsAt, hb]
  · have hb : onBoard pb p = false := by
      rw [Bool.eq_false_iff]; intro h; exact hv (onBoard_iff.1 h).2.2
    rw [if_neg hv]
    simp [gst, pairsAt, hb]

theorem gfold {pb : Problem} (hw : WellFormed pb) : ∀ (l2 l1 : List (Nat × Nat)),
    (∀ p ∈ l2, p.1 < pb.height ∧ p.2 < pb.width) →
    l2.foldlM (gstep pb (vid pb)) (gst pb l1) = .ok (gst pb (l1 ++ l2))
  | [], l1, _ => by simp [pure, Except.pure]
  | p :: l2, l1, hin => by
    rw [List.foldlM_cons, gstep_eq hw l1 p (hin p List.mem_cons_self), ok_bind]
    have := gfold hw l2 (l1 ++ [p]) (fun q hq => hin q (List.mem_cons_of_mem _ hq))
    rw [this]
    simp

/-- The graph of edge-adjacent board cells. -/
def graph (pb : Problem) : Graph :=
  { n := (bcells pb).length, edges := (pairs pb).map (vpair pb) }

/-- Closed form of the second double loop. -/
theorem buildGraph_eq {pb : Problem} (hw : WellFormed pb) :
    buildGraph pb (vid pb) (bcells pb).length = .ok (graph pb) := by
  have := gfold hw (cells pb) [] (fun p hp => mem_cellsOf.1 hp)
  rw [List.nil_append] at this
  unfold graph
  rw [pairs_eq]
  unfold buildGraph
  refine Eq.trans ?_ this
  show List.foldlM _ (gst pb []) (cells pb) = _
  congr 1
  funext g p
  simp only [gstep, downPart, rightPart]
  cases tableGet pb.problem (p.1 : Int) (p.2 : Int) with
  | error e => rfl
  | ok v =>
    simp only [ok_bind]
    split
    · split
      · cases tableGet pb.problem ((p.1 : Int) + 1) (p.2 : Int) with
        | error e => rfl
        | ok v2 =>
          simp only [ok_bind]
          split
          · simp only [bind_assoc]
          · rfl
      · rfl
    · rfl

end Cspuz.Proofs.C11FivecellsA
