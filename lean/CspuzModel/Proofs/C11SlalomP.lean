/-
  C11 for `solve_slalom`, part 1: the closed form of the posted program on a well-formed instance.
-/
import CspuzModel.Proofs.C11Loop
import CspuzModel.Proofs.C11CL
import CspuzModel.Proofs.C11Frag
import CspuzModel.Spec.PuzzleRules.Slalom
namespace Cspuz.Proofs.C11SlalomP
open Cspuz Cspuz.Spec Cspuz.Spec.FrameGeom Cspuz.Spec.Loop Cspuz.Proofs Cspuz.Proofs.C11Loop
open Cspuz.Puzzles Cspuz.Puzzles.Loop Cspuz.Puzzles.Slalom Cspuz.Spec.Slalom

/-! ### small Python-level facts -/

theorem pyIndex_nat' {α} (l : List α) (k : Nat) (hk : k < l.length) : pyIndex l (k : Int) = .ok l[k] :=
  C14.pyIndex_nat _ _ _ (List.getElem?_eq_getElem hk)

theorem pySet_nat' {α} (l : List α) (k : Nat) (hk : k < l.length) (v : α) : pySet l (k : Int) v = .ok (l.set k v) := by
  simp only [pySet]
  rw [if_neg (show ¬ ((k : Int) < 0) by omega), if_pos (by omega), Int.toNat_natCast]

theorem ivars_getElem? (base n i : Nat) (hi : i < n) : (ivars base n)[i]? = some (.ivar (base + i)) := by
  unfold ivars
  rw [List.getElem?_map, List.getElem?_range hi]; rfl

theorem get_ivars (base h w y x : Nat) (hy : y < h) (hx : x < w) :
    (Arr2.mk h w (ivars base (h * w))).get (y : Int) (x : Int) = .ok (.ivar (base + (y * w + x))) :=
  C14.Arr2.get_nat _ y x _ hy hx (ivars_getElem? _ _ _ (C14.mul_add_lt hy hx))

/-! ### tables (`gate_id`, `is_black`) -/

/-- A `h × w` table. -/
def IsTable {α} (h w : Nat) (t : List (List α)) : Prop := t.length = h ∧ ∀ row ∈ t, row.length = w

/-- Entry `(y, x)` of a table, with a default. -/
def tat {α} (t : List (List α)) (d : α) (y x : Nat) : α := (t.getD y []).getD x d

theorem tget_nat {α} {h w : Nat} {t : List (List α)} (ht : IsTable h w t) (d : α) {y x : Nat} (hy : y < h) (hx : x < w) :
    tget t (y : Int) (x : Int) = .ok (tat t d y x) := by
  obtain ⟨hl, hr⟩ := ht
  have hy' : y < t.length := by omega
  have hrow : t[y].length = w := hr _ (List.getElem_mem hy')
  unfold tget tat
  rw [pyIndex_nat' t y hy', ok_bind, pyIndex_nat' _ x (by omega)]
  simp [List.getD, List.getElem?_eq_getElem hy', List.getElem?_eq_getElem (show x < t[y].length by omega)]

theorem tset_nat {α} {h w : Nat} {t : List (List α)} (ht : IsTable h w t) {y x : Nat} (hy : y < h) (hx : x < w) (v : α) :
    tset t (y : Int) (x : Int) v = .ok (t.set y ((t.getD y []).set x v)) := by
  obtain ⟨hl, hr⟩ := ht
  have hy' : y < t.length := by omega
  have hrow : t[y].length = w := hr _ (List.getElem_mem hy')
  unfold tset
  rw [pyIndex_nat' t y hy', ok_bind, pySet_nat' _ x (by omega), ok_bind, pySet_nat' _ y hy']
  simp [List.getD, List.getElem?_eq_getElem hy']

theorem isTable_set {α} {h w : Nat} {t : List (List α)} (ht : IsTable h w t) (y x : Nat) (v : α) :
    IsTable h w (t.set y ((t.getD y []).set x v)) := by
  obtain ⟨hl, hr⟩ := ht
  refine ⟨by simpa using hl, ?_⟩
  intro row hrow
  rcases List.mem_or_eq_of_mem_set hrow with h1 | h1
  · exact hr _ h1
  · subst h1
    rw [List.length_set]
    by_cases hy : y < t.length
    · simpa [List.getD, List.getElem?_eq_getElem hy] using hr _ (List.getElem_mem hy)
    · -- `t.set y _ = t`: the new row is not a member unless it already was
      rw [List.set_eq_of_length_le (by omega)] at hrow
      have := hr _ hrow
      rwa [List.length_set] at this

theorem tat_set {α} {h w : Nat} {t : List (List α)} (ht : IsTable h w t) (d : α) {y x : Nat} (hy : y < h) (hx : x < w)
    (v : α) (y' x' : Nat) :
    tat (t.set y ((t.getD y []).set x v)) d y' x' = if (y', x') = (y, x) then v else tat t d y' x' := by
  obtain ⟨hl, hr⟩ := ht
  have hy' : y < t.length := by omega
  have hrow : t[y].length = w := hr _ (List.getElem_mem hy')
  unfold tat
  by_cases h1 : y' = y
  · subst h1
    simp only [List.getD, List.getElem?_set_self hy', Option.getD_some, List.getElem?_eq_getElem hy']
    by_cases h2 : x' = x
    · subst h2
      rw [List.getElem?_set_self (by omega)]; simp
    · rw [List.getElem?_set_ne (by omega)]
      simp [h2]
  · have : ¬ ((y', x') = (y, x)) := by intro h; exact h1 (Prod.mk.inj h).1
    rw [if_neg this]
    simp only [List.getD]
    rw [List.getElem?_set_ne (by omega)]

/-! ### the gates loop -/

/-- A gate that lies on the `h × w` board (part of well-formedness). -/
def GateOnBoard (h w : Nat) (g : Gate) : Prop :=
  0 ≤ g.y ∧ 0 ≤ g.x ∧
  (match g.d with
   | .hor => g.y < h ∧ g.x + g.l ≤ w
   | .ver => g.x < w ∧ g.y + g.l ≤ h)

theorem gateCells_cast {g : Gate} (hy : 0 ≤ g.y) (hx : 0 ≤ g.x) :
    gateCells g = (gateCellsN g).map fun p => ((p.1 : Int), (p.2 : Int)) := by
  unfold gateCells gateCellsN
  rw [List.map_map]
  apply List.map_congr_left
  intro i _
  cases g.d <;> simp only [Function.comp] <;> (congr 1 <;> omega)

theorem gateCellsN_in {h w : Nat} {g : Gate} (hg : GateOnBoard h w g) :
    ∀ p ∈ gateCellsN g, p.1 < h ∧ p.2 < w := by
  intro p hp
  obtain ⟨hy, hx, hd⟩ := hg
  unfold gateCellsN at hp
  simp only [List.mem_map, List.mem_range] at hp
  obtain ⟨i, hi, rfl⟩ := hp
  cases hgd : g.d <;> rw [hgd] at hd <;> simp only [] at hd ⊢ <;> omega

/-- The inner loop `for y2, x2 in gate_cells: gate_id[y2][x2] = n`. -/
theorem cells_fold {h w : Nat} (n : Int) : ∀ (cells : List Pt) (t0 : GateIds), IsTable h w t0 →
    (∀ p ∈ cells, p.1 < h ∧ p.2 < w) →
    ∃ t1, (cells.map fun p => ((p.1 : Int), (p.2 : Int))).foldlM
        (fun (t : GateIds) (c : Int × Int) => tset t c.1 c.2 (some n)) t0 = .ok t1 ∧ IsTable h w t1 ∧
      ∀ y x, tat t1 none y x = if (y, x) ∈ cells then some n else tat t0 none y x
  | [], t0, ht, _ => ⟨t0, rfl, ht, fun y x => by simp⟩
  | p :: cells, t0, ht, hin => by
    obtain ⟨hy, hx⟩ := hin p List.mem_cons_self
    obtain ⟨t1, h1, ht1, hat⟩ := cells_fold n cells _ (isTable_set ht p.1 p.2 (some n))
      (fun q hq => hin q (List.mem_cons_of_mem _ hq))
    refine ⟨t1, ?_, ht1, ?_⟩
    · rw [List.map_cons, List.foldlM_cons, tset_nat ht hy hx, ok_bind]
      exact h1
    · intro y x
      rw [hat, tat_set ht none hy hx]
      by_cases hc : (y, x) ∈ cells
      · simp [hc]
      · simp only [hc, if_false, List.mem_cons, or_false]

/-- `gate_id[y][x]` after the gates loop: the number of the LAST gate that contains the cell (`none`: no gate). -/
def gidF (gs : List Gate) (p : Pt) : Option Int :=
  gs.foldl (fun acc g => if p ∈ gateCellsN g then some g.n else acc) none

section Gates
variable (h w b : Nat)

/-- `passed[y, x]` -/
def pasE (p : Pt) : Expr := .bvar (b + (p.1 * w + p.2))

/-- what the gates loop posts for one gate. -/
def gateE (g : Gate) : Expr := .node .eq [countTrueE ((gateCellsN g).map (pasE w b)), .litI 1]

theorem cmp_countTrueE_lit (l : List Expr) (n : Int) :
    cmpPy .eq (countTrueE l) (.litI n) = .ok (.node .eq [countTrueE l, .litI n]) := by
  obtain ⟨op, args, hct, hop⟩ := C11CL.countTrueE_isNode l
  rw [hct]
  simp [cmpPy, Expr.isIntExpr, Expr.isIntLike, hop]

theorem gateStep_eq {g : Gate} (hg : GateOnBoard h w g) (t0 : GateIds) (ht : IsTable h w t0) (cs0 : List Expr) :
    ∃ t1, gateStep (Arr2.mk h w (bvars b (h * w))) (t0, cs0) g = .ok (t1, cs0 ++ [gateE w b g]) ∧ IsTable h w t1 ∧
      ∀ y x, tat t1 none y x = if (y, x) ∈ gateCellsN g then some g.n else tat t0 none y x := by
  have hin := gateCellsN_in hg
  obtain ⟨t1, h1, ht1, hat⟩ := cells_fold g.n (gateCellsN g) t0 ht hin
  refine ⟨t1, ?_, ht1, hat⟩
  unfold gateStep
  simp only []
  rw [gateCells_cast hg.1 hg.2.1, h1, ok_bind, List.mapM_map]
  rw [mapM_eq_ok_map (g := pasE w b) (by
    intro p hp
    obtain ⟨hy, hx⟩ := hin p hp
    exact C14.get_bvars b h w p.1 p.2 hy hx)]
  rw [ok_bind, countTrue_ok_of_boolLike (by
    intro e he
    obtain ⟨p, _, rfl⟩ := List.mem_map.mp he
    rfl), ok_bind, cmp_countTrueE_lit, ok_bind]
  rfl

theorem gates_fold : ∀ (gs : List Gate) (t0 : GateIds) (cs0 : List Expr), IsTable h w t0 →
    (∀ g ∈ gs, GateOnBoard h w g) →
    ∃ t1, gs.foldlM (gateStep (Arr2.mk h w (bvars b (h * w)))) (t0, cs0) = .ok (t1, cs0 ++ gs.map (gateE w b)) ∧
      IsTable h w t1 ∧
      ∀ y x, tat t1 none y x = gs.foldl (fun acc g => if (y, x) ∈ gateCellsN g then some g.n else acc) (tat t0 none y x)
  | [], t0, cs0, ht, _ => ⟨t0, by rw [List.map_nil, List.append_nil]; rfl, ht, fun _ _ => rfl⟩
  | g :: gs, t0, cs0, ht, hg => by
    obtain ⟨t1, h1, ht1, hat1⟩ := gateStep_eq h w b (hg g List.mem_cons_self) t0 ht cs0
    obtain ⟨t2, h2, ht2, hat2⟩ := gates_fold gs t1 (cs0 ++ [gateE w b g]) ht1 (fun g' hg' => hg g' (List.mem_cons_of_mem _ hg'))
    refine ⟨t2, ?_, ht2, ?_⟩
    · rw [List.foldlM_cons, h1, ok_bind, h2]
      simp
    · intro y x
      rw [hat2, hat1]
      rfl

end Gates

/-! ### the neighbours of a cell -/

/-- The neighbours of the cell `(y, x)` on the `h × w` board, in the order up, down, left, right: the neighbouring cell,
the step (lattice segment) to it, and whether the neighbour precedes `(y, x)` in row-major order. -/
def nbInfo (h w y x : Nat) : List (Pt × Seg × Bool) :=
  (if y > 0 then [((y - 1, x), Seg.v (y - 1) x, true)] else []) ++
  (if y + 1 < h then [((y + 1, x), Seg.v y x, false)] else []) ++
  (if x > 0 then [((y, x - 1), Seg.h y (x - 1), true)] else []) ++
  (if x + 1 < w then [((y, x + 1), Seg.h y x, false)] else [])

theorem neighbors_eq (h w y x : Nat) :
    neighbors h w y x = (nbInfo h w y x).map fun i => ((i.1.1 : Int), (i.1.2 : Int)) := by
  unfold neighbors nbInfo
  have e1 : ((y : Int) < (h : Int) - 1) ↔ (y + 1 < h) := by omega
  have e2 : ((x : Int) < (w : Int) - 1) ↔ (x + 1 < w) := by omega
  simp only [e1, e2, List.map_append]
  congr 1
  · congr 1
    · congr 1
      · by_cases hy : y > 0
        · simp only [hy, if_true, List.map_cons, List.map_nil]
          congr 2; omega
        · simp [hy]
      · by_cases hy : y + 1 < h <;> simp [hy]
    · by_cases hx : x > 0
      · simp only [hx, if_true, List.map_cons, List.map_nil]
        congr 2; omega
      · simp [hx]
  · by_cases hx : x + 1 < w <;> simp [hx]

theorem mem_nbInfo {h w y x : Nat} {i : Pt × Seg × Bool} :
    i ∈ nbInfo h w y x ↔
      (0 < y ∧ i = ((y - 1, x), Seg.v (y - 1) x, true)) ∨ (y + 1 < h ∧ i = ((y + 1, x), Seg.v y x, false)) ∨
      (0 < x ∧ i = ((y, x - 1), Seg.h y (x - 1), true)) ∨ (x + 1 < w ∧ i = ((y, x + 1), Seg.h y x, false)) := by
  unfold nbInfo
  simp only [List.mem_append]
  constructor
  · rintro (((h1 | h1) | h1) | h1)
    · split at h1
      · left; exact ⟨by assumption, by simpa using h1⟩
      · cases h1
    · split at h1
      · right; left; exact ⟨by assumption, by simpa using h1⟩
      · cases h1
    · split at h1
      · right; right; left; exact ⟨by assumption, by simpa using h1⟩
      · cases h1
    · split at h1
      · right; right; right; exact ⟨by assumption, by simpa using h1⟩
      · cases h1
  · rintro (⟨h1, rfl⟩ | ⟨h1, rfl⟩ | ⟨h1, rfl⟩ | ⟨h1, rfl⟩)
    · left; left; left; simp [h1]
    · left; left; right; simp [h1]
    · left; right; simp [h1]
    · right; simp [h1]

/-- What the geometry says about one neighbour entry. -/
theorem nbInfo_spec {h w y x : Nat} (hy : y < h) (hx : x < w) {i : Pt × Seg × Bool} (hi : i ∈ nbInfo h w y x) :
    i.2.1.Valid (h - 1) (w - 1) ∧ i.2.1.mid = ((y : Int) + (i.1.1 : Int), (x : Int) + (i.1.2 : Int)) ∧
    lexLt ((i.1.1 : Int), (i.1.2 : Int)) ((y : Int), (x : Int)) = i.2.2 ∧ i.1.1 < h ∧ i.1.2 < w ∧
    i.2.1.ends = (if i.2.2 then (i.1, (y, x)) else ((y, x), i.1)) := by
  rcases mem_nbInfo.mp hi with ⟨h1, rfl⟩ | ⟨h1, rfl⟩ | ⟨h1, rfl⟩ | ⟨h1, rfl⟩
  · refine ⟨⟨by omega, by omega⟩, ?_, ?_, by simp only []; omega, hx, ?_⟩
    · simp only [Seg.mid, Seg.ends, Prod.mk.injEq]; omega
    · simp only [lexLt, Bool.or_eq_true, decide_eq_true_eq]; left; omega
    · show ((y - 1, x), (y - 1 + 1, x)) = ((y - 1, x), (y, x))
      rw [Nat.sub_add_cancel h1]
  · refine ⟨⟨by omega, by omega⟩, ?_, ?_, h1, hx, ?_⟩
    · simp only [Seg.mid, Seg.ends, Prod.mk.injEq]; omega
    · simp only [lexLt, Bool.or_eq_false_iff, decide_eq_false_iff_not, Bool.and_eq_false_iff]
      exact ⟨by omega, Or.inl (by omega)⟩
    · simp [Seg.ends]
  · refine ⟨⟨by omega, by omega⟩, ?_, ?_, hy, by simp only []; omega, ?_⟩
    · simp only [Seg.mid, Seg.ends, Prod.mk.injEq]; omega
    · simp only [lexLt, Bool.or_eq_true, decide_eq_true_eq, Bool.and_eq_true]; right; exact ⟨trivial, by omega⟩
    · show ((y, x - 1), (y, x - 1 + 1)) = ((y, x - 1), (y, x))
      rw [Nat.sub_add_cancel h1]
  · refine ⟨⟨by omega, by omega⟩, ?_, ?_, hy, h1, ?_⟩
    · simp only [Seg.mid, Seg.ends, Prod.mk.injEq]; omega
    · simp only [lexLt, Bool.or_eq_false_iff, decide_eq_false_iff_not, Bool.and_eq_false_iff]
      exact ⟨by omega, Or.inr (by omega)⟩
    · simp [Seg.ends]

/-! ### the double loop over the cells -/

section Cells
variable (pb : Problem)

local notation "HH" => pb.height - 1
local notation "WW" => pb.width - 1
local notation "NV" => Frame.numVars (pb.height - 1) (pb.width - 1)

/-- first id after the two frames and the auxiliary variables of the cycle constraint. -/
def b1 : Nat := 2 * NV + 3 * ((HH + 1) * (WW + 1))

/-- `gate_ord[y, x]` -/
def ordE (p : Pt) : Expr := .ivar (b1 pb + (p.1 * pb.width + p.2))
/-- `passed[y, x]` -/
def pasV (p : Pt) : Expr := pasE pb.width (b1 pb + pb.height * pb.width) p

/-- `loop[e] & (loop_dir[e] != lt)` (`inc = true`) resp. `loop[e] & (loop_dir[e] == lt)`. -/
def dirTermE (inc : Bool) (i : Pt × Seg × Bool) : Expr :=
  .node .and [.bvar (i.2.1.var 0 HH WW),
    .node (if inc then Op.xor else Op.iff) [.bvar (i.2.1.var NV HH WW), .litB i.2.2]]

theorem dirTerm_eq {y x : Nat} (hy : y < pb.height) (hx : x < pb.width) (inc : Bool) {i : Pt × Seg × Bool}
    (hi : i ∈ nbInfo pb.height pb.width y x) :
    dirTerm (Frame.fresh 0 HH WW) (Frame.fresh NV HH WW) (y : Int) (x : Int) inc ((i.1.1 : Int), (i.1.2 : Int))
      = .ok (dirTermE pb inc i) := by
  obtain ⟨hv, hmid, hlt, _, _, _⟩ := nbInfo_spec hy hx hi
  have g0 := C14.getitem_of_seg 0 HH WW i.2.1 hv
  have g1 := C14.getitem_of_seg NV HH WW i.2.1 hv
  rw [hmid] at g0 g1
  unfold dirTerm
  simp only []
  rw [g0, ok_bind, g1, ok_bind, hlt]
  cases inc <;> simp [xorE, iffPy, andPy, Expr.isBoolExpr, Expr.isBoolLike, dirTermE, Op.isBoolOp]

/-- in-degree (`inc = true`) / out-degree constraint of a cell. -/
def degC (inc : Bool) (p : Pt) : Expr :=
  .node .eq [countTrueE ((nbInfo pb.height pb.width p.1 p.2).map (dirTermE pb inc)),
    .node .ite [pasV pb p, .litI 1, .litI 0]]

/-- What the double loop posts for the cell `p`. -/
def cellE (p : Pt) : List Expr :=
  if black pb p.1 p.2 = true then [degC pb true p, degC pb false p, .node .not [pasV pb p]]
  else if p = originN pb then [degC pb true p, degC pb false p]
  else match gidF pb.gates p with
    | none => [degC pb true p, degC pb false p] ++
        (nbInfo pb.height pb.width p.1 p.2).map fun i =>
          Expr.node .imp [dirTermE pb true i, .node .eq [ordE pb i.1, ordE pb p]]
    | some n => [degC pb true p, degC pb false p] ++
        ((nbInfo pb.height pb.width p.1 p.2).map fun i =>
          Expr.node .imp [dirTermE pb true i, .node .eq [ordE pb i.1, .node .sub [ordE pb p, .litI 1]]]) ++
        (if n ≥ 1 then [Expr.node .imp [pasV pb p, .node .eq [ordE pb p, .litI n]]] else [])

theorem dirTerms_mapM {y x : Nat} (hy : y < pb.height) (hx : x < pb.width) (inc : Bool) :
    (neighbors pb.height pb.width y x).mapM (dirTerm (Frame.fresh 0 HH WW) (Frame.fresh NV HH WW) (y : Int) (x : Int) inc)
      = .ok ((nbInfo pb.height pb.width y x).map (dirTermE pb inc)) := by
  rw [neighbors_eq, List.mapM_map]
  exact mapM_eq_ok_map (fun i hi => dirTerm_eq pb hy hx inc hi)

theorem dirTermE_boolLike (inc : Bool) (l : List (Pt × Seg × Bool)) : ∀ e ∈ l.map (dirTermE pb inc), e.isBoolLike = true := by
  intro e he
  obtain ⟨i, _, rfl⟩ := List.mem_map.mp he
  rfl

theorem cmp_countTrueE_ite (l : List Expr) (c : Expr) :
    cmpPy .eq (countTrueE l) (.node .ite [c, .litI 1, .litI 0])
      = .ok (.node .eq [countTrueE l, .node .ite [c, .litI 1, .litI 0]]) := by
  obtain ⟨op, args, hct, hop⟩ := C11CL.countTrueE_isNode l
  rw [hct]
  have hi : Op.ite.isIntOp = true := rfl
  simp [cmpPy, Expr.isIntExpr, Expr.isIntLike, hop, hi]

theorem mem_cellsOf {h w : Nat} {p : Nat × Nat} : p ∈ cellsOf h w ↔ p.1 < h ∧ p.2 < w := by
  unfold cellsOf
  simp only [List.mem_flatMap, List.mem_map, List.mem_range]
  constructor
  · rintro ⟨y, hy, x, hx, rfl⟩; exact ⟨hy, hx⟩
  · rintro ⟨hy, hx⟩; exact ⟨p.1, hy, p.2, hx, rfl⟩

theorem black_eq (y x : Nat) : black pb y x = tat pb.isBlack false y x := rfl

theorem cellCs_eq (hb : IsTable pb.height pb.width pb.isBlack) (ho : 0 ≤ pb.origin.1 ∧ 0 ≤ pb.origin.2)
    (gid : GateIds) (hg : IsTable pb.height pb.width gid) (hgid : ∀ y x, tat gid none y x = gidF pb.gates (y, x))
    {p : Nat × Nat} (hp : p ∈ cellsOf pb.height pb.width) :
    cellCs pb (Frame.fresh 0 HH WW) (Frame.fresh NV HH WW)
      ⟨pb.height, pb.width, ivars (b1 pb) (pb.height * pb.width)⟩
      ⟨pb.height, pb.width, bvars (b1 pb + pb.height * pb.width) (pb.height * pb.width)⟩ gid p = .ok (cellE pb p) := by
  obtain ⟨hy, hx⟩ := mem_cellsOf.mp hp
  have hps : (Arr2.mk pb.height pb.width (bvars (b1 pb + pb.height * pb.width) (pb.height * pb.width))).get
      (p.1 : Int) (p.2 : Int) = .ok (pasV pb p) := C14.get_bvars _ _ _ _ _ hy hx
  have hord : ∀ q : Pt, q.1 < pb.height → q.2 < pb.width →
      (Arr2.mk pb.height pb.width (ivars (b1 pb) (pb.height * pb.width))).get (q.1 : Int) (q.2 : Int) = .ok (ordE pb q) :=
    fun q h1 h2 => get_ivars _ _ _ _ _ h1 h2
  have hcond : condE (pasV pb p) (.litI 1) (.litI 0) = .ok (.node .ite [pasV pb p, .litI 1, .litI 0]) := rfl
  unfold cellCs
  simp only []
  rw [dirTerms_mapM pb hy hx true, ok_bind, countTrue_ok_of_boolLike (dirTermE_boolLike pb true _), ok_bind, hps, ok_bind,
    hcond, ok_bind, cmp_countTrueE_ite, ok_bind]
  have hens : ∀ l c, ensure1 (Expr.node .eq [countTrueE l, c]) = .ok (Expr.node .eq [countTrueE l, c]) := fun _ _ => rfl
  rw [hens, ok_bind, dirTerms_mapM pb hy hx false, ok_bind, countTrue_ok_of_boolLike (dirTermE_boolLike pb false _), ok_bind,
    ok_bind, cmp_countTrueE_ite, ok_bind, hens, ok_bind, tget_nat hb false hy hx, ok_bind]
  unfold cellE
  rw [black_eq]
  by_cases hbl : tat pb.isBlack false p.1 p.2 = true
  · rw [if_pos hbl, if_pos hbl]
    rfl
  · rw [if_neg hbl, if_neg hbl]
    have horig : (((p.1 : Int), (p.2 : Int)) = pb.origin) ↔ (p = originN pb) := by
      obtain ⟨o1, o2⟩ := ho
      unfold originN
      constructor
      · intro h; rw [← h]; simp
      · intro h
        have h1 : p.1 = pb.origin.1.toNat := congrArg Prod.fst h
        have h2 : p.2 = pb.origin.2.toNat := congrArg Prod.snd h
        apply Prod.ext <;> simp only [] <;> omega
    by_cases hor : p = originN pb
    · rw [if_pos (horig.mpr hor), if_pos hor]
      rfl
    · rw [if_neg (fun h => hor (horig.mp h)), if_neg hor, tget_nat hg none hy hx, ok_bind, hgid]
      cases hgd : gidF pb.gates (p.1, p.2) with
      | none =>
        simp only []
        rw [neighbors_eq, List.mapM_map]
        rw [mapM_eq_ok_map (g := fun i : Pt × Seg × Bool =>
            Expr.node .imp [dirTermE pb true i, .node .eq [ordE pb i.1, ordE pb p]]) (by
          intro i hi
          obtain ⟨_, _, _, h1, h2, _⟩ := nbInfo_spec hy hx hi
          simp only [Function.comp]
          rw [dirTerm_eq pb hy hx true hi, ok_bind, hord i.1 h1 h2, ok_bind, hord p hy hx, ok_bind]
          rfl)]
        rfl
      | some n =>
        simp only []
        rw [neighbors_eq, List.mapM_map]
        rw [mapM_eq_ok_map (g := fun i : Pt × Seg × Bool =>
            Expr.node .imp [dirTermE pb true i, .node .eq [ordE pb i.1, .node .sub [ordE pb p, .litI 1]]]) (by
          intro i hi
          obtain ⟨_, _, _, h1, h2, _⟩ := nbInfo_spec hy hx hi
          simp only [Function.comp]
          rw [dirTerm_eq pb hy hx true hi, ok_bind, hord i.1 h1 h2, ok_bind, hord p hy hx, ok_bind]
          rfl)]
        rw [ok_bind]
        by_cases hn : n ≥ 1
        · rw [if_pos hn, if_pos hn, hord p hy hx, ok_bind]
          rfl
        · rw [if_neg hn, if_neg hn]
          simp only [List.append_nil]
          rfl

/-! ### the auxiliary constraint -/

/-- row-major order on cells (Python tuple comparison). -/
def cellLt (a b : Pt) : Bool := lexLt ((a.1 : Int), (a.2 : Int)) ((b.1 : Int), (b.2 : Int))

/-- What the auxiliary loop posts for a pair of cells. -/
def auxPairE (pr : Pt × Pt) : List Expr :=
  if cellLt pr.1 pr.2 = true ∧ (gidF pb.gates pr.1).isSome = true ∧ (gidF pb.gates pr.2).isSome = true then
    [Expr.node .imp [.node .and [pasV pb pr.1, pasV pb pr.2], .node .ne [ordE pb pr.1, ordE pb pr.2]]]
  else []

def cellPairs (h w : Nat) : List (Pt × Pt) := (cellsOf h w).flatMap fun c0 => (cellsOf h w).map fun c1 => (c0, c1)

theorem mem_cellPairs {h w : Nat} {pr : Pt × Pt} : pr ∈ cellPairs h w ↔ pr.1 ∈ cellsOf h w ∧ pr.2 ∈ cellsOf h w := by
  unfold cellPairs
  simp only [List.mem_flatMap, List.mem_map]
  constructor
  · rintro ⟨c0, h0, c1, h1, rfl⟩; exact ⟨h0, h1⟩
  · rintro ⟨h0, h1⟩; exact ⟨pr.1, h0, pr.2, h1, rfl⟩

def auxE : List Expr := ((cellPairs pb.height pb.width).map (auxPairE pb)).flatten

theorem auxCs_eq (gid : GateIds) (hg : IsTable pb.height pb.width gid)
    (hgid : ∀ y x, tat gid none y x = gidF pb.gates (y, x)) :
    auxCs pb.height pb.width ⟨pb.height, pb.width, ivars (b1 pb) (pb.height * pb.width)⟩
      ⟨pb.height, pb.width, bvars (b1 pb + pb.height * pb.width) (pb.height * pb.width)⟩ gid = .ok (auxE pb) := by
  unfold auxCs auxE
  simp only []
  have e : ((cellsOf pb.height pb.width).flatMap fun c0 => (cellsOf pb.height pb.width).map fun c1 => (c0, c1))
      = cellPairs pb.height pb.width := rfl
  rw [e, mapM_eq_ok_map (g := auxPairE pb)]
  · rfl
  · intro pr hpr
    obtain ⟨h0, h1⟩ := mem_cellPairs.mp hpr
    obtain ⟨hy0, hx0⟩ := mem_cellsOf.mp h0
    obtain ⟨hy1, hx1⟩ := mem_cellsOf.mp h1
    unfold auxPairE
    by_cases hlt : cellLt pr.1 pr.2 = true
    · have hlt' : lexLt ((pr.1.1 : Int), (pr.1.2 : Int)) ((pr.2.1 : Int), (pr.2.2 : Int)) = true := hlt
      rw [if_pos hlt', tget_nat hg none hy0 hx0, ok_bind, hgid]
      by_cases hs0 : (gidF pb.gates (pr.1.1, pr.1.2)).isSome = true
      · rw [if_pos hs0, tget_nat hg none hy1 hx1, ok_bind, hgid]
        by_cases hs1 : (gidF pb.gates (pr.2.1, pr.2.2)).isSome = true
        · rw [if_pos hs1, if_pos ⟨hlt, hs0, hs1⟩]
          have hp0 : (Arr2.mk pb.height pb.width (bvars (b1 pb + pb.height * pb.width) (pb.height * pb.width))).get
              (pr.1.1 : Int) (pr.1.2 : Int) = .ok (pasV pb pr.1) := C14.get_bvars _ _ _ _ _ hy0 hx0
          have hp1 : (Arr2.mk pb.height pb.width (bvars (b1 pb + pb.height * pb.width) (pb.height * pb.width))).get
              (pr.2.1 : Int) (pr.2.2 : Int) = .ok (pasV pb pr.2) := C14.get_bvars _ _ _ _ _ hy1 hx1
          have ho0 : (Arr2.mk pb.height pb.width (ivars (b1 pb) (pb.height * pb.width))).get (pr.1.1 : Int) (pr.1.2 : Int)
              = .ok (ordE pb pr.1) := get_ivars _ _ _ _ _ hy0 hx0
          have ho1 : (Arr2.mk pb.height pb.width (ivars (b1 pb) (pb.height * pb.width))).get (pr.2.1 : Int) (pr.2.2 : Int)
              = .ok (ordE pb pr.2) := get_ivars _ _ _ _ _ hy1 hx1
          rw [hp0, ok_bind, hp1, ok_bind]
          have hand : andPy (pasV pb pr.1) (pasV pb pr.2) = .ok (.node .and [pasV pb pr.1, pasV pb pr.2]) := rfl
          rw [hand, ok_bind, ho0, ok_bind, ho1, ok_bind]
          rfl
        · rw [if_neg hs1, if_neg (fun h => hs1 h.2.2)]
      · rw [if_neg hs0, if_neg (fun h => hs0 h.2.1)]
    · have hlt' : ¬ lexLt ((pr.1.1 : Int), (pr.1.2 : Int)) ((pr.2.1 : Int), (pr.2.2 : Int)) = true := hlt
      rw [if_neg hlt', if_neg (fun h => hlt h.1)]

end Cells

/-! ### the whole program -/

section Program
variable (pb : Problem)

local notation "HH" => pb.height - 1
local notation "WW" => pb.width - 1
local notation "NV" => Frame.numVars (pb.height - 1) (pb.width - 1)

/-- the fragment emitted by the cycle constraint; its auxiliary variables come after the TWO frames. -/
def cyc2 : Prog := C06L1.cycProg (lg HH WW) (les HH WW) (2 * NV)

theorem les_boolArgs2 : BoolArgs (2 * NV) (les HH WW) := by
  intro e he
  obtain ⟨h1, h2⟩ := les_boolArgs HH WW e he
  exact ⟨h1, C11Frag.varsBelow_mono (by omega) e h2⟩

theorem singleCycle_eq2 :
    singleCycle (lg HH WW) (les HH WW) false (2 * NV) = .ok (cyc2 pb, bvars (2 * NV) ((HH + 1) * (WW + 1))) :=
  C06L1.cyc_eq_prog (lg_pos HH WW) (lg_wf HH WW) (les_len HH WW) (les_boolArgs2 pb)

theorem cyc2_decls_length : (cyc2 pb).decls.length = 3 * ((HH + 1) * (WW + 1)) := by
  simp [cyc2, C06L1.cycProg, lg]; omega

/-- all the constraints posted after the cycle constraint. -/
def extra : List Expr :=
  pb.gates.map (gateE pb.width (b1 pb + pb.height * pb.width)) ++ [pasV pb (originN pb)] ++
    ((cellsOf pb.height pb.width).map (cellE pb)).flatten ++ auxE pb

/-- the declarations. -/
def decls : List VarDecl :=
  List.replicate (2 * NV) .bool ++ (cyc2 pb).decls ++
    List.replicate (pb.height * pb.width) (.int 0 (pb.gates.length : Int)) ++ List.replicate (pb.height * pb.width) .bool

theorem wf_gateOnBoard (hw : WellFormed pb) : ∀ g ∈ pb.gates, GateOnBoard pb.height pb.width g := by
  intro g hg
  obtain ⟨_, _, _, _, _, _, _, hgs, _⟩ := hw
  obtain ⟨hy, hx, _, hd, _, _⟩ := hgs g hg
  refine ⟨hy, hx, ?_⟩
  cases hgd : g.d <;> rw [hgd] at hd <;> simp only [] at hd ⊢ <;> exact ⟨hd.1, hd.2.1⟩

theorem isTable_replicate {α} (h w : Nat) (d : α) : IsTable h w (List.replicate h (List.replicate w d)) := by
  refine ⟨List.length_replicate, ?_⟩
  intro row hr
  rw [(List.mem_replicate.mp hr).2, List.length_replicate]

theorem tat_replicate {α} (h w : Nat) (d : α) (y x : Nat) : tat (List.replicate h (List.replicate w d)) d y x = d := by
  unfold tat
  simp only [List.getD, List.getElem?_replicate]
  split <;> simp [List.getElem?_replicate]
  split <;> simp

/-- Closed form of the posted program. -/
theorem program_eq (hw : WellFormed pb) :
    program pb = .ok { decls := decls pb, cs := (cyc2 pb).cs ++ extra pb, keys := List.range NV } := by
  have hgb := wf_gateOnBoard pb hw
  obtain ⟨h1, h2, hbl, hbr, ⟨ho1, ho2, ho3, ho4⟩, _, _, _, _⟩ := hw
  have hhw : (HH + 1) * (WW + 1) = pb.height * pb.width := by
    rw [Nat.sub_add_cancel h1, Nat.sub_add_cancel h2]
  obtain ⟨gid, hfold, hgt, hgat⟩ := gates_fold pb.height pb.width (b1 pb + pb.height * pb.width) pb.gates
    (List.replicate pb.height (List.replicate pb.width none)) [] (isTable_replicate _ _ _) hgb
  have hgid : ∀ y x, tat gid none y x = gidF pb.gates (y, x) := by
    intro y x
    rw [hgat, tat_replicate]
    rfl
  unfold program
  rw [if_neg (by omega)]
  simp only [frameKeys_eq, fromGridFrame_eq, singleCycle_eq2, cyc2_decls_length, bind, Except.bind]
  have hdecl : intArrayDecls (pb.height * pb.width) 0 (pb.gates.length : Int)
      = .ok (List.replicate (pb.height * pb.width) (.int 0 (pb.gates.length : Int))) := by
    unfold intArrayDecls; rw [if_neg (by omega)]
  have hb1 : 2 * NV + 3 * ((HH + 1) * (WW + 1)) = b1 pb := rfl
  simp only [hdecl, hb1]
  have hfold' := hfold
  simp only [List.nil_append] at hfold'
  rw [hfold']
  simp only []
  have horig : (Arr2.mk pb.height pb.width (bvars (b1 pb + pb.height * pb.width) (pb.height * pb.width))).get
      pb.origin.1 pb.origin.2 = .ok (pasV pb (originN pb)) := by
    have := C14.get_bvars (b1 pb + pb.height * pb.width) pb.height pb.width (originN pb).1 (originN pb).2
      (by unfold originN; simp only []; omega) (by unfold originN; simp only []; omega)
    have e1 : (((originN pb).1 : Nat) : Int) = pb.origin.1 := by unfold originN; simp only []; omega
    have e2 : (((originN pb).2 : Nat) : Int) = pb.origin.2 := by unfold originN; simp only []; omega
    rw [e1, e2] at this
    exact this
  rw [horig]
  simp only []
  have hens : ensure1 (pasV pb (originN pb)) = .ok (pasV pb (originN pb)) := rfl
  rw [hens]
  simp only []
  rw [mapM_eq_ok_map (g := cellE pb) (fun p hp => cellCs_eq pb ⟨hbl, hbr⟩ ⟨ho1, ho3⟩ gid hgt hgid hp)]
  simp only []
  rw [auxCs_eq pb gid hgt hgid]
  simp only [extra, decls, List.append_assoc]

theorem total (hw : WellFormed pb) : ∃ P, program pb = .ok P := ⟨_, program_eq pb hw⟩

end Program

end Cspuz.Proofs.C11SlalomP
