/-
  C08, part 1: `active_vertices_not_adjacent` (graph form and grid form) and the composition lemma for
  a declaration-free program fragment followed by another fragment.
-/
import CspuzModel.Proofs.EvalLemmas
import CspuzModel.Proofs.C04Prim
import CspuzModel.Spec.C08Spec
namespace Cspuz.Proofs.C08Adj
open Cspuz Cspuz.Spec Cspuz.Proofs

theorem append_decls (p q : Prog) : (p ++ q).decls = p.decls ++ q.decls := rfl
theorem append_cs (p q : Prog) : (p ++ q).cs = p.cs ++ q.cs := rfl

/-- Transport a pointwise equivalence through a successful `mapM`. -/
theorem forall_mem_of_mapM {ε α β : Type} {f : α → Except ε β} {l : List α} {r : List β}
    (hm : l.mapM f = .ok r) {P : β → Prop} {Q : α → Prop}
    (h : ∀ x ∈ l, ∀ y, f x = .ok y → (P y ↔ Q x)) : (∀ y ∈ r, P y) ↔ ∀ x ∈ l, Q x := by
  obtain ⟨hl, hi⟩ := mapM_eq_ok_iff.1 hm
  constructor
  · intro hr x hx
    obtain ⟨i, hi', rfl⟩ := List.getElem_of_mem hx
    exact (h _ (List.getElem_mem _) _ (hi i hi' (by omega))).1 (hr _ (List.getElem_mem _))
  · intro hq y hy
    obtain ⟨x, hx, hxy⟩ := mem_of_mapM_ok hm hy
    exact (h x hx y hxy).2 (hq x hx)

/-- A fragment without declarations that mentions only the caller's variables and whose constraints
mean `Q` (under every extension of `σ`, since they only read the caller's variables). -/
structure Plain (base : Nat) (p : Prog) (σ : Asg) (Q : Prop) : Prop where
  decls : p.decls = []
  below : ∀ c ∈ p.cs, c.varsBelow base = true
  sem : (∀ c ∈ p.cs, eval σ c = some (.b true)) ↔ Q

theorem Plain.sem' {base : Nat} {p : Prog} {σ σ' : Asg} {Q : Prop} (hp : Plain base p σ Q)
    (hag : AgreeBelow base σ σ') : (∀ c ∈ p.cs, eval σ' c = some (.b true)) ↔ Q := by
  rw [← hp.sem]
  constructor
  · intro h c hc; rw [eval_congr_of_varsBelow hag c (hp.below c hc)]; exact h c hc
  · intro h c hc; rw [← eval_congr_of_varsBelow hag c (hp.below c hc)]; exact h c hc

theorem Plain.realizable {base : Nat} {p : Prog} {σ : Asg} {Q : Prop} (hp : Plain base p σ Q) :
    Realizable base p σ ↔ Q := by
  constructor
  · rintro ⟨σ', hag, -, hcs⟩
    exact (hp.sem' hag).1 hcs
  · intro hq
    refine ⟨σ, AgreeBelow.refl base σ, ?_, hp.sem.2 hq⟩
    intro k lo hi hk
    rw [hp.decls] at hk
    simp at hk

/-- A plain fragment followed by any fragment: the auxiliary variables of the second fragment keep
their ids, and the conjunction is realizable iff both parts are. -/
theorem Plain.append {base : Nat} {p q : Prog} {σ : Asg} {Q : Prop} (hp : Plain base p σ Q) :
    Realizable base (p ++ q) σ ↔ Q ∧ Realizable base q σ := by
  constructor
  · rintro ⟨σ', hag, hd, hcs⟩
    rw [append_cs] at hcs
    rw [append_decls, hp.decls, List.nil_append] at hd
    exact ⟨(hp.sem' hag).1 (fun c hc => hcs c (List.mem_append_left _ hc)),
      σ', hag, hd, fun c hc => hcs c (List.mem_append_right _ hc)⟩
  · rintro ⟨hq, σ', hag, hd, hcs⟩
    refine ⟨σ', hag, ?_, ?_⟩
    · rw [append_decls, hp.decls, List.nil_append]; exact hd
    · rw [append_cs]
      intro c hc
      rcases List.mem_append.1 hc with hc | hc
      · exact (hp.sem' hag).2 hq c hc
      · exact hcs c hc

/-! ### the per-pair constraint `~(a & b)` -/

def pairC (a b : Expr) : Expr := .node .not [.node .and [a, b]]

theorem eval_pairC {base : Nat} {σ : Asg} {l : List Expr} (hl : BoolArgs base l) {i j : Nat}
    (hi : i < l.length) (hj : j < l.length) :
    eval σ (pairC l[i] l[j]) = some (.b true) ↔
      ¬ (truthAt σ l i = true ∧ truthAt σ l j = true) := by
  unfold pairC
  rw [eval_not (eval_and2 (eval_boolArg hl (AgreeBelow.refl base σ) hi)
    (eval_boolArg hl (AgreeBelow.refl base σ) hj))]
  cases truthAt σ l i <;> cases truthAt σ l j <;> simp

theorem varsBelow_pairC {base : Nat} {l : List Expr} (hl : BoolArgs base l) {i j : Nat}
    (hi : i < l.length) (hj : j < l.length) : (pairC l[i] l[j]).varsBelow base = true := by
  have h1 := (hl _ (List.getElem_mem hi)).2
  have h2 := (hl _ (List.getElem_mem hj)).2
  simp [pairC, Expr.varsBelow, Expr.varsBelow.varsBelowList, h1, h2]

/-! ### graph form -/

theorem notAdjacentGraph_plain {g : Graph} {ia : List Expr} {base : Nat} {p : Prog} (σ : Asg)
    (hwf : g.wf = true) (hlen : ia.length = g.n) (hia : BoolArgs base ia)
    (hp : notAdjacentGraph g ia = .ok p) :
    Plain base p σ (NoAdjacentActive g (truthAt σ ia)) := by
  unfold notAdjacentGraph at hp
  obtain ⟨cs, hcs, h⟩ := bind_eq_ok.1 hp
  cases h
  have key : ∀ ij ∈ g.edges, ∀ y, (do
        let a ← getE ia ij.1
        let b ← getE ia ij.2
        match ← andPy a b with
        | .litB _ => .error .typeError
        | e => .ok (.node .not [e]) : Py Expr) = .ok y →
      ∃ (h1 : ij.1 < ia.length) (h2 : ij.2 < ia.length), y = pairC ia[ij.1] ia[ij.2] := by
    intro ij hij y hy
    have hb := List.all_eq_true.1 hwf _ hij
    simp only [Bool.and_eq_true, decide_eq_true_eq] at hb
    have h1 : ij.1 < ia.length := by omega
    have h2 : ij.2 < ia.length := by omega
    refine ⟨h1, h2, ?_⟩
    rw [getE_eq_ok h1, ok_bind, getE_eq_ok h2, ok_bind] at hy
    have b1 := boolArg_isBoolLike hia h1
    have b2 := boolArg_isBoolLike hia h2
    unfold andPy at hy
    split at hy
    · cases hy
    · rw [b1, b2] at hy
      simp only [Bool.and_self, if_true, ok_bind] at hy
      cases hy
      rfl
  refine ⟨rfl, ?_, ?_⟩
  · show ∀ c ∈ cs, c.varsBelow base = true
    rw [forall_mem_of_mapM hcs (Q := fun _ => True)]
    · intros; trivial
    · intro ij hij y hy
      obtain ⟨h1, h2, rfl⟩ := key ij hij y hy
      simp [varsBelow_pairC hia h1 h2]
  · show (∀ c ∈ cs, eval σ c = some (.b true)) ↔ _
    unfold NoAdjacentActive
    apply forall_mem_of_mapM hcs
    intro ij hij y hy
    obtain ⟨h1, h2, rfl⟩ := key ij hij y hy
    exact eval_pairC hia h1 h2

/-! ### grid form -/

/-- the cell pairs of `a[1:, :] & a[:-1, :]` (indexed by the upper cell) -/
def vPairs (h w : Nat) : List (Nat × Nat) :=
  (List.range (h - 1)).flatMap fun y => (List.range w).map fun x => (y, x)
/-- the cell pairs of `a[:, 1:] & a[:, :-1]` (indexed by the left cell) -/
def hPairs (h w : Nat) : List (Nat × Nat) :=
  (List.range h).flatMap fun y => (List.range (w - 1)).map fun x => (y, x)

theorem mem_vPairs {h w : Nat} {p : Nat × Nat} : p ∈ vPairs h w ↔ p.1 + 1 < h ∧ p.2 < w := by
  obtain ⟨y, x⟩ := p
  simp only [vPairs, List.mem_flatMap, List.mem_range, List.mem_map, Prod.mk.injEq]
  constructor
  · rintro ⟨y', hy', x', hx', rfl, rfl⟩; exact ⟨by omega, hx'⟩
  · rintro ⟨hy, hx⟩; exact ⟨y, by omega, x, hx, rfl, rfl⟩

theorem mem_hPairs {h w : Nat} {p : Nat × Nat} : p ∈ hPairs h w ↔ p.1 < h ∧ p.2 + 1 < w := by
  obtain ⟨y, x⟩ := p
  simp only [hPairs, List.mem_flatMap, List.mem_range, List.mem_map, Prod.mk.injEq]
  constructor
  · rintro ⟨y', hy', x', hx', rfl, rfl⟩; exact ⟨hy', by omega⟩
  · rintro ⟨hy, hx⟩; exact ⟨y, hy, x, by omega, rfl, rfl⟩

theorem noAdj_grid_iff (h w : Nat) (act : Nat → Bool) :
    NoAdjacentActive (Graph.grid h w) act ↔
      (∀ p ∈ vPairs h w, ¬ (act ((p.1 + 1) * w + p.2) = true ∧ act (p.1 * w + p.2) = true)) ∧
      (∀ p ∈ hPairs h w, ¬ (act (p.1 * w + (p.2 + 1)) = true ∧ act (p.1 * w + p.2) = true)) := by
  unfold NoAdjacentActive
  constructor
  · intro H
    constructor
    · rintro ⟨y, x⟩ hp
      obtain ⟨hy, hx⟩ := mem_vPairs.1 hp
      have := H (y * w + x, (y + 1) * w + x)
        ((C04Prim.mem_grid_edges h w _ _).2 ⟨y, by omega, x, hx, Or.inr ⟨hy, rfl, rfl⟩⟩)
      simpa [and_comm] using this
    · rintro ⟨y, x⟩ hp
      obtain ⟨hy, hx⟩ := mem_hPairs.1 hp
      have := H (y * w + x, y * w + (x + 1))
        ((C04Prim.mem_grid_edges h w _ _).2 ⟨y, hy, x, by omega, Or.inl ⟨hx, rfl, rfl⟩⟩)
      simpa [and_comm] using this
  · rintro ⟨H1, H2⟩ ⟨a, b⟩ hab
    obtain ⟨y, hy, x, hx, ⟨h1, rfl, rfl⟩ | ⟨h1, rfl, rfl⟩⟩ := (C04Prim.mem_grid_edges h w a b).1 hab
    · have := H2 (y, x) (mem_hPairs.2 ⟨hy, h1⟩)
      simpa [and_comm] using this
    · have := H1 (y, x) (mem_vPairs.2 ⟨h1, hx⟩)
      simpa [and_comm] using this

theorem cell_lt {h w y x : Nat} (hy : y < h) (hx : x < w) : y * w + x < h * w := by
  have := Nat.mul_le_mul_right w (show y + 1 ≤ h by omega)
  rw [Nat.add_mul] at this
  omega

theorem notAdjacentGrid_plain {h w : Nat} {a : List Expr} {base : Nat} {p : Prog} (σ : Asg)
    (hlen : a.length = h * w) (ha : BoolArgs base a)
    (hp : notAdjacentGrid h w a = .ok p) :
    Plain base p σ (NoAdjacentActive (Graph.grid h w) (truthAt σ a)) := by
  unfold notAdjacentGrid at hp
  obtain ⟨v, hv, hp⟩ := bind_eq_ok.1 hp
  obtain ⟨hz, hhz, hp⟩ := bind_eq_ok.1 hp
  cases hp
  have keyV : ∀ yx ∈ vPairs h w, ∀ c, (do
        .ok (.node .not [.node .and [← getE a ((yx.1 + 1) * w + yx.2), ← getE a (yx.1 * w + yx.2)]])
          : Py Expr) = .ok c →
      ∃ (h1 : (yx.1 + 1) * w + yx.2 < a.length) (h2 : yx.1 * w + yx.2 < a.length),
        c = pairC a[(yx.1 + 1) * w + yx.2] a[yx.1 * w + yx.2] := by
    intro yx hyx c hc
    obtain ⟨hy, hx⟩ := mem_vPairs.1 hyx
    have h1 : (yx.1 + 1) * w + yx.2 < a.length := hlen ▸ cell_lt hy hx
    have h2 : yx.1 * w + yx.2 < a.length := hlen ▸ cell_lt (by omega) hx
    refine ⟨h1, h2, ?_⟩
    rw [getE_eq_ok h1, ok_bind, getE_eq_ok h2, ok_bind] at hc
    cases hc
    rfl
  have keyH : ∀ yx ∈ hPairs h w, ∀ c, (do
        .ok (.node .not [.node .and [← getE a (yx.1 * w + (yx.2 + 1)), ← getE a (yx.1 * w + yx.2)]])
          : Py Expr) = .ok c →
      ∃ (h1 : yx.1 * w + (yx.2 + 1) < a.length) (h2 : yx.1 * w + yx.2 < a.length),
        c = pairC a[yx.1 * w + (yx.2 + 1)] a[yx.1 * w + yx.2] := by
    intro yx hyx c hc
    obtain ⟨hy, hx⟩ := mem_hPairs.1 hyx
    have h1 : yx.1 * w + (yx.2 + 1) < a.length := hlen ▸ cell_lt hy hx
    have h2 : yx.1 * w + yx.2 < a.length := hlen ▸ cell_lt hy (by omega)
    refine ⟨h1, h2, ?_⟩
    rw [getE_eq_ok h1, ok_bind, getE_eq_ok h2, ok_bind] at hc
    cases hc
    rfl
  refine ⟨rfl, ?_, ?_⟩
  · show ∀ c ∈ v ++ hz, c.varsBelow base = true
    have hbv : ∀ c ∈ v, c.varsBelow base = true := by
      rw [forall_mem_of_mapM hv (Q := fun _ => True)]
      · intros; trivial
      · intro yx hyx y hy
        obtain ⟨h1, h2, rfl⟩ := keyV yx hyx y hy
        simp [varsBelow_pairC ha h1 h2]
    have hbh : ∀ c ∈ hz, c.varsBelow base = true := by
      rw [forall_mem_of_mapM hhz (Q := fun _ => True)]
      · intros; trivial
      · intro yx hyx y hy
        obtain ⟨h1, h2, rfl⟩ := keyH yx hyx y hy
        simp [varsBelow_pairC ha h1 h2]
    intro c hc
    rcases List.mem_append.1 hc with hc | hc
    · exact hbv c hc
    · exact hbh c hc
  · show (∀ c ∈ v ++ hz, eval σ c = some (.b true)) ↔ _
    rw [noAdj_grid_iff]
    simp only [List.mem_append, or_imp, forall_and]
    refine and_congr ?_ ?_
    · apply forall_mem_of_mapM hv
      intro yx hyx y hy
      obtain ⟨h1, h2, rfl⟩ := keyV yx hyx y hy
      exact eval_pairC ha h1 h2
    · apply forall_mem_of_mapM hhz
      intro yx hyx y hy
      obtain ⟨h1, h2, rfl⟩ := keyH yx hyx y hy
      exact eval_pairC ha h1 h2

end Cspuz.Proofs.C08Adj
