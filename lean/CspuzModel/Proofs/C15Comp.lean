/-
  C15: generic composition lemmas for locality (Seq, Grid) over arbitrary serializer/deserializer functions, and
  the induction principle for combinator terms.
-/
import CspuzModel.Proofs.SerBasics
set_option linter.unusedVariables false
namespace Cspuz.Ser
open Cspuz

/-- structural induction over combinator terms with membership hypotheses for the list-valued constructors -/
theorem Comb.ind {P : Comb → Prop}
    (fixStr : ∀ s, P (.fixStr s)) (dict : ∀ b a, P (.dict b a)) (spaces : ∀ sp o, P (.spaces sp o))
    (decInt : P .decInt) (hexInt : P .hexInt) (intSpaces : ∀ sp mi ms, P (.intSpaces sp mi ms))
    (multiDigit : ∀ b k, P (.multiDigit b k))
    (oneOf : ∀ cs, (∀ c ∈ cs, P c) → P (.oneOf cs)) (tupl : ∀ es, (∀ e ∈ es, P e) → P (.tupl es))
    (seq : ∀ b n, P b → P (.seq b n)) (grid : ∀ b dims, P b → P (.grid b dims))
    (rooms : ∀ s a, P (.rooms s a)) (valuedRooms : ∀ v s a, P v → P (.valuedRooms v s a))
    (yajilinClue : P .yajilinClue) : ∀ c, P c := by
  intro c
  refine Comb.rec (motive_1 := P) (motive_2 := fun l => ∀ c ∈ l, P c)
    fixStr dict spaces decInt hexInt intSpaces multiDigit oneOf tupl seq grid rooms valuedRooms yajilinClue ?_ ?_ c
  · intro c h; cases h
  · intro head tail hh ht c hc
    cases hc with
    | head => exact hh
    | tail _ h => exact ht c h

/-- a serializer never consumes more items than there are -/
def SerBounded (f : SerF) : Prop := ∀ d i k t, f d i = .ok (k, t) → i ≤ d.length → i + k ≤ d.length

theorem window_append_take (L : List PyVal) (p k : Nat) : L.take p ++ window L p k = L.take (p + k) := by
  simp only [window]
  rw [List.take_add]

theorem window_eq_drop (L : List PyVal) (p k : Nat) (h : L.length ≤ p + k) : window L p k = L.drop p := by
  simp only [window]
  apply List.take_of_length_le
  simp; omega

/-- at the end of the items the serialize loop can only stop -/
theorem seqSerLoop_at_end (f : SerF) (hb : SerBounded f) (L : List PyVal) (n fuel p : Nat) (acc t : Str)
    (hp : p = L.length) (hLn : L.length ≤ n) (h : seqSerLoop f L n fuel p acc = .ok t) : n = p ∧ t = acc := by
  cases fuel with
  | zero => simp [seqSerLoop] at h
  | succ fuel =>
    unfold seqSerLoop at h
    split at h
    · cases hf : f L p with
      | none => simp [hf] at h
      | raised e => simp [hf] at h
      | diverge => simp [hf] at h
      | ok r =>
        obtain ⟨k, tk⟩ := r
        have := hb L p k tk hf (by omega)
        have hk : k = 0 := by omega
        simp [hf, hk] at h
    · split at h
      · rename_i h1
        cases h
        exact ⟨h1.symm, rfl⟩
      · simp at h

/-- the serialize loop of `Seq` against the deserialize loop, position by position -/
theorem seq_loop (f : SerF) (g : DeF) (T : List PyVal → Nat → Prop) (P : Str → Prop) (ex : Bool)
    (hloc : LocalF T f g P ex) (hb : SerBounded f) (L : List PyVal) (n : Nat) (hLn : L.length ≤ n)
    (hT : ∀ p, T L p) (idx : Nat) (Q : Str → Prop)
    (hPQ : ∀ rest, Q rest → P rest)            -- what follows the whole sequence
    (hmid : ∀ t'' rest, t'' ≠ [] → Q rest → P (t'' ++ rest) ∨ n ≤ 1) :
    ∀ fuel p acc t, seqSerLoop f L n fuel p acc = .ok t → p ≤ L.length →
      ∃ t', t = acc ++ t' ∧ ∀ pre rest dfuel nr, Q rest → fuel < dfuel → pre.length = idx + nr →
        seqDeLoop g (pre ++ t' ++ rest) idx n dfuel nr (L.take p) = .ok (nr + t'.length, [.list L]) := by
  intro fuel
  induction fuel with
  | zero => intro p acc t h; simp [seqSerLoop] at h
  | succ fuel ih =>
    intro p acc t h hp
    unfold seqSerLoop at h
    split at h
    · rename_i hpn
      -- p < n: one base step
      cases hf : f L p with
      | none => simp [hf] at h
      | raised e => simp [hf] at h
      | diverge => simp [hf] at h
      | ok r =>
        obtain ⟨k, tk⟩ := r
        simp only [hf] at h
        split at h
        · simp at h
        · rename_i hk
          have hpk : p + k ≤ L.length := hb L p k tk hf hp
          obtain ⟨t'', ht'', hdec⟩ := ih (p + k) (acc ++ tk) t h hpk
          refine ⟨tk ++ t'', by simp [ht'', List.append_assoc], ?_⟩
          intro pre rest dfuel nr hQ hfu hpre
          obtain ⟨dfuel', rfl⟩ : ∃ m, dfuel = m + 1 := ⟨dfuel - 1, by omega⟩
          unfold seqDeLoop
          have hlen : (L.take p).length = p := by simp; omega
          simp only [hlen, hpn, if_true]
          -- the continuation condition for the base step
          have hP : P (t'' ++ rest) := by
            by_cases ht0 : t'' = []
            · subst ht0; simpa using hPQ rest hQ
            · rcases hmid t'' rest ht0 hQ with h1 | h1
              · exact h1
              · -- n ≤ 1 forces p + k = n, so the loop has ended and t'' = []
                exfalso
                have : p + k = n := by omega
                -- the next serialize iteration returns acc ++ tk immediately
                cases fuel with
                | zero => simp [seqSerLoop] at h
                | succ fuel' =>
                  unfold seqSerLoop at h
                  simp [this] at h
                  have : t'' = [] := by
                    have := ht''
                    rw [← h] at this
                    simpa using this
                  exact ht0 this
          have hctx : pre ++ (tk ++ t'') ++ rest = pre ++ tk ++ (t'' ++ rest) := by simp [List.append_assoc]
          obtain ⟨items, hg, hpre', hex⟩ := hloc L p k tk hf (hT p) pre (t'' ++ rest) hP
          rw [hctx, ← hpre, hg]
          have hwl : (window L p k).length = k := window_length L p k hpk
          have hne : ¬ (tk.length = 0 ∧ items.isEmpty = true) := by
            intro ⟨_, hi⟩
            have : items = [] := by simpa using hi
            subst this
            have := List.IsPrefix.length_le hpre'
            simp [hwl] at this
            omega
          simp only [Bool.and_eq_true, decide_eq_true_eq, hne, if_false]
          by_cases hlast : p + k < L.length
          · have hit : items = window L p k := hex (Or.inr hlast)
            subst hit
            rw [window_append_take]
            have := hdec (pre ++ tk) rest dfuel' (nr + tk.length) hQ (by omega) (by simp; omega)
            rw [show pre ++ tk ++ (t'' ++ rest) = pre ++ tk ++ t'' ++ rest by simp [List.append_assoc]]
            rw [this]
            simp; omega
          · -- last step: p + k = L.length; the serialize loop stops, the decoder may have appended padding
            have hpkL : p + k = L.length := by omega
            obtain ⟨hnL, htacc⟩ := seqSerLoop_at_end f hb L n fuel (p + k) (acc ++ tk) t hpkL hLn h
            have ht0 : t'' = [] := by
              rw [htacc] at ht''
              simpa using ht''
            subst ht0
            obtain ⟨dfuel'', rfl⟩ : ∃ m, dfuel' = m + 1 := ⟨dfuel' - 1, by omega⟩
            unfold seqDeLoop
            obtain ⟨pad, rfl⟩ := hpre'
            have hlen2 : ¬ ((L.take p ++ (window L p k ++ pad)).length < n) := by
              rw [List.length_append, List.length_append, hlen, hwl]; omega
            simp only [hlen2, if_false]
            have : (L.take p ++ (window L p k ++ pad)).take n = L := by
              rw [← List.append_assoc, window_append_take, hpkL, List.take_length]
              rw [hnL, hpkL]; simp
            rw [this]; simp
    · rename_i hpn
      split at h
      · rename_i hpn'
        subst hpn'
        have hacc : t = acc := by cases h; rfl
        refine ⟨[], by simp [hacc], ?_⟩
        · intro pre rest dfuel nr hQ hfu hpre
          obtain ⟨dfuel', rfl⟩ : ∃ m, dfuel = m + 1 := ⟨dfuel - 1, by omega⟩
          unfold seqDeLoop
          have : (L.take p).length = p := by simp; omega
          simp [this]
          have : L.length = p := by omega
          rw [← this]; simp
      · simp at h


theorem seqSer_eq_ok {f : SerF} {n : Nat} {d : List PyVal} {i k : Nat} {t : Str}
    (h : seqSer f n d i = .ok (k, t)) :
    ∃ l, d[i]? = some (.list l) ∧ k = 1 ∧ seqSerLoop f l n (n + 1) 0 [] = .ok t := by
  unfold seqSer at h
  obtain ⟨v, hv, hk⟩ := withItem_eq_ok.mp h
  cases v with
  | list l =>
    simp only at hk
    obtain ⟨t', ht', heq⟩ := Outcome.bind_eq_ok.mp hk
    cases heq
    exact ⟨l, hv, rfl, ht'⟩
  | _ => simp at hk

/-- `Seq` over a local base is local (and exact: it consumes and returns one list) -/
theorem seq_local (f : SerF) (g : DeF) (T : List PyVal → Nat → Prop) (P Q : Str → Prop) (ex : Bool)
    (hloc : LocalF T f g P ex) (hb : SerBounded f) (n : Nat)
    (hPQ : ∀ rest, Q rest → P rest)
    (hmid : ∀ t'' rest, t'' ≠ [] → Q rest → P (t'' ++ rest) ∨ n ≤ 1) :
    LocalF (fun d i => ∀ l, d[i]? = some (.list l) → l.length ≤ n ∧ ∀ p, T l p) (seqSer f n) (seqDe g n) Q true := by
  intro d i k t h hT pre rest hQ
  obtain ⟨l, hl, rfl, hloop⟩ := seqSer_eq_ok h
  obtain ⟨hln, hTl⟩ := hT l hl
  obtain ⟨t', ht', hdec⟩ := seq_loop f g T P ex hloc hb l n hln hTl pre.length Q hPQ hmid (n + 1) 0 [] t hloop (by omega)
  simp only [List.nil_append] at ht'
  subst ht'
  refine ⟨[.list l], ?_, ?_, ?_⟩
  · unfold seqDe
    have := hdec pre rest (n + (pre ++ t ++ rest).length + 2) 0 hQ (by omega) (by omega)
    simpa using this
  · rw [window_one d i _ hl]; exact List.prefix_refl _
  · intro _; rw [window_one d i _ hl]

/-! ### Grid -/

theorem gridFlatten_shape (h w : Nat) (rows : List PyVal) (hs : GridShape h w rows) :
    gridFlatten h rows = .ok (rowsFlat rows) ∧ (rowsFlat rows).length = h * w := by
  obtain ⟨hlen, hrows⟩ := hs
  induction rows generalizing h with
  | nil => subst hlen; simp [gridFlatten, rowsFlat]
  | cons r rows ih =>
    obtain ⟨l, rfl, hl⟩ := hrows r (by simp)
    obtain ⟨h', rfl⟩ : ∃ h', h = h' + 1 := ⟨rows.length, by simpa using hlen.symm⟩
    have := ih h' (by simpa using hlen) (fun r hr => hrows r (by simp [hr]))
    simp [gridFlatten, rowsFlat, asSeq?, this.1, this.2, hl, Nat.add_mul]
    omega

theorem gridRows_shift (w : Nat) (d2 : List PyVal) (h i : Nat) :
    gridRows w d2 h i = gridRows w (d2.drop (i * w)) h 0 := by
  induction h generalizing i d2 with
  | zero => simp [gridRows]
  | succ h ih =>
    simp only [gridRows, Nat.zero_mul, List.drop_zero]
    rw [ih d2 (i + 1), ih (d2.drop (i * w)) (0 + 1)]
    simp [List.drop_drop, Nat.add_mul, Nat.add_comm]

theorem gridRows_rowsFlat (h w : Nat) (rows : List PyVal) (hs : GridShape h w rows) :
    gridRows w (rowsFlat rows) h 0 = rows := by
  obtain ⟨hlen, hrows⟩ := hs
  induction rows generalizing h with
  | nil => subst hlen; simp [gridRows]
  | cons r rows ih =>
    obtain ⟨l, rfl, hl⟩ := hrows r (by simp)
    obtain ⟨h', rfl⟩ : ∃ h', h = h' + 1 := ⟨rows.length, by simpa using hlen.symm⟩
    have := ih h' (by simpa using hlen) (fun r hr => hrows r (by simp [hr]))
    simp only [gridRows, rowsFlat, Nat.zero_mul, List.drop_zero]
    rw [gridRows_shift]
    simp [hl, this]

theorem grid_local (f : SerF) (g : DeF) (T : List PyVal → Nat → Prop) (P Q : Str → Prop) (ex : Bool)
    (hloc : LocalF T f g P ex) (hb : SerBounded f) (h w : Nat)
    (hPQ : ∀ rest, Q rest → P rest)
    (hmid : ∀ t'' rest, t'' ≠ [] → Q rest → P (t'' ++ rest) ∨ h * w ≤ 1) :
    LocalF (fun d i => ∀ rows, d[i]? = some (.list rows) → GridShape h w rows ∧ ∀ p, T (rowsFlat rows) p)
      (gridSer f h w) (gridDe g h w) Q true := by
  intro d i k t hser hT pre rest hQ
  unfold gridSer at hser
  obtain ⟨v, hv, hk⟩ := withItem_eq_ok.mp hser
  cases v with
  | list rows =>
    simp only at hk
    obtain ⟨hshape, hTl⟩ := hT rows hv
    obtain ⟨hflat, hflen⟩ := gridFlatten_shape h w rows hshape
    rw [hflat] at hk
    simp only [Outcome.bind_ok] at hk
    -- the inner Seq call asks for item 0 of the fresh one-element list [d_flat], whatever `i` is
    obtain ⟨l, hl, rfl, hloop⟩ := seqSer_eq_ok hk
    have hll : l = rowsFlat rows := by simpa using hl.symm
    subst hll
    obtain ⟨t', ht', hdec⟩ := seq_loop f g T P ex hloc hb (rowsFlat rows) (h * w) (by omega) hTl pre.length Q hPQ hmid
      (h * w + 1) 0 [] t hloop (by omega)
    simp only [List.nil_append] at ht'
    subst ht'
    refine ⟨[.list rows], ?_, ?_, ?_⟩
    · unfold gridDe seqDe
      have := hdec pre rest (h * w + (pre ++ t ++ rest).length + 2) 0 hQ (by omega) (by omega)
      simp only [List.take_zero, Nat.zero_add] at this
      rw [this]
      simp [hflen, gridRows_rowsFlat h w rows hshape]
    · rw [window_one d i _ hv]; exact List.prefix_refl _
    · intro _; rw [window_one d i _ hv]
  | _ => simp at hk

end Cspuz.Ser
