/-
  C17, second half, for `Rooms`: every pair of border bitmaps (of the right dimensions) is described by a weak colour
  system — colour a cell by the first cell (row-major) of its connected component under "orthogonal neighbour, no border
  in between" — and the list of colour classes of a weak colour system is a valid partition of the board in canonical
  form (rooms by least cell, cells row-major), so that `canonRooms` / `canonValues` leave it (and the values attached
  to it) unchanged.
-/
import CspuzModel.Proofs.C17RoomsReFill
import CspuzModel.Proofs.C15Valued
namespace Cspuz.Ser.RoomsReCanon
open Cspuz Cspuz.Ser Cspuz.Ser.RoomsReFill

/-! ### the component colouring of arbitrary bitmaps -/

theorem open_symm {hz vt : Grid2 Bool} {h w : Nat} {a b : Nat × Nat} (ha : a.1 < h ∧ a.2 < w)
    (hab : Open hz vt h w a b) : Open hz vt h w b a := by
  obtain ⟨y, x⟩ := a
  simp only at ha
  rcases hab with ⟨h1, h2, rfl⟩ | ⟨h1, h2, rfl⟩ | ⟨h1, h2, rfl⟩ | ⟨h1, h2, rfl⟩ <;> simp only at h1 h2
  · right; left
    exact ⟨by simp only; omega, h2, by simp only [Prod.mk.injEq, and_true]; omega⟩
  · left
    exact ⟨by simp, by simpa using h2, by simp⟩
  · right; right; right
    exact ⟨by simp only; omega, h2, by simp only [Prod.mk.injEq, true_and]; omega⟩
  · right; right; left
    exact ⟨by simp, by simpa using h2, by simp⟩

theorem open_adj {hz vt : Grid2 Bool} {h w : Nat} {a b : Nat × Nat} (hab : Open hz vt h w a b) : Adj4 a b := by
  obtain ⟨y, x⟩ := a
  rcases hab with ⟨h1, _, rfl⟩ | ⟨h1, _, rfl⟩ | ⟨h1, _, rfl⟩ | ⟨h1, _, rfl⟩ <;> simp only at h1 <;>
    simp only [Adj4] <;> simp <;> omega

theorem reach_board {hz vt : Grid2 Bool} {h w : Nat} {a b : Nat × Nat} (ha : a.1 < h ∧ a.2 < w)
    (hab : Relation.ReflTransGen (Open hz vt h w) a b) : b.1 < h ∧ b.2 < w := by
  induction hab with
  | refl => exact ha
  | tail _ hxy ih => exact hxy.board ih

theorem reach_symm {hz vt : Grid2 Bool} {h w : Nat} {a b : Nat × Nat} (ha : a.1 < h ∧ a.2 < w)
    (hab : Relation.ReflTransGen (Open hz vt h w) a b) : Relation.ReflTransGen (Open hz vt h w) b a := by
  induction hab with
  | refl => exact .refl
  | @tail x y hax hxy ih => exact Relation.ReflTransGen.head (open_symm (reach_board ha hax) hxy) ih

open Classical in
/-- colour of a cell: the position (row-major) of the first cell of its connected component -/
noncomputable def compCol (hz vt : Grid2 Bool) (h w : Nat) (a : Nat × Nat) : Nat :=
  (cells h w).findIdx fun c => decide (Relation.ReflTransGen (Open hz vt h w) c a)

theorem compCol_spec {hz vt : Grid2 Bool} {h w : Nat} {a : Nat × Nat} (ha : a.1 < h ∧ a.2 < w) :
    ∃ c, (cells h w)[compCol hz vt h w a]? = some c ∧ Relation.ReflTransGen (Open hz vt h w) c a := by
  classical
  have hex : ∃ x ∈ cells h w, (fun c => decide (Relation.ReflTransGen (Open hz vt h w) c a)) x = true :=
    ⟨a, mem_cells.2 ha, by simp [Relation.ReflTransGen.refl]⟩
  have hlt := List.findIdx_lt_length_of_exists hex
  refine ⟨(cells h w)[compCol hz vt h w a]'hlt, List.getElem?_eq_getElem hlt, ?_⟩
  have := List.findIdx_getElem (w := hlt)
  unfold compCol
  simpa using this

theorem weak_compCol {hz vt : Grid2 Bool} {h w : Nat} (hhz : Dims (h - 1) w hz) (hvt : Dims h (w - 1) vt) :
    WeakColorSys hz vt h w (compCol hz vt h w) where
  hhz := hhz
  hvt := hvt
  open_col := by
    intro a b ha1 ha2 hab
    unfold compCol
    congr 1
    funext c
    rw [decide_eq_decide]
    exact ⟨fun hc => hc.tail hab, fun hc => hc.tail (open_symm ⟨ha1, ha2⟩ hab)⟩
  conn := by
    intro a b ha1 ha2 hb1 hb2 e
    obtain ⟨c, hc, hca⟩ := compCol_spec (hz := hz) (vt := vt) ⟨ha1, ha2⟩
    obtain ⟨c', hc', hcb⟩ := compCol_spec (hz := hz) (vt := vt) ⟨hb1, hb2⟩
    have hcc : c = c' := by
      rw [e, hc'] at hc
      exact (Option.some.inj hc).symm
    subst hcc
    have hcb' : c.1 < h ∧ c.2 < w := mem_cells.1 (List.mem_of_getElem? hc')
    exact (reach_symm hcb' hca).trans hcb

/-! ### the colour classes of a weak colour system: a valid partition in canonical form -/

section classes
variable {h w : Nat} {col : Nat × Nat → Nat}

/-- the colour class of `c` -/
def cls (h w : Nat) (col : Nat × Nat → Nat) (c : Nat × Nat) : List (Nat × Nat) :=
  (cells h w).filter fun a => col a == col c

theorem colorRooms_eq : colorRooms h w col = ((cells h w).filter (isLeader h w col)).map (cls h w col) := rfl

theorem mem_cls {a c : Nat × Nat} : a ∈ cls h w col c ↔ (a.1 < h ∧ a.2 < w) ∧ col a = col c := by
  simp [cls, List.mem_filter, mem_cells]

theorem leader_find {c : Nat × Nat} (hl : isLeader h w col c = true) :
    (cells h w).find? (fun a => col a == col c) = some c := by
  simpa [isLeader] using hl

theorem leader_mem {c : Nat × Nat} (hl : isLeader h w col c = true) : c ∈ cells h w :=
  List.mem_of_find?_eq_some (leader_find hl)

theorem leader_unique {c c' : Nat × Nat} (hl : isLeader h w col c = true) (hl' : isLeader h w col c' = true)
    (e : col c = col c') : c = c' := by
  have h1 := leader_find hl
  have h2 := leader_find hl'
  rw [e, h2] at h1
  exact (Option.some.inj h1).symm

theorem mem_colorRooms {r : List (Nat × Nat)} (hr : r ∈ colorRooms h w col) :
    ∃ c, isLeader h w col c = true ∧ r = cls h w col c := by
  rw [colorRooms_eq, List.mem_map] at hr
  obtain ⟨c, hc, rfl⟩ := hr
  exact ⟨c, (List.mem_filter.1 hc).2, rfl⟩

theorem cls_head {c : Nat × Nat} (hl : isLeader h w col c = true) : (cls h w col c).head? = some c := by
  unfold cls
  rw [List.head?_filter]
  exact leader_find hl

theorem cls_ne_nil {c : Nat × Nat} (hl : isLeader h w col c = true) : cls h w col c ≠ [] := by
  intro e
  have := cls_head hl
  rw [e] at this
  cases this

theorem cls_board {c a : Nat × Nat} (ha : a ∈ cls h w col c) : a ∈ cells h w :=
  (List.mem_filter.1 ha).1

theorem canonRoom_cls (c : Nat × Nat) : canonRoom h w (cls h w col c) = cls h w col c := by
  unfold canonRoom
  conv_rhs => unfold cls
  apply List.filter_congr
  intro a ha
  apply Bool.eq_iff_iff.2
  simp only [List.contains_iff_mem, beq_iff_eq, mem_cls]
  exact ⟨fun hh => hh.2, fun hh => ⟨mem_cells.1 ha, hh⟩⟩

theorem roomMin_cls {c : Nat × Nat} (hl : isLeader h w col c = true) : roomMin (cls h w col c) = c := by
  have := head_canonRoom (h := h) (w := w) (cls_ne_nil hl) (fun a ha => cls_board ha)
  rw [canonRoom_cls, cls_head hl] at this
  exact (Option.some.inj this).symm

theorem leaders_nodup : ((cells h w).filter (isLeader h w col)).Nodup := (cells_nodup h w).filter _

theorem leaders_sorted : ((cells h w).filter (isLeader h w col)).Pairwise lexLt := (cells_sorted h w).filter _

theorem classes_disjoint :
    (colorRooms h w col).Pairwise fun r r' => ∀ a, a ∈ r → a ∈ r' → False := by
  rw [colorRooms_eq, List.pairwise_map]
  refine List.Pairwise.imp_of_mem ?_ (leaders_nodup (h := h) (w := w) (col := col))
  intro c c' hc hc' hne a ha ha'
  have e : col c = col c' := (mem_cls.1 ha).2.symm.trans (mem_cls.1 ha').2
  exact hne (leader_unique (List.mem_filter.1 hc).2 (List.mem_filter.1 hc').2 e)

theorem classes_sorted :
    (colorRooms h w col).Pairwise fun r r' => ¬ lexLt (roomMin r') (roomMin r) := by
  rw [colorRooms_eq, List.pairwise_map]
  refine List.Pairwise.imp_of_mem ?_ (leaders_sorted (h := h) (w := w) (col := col))
  intro c c' hc hc' hlt
  rw [roomMin_cls (List.mem_filter.1 hc).2, roomMin_cls (List.mem_filter.1 hc').2]
  exact fun h2 => lexLt_irrefl c (lexLt_trans hlt h2)

/-- every board cell lies in the class of the leader of its colour -/
theorem mem_flatten_classes {a : Nat × Nat} (ha : a ∈ cells h w) : a ∈ (colorRooms h w col).flatten := by
  have hex : ∃ c, (cells h w).find? (fun x => col x == col a) = some c := by
    cases hf : (cells h w).find? (fun x => col x == col a) with
    | none => rw [List.find?_eq_none] at hf; exact absurd (by simp) (hf a ha)
    | some c => exact ⟨c, rfl⟩
  obtain ⟨c, hc⟩ := hex
  have hcc : col c = col a := by simpa using List.find?_some hc
  have hl : isLeader h w col c = true := by
    unfold isLeader
    rw [hcc, hc]; simp
  rw [List.mem_flatten]
  refine ⟨cls h w col c, ?_, mem_cls.2 ⟨mem_cells.1 ha, hcc.symm⟩⟩
  rw [colorRooms_eq]
  exact List.mem_map_of_mem (List.mem_filter.2 ⟨List.mem_of_find?_eq_some hc, hl⟩)

theorem classes_cover : (colorRooms h w col).flatten.Perm (cells h w) := by
  have nd : (colorRooms h w col).flatten.Nodup := by
    rw [List.nodup_flatten]
    refine ⟨?_, ?_⟩
    · intro r hr
      obtain ⟨c, _, rfl⟩ := mem_colorRooms hr
      exact (cells_nodup h w).filter _
    · exact (classes_disjoint (h := h) (w := w) (col := col)).imp
        (fun {r r'} hd => List.disjoint_left.2 fun {a} h1 h2 => hd a h1 h2)
  rw [List.perm_ext_iff_of_nodup nd (cells_nodup h w)]
  intro a
  constructor
  · intro ha
    obtain ⟨r, hr, har⟩ := List.mem_flatten.1 ha
    obtain ⟨c, _, rfl⟩ := mem_colorRooms hr
    exact cls_board har
  · exact mem_flatten_classes

/-- **the colour classes of a weak colour system form a valid partition** -/
theorem valid_classes {hz vt : Grid2 Bool} (cs : WeakColorSys hz vt h w col) :
    ValidPartition h w (colorRooms h w col) where
  nonempty := by
    intro r hr
    obtain ⟨c, hl, rfl⟩ := mem_colorRooms hr
    exact cls_ne_nil hl
  cover := classes_cover
  connected := by
    intro r hr
    obtain ⟨c, _, rfl⟩ := mem_colorRooms hr
    intro a ha b hb
    obtain ⟨hab, hac⟩ := mem_cls.1 ha
    obtain ⟨hbb, hbc⟩ := mem_cls.1 hb
    have hchain := cs.conn a b hab.1 hab.2 hbb.1 hbb.2 (hac.trans hbc.symm)
    have : Relation.ReflTransGen (fun x y => Adj4 x y ∧ y ∈ cls h w col c) a b ∧ b ∈ cls h w col c := by
      clear hb hbb hbc
      induction hchain with
      | refl => exact ⟨.refl, ha⟩
      | @tail x y _ hxy ih =>
        obtain ⟨hxb, hxc⟩ := mem_cls.1 ih.2
        have hy : y ∈ cls h w col c :=
          mem_cls.2 ⟨hxy.board hxb, (cs.open_col x y hxb.1 hxb.2 hxy).symm.trans hxc⟩
        exact ⟨ih.1.tail ⟨open_adj hxy, hy⟩, hy⟩
    exact this.1

/-- the colour classes, paired with any values, are sorted by least cell -/
theorem sortedZ_classes {values : List PyVal} (hl : values.length = (colorRooms h w col).length) :
    SortedZ h w ((colorRooms h w col).zip values) := by
  have hfst : ((colorRooms h w col).zip values).map (·.1) = colorRooms h w col := List.map_fst_zip (by omega)
  have hmem : ∀ rv ∈ (colorRooms h w col).zip values, rv.1 ∈ colorRooms h w col := fun rv hrv => by
    rw [← hfst]; exact List.mem_map_of_mem hrv
  refine ⟨?_, ?_, ?_, ?_⟩
  · intro rv hrv
    obtain ⟨c, hc, e⟩ := mem_colorRooms (hmem rv hrv)
    rw [e]; exact cls_ne_nil hc
  · intro rv hrv a ha
    obtain ⟨c, hc, e⟩ := mem_colorRooms (hmem rv hrv)
    rw [e] at ha; exact cls_board ha
  · have := classes_disjoint (h := h) (w := w) (col := col)
    rw [← hfst, List.pairwise_map] at this
    exact this
  · have := classes_sorted (h := h) (w := w) (col := col)
    rw [← hfst, List.pairwise_map] at this
    exact this

/-- **canonical form**: re-ordering the colour classes canonically changes nothing -/
theorem canonRooms_classes : canonRooms h w (colorRooms h w col) = colorRooms h w col := by
  have hl : (List.replicate (colorRooms h w col).length PyVal.none).length = (colorRooms h w col).length := by simp
  have sz := sortedZ_classes (h := h) (w := w) (col := col) hl
  have hfst : ((colorRooms h w col).zip (List.replicate (colorRooms h w col).length PyVal.none)).map (·.1)
      = colorRooms h w col := List.map_fst_zip (by omega)
  have := canonRooms_sorted sz
  rw [hfst] at this
  rw [this]
  have h2 : ((colorRooms h w col).zip (List.replicate (colorRooms h w col).length PyVal.none)).map
      (fun rv => canonRoom h w rv.1) = (colorRooms h w col).map (canonRoom h w) := by
    conv_rhs => rw [← hfst]
    rw [List.map_map]; rfl
  rw [h2]
  conv_rhs => rw [← List.map_id (colorRooms h w col)]
  apply List.map_congr_left
  intro r hr
  obtain ⟨c, _, rfl⟩ := mem_colorRooms hr
  exact canonRoom_cls c

/-- … and the values stay where they are -/
theorem canonValues_classes {values : List PyVal} (hl : values.length = (colorRooms h w col).length) :
    canonValues h w (colorRooms h w col) values = values := by
  have sz := sortedZ_classes (h := h) (w := w) (col := col) hl
  have := sz.filterMap_eq (fun rv => rv.2)
  unfold canonValues
  rw [this]
  exact List.map_snd_zip (by omega)

end classes

end Cspuz.Ser.RoomsReCanon
