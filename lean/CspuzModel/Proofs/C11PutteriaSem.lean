/-
  C11 / putteria — part 3: meaning of the posted constraints, and the theorem.
-/
import CspuzModel.Proofs.C11Putteria
namespace Cspuz.Proofs.C11PutteriaSem
open Cspuz Cspuz.Spec Cspuz.Puzzles Cspuz.Puzzles.Putteria Cspuz.Proofs Cspuz.Proofs.C11CL
open Cspuz.Proofs.C11PutteriaTable Cspuz.Proofs.C11Putteria

/-! ### Evaluation of the pieces -/

theorem eval_orNot (σ : Asg) (a b : Nat) :
    eval σ (orNot a b) = some (.b true) ↔ ¬ (σ.b a = true ∧ σ.b b = true) := by
  cases ha : σ.b a <;> cases hb : σ.b b <;> simp [orNot, evalOp, allBools, ha, hb]

theorem eval_nand (σ : Asg) (a b : Nat) :
    eval σ (nand a b) = some (.b true) ↔ ¬ (σ.b a = true ∧ σ.b b = true) := by
  cases ha : σ.b a <;> cases hb : σ.b b <;> simp [nand, evalOp, allBools, ha, hb]

theorem eval_roomE (σ : Asg) (w : Nat) (b : List (Int × Int)) :
    eval σ (roomE w b) = some (.b true) ↔ b.countP (fun p => σ.b (p.1.toNat * w + p.2.toNat)) = 1 := by
  have hE : eval σ (countTrueE (roomV w b))
      = some (.i ((b.countP fun p => σ.b (p.1.toNat * w + p.2.toNat) : Nat) : Int)) := by
    rw [eval_countTrueE (σ := σ) (b.map fun p => σ.b (p.1.toNat * w + p.2.toNat))]
    · rw [List.count_eq_countP, List.countP_map]
      congr 3
      apply List.countP_congr
      intro p _
      simp
    · simp [roomV, List.map_map, Function.comp_def]
  simp only [roomE, eval_node, List.map_cons, List.map_nil, hE, eval_litI]
  simp [evalOp, allInts]
  omega

/-! ### The constraint groups -/

theorem mem_flatten_map {α β : Type} (L : List α) (f : α → List β) (c : β) :
    c ∈ (L.map f).flatten ↔ ∃ a ∈ L, c ∈ f a := by
  simp [List.mem_flatten]

theorem adj_iff (σ : Asg) (L : List (Nat × Nat)) (fa fb : Nat × Nat → Nat) :
    (∀ c ∈ adjC L fa fb, eval σ c = some (.b true)) ↔ ∀ p ∈ L, ¬ (σ.b (fa p) = true ∧ σ.b (fb p) = true) := by
  simp only [adjC, List.forall_mem_map, eval_orNot]

theorem rooms_iff (σ : Asg) (w : Nat) (blocks : List (List (Int × Int))) :
    (∀ c ∈ (roomsC w blocks).flatten, eval σ c = some (.b true)) ↔
      ∀ b ∈ blocks, b.countP (fun p => σ.b (p.1.toNat * w + p.2.toNat)) = 1 := by
  simp only [roomsC, mem_flatten_map, List.mem_singleton]
  constructor
  · intro h b hb
    exact (eval_roomE σ w b).mp (h _ ⟨b, hb, rfl⟩)
  · rintro h c ⟨b, hb, rfl⟩
    exact (eval_roomE σ w b).mpr (h b hb)

theorem line_iff (σ : Asg) (n m : Nat) (sz : Nat → Nat → Int) (cell : Nat → Nat → Nat) :
    (∀ c ∈ ((lineC n m sz cell).map List.flatten).flatten, eval σ c = some (.b true)) ↔
      ∀ i, i < n → ∀ j j', j < j' → j' < m → sz i j = sz i j' →
        ¬ (σ.b (cell i j) = true ∧ σ.b (cell i j') = true) := by
  simp only [lineC, List.map_map, mem_flatten_map, Function.comp_def, List.mem_range]
  constructor
  · intro h i hi j j' hj hj' hs
    have := h (nand (cell i j) (cell i j')) ⟨i, hi, (j, j'), mem_pairsOf.mpr ⟨hj, hj'⟩, by simp [hs]⟩
    exact (eval_nand σ _ _).mp this
  · rintro h c ⟨i, hi, jj, hjj, hc⟩
    obtain ⟨h1, h2⟩ := mem_pairsOf.mp hjj
    split at hc
    · next hs =>
      simp only [List.mem_singleton] at hc
      subst hc
      exact (eval_nand σ _ _).mpr (h i hi jj.1 jj.2 h1 h2 hs)
    · simp at hc

/-- The constraints of the posted program, read on the grid `g`. -/
def Mid (h w : Nat) (blocks : List (List (Int × Int))) (g : Nat → Nat → Bool) : Prop :=
  (∀ y x, y < h → x + 1 < w → ¬ (g y x = true ∧ g y (x + 1) = true)) ∧
  (∀ y x, y + 1 < h → x < w → ¬ (g y x = true ∧ g (y + 1) x = true)) ∧
  (∀ b ∈ blocks, b.countP (numbered g) = 1) ∧
  (∀ y, y < h → ∀ x x', x < x' → x' < w → roomSize blocks y x = roomSize blocks y x' →
    ¬ (g y x = true ∧ g y x' = true)) ∧
  (∀ x, x < w → ∀ y y', y < y' → y' < h → roomSize blocks y x = roomSize blocks y' x →
    ¬ (g y x = true ∧ g y' x = true))

theorem cs_iff_mid (h w : Nat) (blocks : List (List (Int × Int)))
    (hin : ∀ p ∈ blocks.flatten, 0 ≤ p.1 ∧ p.1 < (h : Int) ∧ 0 ≤ p.2 ∧ p.2 < (w : Int))
    (σ : Asg) (g : Nat → Nat → Bool) (hg : ∀ y, y < h → ∀ x, x < w → g y x = σ.b (y * w + x)) :
    (∀ c ∈ closedCs h w blocks, eval σ c = some (.b true)) ↔ Mid h w blocks g := by
  unfold closedCs Mid
  simp only [List.forall_mem_append, adj_iff, rooms_iff, line_iff, and_assoc]
  refine and_congr ?_ (and_congr ?_ (and_congr ?_ (and_congr ?_ ?_)))
  · constructor
    · intro hh y x hy hx
      rw [hg y hy x (by omega), hg y hy (x + 1) hx]
      exact hh (y, x) (mem_cellsOf.mpr ⟨hy, by simp only; omega⟩)
    · intro hh p hp
      obtain ⟨h1, h2⟩ := mem_cellsOf.mp hp
      rw [← hg p.1 h1 p.2 (by omega), ← hg p.1 h1 (p.2 + 1) (by omega)]
      exact hh p.1 p.2 h1 (by omega)
  · constructor
    · intro hh y x hy hx
      rw [hg y (by omega) x hx, hg (y + 1) hy x hx]
      exact hh (y, x) (mem_cellsOf.mpr ⟨by simp only; omega, hx⟩)
    · intro hh p hp
      obtain ⟨h1, h2⟩ := mem_cellsOf.mp hp
      rw [← hg p.1 (by omega) p.2 h2, ← hg (p.1 + 1) (by omega) p.2 h2]
      exact hh p.1 p.2 (by omega) h2
  · apply forall_congr'
    intro b
    apply imp_congr_right
    intro hb
    have : b.countP (fun p => σ.b (p.1.toNat * w + p.2.toNat)) = b.countP (numbered g) := by
      apply List.countP_congr
      intro p hp
      obtain ⟨h1, h2, h3, h4⟩ := hin p (List.mem_flatten.mpr ⟨b, hb, hp⟩)
      simp only [numbered]
      rw [hg p.1.toNat (by omega) p.2.toNat (by omega)]
    rw [this]
  · constructor
    · intro hh y hy x x' hx hx' hs
      rw [hg y hy x (by omega), hg y hy x' hx']
      exact hh y hy x x' hx hx' hs
    · intro hh y hy x x' hx hx' hs
      rw [← hg y hy x (by omega), ← hg y hy x' hx']
      exact hh y hy x x' hx hx' hs
  · constructor
    · intro hh x hx y y' hy hy' hs
      rw [hg y (by omega) x hx, hg y' hy' x hx]
      exact hh x hx y y' hy hy' hs
    · intro hh x hx y y' hy hy' hs
      rw [← hg y (by omega) x hx, ← hg y' hy' x hx]
      exact hh x hx y y' hy hy' hs

/-! ### From the constraints to the rules -/

theorem cell_eq (p : Int × Int) (h1 : 0 ≤ p.1) (h2 : 0 ≤ p.2) : ((p.1.toNat : Int), (p.2.toNat : Int)) = p :=
  Prod.ext (Int.toNat_of_nonneg h1) (Int.toNat_of_nonneg h2)

/-- Rule 3 in one direction (`p` before `q` in a row), from the row constraints. -/
theorem row_case (pb : Problem) (hwf : WellFormed pb) (g : Nat → Nat → Bool)
    (hrows : ∀ y, y < pb.height → ∀ x x', x < x' → x' < pb.width →
      roomSize pb.blocks y x = roomSize pb.blocks y x' → ¬ (g y x = true ∧ g y x' = true))
    (b₁ b₂ : List (Int × Int)) (hb₁ : b₁ ∈ pb.blocks) (hb₂ : b₂ ∈ pb.blocks) (p q : Int × Int)
    (hp : p ∈ b₁) (hq : q ∈ b₂) (hnp : numbered g p = true) (hnq : numbered g q = true)
    (hrow : p.1 = q.1) (hlt : p.2 < q.2) : b₁.length ≠ b₂.length := by
  obtain ⟨hin, hnd, _⟩ := hwf
  obtain ⟨p1, p2, p3, p4⟩ := hin p (List.mem_flatten.mpr ⟨b₁, hb₁, hp⟩)
  obtain ⟨q1, q2, q3, q4⟩ := hin q (List.mem_flatten.mpr ⟨b₂, hb₂, hq⟩)
  intro hlen
  have e1 := roomSize_eq pb.blocks hnd b₁ hb₁ p.1.toNat p.2.toNat (by rw [cell_eq p p1 p3]; exact hp)
  have e2 := roomSize_eq pb.blocks hnd b₂ hb₂ p.1.toNat q.2.toNat (by rw [hrow, cell_eq q q1 q3]; exact hq)
  refine hrows p.1.toNat (by omega) p.2.toNat q.2.toNat (by omega) (by omega) (by rw [e1, e2, hlen]) ⟨hnp, ?_⟩
  have : numbered g q = g p.1.toNat q.2.toNat := by simp only [numbered, hrow]
  rw [← this]; exact hnq

theorem col_case (pb : Problem) (hwf : WellFormed pb) (g : Nat → Nat → Bool)
    (hcols : ∀ x, x < pb.width → ∀ y y', y < y' → y' < pb.height →
      roomSize pb.blocks y x = roomSize pb.blocks y' x → ¬ (g y x = true ∧ g y' x = true))
    (b₁ b₂ : List (Int × Int)) (hb₁ : b₁ ∈ pb.blocks) (hb₂ : b₂ ∈ pb.blocks) (p q : Int × Int)
    (hp : p ∈ b₁) (hq : q ∈ b₂) (hnp : numbered g p = true) (hnq : numbered g q = true)
    (hcol : p.2 = q.2) (hlt : p.1 < q.1) : b₁.length ≠ b₂.length := by
  obtain ⟨hin, hnd, _⟩ := hwf
  obtain ⟨p1, p2, p3, p4⟩ := hin p (List.mem_flatten.mpr ⟨b₁, hb₁, hp⟩)
  obtain ⟨q1, q2, q3, q4⟩ := hin q (List.mem_flatten.mpr ⟨b₂, hb₂, hq⟩)
  intro hlen
  have e1 := roomSize_eq pb.blocks hnd b₁ hb₁ p.1.toNat p.2.toNat (by rw [cell_eq p p1 p3]; exact hp)
  have e2 := roomSize_eq pb.blocks hnd b₂ hb₂ q.1.toNat p.2.toNat (by rw [hcol, cell_eq q q1 q3]; exact hq)
  refine hcols p.2.toNat (by omega) p.1.toNat q.1.toNat (by omega) (by omega) (by rw [e1, e2, hlen]) ⟨hnp, ?_⟩
  have : numbered g q = g q.1.toNat p.2.toNat := by simp only [numbered, hcol]
  rw [← this]; exact hnq

/-- A cell of the board lies in a room, whose size is the table entry. -/
theorem room_of_cell (pb : Problem) (hwf : WellFormed pb) (y x : Nat) (hy : y < pb.height) (hx : x < pb.width) :
    ∃ b ∈ pb.blocks, ((y : Int), (x : Int)) ∈ b ∧ roomSize pb.blocks y x = (b.length : Int) := by
  obtain ⟨_, hnd, hcov⟩ := hwf
  obtain ⟨b, hb, hc⟩ := List.mem_flatten.mp (hcov y x hy hx)
  exact ⟨b, hb, hc, roomSize_eq pb.blocks hnd b hb y x hc⟩

theorem numbered_nat (g : Nat → Nat → Bool) (y x : Nat) : numbered g ((y : Int), (x : Int)) = g y x := by
  simp [numbered]

theorem mid_iff_rules (pb : Problem) (hwf : WellFormed pb) (g : Nat → Nat → Bool) :
    Mid pb.height pb.width pb.blocks g ↔ GridRules pb g := by
  unfold Mid GridRules
  constructor
  · rintro ⟨hH, hV, hR, hrows, hcols⟩
    refine ⟨hR, ?_, hH, hV⟩
    intro b₁ hb₁ b₂ hb₂ p hp q hq hne hnp hnq hline
    rcases hline with hrow | hcol
    · have h2 : p.2 ≠ q.2 := fun h2 => hne (Prod.ext hrow h2)
      rcases Int.lt_or_gt_of_ne h2 with hlt | hgt
      · exact row_case pb hwf g hrows b₁ b₂ hb₁ hb₂ p q hp hq hnp hnq hrow hlt
      · exact (row_case pb hwf g hrows b₂ b₁ hb₂ hb₁ q p hq hp hnq hnp hrow.symm hgt).symm
    · have h1 : p.1 ≠ q.1 := fun h1 => hne (Prod.ext h1 hcol)
      rcases Int.lt_or_gt_of_ne h1 with hlt | hgt
      · exact col_case pb hwf g hcols b₁ b₂ hb₁ hb₂ p q hp hq hnp hnq hcol hlt
      · exact (col_case pb hwf g hcols b₂ b₁ hb₂ hb₁ q p hq hp hnq hnp hcol.symm hgt).symm
  · rintro ⟨hR, h3, hH, hV⟩
    refine ⟨hH, hV, hR, ?_, ?_⟩
    · intro y hy x x' hx hx' hs ⟨g1, g2⟩
      obtain ⟨b₁, hb₁, hc₁, e1⟩ := room_of_cell pb hwf y x hy (by omega)
      obtain ⟨b₂, hb₂, hc₂, e2⟩ := room_of_cell pb hwf y x' hy hx'
      refine h3 b₁ hb₁ b₂ hb₂ _ hc₁ _ hc₂ ?_ (by rw [numbered_nat]; exact g1) (by rw [numbered_nat]; exact g2)
        (Or.inl rfl) (by rw [e1, e2] at hs; omega)
      intro he
      have := congrArg Prod.snd he
      simp only at this
      omega
    · intro x hx y y' hy hy' hs ⟨g1, g2⟩
      obtain ⟨b₁, hb₁, hc₁, e1⟩ := room_of_cell pb hwf y x (by omega) hx
      obtain ⟨b₂, hb₂, hc₂, e2⟩ := room_of_cell pb hwf y' x hy' hx
      refine h3 b₁ hb₁ b₂ hb₂ _ hc₁ _ hc₂ ?_ (by rw [numbered_nat]; exact g1) (by rw [numbered_nat]; exact g2)
        (Or.inr rfl) (by rw [e1, e2] at hs; omega)
      intro he
      have := congrArg Prod.fst he
      simp only at this
      omega

/-- The constraints of the posted program, read on the grid, are the rules. -/
theorem cs_iff (pb : Problem) (hwf : WellFormed pb) (σ : Asg) (g : Nat → Nat → Bool)
    (hg : ∀ y, y < pb.height → ∀ x, x < pb.width → g y x = σ.b (y * pb.width + x)) :
    (∀ c ∈ closedCs pb.height pb.width pb.blocks, eval σ c = some (.b true)) ↔ GridRules pb g :=
  (cs_iff_mid pb.height pb.width pb.blocks hwf.1 σ g hg).trans (mid_iff_rules pb hwf g)

/-! ### Well-typedness -/

theorem wtIs_ctOps : ∀ xs : List Expr, (∀ x ∈ xs, wtB x = true) → wtIs (ctOps xs) = true
  | [], _ => rfl
  | x :: r, h => by
    have ih := wtIs_ctOps r (fun y hy => h y (List.mem_cons_of_mem _ hy))
    have hx := h x List.mem_cons_self
    cases x <;> simp_all [ctOps, wtIs, wtI, wtB]

theorem wtIs_append : ∀ a b : List Expr, wtIs (a ++ b) = (wtIs a && wtIs b)
  | [], b => by simp [wtIs]
  | x :: a, b => by simp [wtIs, wtIs_append a b, Bool.and_assoc]

theorem wtI_countTrueE (xs : List Expr) (h : ∀ x ∈ xs, wtB x = true) : wtI (countTrueE xs) = true := by
  unfold countTrueE
  have h1 := wtIs_ctOps xs h
  by_cases hc : ctConst xs > 0
  · simp only [hc, if_true]
    have : (ctOps xs ++ [Expr.litI (ctConst xs : Nat)]).isEmpty = false := by simp
    simp only [this, Bool.false_eq_true, if_false, wtI, wtIs_append, h1, wtIs, Bool.and_self, Bool.and_true]
    simp
  · simp only [hc, if_false]
    cases hops : ctOps xs with
    | nil => simp [wtI]
    | cons y ys =>
      rw [hops] at h1
      simp only [List.isEmpty_cons, Bool.false_eq_true, if_false, wtI, h1, Bool.and_true]
      simp

theorem wt_closed (h w : Nat) (blocks : List (List (Int × Int))) : ∀ c ∈ closedCs h w blocks, wtB c = true := by
  have hline : ∀ (n m : Nat) (sz : Nat → Nat → Int) (cell : Nat → Nat → Nat),
      ∀ c ∈ ((lineC n m sz cell).map List.flatten).flatten, wtB c = true := by
    intro n m sz cell c hc
    simp only [lineC, List.map_map, mem_flatten_map, Function.comp_def] at hc
    obtain ⟨i, _, jj, _, hc⟩ := hc
    split at hc
    · simp only [List.mem_singleton] at hc
      subst hc; rfl
    · simp at hc
  have hadj : ∀ (L : List (Nat × Nat)) (fa fb : Nat × Nat → Nat), ∀ c ∈ adjC L fa fb, wtB c = true := by
    intro L fa fb c hc
    simp only [adjC, List.mem_map] at hc
    obtain ⟨_, _, rfl⟩ := hc
    rfl
  intro c hc
  simp only [closedCs, List.mem_append] at hc
  rcases hc with (((hc | hc) | hc) | hc) | hc
  · exact hadj _ _ _ c hc
  · exact hadj _ _ _ c hc
  · simp only [roomsC, mem_flatten_map, List.mem_singleton] at hc
    obtain ⟨b, _, rfl⟩ := hc
    have : wtI (countTrueE (roomV w b)) = true := by
      apply wtI_countTrueE
      intro x hx
      simp only [roomV, List.mem_map] at hx
      obtain ⟨_, _, rfl⟩ := hx
      rfl
    simp [roomE, wtB, wtIs, wtI, this]
  · exact hline _ _ _ _ c hc
  · exact hline _ _ _ _ c hc

/-! ### Assembly -/

theorem encodes (pb : Problem) (hwf : WellFormed pb) : EncodesRules (closed pb) (Rules pb) :=
  Cspuz.Proofs.C11Grid.encodes_bool_grid pb.height pb.width (closedCs pb.height pb.width pb.blocks) (GridRules pb)
    (fun σ g hg => cs_iff pb hwf σ g hg)

theorem main (pb : Problem) (hwf : WellFormed pb) (P : PuzzleProg) (hP : program pb = .ok P) :
    EncodesRules P (Rules pb) ∧ P.KeysOk ∧ (∀ c ∈ P.cs, wtB c = true) := by
  rw [program_closed pb hwf] at hP
  cases hP
  exact ⟨encodes pb hwf, Cspuz.Proofs.C11Grid.keysOk_range _ _ _ (by simp), wt_closed _ _ _⟩

theorem total (pb : Problem) (hwf : WellFormed pb) : ∃ P, program pb = .ok P :=
  ⟨_, program_closed pb hwf⟩

end Cspuz.Proofs.C11PutteriaSem
