import CspuzModel.Model.GridFrameExt
import CspuzModel.Spec.FrameGeom
import Mathlib.Data.List.Perm.Basic
import Mathlib.Data.List.Nodup
namespace Cspuz.Proofs.C14
open Cspuz Cspuz.Spec.FrameGeom

theorem mul_add_lt {h w y x : Nat} (hy : y < h) (hx : x < w) : y * w + x < h * w := by
  have : (y + 1) * w ≤ h * w := Nat.mul_le_mul_right w hy
  rw [Nat.add_mul, Nat.one_mul] at this
  omega

theorem parseRange_idx (n k : Nat) (hk : k < n) :
    parseRange n (.idx (k : Int)) = .ok (true, (k : Int), (k : Int) + 1, 1) := by
  have e : (if (k : Int) < 0 then (k : Int) + (n : Int) else (k : Int)) = (k : Int) := if_neg (by omega)
  simp only [parseRange, e]
  rw [if_pos (by omega)]

theorem rangeSize_one (k : Int) : rangeSize k (k + 1) 1 = .ok 1 := by
  unfold rangeSize pyDiv
  rw [if_neg (by omega), if_pos (by omega), if_neg (by omega)]
  have : k + 1 - k + 1 - 1 = 1 := by omega
  rw [this]; rfl

theorem pyIndex_nat {α} (l : List α) (k : Nat) (e : α) (h : l[k]? = some e) :
    pyIndex l (k : Int) = .ok e := by
  have hk : k < l.length := by
    rcases Nat.lt_or_ge k l.length with h' | h'
    · exact h'
    · rw [List.getElem?_eq_none h'] at h; cases h
  simp only [pyIndex]
  rw [if_neg (show ¬ ((k : Int) < 0) by omega), if_pos (by omega), Int.toNat_natCast, h]

/-- `arr[y, x]` with in-range non-negative integers is the row-major element. -/
theorem Arr2.get_nat (a : Arr2) (y x : Nat) (e : Expr) (hy : y < a.h) (hx : x < a.w)
    (he : a.data[y * a.w + x]? = some e) : a.get (y : Int) (x : Int) = .ok e := by
  unfold Arr2.get getitemPair
  have hc : (y : Int) * (a.w : Int) + (x : Int) = ((y * a.w + x : Nat) : Int) := by
    simp only [Int.natCast_add, Int.natCast_mul]
  simp only [parseRange_idx _ _ hy, parseRange_idx _ _ hx, rangeSize_one, bind, Except.bind, hc,
    pyIndex_nat _ _ _ he, and_self, if_true]

theorem bvars_getElem? (base n i : Nat) (hi : i < n) : (bvars base n)[i]? = some (.bvar (base + i)) := by
  unfold bvars
  rw [List.getElem?_map, List.getElem?_range hi]; rfl

theorem get_bvars (base h w y x : Nat) (hy : y < h) (hx : x < w) :
    (Arr2.mk h w (bvars base (h * w))).get (y : Int) (x : Int) = .ok (.bvar (base + (y * w + x))) :=
  Arr2.get_nat _ y x _ hy hx (bvars_getElem? _ _ _ (mul_add_lt hy hx))

/-! ### `__getitem__` on a frame whose two arrays are fresh variable blocks -/

/-- A frame whose horizontal array holds the variables `hb, hb+1, …` and whose vertical array holds
`vb, vb+1, …` (`Frame.fresh` and the dual of `InnerFrame.fresh` are both of this form). -/
def frame2 (H W hb vb : Nat) : Frame :=
  { height := H, width := W,
    horizontal := ⟨H + 1, W, bvars hb ((H + 1) * W)⟩,
    vertical := ⟨H, W + 1, bvars vb (H * (W + 1))⟩ }

theorem fresh_eq_frame2 (base H W : Nat) : Frame.fresh base H W = frame2 H W base (base + (H + 1) * W) := rfl

theorem frame2_h (H W hb vb y x : Nat) (hy : y ≤ H) (hx : x < W) :
    (frame2 H W hb vb).horizontal.get (y : Int) (x : Int) = .ok (.bvar (hb + (y * W + x))) :=
  get_bvars hb (H + 1) W y x (by omega) hx

theorem frame2_v (H W hb vb y x : Nat) (hy : y < H) (hx : x ≤ W) :
    (frame2 H W hb vb).vertical.get (y : Int) (x : Int) = .ok (.bvar (vb + (y * (W + 1) + x))) :=
  get_bvars vb H (W + 1) y x hy (by omega)

theorem frame2_getitem (H W hb vb : Nat) (Y X : Int) :
    (frame2 H W hb vb).getitem Y X =
      if 0 ≤ Y ∧ Y ≤ 2 * (H : Int) ∧ 0 ≤ X ∧ X ≤ 2 * (W : Int) then
        if Y % 2 = 0 ∧ X % 2 = 1 then .ok (.bvar (hb + ((Y / 2).toNat * W + (X / 2).toNat)))
        else if Y % 2 = 1 ∧ X % 2 = 0 then .ok (.bvar (vb + ((Y / 2).toNat * (W + 1) + (X / 2).toNat)))
        else .error .indexError
      else .error .indexError := by
  unfold Frame.getitem
  have eH : (frame2 H W hb vb).height = H := rfl
  have eW : (frame2 H W hb vb).width = W := rfl
  rw [eH, eW]
  by_cases hr : 0 ≤ Y ∧ Y ≤ 2 * (H : Int) ∧ 0 ≤ X ∧ X ≤ 2 * (W : Int)
  · rw [if_pos hr, if_neg (by omega)]
    simp only [pyMod, pyDiv, Int.fmod_eq_emod_of_nonneg _ (show (0 : Int) ≤ 2 by omega),
      Int.fdiv_eq_ediv_of_nonneg _ (show (0 : Int) ≤ 2 by omega)]
    obtain ⟨y, hy⟩ := Int.eq_ofNat_of_zero_le (show 0 ≤ Y / 2 by omega)
    obtain ⟨x, hx⟩ := Int.eq_ofNat_of_zero_le (show 0 ≤ X / 2 by omega)
    rw [hy, hx, Int.toNat_natCast, Int.toNat_natCast]
    by_cases h1 : Y % 2 = 0 ∧ X % 2 = 1
    · rw [if_pos h1, if_pos h1]
      exact frame2_h H W hb vb y x (by omega) (by omega)
    · rw [if_neg h1, if_neg h1]
      by_cases h2 : Y % 2 = 1 ∧ X % 2 = 0
      · rw [if_pos h2, if_pos h2]
        exact frame2_v H W hb vb y x (by omega) (by omega)
      · rw [if_neg h2, if_neg h2]
  · rw [if_neg hr, if_pos (by omega)]

/-! ### The accessors of `Frame.fresh` -/

theorem fresh_h (base H W y x : Nat) (hy : y ≤ H) (hx : x < W) :
    (Frame.fresh base H W).horizontal.get (y : Int) (x : Int) = .ok (.bvar (geomH base H W y x)) := by
  rw [fresh_eq_frame2, frame2_h _ _ _ _ _ _ hy hx]
  simp only [geomH, Seg.var, Nat.add_assoc]

theorem fresh_v (base H W y x : Nat) (hy : y < H) (hx : x ≤ W) :
    (Frame.fresh base H W).vertical.get (y : Int) (x : Int) = .ok (.bvar (geomV base H W y x)) := by
  rw [fresh_eq_frame2, frame2_v _ _ _ _ _ _ hy hx]
  simp only [geomV, Seg.var, Nat.add_assoc]

theorem getitem_fresh (base H W : Nat) (Y X : Int) :
    (Frame.fresh base H W).getitem Y X =
      if 0 ≤ Y ∧ Y ≤ 2 * (H : Int) ∧ 0 ≤ X ∧ X ≤ 2 * (W : Int) then
        if Y % 2 = 0 ∧ X % 2 = 1 then .ok (.bvar (geomH base H W (Y / 2).toNat (X / 2).toNat))
        else if Y % 2 = 1 ∧ X % 2 = 0 then .ok (.bvar (geomV base H W (Y / 2).toNat (X / 2).toNat))
        else .error .indexError
      else .error .indexError := by
  rw [fresh_eq_frame2, frame2_getitem]
  simp only [geomH, geomV, Seg.var, Nat.add_assoc]

/-- The expression of a segment. -/
def segExpr (base H W : Nat) (s : Seg) : Expr := .bvar (s.var base H W)

theorem cell_fresh (base H W : Nat) (y x : Int) :
    (Frame.fresh base H W).cellNeighbors y x =
      if 0 ≤ y ∧ y < (H : Int) ∧ 0 ≤ x ∧ x < (W : Int) then
        .ok ((cellSegs y.toNat x.toNat).map (segExpr base H W))
      else .error .indexError := by
  unfold Frame.cellNeighbors
  have eH : (Frame.fresh base H W).height = H := rfl
  have eW : (Frame.fresh base H W).width = W := rfl
  rw [eH, eW]
  by_cases hr : 0 ≤ y ∧ y < (H : Int) ∧ 0 ≤ x ∧ x < (W : Int)
  · rw [if_pos hr, if_neg (by omega)]
    obtain ⟨y', rfl⟩ := Int.eq_ofNat_of_zero_le hr.1
    obtain ⟨x', rfl⟩ := Int.eq_ofNat_of_zero_le hr.2.2.1
    have e1 : (y' : Int) + 1 = ((y' + 1 : Nat) : Int) := by omega
    have e2 : (x' : Int) + 1 = ((x' + 1 : Nat) : Int) := by omega
    rw [e1, e2, fresh_h base H W y' x' (by omega) (by omega), fresh_h base H W (y' + 1) x' (by omega) (by omega),
      fresh_v base H W y' x' (by omega) (by omega), fresh_v base H W y' (x' + 1) (by omega) (by omega)]
    rfl
  · rw [if_neg hr, if_pos (by omega)]

theorem ite_bind {α β : Type} (c : Prop) [Decidable c] (A B : Py α) (k : α → Py β) :
    (if c then A >>= k else B >>= k) = (if c then A else B) >>= k := by
  split <;> rfl

theorem vertex_fresh (base H W : Nat) (y x : Int) :
    (Frame.fresh base H W).vertexNeighbors y x =
      if 0 ≤ y ∧ y ≤ (H : Int) ∧ 0 ≤ x ∧ x ≤ (W : Int) then
        .ok ((pointSegs H W y.toNat x.toNat).map (segExpr base H W))
      else .error .indexError := by
  unfold Frame.vertexNeighbors
  have eH : (Frame.fresh base H W).height = H := rfl
  have eW : (Frame.fresh base H W).width = W := rfl
  rw [eH, eW]
  by_cases hr : 0 ≤ y ∧ y ≤ (H : Int) ∧ 0 ≤ x ∧ x ≤ (W : Int)
  · rw [if_pos hr, if_neg (by omega)]
    obtain ⟨y', rfl⟩ := Int.eq_ofNat_of_zero_le hr.1
    obtain ⟨x', rfl⟩ := Int.eq_ofNat_of_zero_le hr.2.2.1
    have hy : y' ≤ H := by omega
    have hx : x' ≤ W := by omega
    have up : (if (y' : Int) > 0 then ((Frame.fresh base H W).vertical.get ((y' : Int) - 1) (x' : Int)).map ([·])
          else .ok []) = .ok ((if y' > 0 then [Seg.v (y' - 1) x'] else []).map (segExpr base H W)) := by
      by_cases h : y' > 0
      · have e : (y' : Int) - 1 = ((y' - 1 : Nat) : Int) := by omega
        rw [if_pos (by omega), if_pos h, e, fresh_v base H W (y' - 1) x' (by omega) hx]; rfl
      · rw [if_neg (by omega), if_neg h]; rfl
    have down : (if (y' : Int) < (H : Int) then ((Frame.fresh base H W).vertical.get (y' : Int) (x' : Int)).map ([·])
          else .ok []) = .ok ((if y' < H then [Seg.v y' x'] else []).map (segExpr base H W)) := by
      by_cases h : y' < H
      · rw [if_pos (by omega), if_pos h, fresh_v base H W y' x' h hx]; rfl
      · rw [if_neg (by omega), if_neg h]; rfl
    have left : (if (x' : Int) > 0 then ((Frame.fresh base H W).horizontal.get (y' : Int) ((x' : Int) - 1)).map ([·])
          else .ok []) = .ok ((if x' > 0 then [Seg.h y' (x' - 1)] else []).map (segExpr base H W)) := by
      by_cases h : x' > 0
      · have e : (x' : Int) - 1 = ((x' - 1 : Nat) : Int) := by omega
        rw [if_pos (by omega), if_pos h, e, fresh_h base H W y' (x' - 1) hy (by omega)]; rfl
      · rw [if_neg (by omega), if_neg h]; rfl
    have right : (if (x' : Int) < (W : Int) then ((Frame.fresh base H W).horizontal.get (y' : Int) (x' : Int)).map ([·])
          else .ok []) = .ok ((if x' < W then [Seg.h y' x'] else []).map (segExpr base H W)) := by
      by_cases h : x' < W
      · rw [if_pos (by omega), if_pos h, fresh_h base H W y' x' hy h]; rfl
      · rw [if_neg (by omega), if_neg h]; rfl
    simp only [ite_bind]
    rw [up, down, left, right]
    simp only [bind, Except.bind, pointSegs, List.map_append, Int.toNat_natCast]
  · rw [if_neg hr, if_pos (by omega)]

/-! ### Facts about the geometry itself (no model involved) -/

theorem mem_allSegs (H W : Nat) (s : Seg) : s ∈ allSegs H W ↔ s.Valid H W := by
  cases s with
  | h y x =>
    simp only [allSegs, hSegs, vSegs, List.mem_append, List.mem_flatMap, List.mem_map, List.mem_range,
      Seg.Valid, Seg.h.injEq, reduceCtorEq, and_false, exists_false, or_false]
    constructor
    · rintro ⟨a, ha, b, hb, rfl, rfl⟩; omega
    · rintro ⟨h1, h2⟩; exact ⟨y, by omega, x, h2, rfl, rfl⟩
  | v y x =>
    simp only [allSegs, hSegs, vSegs, List.mem_append, List.mem_flatMap, List.mem_map, List.mem_range,
      Seg.Valid, Seg.v.injEq, reduceCtorEq, and_false, exists_false, false_or]
    constructor
    · rintro ⟨a, ha, b, hb, rfl, rfl⟩; omega
    · rintro ⟨h1, h2⟩; exact ⟨y, h1, x, by omega, rfl, rfl⟩

theorem range_mul (a b : Nat) :
    List.range (a * b) = (List.range a).flatMap fun i => (List.range b).map fun j => i * b + j := by
  induction a with
  | zero => simp
  | succ a ih =>
    rw [Nat.add_mul, Nat.one_mul, List.range_add, ih, List.range_succ, List.flatMap_append]
    simp

theorem hSegs_map_var (base H W : Nat) :
    (hSegs H W).map (Seg.var base H W) = (List.range ((H + 1) * W)).map (base + ·) := by
  rw [range_mul]
  simp only [hSegs, List.map_flatMap, List.map_map]
  congr 1
  funext y
  congr 1
  funext x
  simp only [Function.comp, Seg.var, Nat.add_assoc]

theorem vSegs_map_var (base H W : Nat) :
    (vSegs H W).map (Seg.var base H W) = (List.range (H * (W + 1))).map (base + (H + 1) * W + ·) := by
  rw [range_mul]
  simp only [vSegs, List.map_flatMap, List.map_map]
  congr 1
  funext y
  congr 1
  funext x
  simp only [Function.comp, Seg.var, Nat.add_assoc]

/-- The variables of `allSegs`, in order, are `base, base+1, …` without gap or repetition. -/
theorem allSegs_map_var (base H W : Nat) :
    (allSegs H W).map (Seg.var base H W) = (List.range (Frame.numVars H W)).map (base + ·) := by
  unfold allSegs Frame.numVars
  rw [List.map_append, hSegs_map_var, vSegs_map_var, List.range_add, List.map_append, List.map_map]
  congr 1
  apply List.map_congr_left
  intro k _
  simp only [Function.comp, Nat.add_assoc]

theorem allSegs_map_var_nodup (base H W : Nat) : ((allSegs H W).map (Seg.var base H W)).Nodup := by
  rw [allSegs_map_var]
  exact List.Nodup.map (fun a b h => Nat.add_left_cancel h) List.nodup_range

theorem allSegs_nodup (H W : Nat) : (allSegs H W).Nodup :=
  List.Nodup.of_map _ (allSegs_map_var_nodup 0 H W)

/-- Different segments carry different variables. -/
theorem var_inj (base H W : Nat) (s t : Seg) (hs : s.Valid H W) (ht : t.Valid H W)
    (h : s.var base H W = t.var base H W) : s = t :=
  List.inj_on_of_nodup_map (allSegs_map_var_nodup base H W) ((mem_allSegs H W s).mpr hs)
    ((mem_allSegs H W t).mpr ht) h

theorem var_range (base H W : Nat) (s : Seg) (hs : s.Valid H W) :
    base ≤ s.var base H W ∧ s.var base H W < base + Frame.numVars H W := by
  have : s.var base H W ∈ (allSegs H W).map (Seg.var base H W) :=
    List.mem_map.mpr ⟨s, (mem_allSegs H W s).mpr hs, rfl⟩
  rw [allSegs_map_var, List.mem_map] at this
  obtain ⟨k, hk, e⟩ := this
  rw [List.mem_range] at hk
  omega

/-- A segment sits where its two cells say, too: in doubled coordinates the midpoint of its end points
(`mid`, by definition) is the midpoint of the centres `(2y+1, 2x+1)` of the two cells it separates. -/
theorem mid_sides (s : Seg) :
    2 * s.mid.1 = (2 * s.sides.1.1 + 1) + (2 * s.sides.2.1 + 1) ∧
    2 * s.mid.2 = (2 * s.sides.1.2 + 1) + (2 * s.sides.2.2 + 1) := by
  cases s <;> simp only [Seg.mid, Seg.ends, Seg.sides] <;> omega

theorem mid_inj (s t : Seg) (h : s.mid = t.mid) : s = t := by
  cases s <;> cases t <;> simp only [Seg.mid, Seg.ends, Prod.mk.injEq] at h <;>
    (obtain ⟨h1, h2⟩ := h; congr 1 <;> omega)

theorem ptIndex_inj (H W : Nat) (p q : Pt) (hp : PtValid H W p) (hq : PtValid H W q)
    (h : ptIndex W p = ptIndex W q) : p = q := by
  obtain ⟨py, px⟩ := p
  obtain ⟨qy, qx⟩ := q
  simp only [PtValid, ptIndex] at hp hq h
  have h1 : (py * (W + 1) + px) / (W + 1) = py := by
    rw [Nat.add_comm, Nat.add_mul_div_right _ _ (by omega), Nat.div_eq_of_lt (by omega), Nat.zero_add]
  have h2 : (qy * (W + 1) + qx) / (W + 1) = qy := by
    rw [Nat.add_comm, Nat.add_mul_div_right _ _ (by omega), Nat.div_eq_of_lt (by omega), Nat.zero_add]
  have e : py = qy := by rw [← h1, ← h2, h]
  subst e
  have : px = qx := by omega
  subst this
  rfl

theorem ptIndex_lt (H W : Nat) (p : Pt) (hp : PtValid H W p) : ptIndex W p < (H + 1) * (W + 1) :=
  mul_add_lt (by have := hp.1; omega) (by have := hp.2; omega)

theorem ends_valid (H W : Nat) (s : Seg) (hs : s.Valid H W) :
    PtValid H W s.ends.1 ∧ PtValid H W s.ends.2 ∧ s.ends.1 ≠ s.ends.2 := by
  cases s <;> simp only [Seg.Valid, Seg.ends, PtValid, ne_eq, Prod.mk.injEq] at hs ⊢ <;> omega

theorem mem_cellSegs (H W y x : Nat) (hy : y < H) (hx : x < W) (s : Seg) :
    s ∈ cellSegs y x ↔ (s.Valid H W ∧ s.Bounds ((y : Int), (x : Int))) := by
  cases s <;>
    simp only [cellSegs, List.mem_cons, List.not_mem_nil, or_false, Seg.h.injEq, Seg.v.injEq, reduceCtorEq,
      false_or, or_false, Seg.Valid, Seg.Bounds, Seg.sides, Prod.mk.injEq] <;> omega

theorem cellSegs_nodup (y x : Nat) : (cellSegs y x).Nodup := by
  simp [cellSegs]

theorem mem_pointSegs (H W y x : Nat) (hy : y ≤ H) (hx : x ≤ W) (s : Seg) :
    s ∈ pointSegs H W y x ↔ (s.Valid H W ∧ s.Touches (y, x)) := by
  unfold pointSegs
  cases s <;>
    simp only [List.mem_append, List.mem_ite_nil_right, List.mem_singleton, Seg.h.injEq, Seg.v.injEq, reduceCtorEq,
      and_false, false_or, or_false, Seg.Valid, Seg.Touches, Seg.ends, Prod.mk.injEq] <;> omega

theorem pointSegs_nodup (H W y x : Nat) : (pointSegs H W y x).Nodup := by
  unfold pointSegs
  by_cases h1 : y > 0 <;> by_cases h2 : y < H <;> by_cases h3 : x > 0 <;> by_cases h4 : x < W <;>
    simp only [h1, h2, h3, h4, if_true, if_false, List.append_nil, List.nil_append, List.cons_append,
      List.nodup_cons, List.mem_cons, List.not_mem_nil, or_false, Seg.h.injEq, Seg.v.injEq,
      reduceCtorEq, not_false_eq_true, and_true, List.nodup_nil, true_and] <;> omega

/-- The explicit four sides of a cell are exactly what searching the segment set finds. -/
theorem segsOfCell_perm (H W y x : Nat) (hy : y < H) (hx : x < W) :
    (segsOfCell H W ((y : Int), (x : Int))).Perm (cellSegs y x) := by
  unfold segsOfCell
  rw [List.perm_ext_iff_of_nodup ((allSegs_nodup H W).filter _) (cellSegs_nodup y x)]
  intro s
  rw [mem_cellSegs H W y x hy hx, List.mem_filter, mem_allSegs, decide_eq_true_eq]

theorem segsOfPoint_perm (H W y x : Nat) (hy : y ≤ H) (hx : x ≤ W) :
    (segsOfPoint H W (y, x)).Perm (pointSegs H W y x) := by
  unfold segsOfPoint
  rw [List.perm_ext_iff_of_nodup ((allSegs_nodup H W).filter _) (pointSegs_nodup H W y x)]
  intro s
  rw [mem_pointSegs H W y x hy hx, List.mem_filter, mem_allSegs, decide_eq_true_eq]

/-! ### `_from_grid_frame` -/

/-- The segments appended while visiting the lattice point `(y, x)`: down, then right. -/
def graphSegsAt (H W y x : Nat) : List Seg :=
  (if y ≠ H then [Seg.v y x] else []) ++ (if x ≠ W then [Seg.h y x] else [])

/-- The segments in the order of the `_from_grid_frame` loop. -/
def graphSegs (H W : Nat) : List Seg :=
  (List.range (H + 1)).flatMap fun y => (List.range (W + 1)).flatMap fun x => graphSegsAt H W y x

/-- The pair of graph vertices a segment joins. -/
def segEdge (W : Nat) (s : Seg) : Nat × Nat := (ptIndex W s.ends.1, ptIndex W s.ends.2)

theorem mapM_ok {α β : Type} (l : List α) (f : α → Py β) (g : α → β) (h : ∀ a ∈ l, f a = .ok (g a)) :
    l.mapM f = .ok (l.map g) := by
  induction l with
  | nil => rfl
  | cons a l ih =>
    simp only [List.mapM_cons, h a (List.mem_cons_self), ih (fun b hb => h b (List.mem_cons_of_mem _ hb)),
      bind, Except.bind, pure, Except.pure, List.map_cons]

theorem getitem_v (base H W y x : Nat) (hy : y < H) (hx : x ≤ W) :
    (Frame.fresh base H W).getitem ((y : Int) * 2 + 1) ((x : Int) * 2) = .ok (segExpr base H W (Seg.v y x)) := by
  rw [getitem_fresh, if_pos (by omega), if_neg (by omega), if_pos (by omega)]
  have e1 : (((y : Int) * 2 + 1) / 2).toNat = y := by omega
  have e2 : (((x : Int) * 2) / 2).toNat = x := by omega
  rw [e1, e2]; rfl

theorem getitem_h (base H W y x : Nat) (hy : y ≤ H) (hx : x < W) :
    (Frame.fresh base H W).getitem ((y : Int) * 2) ((x : Int) * 2 + 1) = .ok (segExpr base H W (Seg.h y x)) := by
  rw [getitem_fresh, if_pos (by omega), if_pos (by omega)]
  have e1 : (((y : Int) * 2) / 2).toNat = y := by omega
  have e2 : (((x : Int) * 2 + 1) / 2).toNat = x := by omega
  rw [e1, e2]; rfl

theorem fromGridFrame_fresh (base H W : Nat) :
    fromGridFrame (Frame.fresh base H W) =
      .ok ((graphSegs H W).map (segExpr base H W),
           { n := (H + 1) * (W + 1), edges := (graphSegs H W).map (segEdge W) }) := by
  unfold fromGridFrame
  have eH : (Frame.fresh base H W).height = H := rfl
  have eW : (Frame.fresh base H W).width = W := rfl
  simp only [eH, eW]
  rw [mapM_ok _ _ (fun (yx : Nat × Nat) => (graphSegsAt H W yx.1 yx.2).map fun s => (segExpr base H W s, segEdge W s))]
  · simp only [bind, Except.bind, graphSegs, ← List.flatMap_def]
    simp only [List.flatMap_assoc, List.flatMap_map, List.map_flatMap, List.map_map, Function.comp_def]
  · rintro ⟨y, x⟩ hm
    simp only [List.mem_flatMap, List.mem_map, List.mem_range, Prod.mk.injEq] at hm
    obtain ⟨a, ha, b, hb, rfl, rfl⟩ := hm
    simp only [graphSegsAt]
    by_cases h1 : a ≠ H <;> by_cases h2 : b ≠ W
    · simp only [if_pos h1, if_pos h2, getitem_v base H W a b (by omega) (by omega),
        getitem_h base H W a b (by omega) (by omega), bind, Except.bind, pure, Except.pure]
      rfl
    · simp only [if_pos h1, if_neg h2, getitem_v base H W a b (by omega) (by omega), bind, Except.bind, pure, Except.pure]
      rfl
    · simp only [if_neg h1, if_pos h2, getitem_h base H W a b (by omega) (by omega), bind, Except.bind, pure, Except.pure]
      rfl
    · simp only [if_neg h1, if_neg h2, bind, Except.bind, pure, Except.pure]
      rfl

theorem flatMap_congr_mem {α β : Type} (l : List α) (f g : α → List β) (h : ∀ a ∈ l, f a = g a) :
    l.flatMap f = l.flatMap g := by
  induction l with
  | nil => rfl
  | cons a l ih =>
    rw [List.flatMap_cons, List.flatMap_cons, h a (List.mem_cons_self), ih (fun b hb => h b (List.mem_cons_of_mem _ hb))]

/-- Dropping the last index of a loop whose body does nothing there. -/
theorem flatMap_range_succ_ne {β : Type} (n : Nat) (F : Nat → List β) :
    (List.range (n + 1)).flatMap (fun i => if i ≠ n then F i else []) = (List.range n).flatMap F := by
  rw [List.range_succ, List.flatMap_append]
  simp only [List.flatMap_cons, List.flatMap_nil, ne_eq, not_true_eq_false, if_false, List.append_nil]
  apply flatMap_congr_mem
  intro i hi
  rw [List.mem_range] at hi
  rw [if_pos (by omega)]

theorem graphSegs_perm (H W : Nat) : (graphSegs H W).Perm (allSegs H W) := by
  unfold graphSegs allSegs
  have row : ∀ y, ((List.range (W + 1)).flatMap fun x => graphSegsAt H W y x).Perm
      ((if y ≠ H then (List.range (W + 1)).map (fun x => Seg.v y x) else []) ++ (List.range W).map (fun x => Seg.h y x)) := by
    intro y
    unfold graphSegsAt
    refine (List.flatMap_append_perm _ _ _).symm.trans ?_
    have e2 : ((List.range (W + 1)).flatMap fun x => if x ≠ W then [Seg.h y x] else []) = (List.range W).map (fun x => Seg.h y x) := by
      rw [flatMap_range_succ_ne W (fun x => [Seg.h y x]), List.map_eq_flatMap]
    have e1 : ((List.range (W + 1)).flatMap fun x => if y ≠ H then [Seg.v y x] else [])
        = if y ≠ H then (List.range (W + 1)).map (fun x => Seg.v y x) else [] := by
      by_cases h : y ≠ H
      · simp only [if_pos h, List.map_eq_flatMap]
      · simp only [if_neg h]
        simp
    rw [e1, e2]
  refine (List.Perm.flatMap_left _ (fun y _ => row y)).trans ?_
  refine (List.flatMap_append_perm _ _ _).symm.trans ?_
  rw [flatMap_range_succ_ne H (fun y => (List.range (W + 1)).map (fun x => Seg.v y x))]
  exact List.perm_append_comm

theorem graphSegs_valid (H W : Nat) (s : Seg) (h : s ∈ graphSegs H W) : s.Valid H W :=
  (mem_allSegs H W s).mp ((graphSegs_perm H W).mem_iff.mp h)

/-! ### `all_edges` / `__iter__` and the two arrays -/

theorem fresh_horizontal (base H W : Nat) :
    (Frame.fresh base H W).horizontal = ⟨H + 1, W, (hSegs H W).map (segExpr base H W)⟩ := by
  have : (hSegs H W).map (segExpr base H W) = ((hSegs H W).map (Seg.var base H W)).map Expr.bvar := by
    rw [List.map_map]; rfl
  rw [this, hSegs_map_var, List.map_map]; rfl

theorem fresh_vertical (base H W : Nat) :
    (Frame.fresh base H W).vertical = ⟨H, W + 1, (vSegs H W).map (segExpr base H W)⟩ := by
  have : (vSegs H W).map (segExpr base H W) = ((vSegs H W).map (Seg.var base H W)).map Expr.bvar := by
    rw [List.map_map]; rfl
  rw [this, vSegs_map_var, List.map_map]; rfl

theorem allEdges_fresh (base H W : Nat) :
    (Frame.fresh base H W).allEdges = (allSegs H W).map (segExpr base H W) := by
  unfold Frame.allEdges allSegs
  rw [fresh_horizontal, fresh_vertical, List.map_append]

theorem segExpr_inj (base H W : Nat) (s t : Seg) (hs : s.Valid H W) (ht : t.Valid H W)
    (h : segExpr base H W s = segExpr base H W t) : s = t :=
  var_inj base H W s t hs ht (by simpa [segExpr] using h)

theorem allEdges_nodup (base H W : Nat) : (Frame.fresh base H W).allEdges.Nodup := by
  rw [allEdges_fresh]
  have : (allSegs H W).map (segExpr base H W) = ((allSegs H W).map (Seg.var base H W)).map Expr.bvar := by
    rw [List.map_map]; rfl
  rw [this]
  exact List.Nodup.map (fun a b h => by injection h) (allSegs_map_var_nodup base H W)

/-! ### Duality -/

/-- How a client reads the border `b` of an inner frame: `inner.horizontal[y, x]` / `inner.vertical[y, x]`. -/
def border (g : InnerFrame) : Border → Py Expr
  | .hb y x => g.hborder (y : Int) (x : Int)
  | .vb y x => g.vborder (y : Int) (x : Int)

theorem dual_dual (f : Frame) : f.dual.dual = f := by
  cases f; rfl

theorem inner_dual_dual (g : InnerFrame) (h1 : 1 ≤ g.height) (h2 : 1 ≤ g.width) : g.dual.dual = g := by
  obtain ⟨h, w, a, b⟩ := g
  simp only [InnerFrame.dual, Frame.dual, InnerFrame.mk.injEq, and_true] at h1 h2 ⊢
  omega

theorem dual_border (base H W : Nat) (s : Seg) (hs : s.Valid H W) :
    border (Frame.fresh base H W).dual s.dual = .ok (segExpr base H W s) := by
  cases s with
  | h y x => exact fresh_h base H W y x hs.1 hs.2
  | v y x => exact fresh_v base H W y x hs.1 hs.2

theorem seg_dual_geom (H W : Nat) (s : Seg) :
    (s.Valid H W ↔ s.dual.Valid (H + 1) (W + 1)) ∧ s.dual.sides = s.ends ∧ s.dual.dual = s := by
  cases s <;> simp only [Seg.dual, Border.dual, Seg.Valid, Border.Valid, Seg.ends, Border.sides, and_true] <;> omega

theorem border_dual_geom (H W : Nat) (b : Border) :
    (b.Valid (H + 1) (W + 1) ↔ b.dual.Valid H W) ∧ b.dual.ends = b.sides ∧ b.dual.dual = b := by
  cases b <;> simp only [Seg.dual, Border.dual, Seg.Valid, Border.Valid, Seg.ends, Border.sides, and_true] <;> omega

theorem inner_fresh_dual (base H W : Nat) :
    (InnerFrame.fresh base (H + 1) (W + 1)).dual = frame2 H W (base + H * (W + 1)) base := rfl

/-- The variables of `BoolInnerGridFrame(solver, H+1, W+1)` sit on the borders `Border.var` says. -/
theorem inner_border (base H W : Nat) (b : Border) (hb : b.Valid (H + 1) (W + 1)) :
    border (InnerFrame.fresh base (H + 1) (W + 1)) b = .ok (.bvar (b.var base (H + 1) (W + 1))) := by
  cases b with
  | hb y x =>
    have := frame2_v H W (base + H * (W + 1)) base y x (by have := hb.1; omega) (by have := hb.2; omega)
    rw [← inner_fresh_dual] at this
    simp only [border, InnerFrame.hborder, Border.var, Nat.add_assoc]
    exact this
  | vb y x =>
    have := frame2_h H W (base + H * (W + 1)) base y x (by have := hb.1; omega) (by have := hb.2; omega)
    rw [← inner_fresh_dual] at this
    simp only [border, InnerFrame.vborder, Border.var, Nat.add_sub_cancel, Nat.add_assoc]
    simp only [Nat.add_assoc] at this
    exact this

/-- The dual frame of an inner frame addresses, at the position of the segment joining two points, the border
between the two cells. -/
theorem inner_dual_getitem (base H W : Nat) (b : Border) (hb : b.Valid (H + 1) (W + 1)) :
    (InnerFrame.fresh base (H + 1) (W + 1)).dual.getitem b.dual.mid.1 b.dual.mid.2
      = .ok (.bvar (b.var base (H + 1) (W + 1))) := by
  cases b with
  | hb y x =>
    have h1 := hb.1
    have h2 := hb.2
    show (InnerFrame.fresh base (H + 1) (W + 1)).dual.getitem ((y + (y + 1) : Nat) : Int) ((x + x : Nat) : Int)
      = .ok (.bvar (base + y * (W + 1) + x))
    rw [inner_fresh_dual, frame2_getitem, if_pos (by omega), if_neg (by omega), if_pos (by omega)]
    have e1 : (((y + (y + 1) : Nat) : Int) / 2).toNat = y := by omega
    have e2 : (((x + x : Nat) : Int) / 2).toNat = x := by omega
    rw [e1, e2, Nat.add_assoc]
  | vb y x =>
    have h1 := hb.1
    have h2 := hb.2
    show (InnerFrame.fresh base (H + 1) (W + 1)).dual.getitem ((y + y : Nat) : Int) ((x + (x + 1) : Nat) : Int)
      = .ok (.bvar (base + H * (W + 1) + y * W + x))
    rw [inner_fresh_dual, frame2_getitem, if_pos (by omega), if_pos (by omega)]
    have e1 : (((y + y : Nat) : Int) / 2).toNat = y := by omega
    have e2 : (((x + (x + 1) : Nat) : Int) / 2).toNat = x := by omega
    rw [e1, e2]
    simp only [Nat.add_assoc]

/-! ### Assembly: the property statements -/

theorem getitem_of_seg (base H W : Nat) (s : Seg) (hs : s.Valid H W) :
    (Frame.fresh base H W).getitem s.mid.1 s.mid.2 = .ok (.bvar (s.var base H W)) := by
  cases s with
  | h y x =>
    have h1 := hs.1
    have h2 := hs.2
    show (Frame.fresh base H W).getitem ((y + y : Nat) : Int) ((x + (x + 1) : Nat) : Int) = _
    rw [getitem_fresh, if_pos (by omega), if_pos (by omega)]
    have e1 : (((y + y : Nat) : Int) / 2).toNat = y := by omega
    have e2 : (((x + (x + 1) : Nat) : Int) / 2).toNat = x := by omega
    rw [e1, e2]; rfl
  | v y x =>
    have h1 := hs.1
    have h2 := hs.2
    show (Frame.fresh base H W).getitem ((y + (y + 1) : Nat) : Int) ((x + x : Nat) : Int) = _
    rw [getitem_fresh, if_pos (by omega), if_neg (by omega), if_pos (by omega)]
    have e1 : (((y + (y + 1) : Nat) : Int) / 2).toNat = y := by omega
    have e2 : (((x + x : Nat) : Int) / 2).toNat = x := by omega
    rw [e1, e2]; rfl

theorem getitem_no_seg (base H W : Nat) (Y X : Int) (h : ∀ s : Seg, s.Valid H W → s.mid ≠ (Y, X)) :
    (Frame.fresh base H W).getitem Y X = .error .indexError := by
  rw [getitem_fresh]
  by_cases hr : 0 ≤ Y ∧ Y ≤ 2 * (H : Int) ∧ 0 ≤ X ∧ X ≤ 2 * (W : Int)
  · rw [if_pos hr]
    by_cases h1 : Y % 2 = 0 ∧ X % 2 = 1
    · exfalso
      refine h (Seg.h (Y / 2).toNat (X / 2).toNat) ⟨by omega, by omega⟩ ?_
      simp only [Seg.mid, Seg.ends, Prod.mk.injEq]
      constructor <;> omega
    · rw [if_neg h1]
      by_cases h2 : Y % 2 = 1 ∧ X % 2 = 0
      · exfalso
        refine h (Seg.v (Y / 2).toNat (X / 2).toNat) ⟨by omega, by omega⟩ ?_
        simp only [Seg.mid, Seg.ends, Prod.mk.injEq]
        constructor <;> omega
      · rw [if_neg h2]
  · rw [if_neg hr]

theorem getitem_statement : ∀ (base H W : Nat) (Y X : Int),
    ((0 ≤ Y ∧ Y ≤ 2 * (H : Int) ∧ 0 ≤ X ∧ X ≤ 2 * (W : Int)) → Y % 2 = 0 → X % 2 = 1 →
        (Frame.fresh base H W).getitem Y X = .ok (.bvar (geomH base H W (Y / 2).toNat (X / 2).toNat))) ∧
    ((0 ≤ Y ∧ Y ≤ 2 * (H : Int) ∧ 0 ≤ X ∧ X ≤ 2 * (W : Int)) → Y % 2 = 1 → X % 2 = 0 →
        (Frame.fresh base H W).getitem Y X = .ok (.bvar (geomV base H W (Y / 2).toNat (X / 2).toNat))) ∧
    ((¬ (0 ≤ Y ∧ Y ≤ 2 * (H : Int) ∧ 0 ≤ X ∧ X ≤ 2 * (W : Int)) ∨ Y % 2 = X % 2) →
        (Frame.fresh base H W).getitem Y X = .error .indexError) ∧
    (∀ s : Seg, s.Valid H W → s.mid = (Y, X) →
        (Frame.fresh base H W).getitem Y X = .ok (.bvar (s.var base H W))) ∧
    ((∀ s : Seg, s.Valid H W → s.mid ≠ (Y, X)) → (Frame.fresh base H W).getitem Y X = .error .indexError) ∧
    (Frame.fresh base H W).getitem Y X =
      (match segAt H W Y X with
       | some s => .ok (.bvar (s.var base H W))
       | none => .error .indexError) := by
  intro base H W Y X
  refine ⟨?_, ?_, ?_, ?_, getitem_no_seg base H W Y X, ?_⟩
  · intro hr h1 h2
    rw [getitem_fresh, if_pos hr, if_pos ⟨h1, h2⟩]
  · intro hr h1 h2
    rw [getitem_fresh, if_pos hr, if_neg (by omega), if_pos ⟨h1, h2⟩]
  · intro h
    rw [getitem_fresh]
    by_cases hr : 0 ≤ Y ∧ Y ≤ 2 * (H : Int) ∧ 0 ≤ X ∧ X ≤ 2 * (W : Int)
    · rw [if_pos hr, if_neg (by omega), if_neg (by omega)]
    · rw [if_neg hr]
  · intro s hs hm
    have := getitem_of_seg base H W s hs
    rw [hm] at this
    exact this
  · cases hseg : segAt H W Y X with
    | none =>
      apply getitem_no_seg
      intro s hs hm
      unfold segAt at hseg
      rw [List.find?_eq_none] at hseg
      exact hseg s ((mem_allSegs H W s).mpr hs) (by simpa using hm)
    | some s =>
      unfold segAt at hseg
      have hm : s.mid = (Y, X) := by simpa using List.find?_some hseg
      have hs : s.Valid H W := (mem_allSegs H W s).mp (List.mem_of_find?_eq_some hseg)
      have := getitem_of_seg base H W s hs
      rw [hm] at this
      exact this

theorem cell_statement : ∀ (base H W : Nat) (y x : Int),
    (CellValid H W (y, x) →
      (Frame.fresh base H W).cellNeighbors y x =
        .ok [.bvar (geomH base H W y.toNat x.toNat), .bvar (geomH base H W (y.toNat + 1) x.toNat),
             .bvar (geomV base H W y.toNat x.toNat), .bvar (geomV base H W y.toNat (x.toNat + 1))] ∧
      (∀ s : Seg, s ∈ cellSegs y.toNat x.toNat ↔ (s.Valid H W ∧ s.Bounds (y, x))) ∧
      (cellSegs y.toNat x.toNat).Nodup ∧
      (segsOfCell H W (y, x)).Perm (cellSegs y.toNat x.toNat)) ∧
    (¬ CellValid H W (y, x) → (Frame.fresh base H W).cellNeighbors y x = .error .indexError) := by
  intro base H W y x
  constructor
  · intro hc
    have hc' : 0 ≤ y ∧ y < (H : Int) ∧ 0 ≤ x ∧ x < (W : Int) := hc
    obtain ⟨y', rfl⟩ := Int.eq_ofNat_of_zero_le hc'.1
    obtain ⟨x', rfl⟩ := Int.eq_ofNat_of_zero_le hc'.2.2.1
    refine ⟨?_, ?_, cellSegs_nodup _ _, ?_⟩
    · rw [cell_fresh, if_pos hc']; rfl
    · intro s
      simp only [Int.toNat_natCast]
      exact mem_cellSegs H W y' x' (by omega) (by omega) s
    · simp only [Int.toNat_natCast]
      exact segsOfCell_perm H W y' x' (by omega) (by omega)
  · intro hc
    have hc' : ¬ (0 ≤ y ∧ y < (H : Int) ∧ 0 ≤ x ∧ x < (W : Int)) := hc
    rw [cell_fresh, if_neg hc']

theorem vertex_statement : ∀ (base H W : Nat) (y x : Int),
    ((0 ≤ y ∧ y ≤ (H : Int) ∧ 0 ≤ x ∧ x ≤ (W : Int)) →
      (Frame.fresh base H W).vertexNeighbors y x =
        .ok ((pointSegs H W y.toNat x.toNat).map fun s => .bvar (s.var base H W)) ∧
      (∀ s : Seg, s ∈ pointSegs H W y.toNat x.toNat ↔ (s.Valid H W ∧ s.Touches (y.toNat, x.toNat))) ∧
      (pointSegs H W y.toNat x.toNat).Nodup ∧
      (segsOfPoint H W (y.toNat, x.toNat)).Perm (pointSegs H W y.toNat x.toNat)) ∧
    (¬ (0 ≤ y ∧ y ≤ (H : Int) ∧ 0 ≤ x ∧ x ≤ (W : Int)) →
      (Frame.fresh base H W).vertexNeighbors y x = .error .indexError) := by
  intro base H W y x
  constructor
  · intro hc
    obtain ⟨y', rfl⟩ := Int.eq_ofNat_of_zero_le hc.1
    obtain ⟨x', rfl⟩ := Int.eq_ofNat_of_zero_le hc.2.2.1
    refine ⟨?_, ?_, pointSegs_nodup _ _ _ _, ?_⟩
    · rw [vertex_fresh, if_pos hc]; rfl
    · intro s
      simp only [Int.toNat_natCast]
      exact mem_pointSegs H W y' x' (by omega) (by omega) s
    · simp only [Int.toNat_natCast]
      exact segsOfPoint_perm H W y' x' (by omega) (by omega)
  · intro hc
    rw [vertex_fresh, if_neg hc]

theorem graph_statement : ∀ (base H W : Nat), ∃ (edges : List Expr) (g : Graph),
    fromGridFrame (Frame.fresh base H W) = .ok (edges, g) ∧
    edges.length = g.edges.length ∧ g.n = (H + 1) * (W + 1) ∧
    (∀ i, i < edges.length → ∃ s : Seg, s.Valid H W ∧
        edges[i]? = some (.bvar (s.var base H W)) ∧
        g.edges[i]? = some (ptIndex W s.ends.1, ptIndex W s.ends.2)) := by
  intro base H W
  refine ⟨_, _, fromGridFrame_fresh base H W, by simp only [List.length_map], rfl, ?_⟩
  intro i hi
  rw [List.length_map] at hi
  refine ⟨(graphSegs H W)[i], graphSegs_valid H W _ (List.getElem_mem hi), ?_, ?_⟩
  · rw [List.getElem?_map, List.getElem?_eq_getElem hi]; rfl
  · show ((graphSegs H W).map (segEdge W))[i]? = _
    rw [List.getElem?_map, List.getElem?_eq_getElem hi]; rfl

theorem points_statement : ∀ (H W : Nat),
    (∀ p q : Pt, PtValid H W p → PtValid H W q → ptIndex W p = ptIndex W q → p = q) ∧
    (∀ p : Pt, PtValid H W p → ptIndex W p < (H + 1) * (W + 1)) ∧
    (∀ s : Seg, s.Valid H W → PtValid H W s.ends.1 ∧ PtValid H W s.ends.2 ∧ s.ends.1 ≠ s.ends.2) ∧
    (∀ (base : Nat) (s t : Seg), s.Valid H W → t.Valid H W → s.var base H W = t.var base H W → s = t) ∧
    (∀ (base : Nat) (s : Seg), s.Valid H W → base ≤ s.var base H W ∧ s.var base H W < base + Frame.numVars H W) ∧
    (∀ s t : Seg, s.mid = t.mid → s = t) ∧
    (∀ s : Seg, 2 * s.mid.1 = (2 * s.sides.1.1 + 1) + (2 * s.sides.2.1 + 1) ∧
                2 * s.mid.2 = (2 * s.sides.1.2 + 1) + (2 * s.sides.2.2 + 1)) := by
  intro H W
  exact ⟨ptIndex_inj H W, ptIndex_lt H W, ends_valid H W, fun base => var_inj base H W,
    fun base => var_range base H W, mid_inj, mid_sides⟩

theorem iter_statement : ∀ (base H W : Nat),
    (Frame.fresh base H W).allEdges = (Frame.fresh base H W).horizontal.data ++ (Frame.fresh base H W).vertical.data ∧
    (Frame.fresh base H W).horizontal = ⟨H + 1, W, (hSegs H W).map fun s => .bvar (s.var base H W)⟩ ∧
    (Frame.fresh base H W).vertical = ⟨H, W + 1, (vSegs H W).map fun s => .bvar (s.var base H W)⟩ ∧
    (∀ y x : Nat, y ≤ H → x < W →
      (Frame.fresh base H W).horizontal.get (y : Int) (x : Int) = .ok (.bvar (geomH base H W y x))) ∧
    (∀ y x : Nat, y < H → x ≤ W →
      (Frame.fresh base H W).vertical.get (y : Int) (x : Int) = .ok (.bvar (geomV base H W y x))) ∧
    (∀ s : Seg, s ∈ allSegs H W ↔ s.Valid H W) ∧ (allSegs H W).Nodup ∧
    (Frame.fresh base H W).allEdges.Nodup ∧
    (∀ edges g, fromGridFrame (Frame.fresh base H W) = .ok (edges, g) → (Frame.fresh base H W).allEdges.Perm edges) := by
  intro base H W
  refine ⟨rfl, fresh_horizontal base H W, fresh_vertical base H W, fresh_h base H W, fresh_v base H W,
    mem_allSegs H W, allSegs_nodup H W, allEdges_nodup base H W, ?_⟩
  intro edges g h
  rw [fromGridFrame_fresh] at h
  injection h with h
  injection h with h1 h2
  subst h1
  rw [allEdges_fresh]
  exact ((graphSegs_perm H W).map _).symm

theorem dual_statement :
    (∀ f : Frame, f.dual.height = f.height + 1 ∧ f.dual.width = f.width + 1 ∧
        f.dual.horizontal = f.vertical ∧ f.dual.vertical = f.horizontal) ∧
    (∀ g : InnerFrame, g.dual.height = g.height - 1 ∧ g.dual.width = g.width - 1 ∧
        g.dual.horizontal = g.vertical ∧ g.dual.vertical = g.horizontal) ∧
    (∀ f : Frame, f.dual.dual = f) ∧
    (∀ g : InnerFrame, 1 ≤ g.height → 1 ≤ g.width → g.dual.dual = g) ∧
    (∀ f : Frame, f.dual.iter = f.allEdges) ∧
    (∀ (H W : Nat) (s : Seg),
        (s.Valid H W ↔ s.dual.Valid (H + 1) (W + 1)) ∧ s.dual.sides = s.ends ∧ s.dual.dual = s) ∧
    (∀ (H W : Nat) (b : Border),
        (b.Valid (H + 1) (W + 1) ↔ b.dual.Valid H W) ∧ b.dual.ends = b.sides ∧ b.dual.dual = b) ∧
    (∀ (base H W : Nat) (s : Seg), s.Valid H W →
        border (Frame.fresh base H W).dual s.dual = .ok (.bvar (s.var base H W))) ∧
    (∀ (base H W : Nat) (b : Border), b.Valid (H + 1) (W + 1) →
        border (InnerFrame.fresh base (H + 1) (W + 1)) b = .ok (.bvar (b.var base (H + 1) (W + 1))) ∧
        (InnerFrame.fresh base (H + 1) (W + 1)).dual.getitem b.dual.mid.1 b.dual.mid.2
          = .ok (.bvar (b.var base (H + 1) (W + 1)))) := by
  refine ⟨fun f => ⟨rfl, rfl, rfl, rfl⟩, fun g => ⟨rfl, rfl, rfl, rfl⟩, dual_dual, inner_dual_dual, ?_,
    seg_dual_geom, border_dual_geom, dual_border, fun base H W b hb => ⟨inner_border base H W b hb, inner_dual_getitem base H W b hb⟩⟩
  intro f
  unfold InnerFrame.iter
  rw [dual_dual]

end Cspuz.Proofs.C14
