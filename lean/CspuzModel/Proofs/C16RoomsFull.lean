/-
  C16: the independent decoder recovers the PARTITION (not only the borders): consequences of
  `C16Components.roomsOfBorders_correct` for lits / norinori / heyawake / aquarium / star battle.
-/
import CspuzModel.Proofs.C16Rooms
import CspuzModel.Proofs.C16Components
set_option linter.unusedVariables false
namespace Cspuz.Proofs.C16RoomsFull
open Cspuz Cspuz.Ser Cspuz.C16F Cspuz.Codecs

theorem canonRooms_length {h w : Nat} {rooms : List (List (Nat × Nat))} (hv : ValidPartition h w rooms) :
    (canonRooms h w rooms).length = rooms.length := by
  have hl : (List.replicate rooms.length PyVal.none).length = rooms.length := by simp
  obtain ⟨sz, hperm⟩ := sortedZ_of_valid hv hl
  rw [← canonRooms_perm hperm hv, canonRooms_sorted sz, List.length_map, sortZ_length, List.length_zip]
  simp

/-- lits / norinori: the rooms the independent decoder computes from the body are the partition in canonical form -/
theorem pzpr_rooms_full (c : Comb) (hc : c = .rooms false false) (h w : Nat) (hh : 1 ≤ h) (hw : 1 ≤ w)
    (rooms : List (List (Nat × Nat))) (hv : ValidPartition h w rooms) (body : Str)
    (hs : serProblem c (roomsVal rooms) h w = .ok body) :
    Pzpr.decodeRooms h w body = some (canonRooms h w rooms) := by
  subst hc
  obtain ⟨t, hser, _⟩ := rooms_roundtrip h w hh hw (borders_roundtrip h w) rooms hv false false
  have hser' : ser (.rooms false false) ⟨h, w⟩ [roomsVal rooms] 0 = .ok (1, t) := by simpa [ser] using hser
  rw [C16Rooms.serProblem_of_ser _ _ h w t hser'] at hs
  simp only [Outcome.ok.injEq] at hs
  subst hs
  have := C16Bits.pzpr_rooms_borders h w hh hw rooms hv false false t hser' []
  simp only [List.append_nil] at this
  simp [Pzpr.decodeRooms, Pzpr.decodeBorders, Pzpr.whole, this, C16Components.roomsOfBorders_correct h w hh hw rooms hv]

/-- heyawake: rooms (computed by the independent decoder) and their numbers -/
theorem pzpr_heyawake_full (h w : Nat) (hh : 1 ≤ h) (hw : 1 ≤ w) (rooms : List (List (Nat × Nat)))
    (hv : ValidPartition h w rooms) (clues : List Int) (hl : clues.length = rooms.length) (hcl : ∀ c ∈ clues, ClueVal c)
    (body : Str)
    (hs : serProblem Gen.heyawakeCodec.comb (.tuple [roomsVal rooms, .list (clues.map PyVal.int)]) h w = .ok body) :
    ∃ cl : List Int, canonValues h w rooms (clues.map PyVal.int) = cl.map PyVal.int ∧
      Pzpr.decodeHeyawake h w body = some (canonRooms h w rooms, cl) := by
  obtain ⟨body', h1, _, cl, hcv, hpz⟩ := C16Rooms.heyawake_body h w hh hw rooms hv clues hl hcl
  have : body = body' := by
    have := hs.symm.trans h1
    simpa using this
  subst this
  refine ⟨cl, hcv, ?_⟩
  unfold Pzpr.decodeHeyawakeN at hpz
  unfold Pzpr.decodeHeyawake
  cases hb : Pzpr.borders h w body with
  | none => rw [hb] at hpz; cases hpz
  | some br =>
    obtain ⟨b, rest⟩ := br
    rw [hb] at hpz
    simp only at hpz ⊢
    cases hw' : Pzpr.whole (Pzpr.number16 rooms.length rest) with
    | none => rw [hw'] at hpz; cases hpz
    | some v =>
      rw [hw'] at hpz
      simp only [Option.map_some, Option.some.injEq, Prod.mk.injEq] at hpz
      obtain ⟨rfl, rfl⟩ := hpz
      rw [C16Components.roomsOfBorders_correct h w hh hw rooms hv, canonRooms_length hv, hw']
      rfl

/-- block ids that label the rooms of a partition (any injective labelling) give the borders of the partition -/
theorem bordersOfIds_of_partition (h w : Nat) (rooms : List (List (Nat × Nat))) (bid : List (List Int))
    (hid : ∀ y x y' x', y < h → x < w → y' < h → x' < w →
      ((bid.getD y []).getD x 0 = (bid.getD y' []).getD x' 0 ↔ roomIdx rooms (y, x) = roomIdx rooms (y', x'))) :
    bordersOfIds h w bid = bordersOf h w rooms := by
  unfold bordersOfIds bordersOf
  have key : ∀ y x y' x', y < h → x < w → y' < h → x' < w →
      ((bid.getD y []).getD x 0 != (bid.getD y' []).getD x' 0) = (roomIdx rooms (y, x) != roomIdx rooms (y', x')) := by
    intro y x y' x' a b c d
    have := hid y x y' x' a b c d
    by_cases hq : roomIdx rooms (y, x) = roomIdx rooms (y', x')
    · rw [this.2 hq, hq]; simp
    · have hq' : ¬ (bid.getD y []).getD x 0 = (bid.getD y' []).getD x' 0 := fun h' => hq (this.1 h')
      rw [bne_iff_ne.mpr hq', bne_iff_ne.mpr hq]
  show Pzpr.Borders.mk _ _ = Pzpr.Borders.mk _ _
  congr 1
  · apply List.map_congr_left
    intro y hy
    apply List.map_congr_left
    intro x hx
    have hy' := List.mem_range.1 hy
    have hx' := List.mem_range.1 hx
    exact key y x y (x + 1) hy' (by omega) hy' (by omega)
  · apply List.map_congr_left
    intro y hy
    apply List.map_congr_left
    intro x hx
    have hy' := List.mem_range.1 hy
    have hx' := List.mem_range.1 hx
    exact key y x (y + 1) x (by omega) hx' (by omega) hx'

end Cspuz.Proofs.C16RoomsFull
