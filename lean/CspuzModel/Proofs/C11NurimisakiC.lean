/-
  C11 / Nurimisaki, part C — the candidate list of a numbered circle means "the straight line of unshaded
  cells from the circle has exactly `n` cells in one of the four directions"; meaning of the constraints of
  one cell.
-/
import CspuzModel.Proofs.C11NurimisakiB
namespace Cspuz.Proofs.C11NurimisakiC
open Cspuz Cspuz.Spec Cspuz.Puzzles Cspuz.Puzzles.Nurimisaki Cspuz.Spec.Nurimisaki Cspuz.Proofs
open Cspuz.Proofs.C11NurimisakiA Cspuz.Proofs.C11NurimisakiB

/-! ### the rule-side description of a line, direction by direction, in natural-number coordinates -/

theorem onBW_nat {pb : Problem} (g : Nat → Nat → Bool) (a b : Int) (y' x' : Nat) (ha : a = (y' : Int))
    (hb : b = (x' : Int)) :
    onBoardWhite pb g a b ↔ y' < pb.height ∧ x' < pb.width ∧ g y' x' = true := by
  subst ha hb
  simp only [onBoardWhite, Int.toNat_natCast]
  constructor
  · rintro ⟨_, h2, _, h4, h5⟩; exact ⟨by omega, by omega, h5⟩
  · rintro ⟨h1, h2, h3⟩; exact ⟨by omega, by omega, by omega, by omega, h3⟩

section lines
variable {pb : Problem} (g : Nat → Nat → Bool) {y x m : Nat}

theorem line_up (hy : y < pb.height) (hx : x < pb.width) (hm : 1 ≤ m) :
    LineIs pb g y x (-1, 0) (m : Int) ↔
      g y x = true ∧ (y + 1 = m ∨ m < y + 1) ∧ (∀ j, j < m - 1 → g (y + 1 - m + j) x = true) ∧
        (¬ y + 1 = m → g (y - m) x = false) := by
  unfold LineIs
  dsimp only
  constructor
  · rintro ⟨hl, hs⟩
    have h0 := (onBW_nat g _ _ y x (by omega) (by omega)).1 (hl 0 (by omega) (by omega))
    have hlast := (hl ((m : Int) - 1) (by omega) (by omega)).1
    have hfit : m ≤ y + 1 := by omega
    refine ⟨h0.2.2, by omega, ?_, ?_⟩
    · intro j hj
      exact ((onBW_nat g _ _ (y + 1 - m + j) x (by omega) (by omega)).1
        (hl ((m - 1 - j : Nat) : Int) (by omega) (by omega))).2.2
    · intro hne
      have : ¬ (g (y - m) x = true) := fun hc =>
        hs ((onBW_nat g _ _ (y - m) x (by omega) (by omega)).2 ⟨by omega, hx, hc⟩)
      simpa using this
  · rintro ⟨h0, hfit, hrun, hstop⟩
    refine ⟨?_, ?_⟩
    · intro k hk0 hkm
      obtain ⟨k', rfl⟩ := Int.eq_ofNat_of_zero_le hk0
      by_cases hk : k' = 0
      · subst hk
        exact (onBW_nat g _ _ y x (by omega) (by omega)).2 ⟨hy, hx, h0⟩
      · have := hrun (m - 1 - k') (by omega)
        exact (onBW_nat g _ _ (y + 1 - m + (m - 1 - k')) x (by omega) (by omega)).2 ⟨by omega, hx, this⟩
    · intro hc
      by_cases he : y + 1 = m
      · have := hc.1; omega
      · have := ((onBW_nat g _ _ (y - m) x (by omega) (by omega)).1 hc).2.2
        rw [hstop he] at this; cases this

theorem line_dn (hy : y < pb.height) (hx : x < pb.width) (hm : 1 ≤ m) :
    LineIs pb g y x (1, 0) (m : Int) ↔
      g y x = true ∧ (y + m = pb.height ∨ y + m < pb.height) ∧ (∀ j, j < m - 1 → g (y + 1 + j) x = true) ∧
        (¬ y + m = pb.height → g (y + m) x = false) := by
  unfold LineIs
  dsimp only
  constructor
  · rintro ⟨hl, hs⟩
    have h0 := (onBW_nat g _ _ y x (by omega) (by omega)).1 (hl 0 (by omega) (by omega))
    have hlast := (hl ((m : Int) - 1) (by omega) (by omega)).2.1
    have hfit : y + m ≤ pb.height := by omega
    refine ⟨h0.2.2, by omega, ?_, ?_⟩
    · intro j hj
      exact ((onBW_nat g _ _ (y + 1 + j) x (by omega) (by omega)).1
        (hl ((j + 1 : Nat) : Int) (by omega) (by omega))).2.2
    · intro hne
      have : ¬ (g (y + m) x = true) := fun hc =>
        hs ((onBW_nat g _ _ (y + m) x (by omega) (by omega)).2 ⟨by omega, hx, hc⟩)
      simpa using this
  · rintro ⟨h0, hfit, hrun, hstop⟩
    refine ⟨?_, ?_⟩
    · intro k hk0 hkm
      obtain ⟨k', rfl⟩ := Int.eq_ofNat_of_zero_le hk0
      by_cases hk : k' = 0
      · subst hk
        exact (onBW_nat g _ _ y x (by omega) (by omega)).2 ⟨hy, hx, h0⟩
      · have := hrun (k' - 1) (by omega)
        exact (onBW_nat g _ _ (y + 1 + (k' - 1)) x (by omega) (by omega)).2 ⟨by omega, hx, this⟩
    · intro hc
      by_cases he : y + m = pb.height
      · have := hc.2.1; omega
      · have := ((onBW_nat g _ _ (y + m) x (by omega) (by omega)).1 hc).2.2
        rw [hstop he] at this; cases this

theorem line_lf (hy : y < pb.height) (hx : x < pb.width) (hm : 1 ≤ m) :
    LineIs pb g y x (0, -1) (m : Int) ↔
      g y x = true ∧ (x + 1 = m ∨ m < x + 1) ∧ (∀ j, j < m - 1 → g y (x + 1 - m + j) = true) ∧
        (¬ x + 1 = m → g y (x - m) = false) := by
  unfold LineIs
  dsimp only
  constructor
  · rintro ⟨hl, hs⟩
    have h0 := (onBW_nat g _ _ y x (by omega) (by omega)).1 (hl 0 (by omega) (by omega))
    have hlast := (hl ((m : Int) - 1) (by omega) (by omega)).2.2.1
    have hfit : m ≤ x + 1 := by omega
    refine ⟨h0.2.2, by omega, ?_, ?_⟩
    · intro j hj
      exact ((onBW_nat g _ _ y (x + 1 - m + j) (by omega) (by omega)).1
        (hl ((m - 1 - j : Nat) : Int) (by omega) (by omega))).2.2
    · intro hne
      have : ¬ (g y (x - m) = true) := fun hc =>
        hs ((onBW_nat g _ _ y (x - m) (by omega) (by omega)).2 ⟨hy, by omega, hc⟩)
      simpa using this
  · rintro ⟨h0, hfit, hrun, hstop⟩
    refine ⟨?_, ?_⟩
    · intro k hk0 hkm
      obtain ⟨k', rfl⟩ := Int.eq_ofNat_of_zero_le hk0
      by_cases hk : k' = 0
      · subst hk
        exact (onBW_nat g _ _ y x (by omega) (by omega)).2 ⟨hy, hx, h0⟩
      · have := hrun (m - 1 - k') (by omega)
        exact (onBW_nat g _ _ y (x + 1 - m + (m - 1 - k')) (by omega) (by omega)).2 ⟨hy, by omega, this⟩
    · intro hc
      by_cases he : x + 1 = m
      · have := hc.2.2.1; omega
      · have := ((onBW_nat g _ _ y (x - m) (by omega) (by omega)).1 hc).2.2
        rw [hstop he] at this; cases this

theorem line_rt (hy : y < pb.height) (hx : x < pb.width) (hm : 1 ≤ m) :
    LineIs pb g y x (0, 1) (m : Int) ↔
      g y x = true ∧ (x + m = pb.width ∨ x + m < pb.width) ∧ (∀ j, j < m - 1 → g y (x + 1 + j) = true) ∧
        (¬ x + m = pb.width → g y (x + m) = false) := by
  unfold LineIs
  dsimp only
  constructor
  · rintro ⟨hl, hs⟩
    have h0 := (onBW_nat g _ _ y x (by omega) (by omega)).1 (hl 0 (by omega) (by omega))
    have hlast := (hl ((m : Int) - 1) (by omega) (by omega)).2.2.2.1
    have hfit : x + m ≤ pb.width := by omega
    refine ⟨h0.2.2, by omega, ?_, ?_⟩
    · intro j hj
      exact ((onBW_nat g _ _ y (x + 1 + j) (by omega) (by omega)).1
        (hl ((j + 1 : Nat) : Int) (by omega) (by omega))).2.2
    · intro hne
      have : ¬ (g y (x + m) = true) := fun hc =>
        hs ((onBW_nat g _ _ y (x + m) (by omega) (by omega)).2 ⟨hy, by omega, hc⟩)
      simpa using this
  · rintro ⟨h0, hfit, hrun, hstop⟩
    refine ⟨?_, ?_⟩
    · intro k hk0 hkm
      obtain ⟨k', rfl⟩ := Int.eq_ofNat_of_zero_le hk0
      by_cases hk : k' = 0
      · subst hk
        exact (onBW_nat g _ _ y x (by omega) (by omega)).2 ⟨hy, hx, h0⟩
      · have := hrun (k' - 1) (by omega)
        exact (onBW_nat g _ _ y (x + 1 + (k' - 1)) (by omega) (by omega)).2 ⟨hy, by omega, this⟩
    · intro hc
      by_cases he : x + m = pb.width
      · have := hc.2.2.2.1; omega
      · have := ((onBW_nat g _ _ y (x + m) (by omega) (by omega)).1 hc).2.2
        rw [hstop he] at this; cases this

end lines

/-! ### the candidates, direction by direction -/

theorem run_wt (w : Nat) (F G : Nat → Nat) (n : Nat) :
    ∀ e ∈ (List.range n).map (fun j => cv w (F j) (G j)), wtB e = true := by
  intro e he
  simp only [List.mem_map] at he
  obtain ⟨j, _, rfl⟩ := he; rfl

section cand
variable {pb : Problem} (σ : Asg) (g : Nat → Nat → Bool)
  (hg : ∀ y, y < pb.height → ∀ x, x < pb.width → g y x = σ.b (y * pb.width + x))
include hg

theorem run_sem (F G : Nat → Nat) (n : Nat) (hF : ∀ j, j < n → F j < pb.height) (hG : ∀ j, j < n → G j < pb.width) :
    (∀ e ∈ (List.range n).map (fun j => cv pb.width (F j) (G j)), eval σ e = some (.b true)) ↔
      ∀ j, j < n → g (F j) (G j) = true := by
  simp only [List.mem_map, List.mem_range]
  constructor
  · intro h j hj
    have := h _ ⟨j, hj, rfl⟩
    rw [eval_cv σ g hg (hF j hj) (hG j hj)] at this
    simpa using this
  · rintro h e ⟨j, hj, rfl⟩
    rw [eval_cv σ g hg (hF j hj) (hG j hj), h j hj]

variable {y x m : Nat}

theorem up_sem (hy : y < pb.height) (hx : x < pb.width) :
    (∃ c ∈ dirCands (y + 1 = m) (m < y + 1) (upRun pb.width y x m) (cv pb.width (y - m) x),
        eval σ c = some (.b true)) ↔
      ((y + 1 = m ∨ m < y + 1) ∧ (∀ j, j < m - 1 → g (y + 1 - m + j) x = true) ∧
        (¬ y + 1 = m → g (y - m) x = false)) := by
  rw [show cv pb.width (y - m) x = .bvar ((y - m) * pb.width + x) from rfl,
    upRun, dirCands_sem σ _ _ _ _ (run_wt _ _ _ _)]
  have hs : g (y - m) x = σ.b ((y - m) * pb.width + x) := hg _ (by omega) _ hx
  rw [hs]
  constructor
  · rintro ⟨hf, hr, hst⟩
    exact ⟨hf, (run_sem σ g hg _ _ _ (by intro j hj; omega) (fun _ _ => hx)).1 hr, hst⟩
  · rintro ⟨hf, hr, hst⟩
    exact ⟨hf, (run_sem σ g hg _ _ _ (by intro j hj; omega) (fun _ _ => hx)).2 hr, hst⟩

theorem dn_sem (_hy : y < pb.height) (hx : x < pb.width) :
    (∃ c ∈ dirCands (y + m = pb.height) (y + m < pb.height) (dnRun pb.width y x m) (cv pb.width (y + m) x),
        eval σ c = some (.b true)) ↔
      ((y + m = pb.height ∨ y + m < pb.height) ∧ (∀ j, j < m - 1 → g (y + 1 + j) x = true) ∧
        (¬ y + m = pb.height → g (y + m) x = false)) := by
  rw [show cv pb.width (y + m) x = .bvar ((y + m) * pb.width + x) from rfl,
    dnRun, dirCands_sem σ _ _ _ _ (run_wt _ _ _ _)]
  constructor
  · rintro ⟨hf, hr, hst⟩
    refine ⟨hf, (run_sem σ g hg _ _ _ (by intro j hj; omega) (fun _ _ => hx)).1 hr, fun hne => ?_⟩
    rw [hg _ (by omega) _ hx]; exact hst hne
  · rintro ⟨hf, hr, hst⟩
    refine ⟨hf, (run_sem σ g hg _ _ _ (by intro j hj; omega) (fun _ _ => hx)).2 hr, fun hne => ?_⟩
    rw [← hg _ (by omega) _ hx]; exact hst hne

theorem lf_sem (hy : y < pb.height) (hx : x < pb.width) :
    (∃ c ∈ dirCands (x + 1 = m) (m < x + 1) (lfRun pb.width y x m) (cv pb.width y (x - m)),
        eval σ c = some (.b true)) ↔
      ((x + 1 = m ∨ m < x + 1) ∧ (∀ j, j < m - 1 → g y (x + 1 - m + j) = true) ∧
        (¬ x + 1 = m → g y (x - m) = false)) := by
  rw [show cv pb.width y (x - m) = .bvar (y * pb.width + (x - m)) from rfl,
    lfRun, dirCands_sem σ _ _ _ _ (run_wt _ _ _ _)]
  have hs : g y (x - m) = σ.b (y * pb.width + (x - m)) := hg _ hy _ (by omega)
  rw [hs]
  constructor
  · rintro ⟨hf, hr, hst⟩
    exact ⟨hf, (run_sem σ g hg _ _ _ (fun _ _ => hy) (by intro j hj; omega)).1 hr, hst⟩
  · rintro ⟨hf, hr, hst⟩
    exact ⟨hf, (run_sem σ g hg _ _ _ (fun _ _ => hy) (by intro j hj; omega)).2 hr, hst⟩

theorem rt_sem (hy : y < pb.height) (_hx : x < pb.width) :
    (∃ c ∈ dirCands (x + m = pb.width) (x + m < pb.width) (rtRun pb.width y x m) (cv pb.width y (x + m)),
        eval σ c = some (.b true)) ↔
      ((x + m = pb.width ∨ x + m < pb.width) ∧ (∀ j, j < m - 1 → g y (x + 1 + j) = true) ∧
        (¬ x + m = pb.width → g y (x + m) = false)) := by
  rw [show cv pb.width y (x + m) = .bvar (y * pb.width + (x + m)) from rfl,
    rtRun, dirCands_sem σ _ _ _ _ (run_wt _ _ _ _)]
  constructor
  · rintro ⟨hf, hr, hst⟩
    refine ⟨hf, (run_sem σ g hg _ _ _ (fun _ _ => hy) (by intro j hj; omega)).1 hr, fun hne => ?_⟩
    rw [hg _ hy _ (by omega)]; exact hst hne
  · rintro ⟨hf, hr, hst⟩
    refine ⟨hf, (run_sem σ g hg _ _ _ (fun _ _ => hy) (by intro j hj; omega)).2 hr, fun hne => ?_⟩
    rw [← hg _ hy _ (by omega)]; exact hst hne

/-- The `fold_or` of the candidates of the circle `m` at the unshaded cell `(y, x)`: in one of the four
directions the line of unshaded cells from `(y, x)` has exactly `m` cells. -/
theorem cands_sem (hy : y < pb.height) (hx : x < pb.width) (hm : 1 ≤ m) (h0 : g y x = true) :
    eval σ (orE (cands pb.height pb.width y x m)) = some (.b true) ↔
      ∃ d ∈ dirs, LineIs pb g y x d (m : Int) := by
  rw [eval_orE_iff σ _ (fun e he => (good_cands hy hx hm e he).1)]
  simp only [cands, List.mem_append, or_and_right, exists_or]
  rw [up_sem σ g hg hy hx, dn_sem σ g hg hy hx, lf_sem σ g hg hy hx, rt_sem σ g hg hy hx]
  simp only [dirs, List.mem_cons, List.not_mem_nil, or_false, exists_eq_or_imp, exists_eq_left]
  rw [line_up g hy hx hm, line_dn g hy hx hm, line_lf g hy hx hm, line_rt g hy hx hm]
  simp only [h0, true_and, or_assoc]

end cand

/-! ### the constraints of one cell -/

section cell
variable {pb : Problem} (σ : Asg) (g : Nat → Nat → Bool)
  (hg : ∀ y, y < pb.height → ∀ x, x < pb.width → g y x = σ.b (y * pb.width + x))
include hg

theorem cell_sem (hwf : WellFormed pb) {y x : Nat} (hy : y < pb.height) (hx : x < pb.width) :
    (∀ c ∈ cellE pb y x, eval σ c = some (.b true)) ↔
      ((val pb y x = -1 → ¬ Cape pb g y x) ∧ (val pb y x ≠ -1 → Cape pb g y x)) ∧
      (2 ≤ val pb y x → ∃ d ∈ dirs, LineIs pb g y x d (val pb y x)) := by
  have hvc := val_cases hwf hy hx
  have ecv := eval_cv σ g hg hy hx
  have ect := eval_count σ g hg hy hx
  have eeq := eval_cmp (op := .eq) rfl ect (eval_litI σ 1)
  have ene := eval_cmp (op := .ne) rfl ect (eval_litI σ 1)
  have eimp := eval_thenRaw ecv ene
  unfold thenRaw at eimp
  unfold cellE Cape
  rcases hvc with hv | hv | hv
  · rw [if_pos hv]
    simp only [List.mem_singleton, forall_eq, eimp, hv]
    cases g y x <;> simp
  · rw [if_neg (by omega), if_pos hv]
    simp only [List.append_nil, List.mem_cons, List.not_mem_nil, or_false, forall_eq_or_imp, forall_eq, ecv, eeq, hv]
    simp
  · obtain ⟨m, hm⟩ : ∃ m : Nat, val pb y x = (m : Int) := ⟨(val pb y x).toNat, by omega⟩
    rw [if_neg (by omega), if_neg (by omega)]
    simp only [List.cons_append, List.nil_append, List.mem_cons, List.not_mem_nil, or_false, forall_eq_or_imp,
      forall_eq, ecv, eeq, hm, Int.toNat_natCast]
    by_cases h0 : g y x = true
    · rw [cands_sem σ g hg hy hx (by omega) h0]
      have h1 : ¬ ((m : Int) = -1) := by omega
      have h2 : (2 : Int) ≤ (m : Int) := by omega
      simp [h0, h1, h2]
    · have h1 : ¬ ((m : Int) = -1) := by omega
      simp [h0, h1]

end cell

end Cspuz.Proofs.C11NurimisakiC
