/-
  C02: the refute-and-re-solve loop of `Solver.solve` (model `refineLoop` / `solveRefine`).
-/
import CspuzModel.Proofs.EvalLemmas
import CspuzModel.Spec.Session
namespace Cspuz.Proofs.C02Loop
open Cspuz Cspuz.Spec Cspuz.Proofs

/-! ### list bookkeeping -/

theorem getD_map_range (f : Nat → Option Val) (n i : Nat) :
    ((List.range n).map f).getD i none = if i < n then f i else none := by
  by_cases h : i < n
  · simp [List.getD_eq_getElem?_getD, h]
  · simp [List.getD_eq_getElem?_getD, h]

theorem lt_length_of_getD_some {l : List (Option Val)} {i : Nat} {a : Val}
    (h : l.getD i none = some a) : i < l.length := by
  rcases Nat.lt_or_ge i l.length with hl | hl
  · exact hl
  · simp [List.getD_eq_getElem?_getD, List.getElem?_eq_none hl] at h

/-- number of still-undemoted entries -/
def cnt (l : List (Option Val)) : Nat := (l.filter Option.isSome).length

theorem cnt_le_length (l : List (Option Val)) : cnt l ≤ l.length := List.length_filter_le _ _

theorem cnt_le : ∀ (l₁ l₂ : List (Option Val)), l₁.length = l₂.length →
    (∀ i, (l₁.getD i none).isSome = true → (l₂.getD i none).isSome = true) → cnt l₁ ≤ cnt l₂
  | [], [], _, _ => Nat.le_refl _
  | [], _ :: _, h, _ => by simp at h
  | _ :: _, [], h, _ => by simp at h
  | x :: l₁, y :: l₂, hl, h => by
    have ih := cnt_le l₁ l₂ (by simpa using hl) (fun i hi => by simpa using h (i + 1) (by simpa using hi))
    have h0 := h 0
    simp only [List.getD_cons_zero] at h0
    unfold cnt at ih ⊢
    simp only [List.filter_cons]
    cases hx : x.isSome
    · simp only [Bool.false_eq_true, if_false]
      split <;> simp <;> omega
    · rw [h0 hx]; simp; omega

theorem cnt_lt : ∀ (l₁ l₂ : List (Option Val)), l₁.length = l₂.length →
    (∀ i, (l₁.getD i none).isSome = true → (l₂.getD i none).isSome = true) →
    (∃ i, (l₂.getD i none).isSome = true ∧ (l₁.getD i none).isSome = false) → cnt l₁ < cnt l₂
  | [], [], _, _, ⟨i, hi, _⟩ => by simp at hi
  | [], _ :: _, h, _, _ => by simp at h
  | _ :: _, [], h, _, _ => by simp at h
  | x :: l₁, y :: l₂, hl, h, ⟨i, hi₂, hi₁⟩ => by
    have hl' : l₁.length = l₂.length := by simpa using hl
    have h' : ∀ i, (l₁.getD i none).isSome = true → (l₂.getD i none).isSome = true :=
      fun i hi => by simpa using h (i + 1) (by simpa using hi)
    have h0 := h 0
    simp only [List.getD_cons_zero] at h0
    cases i with
    | zero =>
      simp only [List.getD_cons_zero] at hi₂ hi₁
      have ih := cnt_le l₁ l₂ hl' h'
      unfold cnt at ih ⊢
      simp only [List.filter_cons, hi₂, hi₁, if_true, Bool.false_eq_true, if_false, List.length_cons]
      omega
    | succ i =>
      simp only [List.getD_cons_succ] at hi₂ hi₁
      have ih := cnt_lt l₁ l₂ hl' h' ⟨i, hi₂, hi₁⟩
      unfold cnt at ih ⊢
      simp only [List.filter_cons]
      cases hx : x.isSome
      · simp only [Bool.false_eq_true, if_false]
        split <;> simp <;> omega
      · rw [h0 hx]; simp; omega

/-! ### `demote` -/

theorem demote_length (decls : List VarDecl) (answer : List (Option Val)) (σ : Asg) :
    (demote decls answer σ).length = answer.length := by
  simp [demote]

theorem demote_getD (decls : List VarDecl) (answer : List (Option Val)) (σ : Asg) (i : Nat) :
    (demote decls answer σ).getD i none =
      match answer.getD i none with
      | some a => if valOf decls σ i = some a then some a else none
      | none => none := by
  unfold demote
  rw [getD_map_range]
  by_cases h : i < answer.length
  · simp only [h, if_true]
    rfl
  · have : answer.getD i none = none := by
      simp [List.getD_eq_getElem?_getD, List.getElem?_eq_none (Nat.le_of_not_lt h)]
    simp only [h, if_false, this]

theorem demote_some {decls : List VarDecl} {answer : List (Option Val)} {σ : Asg} {i : Nat} {a : Val}
    (h : (demote decls answer σ).getD i none = some a) :
    answer.getD i none = some a ∧ valOf decls σ i = some a := by
  rw [demote_getD] at h
  split at h
  · split at h
    · cases h; exact ⟨by assumption, by assumption⟩
    · cases h
  · cases h

theorem demote_none {decls : List VarDecl} {answer : List (Option Val)} {σ : Asg} {i : Nat}
    (h : (demote decls answer σ).getD i none = none) :
    answer.getD i none = none ∨ ∃ a, answer.getD i none = some a ∧ valOf decls σ i ≠ some a := by
  rw [demote_getD] at h
  split at h
  · split at h
    · cases h
    · right; exact ⟨_, by assumption, by assumption⟩
  · left; assumption

/-! ### the refuting clause -/

/-- the candidate has the kind of the declaration -/
def KindOk (decls : List VarDecl) (i : Nat) : Val → Prop
  | .b _ => decls[i]? = some .bool
  | .i _ => ∃ lo hi, decls[i]? = some (.int lo hi)

theorem kindOk_of_valOf {decls : List VarDecl} {σ : Asg} {i : Nat} {a : Val}
    (h : valOf decls σ i = some a) : KindOk decls i a := by
  unfold valOf at h
  split at h
  · cases h; assumption
  · cases h; exact ⟨_, _, by assumption⟩
  · cases h

theorem wtB_differs (i : Nat) (a : Val) : wtB (differs i a) = true := by
  cases a <;> simp [differs, wtB, wtBs, wtIs, wtI]

theorem eval_differs {decls : List VarDecl} (σ : Asg) {i : Nat} {a : Val} (hk : KindOk decls i a) :
    eval σ (differs i a) = some (.b (decide (valOf decls σ i ≠ some a))) := by
  cases a with
  | b v =>
    simp only [KindOk] at hk
    simp only [differs, eval_node, List.map_cons, List.map_nil, eval_bvar, eval_litB, evalOp, allBools,
      Option.map_some, valOf, hk]
    cases σ.b i <;> cases v <;> simp
  | i v =>
    obtain ⟨lo, hi, hk⟩ := hk
    simp only [differs, eval_node, List.map_cons, List.map_nil, eval_ivar, eval_litI, evalOp, allInts,
      Option.map_some, valOf, hk, cmpOp]
    by_cases h : σ.i i = v <;> simp [h]

theorem wtBs_of_forall : ∀ l : List Expr, (∀ x ∈ l, wtB x = true) → wtBs l = true
  | [], _ => rfl
  | x :: r, h => by
    simp only [wtBs, Bool.and_eq_true]
    exact ⟨h x (by simp), wtBs_of_forall r (fun y hy => h y (by simp [hy]))⟩

theorem mem_refuting_args {answer : List (Option Val)} {x : Expr} :
    x ∈ ((List.range answer.length).filterMap fun i =>
      match answer.getD i none with
      | some a => some (differs i a)
      | none => none) ↔ ∃ i a, answer.getD i none = some a ∧ x = differs i a := by
  simp only [List.mem_filterMap, List.mem_range]
  constructor
  · rintro ⟨i, _, h⟩
    split at h
    · cases h; exact ⟨i, _, by assumption, rfl⟩
    · cases h
  · rintro ⟨i, a, h, rfl⟩
    exact ⟨i, lt_length_of_getD_some h, by rw [h]⟩

theorem wtB_refuting (answer : List (Option Val)) : wtB (refuting answer) = true := by
  unfold refuting
  simp only [wtB]
  apply wtBs_of_forall
  intro x hx
  obtain ⟨i, a, _, rfl⟩ := mem_refuting_args.1 hx
  exact wtB_differs i a

theorem eval_or_true_iff (σ : Asg) : ∀ (l : List Expr), (∀ x ∈ l, ∃ b, eval σ x = some (.b b)) →
    ∃ bs : List Bool, l.map (eval σ) = bs.map (fun b => some (.b b)) ∧
      (bs.any id = true ↔ ∃ x ∈ l, eval σ x = some (.b true))
  | [], _ => ⟨[], rfl, by simp⟩
  | x :: r, h => by
    obtain ⟨b, hb⟩ := h x (by simp)
    obtain ⟨bs, hbs, hany⟩ := eval_or_true_iff σ r (fun y hy => h y (by simp [hy]))
    refine ⟨b :: bs, by simp [hb, hbs], ?_⟩
    simp only [List.any_cons, id, Bool.or_eq_true, hany, List.mem_cons, exists_eq_or_imp, hb,
      Option.some.injEq, Val.b.injEq]

theorem eval_or_node (σ : Asg) (l : List Expr) (h : ∀ x ∈ l, ∃ b, eval σ x = some (.b b)) :
    (∃ b, eval σ (.node .or l) = some (.b b)) ∧
    (eval σ (.node .or l) = some (.b true) ↔ ∃ x ∈ l, eval σ x = some (.b true)) := by
  obtain ⟨bs, hbs, hany⟩ := eval_or_true_iff σ l h
  rw [eval_node, hbs, evalOp_or]
  refine ⟨⟨_, rfl⟩, ?_⟩
  rw [← hany]
  simp

/-- every candidate in `answer` has the kind of its declaration -/
def Kinds (decls : List VarDecl) (answer : List (Option Val)) : Prop :=
  ∀ i a, answer.getD i none = some a → KindOk decls i a

theorem eval_refuting {decls : List VarDecl} {answer : List (Option Val)} (hk : Kinds decls answer)
    (σ : Asg) :
    (∃ b, eval σ (refuting answer) = some (.b b)) ∧
    (eval σ (refuting answer) = some (.b true) ↔
      ∃ i a, answer.getD i none = some a ∧ valOf decls σ i ≠ some a) := by
  unfold refuting
  have hall : ∀ x ∈ ((List.range answer.length).filterMap fun i =>
      match answer.getD i none with
      | some a => some (differs i a)
      | none => none), ∃ b, eval σ x = some (.b b) := by
    intro x hx
    obtain ⟨i, a, hi, rfl⟩ := mem_refuting_args.1 hx
    exact ⟨_, eval_differs σ (hk i a hi)⟩
  obtain ⟨h1, h2⟩ := eval_or_node σ _ hall
  refine ⟨h1, h2.trans ?_⟩
  constructor
  · rintro ⟨x, hx, hv⟩
    obtain ⟨i, a, hi, rfl⟩ := mem_refuting_args.1 hx
    rw [eval_differs σ (hk i a hi)] at hv
    exact ⟨i, a, hi, by simpa using hv⟩
  · rintro ⟨i, a, hi, hne⟩
    refine ⟨differs i a, mem_refuting_args.2 ⟨i, a, hi, rfl⟩, ?_⟩
    rw [eval_differs σ (hk i a hi)]
    simp [hne]

/-! ### models of the extended program -/

theorem sat_append {decls : List VarDecl} {cs ex : List Expr} {σ : Asg} :
    Sat decls (cs ++ ex) σ ↔ Sat decls cs σ ∧ ∀ x ∈ ex, eval σ x = some (.b true) := by
  unfold Sat
  constructor
  · rintro ⟨hr, h⟩
    exact ⟨⟨hr, fun c hc => h c (List.mem_append_left _ hc)⟩, fun x hx => h x (List.mem_append_right _ hx)⟩
  · rintro ⟨⟨hr, h1⟩, h2⟩
    refine ⟨hr, fun c hc => ?_⟩
    rcases List.mem_append.1 hc with hc | hc
    · exact h1 c hc
    · exact h2 c hc

/-- every candidate is the value of the variable in some model -/
def Attained (decls : List VarDecl) (cs : List Expr) (answer : List (Option Val)) : Prop :=
  ∀ i a, answer.getD i none = some a → ∃ σ, Sat decls cs σ ∧ valOf decls σ i = some a

theorem Attained.kinds {decls : List VarDecl} {cs : List Expr} {answer : List (Option Val)}
    (h : Attained decls cs answer) : Kinds decls answer := by
  intro i a hi
  obtain ⟨σ, _, hv⟩ := h i a hi
  exact kindOk_of_valOf hv

theorem Attained.demote {decls : List VarDecl} {cs : List Expr} {answer : List (Option Val)}
    (h : Attained decls cs answer) (σ : Asg) : Attained decls cs (demote decls answer σ) := by
  intro i a hi
  exact h i a (demote_some hi).1

/-- a model of the refuting clause demotes at least one key -/
theorem cnt_demote_lt {decls : List VarDecl} {answer : List (Option Val)} (hk : Kinds decls answer)
    {σ : Asg} (hσ : eval σ (refuting answer) = some (.b true)) :
    cnt (demote decls answer σ) < cnt answer := by
  obtain ⟨i, a, hi, hne⟩ := (eval_refuting hk σ).2.1 hσ
  apply cnt_lt _ _ (demote_length ..)
  · intro j hj
    cases hd : (demote decls answer σ).getD j none with
    | none => rw [hd] at hj; cases hj
    | some b => rw [(demote_some hd).1]; rfl
  · refine ⟨i, by rw [hi]; rfl, ?_⟩
    rw [demote_getD, hi]
    simp [hne]

/-! ### the loop -/

theorem refineLoop_succ (B : Backend) (decls : List VarDecl) (cs : List Expr) (fuel : Nat)
    (extra : List Expr) (answer : List (Option Val)) {r : Option Asg}
    (hr : B decls (cs ++ (extra ++ [refuting answer])) = .ok r) :
    refineLoop B decls cs (fuel + 1) extra answer =
      match r with
      | none => .ok answer
      | some σ => refineLoop B decls cs fuel (extra ++ [refuting answer]) (demote decls answer σ) := by
  rw [refineLoop]
  simp only [hr]
  cases r <;> rfl

theorem wt_extended {cs extra : List Expr} (answer : List (Option Val))
    (hcs : ∀ c ∈ cs, wtB c = true) (hex : ∀ x ∈ extra, wtB x = true) :
    ∀ c ∈ cs ++ (extra ++ [refuting answer]), wtB c = true := by
  intro c hc
  rcases List.mem_append.1 hc with hc | hc
  · exact hcs c hc
  · rcases List.mem_append.1 hc with hc | hc
    · exact hex c hc
    · simp only [List.mem_singleton] at hc
      subst hc; exact wtB_refuting answer

theorem wt_extra' {extra : List Expr} (answer : List (Option Val)) (hex : ∀ x ∈ extra, wtB x = true) :
    ∀ c ∈ extra ++ [refuting answer], wtB c = true := by
  intro c hc
  rcases List.mem_append.1 hc with hc | hc
  · exact hex c hc
  · simp only [List.mem_singleton] at hc
    subst hc; exact wtB_refuting answer

theorem terminates_aux (B : Backend) (hB : B.Correct) (decls : List VarDecl) (cs : List Expr)
    (hcs : ∀ c ∈ cs, wtB c = true) :
    ∀ (fuel : Nat) (extra : List Expr) (answer : List (Option Val)),
      Attained decls cs answer → cnt answer < fuel → (∀ x ∈ extra, wtB x = true) →
      ∃ final, refineLoop B decls cs fuel extra answer = .ok final ∧
        ∀ fuel', fuel ≤ fuel' → refineLoop B decls cs fuel' extra answer = .ok final
  | 0, _, _, _, h, _ => by omega
  | fuel + 1, extra, answer, hatt, hcnt, hex => by
    obtain ⟨r, hr, hsome, hnone⟩ := hB decls _ (wt_extended answer hcs hex)
    cases r with
    | none =>
      refine ⟨answer, by rw [refineLoop_succ _ _ _ _ _ _ hr], ?_⟩
      intro fuel' hf
      obtain ⟨f, rfl⟩ : ∃ f, fuel' = f + 1 := ⟨fuel' - 1, by omega⟩
      rw [refineLoop_succ _ _ _ _ _ _ hr]
    | some σ =>
      have hs := hsome σ rfl
      have hσ : eval σ (refuting answer) = some (.b true) :=
        (sat_append.1 hs).2 _ (by simp)
      have hlt := cnt_demote_lt hatt.kinds hσ
      obtain ⟨final, h1, h2⟩ := terminates_aux B hB decls cs hcs fuel (extra ++ [refuting answer])
        (demote decls answer σ) (hatt.demote σ) (by omega) (wt_extra' answer hex)
      refine ⟨final, by rw [refineLoop_succ _ _ _ _ _ _ hr]; exact h1, ?_⟩
      intro fuel' hf
      obtain ⟨f, rfl⟩ : ∃ f, fuel' = f + 1 := ⟨fuel' - 1, by omega⟩
      rw [refineLoop_succ _ _ _ _ _ _ hr]
      exact h2 f (by omega)

theorem terminates :
    ∀ (B : Backend), B.Correct → ∀ (decls : List VarDecl) (cs : List Expr) (answer : List (Option Val)),
    (∀ c ∈ cs, wtB c = true) → answer.length = decls.length →
    (∀ i a, answer.getD i none = some a → ∃ σ, Sat decls cs σ ∧ valOf decls σ i = some a) →
    ∀ fuel extra, (answer.filter Option.isSome).length < fuel →
      (∀ x ∈ extra, wtB x = true) →
      ∃ final, refineLoop B decls cs fuel extra answer = .ok final ∧
        ∀ fuel', fuel ≤ fuel' → refineLoop B decls cs fuel' extra answer = .ok final := by
  intro B hB decls cs answer hcs _ hatt fuel extra hcnt hex
  exact terminates_aux B hB decls cs hcs fuel extra answer hatt hcnt hex

/-- The loop invariant and what it yields at exit.  `S` is the set of positions whose demotion is
tracked (the answer keys). -/
theorem loop_spec (B : Backend) (hB : B.Correct) (decls : List VarDecl) (cs : List Expr)
    (hcs : ∀ c ∈ cs, wtB c = true) (S : Nat → Prop) :
    ∀ (fuel : Nat) (extra : List Expr) (answer : List (Option Val)),
      Attained decls cs answer → cnt answer < fuel → (∀ x ∈ extra, wtB x = true) →
      (∀ x ∈ extra, ∀ σ, Sat decls cs σ → eval σ (refuting answer) = some (.b true) →
        eval σ x = some (.b true)) →
      (∀ i, S i → answer.getD i none = none → Undetermined decls cs i) →
      ∃ final, refineLoop B decls cs fuel extra answer = .ok final ∧
        (∀ i a, final.getD i none = some a → CommonValue decls cs i a) ∧
        (∀ i, S i → final.getD i none = none → Undetermined decls cs i)
  | 0, _, _, _, h, _, _, _ => by omega
  | fuel + 1, extra, answer, hatt, hcnt, hex, himp, hund => by
    obtain ⟨r, hr, hsome, hnone⟩ := hB decls _ (wt_extended answer hcs hex)
    cases r with
    | none =>
      refine ⟨answer, by rw [refineLoop_succ _ _ _ _ _ _ hr], ?_, hund⟩
      intro i a hi σ hσ
      apply Classical.byContradiction
      intro hne
      have hrf : eval σ (refuting answer) = some (.b true) :=
        (eval_refuting hatt.kinds σ).2.2 ⟨i, a, hi, hne⟩
      apply hnone rfl
      refine ⟨σ, sat_append.2 ⟨hσ, ?_⟩⟩
      intro x hx
      rcases List.mem_append.1 hx with hx | hx
      · exact himp x hx σ hσ hrf
      · simp only [List.mem_singleton] at hx
        subst hx; exact hrf
    | some σ =>
      have hs := hsome σ rfl
      have hσcs : Sat decls cs σ := (sat_append.1 hs).1
      have hσ : eval σ (refuting answer) = some (.b true) :=
        (sat_append.1 hs).2 _ (by simp)
      have hlt := cnt_demote_lt hatt.kinds hσ
      have hatt' := hatt.demote σ
      have hmono : ∀ σ', eval σ' (refuting (demote decls answer σ)) = some (.b true) →
          eval σ' (refuting answer) = some (.b true) := by
        intro σ' h'
        obtain ⟨i, a, hi, hne⟩ := (eval_refuting hatt'.kinds σ').2.1 h'
        exact (eval_refuting hatt.kinds σ').2.2 ⟨i, a, (demote_some hi).1, hne⟩
      obtain ⟨final, h1, h2, h3⟩ := loop_spec B hB decls cs hcs S fuel (extra ++ [refuting answer])
        (demote decls answer σ) hatt' (by omega) (wt_extra' answer hex)
        (by
          intro x hx σ' hσ' h'
          have h'' := hmono σ' h'
          rcases List.mem_append.1 hx with hx | hx
          · exact himp x hx σ' hσ' h''
          · simp only [List.mem_singleton] at hx
            subst hx; exact h'')
        (by
          intro i hS hi
          rcases demote_none hi with h0 | ⟨a, ha, hne⟩
          · exact hund i hS h0
          · obtain ⟨σ₀, hσ₀, hv⟩ := hatt i a ha
            exact ⟨σ₀, σ, hσ₀, hσcs, by rw [hv]; exact fun h => hne h.symm⟩)
      exact ⟨final, by rw [refineLoop_succ _ _ _ _ _ _ hr]; exact h1, h2, h3⟩

/-! ### `solve()` -/

theorem valOf_isSome {decls : List VarDecl} (σ : Asg) {i : Nat} (h : i < decls.length) :
    valOf decls σ i ≠ none := by
  unfold valOf
  rw [List.getElem?_eq_getElem h]
  cases decls[i] <;> simp

theorem publish_getD (decls : List VarDecl) (σ : Asg) (i : Nat) :
    (publish decls σ).getD i none = if i < decls.length then valOf decls σ i else none := by
  unfold publish
  rw [getD_map_range]

theorem exact :
    ∀ (B : Backend), B.Correct → ∀ (st : SolverState), (∀ c ∈ st.cs, wtB c = true) →
    st.isKey.length = st.decls.length →
    ((solveRefine B st).2 = .verdict true ∨ (solveRefine B st).2 = .verdict false) ∧
    ((solveRefine B st).2 = .verdict true ↔ Satisfiable st.decls st.cs) ∧
    ((solveRefine B st).2 = .verdict true →
      ∀ i, i < st.decls.length → st.isKey.getD i false = true →
        (∀ v, (solveRefine B st).1.sol.getD i none = some v ↔ CommonValue st.decls st.cs i v) ∧
        ((solveRefine B st).1.sol.getD i none = none ↔ Undetermined st.decls st.cs i)) := by
  intro B hB st hcs _
  obtain ⟨r, hr, hsome, hnone⟩ := hB st.decls st.cs hcs
  cases r with
  | none =>
    have hout : solveRefine B st = (st, .verdict false) := by
      unfold solveRefine; rw [hr]
    rw [hout]
    refine ⟨.inr rfl, ?_, ?_⟩
    · constructor
      · intro h; cases h
      · intro h; exact absurd h (hnone rfl)
    · intro h; cases h
  | some σ =>
    have hσ := hsome σ rfl
    let answer : List (Option Val) := (List.range st.decls.length).map fun i =>
      if st.isKey.getD i false then (publish st.decls σ).getD i none else none
    have hans : ∀ i, answer.getD i none =
        if i < st.decls.length then (if st.isKey.getD i false then valOf st.decls σ i else none) else none := by
      intro i
      show ((List.range st.decls.length).map _).getD i none = _
      rw [getD_map_range]
      by_cases hi : i < st.decls.length
      · simp only [hi, if_true, publish_getD]
      · simp only [hi, if_false]
    have hatt : Attained st.decls st.cs answer := by
      intro i a hi
      rw [hans] at hi
      refine ⟨σ, hσ, ?_⟩
      split at hi
      · split at hi
        · exact hi
        · cases hi
      · cases hi
    have hcnt : cnt answer < st.decls.length + 1 := by
      have := cnt_le_length answer
      have hl : answer.length = st.decls.length := by simp [answer]
      omega
    obtain ⟨final, hfin, hcv, hud⟩ := loop_spec B hB st.decls st.cs hcs
      (fun i => i < st.decls.length ∧ st.isKey.getD i false = true) (st.decls.length + 1) [] answer
      hatt hcnt (by simp) (by simp)
      (by
        rintro i ⟨hi, hk⟩ h0
        rw [hans] at h0
        simp only [hi, hk, if_true] at h0
        exact absurd h0 (valOf_isSome σ hi))
    have hout : solveRefine B st =
        ({ st with sol := (List.range st.decls.length).map fun i =>
            if st.isKey.getD i false then final.getD i none else (publish st.decls σ).getD i none },
          .verdict true) := by
      unfold solveRefine
      rw [hr]
      simp only
      rw [hfin]
    rw [hout]
    refine ⟨.inl rfl, ⟨fun _ => ⟨σ, hσ⟩, fun _ => rfl⟩, ?_⟩
    intro _ i hi hk
    have hsol : ((List.range st.decls.length).map fun i =>
        if st.isKey.getD i false then final.getD i none else (publish st.decls σ).getD i none).getD i none
        = final.getD i none := by
      rw [getD_map_range]; simp only [hi, hk, if_true]
    simp only [hsol]
    have hcv' := hcv i
    have hud' := hud i ⟨hi, hk⟩
    constructor
    · intro v
      constructor
      · exact hcv' v
      · intro hc
        cases hf : final.getD i none with
        | none =>
          obtain ⟨σ₁, σ₂, h₁, h₂, hne⟩ := hud' hf
          exact absurd ((hc σ₁ h₁).trans (hc σ₂ h₂).symm) hne
        | some v' =>
          have := hcv' v' hf σ hσ
          rw [hc σ hσ] at this
          exact this.symm
    · constructor
      · exact hud'
      · rintro ⟨σ₁, σ₂, h₁, h₂, hne⟩
        cases hf : final.getD i none with
        | none => rfl
        | some v' =>
          have hc := hcv' v' hf
          exact absurd ((hc σ₁ h₁).trans (hc σ₂ h₂).symm) hne

end Cspuz.Proofs.C02Loop
