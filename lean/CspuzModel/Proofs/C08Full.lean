import CspuzModel.Proofs.C08
import CspuzModel.Proofs.C08Planar
import CspuzModel.Proofs.EvalLemmas
/-! The full array-form statement of C08, from the line case, the diagonal encoding and the planar lemma. -/
namespace Cspuz.Proofs.C08Full
open Cspuz Cspuz.Spec

theorem grid_full (h w : Nat) (a : List Expr) (base : Nat) (prim : Bool) (p : Prog) (σ : Asg)
    (hlen : a.length = h * w) (ha : BoolArgs base a)
    (hp : notSegmentingGrid h w a base prim = .ok p) :
    Realizable base p σ ↔ NotSegmenting (Graph.grid h w) (truthAt σ a) := by
  by_cases hline : h = 1 ∨ w = 1
  · exact Cspuz.Proofs.C08.grid_line h w a base prim p σ hline hlen ha hp
  · have h1 : h ≠ 1 := fun e => hline (Or.inl e)
    have w1 : w ≠ 1 := fun e => hline (Or.inr e)
    have hd : notSegmentingGridDiag h w a base = .ok p := by
      unfold notSegmentingGrid at hp
      have : (h == 1 || w == 1) = false := by simp [h1, w1]
      simpa [this] using hp
    -- boards with a zero dimension: the diagonal generator fails (`int_array(…, 0, -1)`), so `hd` is impossible
    by_cases hh : 2 ≤ h
    · by_cases hw : 2 ≤ w
      · rw [Cspuz.Proofs.C08.grid_diag_exact h w a base p σ hh hw hlen ha hd]
        unfold NotSegmenting
        constructor
        · rintro ⟨hna, hf⟩
          exact ⟨hna, (Cspuz.Proofs.C08Planar.planar h w _ hh hw hna).1 hf⟩
        · rintro ⟨hna, hc⟩
          exact ⟨hna, (Cspuz.Proofs.C08Planar.planar h w _ hh hw hna).2 hc⟩
      · have w0 : w = 0 := by omega
        subst w0
        exfalso
        simp only [notSegmentingGridDiag, notAdjacentGrid, intArrayDecls, pyDiv] at hd
        obtain ⟨_, _, hd⟩ := Cspuz.Proofs.bind_eq_ok.1 hd
        simp [bind, Except.bind] at hd
    · have h0 : h = 0 := by omega
      subst h0
      exfalso
      simp only [notSegmentingGridDiag, notAdjacentGrid, intArrayDecls, pyDiv] at hd
      obtain ⟨_, _, hd⟩ := Cspuz.Proofs.bind_eq_ok.1 hd
      simp [bind, Except.bind] at hd

end Cspuz.Proofs.C08Full
