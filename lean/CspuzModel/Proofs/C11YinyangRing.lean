/-
  C11 / Yin-Yang — `RingOk` from `DegLeTwo` (outside vertex of the lattice graph has degree ≤ 2).

  Every colour change between consecutive ring cells `i`, `i+1` yields an outline lattice point
  `bpt h w i` adjacent to the outside vertex `none`; `bpt` is injective on the switch positions, so
  three switches would give three distinct neighbours of `none`.
-/
import Mathlib.Combinatorics.SimpleGraph.Basic
import Mathlib.Data.List.Nodup
import Mathlib.Tactic.SplitIfs
import CspuzModel.Proofs.C11YinyangDefs
namespace Cspuz.Proofs.C11YinyangRing
open Cspuz.Proofs.C11YinyangDefs

/-- the outline lattice point between ring entry `i` and the next ring entry -/
def bpt (h w i : Nat) : Nat × Nat :=
  if i < h - 1 then (i + 1, 0)
  else if i < (h - 1) + (w - 1) then (h, i - (h - 1) + 1)
  else if i < 2 * (h - 1) + (w - 1) then (h - 1 - (i - ((h - 1) + (w - 1))), w)
  else (0, w - 1 - (i - (2 * (h - 1) + (w - 1))))

theorem switch_ne {h w : Nat} {g : Nat → Nat → Bool} {i a b c d : Nat}
    (hs : ringSwitch h w g i = true) (h1 : ringCell h w i = (a, b))
    (h2 : ringCell h w ((i + 1) % ringLen h w) = (c, d)) : g a b ≠ g c d := by
  unfold ringSwitch at hs
  rw [h1, h2] at hs
  simpa using hs

/-! ### the four kinds of outline points -/

theorem outL {h w : Nat} {g : Nat → Nat → Bool} {a : Nat} (h1 : 1 ≤ a) (h2 : a < h) (h3 : 0 < w)
    (hg : g (a - 1) 0 ≠ g a 0) : out h w g (a, 0) := by
  unfold out segR
  exact Or.inl ⟨rfl, h1, h2, h3, hg⟩

theorem outB {h w : Nat} {g : Nat → Nat → Bool} {b : Nat} (h0 : 1 ≤ h) (h1 : 1 ≤ b) (h2 : b < w)
    (hg : g (h - 1) (b - 1) ≠ g (h - 1) b) : out h w g (h, b) := by
  unfold out segD
  exact Or.inr (Or.inr (Or.inr ⟨rfl, h0, h1, h2, Nat.sub_lt h0 Nat.one_pos, hg⟩))

theorem outR {h w : Nat} {g : Nat → Nat → Bool} {a : Nat} (h0 : 1 ≤ w) (h1 : 1 ≤ a) (h2 : a < h)
    (hg : g (a - 1) (w - 1) ≠ g a (w - 1)) : out h w g (a, w) := by
  unfold out segR
  exact Or.inr (Or.inl ⟨rfl, h0, h1, h2, Nat.sub_lt h0 Nat.one_pos, hg⟩)

theorem outT {h w : Nat} {g : Nat → Nat → Bool} {b : Nat} (h0 : 0 < h) (h1 : 1 ≤ b) (h2 : b < w)
    (hg : g 0 (b - 1) ≠ g 0 b) : out h w g (0, b) := by
  unfold out segD
  exact Or.inr (Or.inr (Or.inl ⟨rfl, h1, h2, h0, hg⟩))

/-! ### closed forms of the ring cells on the four ranges -/

theorem cellA_cur {h w i : Nat} (hi : i < h - 1) : ringCell h w i = (i, 0) := by
  unfold ringCell
  rw [if_pos (by omega)]

theorem cellA_next {h w i : Nat} (hw : 1 ≤ w) (hi : i < h - 1) :
    ringCell h w ((i + 1) % ringLen h w) = (i + 1, 0) := by
  have hlt : i + 1 < ringLen h w := by unfold ringLen; split_ifs <;> omega
  rw [Nat.mod_eq_of_lt hlt]
  unfold ringCell
  rw [if_pos (by omega)]

theorem cellB_cur {h w i : Nat} (hh : 1 ≤ h) (h1 : h - 1 ≤ i) (h2 : i < (h - 1) + (w - 1)) :
    ringCell h w i = (h - 1, i - (h - 1) + 1 - 1) := by
  unfold ringCell
  split_ifs <;> rw [Prod.mk.injEq] <;> omega

theorem cellB_next {h w i : Nat} (hh : 1 ≤ h) (h1 : h - 1 ≤ i) (h2 : i < (h - 1) + (w - 1)) :
    ringCell h w ((i + 1) % ringLen h w) = (h - 1, i - (h - 1) + 1) := by
  have hlt : i + 1 < ringLen h w := by unfold ringLen; split_ifs <;> omega
  rw [Nat.mod_eq_of_lt hlt]
  unfold ringCell
  split_ifs <;> rw [Prod.mk.injEq] <;> omega

theorem cellC_cur {h w i : Nat} (hh : 1 ≤ h) (hw : 1 ≤ w) (h1 : (h - 1) + (w - 1) ≤ i)
    (h2 : i < 2 * (h - 1) + (w - 1)) :
    ringCell h w i = (h - 1 - (i - ((h - 1) + (w - 1))), w - 1) := by
  unfold ringCell
  split_ifs <;> rw [Prod.mk.injEq] <;> omega

theorem cellC_next {h w i : Nat} (hh : 1 ≤ h) (hw : 1 ≤ w) (h1 : (h - 1) + (w - 1) ≤ i)
    (h2 : i < 2 * (h - 1) + (w - 1)) :
    ringCell h w ((i + 1) % ringLen h w) = (h - 1 - (i - ((h - 1) + (w - 1))) - 1, w - 1) := by
  have hlt : i + 1 < ringLen h w := by unfold ringLen; split_ifs <;> omega
  rw [Nat.mod_eq_of_lt hlt]
  unfold ringCell
  split_ifs <;> rw [Prod.mk.injEq] <;> omega

theorem cellD_cur {h w i : Nat} (hh : 1 ≤ h) (hw : 1 ≤ w) (h1 : 2 * (h - 1) + (w - 1) ≤ i)
    (h2 : i < 2 * (h - 1) + 2 * (w - 1)) :
    ringCell h w i = (0, w - 1 - (i - (2 * (h - 1) + (w - 1)))) := by
  unfold ringCell
  split_ifs <;> rw [Prod.mk.injEq] <;> omega

theorem cellD_next {h w i : Nat} (hh : 1 ≤ h) (hw : 1 ≤ w) (h1 : 2 * (h - 1) + (w - 1) ≤ i)
    (h2 : i < 2 * (h - 1) + 2 * (w - 1)) :
    ringCell h w ((i + 1) % ringLen h w) = (0, w - 1 - (i - (2 * (h - 1) + (w - 1))) - 1) := by
  have hlen : ringLen h w = 2 * h + 2 * w - 4 := by unfold ringLen; rw [if_neg (by omega)]
  by_cases hlt : i + 1 < ringLen h w
  · rw [Nat.mod_eq_of_lt hlt]
    rw [hlen] at hlt
    unfold ringCell
    split_ifs <;> rw [Prod.mk.injEq] <;> omega
  · have he : i + 1 = ringLen h w := by rw [hlen] at hlt ⊢; omega
    rw [he, Nat.mod_self]
    unfold ringCell
    rw [if_pos (by omega)]
    rw [Prod.mk.injEq]
    omega

/-! ### (a) a switch gives a neighbour of the outside vertex -/

theorem out_of_switch {h w : Nat} (hh : 1 ≤ h) (hw : 1 ≤ w) {g : Nat → Nat → Bool} {i : Nat}
    (hi : i < 2 * (h - 1) + 2 * (w - 1)) (hs : ringSwitch h w g i = true) :
    out h w g (bpt h w i) := by
  by_cases hA : i < h - 1
  · have hne := switch_ne hs (cellA_cur hA) (cellA_next hw hA)
    have e : bpt h w i = (i + 1, 0) := by unfold bpt; rw [if_pos hA]
    rw [e]
    exact outL (by omega) (by omega) (by omega) (by simpa using hne)
  by_cases hB : i < (h - 1) + (w - 1)
  · have hne := switch_ne hs (cellB_cur hh (by omega) hB) (cellB_next hh (by omega) hB)
    have e : bpt h w i = (h, i - (h - 1) + 1) := by unfold bpt; rw [if_neg hA, if_pos hB]
    rw [e]
    exact outB hh (by omega) (by omega) hne
  by_cases hC : i < 2 * (h - 1) + (w - 1)
  · have hne := switch_ne hs (cellC_cur hh hw (by omega) hC) (cellC_next hh hw (by omega) hC)
    have e : bpt h w i = (h - 1 - (i - ((h - 1) + (w - 1))), w) := by
      unfold bpt; rw [if_neg hA, if_neg hB, if_pos hC]
    rw [e]
    exact outR hw (by omega) (by omega) (Ne.symm hne)
  · have hne := switch_ne hs (cellD_cur hh hw (by omega) hi) (cellD_next hh hw (by omega) hi)
    have e : bpt h w i = (0, w - 1 - (i - (2 * (h - 1) + (w - 1)))) := by
      unfold bpt; rw [if_neg hA, if_neg hB, if_neg hC]
    rw [e]
    exact outT (by omega) (by omega) (by omega) (Ne.symm hne)

/-! ### (b) injectivity of `bpt` -/

theorem bpt_inj {h w : Nat} (hh : 1 ≤ h) (hw : 1 ≤ w) {i j : Nat}
    (hi : i < 2 * (h - 1) + 2 * (w - 1)) (hj : j < 2 * (h - 1) + 2 * (w - 1))
    (e : bpt h w i = bpt h w j) : i = j := by
  unfold bpt at e
  split_ifs at e <;> simp only [Prod.mk.injEq] at e <;> omega

/-- for `w = 1` the last ring entry is the top cell again: no switch there -/
theorem switch_bound {h w : Nat} (hh : 1 ≤ h) (hw : 1 ≤ w) {g : Nat → Nat → Bool} {i : Nat}
    (hi : i < ringLen h w) (hs : ringSwitch h w g i = true) :
    i < 2 * (h - 1) + 2 * (w - 1) := by
  by_cases h1 : w = 1
  · subst h1
    have hlen : ringLen h 1 = 2 * h - 1 := by unfold ringLen; rw [if_pos rfl]
    rw [hlen] at hi
    by_contra hc
    have he : i = 2 * h - 2 := by omega
    have hn : i + 1 = ringLen h 1 := by rw [hlen]; omega
    have c1 : ringCell h 1 i = (0, 0) := by
      unfold ringCell
      split_ifs <;> rw [Prod.mk.injEq] <;> omega
    have c2 : ringCell h 1 ((i + 1) % ringLen h 1) = (0, 0) := by
      rw [hn, Nat.mod_self]
      unfold ringCell
      rw [if_pos (by omega)]
    exact switch_ne hs c1 c2 rfl
  · have hlen : ringLen h w = 2 * h + 2 * w - 4 := by unfold ringLen; rw [if_neg h1]
    rw [hlen] at hi
    omega

/-! ### (c) three distinct elements of a long filtered range -/

theorem three_of_filter (n : Nat) (s : Nat → Bool)
    (hl : 3 ≤ ((List.range n).filter s).length) :
    ∃ a b c, a ≠ b ∧ a ≠ c ∧ b ≠ c ∧ (a < n ∧ s a = true) ∧ (b < n ∧ s b = true) ∧
      (c < n ∧ s c = true) := by
  have hnd : ((List.range n).filter s).Nodup := List.Nodup.filter _ List.nodup_range
  have hmem : ∀ x ∈ (List.range n).filter s, x < n ∧ s x = true := by
    intro x hx
    rw [List.mem_filter, List.mem_range] at hx
    exact hx
  generalize (List.range n).filter s = l at hl hnd hmem
  rcases l with _ | ⟨a, _ | ⟨b, _ | ⟨c, t⟩⟩⟩
  · simp at hl
  · simp at hl
  · simp at hl
  · refine ⟨a, b, c, ?_, ?_, ?_, hmem a (by simp), hmem b (by simp), hmem c (by simp)⟩
    · intro e; subst e; simp at hnd
    · intro e; subst e; simp at hnd
    · intro e; subst e; simp at hnd

/-! ### the theorem -/

theorem ringOk_of_degLeTwo (h w : Nat) (hh : 1 ≤ h) (hw : 1 ≤ w) (g : Nat → Nat → Bool)
    (hd : DegLeTwo h w g) : RingOk h w g := by
  unfold RingOk
  by_contra hc
  have hl : 3 ≤ ((List.range (ringLen h w)).filter (ringSwitch h w g)).length := by omega
  obtain ⟨a, b, c, hab, hac, hbc, ⟨ha, sa⟩, ⟨hb, sb⟩, ⟨hc', sc⟩⟩ := three_of_filter _ _ hl
  have ba := switch_bound hh hw ha sa
  have bb := switch_bound hh hw hb sb
  have bc := switch_bound hh hw hc' sc
  have oa : (lat h w g).Adj none (some (bpt h w a)) := out_of_switch hh hw ba sa
  have ob : (lat h w g).Adj none (some (bpt h w b)) := out_of_switch hh hw bb sb
  have oc : (lat h w g).Adj none (some (bpt h w c)) := out_of_switch hh hw bc sc
  rcases hd none _ _ _ oa ob oc with e | e | e
  · exact hab (bpt_inj hh hw ba bb (Option.some.inj e))
  · exact hac (bpt_inj hh hw ba bc (Option.some.inj e))
  · exact hbc (bpt_inj hh hw bb bc (Option.some.inj e))

end Cspuz.Proofs.C11YinyangRing
