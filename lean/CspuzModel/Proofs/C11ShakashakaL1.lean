/-
  C11 / shakashaka — step L1: the state of a cell (`St`) and the bridging lemmas: the program-side tests
  (`diagB`, `emptyB`, `angleB`) and the spec-side test (`White`) are table look-ups on the states of the four cells
  around a grid point.
-/
import CspuzModel.Proofs.C11ShakashakaDefs
import Mathlib.Tactic.SplitIfs
namespace Cspuz.Proofs.C11ShakashakaL1
open Cspuz Cspuz.Spec Cspuz.Puzzles.Shakashaka Cspuz.Spec.Shakashaka Cspuz.Proofs.C11ShakashakaDefs

/-- The state of a cell: `off` = not a white cell of the board (black, or outside), `vk` = white with value `k`. -/
inductive St
  | off | v0 | v1 | v2 | v3 | v4
  deriving DecidableEq, Repr

/-- The answer value of a state (`off` reads as 0: black cells hold 0). -/
def St.sv : St → Int
  | .off => 0 | .v0 => 0 | .v1 => 1 | .v2 => 2 | .v3 => 3 | .v4 => 4

/-- The state of the cell `(cy, cx)` (white cells with a value outside `0..4` count as `off`: no test sees them). -/
def st (pb : Problem) (g : Nat → Nat → Int) (cy cx : Int) : St :=
  if whiteCell pb cy cx = true then
    if gv g cy cx = 0 then .v0
    else if gv g cy cx = 1 then .v1
    else if gv g cy cx = 2 then .v2
    else if gv g cy cx = 3 then .v3
    else if gv g cy cx = 4 then .v4
    else .off
  else .off

/-- The states of the four cells around the grid point `(y, x)`. -/
def cs (pb : Problem) (g : Nat → Nat → Int) (y x : Int) (j : Nat) : St :=
  st pb g (qc y x j).1 (qc y x j).2

/-- Table for `diagonals[i]`. -/
def dg (s : St) (i : Nat) : Bool := decide (s.sv = dval i)
/-- Table for `is_empty`. -/
def em (s : St) : Bool := decide (s = .v0)
/-- Table for `is_white_angle`. -/
def an (s : St) (j : Nat) : Bool := decide (s ≠ .off) && (decide (s.sv = 0) || decide (s.sv = wval j))
/-- Table for `White`. -/
def wq (s : St) (q : Fin 4) : Bool := decide (s ≠ .off) && whiteQ s.sv q

theorem st_spec (pb : Problem) (g : Nat → Nat → Int) (cy cx : Int) :
    (whiteCell pb cy cx = false ∧ st pb g cy cx = .off) ∨
    (whiteCell pb cy cx = true ∧ gv g cy cx = (st pb g cy cx).sv ∧ st pb g cy cx ≠ .off) ∨
    (whiteCell pb cy cx = true ∧ st pb g cy cx = .off ∧ (gv g cy cx < 0 ∨ 4 < gv g cy cx)) := by
  unfold st
  by_cases hw : whiteCell pb cy cx = true
  · simp only [hw, if_true]
    split_ifs with h0 h1 h2 h3 h4 <;> simp [St.sv, *]
    omega
  · simp only [hw]
    simp at hw
    simp

theorem dval_range (i : Nat) : 1 ≤ dval i ∧ dval i ≤ 4 := by
  unfold dval; split <;> omega

theorem wval_range (j : Nat) : 1 ≤ wval j ∧ wval j ≤ 4 := by
  unfold wval; split <;> omega

theorem inB_iff (pb : Problem) (cy cx : Int) :
    inB pb cy cx = true ↔ 0 ≤ cy ∧ cy < pb.height ∧ 0 ≤ cx ∧ cx < pb.width := by
  simp [inB, and_assoc]

theorem whiteCell_iff (pb : Problem) (cy cx : Int) :
    whiteCell pb cy cx = true ↔
      0 ≤ cy ∧ cy < pb.height ∧ 0 ≤ cx ∧ cx < pb.width ∧ val pb cy.toNat cx.toNat = none := by
  simp [whiteCell, inB_iff, and_assoc, Option.isNone_iff_eq_none]

/-- A black cell of the board holds 0. -/
theorem black_zero (pb : Problem) (g : Nat → Nat → Int) (hcl : CluesOK pb g) (cy cx : Int)
    (hi : inB pb cy cx = true) (hw : whiteCell pb cy cx = false) : gv g cy cx = 0 := by
  rw [inB_iff] at hi
  obtain ⟨h1, h2, h3, h4⟩ := hi
  have hv : val pb cy.toNat cx.toNat ≠ none := by
    intro h
    have : whiteCell pb cy cx = true := (whiteCell_iff pb cy cx).2 ⟨h1, h2, h3, h4, h⟩
    rw [hw] at this; exact Bool.noConfusion this
  obtain ⟨v, hv'⟩ := Option.ne_none_iff_exists'.1 hv
  exact (hcl.2 cy.toNat (by omega) cx.toNat (by omega) v hv').1

theorem diag_eq (pb : Problem) (g : Nat → Nat → Int) (hcl : CluesOK pb g) (cy cx : Int) (i : Nat) :
    (inB pb cy cx && decide (gv g cy cx = dval i)) = dg (st pb g cy cx) i := by
  have hd := dval_range i
  have h0 : decide ((0 : Int) = dval i) = false := decide_eq_false (by omega)
  unfold dg
  rcases st_spec pb g cy cx with ⟨hw, hs⟩ | ⟨hw, hs, _⟩ | ⟨hw, hs, hr⟩
  · rw [hs]
    show _ = decide ((0 : Int) = dval i)
    rw [h0]
    cases hi : inB pb cy cx
    · rfl
    · have := black_zero pb g hcl cy cx hi hw
      rw [this, h0]; rfl
  · have hi : inB pb cy cx = true := by
      simp only [whiteCell, Bool.and_eq_true] at hw; exact hw.1
    simp [hi, hs]
  · rw [hs]
    show _ = decide ((0 : Int) = dval i)
    rw [h0]
    have : decide (gv g cy cx = dval i) = false := decide_eq_false (by omega)
    rw [this, Bool.and_false]

theorem empty_eq (pb : Problem) (g : Nat → Nat → Int) (cy cx : Int) :
    (whiteCell pb cy cx && decide (gv g cy cx = 0)) = em (st pb g cy cx) := by
  unfold em
  rcases st_spec pb g cy cx with ⟨hw, hs⟩ | ⟨hw, hs, hn⟩ | ⟨hw, hs, hr⟩
  · simp [hw, hs]
  · rw [hw, hs]
    cases h : st pb g cy cx <;> simp_all [St.sv]
  · rw [hw, hs]
    simp
    omega

theorem angle_eq (pb : Problem) (g : Nat → Nat → Int) (cy cx : Int) (j : Nat) :
    (whiteCell pb cy cx && (decide (gv g cy cx = 0) || decide (gv g cy cx = wval j))) =
      an (st pb g cy cx) j := by
  have hd := wval_range j
  unfold an
  rcases st_spec pb g cy cx with ⟨hw, hs⟩ | ⟨hw, hs, hn⟩ | ⟨hw, hs, hr⟩
  · simp [hw, hs]
  · simp [hw, hs, hn]
  · rw [hw, hs]
    simp
    omega

theorem whiteQ_out (v : Int) (q : Fin 4) (h : v < 0 ∨ 4 < v) : whiteQ v q = false := by
  unfold whiteQ
  split_ifs <;> first | omega | rfl

theorem white_iff (pb : Problem) (g : Nat → Nat → Int) (cy cx : Int) (q : Fin 4) :
    White pb g ⟨cy, cx, q⟩ ↔ wq (st pb g cy cx) q = true := by
  unfold White wq
  have hwc := whiteCell_iff pb cy cx
  simp only
  rcases st_spec pb g cy cx with ⟨hw, hs⟩ | ⟨hw, hs, hn⟩ | ⟨hw, hs, hr⟩
  · rw [hs]
    constructor
    · rintro ⟨h1, h2, h3, h4, h5, _⟩
      have := hwc.2 ⟨h1, h2, h3, h4, h5⟩
      rw [hw] at this; exact Bool.noConfusion this
    · intro h; simp at h
  · obtain ⟨h1, h2, h3, h4, h5⟩ := hwc.1 hw
    have hg : g cy.toNat cx.toNat = (st pb g cy cx).sv := hs
    simp [h1, h2, h3, h4, h5, hg, hn]
  · rw [hs]
    have hg : whiteQ (g cy.toNat cx.toNat) q = false := whiteQ_out _ q hr
    simp [hg]

/-- The eight octants sit in the cells `qc y x (i / 2)`. -/
theorem octant_eq (y x : Int) (i : Fin 8) :
    octant y x i = ⟨(qc y x (i.val / 2)).1, (qc y x (i.val / 2)).2, (octant 0 0 i).q⟩ := by
  have h0 : octant y x 0 = ⟨(qc y x ((0 : Fin 8).val / 2)).1, (qc y x ((0 : Fin 8).val / 2)).2, (octant 0 0 0).q⟩ := rfl
  have h1 : octant y x 1 = ⟨(qc y x ((1 : Fin 8).val / 2)).1, (qc y x ((1 : Fin 8).val / 2)).2, (octant 0 0 1).q⟩ := rfl
  have h2 : octant y x 2 = ⟨(qc y x ((2 : Fin 8).val / 2)).1, (qc y x ((2 : Fin 8).val / 2)).2, (octant 0 0 2).q⟩ := rfl
  have h3 : octant y x 3 = ⟨(qc y x ((3 : Fin 8).val / 2)).1, (qc y x ((3 : Fin 8).val / 2)).2, (octant 0 0 3).q⟩ := rfl
  have h4 : octant y x 4 = ⟨(qc y x ((4 : Fin 8).val / 2)).1, (qc y x ((4 : Fin 8).val / 2)).2, (octant 0 0 4).q⟩ := rfl
  have h5 : octant y x 5 = ⟨(qc y x ((5 : Fin 8).val / 2)).1, (qc y x ((5 : Fin 8).val / 2)).2, (octant 0 0 5).q⟩ := rfl
  have h6 : octant y x 6 = ⟨(qc y x ((6 : Fin 8).val / 2)).1, (qc y x ((6 : Fin 8).val / 2)).2, (octant 0 0 6).q⟩ := rfl
  have h7 : octant y x 7 = ⟨(qc y x ((7 : Fin 8).val / 2)).1, (qc y x ((7 : Fin 8).val / 2)).2, (octant 0 0 7).q⟩ := rfl
  match i with
  | ⟨0, _⟩ => exact h0
  | ⟨1, _⟩ => exact h1
  | ⟨2, _⟩ => exact h2
  | ⟨3, _⟩ => exact h3
  | ⟨4, _⟩ => exact h4
  | ⟨5, _⟩ => exact h5
  | ⟨6, _⟩ => exact h6
  | ⟨7, _⟩ => exact h7
  | ⟨n + 8, h⟩ => exact absurd h (by omega)

/-- Table for the whiteness of the octant `i`. -/
def ow (c : Nat → St) (i : Fin 8) : Bool := wq (c (i.val / 2)) (octant 0 0 i).q

theorem white_octant (pb : Problem) (g : Nat → Nat → Int) (y x : Int) (i : Fin 8) :
    White pb g (octant y x i) ↔ ow (cs pb g y x) i = true := by
  rw [octant_eq, white_iff]; rfl

theorem white_octant_cell (pb : Problem) (g : Nat → Nat → Int) (y x : Int) (i : Fin 8) (q : Fin 4) :
    White pb g ⟨(octant y x i).y, (octant y x i).x, q⟩ ↔ wq (cs pb g y x (i.val / 2)) q = true := by
  rw [octant_eq, white_iff]; rfl

theorem diagB_eq (pb : Problem) (g : Nat → Nat → Int) (hcl : CluesOK pb g) (y x : Int) (i : Nat) :
    diagB pb g y x i = dg (cs pb g y x (i / 2)) i := diag_eq pb g hcl _ _ i

theorem emptyB_eq (pb : Problem) (g : Nat → Nat → Int) (y x : Int) (j : Nat) :
    emptyB pb g y x j = em (cs pb g y x j) := empty_eq pb g _ _

theorem angleB_eq (pb : Problem) (g : Nat → Nat → Int) (y x : Int) (j : Nat) :
    angleB pb g y x j = an (cs pb g y x j) j := angle_eq pb g _ _ j

end Cspuz.Proofs.C11ShakashakaL1
