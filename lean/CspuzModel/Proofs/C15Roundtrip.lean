/-
  C15: round trip of problem values (`roundtrip`), and the bitmap layer of Rooms as an instance (`borders_roundtrip`).
-/
import CspuzModel.Proofs.C15Main
import CspuzModel.Spec.Rooms
set_option linter.unusedVariables false
namespace Cspuz.Ser
open Cspuz
theorem exact_of_single : ∀ c, single c = true → exact c = true := by
  intro c
  induction c using Comb.ind with
  | oneOf cs ih =>
    intro h
    simp only [single] at h
    simp only [exact]
    induction cs with
    | nil => rfl
    | cons c cs ihc =>
      simp only [singleAll, Bool.and_eq_true] at h
      simp only [exactAll, Bool.and_eq_true]
      exact ⟨ih c (by simp) h.1, ihc (fun c' hc' => ih c' (List.mem_cons_of_mem _ hc')) h.2⟩
  | multiDigit b k => intro h; simp [single] at h
  | _ => intro _; simp [exact]

/-- **Round trip of problem values** -/
theorem roundtrip (c : Comb) (h w : Nat) (v : PyVal) (hw : wf c = true) (hn : noRooms c = true)
    (hs : single c = true) (hd : Dom c h w v) :
    ∃ t, serProblem c v h w = .ok t ∧ de c ⟨h, w⟩ t 0 = .ok (t.length, [v]) ∧ deProblem c t h w = .ok v := by
  obtain ⟨hg, t, ht⟩ := hd
  obtain ⟨items, hde, hpre, hex⟩ := comb_local ⟨h, w⟩ c hw hn [v] 0 1 t ht hg [] []
    (fun _ c hc => by simp at hc)
  have hitems : items = [v] := by
    have := hex (Or.inl (exact_of_single c hs))
    simpa [window] using this
  subst hitems
  simp only [List.nil_append, List.append_nil, List.length_nil] at hde
  refine ⟨t, ?_, hde, ?_⟩
  · simp [serProblem, ht]
  · simp [deProblem, hde]

/-! ### the bitmap layer of Rooms is an instance -/

def bordersTerm (h w : Nat) : Comb :=
  .tupl [.grid (.multiDigit 2 5) (some (h, w - 1)), .grid (.multiDigit 2 5) (some (h - 1, w))]

theorem bordersSer_eq (h w : Nat) (env : Env) : ser (bordersTerm h w) env = bordersSer h w := by
  simp [bordersTerm, ser, serL, bordersSer, gridDims]

theorem bordersDe_eq (h w : Nat) (env : Env) : de (bordersTerm h w) env = bordersDe h w := by
  simp [bordersTerm, de, deL, bordersDe, gridDims]

theorem bordersTerm_wf (h w : Nat) : wf (bordersTerm h w) = true ∧ noRooms (bordersTerm h w) = true := by
  simp [bordersTerm, wf, wfAll, exactAll, exact, followOk, needsND, productive, noRooms, noRoomsL, startsND]


/-- a list of bits -/
def Bits (l : List PyVal) : Prop := ∀ b ∈ l, b = .int 0 ∨ b = .int 1

theorem mdPack_bits : ∀ (k : Nat) (items : List PyVal) (acc : Nat), Bits items → ∃ v, mdPack 2 k items acc = .ok v := by
  intro k
  induction k with
  | zero => intro items acc _; exact ⟨acc, rfl⟩
  | succ k ih =>
    intro items acc hb
    cases items with
    | nil => simp only [mdPack]; exact ih [] _ (by intro b hb; cases hb)
    | cons x r =>
      have hr : Bits r := fun b hb' => hb b (List.mem_cons_of_mem _ hb')
      rcases hb x (by simp) with rfl | rfl
      · simp only [mdPack, asInt?]; simpa using ih r _ hr
      · simp only [mdPack, asInt?]; simpa using ih r _ hr

theorem multiDigitSer_bits (L : List PyVal) (hb : Bits L) (p : Nat) (hp : p < L.length) :
    ∃ t, multiDigitSer 2 5 L p = .ok (min (L.length - p) 5, t) := by
  unfold multiDigitSer
  have h1 : ¬ p = L.length := by omega
  have h2 : ¬ p > L.length := by omega
  simp only [h1, h2, if_false]
  obtain ⟨v, hv⟩ := mdPack_bits 5 (L.drop p) 0 (fun b hb' => hb b (List.mem_of_mem_drop hb'))
  exact ⟨toBase 36 v, by simp [hv]⟩

theorem seqSerLoop_total (f : SerF) (L : List PyVal)
    (hf : ∀ p, p < L.length → ∃ k t, f L p = .ok (k, t) ∧ 1 ≤ k ∧ p + k ≤ L.length) :
    ∀ fuel p acc, p ≤ L.length → L.length - p < fuel → ∃ t, seqSerLoop f L L.length fuel p acc = .ok t := by
  intro fuel
  induction fuel with
  | zero => intro p acc _ h; omega
  | succ fuel ih =>
    intro p acc hp hfu
    unfold seqSerLoop
    by_cases hlt : p < L.length
    · obtain ⟨k, t, hk, h1, h2⟩ := hf p hlt
      have hk0 : ¬ k = 0 := by omega
      simp only [hlt, if_true, hk, hk0, if_false]
      exact ih (p + k) (acc ++ t) h2 (by omega)
    · have : p = L.length := by omega
      simp [this]

theorem bits_rowsFlat : ∀ rows : List PyVal, (∀ row ∈ rows, ∃ bits, row = .list bits ∧ Bits bits) → Bits (rowsFlat rows) := by
  intro rows
  induction rows with
  | nil => intro _ b hb; cases hb
  | cons r rows ih =>
    intro h
    obtain ⟨bits, rfl, hbits⟩ := h r (by simp)
    intro b hb
    simp only [rowsFlat, List.mem_append] at hb
    rcases hb with hb | hb
    · exact hbits b hb
    · exact ih (fun row hrow => h row (List.mem_cons_of_mem _ hrow)) b hb

theorem gridSer_bits (r c : Nat) (V : PyVal) (hV : BitGrid r c V) :
    ∃ t, gridSer (multiDigitSer 2 5) r c [V] 0 = .ok (1, t) := by
  obtain ⟨rows, rfl, hlen, hrows⟩ := hV
  have hshape : GridShape r c rows := ⟨hlen, fun row hrow => by
    obtain ⟨bits, rfl, hl, _⟩ := hrows row hrow; exact ⟨bits, rfl, hl⟩⟩
  obtain ⟨hflat, hflen⟩ := gridFlatten_shape r c rows hshape
  have hbits : Bits (rowsFlat rows) := bits_rowsFlat rows (fun row hrow => by
    obtain ⟨bits, rfl, _, hb⟩ := hrows row hrow; exact ⟨bits, rfl, hb⟩)
  obtain ⟨t, ht⟩ := seqSerLoop_total (multiDigitSer 2 5) (rowsFlat rows)
    (fun p hp => by
      obtain ⟨t, ht⟩ := multiDigitSer_bits _ hbits p hp
      exact ⟨_, t, ht, by omega, by omega⟩) ((rowsFlat rows).length + 1) 0 [] (by omega) (by omega)
  refine ⟨t, ?_⟩
  simp only [gridSer, withItem]
  simp [hflat, seqSer, withItem, ← hflen, ht]

theorem noBoolL_bits : ∀ bits : List PyVal, Bits bits → noBoolL bits = true := by
  intro bits
  induction bits with
  | nil => intro _; rfl
  | cons b bits ihb =>
    intro hb
    simp only [noBoolL, Bool.and_eq_true]
    refine ⟨?_, ihb (fun b' h' => hb b' (List.mem_cons_of_mem _ h'))⟩
    rcases hb b (by simp) with rfl | rfl <;> rfl

theorem noBoolL_bitRows : ∀ rows : List PyVal, (∀ row ∈ rows, ∃ bits, row = .list bits ∧ Bits bits) → noBoolL rows = true := by
  intro rows
  induction rows with
  | nil => intro _; rfl
  | cons row rows ih =>
    intro h
    obtain ⟨bits, rfl, hb⟩ := h row (by simp)
    simp only [noBoolL, Bool.and_eq_true, PyVal.noBool]
    exact ⟨noBoolL_bits bits hb, ih (fun row' h' => h row' (List.mem_cons_of_mem _ h'))⟩

theorem noBool_bitGrid (r c : Nat) (V : PyVal) (hV : BitGrid r c V) : V.noBool = true := by
  obtain ⟨rows, rfl, _, hrows⟩ := hV
  simp only [PyVal.noBool]
  exact noBoolL_bitRows rows (fun row hrow => by obtain ⟨bits, rfl, _, hb⟩ := hrows row hrow; exact ⟨bits, rfl, hb⟩)

theorem tight_gridBits (env : Env) (r c : Nat) (V : PyVal) (hV : BitGrid r c V) :
    Tight (.grid (.multiDigit 2 5) (some (r, c))) env [V] 0 := by
  obtain ⟨rows, rfl, hlen, hrows⟩ := hV
  simp only [Tight, gridDims]
  intro rows' h'
  simp at h'
  subst h'
  exact ⟨⟨hlen, fun row hrow => by obtain ⟨bits, rfl, hl, _⟩ := hrows row hrow; exact ⟨bits, rfl, hl⟩⟩, fun _ => trivial⟩

/-- **The bitmap layer of `Rooms`** round-trips in every context, for all heights and widths. -/
theorem borders_roundtrip (h w : Nat) : BordersRT h w := by
  intro V H hV hH
  have env : Env := ⟨h, w⟩
  obtain ⟨tv, htv⟩ := gridSer_bits h (w - 1) V hV
  obtain ⟨th, hth⟩ := gridSer_bits (h - 1) w H hH
  have hser : bordersSer h w [.tuple [.list [V], .list [H]]] 0 = .ok (1, tv ++ th) := by
    simp [bordersSer, tuplSer, withItem, tuplSerParts, asSeq?, htv, hth]
  refine ⟨tv ++ th, hser, ?_⟩
  intro pre rest
  obtain ⟨hwf, hnr⟩ := bordersTerm_wf h w
  have hloc := comb_local env (bordersTerm h w) hwf hnr
  have hgood : Good (bordersTerm h w) env [.tuple [.list [V], .list [H]]] 0 := by
    refine ⟨by simp [noBoolL, PyVal.noBool, noBool_bitGrid _ _ V hV, noBool_bitGrid _ _ H hH], ?_⟩
    simp only [bordersTerm, Tight]
    intro comps hc
    simp at hc
    subst hc
    simp only [TightComps]
    refine ⟨⟨[V], rfl, ?_, tight_gridBits env h (w - 1) V hV⟩, ⟨[H], rfl, ?_, tight_gridBits env (h - 1) w H hH⟩, trivial⟩
    · intro k t hk
      have := ser_bounded env _ [V] 0 k t hk (by simp)
      have hk1 : 1 ≤ k := by
        simp only [ser, gridSer] at hk
        obtain ⟨v, hv, hk'⟩ := withItem_eq_ok.mp hk
        cases v <;> simp at hk'
        obtain ⟨flat, _, hs⟩ := Outcome.bind_eq_ok.mp hk'
        have := (seqSer_eq_ok hs).choose_spec.2.1
        omega
      simp at this ⊢; omega
    · intro k t hk
      have := ser_bounded env _ [H] 0 k t hk (by simp)
      have hk1 : 1 ≤ k := by
        simp only [ser, gridSer] at hk
        obtain ⟨v, hv, hk'⟩ := withItem_eq_ok.mp hk
        cases v <;> simp at hk'
        obtain ⟨flat, _, hs⟩ := Outcome.bind_eq_ok.mp hk'
        have := (seqSer_eq_ok hs).choose_spec.2.1
        omega
      simp at this ⊢; omega
  obtain ⟨items, hde, _, hex⟩ := hloc _ 0 1 (tv ++ th) (by rw [bordersSer_eq]; exact hser) hgood pre rest
    (fun hn => by simp [bordersTerm, needsND, needsNDLast] at hn)
  have : items = [.tuple [.list [V], .list [H]]] := by
    have := hex (Or.inl (by simp [bordersTerm, exact]))
    simpa [window] using this
  subst this
  rw [bordersDe_eq] at hde
  exact hde

end Cspuz.Ser
