/-
  C11 / FiveCells: the rule specification is not vacuous — on a concrete 1×5 strip with a clue the single
  region is a division obeying the rules (so `Rules` holds of the all-`false` border pattern), and it is the
  only answer.
-/
import Mathlib.Data.Set.Card
import Mathlib.Tactic.IntervalCases
import CspuzModel.Spec.PuzzleRules.Fivecells
namespace Cspuz.Proofs.C11FivecellsEx
open Cspuz Cspuz.Spec Cspuz.Puzzles.Fivecells Cspuz.Spec.Fivecells

/-- A full 1×5 strip with a clue `2` on the second cell. -/
def strip : Problem := { height := 1, width := 5, problem := [[-1, 2, -1, -1, -1]] }

theorem onBoard_strip (q : Nat × Nat) : onBoard strip q = true ↔ q.1 = 0 ∧ q.2 < 5 := by
  obtain ⟨y, x⟩ := q
  constructor
  · intro h
    simp only [onBoard, Bool.and_eq_true, decide_eq_true_eq] at h
    obtain ⟨⟨h1, h2⟩, _⟩ := h
    have e1 : strip.height = 1 := rfl
    have e2 : strip.width = 5 := rfl
    rw [e1] at h1
    rw [e2] at h2
    exact ⟨by omega, h2⟩
  · rintro ⟨h1, h2⟩
    simp only at h1 h2
    subst h1
    interval_cases x <;> decide

theorem region_strip (p : Nat × Nat) : regionOf strip (fun _ => 0) p = {q | q.1 = 0 ∧ q.2 < 5} := by
  ext q
  simp only [regionOf, Set.mem_ofPred_eq, and_true, onBoard_strip]

theorem reach0 : ∀ (x : Nat) (hx : x < 5),
    (cellGraph.induce {q : Nat × Nat | q.1 = 0 ∧ q.2 < 5}).Reachable ⟨(0, 0), ⟨rfl, by decide⟩⟩ ⟨(0, x), ⟨rfl, hx⟩⟩
  | 0, _ => SimpleGraph.Reachable.refl _
  | x + 1, hx => by
    refine (reach0 x (by omega)).trans (SimpleGraph.Adj.reachable ?_)
    show cellGraph.Adj (0, x) (0, x + 1)
    exact Or.inl ⟨rfl, Or.inl rfl⟩

theorem strip_rules : Rules strip [.b false, .b false, .b false, .b false] := by
  refine ⟨fun _ => 0, ⟨?_, ?_⟩, by decide⟩
  · intro p _
    rw [region_strip]
    constructor
    · rintro ⟨⟨y1, x1⟩, h1, hx1⟩ ⟨⟨y2, x2⟩, h2, hx2⟩
      simp only at h1 h2 hx1 hx2
      subst h1 h2
      exact (reach0 x1 hx1).symm.trans (reach0 x2 hx2)
    · have : {q : Nat × Nat | q.1 = 0 ∧ q.2 < 5} =
          ((({(0, 0), (0, 1), (0, 2), (0, 3), (0, 4)} : Finset (Nat × Nat)) : Set (Nat × Nat))) := by
        ext ⟨y, x⟩
        simp only [Set.mem_ofPred_eq, Finset.coe_insert, Finset.coe_singleton, Set.mem_insert_iff,
          Set.mem_singleton_iff, Prod.mk.injEq]
        omega
      rw [this, Set.ncard_coe_finset]
      decide
  · intro p hp hv
    obtain ⟨y, x⟩ := p
    obtain ⟨h1, h2⟩ := (onBoard_strip _).1 hp
    simp only at h1 h2
    subst h1
    interval_cases x <;> first | decide | (exfalso; revert hv; decide)

end Cspuz.Proofs.C11FivecellsEx
