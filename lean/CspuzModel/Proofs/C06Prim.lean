/-
  C06, native-primitive routes: `_active_edges_single_cycle(..., use_graph_primitive=True)` and
  `_active_edges_single_path`: degree constraints plus the native connectivity operator applied to the
  line graph.  Closed forms of the programs, their meaning, and exactness with respect to the degree
  forms `RegularConnected` / `PathRegular` of the specification.
-/
import CspuzModel.Proofs.C06L1
import CspuzModel.Proofs.C04Prim
import CspuzModel.Proofs.C06Line
namespace Cspuz.Proofs.C06Prim
set_option linter.unnecessarySeqFocus false
open Cspuz Cspuz.Spec Cspuz.Proofs
open Cspuz.Proofs.C06L1 (degE degreeOf_eq eval_degE pa)
open Cspuz.Proofs.C04Prim (eval_avcNode avcSem_iff)
open Cspuz.Proofs.C06L2 (activeDegree_pos_iff joins_edge_lt)

/-- all visited vertices are mutually reachable in the active-edge graph. -/
def Conn (g : Graph) (act : Nat → Bool) : Prop :=
  ∀ u v : Fin g.n, 0 < activeDegree g act u.1 → 0 < activeDegree g act v.1 →
    (activeEdgeGraph g act).Reachable u v

theorem deg_zero_of_no_active {g : Graph} {act : Nat → Bool}
    (h : ∀ e, e < g.edges.length → act e = false) (v : Nat) : activeDegree g act v = 0 := by
  by_contra h0
  obtain ⟨j, e, hj, hact⟩ := activeDegree_pos_iff.1 (Nat.pos_of_ne_zero h0)
  rw [h e (joins_edge_lt hj)] at hact
  cases hact

theorem regular_iff {g : Graph} {act : Nat → Bool} :
    RegularConnected g act ↔
      (∀ v, v < g.n → activeDegree g act v = 0 ∨ activeDegree g act v = 2) ∧ Conn g act := by
  constructor
  · rintro (h | h)
    · refine ⟨fun v _ => Or.inl (deg_zero_of_no_active h v), ?_⟩
      intro u v hu _
      rw [deg_zero_of_no_active h u.1] at hu
      cases hu
    · exact h
  · exact fun h => Or.inr h

/-! ### the native node on the line graph -/

def lineNode (g : Graph) (ie : List Expr) : Expr :=
  .node .graphAVC ([.litI g.lineGraph.n, .litI g.lineGraph.edges.length] ++ ie ++
    edgeLits g.lineGraph.edges)

section Node
variable {g : Graph} {ie : List Expr} {base : Nat} {σ σ' : Asg}

theorem avc_line_eq (hlen : ie.length = g.edges.length) :
    activeVerticesConnected g.lineGraph ie 0 false true = .ok { cs := [lineNode g ie] } := by
  have hlen' : ie.length = g.lineGraph.n := hlen
  simp only [activeVerticesConnected, Bool.not_false, Bool.and_self, if_true, hlen', ne_eq,
    not_true_eq_false, if_false, lineNode]

theorem sat_lineNode (hwf : g.wf = true) (hlen : ie.length = g.edges.length)
    (hie : BoolArgs base ie) (hag : AgreeBelow base σ σ') :
    eval σ' (lineNode g ie) = some (.b true) ↔ Conn g (truthAt σ ie) := by
  have hlen' : ie.length = g.lineGraph.n := hlen
  unfold lineNode
  rw [eval_avcNode g.lineGraph hlen' hie hag]
  simp only [Option.some.injEq, Val.b.injEq]
  rw [avcSem_iff g.lineGraph (truthAt σ ie) (C06Line.lineGraph_wf g), C06Line.line_connected_iff hwf]
  rfl

theorem sat_bool_decls (n : Nat) (r : Nat → Int) :
    ∀ k lo hi, (List.replicate n VarDecl.bool)[k]? = some (.int lo hi) → lo ≤ r k ∧ r k ≤ hi := by
  intro k lo hi hk
  have := List.mem_of_getElem? hk
  simp at this

end Node

/-! ### primitive cycle -/

def primDeg (g : Graph) (ie : List Expr) (base i : Nat) : Expr :=
  .node .eq [degE g ie i, .node .ite [.bvar (base + i), .litI 2, .litI 0]]

def primProg (g : Graph) (ie : List Expr) (base : Nat) : Prog :=
  { decls := List.replicate g.n .bool,
    cs := (List.range g.n).map (primDeg g ie base) ++ [lineNode g ie] }

section PrimCycle
variable {g : Graph} {ie : List Expr} {base : Nat} {σ σ' : Asg}

theorem prim_eq_prog (hwf : g.wf = true) (hlen : ie.length = g.edges.length)
    (hie : BoolArgs base ie) :
    singleCycle g ie true base = .ok (primProg g ie base, bvars base g.n) := by
  unfold singleCycle
  simp only [if_true]
  rw [mapM_eq_ok_map (g := primDeg g ie base), ok_bind, avc_line_eq hlen, ok_bind]
  · rfl
  · intro i _
    rw [degreeOf_eq hwf hlen hie i, ok_bind]
    rfl

theorem sat_primDeg (hwf : g.wf = true) (hlen : ie.length = g.edges.length)
    (hie : BoolArgs base ie) (hag : AgreeBelow base σ σ') (i : Nat) :
    eval σ' (primDeg g ie base i) = some (.b true) ↔
      activeDegree g (truthAt σ ie) i = if pa σ' base i then 2 else 0 := by
  have h1 := eval_cmp (op := .eq) rfl (eval_degE hwf hlen hie hag i)
    (eval_ite (eval_bvar σ' (base + i)) (eval_litI σ' 2) (eval_litI σ' 0))
  unfold primDeg
  rw [h1]
  unfold pa
  cases σ'.b (base + i) <;> simp <;> omega

theorem satFrag_primProg_iff (hwf : g.wf = true) (hlen : ie.length = g.edges.length)
    (hie : BoolArgs base ie) (hag : AgreeBelow base σ σ') :
    SatFrag base (primProg g ie base) σ' ↔
      (∀ i, i < g.n → activeDegree g (truthAt σ ie) i = if pa σ' base i then 2 else 0) ∧
      Conn g (truthAt σ ie) := by
  unfold SatFrag primProg
  simp only
  rw [and_iff_right (sat_bool_decls g.n fun k => σ'.i (base + k))]
  simp only [List.mem_append, List.mem_map, List.mem_range, List.mem_singleton]
  constructor
  · intro h
    refine ⟨fun i hi => ?_, ?_⟩
    · rw [← sat_primDeg hwf hlen hie hag i]
      exact h _ (.inl ⟨i, hi, rfl⟩)
    · rw [← sat_lineNode hwf hlen hie hag]
      exact h _ (.inr rfl)
  · rintro ⟨h1, h2⟩ c (⟨i, hi, rfl⟩ | rfl)
    · exact (sat_primDeg hwf hlen hie hag i).2 (h1 i hi)
    · exact (sat_lineNode hwf hlen hie hag).2 h2

/-- extension by the `is_passed` flags only. -/
def extendB (σ : Asg) (base : Nat) (passed : Nat → Bool) : Asg where
  i := σ.i
  b := fun id => if base ≤ id then passed (id - base) else σ.b id

theorem extendB_agree (σ : Asg) (base : Nat) (passed : Nat → Bool) :
    AgreeBelow base σ (extendB σ base passed) := by
  intro id hid
  simp only [extendB]
  rw [if_neg (by omega)]
  simp

theorem pa_extendB (σ : Asg) (base : Nat) (passed : Nat → Bool) (i : Nat) :
    pa (extendB σ base passed) base i = passed i := by
  simp [pa, extendB]

theorem prim_realizable_iff (σ : Asg) (hwf : g.wf = true) (hlen : ie.length = g.edges.length)
    (hie : BoolArgs base ie) :
    Realizable base (primProg g ie base) σ ↔ RegularConnected g (truthAt σ ie) := by
  rw [regular_iff]
  constructor
  · rintro ⟨σ', hag, hs⟩
    obtain ⟨hd, hc⟩ := (satFrag_primProg_iff hwf hlen hie hag).1 hs
    refine ⟨fun v hv => ?_, hc⟩
    have := hd v hv
    cases hp : pa σ' base v <;> rw [hp] at this <;> simp at this
    · exact Or.inl this
    · exact Or.inr this
  · rintro ⟨hd, hc⟩
    refine ⟨extendB σ base (fun v => decide (activeDegree g (truthAt σ ie) v = 2)),
      extendB_agree _ _ _, ?_⟩
    rw [satFrag_primProg_iff hwf hlen hie (extendB_agree _ _ _)]
    refine ⟨fun i hi => ?_, hc⟩
    rw [pa_extendB]
    rcases hd i hi with h0 | h0 <;> simp [h0]

theorem prim_passed_exact (hwf : g.wf = true) (hlen : ie.length = g.edges.length)
    (hie : BoolArgs base ie) (hag : AgreeBelow base σ σ')
    (hs : SatFrag base (primProg g ie base) σ') :
    ∀ i, i < g.n → σ'.b (base + i) = visited g (truthAt σ ie) i := by
  intro i hi
  have h := ((satFrag_primProg_iff hwf hlen hie hag).1 hs).1 i hi
  unfold visited
  rw [h]
  unfold pa
  cases σ'.b (base + i) <;> simp

end PrimCycle

/-! ### `fold_or` -/

/-- truth value of an operand -/
def tv (σ : Asg) (x : Expr) : Bool := eval σ x == some (.b true)

theorem map_eval_of_bool {σ : Asg} (l : List Expr) (h : ∀ x ∈ l, ∃ b, eval σ x = some (.b b)) :
    l.map (eval σ) = (l.map (tv σ)).map (fun b => some (.b b)) := by
  rw [List.map_map]
  apply List.map_congr_left
  intro x hx
  obtain ⟨b, hb⟩ := h x hx
  simp only [Function.comp, tv, hb]
  cases b <;> rfl

theorem foldOr_go_spec (xs : List Expr) : ∀ (acc : List Expr), (∀ x ∈ xs, x.isBoolLike = true) →
    ∃ e, foldOr.go xs acc = .ok e ∧ ∀ σ : Asg, (∀ x ∈ acc, ∃ b, eval σ x = some (.b b)) →
      (∀ x ∈ xs, ∃ b, eval σ x = some (.b b)) →
      eval σ e = some (.b ((acc.reverse ++ xs).any (tv σ))) := by
  induction xs with
  | nil =>
    intro acc _
    by_cases h : acc.isEmpty = true
    · refine ⟨.node .boolConst [.litB false], by simp [foldOr.go, h], ?_⟩
      intro σ _ _
      have : acc = [] := List.isEmpty_iff.1 h
      subst this
      simp [evalOp]
    · refine ⟨.node .or acc.reverse, by simp [foldOr.go, h], ?_⟩
      intro σ hacc _
      rw [eval_node, map_eval_of_bool acc.reverse (by simpa using hacc), evalOp_or]
      simp [List.any_map]
  | cons x r ih =>
    intro acc hx
    have hr : ∀ y ∈ r, y.isBoolLike = true := fun y hy => hx y (by simp [hy])
    have hstep : ∀ y : Expr, y.isBoolExpr = true → (∀ b, y ≠ .litB b) → x = y →
        ∃ e, foldOr.go (y :: r) acc = .ok e ∧ ∀ σ : Asg, (∀ x ∈ acc, ∃ b, eval σ x = some (.b b)) →
          (∀ x ∈ y :: r, ∃ b, eval σ x = some (.b b)) →
          eval σ e = some (.b ((acc.reverse ++ y :: r).any (tv σ))) := by
      intro y hy hnl _
      obtain ⟨e, he, hs⟩ := ih (y :: acc) hr
      refine ⟨e, ?_, ?_⟩
      · rw [← he]
        cases y <;> simp_all [foldOr.go, Expr.isBoolExpr]
      · intro σ hacc hxs
        rw [hs σ (by
          intro z hz
          rcases List.mem_cons.1 hz with rfl | hz
          · exact hxs _ (by simp)
          · exact hacc z hz) (fun z hz => hxs z (by simp [hz]))]
        simp
    cases x with
    | litB b =>
      cases b
      · obtain ⟨e, he, hs⟩ := ih acc hr
        refine ⟨e, by simpa [foldOr.go] using he, ?_⟩
        intro σ hacc hxs
        rw [hs σ hacc (fun y hy => hxs y (by simp [hy]))]
        have hf : (Val.b false == Val.b true) = false := rfl
        simp [tv, hf]
      · refine ⟨.node .boolConst [.litB true], by simp [foldOr.go], ?_⟩
        intro σ _ _
        simp [evalOp, tv]
    | bvar id => exact hstep _ rfl (by intro b h; cases h) rfl
    | node op args =>
      have hb : (Expr.node op args).isBoolLike = true := hx (.node op args) (by simp)
      exact hstep _ hb (by intro b h; cases h) rfl
    | ivar id => have := hx (.ivar id) (by simp); simp [Expr.isBoolLike] at this
    | litI n => have := hx (.litI n) (by simp); simp [Expr.isBoolLike] at this
    | litNone => have := hx .litNone (by simp); simp [Expr.isBoolLike] at this

theorem foldOr_spec {xs : List Expr} (hx : ∀ x ∈ xs, x.isBoolLike = true) :
    ∃ e, foldOr xs = .ok e ∧ ∀ σ : Asg, (∀ x ∈ xs, ∃ b, eval σ x = some (.b b)) →
      eval σ e = some (.b (xs.any (tv σ))) := by
  obtain ⟨e, he, hs⟩ := foldOr_go_spec xs [] hx
  exact ⟨e, he, fun σ h => by simpa using hs σ (by simp) h⟩

theorem any_tv_iff {ie : List Expr} {base : Nat} {σ σ' : Asg} (hie : BoolArgs base ie)
    (hag : AgreeBelow base σ σ') :
    ie.any (tv σ') = true ↔ ∃ e, e < ie.length ∧ truthAt σ ie e = true := by
  rw [List.any_eq_true]
  constructor
  · rintro ⟨x, hx, ht⟩
    obtain ⟨j, hj, rfl⟩ := List.getElem_of_mem hx
    refine ⟨j, hj, ?_⟩
    have := eval_boolArg hie hag hj
    unfold tv at ht
    rw [this] at ht
    cases h : truthAt σ ie j
    · rw [h] at ht; cases ht
    · rfl
  · rintro ⟨j, hj, ht⟩
    refine ⟨ie[j], List.getElem_mem hj, ?_⟩
    unfold tv
    rw [eval_boolArg hie hag hj, ht]
    rfl

/-! ### primitive path -/

theorem eval_or2 {σ : Asg} {a b : Expr} {x y : Bool}
    (ha : eval σ a = some (.b x)) (hb : eval σ b = some (.b y)) :
    eval σ (.node .or [a, b]) = some (.b (x || y)) := by
  simp [ha, hb, evalOp, allBools]

def pathCs (g : Graph) (ie : List Expr) (base i : Nat) : List Expr :=
  [.node .imp [.bvar (base + i),
      .node .or [.node .eq [degE g ie i, .litI 1], .node .eq [degE g ie i, .litI 2]]],
   .node .imp [.node .not [.bvar (base + i)], .node .eq [degE g ie i, .litI 0]]]

def pathEnd (g : Graph) (ie : List Expr) (i : Nat) : Expr := .node .eq [degE g ie i, .litI 1]

def pathPer (g : Graph) (ie : List Expr) (base : Nat) : List (List Expr × Expr) :=
  (List.range g.n).map fun i => (pathCs g ie base i, pathEnd g ie i)

def pathCount (g : Graph) (ie : List Expr) (base : Nat) (anyE : Expr) : Expr :=
  .node .eq [countTrueE ((pathPer g ie base).map (·.2)), .node .ite [anyE, .litI 2, .litI 0]]

def pathProg (g : Graph) (ie : List Expr) (base : Nat) (anyE : Expr) : Prog :=
  { decls := List.replicate g.n .bool,
    cs := (pathPer g ie base).flatMap (·.1) ++ [pathCount g ie base anyE] ++ [lineNode g ie] }

section Path
variable {g : Graph} {ie : List Expr} {base : Nat} {σ σ' : Asg}

theorem path_eq_prog (hwf : g.wf = true) (hlen : ie.length = g.edges.length)
    (hie : BoolArgs base ie) :
    ∃ anyE, singlePath g ie true base = .ok (pathProg g ie base anyE, bvars base g.n) ∧
      ∀ σ σ' : Asg, AgreeBelow base σ σ' →
        eval σ' anyE = some (.b (ie.any (tv σ'))) := by
  obtain ⟨anyE, hany, hev⟩ := foldOr_spec (xs := ie) (fun x hx => wtB_isBoolLike x (hie x hx).1)
  refine ⟨anyE, ?_, ?_⟩
  · unfold singlePath
    simp only [if_true]
    rw [mapM_eq_ok_map (g := fun i => (pathCs g ie base i, pathEnd g ie i)), ok_bind]
    · rw [countTrue_ok_of_boolLike (by
        intro x hx
        simp only [List.map_map, List.mem_map] at hx
        obtain ⟨_, _, rfl⟩ := hx
        rfl), ok_bind, hany, ok_bind, avc_line_eq hlen, ok_bind]
      rfl
    · intro i _
      rw [degreeOf_eq hwf hlen hie i, ok_bind]
      rfl
  · intro σ σ' hag
    apply hev
    intro x hx
    obtain ⟨b, hb⟩ := wtB_eval σ x (hie x hx).1
    exact ⟨b, by rw [← eval_congr_of_varsBelow hag x (hie x hx).2]; exact hb⟩

theorem sat_pathCs (hwf : g.wf = true) (hlen : ie.length = g.edges.length)
    (hie : BoolArgs base ie) (hag : AgreeBelow base σ σ') (i : Nat) :
    (∀ c ∈ pathCs g ie base i, eval σ' c = some (.b true)) ↔
      (pa σ' base i = true → activeDegree g (truthAt σ ie) i = 1 ∨
        activeDegree g (truthAt σ ie) i = 2) ∧
      (pa σ' base i = false → activeDegree g (truthAt σ ie) i = 0) := by
  have hd := eval_degE hwf hlen hie hag i
  have h1 := eval_thenRaw (eval_bvar σ' (base + i))
    (eval_or2 (eval_cmp (op := .eq) rfl hd (eval_litI σ' 1)) (eval_cmp (op := .eq) rfl hd (eval_litI σ' 2)))
  have h2 := eval_thenRaw (eval_not (eval_bvar σ' (base + i)))
    (eval_cmp (op := .eq) rfl hd (eval_litI σ' 0))
  unfold thenRaw at h1 h2
  unfold pathCs
  simp only [List.mem_cons, List.not_mem_nil, or_false, forall_eq_or_imp, forall_eq]
  rw [h1, h2]
  unfold pa
  cases σ'.b (base + i) <;> simp <;> omega

theorem eval_pathCount_ct (hwf : g.wf = true) (hlen : ie.length = g.edges.length)
    (hie : BoolArgs base ie) (hag : AgreeBelow base σ σ') :
    eval σ' (countTrueE ((pathPer g ie base).map (·.2))) =
      some (.i (((List.range g.n).filter
        fun v => activeDegree g (truthAt σ ie) v == 1).length : Nat)) := by
  rw [eval_countTrueE ((List.range g.n).map fun v => activeDegree g (truthAt σ ie) v == 1)]
  · congr 3
    rw [List.count_eq_countP, List.countP_map, List.countP_eq_length_filter]
    congr 1; apply List.filter_congr; intro x _; simp
  · unfold pathPer
    rw [List.map_map, List.map_map, List.map_map]
    apply List.map_congr_left
    intro i _
    simp only [Function.comp, pathEnd]
    rw [eval_cmp (op := .eq) rfl (eval_degE hwf hlen hie hag i) (eval_litI σ' 1)]
    simp

theorem sat_pathCount (hwf : g.wf = true) (hlen : ie.length = g.edges.length)
    (hie : BoolArgs base ie) (hag : AgreeBelow base σ σ') {anyE : Expr}
    (hany : eval σ' anyE = some (.b (ie.any (tv σ')))) :
    eval σ' (pathCount g ie base anyE) = some (.b true) ↔
      ((List.range g.n).filter fun v => activeDegree g (truthAt σ ie) v == 1).length =
        if ie.any (tv σ') then 2 else 0 := by
  unfold pathCount
  rw [eval_cmp (op := .eq) rfl (eval_pathCount_ct hwf hlen hie hag)
    (eval_ite hany (eval_litI σ' 2) (eval_litI σ' 0))]
  cases ie.any (tv σ') <;> simp <;> omega

theorem satFrag_pathProg_iff (hwf : g.wf = true) (hlen : ie.length = g.edges.length)
    (hie : BoolArgs base ie) (hag : AgreeBelow base σ σ') {anyE : Expr}
    (hany : eval σ' anyE = some (.b (ie.any (tv σ')))) :
    SatFrag base (pathProg g ie base anyE) σ' ↔
      (∀ i, i < g.n →
        (pa σ' base i = true → activeDegree g (truthAt σ ie) i = 1 ∨
          activeDegree g (truthAt σ ie) i = 2) ∧
        (pa σ' base i = false → activeDegree g (truthAt σ ie) i = 0)) ∧
      (((List.range g.n).filter fun v => activeDegree g (truthAt σ ie) v == 1).length =
        if ie.any (tv σ') then 2 else 0) ∧
      Conn g (truthAt σ ie) := by
  unfold SatFrag pathProg
  simp only
  rw [and_iff_right (sat_bool_decls g.n fun k => σ'.i (base + k))]
  simp only [List.mem_append, List.mem_flatMap, pathPer, List.mem_map, List.mem_range,
    List.mem_singleton]
  constructor
  · intro h
    refine ⟨fun i hi => ?_, ?_, ?_⟩
    · rw [← sat_pathCs hwf hlen hie hag i]
      intro c hc
      exact h c (.inl (.inl ⟨_, ⟨i, hi, rfl⟩, hc⟩))
    · rw [← sat_pathCount hwf hlen hie hag hany]
      exact h _ (.inl (.inr rfl))
    · rw [← sat_lineNode hwf hlen hie hag]
      exact h _ (.inr rfl)
  · rintro ⟨h1, h2, h3⟩ c ((⟨_, ⟨i, hi, rfl⟩, hc⟩ | rfl) | rfl)
    · exact (sat_pathCs hwf hlen hie hag i).2 (h1 i hi) c hc
    · exact (sat_pathCount hwf hlen hie hag hany).2 h2
    · exact (sat_lineNode hwf hlen hie hag).2 h3

theorem path_realizable_iff (σ : Asg) (hwf : g.wf = true) (hlen : ie.length = g.edges.length)
    (hie : BoolArgs base ie) {anyE : Expr}
    (hany : ∀ σ σ' : Asg, AgreeBelow base σ σ' → eval σ' anyE = some (.b (ie.any (tv σ')))) :
    Realizable base (pathProg g ie base anyE) σ ↔ PathRegular g (truthAt σ ie) := by
  constructor
  · rintro ⟨σ', hag, hs⟩
    obtain ⟨hd, hct, hc⟩ := (satFrag_pathProg_iff hwf hlen hie hag (hany σ σ' hag)).1 hs
    by_cases hex : ie.any (tv σ') = true
    · right
      rw [hex] at hct
      refine ⟨fun v hv => ?_, hct, hc⟩
      have := hd v hv
      cases hp : pa σ' base v <;> rw [hp] at this <;> simp at this <;> omega
    · left
      intro e he
      by_contra hact
      exact hex ((any_tv_iff hie hag).2 ⟨e, by omega, by simpa using hact⟩)
  · intro h
    refine ⟨extendB σ base (fun v => decide (0 < activeDegree g (truthAt σ ie) v)),
      extendB_agree _ _ _, ?_⟩
    have hag := extendB_agree σ base (fun v => decide (0 < activeDegree g (truthAt σ ie) v))
    rw [satFrag_pathProg_iff hwf hlen hie hag (hany σ _ hag)]
    rcases h with h | ⟨hd, hct, hc⟩
    · have h0 := deg_zero_of_no_active h
      refine ⟨fun i _ => ?_, ?_, ?_⟩
      · rw [pa_extendB]; simp [h0 i]
      · have hany' : ie.any (tv (extendB σ base fun v =>
            decide (0 < activeDegree g (truthAt σ ie) v))) = false := by
          rw [Bool.eq_false_iff]
          intro ht
          obtain ⟨e, he, hact⟩ := (any_tv_iff hie hag).1 ht
          rw [h e (by omega)] at hact
          cases hact
        rw [hany']
        simp [h0]
      · intro u v hu _
        rw [h0 u.1] at hu
        cases hu
    · refine ⟨fun i hi => ?_, ?_, hc⟩
      · rw [pa_extendB]
        have := hd i hi
        simp only [decide_eq_true_eq, decide_eq_false_iff_not]
        omega
      · have hany' : ie.any (tv (extendB σ base fun v =>
            decide (0 < activeDegree g (truthAt σ ie) v))) = true := by
          rw [any_tv_iff hie hag]
          have hpos : 0 < ((List.range g.n).filter
              fun v => activeDegree g (truthAt σ ie) v == 1).length := by omega
          obtain ⟨v, hv⟩ := List.exists_mem_of_length_pos hpos
          simp only [List.mem_filter, beq_iff_eq] at hv
          obtain ⟨j, e, hj, hact⟩ := activeDegree_pos_iff.1 (show 0 < activeDegree g (truthAt σ ie) v by omega)
          exact ⟨e, by have := joins_edge_lt hj; omega, hact⟩
        rw [hany', hct]
        rfl

theorem path_passed_exact (hwf : g.wf = true) (hlen : ie.length = g.edges.length)
    (hie : BoolArgs base ie) (hag : AgreeBelow base σ σ') {anyE : Expr}
    (hany : eval σ' anyE = some (.b (ie.any (tv σ'))))
    (hs : SatFrag base (pathProg g ie base anyE) σ') :
    ∀ i, i < g.n → σ'.b (base + i) = visited g (truthAt σ ie) i := by
  intro i hi
  have h := ((satFrag_pathProg_iff hwf hlen hie hag hany).1 hs).1 i hi
  unfold visited
  unfold pa at h
  cases hb : σ'.b (base + i) <;> rw [hb] at h <;> simp at h ⊢ <;> omega

end Path

end Cspuz.Proofs.C06Prim
