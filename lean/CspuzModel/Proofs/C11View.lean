/-
  C11 / View — `solve_view` posts a program that encodes the published rules (Spec/PuzzleRules/View.lean).

  The answer keys `nums` are allocated AFTER the hidden rank/root variables of the connectivity fragment, and four
  more hidden arrays (the sight counts) follow, so `EncodesRules` is proved directly here:
  (→) a model of the program, read on the key variables, obeys the rules (connectivity through `C04_aux_exact`,
      sight counts through the recurrences, Proofs/C11ViewB.lean);
  (←) a rule-obeying pair of grids is completed to a model: rank/root values from `C04_aux_exact`, the four sight
      arrays set to the true counts.
-/
import CspuzModel.Proofs.C11ViewB
import CspuzModel.Properties.C04
import CspuzModel.Proofs.C11Frag
import CspuzModel.Proofs.C11FragWT
import CspuzModel.Proofs.C11CellGraph
namespace Cspuz.Proofs.C11View
open Cspuz Cspuz.Spec Cspuz.Puzzles Cspuz.Puzzles.View Cspuz.Spec.View Cspuz.Proofs
  Cspuz.Proofs.C11ViewA Cspuz.Proofs.C11ViewB

/-! ### declared bounds, block by block -/

/-- The integer declarations of the block `D` allocated at ids `base, base+1, …` are respected. -/
def RespAt (base : Nat) (D : List VarDecl) (σ : Asg) : Prop :=
  ∀ k lo hi, D[k]? = some (.int lo hi) → lo ≤ σ.i (base + k) ∧ σ.i (base + k) ≤ hi

theorem respects_iff (D : List VarDecl) (σ : Asg) : σ.respects D ↔ RespAt 0 D σ := by
  unfold Asg.respects RespAt
  simp only [Nat.zero_add]

theorem respAt_append (base : Nat) (D1 D2 : List VarDecl) (σ : Asg) :
    RespAt base (D1 ++ D2) σ ↔ RespAt base D1 σ ∧ RespAt (base + D1.length) D2 σ := by
  have := C11Frag.satFrag_append base { decls := D1 } { decls := D2 } σ
  simp only [SatFrag, C11Frag.prog_append_decls, C11Frag.prog_append_cs, List.append_nil, List.not_mem_nil,
    false_imp_iff, implies_true, and_true] at this
  exact this

theorem respAt_bool (base n : Nat) (σ : Asg) : RespAt base (List.replicate n .bool) σ := by
  intro k lo hi hk
  rw [List.getElem?_replicate] at hk
  split at hk <;> simp at hk

theorem respAt_int (base n : Nat) (lo hi : Int) (σ : Asg) :
    RespAt base (List.replicate n (.int lo hi)) σ ↔ ∀ c, c < n → lo ≤ σ.i (base + c) ∧ σ.i (base + c) ≤ hi := by
  constructor
  · intro hr c hc
    exact hr c lo hi (by rw [List.getElem?_replicate, if_pos hc])
  · intro hb k lo' hi' hk
    rw [List.getElem?_replicate] at hk
    split at hk
    · next hlt =>
      simp only [Option.some.injEq, VarDecl.int.injEq] at hk
      obtain ⟨rfl, rfl⟩ := hk
      exact hb k hlt
    · simp at hk

/-- A statement about all cells `c < h * w`, by coordinates. -/
theorem forall_cell {h w : Nat} {P : Nat → Prop} :
    (∀ c, c < h * w → P c) ↔ ∀ y, y < h → ∀ x, x < w → P (y * w + x) := by
  constructor
  · intro hc y hy x hx
    exact hc _ (C11Grid.cell_lt hy hx)
  · intro hyx c hc
    have hdm := C11Grid.div_lt_of_lt_mul hc
    have := hyx _ hdm.1 _ hdm.2
    rwa [Nat.div_add_mod' c w] at this

theorem respects_prog (pb : Problem) (σ : Asg) :
    σ.respects (prog pb).decls ↔
      RespAt (pb.height * pb.width) (avc pb).decls σ ∧
      (∀ y, y < pb.height → ∀ x, x < pb.width →
        (0 ≤ σ.i (3 * (pb.height * pb.width) + (y * pb.width + x)) ∧
          σ.i (3 * (pb.height * pb.width) + (y * pb.width + x)) ≤ (pb.height : Int) + pb.width) ∧
        (0 ≤ σ.i (4 * (pb.height * pb.width) + (y * pb.width + x)) ∧
          σ.i (4 * (pb.height * pb.width) + (y * pb.width + x)) ≤ (pb.height : Int) - 1) ∧
        (0 ≤ σ.i (5 * (pb.height * pb.width) + (y * pb.width + x)) ∧
          σ.i (5 * (pb.height * pb.width) + (y * pb.width + x)) ≤ (pb.height : Int) - 1) ∧
        (0 ≤ σ.i (6 * (pb.height * pb.width) + (y * pb.width + x)) ∧
          σ.i (6 * (pb.height * pb.width) + (y * pb.width + x)) ≤ (pb.width : Int) - 1) ∧
        (0 ≤ σ.i (7 * (pb.height * pb.width) + (y * pb.width + x)) ∧
          σ.i (7 * (pb.height * pb.width) + (y * pb.width + x)) ≤ (pb.width : Int) - 1)) := by
  rw [respects_iff]
  simp only [prog, respAt_append, respAt_int, List.length_append, List.length_replicate, avc_len, Nat.zero_add,
    respAt_bool, true_and]
  have e3 : pb.height * pb.width + 2 * (pb.height * pb.width) = 3 * (pb.height * pb.width) := by omega
  have e4 : 3 * (pb.height * pb.width) + pb.height * pb.width = 4 * (pb.height * pb.width) := by omega
  have e5 : 4 * (pb.height * pb.width) + pb.height * pb.width = 5 * (pb.height * pb.width) := by omega
  have e6 : 5 * (pb.height * pb.width) + pb.height * pb.width = 6 * (pb.height * pb.width) := by omega
  have e7 : 6 * (pb.height * pb.width) + pb.height * pb.width = 7 * (pb.height * pb.width) := by omega
  simp only [e3, e4, e5, e6, e7, forall_cell]
  constructor
  · rintro ⟨⟨⟨⟨⟨ha, h3⟩, h4⟩, h5⟩, h6⟩, h7⟩
    exact ⟨ha, fun y hy x hx => ⟨h3 y hy x hx, h4 y hy x hx, h5 y hy x hx, h6 y hy x hx, h7 y hy x hx⟩⟩
  · rintro ⟨ha, hall⟩
    exact ⟨⟨⟨⟨⟨ha, fun y hy x hx => (hall y hy x hx).1⟩, fun y hy x hx => (hall y hy x hx).2.1⟩,
      fun y hy x hx => (hall y hy x hx).2.2.1⟩, fun y hy x hx => (hall y hy x hx).2.2.2.1⟩,
      fun y hy x hx => (hall y hy x hx).2.2.2.2⟩

/-! ### values of the answer keys -/

theorem decl_has (pb : Problem) {c : Nat} (hc : c < pb.height * pb.width) : (prog pb).decls[c]? = some .bool := by
  simp only [prog]
  rw [List.getElem?_append_left (by simp; omega), List.getElem?_append_left (by simp; omega),
    List.getElem?_append_left (by simp; omega), List.getElem?_append_left (by simp; omega),
    List.getElem?_append_left (by simp; omega), List.getElem?_append_left (by simp; omega),
    List.getElem?_replicate, if_pos hc]

theorem decl_num (pb : Problem) {c : Nat} (hc : c < pb.height * pb.width) :
    (prog pb).decls[3 * (pb.height * pb.width) + c]? = some (.int 0 ((pb.height : Int) + pb.width)) := by
  have hl := avc_len pb
  simp only [prog]
  rw [List.getElem?_append_left (by simp; omega), List.getElem?_append_left (by simp; omega),
    List.getElem?_append_left (by simp; omega), List.getElem?_append_left (by simp; omega),
    List.getElem?_append_right (by simp; omega), List.getElem?_replicate, if_pos (by simp; omega)]

theorem intGrid_eq_map (h w : Nat) (g : Nat → Nat → Int) :
    intGrid h w g = (List.range (h * w)).map fun i => Val.i (g (i / w) (i % w)) :=
  C11Grid.flatMap_range_eq (fun y x => Val.i (g y x)) h w

theorem boolGrid_eq_map (h w : Nat) (g : Nat → Nat → Bool) :
    boolGrid h w g = (List.range (h * w)).map fun i => Val.b (g (i / w) (i % w)) :=
  C11Grid.flatMap_range_eq (fun y x => Val.b (g y x)) h w

theorem intGrid_congr {h w : Nat} {g g' : Nat → Nat → Int} (hgg : ∀ y, y < h → ∀ x, x < w → g y x = g' y x) :
    intGrid h w g = intGrid h w g' := by
  rw [intGrid_eq_map, intGrid_eq_map]
  apply List.map_congr_left
  intro i hi
  have hdm := C11Grid.div_lt_of_lt_mul (List.mem_range.1 hi)
  rw [hgg _ hdm.1 _ hdm.2]

theorem boolGrid_congr {h w : Nat} {g g' : Nat → Nat → Bool} (hgg : ∀ y, y < h → ∀ x, x < w → g y x = g' y x) :
    boolGrid h w g = boolGrid h w g' := by
  rw [boolGrid_eq_map, boolGrid_eq_map]
  apply List.map_congr_left
  intro i hi
  have hdm := C11Grid.div_lt_of_lt_mul (List.mem_range.1 hi)
  rw [hgg _ hdm.1 _ hdm.2]

/-- The key values under `σ`: the `nums` variables, then the `has_number` variables. -/
theorem keyVals_prog (pb : Problem) (σ : Asg) :
    (prog pb).keyVals σ =
      (intGrid pb.height pb.width (fun y x => σ.i (3 * (pb.height * pb.width) + (y * pb.width + x))) ++
        boolGrid pb.height pb.width (fun y x => σ.b (y * pb.width + x))).map some := by
  unfold PuzzleProg.keyVals
  rw [show (prog pb).keys = ((List.range (pb.height * pb.width)).map fun i => 3 * (pb.height * pb.width) + i) ++
      List.range (pb.height * pb.width) from rfl]
  rw [List.map_append, List.map_append, intGrid_eq_map, boolGrid_eq_map, List.map_map, List.map_map, List.map_map]
  congr 1
  · apply List.map_congr_left
    intro i hi
    have hi' := List.mem_range.1 hi
    simp only [Function.comp, valOf, decl_num pb hi', Nat.div_add_mod']
  · apply List.map_congr_left
    intro i hi
    have hi' := List.mem_range.1 hi
    simp only [Function.comp, valOf, decl_has pb hi', Nat.div_add_mod']

/-! ### the rules without connectivity, and the local constraints -/

/-- Rules 1–3 and the representation of empty cells (everything except connectivity). -/
def RulesLocal (pb : Problem) (num : Nat → Nat → Int) (has : Nat → Nat → Bool) : Prop :=
  (∀ y, y < pb.height → ∀ x, x < pb.width → 0 ≤ val pb y x → has y x = true ∧ num y x = val pb y x) ∧
  (∀ y, y < pb.height → ∀ x, x < pb.width → has y x = false → num y x = 0) ∧
  (∀ y, y < pb.height → ∀ x, x < pb.width → has y x = true →
    ∃ up down left right : Nat,
      IsRun (fun j => has (y - 1 - j) x = false) y up ∧
      IsRun (fun j => has (y + 1 + j) x = false) (pb.height - 1 - y) down ∧
      IsRun (fun j => has y (x - 1 - j) = false) x left ∧
      IsRun (fun j => has y (x + 1 + j) = false) (pb.width - 1 - x) right ∧
      num y x = ((up + down + left + right : Nat) : Int)) ∧
  (∀ y, y + 1 < pb.height → ∀ x, x < pb.width → has y x = true → has (y + 1) x = true → num y x ≠ num (y + 1) x) ∧
  (∀ y, y < pb.height → ∀ x, x + 1 < pb.width → has y x = true → has y (x + 1) = true → num y x ≠ num y (x + 1))

theorem rulesGrid_iff (pb : Problem) (num : Nat → Nat → Int) (has : Nat → Nat → Bool) :
    RulesGrid pb num has ↔
      RulesLocal pb num has ∧ CellsConnected pb.height pb.width (fun y x => has y x = true) :=
  ⟨fun ⟨a, b, c, d, e, f⟩ => ⟨⟨a, b, c, d, e⟩, f⟩, fun ⟨⟨a, b, c, d, e⟩, f⟩ => ⟨a, b, c, d, e, f⟩⟩

/-- The four sight arrays carry the true counts. -/
def SightOK (pb : Problem) (σ : Asg) (has : Nat → Nat → Bool) : Prop :=
  ∀ y, y < pb.height → ∀ x, x < pb.width →
    σ.i (4 * (pb.height * pb.width) + (y * pb.width + x)) = (upC has y x : Int) ∧
    σ.i (5 * (pb.height * pb.width) + (y * pb.width + x)) = (downC pb.height has y x : Int) ∧
    σ.i (6 * (pb.height * pb.width) + (y * pb.width + x)) = (leftC has y x : Int) ∧
    σ.i (7 * (pb.height * pb.width) + (y * pb.width + x)) = (rightC pb.width has y x : Int)

/-- Meaning of all constraints outside the connectivity fragment. -/
theorem loc_iff {pb : Problem} (hwf : WellFormed pb) (σ : Asg) (num : Nat → Nat → Int) (has : Nat → Nat → Bool)
    (hgN : ∀ y, y < pb.height → ∀ x, x < pb.width →
      num y x = σ.i (3 * (pb.height * pb.width) + (y * pb.width + x)))
    (hgH : ∀ y, y < pb.height → ∀ x, x < pb.width → has y x = σ.b (y * pb.width + x)) :
    (∀ c ∈ locCs pb (3 * (pb.height * pb.width)) (4 * (pb.height * pb.width)) (5 * (pb.height * pb.width))
        (6 * (pb.height * pb.width)) (7 * (pb.height * pb.width)), eval σ c = some (.b true)) ↔
      SightOK pb σ has ∧ RulesLocal pb num has := by
  have hh := hwf.1
  have hw := hwf.2.1
  unfold locCs
  simp only [forall_append]
  rw [up_iff σ has hgH _ hh, down_iff σ has hgH _ hh, left_iff σ has hgH _ hw, right_iff σ has hgH _ hw,
    sum_iff, vert_iff, hor_iff, zero_iff, clue_iff]
  constructor
  · rintro ⟨⟨⟨⟨⟨⟨⟨⟨hU, hD⟩, hL⟩, hR⟩, hS⟩, hV⟩, hH⟩, hZ⟩, hC⟩
    refine ⟨fun y hy x hx => ⟨hU y hy x hx, hD y hy x hx, hL y hy x hx, hR y hy x hx⟩, ?_, ?_, ?_, ?_, ?_⟩
    · intro y hy x hx hv
      rw [hgH y hy x hx, hgN y hy x hx]
      exact hC y hy x hx hv
    · intro y hy x hx hf
      rw [hgN y hy x hx]
      exact hZ y hy x hx (by rw [← hgH y hy x hx]; exact hf)
    · intro y hy x hx ht
      rw [rule2_iff pb.height pb.width has _ hy hx, hgN y hy x hx,
        hS y hy x hx (by rw [← hgH y hy x hx]; exact ht), hU y hy x hx, hD y hy x hx, hL y hy x hx, hR y hy x hx]
      omega
    · intro y hy x hx h1 h2
      rw [hgN y (by omega) x hx, hgN (y + 1) hy x hx]
      exact hV y (by omega) x hx (by rw [← hgH y (by omega) x hx]; exact h1) (by rw [← hgH (y + 1) hy x hx]; exact h2)
    · intro y hy x hx h1 h2
      rw [hgN y hy x (by omega), hgN y hy (x + 1) hx]
      exact hH y hy x (by omega) (by rw [← hgH y hy x (by omega)]; exact h1) (by rw [← hgH y hy (x + 1) hx]; exact h2)
  · rintro ⟨hSi, hG, hE, h2, hV, hH⟩
    refine ⟨⟨⟨⟨⟨⟨⟨⟨fun y hy x hx => (hSi y hy x hx).1, fun y hy x hx => (hSi y hy x hx).2.1⟩,
      fun y hy x hx => (hSi y hy x hx).2.2.1⟩, fun y hy x hx => (hSi y hy x hx).2.2.2⟩, ?_⟩, ?_⟩, ?_⟩, ?_⟩, ?_⟩
    · intro y hy x hx ht
      have := (rule2_iff pb.height pb.width has _ hy hx).1 (h2 y hy x hx (by rw [hgH y hy x hx]; exact ht))
      obtain ⟨e1, e2, e3, e4⟩ := hSi y hy x hx
      rw [← hgN y hy x hx, this, e1, e2, e3, e4]
      omega
    · intro y hy x hx h1 h2
      rw [← hgN y (by omega) x hx, ← hgN (y + 1) (by omega) x hx]
      exact hV y (by omega) x hx (by rw [hgH y (by omega) x hx]; exact h1) (by rw [hgH (y + 1) (by omega) x hx]; exact h2)
    · intro y hy x hx h1 h2
      rw [← hgN y hy x (by omega), ← hgN y hy (x + 1) (by omega)]
      exact hH y hy x (by omega) (by rw [hgH y hy x (by omega)]; exact h1) (by rw [hgH y hy (x + 1) (by omega)]; exact h2)
    · intro y hy x hx hf
      rw [← hgN y hy x hx]
      exact hE y hy x hx (by rw [hgH y hy x hx]; exact hf)
    · intro y hy x hx hv
      rw [← hgH y hy x hx, ← hgN y hy x hx]
      exact hG y hy x hx hv

/-! ### connectivity -/

theorem realizable_iff {pb : Problem} (hwf : WellFormed pb) (σ : Asg) (has : Nat → Nat → Bool)
    (hgH : ∀ y, y < pb.height → ∀ x, x < pb.width → has y x = σ.b (y * pb.width + x)) :
    Realizable (pb.height * pb.width) (avc pb) σ ↔
      CellsConnected pb.height pb.width (fun y x => has y x = true) := by
  have hreal := Cspuz.C04.C04_aux_exact (Graph.grid pb.height pb.width) (bvars 0 (pb.height * pb.width))
    (pb.height * pb.width) false (avc pb) σ (C04Prim.grid_wf _ _) (by intro h; cases h)
    (by simp [bvars, Graph.grid]) (C11FragWT.bvars_boolArgs _) (avc_eq hwf)
  simp only [Bool.false_eq_true, if_false] at hreal
  rw [hreal, C11CellGraph.activeConnected_grid_iff pb.height pb.width _ (fun y x => has y x = true) (by
    intro y x hy hx
    rw [C11FragWT.truthAt_bvars σ _ _ (C11Grid.cell_lt hy hx), hgH y hy x hx])]

theorem avc_cs_wt (pb : Problem) : ∀ c ∈ (avc pb).cs,
    wtB c = true ∧ c.varsBelow (pb.height * pb.width + (avc pb).decls.length) = true :=
  C11FragWT.avcProg_wt (C04Prim.grid_wf _ _) (by simp [bvars, Graph.grid]) (C11FragWT.bvars_boolArgs _)

/-! ### the theorem -/

theorem sat_prog (pb : Problem) (σ : Asg) :
    Sat (prog pb).decls (prog pb).cs σ ↔
      σ.respects (prog pb).decls ∧ (∀ c ∈ (avc pb).cs, eval σ c = some (.b true)) ∧
        ∀ c ∈ locCs pb (3 * (pb.height * pb.width)) (4 * (pb.height * pb.width)) (5 * (pb.height * pb.width))
          (6 * (pb.height * pb.width)) (7 * (pb.height * pb.width)), eval σ c = some (.b true) := by
  unfold Sat
  rw [show (prog pb).cs = (avc pb).cs ++ locCs pb (3 * (pb.height * pb.width)) (4 * (pb.height * pb.width))
    (5 * (pb.height * pb.width)) (6 * (pb.height * pb.width)) (7 * (pb.height * pb.width)) from rfl, forall_append]

/-- (→) every model of the program, read on the key variables, obeys the rules. -/
theorem sound {pb : Problem} (hwf : WellFormed pb) (σ : Asg) (hsat : Sat (prog pb).decls (prog pb).cs σ) :
    RulesGrid pb (fun y x => σ.i (3 * (pb.height * pb.width) + (y * pb.width + x)))
      (fun y x => σ.b (y * pb.width + x)) := by
  obtain ⟨hresp, havc, hloc⟩ := (sat_prog pb σ).1 hsat
  rw [rulesGrid_iff]
  refine ⟨((loc_iff hwf σ _ _ (fun _ _ _ _ => rfl) (fun _ _ _ _ => rfl)).1 hloc).2, ?_⟩
  rw [← realizable_iff hwf σ _ (fun _ _ _ _ => rfl)]
  exact ⟨σ, AgreeBelow.refl _ _, ((respects_prog pb σ).1 hresp).1, havc⟩

/-- The completion of a pair of grids to an assignment of all variables, given the rank/root values `σ'`. -/
def complete (pb : Problem) (σ' : Asg) (num : Nat → Nat → Int) (has : Nat → Nat → Bool) : Asg :=
  { b := σ'.b,
    i := fun id =>
      if id < 3 * (pb.height * pb.width) then σ'.i id
      else if id < 4 * (pb.height * pb.width) then
        num ((id - 3 * (pb.height * pb.width)) / pb.width) ((id - 3 * (pb.height * pb.width)) % pb.width)
      else if id < 5 * (pb.height * pb.width) then
        upC has ((id - 4 * (pb.height * pb.width)) / pb.width) ((id - 4 * (pb.height * pb.width)) % pb.width)
      else if id < 6 * (pb.height * pb.width) then
        downC pb.height has ((id - 5 * (pb.height * pb.width)) / pb.width)
          ((id - 5 * (pb.height * pb.width)) % pb.width)
      else if id < 7 * (pb.height * pb.width) then
        leftC has ((id - 6 * (pb.height * pb.width)) / pb.width) ((id - 6 * (pb.height * pb.width)) % pb.width)
      else
        rightC pb.width has ((id - 7 * (pb.height * pb.width)) / pb.width)
          ((id - 7 * (pb.height * pb.width)) % pb.width) }

section Complete
variable (pb : Problem) (σ' : Asg) (num : Nat → Nat → Int) (has : Nat → Nat → Bool)

theorem complete_low {id : Nat} (hid : id < 3 * (pb.height * pb.width)) :
    (complete pb σ' num has).i id = σ'.i id := by
  simp only [complete, if_pos hid]

theorem complete_num {y x : Nat} (hy : y < pb.height) (hx : x < pb.width) :
    (complete pb σ' num has).i (3 * (pb.height * pb.width) + (y * pb.width + x)) = num y x := by
  have hc := C11Grid.cell_lt hy hx
  have hdm := C11Grid.cell_div_mod (w := pb.width) (y := y) hx
  simp only [complete]
  rw [if_neg (by omega), if_pos (by omega), Nat.add_sub_cancel_left, hdm.1, hdm.2]

theorem complete_up {y x : Nat} (hy : y < pb.height) (hx : x < pb.width) :
    (complete pb σ' num has).i (4 * (pb.height * pb.width) + (y * pb.width + x)) = upC has y x := by
  have hc := C11Grid.cell_lt hy hx
  have hdm := C11Grid.cell_div_mod (w := pb.width) (y := y) hx
  simp only [complete]
  rw [if_neg (by omega), if_neg (by omega), if_pos (by omega), Nat.add_sub_cancel_left, hdm.1, hdm.2]

theorem complete_down {y x : Nat} (hy : y < pb.height) (hx : x < pb.width) :
    (complete pb σ' num has).i (5 * (pb.height * pb.width) + (y * pb.width + x)) = downC pb.height has y x := by
  have hc := C11Grid.cell_lt hy hx
  have hdm := C11Grid.cell_div_mod (w := pb.width) (y := y) hx
  simp only [complete]
  rw [if_neg (by omega), if_neg (by omega), if_neg (by omega), if_pos (by omega), Nat.add_sub_cancel_left,
    hdm.1, hdm.2]

theorem complete_left {y x : Nat} (hy : y < pb.height) (hx : x < pb.width) :
    (complete pb σ' num has).i (6 * (pb.height * pb.width) + (y * pb.width + x)) = leftC has y x := by
  have hc := C11Grid.cell_lt hy hx
  have hdm := C11Grid.cell_div_mod (w := pb.width) (y := y) hx
  simp only [complete]
  rw [if_neg (by omega), if_neg (by omega), if_neg (by omega), if_neg (by omega), if_pos (by omega),
    Nat.add_sub_cancel_left, hdm.1, hdm.2]

theorem complete_right {y x : Nat} (hy : y < pb.height) (hx : x < pb.width) :
    (complete pb σ' num has).i (7 * (pb.height * pb.width) + (y * pb.width + x)) = rightC pb.width has y x := by
  have hc := C11Grid.cell_lt hy hx
  have hdm := C11Grid.cell_div_mod (w := pb.width) (y := y) hx
  simp only [complete]
  rw [if_neg (by omega), if_neg (by omega), if_neg (by omega), if_neg (by omega), if_neg (by omega),
    Nat.add_sub_cancel_left, hdm.1, hdm.2]

theorem complete_agree : AgreeBelow (3 * (pb.height * pb.width)) σ' (complete pb σ' num has) :=
  fun _ hid => ⟨rfl, (complete_low pb σ' num has hid).symm⟩

end Complete

/-- (←) a rule-obeying pair of grids extends to a model of the program. -/
theorem complete_sat {pb : Problem} (hwf : WellFormed pb) (num : Nat → Nat → Int) (has : Nat → Nat → Bool)
    (hR : RulesGrid pb num has) :
    ∃ σ, Sat (prog pb).decls (prog pb).cs σ ∧
      (∀ y, y < pb.height → ∀ x, x < pb.width →
        num y x = σ.i (3 * (pb.height * pb.width) + (y * pb.width + x))) ∧
      (∀ y, y < pb.height → ∀ x, x < pb.width → has y x = σ.b (y * pb.width + x)) := by
  obtain ⟨hL, hconn⟩ := (rulesGrid_iff pb num has).1 hR
  let σ₀ : Asg := { b := fun i => has (i / pb.width) (i % pb.width), i := fun _ => 0 }
  have hg₀ : ∀ y, y < pb.height → ∀ x, x < pb.width → has y x = σ₀.b (y * pb.width + x) := by
    intro y _ x hx
    show has y x = has ((y * pb.width + x) / pb.width) ((y * pb.width + x) % pb.width)
    rw [(C11Grid.cell_div_mod hx).1, (C11Grid.cell_div_mod hx).2]
  obtain ⟨σ', hag, hsd, hsc⟩ := (realizable_iff hwf σ₀ has hg₀).2 hconn
  have hgH : ∀ y, y < pb.height → ∀ x, x < pb.width → has y x = (complete pb σ' num has).b (y * pb.width + x) := by
    intro y hy x hx
    rw [hg₀ y hy x hx]
    exact (hag _ (C11Grid.cell_lt hy hx)).1
  have hgN : ∀ y, y < pb.height → ∀ x, x < pb.width →
      num y x = (complete pb σ' num has).i (3 * (pb.height * pb.width) + (y * pb.width + x)) :=
    fun y hy x hx => (complete_num pb σ' num has hy hx).symm
  refine ⟨complete pb σ' num has, (sat_prog pb _).2 ⟨?_, ?_, ?_⟩, hgN, hgH⟩
  · -- declared bounds
    rw [respects_prog]
    refine ⟨?_, ?_⟩
    · intro k lo hi hk
      have hlt : k < (avc pb).decls.length := by
        rcases Nat.lt_or_ge k (avc pb).decls.length with h | h
        · exact h
        · rw [List.getElem?_eq_none h] at hk; cases hk
      rw [avc_len] at hlt
      rw [complete_low pb σ' num has (by omega)]
      exact hsd k lo hi hk
    · intro y hy x hx
      rw [complete_num pb σ' num has hy hx, complete_up pb σ' num has hy hx, complete_down pb σ' num has hy hx,
        complete_left pb σ' num has hy hx, complete_right pb σ' num has hy hx]
      have h1 := upC_le has y x
      have h2 := downC_le pb.height has y x
      have h3 := leftC_le has y x
      have h4 := rightC_le pb.width has y x
      refine ⟨?_, by omega, by omega, by omega, by omega⟩
      cases hb : has y x
      · rw [hL.2.1 y hy x hx hb]; omega
      · rw [(rule2_iff pb.height pb.width has _ hy hx).1 (hL.2.2.1 y hy x hx hb)]; omega
  · -- the connectivity fragment only mentions the variables below `3n`
    intro c hc
    have hvb := (avc_cs_wt pb c hc).2
    rw [avc_len, show pb.height * pb.width + 2 * (pb.height * pb.width) = 3 * (pb.height * pb.width) by omega] at hvb
    rw [← eval_congr_of_varsBelow (complete_agree pb σ' num has) c hvb]
    exact hsc c hc
  · -- the other constraints
    rw [loc_iff hwf _ num has hgN hgH]
    exact ⟨fun y hy x hx => ⟨complete_up pb σ' num has hy hx, complete_down pb σ' num has hy hx,
      complete_left pb σ' num has hy hx, complete_right pb σ' num has hy hx⟩, hL⟩

theorem encodes {pb : Problem} (hwf : WellFormed pb) : EncodesRules (prog pb) (Rules pb) := by
  intro a
  constructor
  · rintro ⟨σ, hsat, hk⟩
    refine ⟨_, _, ?_, sound hwf σ hsat⟩
    rw [keyVals_prog] at hk
    exact ((List.map_inj_right (fun _ _ e => Option.some.inj e)).mp hk).symm
  · rintro ⟨num, has, rfl, hR⟩
    obtain ⟨σ, hsat, hgN, hgH⟩ := complete_sat hwf num has hR
    refine ⟨σ, hsat, ?_⟩
    rw [keyVals_prog, intGrid_congr hgN, boolGrid_congr hgH]

theorem keysOk (pb : Problem) : (prog pb).KeysOk := by
  have hl := avc_len pb
  constructor
  · show (((List.range (pb.height * pb.width)).map fun i => 3 * (pb.height * pb.width) + i) ++
      List.range (pb.height * pb.width)).Nodup
    rw [List.nodup_append]
    refine ⟨List.nodup_range.map (fun a b hab => by
      have : 3 * (pb.height * pb.width) + a = 3 * (pb.height * pb.width) + b := hab
      omega), List.nodup_range, ?_⟩
    intro a ha b hb
    simp only [List.mem_map, List.mem_range] at ha hb
    obtain ⟨i, _, rfl⟩ := ha
    omega
  · intro k hk
    have hk' : k ∈ ((List.range (pb.height * pb.width)).map fun i => 3 * (pb.height * pb.width) + i) ++
      List.range (pb.height * pb.width) := hk
    simp only [List.mem_append, List.mem_map, List.mem_range] at hk'
    simp only [prog, List.length_append, List.length_replicate, hl]
    rcases hk' with ⟨i, hi, rfl⟩ | hk' <;> omega

theorem main (pb : Problem) (hwf : WellFormed pb) (P : PuzzleProg) (hP : program pb = .ok P) :
    EncodesRules P (Rules pb) ∧ P.KeysOk ∧ (∀ c ∈ P.cs, wtB c = true) := by
  rw [program_eq hwf] at hP
  cases hP
  refine ⟨encodes hwf, keysOk pb, ?_⟩
  intro c hc
  rcases List.mem_append.1 hc with hc | hc
  · exact (avc_cs_wt pb c hc).1
  · exact locCs_wt pb _ _ _ _ _ c hc

theorem total (pb : Problem) (hwf : WellFormed pb) : ∃ P, program pb = .ok P := ⟨_, program_eq hwf⟩

end Cspuz.Proofs.C11View
