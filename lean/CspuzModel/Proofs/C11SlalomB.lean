/-
  C11 for `solve_slalom`, part 7 (completeness): a drawing that obeys the rules extends to a model of the posted
  program - direction bits along the round trip, `passed` = "on the round trip", `gate_ord` = number of gate cells met so
  far.
-/
import CspuzModel.Proofs.C11SlalomA
import CspuzModel.Proofs.C11LoopDeg
namespace Cspuz.Proofs.C11SlalomB
open Cspuz Cspuz.Spec Cspuz.Spec.FrameGeom Cspuz.Spec.Loop Cspuz.Proofs Cspuz.Proofs.C11Loop
open Cspuz.Puzzles Cspuz.Puzzles.Loop Cspuz.Puzzles.Slalom Cspuz.Spec.Slalom Cspuz.Proofs.C11SlalomP
open Cspuz.Proofs.C11SlalomS Cspuz.Proofs.C11SlalomG Cspuz.Proofs.C11SlalomT Cspuz.Proofs.C11SlalomD
open Cspuz.Proofs.C11SlalomA

/-! ### the round trip as a periodic sequence -/

/-- the periodic sequence of a round trip. -/
def seqOf (t : List Pt) (o : Pt) : Nat → Pt := fun k => t.getD (k % t.length) o

theorem seqOf_lt (t : List Pt) (o : Pt) {k : Nat} (hk : k < t.length) : seqOf t o k = t.getD k o := by
  unfold seqOf; rw [Nat.mod_eq_of_lt hk]

theorem tourOf_seqOf (t : List Pt) (o : Pt) : tourOf t.length (seqOf t o) = t := by
  apply List.ext_getElem
  · simp [tourOf]
  · intro i h1 h2
    simp only [tourOf, List.getElem_map, List.getElem_range]
    rw [seqOf_lt t o h2]
    simp [List.getD, h2]

theorem seqOf_mem (t : List Pt) (o : Pt) (hL : 0 < t.length) (k : Nat) : seqOf t o k ∈ t := by
  unfold seqOf
  have h := Nat.mod_lt k hL
  simp only [List.getD, List.getElem?_eq_getElem h, Option.getD_some]
  exact List.getElem_mem h

theorem mem_seqOf (t : List Pt) (o : Pt) {p : Pt} (hp : p ∈ t) : ∃ k, k < t.length ∧ seqOf t o k = p := by
  obtain ⟨k, hk, hkp⟩ := List.getElem_of_mem hp
  refine ⟨k, hk, ?_⟩
  rw [seqOf_lt t o hk]
  simp [List.getD, hk, hkp]

theorem cyc_of_tour {H W : Nat} {on : Seg → Bool} {o : Pt} {t : List Pt} (ht : IsTour H W on o t) :
    Cyc H W on t.length (seqOf t o) ∧ seqOf t o 0 = o := by
  obtain ⟨hhead, hnd, hstep, hcover⟩ := ht
  have hL : 0 < t.length := by
    cases t with
    | nil => simp at hhead
    | cons a t => simp
  have hsucc : ∀ k, seqOf t o (k + 1) = t.getD (nxt t.length (k % t.length)) o := by
    intro k
    unfold seqOf nxt
    rw [Nat.mod_add_mod]
  refine ⟨⟨hL, ?_, ?_, ?_, ?_⟩, ?_⟩
  · intro k
    unfold seqOf
    rw [Nat.add_mod_right]
  · intro i j hi hj h
    rw [seqOf_lt t o hi, seqOf_lt t o hj] at h
    simp only [List.getD, List.getElem?_eq_getElem hi, List.getElem?_eq_getElem hj, Option.getD_some] at h
    exact (List.Nodup.getElem_inj_iff hnd).mp h
  · intro k
    rw [hsucc]
    exact hstep (k % t.length) (Nat.mod_lt _ hL)
  · intro s hs ho
    obtain ⟨k, hk, he⟩ := hcover s hs ho
    refine ⟨k, hk, ?_⟩
    rw [hsucc, Nat.mod_eq_of_lt hk, seqOf_lt t o hk]
    exact he
  · rw [seqOf_lt t o hL]
    cases t with
    | nil => simp at hhead
    | cons a t =>
      simp only [List.head?_cons, Option.some.injEq] at hhead
      simp [List.getD, hhead]

/-- A loop has at least three points. -/
theorem len_ge3 {H W : Nat} {on : Seg → Bool} (hl : IsLoop H W on) {L : Nat} {f : Nat → Pt} (c : Cyc H W on L f) : 3 ≤ L := by
  have hL := c.pos
  by_contra hlt
  have h12 : L = 1 ∨ L = 2 := by omega
  -- in both cases `f 2 = f 0`
  have hf2 : f 2 = f 0 := by
    apply (c.eq_iff _ _).mpr
    rcases h12 with rfl | rfl <;> rfl
  obtain ⟨s, hsv, hso, hse⟩ := c.step 0
  -- every drawn step at `f 0` is `s`
  have huniq : ∀ s' : Seg, s'.Valid H W → on s' = true → s'.Touches (f 0) → s' = s := by
    intro s' hv' ho' ht'
    have hq : ∃ q, s'.ends = (f 0, q) ∨ s'.ends = (q, f 0) := by
      rcases ht' with h | h
      · exact ⟨s'.ends.2, Or.inl (by rw [← h])⟩
      · exact ⟨s'.ends.1, Or.inr (by rw [← h])⟩
    obtain ⟨q, hq⟩ := hq
    have hst : stepOn H W on (f (L - 1 + 1)) q := by
      rw [Nat.sub_add_cancel hL, (c.eq_iff L 0).mpr (by simp)]
      exact ⟨s', hv', ho', hq⟩
    have hq' : q = f 1 := by
      rcases c.nbr (L - 1) hst with h | h
      · rw [h]; apply (c.eq_iff _ _).mpr
        rcases h12 with rfl | rfl <;> rfl
      · rw [h]; apply (c.eq_iff _ _).mpr
        rcases h12 with rfl | rfl <;> rfl
    subst hq'
    rcases hq with h | h <;> rcases hse with h' | h'
    · exact ends_inj (h.trans h'.symm)
    · exact (ends_asym h h').elim
    · exact (ends_asym h' h).elim
    · exact ends_inj (h.trans h'.symm)
  have hv0 : PtValid H W (f 0) := by
    have := C14.ends_valid H W s hsv
    rcases hse with h | h
    · rw [h] at this; exact this.1
    · rw [h] at this; exact this.2.1
  have hs0 : s ∈ pointSegs H W (f 0).1 (f 0).2 :=
    (C14.mem_pointSegs H W _ _ hv0.1 hv0.2 s).mpr ⟨hsv, by
      rcases hse with h | h
      · left; rw [h]
      · right; rw [h]⟩
  have hcount : (pointSegs H W (f 0).1 (f 0).2).countP (fun s => on s) = 1 :=
    countP_eq_one_of_unique _ _ (C14.pointSegs_nodup H W _ _) s hs0 hso (by
      intro s' hs' ho'
      obtain ⟨hv', ht'⟩ := (C14.mem_pointSegs H W _ _ hv0.1 hv0.2 s').mp hs'
      exact huniq s' hv' ho' ht')
  rcases C11LoopDeg.degree_of_loop H W on hl (f 0) hv0 with h | h <;> omega

/-! ### the assignment read off a round trip -/

/-- the step `s` is traversed by the round trip from its later end to its earlier end (`loop_dir = True`). -/
def dirBit (t : List Pt) (o : Pt) (s : Seg) : Bool :=
  (List.range t.length).any fun k => decide (s.ends = (seqOf t o (k + 1), seqOf t o k))

/-- `gate_ord`: the number of gate cells among the cells of the round trip up to `p` (0 off the round trip). -/
def ordVal (pb : Problem) (t : List Pt) (p : Pt) : Int :=
  if p ∈ t then ((gatesUpTo pb t (t.idxOf p) : Nat) : Int) else 0

theorem dirBit_iff (t : List Pt) (o : Pt) (s : Seg) :
    dirBit t o s = true ↔ ∃ k, k < t.length ∧ s.ends = (seqOf t o (k + 1), seqOf t o k) := by
  unfold dirBit
  rw [List.any_eq_true]
  constructor
  · rintro ⟨k, hk, h⟩
    exact ⟨k, List.mem_range.mp hk, by simpa using h⟩
  · rintro ⟨k, hk, h⟩
    exact ⟨k, List.mem_range.mpr hk, by simpa using h⟩

/-- An assignment whose segment, direction, `passed` and `gate_ord` variables are read off the drawing `on` and the
round trip `t`. -/
structure Built (pb : Problem) (σ : Asg) (on : Seg → Bool) (t : List Pt) : Prop where
  hon : ∀ s : Seg, s.Valid (pb.height - 1) (pb.width - 1) → onS pb σ s = on s
  hdir : ∀ s : Seg, s.Valid (pb.height - 1) (pb.width - 1) → dirS pb σ s = dirBit t (originN pb) s
  hpas : ∀ p : Pt, p.1 < pb.height → p.2 < pb.width → pasS pb σ p = decide (p ∈ t)
  hord : ∀ p : Pt, p.1 < pb.height → p.2 < pb.width → ordS pb σ p = ordVal pb t p

theorem goes_in_nb {pb : Problem} {σ : Asg} (h1 : 1 ≤ pb.height) (h2 : 1 ≤ pb.width) {a c : Pt} (h : goes pb σ a c) :
    c.1 < pb.height ∧ c.2 < pb.width ∧ ∃ i ∈ nbInfo pb.height pb.width c.1 c.2, i.1 = a ∧ inb pb σ i = true := by
  obtain ⟨_, _, c1, c2, _, ⟨i, hi, hi1, _⟩⟩ := stepOn_nb pb h1 h2 (goes_stepOn pb σ h)
  exact ⟨c1, c2, i, hi, hi1, (inb_iff pb σ c1 c2 hi).mpr (by rw [hi1]; exact h)⟩

theorem goes_out_nb {pb : Problem} {σ : Asg} (h1 : 1 ≤ pb.height) (h2 : 1 ≤ pb.width) {c b : Pt} (h : goes pb σ c b) :
    c.1 < pb.height ∧ c.2 < pb.width ∧ ∃ i ∈ nbInfo pb.height pb.width c.1 c.2, i.1 = b ∧ outb pb σ i = true := by
  obtain ⟨c1, c2, _, _, ⟨i, hi, hi1, _⟩, _⟩ := stepOn_nb pb h1 h2 (goes_stepOn pb σ h)
  exact ⟨c1, c2, i, hi, hi1, (outb_iff pb σ c1 c2 hi).mpr (by rw [hi1]; exact h)⟩

section Goes
variable {pb : Problem} {σ : Asg} {on : Seg → Bool} {t : List Pt} (B : Built pb σ on t)
  (c : Cyc (pb.height - 1) (pb.width - 1) on t.length (seqOf t (originN pb))) (h3 : 3 ≤ t.length)
include B c h3

/-- Under the assignment read off the round trip, the directed steps are the steps of the round trip. -/
theorem goes_iff (p q : Pt) :
    goes pb σ p q ↔ ∃ k, p = seqOf t (originN pb) k ∧ q = seqOf t (originN pb) (k + 1) := by
  constructor
  · rintro ⟨s, hv, ho, hs⟩
    rw [B.hon s hv] at ho
    rw [B.hdir s hv] at hs
    obtain ⟨k, hk, hc⟩ := c.cover s hv ho
    rcases hs with ⟨e, hd⟩ | ⟨e, hd⟩
    · rcases hc with e' | e'
      · have := e.symm.trans e'
        simp only [Prod.mk.injEq] at this
        exact ⟨k, this.1, this.2⟩
      · exfalso
        have : dirBit t (originN pb) s = true := (dirBit_iff _ _ _).mpr ⟨k, hk, e'⟩
        rw [hd] at this; cases this
    · obtain ⟨k', _, e'⟩ := (dirBit_iff _ _ _).mp hd
      have := e.symm.trans e'
      simp only [Prod.mk.injEq] at this
      exact ⟨k', this.2, this.1⟩
  · rintro ⟨k, rfl, rfl⟩
    obtain ⟨s, hv, ho, hs⟩ := c.step k
    refine ⟨s, hv, by rw [B.hon s hv]; exact ho, ?_⟩
    rw [B.hdir s hv]
    rcases hs with e | e
    · left
      refine ⟨e, ?_⟩
      cases hd : dirBit t (originN pb) s
      · rfl
      · exfalso
        obtain ⟨k', _, e'⟩ := (dirBit_iff _ _ _).mp hd
        have := e.symm.trans e'
        simp only [Prod.mk.injEq] at this
        have a1 := (c.eq_iff _ _).mp this.1
        have a2 := (c.eq_iff _ _).mp this.2
        -- k ≡ k' + 1 and k + 1 ≡ k' (mod L), so 2 ≡ 0 (mod L)
        have : (k + 2) % t.length = k % t.length := by
          rw [show k + 2 = (k + 1) + 1 by omega, Nat.add_mod (k + 1), a2, ← Nat.add_mod, ← a1]
        have hL : 0 < t.length := by omega
        have hr := Nat.mod_lt k hL
        rw [Nat.add_mod] at this
        have h2 : 2 % t.length = 2 := Nat.mod_eq_of_lt (by omega)
        rw [h2] at this
        by_cases hlt : k % t.length + 2 < t.length
        · rw [Nat.mod_eq_of_lt hlt] at this; omega
        · have : (k % t.length + 2) % t.length = k % t.length + 2 - t.length := by
            rw [Nat.mod_eq_sub_mod (by omega), Nat.mod_eq_of_lt (by omega)]
          omega
    · right
      exact ⟨e, (dirBit_iff _ _ _).mpr ⟨k % t.length, Nat.mod_lt _ (by omega), by
        rw [e]
        congr 1
        · apply (c.eq_iff _ _).mpr
          exact (Nat.mod_add_mod k _ 1).symm
        · exact c.mod k⟩⟩

theorem indeg (h1 : 1 ≤ pb.height) (h2 : 1 ≤ pb.width) (p : Pt) (p1 : p.1 < pb.height) (p2 : p.2 < pb.width) :
    (nbInfo pb.height pb.width p.1 p.2).countP (inb pb σ) = if pasS pb σ p = true then 1 else 0 := by
  have hL : 0 < t.length := by omega
  rw [B.hpas p p1 p2]
  by_cases hp : p ∈ t
  · simp only [hp, decide_true, if_true]
    obtain ⟨j, hj, hjp⟩ := mem_seqOf t (originN pb) hp
    have hgo : goes pb σ (seqOf t (originN pb) (j + t.length - 1)) p := by
      rw [goes_iff B c h3]
      refine ⟨j + t.length - 1, rfl, ?_⟩
      rw [show j + t.length - 1 + 1 = j + t.length by omega, c.per, hjp]
    obtain ⟨_, _, i, hi, hi1, hin⟩ := goes_in_nb h1 h2 hgo
    apply countP_eq_one_of_unique _ _ (nbInfo_nodup' _ _ _ _) i hi hin
    intro i' hi' hin'
    apply nbInfo_fst_inj hi' hi
    rw [hi1]
    have hgo' := (inb_iff pb σ p1 p2 hi').mp hin'
    obtain ⟨k', e1, e2⟩ := (goes_iff B c h3 _ _).mp hgo'
    rw [e1]
    apply (c.eq_iff _ _).mpr
    have : (k' + 1) % t.length = (j + t.length - 1 + 1) % t.length := by
      rw [← (c.eq_iff _ _), ← e2, show j + t.length - 1 + 1 = j + t.length by omega, c.per, hjp]
    exact Nat.ModEq.add_right_cancel' 1 this
  · simp only [hp, decide_false, Bool.false_eq_true, if_false]
    rw [List.countP_eq_zero]
    intro i hi hin
    obtain ⟨k, _, e2⟩ := (goes_iff B c h3 _ _).mp ((inb_iff pb σ p1 p2 hi).mp hin)
    apply hp
    have : (p.1, p.2) = p := rfl
    rw [← this, e2]
    exact seqOf_mem t _ hL _

theorem outdeg (h1 : 1 ≤ pb.height) (h2 : 1 ≤ pb.width) (p : Pt) (p1 : p.1 < pb.height) (p2 : p.2 < pb.width) :
    (nbInfo pb.height pb.width p.1 p.2).countP (outb pb σ) = if pasS pb σ p = true then 1 else 0 := by
  have hL : 0 < t.length := by omega
  rw [B.hpas p p1 p2]
  by_cases hp : p ∈ t
  · simp only [hp, decide_true, if_true]
    obtain ⟨j, hj, hjp⟩ := mem_seqOf t (originN pb) hp
    have hgo : goes pb σ p (seqOf t (originN pb) (j + 1)) := by
      rw [goes_iff B c h3]
      exact ⟨j, hjp.symm, rfl⟩
    obtain ⟨_, _, i, hi, hi1, hout⟩ := goes_out_nb h1 h2 hgo
    apply countP_eq_one_of_unique _ _ (nbInfo_nodup' _ _ _ _) i hi hout
    intro i' hi' hout'
    apply nbInfo_fst_inj hi' hi
    rw [hi1]
    have hgo' := (outb_iff pb σ p1 p2 hi').mp hout'
    obtain ⟨k', e1, e2⟩ := (goes_iff B c h3 _ _).mp hgo'
    rw [e2]
    apply (c.eq_iff _ _).mpr
    have : k' % t.length = j % t.length := by
      rw [← (c.eq_iff _ _), ← e1, hjp]
    rw [Nat.add_mod, this, ← Nat.add_mod]
  · simp only [hp, decide_false, Bool.false_eq_true, if_false]
    rw [List.countP_eq_zero]
    intro i hi hout
    obtain ⟨k, e1, _⟩ := (goes_iff B c h3 _ _).mp ((outb_iff pb σ p1 p2 hi).mp hout)
    apply hp
    have : (p.1, p.2) = p := rfl
    rw [← this, e1]
    exact seqOf_mem t _ hL _

end Goes

/-! ### the gate counter along the round trip -/

theorem cnt_mono (pb : Problem) (g : Nat → Pt) {i j : Nat} (h : i ≤ j) : cnt pb g i ≤ cnt pb g j := by
  induction j with
  | zero => have : i = 0 := by omega
            subst this; exact Nat.le_refl _
  | succ j ih =>
    by_cases hij : i = j + 1
    · subst hij; exact Nat.le_refl _
    · have := ih (by omega)
      rw [cnt_succ]; omega

theorem cnt_lt (pb : Problem) (g : Nat → Pt) {i j : Nat} (h : i < j) (hg : onGate pb (g j) = true) :
    cnt pb g i < cnt pb g j := by
  obtain ⟨j', rfl⟩ : ∃ j', j = j' + 1 := ⟨j - 1, by omega⟩
  have := cnt_mono pb g (show i ≤ j' by omega)
  rw [cnt_succ, hg]
  simp only [if_true]
  omega

theorem gatesUpTo_cnt (pb : Problem) (t : List Pt) (o : Pt) {k : Nat} (hk : k < t.length) :
    gatesUpTo pb t k = cnt pb (seqOf t o) k := by
  unfold gatesUpTo cnt
  rw [show t.take (k + 1) = (tourOf t.length (seqOf t o)).take (k + 1) by rw [tourOf_seqOf],
    tourOf_take _ _ (by omega : k + 1 ≤ t.length)]
  congr 1
  funext p
  exact (onGate_eq pb p).symm

theorem ordVal_tour (pb : Problem) {t : List Pt} (hnd : t.Nodup) (o : Pt) {k : Nat} (hk : k < t.length) :
    ordVal pb t (seqOf t o k) = ((cnt pb (seqOf t o) k : Nat) : Int) := by
  have hmem : seqOf t o k ∈ t := seqOf_mem t o (by omega) k
  have hget : seqOf t o k = t[k] := by
    rw [seqOf_lt t o hk]; simp [List.getD, hk]
  unfold ordVal
  rw [if_pos hmem, hget, List.Nodup.idxOf_getElem hnd, gatesUpTo_cnt pb t o hk]

theorem stepOn_onLoop {H W : Nat} {on : Seg → Bool} {p q : Pt} (h : stepOn H W on p q) : onLoop H W on p = true := by
  obtain ⟨s, hv, ho, hs⟩ := h
  have hev := C14.ends_valid H W s hv
  have hp : PtValid H W p ∧ s.Touches p := by
    rcases hs with e | e
    · rw [e] at hev; exact ⟨hev.1, Or.inl (by rw [e])⟩
    · rw [e] at hev; exact ⟨hev.2.1, Or.inr (by rw [e])⟩
  unfold onLoop
  rw [List.any_eq_true]
  exact ⟨s, (C14.mem_pointSegs H W _ _ hp.1.1 hp.1.2 s).mpr ⟨hv, hp.2⟩, ho⟩

/-! ### from the rules to the local constraints -/

/-- Rules 4 and 5 for all gates, as they appear in `RulesOn`. -/
def GateRules (pb : Problem) (t : List Pt) : Prop :=
  ∀ g ∈ pb.gates, ∃ k, k < t.length ∧
    t.getD k (originN pb) ∈ gateCellsN g ∧
    (∀ j, j < t.length → t.getD j (originN pb) ∈ gateCellsN g → j = k) ∧
    crossesStraight g (t.getD (prv t.length k) (originN pb)) (t.getD k (originN pb)) (t.getD (nxt t.length k) (originN pb)) ∧
    (1 ≤ g.n → ((gatesUpTo pb t k : Nat) : Int) = g.n)

section Rules
variable {pb : Problem} {σ : Asg} {on : Seg → Bool} {t : List Pt}
  (hw : WellFormed pb) (B : Built pb σ on t) (hl : IsLoop (pb.height - 1) (pb.width - 1) on)
  (hblk : ∀ y, y < pb.height → ∀ x, x < pb.width → black pb y x = true →
    onLoop (pb.height - 1) (pb.width - 1) on (y, x) = false)
  (ht : IsTour (pb.height - 1) (pb.width - 1) on (originN pb) t) (hgr : GateRules pb t)
include hw B hl hblk ht hgr

omit hl hblk ht in
theorem rules_gates : ∀ γ ∈ pb.gates, (gateCellsN γ).countP (pasS pb σ) = 1 := by
  intro γ hγ
  obtain ⟨k, hk, hkc, huniq, _, _⟩ := hgr γ hγ
  have hnd : (pb.gates.flatMap gateCellsN).Nodup := hw.2.2.2.2.2.2.2.2
  have hcn : (gateCellsN γ).Nodup := (List.nodup_flatMap.mp hnd).1 γ hγ
  have hin := gateCellsN_in (wf_gateOnBoard pb hw γ hγ)
  have hmem : t.getD k (originN pb) ∈ t := by
    simp only [List.getD, List.getElem?_eq_getElem hk, Option.getD_some]; exact List.getElem_mem hk
  apply countP_eq_one_of_unique _ _ hcn _ hkc
  · obtain ⟨a1, a2⟩ := hin _ hkc
    rw [B.hpas _ a1 a2]; simpa using hmem
  · intro b hb hpb
    obtain ⟨b1, b2⟩ := hin _ hb
    rw [B.hpas _ b1 b2] at hpb
    have hbt : b ∈ t := by simpa using hpb
    obtain ⟨j, hj, hjb⟩ := List.getElem_of_mem hbt
    have hjd : t.getD j (originN pb) = b := by simp [List.getD, hj, hjb]
    have := huniq j hj (by rw [hjd]; exact hb)
    rw [← hjd, this]

theorem rules_cell (p : Pt) (p1 : p.1 < pb.height) (p2 : p.2 < pb.width) : CellOK pb σ p := by
  obtain ⟨c, g0⟩ := cyc_of_tour ht
  have h3 := len_ge3 hl c
  have hL : 0 < t.length := by omega
  have hnd : t.Nodup := ht.2.1
  have hgnd : (pb.gates.flatMap gateCellsN).Nodup := hw.2.2.2.2.2.2.2.2
  refine ⟨indeg B c h3 hw.1 hw.2.1 p p1 p2, outdeg B c h3 hw.1 hw.2.1 p p1 p2, ?_, ?_, ?_⟩
  · intro hb
    rw [B.hpas p p1 p2]
    by_contra hp
    have hpt : p ∈ t := by simpa using hp
    obtain ⟨j, _, hjp⟩ := mem_seqOf t (originN pb) hpt
    have := stepOn_onLoop (c.step j)
    rw [hjp, hblk p.1 p1 p.2 p2 hb] at this
    cases this
  · intro _ hne i hi hin
    obtain ⟨_, _, _, i1, i2, _⟩ := nbInfo_spec p1 p2 hi
    obtain ⟨k, e1, e2⟩ := (goes_iff B c h3 _ _).mp ((inb_iff pb σ p1 p2 hi).mp hin)
    have e2' : p = seqOf t (originN pb) (k + 1) := e2
    have hk' : k % t.length + 1 < t.length := by
      by_contra hge
      have hr := Nat.mod_lt k hL
      have : (k + 1) % t.length = 0 := by
        rw [Cyc.succ_mod' k _ hL, if_pos (by omega)]
      apply hne
      have e0 : seqOf t (originN pb) (k + 1) = seqOf t (originN pb) 0 :=
        (c.eq_iff _ _).mpr (by rw [this, Nat.zero_mod])
      rw [e2', e0, g0]
    have ea : i.1 = seqOf t (originN pb) (k % t.length) := by rw [e1]; exact c.mod k
    have eb : p = seqOf t (originN pb) (k % t.length + 1) := by
      rw [e2']
      apply (c.eq_iff _ _).mpr
      exact (Nat.mod_add_mod k _ 1).symm
    rw [B.hord i.1 i1 i2, B.hord p p1 p2, ea]
    conv_rhs => rw [eb]
    rw [ordVal_tour pb hnd _ (Nat.mod_lt _ hL), ordVal_tour pb hnd _ hk', cnt_succ, ← eb]
    split <;> simp
  · intro _ hne n hgid hn hps
    rw [B.hpas p p1 p2] at hps
    have hpt : p ∈ t := by simpa using hps
    obtain ⟨j, hj, hjp⟩ := List.getElem_of_mem hpt
    have hjd : t.getD j (originN pb) = p := by simp [List.getD, hj, hjp]
    obtain ⟨γ, hγ, hpγ, hγn⟩ := mem_of_gidF pb hgid
    obtain ⟨k, hk, _, huniq, _, hnum⟩ := hgr γ hγ
    have hjk := huniq j hj (by rw [hjd]; exact hpγ)
    subst hjk
    rw [B.hord p p1 p2]
    unfold ordVal
    rw [if_pos hpt, ← hjp, List.Nodup.idxOf_getElem hnd, hnum (by rw [hγn]; exact hn), hγn]

omit hw hl hblk hgr in
theorem rules_aux (p q : Pt) (p1 : p.1 < pb.height) (p2 : p.2 < pb.width) (q1 : q.1 < pb.height) (q2 : q.2 < pb.width)
    (hlt : cellLt p q = true) (_ : onGate pb p = true) (hq : onGate pb q = true) (hpp : pasS pb σ p = true)
    (hpq : pasS pb σ q = true) : ordS pb σ p ≠ ordS pb σ q := by
  have hnd : t.Nodup := ht.2.1
  rw [B.hpas p p1 p2] at hpp
  rw [B.hpas q q1 q2] at hpq
  have hpt : p ∈ t := by simpa using hpp
  have hqt : q ∈ t := by simpa using hpq
  obtain ⟨i, hi, hip⟩ := mem_seqOf t (originN pb) hpt
  obtain ⟨j, hj, hjq⟩ := mem_seqOf t (originN pb) hqt
  have hne : p ≠ q := by
    rintro rfl
    simp [cellLt, lexLt] at hlt
  have hij : i ≠ j := by
    rintro rfl
    exact hne (hip.symm.trans hjq)
  rw [B.hord p p1 p2, B.hord q q1 q2, ← hip, ← hjq, ordVal_tour pb hnd _ hi, ordVal_tour pb hnd _ hj]
  have hgp : onGate pb (seqOf t (originN pb) i) = true := by rw [hip]; assumption
  have hgq : onGate pb (seqOf t (originN pb) j) = true := by rw [hjq]; exact hq
  rcases Nat.lt_or_gt_of_ne hij with h | h
  · have := cnt_lt pb (seqOf t (originN pb)) h hgq; omega
  · have := cnt_lt pb (seqOf t (originN pb)) h hgp; omega

/-- The local constraints hold under the assignment read off a rule-obeying drawing. -/
theorem local_of_rules : Local pb σ := by
  refine ⟨rules_gates hw B hgr, ?_, rules_cell hw B hl hblk ht hgr, rules_aux B ht⟩
  obtain ⟨o1, o2, o3, o4⟩ := hw.2.2.2.2.1
  rw [B.hpas _ (by unfold originN; simp only []; omega) (by unfold originN; simp only []; omega)]
  have : originN pb ∈ t := by
    have := ht.1
    cases t with
    | nil => simp at this
    | cons a t =>
      simp only [List.head?_cons, Option.some.injEq] at this
      rw [this]; exact List.mem_cons_self
  simpa using this

/-- a gate that contains the cell. -/
def psi (pb : Problem) (c : Pt) : Gate := (pb.gates.find? fun γ => decide (c ∈ gateCellsN γ)).getD default

omit hw B hl hblk ht hgr in
theorem psi_spec {c : Pt} (hc : isGateCell pb c = true) : psi pb c ∈ pb.gates ∧ c ∈ gateCellsN (psi pb c) := by
  obtain ⟨γ, hγ, hcγ⟩ := mem_of_isGateCell pb hc
  unfold psi
  cases hf : pb.gates.find? (fun γ => decide (c ∈ gateCellsN γ)) with
  | none =>
    rw [List.find?_eq_none] at hf
    exact absurd (by simpa using hcγ) (hf γ hγ)
  | some γ' =>
    exact ⟨List.mem_of_find?_eq_some hf, by simpa using List.find?_some hf⟩

omit hw B hl hblk ht in
/-- The round trip meets at most as many gate cells as there are gates. -/
theorem gate_cells_le (hnd : t.Nodup) : t.countP (isGateCell pb) ≤ pb.gates.length := by
  rw [List.countP_eq_length_filter, ← List.length_map (f := psi pb)]
  apply List.Subperm.length_le
  apply List.subperm_of_subset
  · apply List.Nodup.map_on _ (hnd.filter _)
    intro x hx y hy hxy
    obtain ⟨hxt, hxg⟩ := List.mem_filter.mp hx
    obtain ⟨hyt, hyg⟩ := List.mem_filter.mp hy
    obtain ⟨hγ, hxc⟩ := psi_spec hxg
    obtain ⟨_, hyc⟩ := psi_spec hyg
    rw [← hxy] at hyc
    obtain ⟨k, _, _, huniq, _, _⟩ := hgr _ hγ
    obtain ⟨i, hi, hix⟩ := List.getElem_of_mem hxt
    obtain ⟨j, hj, hjy⟩ := List.getElem_of_mem hyt
    have e1 := huniq i hi (by simpa [List.getD, hi, hix] using hxc)
    have e2 := huniq j hj (by simpa [List.getD, hj, hjy] using hyc)
    subst e1
    subst e2
    exact hix.symm.trans hjy
  · intro γ hγ
    obtain ⟨c, hc, rfl⟩ := List.mem_map.mp hγ
    exact (psi_spec (List.mem_filter.mp hc).2).1

omit hw B hl hblk ht in
theorem ordVal_bounds (hnd : t.Nodup) (p : Pt) : 0 ≤ ordVal pb t p ∧ ordVal pb t p ≤ pb.gates.length := by
  unfold ordVal
  split
  · refine ⟨by omega, ?_⟩
    have h1 : gatesUpTo pb t (t.idxOf p) ≤ t.countP (isGateCell pb) :=
      List.Sublist.countP_le (List.take_sublist _ _)
    have h2 := gate_cells_le hgr hnd
    omega
  · exact ⟨by omega, by omega⟩

end Rules

end Cspuz.Proofs.C11SlalomB
